(* C14 — proofs about the LTS models of parallel.MapIterator / MapStream (Conc/ParMap.v).
   Stdlib only, no axioms.  Part 1: shared lemmas; Part 2: MapIterator (module MIP);
   Part 3: MapStream (module MSP). *)
From Juniper Require Import Common.Base Conc.GoLTS Conc.ParMap.
From Coq Require Import Arith PeanoNat Sorted.
Local Open Scope nat_scope.

(* ------------------------------------------------------------------ *)
(* Part 1: shared lemmas                                               *)
(* ------------------------------------------------------------------ *)

Definition b2n (b : bool) : nat := if b then 1 else 0.

Lemma nth_upd {A} (l : list A) n m x :
  nth_error (upd l n x) m = if Nat.eq_dec n m then (if lt_dec n (length l) then Some x else None)
                            else nth_error l m.
Proof.
  destruct (Nat.eq_dec n m) as [->|Hne].
  - destruct (lt_dec m (length l)) as [Hlt|Hge].
    + apply nth_error_upd_same; exact Hlt.
    + apply nth_error_None. rewrite upd_length. lia.
  - apply nth_error_upd_other; exact Hne.
Qed.

Lemma nth_lt {A} (l : list A) n x : nth_error l n = Some x -> n < length l.
Proof. intros H. apply nth_error_Some. congruence. Qed.

(* what a list looks like pointwise after an update at a valid position *)
Lemma nth_upd_cases {A} (l : list A) n x0 x m y :
  nth_error l n = Some x0 -> nth_error (upd l n x) m = Some y ->
  (m = n /\ y = x) \/ (m <> n /\ nth_error l m = Some y).
Proof.
  intros H0 H. rewrite nth_upd in H. destruct (Nat.eq_dec n m) as [->|Hne].
  - destruct (lt_dec m (length l)) as [_|Hge]; [|exfalso; apply Hge; eapply nth_lt; eauto].
    left. split; congruence.
  - right. split; [congruence | exact H].
Qed.

Fixpoint wsum {A} (m : A -> nat) (l : list A) : nat :=
  match l with [] => 0 | x :: t => m x + wsum m t end.

Lemma wsum_upd {A} (m : A -> nat) l n x y :
  nth_error l n = Some y -> wsum m (upd l n x) + m y = wsum m l + m x.
Proof.
  revert n; induction l as [|h t IH]; intros [|n] H; simpl in *; try discriminate.
  - inversion H; subst. lia.
  - specialize (IH n H). lia.
Qed.

Lemma wsum_le_length {A} (m : A -> nat) l : (forall x, m x <= 1) -> wsum m l <= length l.
Proof. intros H. induction l as [|h t IH]; simpl; [lia|]. specialize (H h). lia. Qed.

Lemma wsum_zero {A} (m : A -> nat) l :
  (forall w x, nth_error l w = Some x -> m x = 0) -> wsum m l = 0.
Proof.
  induction l as [|h t IH]; intros H; simpl; [reflexivity|].
  rewrite (H 0 h eq_refl). rewrite IH; [reflexivity|]. intros w x Hx. exact (H (S w) x Hx).
Qed.

Lemma wsum_pos {A} (m : A -> nat) l : 0 < wsum m l -> exists w x, nth_error l w = Some x /\ 0 < m x.
Proof.
  induction l as [|h t IH]; simpl; [lia|]. intros H.
  destruct (m h) eqn:E.
  - destruct (IH H) as (w & x & Hx & Hm). exists (S w), x. auto.
  - exists 0, h. simpl. split; [reflexivity | lia].
Qed.

Lemma wsum_all {A} (m : A -> nat) l :
  (forall w x, nth_error l w = Some x -> m x = 1) -> wsum m l = length l.
Proof.
  induction l as [|h t IH]; intros H; simpl; [reflexivity|].
  rewrite (H 0 h eq_refl). rewrite IH; [reflexivity|]. intros w x Hx. exact (H (S w) x Hx).
Qed.

Lemma wsum_full {A} (m : A -> nat) l :
  (forall x, m x <= 1) -> wsum m l = length l -> forall w x, nth_error l w = Some x -> m x = 1.
Proof.
  intros Hm. induction l as [|h t IH]; intros H w x Hx; [destruct w; discriminate|].
  simpl in H. pose proof (wsum_le_length m t Hm) as Hle. pose proof (Hm h) as Hh.
  destruct w as [|w]; simpl in Hx.
  - inversion Hx; subst. lia.
  - apply (IH ltac:(lia) w x Hx).
Qed.

Lemma wsum_repeat {A} (m : A -> nat) x n : wsum m (repeat x n) = n * m x.
Proof. induction n as [|n IH]; simpl; [reflexivity | rewrite IH; lia]. Qed.

(* ---- the re-order buffer ---- *)
Definition hle (a b : entry) : Prop := fst a <= fst b.
Definition hcnt (k : nat) (h : list entry) : nat := wsum (fun e => b2n (Nat.eqb (fst e) k)) h.
Definition hmatch (h : list entry) (n : nat) : bool :=
  match h with (k, _) :: _ => Nat.eqb k n | [] => false end.

Lemma hcnt_push k x h : hcnt k (hpush x h) = b2n (Nat.eqb (fst x) k) + hcnt k h.
Proof.
  unfold hcnt. induction h as [|y t IH]; simpl; [lia|].
  destruct (fst x <=? fst y); simpl; [lia | rewrite IH; lia].
Qed.

Lemma hpush_Forall (P : entry -> Prop) x h : P x -> Forall P h -> Forall P (hpush x h).
Proof.
  intros Hx Hh. induction Hh as [|y t Hy Ht IH]; simpl; [auto|].
  destruct (fst x <=? fst y); auto.
Qed.

Lemma hpush_sorted x h : StronglySorted hle h -> StronglySorted hle (hpush x h).
Proof.
  intros Hs. induction Hs as [|y t Ht IH Hy]; simpl.
  - constructor; [constructor | constructor].
  - destruct (fst x <=? fst y) eqn:E.
    + apply Nat.leb_le in E. constructor; [constructor; assumption|].
      constructor; [exact E|]. eapply Forall_impl; [|exact Hy]. unfold hle. intros a Ha. lia.
    + apply Nat.leb_gt in E. constructor; [exact IH|].
      apply hpush_Forall; [unfold hle; lia | exact Hy].
Qed.

Lemma hcnt_pos_in k h : 0 < hcnt k h -> exists v, In (k, v) h.
Proof.
  unfold hcnt. intros H. apply wsum_pos in H. destruct H as (w & [j v] & Hx & Hm). simpl in Hm.
  destruct (j =? k) eqn:E; [|simpl in Hm; lia]. apply Nat.eqb_eq in E. subst j.
  exists v. eapply nth_error_In; eauto.
Qed.

(* if index n is buffered and nothing below n is, the head of the buffer is n *)
Lemma head_is_next h n :
  StronglySorted hle h -> (forall j, 0 < hcnt j h -> n <= j) -> 0 < hcnt n h -> hmatch h n = true.
Proof.
  intros Hs Hlow Hn. destruct h as [|[k v] t]; [unfold hcnt in Hn; simpl in Hn; lia|].
  simpl. apply Nat.eqb_eq. inversion Hs as [|a b Ht Hall]; subst.
  assert (Hk : n <= k). { apply Hlow. unfold hcnt; simpl. rewrite Nat.eqb_refl. simpl. lia. }
  destruct (hcnt_pos_in _ _ Hn) as (v' & Hin). destruct Hin as [Heq|Hin]; [congruence|].
  rewrite Forall_forall in Hall. specialize (Hall _ Hin). unfold hle in Hall. simpl in Hall. lia.
Qed.

Lemma firstn_S_nth {A} (l : list A) n d : n < length l -> firstn (S n) l = firstn n l ++ [nth n l d].
Proof.
  revert n; induction l as [|h t IH]; intros n H; simpl in H; [lia|].
  destruct n as [|n]; [reflexivity|]. simpl. f_equal. apply IH. lia.
Qed.

Lemma firstn_all_eq {A} (l : list A) n : n = length l -> firstn n l = l.
Proof. intros ->. apply firstn_all. Qed.

Lemma norm_par_pos g p : (1 <= g)%Z -> (1 <= norm_par g p)%Z.
Proof. intros H. unfold norm_par. destruct (p <=? 0)%Z eqn:E; [exact H | apply Z.leb_gt in E; lia]. Qed.

Lemma norm_buf_ge p b : (p <= norm_buf p b)%Z.
Proof. unfold norm_buf. destruct (b <? p)%Z eqn:E; [lia | apply Z.ltb_ge in E; lia]. Qed.

Ltac dstep Hs :=
  repeat match type of Hs with
         | match ?e with _ => _ end = Some _ =>
             let E := fresh "E" in destruct e eqn:E; try discriminate Hs
         end.

(* ------------------------------------------------------------------ *)
(* Part 2: MapIterator                                                 *)
(* ------------------------------------------------------------------ *)
Module MIP.
Import MI.

Definition ditem (d : dpc) : option nat :=
  match d with DAcq k | DParked k | DSend k => Some k | _ => None end.
Definition dflag (d : dpc) : nat := match d with DAcq _ | DParked _ => 1 | _ => 0 end.
(* number of items handed to workers so far *)
Definition dd (s : st) : nat := match ditem (disp s) with Some k => k | None => pulled s end.

Definition held (x : wpc) : option nat :=
  match x with WHas k | WInF k | WSend k _ => Some k | _ => None end.
Definition holdsb (k : nat) (x : wpc) : bool :=
  match held x with Some j => Nat.eqb j k | None => false end.
Definition wcnt (k : nat) (l : list wpc) : nat := wsum (fun x => b2n (holdsb k x)) l.
Definition is_done (x : wpc) : bool := match x with WDone => true | _ => false end.
Definition inrange (s : st) (k : nat) : bool := (next s <=? k) && (k <? dd s).

Section Proofs.
Variable fv : Z -> Z.

Record Inv (s : st) : Prop := {
  i_par : 1 <= length (ws s) /\ (Z.of_nat (length (ws s)) <= buf s)%Z;
  i_pull : pulled s <= length (src s);
  i_item : forall k, ditem (disp s) = Some k -> S k = pulled s;
  i_infl : inflight s = (Z.of_nat (pulled s) - Z.of_nat (next s) - Z.of_nat (dflag (disp s)))%Z;
  i_cap : (inflight s <= buf s)%Z;
  i_park : forall k, disp s = DParked k -> inflight s = buf s;
  i_next : next s <= dd s;
  i_cnt : forall k, wcnt k (ws s) + hcnt k (heap s) = b2n (inrange s k);
  i_wval : forall w k v, nth_error (ws s) w = Some (WSend k v) -> v = fv (nth k (src s) 0%Z);
  i_hval : Forall (fun e : entry => snd e = fv (nth (fst e) (src s) 0%Z)) (heap s);
  i_sorted : StronglySorted hle (heap s);
  i_yield : yielded s = map fv (firstn (next s) (src s));
  i_inclosed : in_closed s = true <-> disp s = DDone;
  i_wexit : forall w x, nth_error (ws s) w = Some x -> (x = WExit \/ x = WDone) -> in_closed s = true;
  i_ndone : ndone s = wsum (fun x => b2n (is_done x)) (ws s);
  i_chclosed : ch_closed s = Nat.eqb (ndone s) (length (ws s));
  i_srcend : (disp s = DCloseIn \/ disp s = DDone) -> pulled s = length (src s);
  i_nomatch : cons s = CRecv -> hmatch (heap s) (next s) = false;
  i_end : cons s = CRet None -> next s = length (src s)
}.

Lemma wcnt_upd k l w x y :
  nth_error l w = Some y -> wcnt k (upd l w x) + b2n (holdsb k y) = wcnt k l + b2n (holdsb k x).
Proof. intros H. unfold wcnt. apply (wsum_upd (fun x => b2n (holdsb k x)) l w x y H). Qed.

Lemma wcnt_upd_same k l w x y :
  nth_error l w = Some y -> held x = held y -> wcnt k (upd l w x) = wcnt k l.
Proof.
  intros H Hh. pose proof (wcnt_upd k l w x y H) as E. unfold holdsb in E. rewrite Hh in E. lia.
Qed.

Lemma inv_init g par bufsz items gated : (1 <= g)%Z -> Inv (init g par bufsz items gated).
Proof.
  intros Hg. pose proof (norm_par_pos g par Hg) as Hp.
  pose proof (norm_buf_ge (norm_par g par) bufsz) as Hb.
  constructor; unfold init, dd, inrange; simpl; rewrite ?repeat_length; try lia; try discriminate.
  - intros k. unfold wcnt. rewrite wsum_repeat. unfold hcnt. simpl.
    destruct (k <? 0) eqn:E; [apply Nat.ltb_lt in E; lia|]. simpl. lia.
  - intros w k v H. apply nth_error_In in H. apply repeat_spec in H. discriminate.
  - constructor.
  - constructor.
  - reflexivity.
  - split; discriminate.
  - intros w x H. apply nth_error_In in H. apply repeat_spec in H. subst x. intros [E|E]; discriminate.
  - rewrite wsum_repeat. simpl. lia.
  - destruct (Z.to_nat (norm_par g par)) eqn:E; [lia | reflexivity].
  - intros [E|E]; discriminate.
Qed.

Ltac start HI := destruct HI as [Hpar Hpull Hitem Hinfl Hcap Hpark Hnext Hcnt Hwval Hhval Hsorted Hyield Hincl Hwexit Hndone Hchcl Hsrcend Hnomatch Hend].
Ltac prj := cbn [src buf rel reqs pulled disp inflight ws in_closed ndone ch_closed heap next cons yielded
                 ditem dflag set_disp set_w set_cons getw] in *.
Ltac pre := unfold inrange, dd, set_disp, set_w, set_cons, getw in *; prj.
Ltac rw :=
  repeat match goal with
         | E : disp _ = _ |- _ => rewrite E in *; clear E
         | E : cons _ = _ |- _ => rewrite E in *; clear E
         end; prj.
Ltac bdestr :=
  repeat match goal with
         | |- context [Nat.eqb ?a ?b] => destruct (Nat.eqb_spec a b)
         | H : context [Nat.eqb ?a ?b] |- _ => destruct (Nat.eqb_spec a b)
         | |- context [Nat.leb ?a ?b] => destruct (Nat.leb_spec a b)
         | H : context [Nat.leb ?a ?b] |- _ => destruct (Nat.leb_spec a b)
         | |- context [Nat.ltb ?a ?b] => destruct (Nat.ltb_spec a b)
         | H : context [Nat.ltb ?a ?b] |- _ => destruct (Nat.ltb_spec a b)
         end; cbn [b2n andb orb negb] in *; try lia.
Ltac easy1 :=
  first [ assumption | lia | discriminate | congruence
        | (intros; discriminate) | (intros; congruence) | (intros; lia)
        | (split; intros; congruence) | (intros [?|?]; congruence)
        | match goal with Hincl : _ <-> _ |- _ <-> _ =>
            split; [let X := fresh in intros X; apply Hincl in X; discriminate X
                   | let X := fresh in intros X; discriminate X] end ].
(* goals quantified over the worker list after an update at position w (Hy : nth_error (ws s) w = Some y) *)
Ltac wq Hy :=
  intros until 1;
  match goal with
  | H : nth_error (upd _ _ _) _ = Some _ |- _ =>
      destruct (nth_upd_cases _ _ _ _ _ _ Hy H) as [[? ?]|[? ?]]; subst
  end.
(* the standard obligations after worker w moved from y to x *)
Ltac wfields Hy Hcnt Hwval Hwexit Hndone :=
  solve
    [ (* count *)
      match goal with |- forall k, wcnt k (upd _ ?w ?x) + _ = _ =>
        let k0 := fresh "k0" in let U := fresh "U" in
        intros k0; pose proof (wcnt_upd k0 _ _ x _ Hy) as U; specialize (Hcnt k0);
        unfold holdsb in U; cbn [held] in U; bdestr end
    | (* ndone *)
      match goal with |- _ = wsum _ (upd _ ?w ?x) =>
        let U := fresh "U" in
        pose proof (wsum_upd (fun q => b2n (is_done q)) _ _ x _ Hy) as U; cbn [is_done b2n] in U; lia end
    | (* values / exits *)
      (wq Hy; solve [ eapply Hwval; eassumption | eapply Hwexit; eassumption | congruence
                    | (intros [?|?]; congruence) | (intros [?|?]; discriminate) ]) ].

Lemma inv_step s l s' : Inv s -> step fv s l = Some s' -> Inv s'.
Proof.
  intros HI Hs. unfold step in Hs. destruct l.
  - (* LSrcEnter *)
    dstep Hs. injection Hs as Hs; subst s'. start HI; pre; rw. constructor; pre; try easy1.
  - (* LSrcExit *)
    dstep Hs; injection Hs as Hs; subst s'; start HI; pre; rw.
    + apply Nat.ltb_lt in E0. constructor; pre; try easy1.
    + apply Nat.ltb_ge in E0. constructor; pre; try easy1.
  - (* LFEnter *)
    dstep Hs. injection Hs as Hs; subst s'. apply Nat.eqb_eq in E1; subst k0.
    start HI; pre; rw. constructor; pre; rewrite ?upd_length; try easy1;
      try wfields E Hcnt Hwval Hwexit Hndone.
  - (* LFExit *)
    dstep Hs. injection Hs as Hs; subst s'. apply andb_true_iff in E1. destruct E1 as [E1 Erel].
    apply Nat.eqb_eq in E1; subst k0.
    start HI; pre; rw. constructor; pre; rewrite ?upd_length; try easy1;
      try wfields E Hcnt Hwval Hwexit Hndone.
  - (* LCallNext *)
    dstep Hs. injection Hs as Hs; subst s'. start HI; pre; rw. constructor; pre; try easy1.
  - (* LRetNext *)
    dstep Hs. injection Hs as Hs; subst s'. start HI; pre; rw. constructor; pre; try easy1.
  - (* LReqNext *)
    injection Hs as Hs; subst s'. start HI; pre; rw. constructor; pre; try easy1.
  - (* LRelease *)
    injection Hs as Hs; subst s'. start HI; pre; rw. constructor; pre; try easy1.
  - discriminate Hs.
  - (* TAcquire *)
    dstep Hs; injection Hs as Hs; subst s'; start HI; pre; rw.
    + apply Z.geb_le in E0. constructor; pre; try easy1.
    + rewrite Z.geb_leb in E0. apply Z.leb_gt in E0. constructor; pre; try easy1.
  - (* TDispatch *)
    dstep Hs. injection Hs as Hs; subst s'. start HI; pre; rw.
    pose proof (Hitem k eq_refl) as Hk.
    constructor; pre; rewrite ?upd_length; try easy1; try wfields E0 Hcnt Hwval Hwexit Hndone.
  - (* TCloseIn *)
    dstep Hs. injection Hs as Hs; subst s'. start HI; pre; rw. constructor; pre; try easy1.
    intros _. apply Hsrcend. left; reflexivity.
  - (* TInClosed *)
    dstep Hs. injection Hs as Hs; subst s'. start HI; pre; rw.
    constructor; pre; rewrite ?upd_length; try easy1; try wfields E Hcnt Hwval Hwexit Hndone.
  - (* TWorkerDone *)
    dstep Hs. injection Hs as Hs; subst s'. start HI; pre; rw.
    pose proof (wsum_upd (fun q => b2n (is_done q)) _ _ WDone _ E) as U. cbn [is_done b2n] in U.
    pose proof (wsum_le_length (fun q => b2n (is_done q)) (upd (ws s) w WDone)) as L.
    rewrite upd_length in L.
    assert (Hlt : ndone s < length (ws s)).
    { assert (wsum (fun q => b2n (is_done q)) (upd (ws s) w WDone) <= length (ws s)).
      { apply L. intros x. destruct (is_done x); simpl; lia. }
      lia. }
    constructor; pre; rewrite ?upd_length; try easy1; try wfields E Hcnt Hwval Hwexit Hndone.
    + wq E; intros Hx; [eapply Hwexit; [exact E | left; reflexivity] | eapply Hwexit; eauto].
    + rewrite Hchcl. replace (ndone s =? length (ws s)) with false by (symmetry; apply Nat.eqb_neq; lia).
      reflexivity.
  - (* TLoop *)
    dstep Hs; injection Hs as Hs; subst s'; start HI; pre; rw.
    + (* empty heap *) constructor; pre; try easy1. intros _. rewrite E0. reflexivity.
    + (* pop *)
      apply Nat.eqb_eq in E2. subst n. rename l into t. rename z into v. rewrite E0 in *.
      assert (Hc1 : wcnt (next s) (ws s) + hcnt (next s) ((next s, v) :: t) = 1 /\ inrange s (next s) = true).
      { pose proof (Hcnt (next s)) as C. unfold inrange, dd. unfold hcnt in *. simpl in C |- *.
        rewrite Nat.eqb_refl in *. simpl in C |- *.
        destruct ((next s <=? next s) && (next s <? match ditem (disp s) with Some k0 => k0 | None => pulled s end));
          simpl in C; [split; [lia | reflexivity] | lia]. }
      destruct Hc1 as [Hc1 Hr]. unfold inrange, dd in Hr. apply andb_true_iff in Hr. destruct Hr as [_ Hr].
      apply Nat.ltb_lt in Hr.
      assert (Hdd : forall d', ditem d' = ditem (disp s) ->
                match ditem d' with Some k0 => k0 | None => pulled s end =
                match ditem (disp s) with Some k0 => k0 | None => pulled s end).
      { intros d' ->. reflexivity. }
      set (d' := match disp s with
                 | DParked j => if (inflight s - 1 =? buf s - 1)%Z then DAcq j else DParked j
                 | d => d end).
      assert (Hd' : ditem d' = ditem (disp s) /\ dflag d' = dflag (disp s)).
      { unfold d'. destruct (disp s); auto. destruct (inflight s - 1 =? buf s - 1)%Z; auto. }
      destruct Hd' as [Hd1 Hd2].
      assert (Hle : match ditem (disp s) with Some k0 => k0 | None => pulled s end <= pulled s).
      { destruct (ditem (disp s)) eqn:Ed; [specialize (Hitem _ eq_refl); lia | lia]. }
      constructor; pre; try easy1.
      * rewrite Hd1. exact Hitem.
      * intros k Hk. unfold d' in Hk. destruct (disp s) eqn:Ed; try discriminate Hk.
        destruct (inflight s - 1 =? buf s - 1)%Z eqn:Eb; [discriminate Hk|].
        apply Z.eqb_neq in Eb. specialize (Hpark _ eq_refl). lia.
      * rewrite Hd1. lia.
      * intros k. rewrite Hd1. specialize (Hcnt k). unfold hcnt in *. simpl in Hcnt. bdestr.
      * inversion Hhval; assumption.
      * inversion Hsorted; assumption.
      * inversion Hhval as [|a b Hv Ht]; subst. simpl in Hv. subst v.
        rewrite (firstn_S_nth (src s) (next s) 0%Z) by lia. rewrite map_app. simpl. rewrite Hyield. reflexivity.
      * rewrite Hincl. unfold d'. destruct (disp s); try (split; intros; congruence).
        destruct (inflight s - 1 =? buf s - 1)%Z; split; intros; congruence.
      * unfold d'. intros [X|X]; destruct (disp s); try discriminate X; try (apply Hsrcend; auto; fail);
          destruct (inflight s - 1 =? buf s - 1)%Z; discriminate X.
    + (* no match *) constructor; pre; try easy1. intros _. rewrite E0. simpl. exact E2.
  - (* TResult *)
    dstep Hs. injection Hs as Hs; subst s'. start HI; pre; rw.
    constructor; pre; rewrite ?upd_length; try easy1; try wfields E Hcnt Hwval Hwexit Hndone.
    + intros j. pose proof (wcnt_upd j _ _ WIdle _ E) as U. specialize (Hcnt j).
      unfold holdsb in U; cbn [held] in U. rewrite hcnt_push. cbn [fst]. bdestr.
    + apply hpush_Forall; [simpl; eapply Hwval; eauto | exact Hhval].
    + apply hpush_sorted. exact Hsorted.
  - (* TChClosed *)
    dstep Hs. injection Hs as Hs; subst s'. start HI; pre; rw.
    constructor; pre; try easy1.
    intros _.
    rewrite Hchcl in E0. apply Nat.eqb_eq in E0.
    assert (Hall : forall w x, nth_error (ws s) w = Some x -> x = WDone).
    { intros w x Hx. rewrite Hndone in E0.
      pose proof (wsum_full (fun q => b2n (is_done q)) (ws s)
                            ltac:(intros q; cbv beta; destruct (is_done q); simpl; lia) E0 w x Hx) as F.
      destruct x; simpl in F; try discriminate F. reflexivity. }
    destruct (ws s) as [|x0 tl] eqn:Ews; [simpl in Hpar; lia|].
    assert (Hic : in_closed s = true).
    { apply (Hwexit 0 x0 eq_refl). right. apply (Hall 0 x0 eq_refl). }
    apply Hincl in Hic. rewrite Hic in *. prj. specialize (Hsrcend (or_intror eq_refl)).
    destruct (Nat.eq_dec (next s) (pulled s)) as [|Hne]; [congruence|]. exfalso.
    assert (Hw0 : forall j, wcnt j (x0 :: tl) = 0).
    { intros j. apply wsum_zero. intros w x Hx. rewrite (Hall w x Hx). reflexivity. }
    assert (Hm : hmatch (heap s) (next s) = true).
    { apply head_is_next; [exact Hsorted | |].
      - intros j Hj. specialize (Hcnt j). rewrite Hw0 in Hcnt. bdestr.
      - pose proof (Hcnt (next s)) as C. rewrite Hw0 in C. bdestr. }
    rewrite Hnomatch in Hm by reflexivity. discriminate Hm.
Qed.

Lemma qstep_cases s l s' :
  qstep fv s l = Some s' -> (l = LQuiesce /\ s' = s) \/ step fv s l = Some s'.
Proof.
  destruct l; simpl; auto. destruct (quiescent fv s); [|discriminate]. intros H; inversion H; auto.
Qed.

Lemma inv_qstep s l s' : Inv s -> qstep fv s l = Some s' -> Inv s'.
Proof.
  intros HI Hq. destruct (qstep_cases _ _ _ Hq) as [[_ ->]|Hs]; [exact HI | eapply inv_step; eauto].
Qed.

Theorem reachable_inv g par bufsz items gated s :
  (1 <= g)%Z -> reachable (qstep fv) (init g par bufsz items gated) s -> Inv s.
Proof. intros Hg. apply invariant_rule; [apply inv_init; exact Hg | exact inv_qstep]. Qed.

(* the configuration never changes *)
Definition Conf (items : list Z) (b : Z) (p : nat) (s : st) : Prop :=
  src s = items /\ buf s = b /\ length (ws s) = p.

Lemma conf_step items b p s l s' : Conf items b p s -> step fv s l = Some s' -> Conf items b p s'.
Proof.
  unfold Conf. intros HC Hs. unfold step in Hs.
  destruct l; dstep Hs; try discriminate Hs; injection Hs as Hs; subst s'; pre; rewrite ?upd_length; exact HC.
Qed.

Theorem reachable_conf g par bufsz items gated s :
  reachable (qstep fv) (init g par bufsz items gated) s ->
  Conf items (norm_buf (norm_par g par) bufsz) (Z.to_nat (norm_par g par)) s.
Proof.
  apply invariant_rule.
  - unfold Conf, init; simpl. rewrite repeat_length. auto.
  - intros s0 l s1 HC Hq. destruct (qstep_cases _ _ _ Hq) as [[_ ->]|Hs]; [exact HC | eapply conf_step; eauto].
Qed.

(* ---- classification of the worker list ---- *)
Lemma ws_cases (l : list wpc) :
  (forall w x, nth_error l w = Some x -> x = WIdle \/ x = WDone) \/
  (exists w x, nth_error l w = Some x /\ x <> WIdle /\ x <> WDone).
Proof.
  induction l as [|h t IH].
  - left. intros [|w] x H; discriminate H.
  - destruct IH as [IH|(w & x & Hx & Hn)].
    + destruct h; try (right; exists 0; eexists; simpl; split; [reflexivity | split; discriminate]).
      * left. intros [|w] x H; simpl in H; [inversion H; auto | eapply IH; eauto].
      * left. intros [|w] x H; simpl in H; [inversion H; auto | eapply IH; eauto].
    + right. exists (S w), x. auto.
Qed.

Lemma ws_idle_or_alldone (l : list wpc) :
  (forall w x, nth_error l w = Some x -> x = WIdle \/ x = WDone) ->
  (exists w, nth_error l w = Some WIdle) \/ (forall w x, nth_error l w = Some x -> x = WDone).
Proof.
  induction l as [|h t IH]; intros H.
  - right. intros [|w] x Hx; discriminate Hx.
  - destruct (H 0 h eq_refl) as [->| ->].
    + left. exists 0. reflexivity.
    + destruct (IH (fun w x Hx => H (S w) x Hx)) as [[w Hw]|Hall].
      * left. exists (S w). exact Hw.
      * right. intros [|w] x Hx; simpl in Hx; [inversion Hx; reflexivity | eapply Hall; eauto].
Qed.

Lemma optZ_eqb_refl r : optZ_eqb r r = true.
Proof. destruct r; simpl; [apply Z.eqb_refl | reflexivity]. Qed.

Definition in_next (s : st) : Prop := cons s <> CIdle.
Definition env_pending (s : st) : Prop :=
  disp s = DInSrc \/ exists w k, nth_error (ws s) w = Some (WInF k).

Lemma progress_inv s :
  Inv s -> in_next s ->
  (exists l s', is_lib l = true /\ step fv s l = Some s') \/ env_pending s.
Proof.
  intros HI Hin. unfold in_next in Hin. unfold env_pending.
  destruct (cons s) eqn:Ec; [congruence | | |].
  - (* CLoop *) left. exists TLoop. unfold step. rewrite Ec.
    destruct (heap s) as [|[k v] t]; [eexists; split; reflexivity|].
    destruct (k =? next s); eexists; split; reflexivity.
  - (* CRecv *)
    destruct (ws_cases (ws s)) as [Hall|(w & x & Hx & Hn1 & Hn2)].
    2:{ destruct x; try congruence.
        - left. exists (LFEnter w k). unfold step, getw. rewrite Hx, Nat.eqb_refl. eexists; split; reflexivity.
        - right. right. eauto.
        - left. exists (TResult w). unfold step, getw. rewrite Hx, Ec. eexists; split; reflexivity.
        - left. exists (TWorkerDone w). unfold step, getw. rewrite Hx. eexists; split; reflexivity. }
    destruct (ch_closed s) eqn:Ecc.
    { left. exists TChClosed. unfold step. rewrite Ec, Ecc. eexists; split; reflexivity. }
    start HI.
    destruct (ws_idle_or_alldone _ Hall) as [[w Hw]|Hd].
    2:{ exfalso. rewrite Hchcl in Ecc. apply Nat.eqb_neq in Ecc. apply Ecc. rewrite Hndone.
        apply wsum_all. intros w x Hx. rewrite (Hd w x Hx). reflexivity. }
    destruct (disp s) eqn:Ed.
    + left. exists LSrcEnter. unfold step. rewrite Ed. eexists; split; reflexivity.
    + right. left. reflexivity.
    + left. exists TAcquire. unfold step. rewrite Ed. destruct (inflight s >=? buf s)%Z; eexists; split; reflexivity.
    + (* DParked: impossible *)
      exfalso. pose proof (Hpark k eq_refl) as Hb. pose proof (Hitem k eq_refl) as Hk.
      unfold inrange, dd in *. rewrite Ed in *. cbn [ditem dflag] in *.
      assert (Hw0 : forall j, wcnt j (ws s) = 0).
      { intros j. apply wsum_zero. intros w' x Hx. destruct (Hall w' x Hx) as [-> | ->]; reflexivity. }
      assert (Hm : hmatch (heap s) (next s) = true).
      { apply head_is_next; [exact Hsorted | |].
        - intros j Hj. specialize (Hcnt j). rewrite Hw0 in Hcnt. bdestr.
        - pose proof (Hcnt (next s)) as C. rewrite Hw0 in C. bdestr. }
      rewrite (Hnomatch Ec) in Hm. discriminate Hm.
    + left. exists (TDispatch w). unfold step, getw. rewrite Ed, Hw. eexists; split; reflexivity.
    + left. exists TCloseIn. unfold step. rewrite Ed. eexists; split; reflexivity.
    + left. exists (TInClosed w). unfold step, getw. rewrite Hw.
      replace (in_closed s) with true by (symmetry; apply Hincl; reflexivity). eexists; split; reflexivity.
  - (* CRet *) left. exists (LRetNext r). unfold step. rewrite Ec, optZ_eqb_refl. eexists; split; reflexivity.
Qed.

(* ---- the clauses of C14 for MapIterator ---- *)
Theorem in_order_exactly_once g par bufsz items gated s :
  (1 <= g)%Z -> reachable (qstep fv) (init g par bufsz items gated) s ->
  yielded s = map fv (firstn (next s) items) /\ next s <= length items /\
  (cons s = CRet None -> yielded s = map fv items).
Proof.
  intros Hg Hr. pose proof (reachable_inv _ _ _ _ _ _ Hg Hr) as HI.
  destruct (reachable_conf _ _ _ _ _ _ Hr) as (Hsrc & _ & _). start HI. rewrite Hsrc in *.
  split; [exact Hyield|]. split.
  - unfold dd in Hnext. destruct (ditem (disp s)) eqn:Ed; [specialize (Hitem _ eq_refl); lia | lia].
  - intros Hc. rewrite Hyield, (Hend Hc). rewrite firstn_all. reflexivity.
Qed.

Theorem inflight_bound g par bufsz items gated s :
  (1 <= g)%Z -> reachable (qstep fv) (init g par bufsz items gated) s ->
  (Z.of_nat (pulled s) - Z.of_nat (next s) <= norm_buf (norm_par g par) bufsz + 1)%Z.
Proof.
  intros Hg Hr. pose proof (reachable_inv _ _ _ _ _ _ Hg Hr) as HI.
  destruct (reachable_conf _ _ _ _ _ _ Hr) as (_ & Hbuf & _). start HI. rewrite Hbuf in *.
  destruct (disp s); cbn [dflag] in Hinfl; lia.
Qed.

Corollary inflight_bound_property g par bufsz items gated s :
  (1 <= g)%Z -> reachable (qstep fv) (init g par bufsz items gated) s ->
  (Z.of_nat (pulled s) - Z.of_nat (next s) <= Z.max 0 bufsz + norm_par g par + 1)%Z.
Proof.
  intros Hg Hr. pose proof (inflight_bound _ _ _ _ _ _ Hg Hr) as H.
  pose proof (norm_par_pos g par Hg) as Hp.
  unfold norm_buf in H. destruct (bufsz <? norm_par g par)%Z eqn:E; [lia|]. apply Z.ltb_ge in E. lia.
Qed.

Theorem no_deadlock g par bufsz items gated s :
  (1 <= g)%Z -> reachable (qstep fv) (init g par bufsz items gated) s -> in_next s ->
  (exists l s', is_lib l = true /\ step fv s l = Some s') \/ env_pending s.
Proof. intros Hg Hr. apply progress_inv. eapply reachable_inv; eauto. Qed.
End Proofs.
End MIP.

(* ------------------------------------------------------------------ *)
(* Part 3: MapStream — the invariant                                   *)
(* ------------------------------------------------------------------ *)
Module MSP.
Import MS.

Definition held (x : wpc) : option nat :=
  match x with THas k | TInF k | TSend k _ => Some k | _ => None end.
Definition holdsb (k : nat) (x : wpc) : bool :=
  match held x with Some j => Nat.eqb j k | None => false end.
Definition wcnt (k : nat) (l : list wpc) : nat := wsum (fun x => b2n (holdsb k x)) l.
(* where item k is: in a worker's hands, in the channel buffer, or in the re-order heap *)
Definition cnt (s : st) (k : nat) : nat := wcnt k (ws s) + hcnt k (cbuf s) + hcnt k (heap s).
Definition inrange (s : st) (k : nat) : bool := (next s <=? k) && (k <? ndisp s).

Definition wcarry (x : wpc) : option err := match x with TExit r | TRet r => r | _ => None end.
Definition dcarry (d : dpc) : option err :=
  match d with SCloseIn r | SCloseSrc r | SInClose r | SRet r => r | _ => None end.
Definition is_some {A} (o : option A) : bool := match o with Some _ => true | None => false end.
Definition nerrw (l : list wpc) : nat := wsum (fun x => b2n (is_some (wcarry x))) l.
Definition wfin (x : wpc) : bool := match x with TDone => true | _ => false end.
Definition wexited (x : wpc) : bool := match x with TRet _ | TDone => true | _ => false end.
Definition dpast (d : dpc) : bool :=       (* close(in) executed *)
  match d with SCloseSrc _ | SInClose _ | SRet _ | SDone => true | _ => false end.
Definition dclosed (d : dpc) : bool :=     (* s.Close() entered *)
  match d with SInClose _ | SRet _ | SDone => true | _ => false end.
Definition ddone (d : dpc) : bool := match d with SDone => true | _ => false end.
Definition kput (c : cpc) : nat := match c with KPut _ _ => 1 | _ => 0 end.
Definition kwaiting (c : cpc) : bool := match c with KSel _ | KWait => true | _ => false end.
Definition kclosed (c : cpc) : bool := match c with KCloseRet | KClosed => true | _ => false end.

(* an error value is justified by what the up-calls / the caller actually did *)
Definition valid_err (fl : list nat) (fe : list bool) (sf cc pd : bool) (e : err) : Prop :=
  match e with
  | EF k => In k fl /\ nthb fe k = true
  | ESrc => sf = true
  | ECtx ByClose => cc = true
  | ECtx ByParent => pd = true
  | ECtx ByError => False
  | ECtx ByWait => False
  end.
Definition valid_err_s (s : st) (e : err) : Prop :=
  valid_err (failed s) (ferr s) (srcfailed s) (close_called s) (pdone s) e.
(* an error value a goroutine is about to hand to the errgroup *)
Definition carrier_ok (ee : option err) (fl : list nat) (fe : list bool) (sf cc pd : bool) (e : err) : Prop :=
  match e with
  | ECtx ByError => ee <> None
  | ECtx ByWait => False
  | _ => valid_err fl fe sf cc pd e
  end.
Definition carrier_ok_s (s : st) (e : err) : Prop :=
  carrier_ok (eg_err s) (failed s) (ferr s) (srcfailed s) (close_called s) (pdone s) e.

Definition d_ok (s : st) : Prop :=
  match disp s with
  | SPull | SInSrc => pulled s = taken s /\ taken s = ndisp s
  | SWait k => pulled s = S (taken s) /\ taken s = ndisp s /\ k = ndisp s
  | SSend k => pulled s = taken s /\ taken s = S (ndisp s) /\ k = ndisp s
  | _ => ndisp s <= taken s <= S (ndisp s) /\ taken s <= pulled s <= S (taken s)
  end.
(* the dispatcher left its loop because the source ended *)
Definition d_normal (s : st) : Prop :=
  match disp s with
  | SCloseIn None | SCloseSrc None | SInClose None | SRet None => pulled s = length (src s) /\ ndisp s = pulled s
  | SDone => eg_err s = None -> pulled s = length (src s) /\ ndisp s = pulled s
  | _ => True
  end.
Definition wexit_ok (ic : bool) (ee : option err) (x : wpc) : Prop :=
  match x with
  | TExit None | TRet None => ic = true
  | TDone => ic = true \/ ee <> None
  | _ => True
  end.
Definition g_ok (s : st) : Prop :=
  match g s with
  | GLive => eg_err s = None /\ close_called s = false
  | GDone ByError => eg_err s <> None
  | GDone ByClose => close_called s = true
  | GDone ByParent => pdone s = true
  | GDone ByWait => egdone s = S (length (ws s))
  end.

Section Proofs.
Variable fv : Z -> Z.

Definition entry_ok (s : st) (e : entry) : Prop := snd e = fv (nth (fst e) (src s) 0%Z).

Record Inv (s : st) : Prop := {
  i_par : 1 <= length (ws s) /\ length (ws s) <= buf s;
  i_pull : pulled s <= length (src s);
  i_dok : d_ok s;
  i_tok : tokens s + taken s + kput (cons s) = buf s + next s;
  i_next : next s <= ndisp s;
  i_cnt : forall k, cnt s k <= b2n (inrange s k);
  i_cov : eg_err s = None -> nerrw (ws s) = 0 -> forall k, cnt s k = b2n (inrange s k);
  i_wval : forall w k v, nth_error (ws s) w = Some (TSend k v) -> v = fv (nth k (src s) 0%Z);
  i_cval : Forall (entry_ok s) (cbuf s);
  i_hval : Forall (entry_ok s) (heap s);
  i_sorted : StronglySorted hle (heap s);
  i_yield : yielded s = map fv (firstn (next s) (src s));
  i_inclosed : in_closed s = dpast (disp s);
  i_wexit : forall w x, nth_error (ws s) w = Some x -> wexit_ok (in_closed s) (eg_err s) x;
  i_ndone : ndone s = wsum (fun x => b2n (wexited x)) (ws s);
  i_cclosed : c_closed s = Nat.eqb (ndone s) (length (ws s));
  i_egdone : egdone s = wsum (fun x => b2n (wfin x)) (ws s) + b2n (ddone (disp s));
  i_srcclosed : src_closed s = b2n (dclosed (disp s));
  i_nomatch : kwaiting (cons s) = true -> hmatch (heap s) (next s) = false;
  i_kwait : cons s = KWait -> c_closed s = true /\ cbuf s = [];
  i_g : g_ok s;
  i_egerr : forall e, eg_err s = Some e -> valid_err_s s e;
  i_wcarry : forall w x e, nth_error (ws s) w = Some x -> wcarry x = Some e -> carrier_ok_s s e;
  i_dcarry : forall e, dcarry (disp s) = Some e -> carrier_ok_s s e;
  i_failed : forall k, In k (failed s) -> next s <= k /\ k < ndisp s /\ cnt s k = 0;
  i_dnormal : d_normal s;
  i_end : cons s = KRet REnd -> next s = length (src s);
  i_reterr : forall e, cons s = KRet (RErr e) -> valid_err_s s e;
  i_kclosed : kclosed (cons s) = true -> egdone s = S (length (ws s))
}.

Lemma wcnt_upd k l w x y :
  nth_error l w = Some y -> wcnt k (upd l w x) + b2n (holdsb k y) = wcnt k l + b2n (holdsb k x).
Proof. intros H. unfold wcnt. apply (wsum_upd (fun q => b2n (holdsb k q)) l w x y H). Qed.

Lemma valid_err_mono fl fe sf cc pd fl' sf' cc' pd' e :
  valid_err fl fe sf cc pd e ->
  (forall k, In k fl -> In k fl') -> (sf = true -> sf' = true) -> (cc = true -> cc' = true) ->
  (pd = true -> pd' = true) -> valid_err fl' fe sf' cc' pd' e.
Proof.
  intros H Hf Hs Hc Hp. destruct e as [k| |c]; simpl in *; [destruct H; split; auto | auto |].
  destruct c; auto.
Qed.

Lemma carrier_ok_mono ee fl fe sf cc pd ee' fl' sf' cc' pd' e :
  carrier_ok ee fl fe sf cc pd e ->
  (ee <> None -> ee' <> None) ->
  (forall k, In k fl -> In k fl') -> (sf = true -> sf' = true) -> (cc = true -> cc' = true) ->
  (pd = true -> pd' = true) -> carrier_ok ee' fl' fe sf' cc' pd' e.
Proof.
  intros H He Hf Hs Hc Hp. destruct e as [k| |c]; simpl in *; [destruct H; split; auto | auto |].
  destruct c; auto.
Qed.

Lemma valid_carrier ee fl fe sf cc pd e : valid_err fl fe sf cc pd e -> carrier_ok ee fl fe sf cc pd e.
Proof. destruct e as [k| |c]; simpl; auto. destruct c; simpl; tauto. Qed.

(* what the errgroup keeps: a recorded error was a justified carrier that came first *)
Lemma carrier_valid_first fl fe sf cc pd e :
  carrier_ok None fl fe sf cc pd e -> valid_err fl fe sf cc pd e.
Proof. destruct e as [k| |c]; simpl; auto. destruct c; simpl; auto; congruence. Qed.

Lemma wexit_ok_mono ic ee ic' ee' x :
  wexit_ok ic ee x -> (ic = true -> ic' = true) -> (ee <> None -> ee' <> None) -> wexit_ok ic' ee' x.
Proof. intros H Hi He. destruct x as [| | | |r|r|]; simpl in *; auto; [destruct r; auto | destruct r; auto | tauto]. Qed.

Lemma wsum_lt_length {A} (m : A -> nat) l w x :
  (forall y, m y <= 1) -> nth_error l w = Some x -> m x = 0 -> wsum m l < length l.
Proof.
  intros Hm. revert w. induction l as [|h t IH]; intros [|w] Hx H0; simpl in *; try discriminate.
  - inversion Hx; subst. pose proof (wsum_le_length m t Hm). lia.
  - specialize (IH w Hx H0). specialize (Hm h). lia.
Qed.

Lemma wfin_le1 y : b2n (wfin y) <= 1.
Proof. destruct (wfin y); simpl; lia. Qed.
Lemma wexited_le1 y : b2n (wexited y) <= 1.
Proof. destruct (wexited y); simpl; lia. Qed.

(* the group's context was cancelled by somebody entitled to: what a goroutine that observes it
   returns is a justified carrier, unless everything has already finished *)
Lemma ctx_carrier s c :
  g_ok s -> g s = GDone c -> egdone s <> S (length (ws s)) -> carrier_ok_s s (ECtx c).
Proof.
  unfold g_ok, carrier_ok_s. intros Hg E Hn. rewrite E in Hg. destruct c; simpl; auto.
Qed.

Lemma inv_init c : (1 <= c_gomaxprocs c)%Z -> Inv (init c).
Proof.
  intros Hg. pose proof (norm_par_pos _ (c_par c) Hg) as Hp.
  pose proof (norm_buf_ge (norm_par (c_gomaxprocs c) (c_par c)) (c_bufsz c)) as Hb.
  set (p := norm_par (c_gomaxprocs c) (c_par c)) in *.
  assert (Hrep : forall w x, nth_error (repeat TIdle (Z.to_nat p)) w = Some x -> x = TIdle).
  { intros w x H. apply nth_error_In in H. apply repeat_spec in H. exact H. }
  constructor; unfold init, d_ok, d_normal, g_ok, cnt, inrange, wcnt, nerrw, valid_err_s, carrier_ok_s; fold p; simpl;
    rewrite ?repeat_length, ?wsum_repeat; simpl; try lia; try discriminate; auto.
  all: try (intros; discriminate).
  - intros k. rewrite wsum_repeat. unfold hcnt. simpl. lia.
  - intros _ _ k. rewrite wsum_repeat. unfold hcnt. simpl. lia.
  - intros w k v H. apply Hrep in H. discriminate H.
  - constructor.
  - intros w x H. apply Hrep in H. subst x. exact I.
  - destruct (Z.to_nat p) eqn:E; [lia | reflexivity].
  - intros w x e H. apply Hrep in H. subst x. discriminate.
Qed.

Ltac start HI := destruct HI as [Hpar Hpull Hdok Htok Hnext Hcnt Hcov Hwval Hcval Hhval Hsorted Hyield Hincl Hwexit
  Hndone Hcclosed Hegdone Hsrccl Hnomatch Hkwait Hg Hegerr Hwcarry Hdcarry Hfailed Hdnormal Hend Hreterr Hkclosed].
Ltac prj := cbn [src ferr serr buf fgated sgated frel srel reqs nctx pdone g eg_err egdone pulled disp tokens ws
                 in_closed ndone cbuf c_closed heap next cons yielded taken ndisp failed srcfailed close_called
                 src_closed set_disp set_w set_cons set_g set_harness getw
                 kput kwaiting kclosed dpast dclosed ddone dcarry b2n] in *.
Ltac pre := unfold d_ok, d_normal, g_ok, cnt, inrange, valid_err_s, carrier_ok_s, entry_ok, set_disp, set_w, set_cons,
            set_g, set_harness, getw in *; prj.
Ltac rw :=
  repeat match goal with
         | E : disp _ = _ |- _ => rewrite E in *; clear E
         | E : cons _ = _ |- _ => rewrite E in *; clear E
         | E : g _ = _ |- _ => rewrite E in *; clear E
         end; prj.
Ltac bdestr :=
  repeat match goal with
         | |- context [Nat.eqb ?a ?b] => destruct (Nat.eqb_spec a b)
         | H : context [Nat.eqb ?a ?b] |- _ => destruct (Nat.eqb_spec a b)
         | |- context [Nat.leb ?a ?b] => destruct (Nat.leb_spec a b)
         | H : context [Nat.leb ?a ?b] |- _ => destruct (Nat.leb_spec a b)
         | |- context [Nat.ltb ?a ?b] => destruct (Nat.ltb_spec a b)
         | H : context [Nat.ltb ?a ?b] |- _ => destruct (Nat.ltb_spec a b)
         end; cbn [b2n andb orb negb] in *; try lia.
Ltac easy1 :=
  first [ assumption | lia | discriminate | congruence | exact I
        | (intros; discriminate) | (intros; congruence) | (intros; lia) | (intros; assumption)
        | (split; intros; congruence) | (intros [?|?]; congruence) ].
(* open a step lemma: invert the step, name the invariant's fields, split the goal *)
Ltac open_step HI Hs :=
  unfold step in Hs; dstep Hs; try discriminate Hs; injection Hs as Hs; subst; start HI; pre; rw.
Ltac wq Hy :=
  intros until 1;
  match goal with
  | H : nth_error (upd _ _ _) _ = Some _ |- _ =>
      destruct (nth_upd_cases _ _ _ _ _ _ Hy H) as [[? ?]|[? ?]]; subst
  end.

Ltac bools :=
  repeat match goal with
         | H : _ && _ = true |- _ => apply andb_true_iff in H; destruct H
         | H : Nat.eqb _ _ = true |- _ => apply Nat.eqb_eq in H
         | H : Nat.ltb _ _ = true |- _ => apply Nat.ltb_lt in H
         | H : Nat.leb _ _ = true |- _ => apply Nat.leb_le in H
         | H : negb _ = true |- _ => apply negb_true_iff in H
         end.

Ltac mono :=
  first [ (intros; eapply valid_err_mono; [eauto | auto with datatypes ..]; fail)
        | (intros; eapply carrier_ok_mono; [eauto | auto with datatypes ..]; fail)
        | (intros; eapply wexit_ok_mono; [eauto | auto ..]; fail) ].

Lemma step_LSrcEnter s s' : Inv s -> step fv s LSrcEnter = Some s' -> Inv s'.
Proof. intros HI Hs. open_step HI Hs. constructor; pre; try easy1. Qed.

Lemma not_done_disp s : egdone s = wsum (fun x => b2n (wfin x)) (ws s) + b2n (ddone (disp s)) ->
  ddone (disp s) = false -> egdone s <> S (length (ws s)).
Proof.
  intros H Hd. rewrite Hd in H. simpl in H.
  pose proof (wsum_le_length (fun x => b2n (wfin x)) (ws s) wfin_le1). lia.
Qed.

Lemma not_done_w s w x : egdone s = wsum (fun x => b2n (wfin x)) (ws s) + b2n (ddone (disp s)) ->
  nth_error (ws s) w = Some x -> wfin x = false -> egdone s <> S (length (ws s)).
Proof.
  intros H Hx Hf.
  pose proof (wsum_lt_length (fun x => b2n (wfin x)) (ws s) w x wfin_le1 Hx) as L. cbv beta in L.
  rewrite Hf in L. specialize (L eq_refl). destruct (ddone (disp s)); simpl in H; lia.
Qed.

Lemma step_LSrcExit o s s' : Inv s -> step fv s (LSrcExit o) = Some s' -> Inv s'.
Proof.
  intros HI Hs. pose proof (i_g _ HI) as Hg0. pose proof (i_egdone _ HI) as He0.
  unfold step in Hs. destruct (disp s) eqn:Ed; try discriminate Hs.
  assert (Hnd : egdone s <> S (length (ws s))) by (apply not_done_disp; [rewrite Ed; exact He0 | rewrite Ed; reflexivity]).
  destruct o.
  - dstep Hs. injection Hs as Hs; subst. start HI; pre; rw; bools; subst. constructor; pre; try easy1.
  - dstep Hs. injection Hs as Hs; subst. start HI; pre; rw; bools; subst. constructor; pre; try easy1.
  - dstep Hs. injection Hs as Hs; subst. start HI; pre; rw; bools; subst. constructor; pre; try easy1; try mono.
    intros e He. inversion He; subst. simpl. reflexivity.
  - destruct (g s) eqn:Eg; try discriminate Hs. dstep Hs. injection Hs as Hs; subst.
    pose proof (ctx_carrier s c Hg0 Eg Hnd) as Hc.
    start HI; pre; rw; bools; subst. constructor; pre; try easy1; try mono.
Qed.

Ltac simple_step := let HI := fresh "HI" in let Hs := fresh "Hs" in
  intros HI Hs; open_step HI Hs; bools; subst; constructor; pre; try easy1; try mono.

Lemma step_LSrcCloseEnter s s' : Inv s -> step fv s LSrcCloseEnter = Some s' -> Inv s'.
Proof. simple_step. Qed.
Lemma step_LSrcCloseExit s s' : Inv s -> step fv s LSrcCloseExit = Some s' -> Inv s'.
Proof. simple_step. Qed.
Lemma step_LReq c s s' : Inv s -> step fv s (LReq c) = Some s' -> Inv s'.
Proof. simple_step. Qed.
Lemma step_LReleaseF k s s' : Inv s -> step fv s (LReleaseF k) = Some s' -> Inv s'.
Proof. simple_step. Qed.
Lemma step_LReleaseS k s s' : Inv s -> step fv s (LReleaseS k) = Some s' -> Inv s'.
Proof. simple_step. Qed.
Lemma step_LCancelNext k s s' : Inv s -> step fv s (LCancelNext k) = Some s' -> Inv s'.
Proof. simple_step. Qed.
Lemma step_LCancelParent s s' : Inv s -> step fv s LCancelParent = Some s' -> Inv s'.
Proof. simple_step. destruct (g s) as [|[]]; auto. Qed.

Lemma step_LCallNext j s s' : Inv s -> step fv s (LCallNext j) = Some s' -> Inv s'.
Proof. simple_step. Qed.
Lemma step_LRetNext r s s' : Inv s -> step fv s (LRetNext r) = Some s' -> Inv s'.
Proof. simple_step. Qed.
Lemma step_LCallClose s s' : Inv s -> step fv s LCallClose = Some s' -> Inv s'.
Proof. simple_step. Qed.
Lemma step_LRetClose s s' : Inv s -> step fv s LRetClose = Some s' -> Inv s'.
Proof. simple_step. Qed.
Lemma step_TDReady s s' : Inv s -> step fv s TDReady = Some s' -> Inv s'.
Proof. simple_step. Qed.
Lemma step_TCloseIn s s' : Inv s -> step fv s TCloseIn = Some s' -> Inv s'.
Proof. simple_step. Qed.

Lemma step_TNextCtx s s' : Inv s -> step fv s TNextCtx = Some s' -> Inv s'.
Proof. simple_step. Qed.
Lemma step_TCClosed s s' : Inv s -> step fv s TCClosed = Some s' -> Inv s'.
Proof. simple_step. Qed.
Lemma step_TParentProp s s' : Inv s -> step fv s TParentProp = Some s' -> Inv s'.
Proof. simple_step. Qed.
Lemma step_TCloseCancel s s' : Inv s -> step fv s TCloseCancel = Some s' -> Inv s'.
Proof. simple_step. destruct (g s) as [|[]]; simpl; auto. Qed.

Lemma step_TDCtx s s' : Inv s -> step fv s TDCtx = Some s' -> Inv s'.
Proof.
  intros HI Hs. pose proof (i_g _ HI) as Hg0. pose proof (i_egdone _ HI) as He0.
  unfold step in Hs. destruct (disp s) eqn:Ed; try discriminate Hs;
  (destruct (g s) eqn:Eg; try discriminate Hs; injection Hs as Hs; subst;
   assert (Hnd : egdone s <> S (length (ws s))) by (apply not_done_disp; [rewrite Ed; exact He0 | rewrite Ed; reflexivity]);
   pose proof (ctx_carrier s c Hg0 Eg Hnd) as Hc;
   start HI; pre; rw; constructor; pre; try easy1; try mono).
Qed.
Lemma step_TPut s s' : Inv s -> step fv s TPut = Some s' -> Inv s'.
Proof. simple_step. Qed.
Lemma all_done s :
  egdone s = wsum (fun x => b2n (wfin x)) (ws s) + b2n (ddone (disp s)) ->
  egdone s = S (length (ws s)) ->
  (forall w x, nth_error (ws s) w = Some x -> x = TDone) /\ disp s = SDone.
Proof.
  intros H E. pose proof (wsum_le_length (fun x => b2n (wfin x)) (ws s) wfin_le1) as L.
  assert (Hd : ddone (disp s) = true) by (destruct (ddone (disp s)); [reflexivity | simpl in H; lia]).
  rewrite Hd in H. simpl in H. split.
  - intros w x Hx. pose proof (wsum_full (fun x => b2n (wfin x)) (ws s) wfin_le1 ltac:(lia) w x Hx) as F.
    cbv beta in F. destruct x; simpl in F; try discriminate F. reflexivity.
  - destruct (disp s); try discriminate Hd. reflexivity.
Qed.

Lemma hcnt_nil k : hcnt k [] = 0.
Proof. reflexivity. Qed.

Lemma step_TWait s s' : Inv s -> step fv s TWait = Some s' -> Inv s'.
Proof.
  intros HI Hs. unfold step in Hs. destruct (cons s) eqn:Ec; try discriminate Hs.
  destruct (egdone s =? S (length (ws s))) eqn:Ee; try discriminate Hs. apply Nat.eqb_eq in Ee.
  injection Hs as Hs; subst s'.
  destruct (all_done s (i_egdone _ HI) Ee) as [Hall Hsd].
  assert (Hend' : eg_err s = None -> next s = length (src s)).
  { intros Hn. start HI. unfold d_normal in Hdnormal. rewrite Hsd in Hdnormal. destruct (Hdnormal Hn) as [Hp Hnd].
    destruct (Hkwait Ec) as [_ Hcb].
    assert (Hw0 : forall j, wcnt j (ws s) = 0).
    { intros j. apply wsum_zero. intros w x Hx. rewrite (Hall w x Hx). reflexivity. }
    assert (Hne : nerrw (ws s) = 0).
    { apply wsum_zero. intros w x Hx. rewrite (Hall w x Hx). reflexivity. }
    pose proof (Hcov Hn Hne) as Hc. unfold cnt, inrange in Hc, Hcnt. rewrite Hcb in Hc.
    destruct (Nat.eq_dec (next s) (ndisp s)) as [|Hneq]; [congruence|]. exfalso.
    assert (Hm : hmatch (heap s) (next s) = true).
    { apply head_is_next; [exact Hsorted | |].
      - intros j Hj. specialize (Hc j). rewrite Hw0, hcnt_nil in Hc. bdestr.
      - specialize (Hc (next s)). rewrite Hw0, hcnt_nil in Hc. bdestr. }
    rewrite Hnomatch in Hm by (rewrite Ec; reflexivity). discriminate Hm. }
  start HI; pre; rw. constructor; pre; try easy1; try mono.
  - destruct (g s) as [|[]]; simpl; auto.
  - destruct (eg_err s); [discriminate | intros _; auto].
  - intros e He. destruct (eg_err s) eqn:Eg; [|discriminate He]. inversion He; subst. apply Hegerr. reflexivity.
Qed.

Lemma step_TCloseWait s s' : Inv s -> step fv s TCloseWait = Some s' -> Inv s'.
Proof.
  simple_step. destruct (g s) as [|[]]; simpl; auto.
Qed.

Lemma record_cases r ee x ee' x' :
  record r ee x = (ee', x') ->
  (ee' = ee /\ x' = x /\ (r = None \/ ee <> None)) \/
  (exists a, r = Some a /\ ee = None /\ ee' = Some a /\ x' = cancelG x ByError).
Proof.
  unfold record. destruct r as [a|]; destruct ee as [b|]; intros H; inversion H; subst.
  - left. repeat split; auto. right; discriminate.
  - right. exists a. auto.
  - left. auto.
  - left. auto.
Qed.

Lemma step_TDRet s s' : Inv s -> step fv s TDRet = Some s' -> Inv s'.
Proof.
  intros HI Hs. pose proof (i_egdone _ HI) as He0.
  unfold step in Hs. destruct (disp s) eqn:Ed; try discriminate Hs.
  assert (Hnd : egdone s <> S (length (ws s))) by (apply not_done_disp; [rewrite Ed; exact He0 | rewrite Ed; reflexivity]).
  destruct (record r (eg_err s) (g s)) as [ee' x'] eqn:Er. injection Hs as Hs; subst s'.
  destruct (record_cases _ _ _ _ _ Er) as [(-> & -> & Hr)|(a & -> & Hn & -> & ->)].
  - start HI; pre; rw. constructor; pre; try easy1; try mono.
    + destruct (g s) as [|[]]; simpl; auto. congruence.
    + intros Hn. destruct Hr as [->|Hr]; [exact Hdnormal | congruence].
    + intros Hk. specialize (Hkclosed Hk). congruence.
  - start HI; pre; rw. rewrite Hn in *. constructor; pre; try easy1; try mono.
    + destruct (g s) as [|[]]; simpl; auto; congruence.
    + intros e He. inversion He; subst. apply carrier_valid_first. apply Hdcarry. reflexivity.
    + intros Hk. specialize (Hkclosed Hk). congruence.
Qed.

Lemma hcnt_cons k n v t : hcnt k ((n, v) :: t) = b2n (Nat.eqb n k) + hcnt k t.
Proof. reflexivity. Qed.

Lemma step_TLoop s s' : Inv s -> step fv s TLoop = Some s' -> Inv s'.
Proof.
  intros HI Hs. unfold step in Hs. destruct (cons s) eqn:Ec; try discriminate Hs.
  destruct (heap s) as [|[k v] t] eqn:Eh.
  - injection Hs as Hs; subst s'. start HI; pre; rw. constructor; pre; try easy1; try mono.
    intros _. rewrite Eh. reflexivity.
  - destruct (k =? next s) eqn:Ek.
    + apply Nat.eqb_eq in Ek. subst k. injection Hs as Hs; subst s'. start HI; pre; rw.
      rewrite Eh in *.
      assert (Hlt : next s < ndisp s).
      { specialize (Hcnt (next s)). rewrite hcnt_cons, Nat.eqb_refl in Hcnt. bdestr. }
      assert (Hsrc : next s < length (src s)).
      { destruct (disp s); try destruct Hdok as (? & ? & ?); try destruct Hdok as [[? ?] [? ?]]; lia. }
      constructor; pre; try easy1; try mono.
      * intros k. specialize (Hcnt k). rewrite hcnt_cons in Hcnt. bdestr.
      * intros He Hn k. specialize (Hcov He Hn k). rewrite hcnt_cons in Hcov. bdestr.
      * inversion Hhval; assumption.
      * inversion Hsorted; assumption.
      * inversion Hhval as [|a b Hv Ht]; subst. simpl in Hv. subst v.
        rewrite (firstn_S_nth (src s) (next s) 0%Z) by lia. rewrite map_app. simpl. rewrite Hyield. reflexivity.
      * intros k Hk. destruct (Hfailed k Hk) as (H1 & H2 & H3). rewrite hcnt_cons in H3. bdestr.
    + injection Hs as Hs; subst s'. start HI; pre; rw. constructor; pre; try easy1; try mono.
      intros _. rewrite Eh. simpl. exact Ek.
Qed.

Lemma step_TRecv s s' : Inv s -> step fv s TRecv = Some s' -> Inv s'.
Proof.
  intros HI Hs. unfold step in Hs. destruct (cons s) eqn:Ec; try discriminate Hs.
  destruct (cbuf s) as [|[n v] t] eqn:Eb; try discriminate Hs.
  injection Hs as Hs; subst s'. start HI; pre; rw. rewrite Eb in *.
  constructor; pre; try easy1; try mono.
  - intros k. specialize (Hcnt k). rewrite hcnt_cons in Hcnt. rewrite hcnt_push. cbn [fst]. lia.
  - intros He Hn k. specialize (Hcov He Hn k). rewrite hcnt_cons in Hcov. rewrite hcnt_push. cbn [fst]. lia.
  - inversion Hcval; assumption.
  - apply hpush_Forall; [inversion Hcval; assumption | exact Hhval].
  - apply hpush_sorted. exact Hsorted.
  - intros k Hk. destruct (Hfailed k Hk) as (H1 & H2 & H3). rewrite hcnt_cons in H3. rewrite hcnt_push. cbn [fst].
    repeat split; lia.
Qed.

(* the standard obligations after worker w moved from y to x *)
Ltac wupd Hy x :=
  pose proof (fun k => wcnt_upd k _ _ x _ Hy) as Ucnt;
  pose proof (wsum_upd (fun q => b2n (is_some (wcarry q))) _ _ x _ Hy) as Uerr;
  pose proof (wsum_upd (fun q => b2n (wexited q)) _ _ x _ Hy) as Uex;
  pose proof (wsum_upd (fun q => b2n (wfin q)) _ _ x _ Hy) as Ufin;
  unfold holdsb in Ucnt; cbn [held wcarry is_some wexited wfin b2n] in Ucnt, Uerr, Uex, Ufin.
Ltac wfields Hy :=
  match goal with
  | Ucnt : forall k, wcnt k (upd _ _ _) + _ = _, Hcnt : forall k, _ <= b2n _ |- forall k, _ <= b2n _ =>
      let k0 := fresh "k0" in intros k0; specialize (Ucnt k0); specialize (Hcnt k0); solve [bdestr]
  | Ucnt : forall k, wcnt k (upd _ _ _) + _ = _, Hcov : _ -> nerrw _ = 0 -> _ |- _ -> nerrw _ = 0 -> _ =>
      let He := fresh "He" in let Hn := fresh "Hn" in let k0 := fresh "k0" in
      intros He Hn k0; unfold nerrw in *; specialize (Ucnt k0);
      first [ (exfalso; lia)
            | (let Hz := fresh "Hz" in
               match type of Hy with nth_error ?l _ = _ =>
                 assert (Hz : wsum (fun q => b2n (is_some (wcarry q))) l = 0) by lia end;
               specialize (Hcov He Hz k0); solve [bdestr]) ]
  | Ucnt : forall k, wcnt k (upd _ _ _) + _ = _, Hfailed : forall k, In k _ -> _ |- forall k, In k _ -> _ =>
      let k0 := fresh "k0" in let Hk := fresh "Hk" in
      intros k0 Hk; destruct (Hfailed k0 Hk) as (? & ? & ?); specialize (Ucnt k0); repeat split; solve [bdestr]
  | |- _ = wsum _ (upd _ _ _) => lia
  | |- _ = wsum _ (upd _ _ _) + _ => lia
  | |- forall w k v, nth_error (upd _ _ _) w = Some (TSend k v) -> _ =>
      wq Hy; solve [ eauto | congruence ]
  | |- forall w x, nth_error (upd _ _ _) w = Some x -> wexit_ok _ _ x =>
      wq Hy; solve [ eauto | (simpl; auto) | (eapply wexit_ok_mono; [eauto | auto ..]) ]
  | |- forall w x e, nth_error (upd _ _ _) w = Some x -> wcarry x = Some e -> _ =>
      wq Hy; solve [ eauto | (intros; discriminate) | (intros; eapply carrier_ok_mono; [eauto | auto with datatypes ..]) ]
  end.

Lemma step_LFEnter w k s s' : Inv s -> step fv s (LFEnter w k) = Some s' -> Inv s'.
Proof.
  intros HI Hs. unfold step in Hs. unfold getw in Hs. destruct (nth_error (ws s) w) as [y|] eqn:Ey; try discriminate Hs.
  destruct y; try discriminate Hs. destruct (k =? k0) eqn:Ek; try discriminate Hs. apply Nat.eqb_eq in Ek; subst k0.
  injection Hs as Hs; subst s'. start HI; pre; rw. wupd Ey (TInF k).
  constructor; pre; rewrite ?upd_length; try easy1; try mono; try wfields Ey.
Qed.

Ltac open_w Hs Ey :=
  unfold step in Hs; unfold getw in Hs;
  match type of Hs with context [nth_error (ws ?s) ?w] =>
    destruct (nth_error (ws s) w) as [y|] eqn:Ey; try discriminate Hs; destruct y; try discriminate Hs end.

Lemma step_TInClosed w s s' : Inv s -> step fv s (TInClosed w) = Some s' -> Inv s'.
Proof.
  intros HI Hs. open_w Hs Ey. destruct (in_closed s) eqn:Eic; try discriminate Hs.
  injection Hs as Hs; subst s'. start HI; pre; rw. wupd Ey (TExit None).
  constructor; pre; rewrite ?upd_length; try easy1; try mono; try wfields Ey.
Qed.

Lemma step_TDispatch w s s' : Inv s -> step fv s (TDispatch w) = Some s' -> Inv s'.
Proof.
  intros HI Hs. unfold step in Hs. destruct (disp s) eqn:Ed; try discriminate Hs.
  unfold getw in Hs. destruct (nth_error (ws s) w) as [y|] eqn:Ey; try discriminate Hs. destruct y; try discriminate Hs.
  injection Hs as Hs; subst s'. start HI; pre; rw. wupd Ey (THas k). destruct Hdok as (Hd1 & Hd2 & Hd3). subst k.
  constructor; pre; rewrite ?upd_length; try easy1; try mono; try wfields Ey.
Qed.

Lemma hcnt_app k a b : hcnt k (a ++ b) = hcnt k a + hcnt k b.
Proof. unfold hcnt. induction a as [|x t IH]; simpl; [reflexivity | rewrite IH; lia]. Qed.

Lemma step_TWSend w s s' : Inv s -> step fv s (TWSend w) = Some s' -> Inv s'.
Proof.
  intros HI Hs. open_w Hs Ey. destruct (length (cbuf s) <? buf s) eqn:El; try discriminate Hs.
  injection Hs as Hs; subst s'. start HI; pre; rw. wupd Ey TIdle.
  assert (Hc1 : forall j, hcnt j (cbuf s ++ [(k, v)]) = hcnt j (cbuf s) + b2n (k =? j)).
  { intros j. rewrite hcnt_app, hcnt_cons, hcnt_nil. lia. }
  assert (Hopen : c_closed s = false).
  { rewrite Hcclosed. apply Nat.eqb_neq. rewrite Hndone.
    pose proof (wsum_lt_length (fun q => b2n (wexited q)) (ws s) w _ wexited_le1 Ey eq_refl). lia. }
  constructor; pre; rewrite ?upd_length; try easy1; try mono; try wfields Ey.
  - intros k0. rewrite Hc1. specialize (Ucnt k0). specialize (Hcnt k0). bdestr.
  - intros He Hn k0. rewrite Hc1. unfold nerrw in *. specialize (Ucnt k0).
    assert (Hz : wsum (fun q => b2n (is_some (wcarry q))) (ws s) = 0) by lia.
    specialize (Hcov He Hz k0). bdestr.
  - apply Forall_app. split; [exact Hcval|]. constructor; [|constructor]. simpl. eapply Hwval; eauto.
  - intros Hk. destruct (Hkwait Hk) as [Hcc _]. congruence.
  - intros k0 Hk. destruct (Hfailed k0 Hk) as (H1 & H2 & H3). rewrite Hc1. specialize (Ucnt k0). repeat split; bdestr.
Qed.

Lemma step_TWCtx w s s' : Inv s -> step fv s (TWCtx w) = Some s' -> Inv s'.
Proof.
  intros HI Hs. pose proof (i_g _ HI) as Hg0. pose proof (i_egdone _ HI) as He0.
  open_w Hs Ey. destruct (g s) eqn:Eg; try discriminate Hs.
  injection Hs as Hs; subst s'.
  assert (Hnd : egdone s <> S (length (ws s))) by (eapply not_done_w; [exact He0 | exact Ey | reflexivity]).
  pose proof (ctx_carrier s c Hg0 Eg Hnd) as Hc.
  start HI; pre; rw. wupd Ey (TExit (Some (ECtx c))).
  constructor; pre; rewrite ?upd_length; try easy1; try mono; try wfields Ey.
  wq Ey; [intros He; cbn [wcarry] in He; inversion He; subst; exact Hc | eauto].
Qed.

Lemma step_TWExit w s s' : Inv s -> step fv s (TWExit w) = Some s' -> Inv s'.
Proof.
  intros HI Hs. open_w Hs Ey.
  injection Hs as Hs; subst s'. start HI; pre; rw. wupd Ey (TRet r).
  assert (Hlt : ndone s < length (ws s)).
  { rewrite Hndone. apply (wsum_lt_length (fun q => b2n (wexited q)) (ws s) w _ wexited_le1 Ey eq_refl). }
  constructor; pre; rewrite ?upd_length; try easy1; try mono; try wfields Ey.
  - wq Ey; [|eauto]. pose proof (Hwexit w _ Ey) as Hx. destruct r; simpl in *; auto.
  - rewrite Hcclosed. replace (ndone s =? length (ws s)) with false by (symmetry; apply Nat.eqb_neq; lia). reflexivity.
  - intros Hk. destruct (Hkwait Hk) as [Hcc _]. rewrite Hcclosed in Hcc. apply Nat.eqb_eq in Hcc. lia.
Qed.

Lemma step_TWRet w s s' : Inv s -> step fv s (TWRet w) = Some s' -> Inv s'.
Proof.
  intros HI Hs. pose proof (i_egdone _ HI) as He0. open_w Hs Ey.
  assert (Hnd : egdone s <> S (length (ws s))) by (eapply not_done_w; [exact He0 | exact Ey | reflexivity]).
  destruct (record r (eg_err s) (g s)) as [ee' x'] eqn:Er. injection Hs as Hs; subst s'.
  destruct (record_cases _ _ _ _ _ Er) as [(-> & -> & Hr)|(a & -> & Hn & -> & ->)].
  - start HI; pre; rw. wupd Ey TDone.
    constructor; pre; rewrite ?upd_length; try easy1; try mono; try wfields Ey.
    + intros He Hn k. destruct Hr as [->|Hr]; [|congruence]. cbn [is_some b2n] in Uerr. unfold nerrw in *.
      assert (Hz : wsum (fun q => b2n (is_some (wcarry q))) (ws s) = 0) by lia.
      specialize (Hcov He Hz k). specialize (Ucnt k). lia.
    + wq Ey; [|eauto]. pose proof (Hwexit w _ Ey) as Hx. simpl in *. destruct r; [|auto].
      destruct Hr as [Hr|Hr]; [discriminate | auto].
    + destruct (g s) as [|[]]; simpl; auto. congruence.
    + intros Hk. specialize (Hkclosed Hk). congruence.
  - start HI; pre; rw. rewrite Hn in *. wupd Ey TDone.
    constructor; pre; rewrite ?upd_length; try easy1; try mono; try wfields Ey.
    + wq Ey; [simpl; right; discriminate|]. eapply wexit_ok_mono; [eauto | auto | intros; discriminate].
    + destruct (g s) as [|[]]; simpl; auto; congruence.
    + intros e He. inversion He; subst. apply carrier_valid_first. eapply Hwcarry; [exact Ey | reflexivity].
    + destruct (disp s) as [| | | |[]|[]|[]|[]|]; auto; intros; discriminate.
    + intros Hk. specialize (Hkclosed Hk). congruence.
Qed.

Lemma step_LFExit w k o s s' : Inv s -> step fv s (LFExit w k o) = Some s' -> Inv s'.
Proof.
  intros HI Hs. pose proof (i_g _ HI) as Hg0. pose proof (i_egdone _ HI) as He0.
  unfold step in Hs; unfold getw in Hs.
  destruct (nth_error (ws s) w) as [y|] eqn:Ey; try discriminate Hs; destruct y; try discriminate Hs.
  destruct (k =? k0) eqn:Ek; try discriminate Hs. apply Nat.eqb_eq in Ek; subst k0.
  assert (Hnd : egdone s <> S (length (ws s))) by (eapply not_done_w; [exact He0 | exact Ey | reflexivity]).
  destruct o.
  - (* FoOk *)
    dstep Hs. injection Hs as Hs; subst s'. start HI; pre; rw. wupd Ey (TSend k (fv (nth k (src s) 0%Z))).
    constructor; pre; rewrite ?upd_length; try easy1; try mono; try wfields Ey.
  - (* FoErr *)
    dstep Hs. injection Hs as Hs; subst s'. bools. start HI; pre; rw. wupd Ey (TExit (Some (EF k))).
    constructor; pre; rewrite ?upd_length; try easy1; try mono; try wfields Ey.
    + wq Ey.
      * intros He. cbn [wcarry] in He. inversion He; subst. simpl. split; [left; reflexivity | assumption].
      * intros He. eapply carrier_ok_mono; [eapply Hwcarry; eauto | auto with datatypes ..].
    + intros k0 [->|Hk].
      * specialize (Ucnt k0). specialize (Hcnt k0). rewrite Nat.eqb_refl in Ucnt. repeat split; bdestr.
      * destruct (Hfailed k0 Hk) as (H1 & H2 & H3). specialize (Ucnt k0). repeat split; bdestr.
  - (* FoCtx *)
    destruct (g s) eqn:Eg; try discriminate Hs. dstep Hs. injection Hs as Hs; subst s'.
    pose proof (ctx_carrier s c Hg0 Eg Hnd) as Hc.
    start HI; pre; rw. wupd Ey (TExit (Some (ECtx c))).
    constructor; pre; rewrite ?upd_length; try easy1; try mono; try wfields Ey.
    + wq Ey.
      * intros He. cbn [wcarry] in He. inversion He; subst.
        eapply carrier_ok_mono; [exact Hc | auto with datatypes ..].
      * intros He. eapply carrier_ok_mono; [eapply Hwcarry; eauto | auto with datatypes ..].
    + intros k0 [->|Hk].
      * specialize (Ucnt k0). specialize (Hcnt k0). rewrite Nat.eqb_refl in Ucnt. repeat split; bdestr.
      * destruct (Hfailed k0 Hk) as (H1 & H2 & H3). specialize (Ucnt k0). repeat split; bdestr.
Qed.

Lemma inv_step s l s' : Inv s -> step fv s l = Some s' -> Inv s'.
Proof.
  intros HI Hs. destruct l.
  - eapply step_LSrcEnter; eassumption.
  - eapply step_LSrcExit; eassumption.
  - eapply step_LSrcCloseEnter; eassumption.
  - eapply step_LSrcCloseExit; eassumption.
  - eapply step_LFEnter; eassumption.
  - eapply step_LFExit; eassumption.
  - eapply step_LCallNext; eassumption.
  - eapply step_LRetNext; eassumption.
  - eapply step_LCallClose; eassumption.
  - eapply step_LRetClose; eassumption.
  - eapply step_LReq; eassumption.
  - eapply step_LReleaseF; eassumption.
  - eapply step_LReleaseS; eassumption.
  - eapply step_LCancelParent; eassumption.
  - eapply step_LCancelNext; eassumption.
  - discriminate Hs.
  - eapply step_TDReady; eassumption.
  - eapply step_TDCtx; eassumption.
  - eapply step_TDispatch; eassumption.
  - eapply step_TCloseIn; eassumption.
  - eapply step_TDRet; eassumption.
  - eapply step_TInClosed; eassumption.
  - eapply step_TWSend; eassumption.
  - eapply step_TWCtx; eassumption.
  - eapply step_TWExit; eassumption.
  - eapply step_TWRet; eassumption.
  - eapply step_TLoop; eassumption.
  - eapply step_TPut; eassumption.
  - eapply step_TRecv; eassumption.
  - eapply step_TCClosed; eassumption.
  - eapply step_TNextCtx; eassumption.
  - eapply step_TWait; eassumption.
  - eapply step_TCloseCancel; eassumption.
  - eapply step_TCloseWait; eassumption.
  - eapply step_TParentProp; eassumption.
Qed.

Lemma qstep_cases s l s' :
  qstep fv s l = Some s' -> (l = LQuiesce /\ s' = s) \/ step fv s l = Some s'.
Proof.
  destruct l; simpl; auto. destruct (quiescent fv s); [|discriminate]. intros H; inversion H; auto.
Qed.

Lemma inv_qstep s l s' : Inv s -> qstep fv s l = Some s' -> Inv s'.
Proof.
  intros HI Hq. destruct (qstep_cases _ _ _ Hq) as [[_ ->]|Hs]; [exact HI | eapply inv_step; eauto].
Qed.

Theorem reachable_inv c s :
  (1 <= c_gomaxprocs c)%Z -> reachable (qstep fv) (init c) s -> Inv s.
Proof. intros Hg. apply invariant_rule; [apply inv_init; exact Hg | exact inv_qstep]. Qed.

(* the configuration never changes *)
Definition Conf (c : cfg) (s : st) : Prop :=
  src s = c_items c /\ ferr s = c_ferr c /\ serr s = c_serr c /\
  buf s = Z.to_nat (norm_buf (norm_par (c_gomaxprocs c) (c_par c)) (c_bufsz c)) /\
  length (ws s) = Z.to_nat (norm_par (c_gomaxprocs c) (c_par c)).

Lemma conf_step c s l s' : Conf c s -> step fv s l = Some s' -> Conf c s'.
Proof.
  unfold Conf. intros HC Hs. unfold step in Hs.
  destruct l; dstep Hs; try discriminate Hs; injection Hs as Hs; subst s';
    cbn [src ferr serr buf ws set_disp set_w set_cons set_g set_harness]; rewrite ?upd_length; exact HC.
Qed.

Theorem reachable_conf c s : reachable (qstep fv) (init c) s -> Conf c s.
Proof.
  apply invariant_rule.
  - unfold Conf, init; simpl. rewrite repeat_length. auto.
  - intros s0 l s1 HC Hq. destruct (qstep_cases _ _ _ Hq) as [[_ ->]|Hs]; [exact HC | eapply conf_step; eauto].
Qed.
End Proofs.
End MSP.

(* ------------------------------------------------------------------ *)
(* Part 4: MapStream — progress and the clauses of C14                 *)
(* ------------------------------------------------------------------ *)
Module MST.
Import MS MSP.

Section Thms.
Variable fv : Z -> Z.

Ltac start HI := destruct HI as [Hpar Hpull Hdok Htok Hnext Hcnt Hcov Hwval Hcval Hhval Hsorted Hyield Hincl Hwexit
  Hndone Hcclosed Hegdone Hsrccl Hnomatch Hkwait Hg Hegerr Hwcarry Hdcarry Hfailed Hdnormal Hend Hreterr Hkclosed].
Ltac bdestr :=
  repeat match goal with
         | |- context [Nat.eqb ?a ?b] => destruct (Nat.eqb_spec a b)
         | H : context [Nat.eqb ?a ?b] |- _ => destruct (Nat.eqb_spec a b)
         | |- context [Nat.leb ?a ?b] => destruct (Nat.leb_spec a b)
         | H : context [Nat.leb ?a ?b] |- _ => destruct (Nat.leb_spec a b)
         | |- context [Nat.ltb ?a ?b] => destruct (Nat.ltb_spec a b)
         | H : context [Nat.ltb ?a ?b] |- _ => destruct (Nat.ltb_spec a b)
         end; cbn [b2n andb orb negb] in *; try lia.

Definition env_pending (s : st) : Prop :=
  disp s = SInSrc \/ (exists r, disp s = SInClose r) \/ exists w k, nth_error (ws s) w = Some (TInF k).
Definition progress (s : st) : Prop :=
  (exists l s', is_lib l = true /\ step fv s l = Some s') \/ env_pending s.

Ltac fire l := left; exists l; unfold step, getw.
Ltac fired := eexists; split; reflexivity.

Lemma ws_cases (l : list wpc) :
  (forall w x, nth_error l w = Some x -> x = TIdle \/ x = TDone) \/
  (exists w x, nth_error l w = Some x /\ x <> TIdle /\ x <> TDone).
Proof.
  induction l as [|h t IH].
  - left. intros [|w] x H; discriminate H.
  - destruct IH as [IH|(w & x & Hx & Hn)].
    + destruct h; try (right; exists 0; eexists; simpl; split; [reflexivity | split; discriminate]).
      * left. intros [|w] x H; simpl in H; [inversion H; auto | eapply IH; eauto].
      * left. intros [|w] x H; simpl in H; [inversion H; auto | eapply IH; eauto].
    + right. exists (S w), x. auto.
Qed.

Lemma ws_idle_or_alldone (l : list wpc) :
  (forall w x, nth_error l w = Some x -> x = TIdle \/ x = TDone) ->
  (exists w, nth_error l w = Some TIdle) \/ (forall w x, nth_error l w = Some x -> x = TDone).
Proof.
  induction l as [|h t IH]; intros H.
  - right. intros [|w] x Hx; discriminate Hx.
  - destruct (H 0 h eq_refl) as [->| ->].
    + left. exists 0. reflexivity.
    + destruct (IH (fun w x Hx => H (S w) x Hx)) as [[w Hw]|Hall].
      * left. exists (S w). exact Hw.
      * right. intros [|w] x Hx; simpl in Hx; [inversion Hx; reflexivity | eapply Hall; eauto].
Qed.

Lemma dpc_eq_done (d : dpc) : d = SDone \/ d <> SDone.
Proof. destruct d; auto; right; discriminate. Qed.

(* a worker that is neither idle nor finished can move, unless it waits for room in [c] *)
Lemma worker_progress s w x :
  nth_error (ws s) w = Some x -> x <> TIdle -> x <> TDone ->
  progress s \/ (exists k v, x = TSend k v /\ g s = GLive /\ buf s <= length (cbuf s)).
Proof.
  intros Hx Hn1 Hn2. destruct x; try congruence.
  - left. fire (LFEnter w k). rewrite Hx, Nat.eqb_refl. fired.
  - left. right. right. right. eauto.
  - destruct (length (cbuf s) <? buf s) eqn:El.
    + left. fire (TWSend w). rewrite Hx, El. fired.
    + destruct (g s) eqn:Eg.
      * right. apply Nat.ltb_ge in El. eauto.
      * left. fire (TWCtx w). rewrite Hx, Eg. fired.
  - left. fire (TWExit w). rewrite Hx. fired.
  - left. fire (TWRet w). rewrite Hx. destruct (record r (eg_err s) (g s)). fired.
Qed.

(* the dispatcher can move unless it waits for a token or for an idle worker *)
Lemma disp_progress s :
  disp s <> SDone ->
  progress s \/ (exists k, disp s = SWait k /\ tokens s = 0 /\ g s = GLive)
  \/ (exists k, disp s = SSend k /\ g s = GLive /\ forall w, nth_error (ws s) w <> Some TIdle).
Proof.
  intros Hd. destruct (disp s) eqn:Ed; try congruence.
  - left. fire LSrcEnter. rewrite Ed. fired.
  - left. right. left. exact Ed.
  - destruct (tokens s) eqn:Et.
    + destruct (g s) eqn:Eg; [right; left; eauto|]. left. fire TDCtx. rewrite Ed, Eg. fired.
    + left. fire TDReady. rewrite Ed, Et. fired.
  - destruct (g s) eqn:Eg.
    + assert (Hdec : (exists w, nth_error (ws s) w = Some TIdle) \/ forall w, nth_error (ws s) w <> Some TIdle).
      { clear. induction (ws s) as [|h t IH].
        - right. intros [|w]; discriminate.
        - destruct h; try (destruct IH as [[w Hw]|Hn]; [left; exists (S w); exact Hw |
                             right; intros [|w]; simpl; [discriminate | apply Hn]]).
          left. exists 0. reflexivity. }
      destruct Hdec as [[w Hw]|Hn]; [|right; right; eauto].
      left. fire (TDispatch w). rewrite Ed, Hw. fired.
    + left. fire TDCtx. rewrite Ed, Eg. fired.
  - left. fire TCloseIn. rewrite Ed. fired.
  - left. fire LSrcCloseEnter. rewrite Ed. fired.
  - left. right. right. left. eauto.
  - left. fire TDRet. rewrite Ed. destruct (record r (eg_err s) (g s)). fired.
Qed.

(* a second, tiny invariant: once Close has cancelled, [close_called] is set *)
Definition Inv2 (s : st) : Prop :=
  (cons s = KClose2 \/ cons s = KCloseRet \/ cons s = KClosed) -> close_called s = true.

Lemma inv2_step s l s' : Inv2 s -> step fv s l = Some s' -> Inv2 s'.
Proof.
  unfold Inv2. intros HI Hs. unfold step in Hs.
  destruct l; dstep Hs; try discriminate Hs; injection Hs as Hs; subst s';
    cbn [cons close_called set_disp set_w set_cons set_g set_harness]; try exact HI;
    try (intros [X|[X|X]]; discriminate X); try (intros _; reflexivity);
    try (intros _; apply HI; auto; fail).
Qed.

Theorem reachable_inv2 c s : reachable (qstep fv) (init c) s -> Inv2 s.
Proof.
  apply invariant_rule.
  - unfold Inv2, init; simpl. intros [X|[X|X]]; discriminate X.
  - intros s0 l s1 HI Hq. destruct (qstep_cases fv _ _ _ Hq) as [[_ ->]|Hs]; [exact HI | eapply inv2_step; eauto].
Qed.

Definition in_call (s : st) : Prop := cons s <> KIdle /\ cons s <> KClosed.

Lemma res_eqb_refl r : res_eqb r r = true.
Proof.
  destruct r as [v| |e|]; simpl; auto; [apply Z.eqb_refl|]. destruct e as [k| |c]; simpl; auto; [apply Nat.eqb_refl|].
  destruct c; reflexivity.
Qed.

Lemma all_workers_done_closed s :
  Inv fv s -> (forall w x, nth_error (ws s) w = Some x -> x = TDone) -> c_closed s = true.
Proof.
  intros HI Hall. start HI. rewrite Hcclosed. apply Nat.eqb_eq. rewrite Hndone.
  apply wsum_all. intros w x Hx. rewrite (Hall w x Hx). reflexivity.
Qed.

Lemma progress_inv s : Inv fv s -> Inv2 s -> in_call s -> progress s.
Proof.
  intros HI HI2 [Hc1 Hc2]. pose proof HI as HI0. start HI.
  destruct (cons s) eqn:Ec; try congruence.
  - (* KLoop *) fire TLoop. rewrite Ec. destruct (heap s) as [|[k v] t]; [fired|]. destruct (k =? next s); fired.
  - (* KPut *) fire TPut. rewrite Ec.
    assert (Hlt : (tokens s <? buf s) = true).
    { apply Nat.ltb_lt. cbn [kput] in Htok. unfold d_ok in Hdok.
      destruct (disp s); try destruct Hdok as (? & ? & ?); try destruct Hdok as [[? ?] [? ?]]; lia. }
    rewrite Hlt. fired.
  - (* KSel *)
    destruct (nthb (nctx s) j) eqn:En.
    { fire TNextCtx. rewrite Ec, En. fired. }
    destruct (cbuf s) as [|x t] eqn:Eb.
    2:{ fire TRecv. rewrite Ec, Eb. fired. }
    destruct (c_closed s) eqn:Ecc.
    { fire TCClosed. rewrite Ec, Eb, Ecc. fired. }
    destruct (ws_cases (ws s)) as [Hall|(w & x & Hx & Hn1 & Hn2)].
    2:{ destruct (worker_progress s w x Hx Hn1 Hn2) as [P|(k & v & _ & _ & Hfull)]; [exact P|].
        rewrite Eb in Hfull. simpl in Hfull. lia. }
    destruct (ws_idle_or_alldone _ Hall) as [[w Hw]|Hd].
    2:{ rewrite (all_workers_done_closed s HI0 Hd) in Ecc. discriminate. }
    destruct (dpc_eq_done (disp s)) as [Hsd|Hsd].
    { fire (TInClosed w). rewrite Hw, Hincl, Hsd. simpl. fired. }
    destruct (disp_progress s Hsd) as [P|[(k & Ed & Et & Eg)|(k & Ed & Eg & Hni)]]; [exact P | | exfalso; eapply Hni; eauto].
    exfalso. unfold d_ok, g_ok in *. rewrite Ed in Hdok. rewrite Eg in Hg. destruct Hdok as (Hd1 & Hd2 & Hd3).
    destruct Hg as [Hee _]. cbn [kput] in Htok.
    assert (Hw0 : forall i, wcnt i (ws s) = 0).
    { intros i. apply wsum_zero. intros w' y Hy. destruct (Hall w' y Hy) as [-> | ->]; reflexivity. }
    assert (Hne : nerrw (ws s) = 0).
    { apply wsum_zero. intros w' y Hy. destruct (Hall w' y Hy) as [-> | ->]; reflexivity. }
    pose proof (Hcov Hee Hne) as Hc. unfold cnt, inrange in Hc. rewrite Eb in Hc.
    assert (Hm : hmatch (heap s) (next s) = true).
    { apply head_is_next; [exact Hsorted | |].
      - intros i Hi. specialize (Hc i). rewrite Hw0, hcnt_nil in Hc. bdestr.
      - specialize (Hc (next s)). rewrite Hw0, hcnt_nil in Hc. bdestr. }
    rewrite Hnomatch in Hm by reflexivity. discriminate Hm.
  - (* KWait *)
    destruct (Hkwait eq_refl) as [Hcc Hcb].
    destruct (egdone s =? S (length (ws s))) eqn:Ee.
    { fire TWait. rewrite Ec, Ee. fired. }
    destruct (ws_cases (ws s)) as [Hall|(w & x & Hx & Hn1 & Hn2)].
    2:{ destruct (worker_progress s w x Hx Hn1 Hn2) as [P|(k & v & _ & _ & Hfull)]; [exact P|].
        rewrite Hcb in Hfull. simpl in Hfull. lia. }
    assert (Hd : forall w x, nth_error (ws s) w = Some x -> x = TDone).
    { destruct (ws_idle_or_alldone _ Hall) as [[w Hw]|Hd]; [exfalso | exact Hd].
      rewrite Hcclosed in Hcc. apply Nat.eqb_eq in Hcc. rewrite Hndone in Hcc.
      pose proof (wsum_lt_length (fun q => b2n (wexited q)) (ws s) w _ wexited_le1 Hw eq_refl). lia. }
    destruct (dpc_eq_done (disp s)) as [Hsd|Hsd].
    { exfalso. apply Nat.eqb_neq in Ee. apply Ee. rewrite Hegdone, Hsd. simpl.
      rewrite (wsum_all (fun q => b2n (wfin q)) (ws s)); [lia|]. intros w x Hx. rewrite (Hd w x Hx). reflexivity. }
    assert (Hstuck : forall d, g s = GLive -> disp s = d -> dpast d = false -> False).
    { intros d Eg Ed Hp. unfold g_ok in Hg. rewrite Eg in Hg. destruct Hg as [Hee _].
      destruct (ws s) as [|x0 tl] eqn:Ews; [simpl in Hpar; lia|].
      pose proof (Hwexit 0 x0 eq_refl) as Hx0. rewrite (Hd 0 x0 eq_refl) in Hx0. simpl in Hx0.
      destruct Hx0 as [Hic|Hne]; [|congruence]. rewrite Hincl, Ed, Hp in Hic. discriminate Hic. }
    destruct (disp_progress s Hsd) as [P|[(k & Ed & _ & Eg)|(k & Ed & Eg & _)]]; [exact P | |];
      exfalso; eapply Hstuck; eauto.
  - (* KRet *) fire (LRetNext r). rewrite Ec, res_eqb_refl. fired.
  - (* KClose1 *) fire TCloseCancel. rewrite Ec. fired.
  - (* KClose2 *)
    assert (Hgd : g s <> GLive).
    { intros Eg. unfold g_ok in Hg. rewrite Eg in Hg. destruct Hg as [_ Hcc]. rewrite HI2 in Hcc by auto. discriminate. }
    destruct (egdone s =? S (length (ws s))) eqn:Ee.
    { fire TCloseWait. rewrite Ec, Ee. fired. }
    destruct (ws_cases (ws s)) as [Hall|(w & x & Hx & Hn1 & Hn2)].
    2:{ destruct (worker_progress s w x Hx Hn1 Hn2) as [P|(k & v & _ & Eg & _)]; [exact P | congruence]. }
    destruct (dpc_eq_done (disp s)) as [Hsd|Hsd].
    { destruct (ws_idle_or_alldone _ Hall) as [[w Hw]|Hd].
      - fire (TInClosed w). rewrite Hw, Hincl, Hsd. simpl. fired.
      - exfalso. apply Nat.eqb_neq in Ee. apply Ee. rewrite Hegdone, Hsd. simpl.
        rewrite (wsum_all (fun q => b2n (wfin q)) (ws s)); [lia|]. intros w x Hx. rewrite (Hd w x Hx). reflexivity. }
    destruct (disp_progress s Hsd) as [P|[(k & _ & _ & Eg)|(k & _ & Eg & _)]]; [exact P | congruence | congruence].
  - (* KCloseRet *) fire LRetClose. rewrite Ec. fired.
Qed.

(* ---- the clauses of C14 for MapStream ---- *)
Theorem in_order_exactly_once c s :
  (1 <= c_gomaxprocs c)%Z -> reachable (qstep fv) (init c) s ->
  yielded s = map fv (firstn (next s) (c_items c)) /\ next s <= length (c_items c) /\
  (cons s = KRet REnd -> yielded s = map fv (c_items c)).
Proof.
  intros Hgm Hr. pose proof (reachable_inv fv _ _ Hgm Hr) as HI.
  destruct (reachable_conf fv _ _ Hr) as (Hsrc & _). start HI. rewrite Hsrc in *.
  split; [exact Hyield|]. split.
  - unfold d_ok in Hdok. destruct (disp s); try destruct Hdok as (? & ? & ?); try destruct Hdok as [[? ?] [? ?]]; lia.
  - intros Hc. rewrite Hyield, (Hend Hc). rewrite firstn_all. reflexivity.
Qed.

Theorem inflight_bound c s :
  (1 <= c_gomaxprocs c)%Z -> reachable (qstep fv) (init c) s ->
  (Z.of_nat (pulled s) - Z.of_nat (next s) <= norm_buf (norm_par (c_gomaxprocs c) (c_par c)) (c_bufsz c) + 1)%Z.
Proof.
  intros Hgm Hr. pose proof (reachable_inv fv _ _ Hgm Hr) as HI.
  destruct (reachable_conf fv _ _ Hr) as (_ & _ & _ & Hbuf & _). start HI.
  pose proof (norm_par_pos _ (c_par c) Hgm) as Hp.
  pose proof (norm_buf_ge (norm_par (c_gomaxprocs c) (c_par c)) (c_bufsz c)) as Hb.
  assert (Hpt : pulled s <= S (taken s)).
  { unfold d_ok in Hdok. destruct (disp s); try destruct Hdok as (? & ? & ?); try destruct Hdok as [[? ?] [? ?]]; lia. }
  assert (Z.of_nat (buf s) = norm_buf (norm_par (c_gomaxprocs c) (c_par c)) (c_bufsz c)) by (rewrite Hbuf; lia).
  lia.
Qed.

Corollary inflight_bound_property c s :
  (1 <= c_gomaxprocs c)%Z -> reachable (qstep fv) (init c) s ->
  (Z.of_nat (pulled s) - Z.of_nat (next s) <= Z.max 0 (c_bufsz c) + norm_par (c_gomaxprocs c) (c_par c) + 1)%Z.
Proof.
  intros Hgm Hr. pose proof (inflight_bound _ _ Hgm Hr) as H.
  pose proof (norm_par_pos _ (c_par c) Hgm) as Hp.
  unfold norm_buf in H. destruct (c_bufsz c <? norm_par (c_gomaxprocs c) (c_par c))%Z eqn:E; [lia|].
  apply Z.ltb_ge in E. lia.
Qed.

Theorem no_deadlock c s :
  (1 <= c_gomaxprocs c)%Z -> reachable (qstep fv) (init c) s -> in_call s -> progress s.
Proof.
  intros Hgm Hr. apply progress_inv; [eapply reachable_inv; eauto | eapply reachable_inv2; eauto].
Qed.

(* the error Next reports: justified by what the source / f / the caller did; and whatever was
   yielded before is [map f] of a prefix that stops before every item on which f failed *)
Theorem error_contract c s e :
  (1 <= c_gomaxprocs c)%Z -> reachable (qstep fv) (init c) s -> cons s = KRet (RErr e) ->
  valid_err_s s e /\
  yielded s = map fv (firstn (next s) (c_items c)) /\
  (forall k, In k (failed s) -> next s <= k).
Proof.
  intros Hgm Hr Hc. pose proof (reachable_inv fv _ _ Hgm Hr) as HI.
  destruct (reachable_conf fv _ _ Hr) as (Hsrc & _). start HI. rewrite Hsrc in *.
  split; [apply Hreterr; exact Hc|]. split; [exact Hyield|].
  intros k Hk. apply (Hfailed k Hk).
Qed.

(* without Close and without a cancellation of the caller's context, the error is one that f
   returned for an item not yet yielded, or the one the source returned: never a cancellation *)
Corollary error_contract_own c s e :
  (1 <= c_gomaxprocs c)%Z -> reachable (qstep fv) (init c) s -> cons s = KRet (RErr e) ->
  close_called s = false -> pdone s = false ->
  (exists k, e = EF k /\ In k (failed s) /\ nthb (c_ferr c) k = true /\ next s <= k) \/
  (e = ESrc /\ srcfailed s = true).
Proof.
  intros Hgm Hr Hc Hcc Hpd. destruct (error_contract _ _ _ Hgm Hr Hc) as (Hv & _ & Hf).
  destruct (reachable_conf fv _ _ Hr) as (_ & Hfe & _).
  unfold valid_err_s in Hv. rewrite Hcc, Hpd, Hfe in Hv. destruct e as [k| |cz]; simpl in Hv.
  - left. exists k. destruct Hv as [Hin Hfk]. auto.
  - right. auto.
  - destruct cz; try discriminate Hv; contradiction.
Qed.

(* Close: while it is running some library step is enabled or an up-call is still running
   ([no_deadlock]); when it has returned every goroutine of the errgroup has finished and the
   source has been closed exactly once; the source is never closed twice *)
Theorem close_returns c s :
  (1 <= c_gomaxprocs c)%Z -> reachable (qstep fv) (init c) s ->
  src_closed s <= 1 /\
  ((cons s = KClose1 \/ cons s = KClose2) -> progress s) /\
  (kclosed (cons s) = true ->
   disp s = SDone /\ (forall w x, nth_error (ws s) w = Some x -> x = TDone) /\ src_closed s = 1).
Proof.
  intros Hgm Hr. pose proof (reachable_inv fv _ _ Hgm Hr) as HI. pose proof (reachable_inv2 _ _ Hr) as HI2.
  split; [|split].
  - start HI. rewrite Hsrccl. destruct (dclosed (disp s)); simpl; lia.
  - intros Hc. apply progress_inv; [exact HI | exact HI2|]. unfold in_call. destruct Hc as [-> | ->]; split; discriminate.
  - intros Hk. pose proof (i_kclosed _ _ HI Hk) as He.
    destruct (all_done s (i_egdone _ _ HI) He) as [Hall Hsd].
    split; [exact Hsd|]. split; [exact Hall|]. rewrite (i_srcclosed _ _ HI), Hsd. reflexivity.
Qed.

(* ---- the assumption behind "Close returns": f and the source return once their context is
        cancelled.  In the model this is how the harness's up-calls behave; here we check that in
        every reachable state with the group's context cancelled each pending up-call has an
        enabled return label (so [env_pending] is an obligation the environment can meet). ---- *)
Definition gates_ok (c : cfg) (s : st) : Prop :=
  fgated s = c_fgated c /\ sgated s = c_sgated c /\
  (forall k, k < length (c_fgated c) -> nthb (c_fgated c) k = false -> nthb (frel s) k = true) /\
  (forall k, k < length (c_sgated c) -> nthb (c_sgated c) k = false -> nthb (srel s) k = true).

Lemma nthb_map_negb l k : k < length l -> nthb (map negb l) k = negb (nthb l k).
Proof.
  unfold nthb. revert k. induction l as [|h t IH]; intros [|k] H; simpl in *; try lia; auto. apply IH. lia.
Qed.

Lemma nthb_upd_mono l k j : nthb l j = true -> nthb (upd l k true) j = true.
Proof.
  unfold nthb. revert k j. induction l as [|h t IH]; intros [|k] [|j] H; simpl in *; auto.
Qed.

Lemma gates_step c s l s' : gates_ok c s -> step fv s l = Some s' -> gates_ok c s'.
Proof.
  unfold gates_ok. intros HC Hs. unfold step in Hs.
  destruct l; dstep Hs; try discriminate Hs; injection Hs as Hs; subst s';
    cbn [fgated sgated frel srel set_disp set_w set_cons set_g set_harness]; try exact HC.
  - destruct HC as (H1 & H2 & H3 & H4). repeat split; auto. intros j Hj Hf. apply nthb_upd_mono. auto.
  - destruct HC as (H1 & H2 & H3 & H4). repeat split; auto. intros j Hj Hf. apply nthb_upd_mono. auto.
Qed.

Theorem reachable_gates c s : reachable (qstep fv) (init c) s -> gates_ok c s.
Proof.
  apply invariant_rule.
  - unfold gates_ok, init; simpl. repeat split; auto; intros k Hk Hf; rewrite nthb_map_negb, Hf by exact Hk; reflexivity.
  - intros s0 l s1 HI Hq. destruct (qstep_cases fv _ _ _ Hq) as [[_ ->]|Hs]; [exact HI | eapply gates_step; eauto].
Qed.

Lemma wsum_ge {A} (m : A -> nat) l w x : nth_error l w = Some x -> m x <= wsum m l.
Proof.
  revert w; induction l as [|h t IH]; intros [|w] H; simpl in *; try discriminate.
  - inversion H; subst. lia.
  - specialize (IH w H). lia.
Qed.

Theorem env_can_return c s :
  (1 <= c_gomaxprocs c)%Z -> reachable (qstep fv) (init c) s ->
  length (c_fgated c) = length (c_items c) -> length (c_sgated c) = S (length (c_items c)) ->
  g s <> GLive ->
  (forall w k, nth_error (ws s) w = Some (TInF k) -> exists o s', step fv s (LFExit w k o) = Some s') /\
  (disp s = SInSrc -> exists o s', step fv s (LSrcExit o) = Some s') /\
  (forall r, disp s = SInClose r -> exists s', step fv s LSrcCloseExit = Some s').
Proof.
  intros Hgm Hr Hlf Hls Hgd. pose proof (reachable_inv fv _ _ Hgm Hr) as HI.
  destruct (reachable_conf fv _ _ Hr) as (Hsrc & _). destruct (reachable_gates _ _ Hr) as (Hfg & Hsg & Hfr & Hsr).
  destruct (g s) as [|cz] eqn:Eg; [congruence|]. start HI. split; [|split].
  - intros w k Hw.
    assert (Hk : k < length (c_items c)).
    { specialize (Hcnt k). unfold cnt, inrange in Hcnt.
      assert (Hge : 1 <= wcnt k (ws s)).
      { pose proof (wsum_ge (fun q => b2n (holdsb k q)) (ws s) w _ Hw) as Hge. cbv beta in Hge.
        unfold holdsb in Hge at 1. simpl in Hge. rewrite Nat.eqb_refl in Hge. exact Hge. }
      assert (Hnd : k < ndisp s) by bdestr.
      rewrite <- Hsrc. unfold d_ok in Hdok.
      destruct (disp s); try destruct Hdok as (? & ? & ?); try destruct Hdok as [[? ?] [? ?]]; lia. }
    unfold step, getw. rewrite Hw, Nat.eqb_refl.
    destruct (nthb (fgated s) k) eqn:Efg.
    + exists FoCtx. cbv beta iota. rewrite ?Eg, ?Efg. eexists; reflexivity.
    + assert (Hrel : nthb (frel s) k = true) by (apply Hfr; [lia | rewrite <- Hfg; exact Efg]).
      destruct (nthb (ferr s) k) eqn:Efe.
      * exists FoErr. cbv beta iota. rewrite ?Hrel, ?Efe. eexists; reflexivity.
      * exists FoOk. cbv beta iota. rewrite ?Hrel, ?Efe. eexists; reflexivity.
  - intros Ed. unfold step. rewrite Ed.
    destruct (nthb (sgated s) (pulled s)) eqn:Esg.
    + exists SoCtx. cbv beta iota. rewrite ?Eg, ?Esg. eexists; reflexivity.
    + assert (Hrel : nthb (srel s) (pulled s) = true).
      { apply Hsr; [rewrite Hls, <- Hsrc; lia | rewrite <- Hsg; exact Esg]. }
      destruct (pulled s <? length (src s)) eqn:El.
      * exists (SoItem (pulled s)). cbv beta iota. rewrite ?Nat.eqb_refl, ?El, ?Hrel. eexists; reflexivity.
      * apply Nat.ltb_ge in El. assert (Heq : pulled s = length (src s)) by lia.
        destruct (serr s) eqn:Ese.
        -- exists SoErr. cbv beta iota. rewrite (proj2 (Nat.eqb_eq _ _) Heq), ?Hrel. eexists; reflexivity.
        -- exists SoEnd. cbv beta iota. rewrite (proj2 (Nat.eqb_eq _ _) Heq), ?Hrel. eexists; reflexivity.
  - intros r Ed. unfold step. rewrite Ed. eexists; reflexivity.
Qed.
End Thms.
End MST.

(* ------------------------------------------------------------------ *)
(* Part 5: non-vacuity — concrete runs of both models                   *)
(* ------------------------------------------------------------------ *)
Definition fx (x : Z) : Z := (x * 3 + 7)%Z.

Module ExI.
Import MI.
(* parallelism 1, bufferSize 0 (-> 1), three items, f gated on item 0: the dispatcher parks in
   cond.Wait holding item 1 while item 0 is in f: taken - yielded = bufferSize + 1 (the bound is tight),
   the state is quiescent, the consumer is inside Next; after the release Next returns f(item 0) and the
   Signal wakes the dispatcher *)
Definition c_init := init 1 1 0 [10; 20; 30]%Z [true; false; false].
Definition ls1 : list lab :=
  [LReqNext; LCallNext; TLoop; LSrcEnter; LSrcExit (Some 0); TAcquire; TDispatch 0; LFEnter 0 0;
   LSrcEnter; LSrcExit (Some 1); TAcquire; LQuiesce].
Definition ls2 : list lab := ls1 ++ [LRelease 0; LFExit 0 0; TResult 0; TLoop; LRetNext (Some 37%Z)].

Example run_tight :
  option_map (fun s => (pulled s, next s, disp s, inflight s, cons s)) (run (qstep fx) c_init ls1)
  = Some (2, 0, DParked 1, 1%Z, CRecv).
Proof. vm_compute. reflexivity. Qed.

Example run_signal :
  option_map (fun s => (pulled s, next s, disp s, inflight s, cons s, yielded s)) (run (qstep fx) c_init ls2)
  = Some (2, 1, DAcq 1, 0%Z, CIdle, [37%Z]).
Proof. vm_compute. reflexivity. Qed.

(* the bound of [MIP.inflight_bound] is attained in a reachable state in which Next is pending *)
Example bound_tight :
  exists s, reachable (qstep fx) c_init s /\ MIP.in_next s /\
            (Z.of_nat (pulled s) - Z.of_nat (next s) = norm_buf (norm_par 1 1) 0 + 1)%Z.
Proof.
  destruct (run (qstep fx) c_init ls1) as [s|] eqn:E; [|vm_compute in E; discriminate E].
  exists s. split; [exists ls1; exact E|].
  vm_compute in E. inversion E; subst s. split; [unfold MIP.in_next; simpl; discriminate | reflexivity].
Qed.
End ExI.

Module ExS.
Import MS.
(* parallelism 2, bufferSize 0 (-> 2), two items, f fails on item 1: Next yields f(item 0), then reports
   the error of f(item 1) (recorded by the errgroup, which cancels the group's context); then Close
   returns with both workers and the dispatcher finished and the source closed once *)
Definition c0 := mkCfg 1 2 0 [10; 20]%Z [false; true] false [false; false] [false; false; false] 1.
Definition ls1 : list lab :=
  [LReq (RqNext 0); LCallNext 0; TLoop; LSrcEnter; LSrcExit (SoItem 0); TDReady; TDispatch 0; LFEnter 0 0;
   LFExit 0 0 FoOk; TWSend 0; TRecv; TLoop; TPut; LRetNext (RVal 37%Z);
   LSrcEnter; LSrcExit (SoItem 1); TDReady; TDispatch 0; LFEnter 0 1; LFExit 0 1 FoErr; TWExit 0; TWRet 0;
   LSrcEnter; LSrcExit SoEnd; TCloseIn; LSrcCloseEnter; LSrcCloseExit; TDRet; TInClosed 1; TWExit 1; TWRet 1;
   LReq (RqNext 0); LCallNext 0; TLoop; TCClosed; TWait].
Definition ls2 : list lab :=
  ls1 ++ [LRetNext (RErr (EF 1)); LQuiesce; LReq RqClose; LCallClose; TCloseCancel; TCloseWait; LRetClose; LQuiesce].

Example run_error :
  option_map (fun s => (cons s, yielded s, failed s, g s, eg_err s)) (run (qstep fx) (init c0) ls1)
  = Some (KRet (RErr (EF 1)), [37%Z], [1], GDone ByError, Some (EF 1)).
Proof. vm_compute. reflexivity. Qed.

Example run_close :
  option_map (fun s => (cons s, disp s, ws s, src_closed s)) (run (qstep fx) (init c0) ls2)
  = Some (KClosed, SDone, [TDone; TDone], 1).
Proof. vm_compute. reflexivity. Qed.

(* the hypotheses of [MST.error_contract] / [MST.close_returns] are satisfiable *)
Example error_reachable :
  exists s, reachable (qstep fx) (init c0) s /\ cons s = KRet (RErr (EF 1)) /\
            close_called s = false /\ pdone s = false.
Proof.
  destruct (run (qstep fx) (init c0) ls1) as [s|] eqn:E; [|vm_compute in E; discriminate E].
  exists s. split; [exists ls1; exact E|]. vm_compute in E. inversion E; subst s. simpl. auto.
Qed.

Example close_reachable :
  exists s, reachable (qstep fx) (init c0) s /\ MSP.kclosed (cons s) = true.
Proof.
  destruct (run (qstep fx) (init c0) ls2) as [s|] eqn:E; [|vm_compute in E; discriminate E].
  exists s. split; [exists ls2; exact E|]. vm_compute in E. inversion E; subst s. reflexivity.
Qed.
End ExS.
