(* C14 — proofs about the LTS models of parallel.MapIterator / MapStream (Conc/ParMap.v).
   Stdlib only, no axioms.  Part 1: shared lemmas; Part 2: MapIterator (module MIP);
   Part 3: MapStream (module MSP). *)
From Juniper Require Import Common.Base Conc.GoLTS Conc.ParMap.
From Coq Require Import Arith PeanoNat Sorted.
Local Open Scope nat_scope.

(* ------------------------------------------------------------------ *)
(* Part 1: shared lemmas                                               *)
(* ------------------------------------------------------------------ *)

Definition b2n (b : bool) : nat := if b then 1 else 0.

Lemma nth_upd {A} (l : list A) n m x :
  nth_error (upd l n x) m = if Nat.eq_dec n m then (if lt_dec n (length l) then Some x else None)
                            else nth_error l m.
Proof.
  destruct (Nat.eq_dec n m) as [->|Hne].
  - destruct (lt_dec m (length l)) as [Hlt|Hge].
    + apply nth_error_upd_same; exact Hlt.
    + apply nth_error_None. rewrite upd_length. lia.
  - apply nth_error_upd_other; exact Hne.
Qed.

Lemma nth_lt {A} (l : list A) n x : nth_error l n = Some x -> n < length l.
Proof. intros H. apply nth_error_Some. congruence. Qed.

(* what a list looks like pointwise after an update at a valid position *)
Lemma nth_upd_cases {A} (l : list A) n x0 x m y :
  nth_error l n = Some x0 -> nth_error (upd l n x) m = Some y ->
  (m = n /\ y = x) \/ (m <> n /\ nth_error l m = Some y).
Proof.
  intros H0 H. rewrite nth_upd in H. destruct (Nat.eq_dec n m) as [->|Hne].
  - destruct (lt_dec m (length l)) as [_|Hge]; [|exfalso; apply Hge; eapply nth_lt; eauto].
    left. split; congruence.
  - right. split; [congruence | exact H].
Qed.

Fixpoint wsum {A} (m : A -> nat) (l : list A) : nat :=
  match l with [] => 0 | x :: t => m x + wsum m t end.

Lemma wsum_upd {A} (m : A -> nat) l n x y :
  nth_error l n = Some y -> wsum m (upd l n x) + m y = wsum m l + m x.
Proof.
  revert n; induction l as [|h t IH]; intros [|n] H; simpl in *; try discriminate.
  - inversion H; subst. lia.
  - specialize (IH n H). lia.
Qed.

Lemma wsum_le_length {A} (m : A -> nat) l : (forall x, m x <= 1) -> wsum m l <= length l.
Proof. intros H. induction l as [|h t IH]; simpl; [lia|]. specialize (H h). lia. Qed.

Lemma wsum_zero {A} (m : A -> nat) l :
  (forall w x, nth_error l w = Some x -> m x = 0) -> wsum m l = 0.
Proof.
  induction l as [|h t IH]; intros H; simpl; [reflexivity|].
  rewrite (H 0 h eq_refl). rewrite IH; [reflexivity|]. intros w x Hx. exact (H (S w) x Hx).
Qed.

Lemma wsum_pos {A} (m : A -> nat) l : 0 < wsum m l -> exists w x, nth_error l w = Some x /\ 0 < m x.
Proof.
  induction l as [|h t IH]; simpl; [lia|]. intros H.
  destruct (m h) eqn:E.
  - destruct (IH H) as (w & x & Hx & Hm). exists (S w), x. auto.
  - exists 0, h. simpl. split; [reflexivity | lia].
Qed.

Lemma wsum_all {A} (m : A -> nat) l :
  (forall w x, nth_error l w = Some x -> m x = 1) -> wsum m l = length l.
Proof.
  induction l as [|h t IH]; intros H; simpl; [reflexivity|].
  rewrite (H 0 h eq_refl). rewrite IH; [reflexivity|]. intros w x Hx. exact (H (S w) x Hx).
Qed.

Lemma wsum_full {A} (m : A -> nat) l :
  (forall x, m x <= 1) -> wsum m l = length l -> forall w x, nth_error l w = Some x -> m x = 1.
Proof.
  intros Hm. induction l as [|h t IH]; intros H w x Hx; [destruct w; discriminate|].
  simpl in H. pose proof (wsum_le_length m t Hm) as Hle. pose proof (Hm h) as Hh.
  destruct w as [|w]; simpl in Hx.
  - inversion Hx; subst. lia.
  - apply (IH ltac:(lia) w x Hx).
Qed.

Lemma wsum_repeat {A} (m : A -> nat) x n : wsum m (repeat x n) = n * m x.
Proof. induction n as [|n IH]; simpl; [reflexivity | rewrite IH; lia]. Qed.

(* ---- the re-order buffer ---- *)
Definition hle (a b : entry) : Prop := fst a <= fst b.
Definition hcnt (k : nat) (h : list entry) : nat := wsum (fun e => b2n (Nat.eqb (fst e) k)) h.
Definition hmatch (h : list entry) (n : nat) : bool :=
  match h with (k, _) :: _ => Nat.eqb k n | [] => false end.

Lemma hcnt_push k x h : hcnt k (hpush x h) = b2n (Nat.eqb (fst x) k) + hcnt k h.
Proof.
  unfold hcnt. induction h as [|y t IH]; simpl; [lia|].
  destruct (fst x <=? fst y); simpl; [lia | rewrite IH; lia].
Qed.

Lemma hpush_Forall (P : entry -> Prop) x h : P x -> Forall P h -> Forall P (hpush x h).
Proof.
  intros Hx Hh. induction Hh as [|y t Hy Ht IH]; simpl; [auto|].
  destruct (fst x <=? fst y); auto.
Qed.

Lemma hpush_sorted x h : StronglySorted hle h -> StronglySorted hle (hpush x h).
Proof.
  intros Hs. induction Hs as [|y t Ht IH Hy]; simpl.
  - constructor; [constructor | constructor].
  - destruct (fst x <=? fst y) eqn:E.
    + apply Nat.leb_le in E. constructor; [constructor; assumption|].
      constructor; [exact E|]. eapply Forall_impl; [|exact Hy]. unfold hle. intros a Ha. lia.
    + apply Nat.leb_gt in E. constructor; [exact IH|].
      apply hpush_Forall; [unfold hle; lia | exact Hy].
Qed.

Lemma hcnt_pos_in k h : 0 < hcnt k h -> exists v, In (k, v) h.
Proof.
  unfold hcnt. intros H. apply wsum_pos in H. destruct H as (w & [j v] & Hx & Hm). simpl in Hm.
  destruct (j =? k) eqn:E; [|simpl in Hm; lia]. apply Nat.eqb_eq in E. subst j.
  exists v. eapply nth_error_In; eauto.
Qed.

(* if index n is buffered and nothing below n is, the head of the buffer is n *)
Lemma head_is_next h n :
  StronglySorted hle h -> (forall j, 0 < hcnt j h -> n <= j) -> 0 < hcnt n h -> hmatch h n = true.
Proof.
  intros Hs Hlow Hn. destruct h as [|[k v] t]; [unfold hcnt in Hn; simpl in Hn; lia|].
  simpl. apply Nat.eqb_eq. inversion Hs as [|a b Ht Hall]; subst.
  assert (Hk : n <= k). { apply Hlow. unfold hcnt; simpl. rewrite Nat.eqb_refl. simpl. lia. }
  destruct (hcnt_pos_in _ _ Hn) as (v' & Hin). destruct Hin as [Heq|Hin]; [congruence|].
  rewrite Forall_forall in Hall. specialize (Hall _ Hin). unfold hle in Hall. simpl in Hall. lia.
Qed.

Lemma firstn_S_nth {A} (l : list A) n d : n < length l -> firstn (S n) l = firstn n l ++ [nth n l d].
Proof.
  revert n; induction l as [|h t IH]; intros n H; simpl in H; [lia|].
  destruct n as [|n]; [reflexivity|]. simpl. f_equal. apply IH. lia.
Qed.

Lemma firstn_all_eq {A} (l : list A) n : n = length l -> firstn n l = l.
Proof. intros ->. apply firstn_all. Qed.

Lemma norm_par_pos g p : (1 <= g)%Z -> (1 <= norm_par g p)%Z.
Proof. intros H. unfold norm_par. destruct (p <=? 0)%Z eqn:E; [exact H | apply Z.leb_gt in E; lia]. Qed.

Lemma norm_buf_ge p b : (p <= norm_buf p b)%Z.
Proof. unfold norm_buf. destruct (b <? p)%Z eqn:E; [lia | apply Z.ltb_ge in E; lia]. Qed.

Ltac dstep Hs :=
  repeat match type of Hs with
         | match ?e with _ => _ end = Some _ =>
             let E := fresh "E" in destruct e eqn:E; try discriminate Hs
         end.

(* ------------------------------------------------------------------ *)
(* Part 2: MapIterator                                                 *)
(* ------------------------------------------------------------------ *)
Module MIP.
Import MI.

Definition ditem (d : dpc) : option nat :=
  match d with DAcq k | DParked k | DSend k => Some k | _ => None end.
Definition dflag (d : dpc) : nat := match d with DAcq _ | DParked _ => 1 | _ => 0 end.
(* number of items handed to workers so far *)
Definition dd (s : st) : nat := match ditem (disp s) with Some k => k | None => pulled s end.

Definition held (x : wpc) : option nat :=
  match x with WHas k | WInF k | WSend k _ => Some k | _ => None end.
Definition holdsb (k : nat) (x : wpc) : bool :=
  match held x with Some j => Nat.eqb j k | None => false end.
Definition wcnt (k : nat) (l : list wpc) : nat := wsum (fun x => b2n (holdsb k x)) l.
Definition is_done (x : wpc) : bool := match x with WDone => true | _ => false end.
Definition inrange (s : st) (k : nat) : bool := (next s <=? k) && (k <? dd s).

Section Proofs.
Variable fv : Z -> Z.

Record Inv (s : st) : Prop := {
  i_par : 1 <= length (ws s) /\ (Z.of_nat (length (ws s)) <= buf s)%Z;
  i_pull : pulled s <= length (src s);
  i_item : forall k, ditem (disp s) = Some k -> S k = pulled s;
  i_infl : inflight s = (Z.of_nat (pulled s) - Z.of_nat (next s) - Z.of_nat (dflag (disp s)))%Z;
  i_cap : (inflight s <= buf s)%Z;
  i_park : forall k, disp s = DParked k -> inflight s = buf s;
  i_next : next s <= dd s;
  i_cnt : forall k, wcnt k (ws s) + hcnt k (heap s) = b2n (inrange s k);
  i_wval : forall w k v, nth_error (ws s) w = Some (WSend k v) -> v = fv (nth k (src s) 0%Z);
  i_hval : Forall (fun e : entry => snd e = fv (nth (fst e) (src s) 0%Z)) (heap s);
  i_sorted : StronglySorted hle (heap s);
  i_yield : yielded s = map fv (firstn (next s) (src s));
  i_inclosed : in_closed s = true <-> disp s = DDone;
  i_wexit : forall w x, nth_error (ws s) w = Some x -> (x = WExit \/ x = WDone) -> in_closed s = true;
  i_ndone : ndone s = wsum (fun x => b2n (is_done x)) (ws s);
  i_chclosed : ch_closed s = Nat.eqb (ndone s) (length (ws s));
  i_srcend : (disp s = DCloseIn \/ disp s = DDone) -> pulled s = length (src s);
  i_nomatch : cons s = CRecv -> hmatch (heap s) (next s) = false;
  i_end : cons s = CRet None -> next s = length (src s)
}.

Lemma wcnt_upd k l w x y :
  nth_error l w = Some y -> wcnt k (upd l w x) + b2n (holdsb k y) = wcnt k l + b2n (holdsb k x).
Proof. intros H. unfold wcnt. apply (wsum_upd (fun x => b2n (holdsb k x)) l w x y H). Qed.

Lemma wcnt_upd_same k l w x y :
  nth_error l w = Some y -> held x = held y -> wcnt k (upd l w x) = wcnt k l.
Proof.
  intros H Hh. pose proof (wcnt_upd k l w x y H) as E. unfold holdsb in E. rewrite Hh in E. lia.
Qed.

Lemma inv_init g par bufsz items gated : (1 <= g)%Z -> Inv (init g par bufsz items gated).
Proof.
  intros Hg. pose proof (norm_par_pos g par Hg) as Hp.
  pose proof (norm_buf_ge (norm_par g par) bufsz) as Hb.
  constructor; unfold init, dd, inrange; simpl; rewrite ?repeat_length; try lia; try discriminate.
  - intros k. unfold wcnt. rewrite wsum_repeat. unfold hcnt. simpl.
    destruct (k <? 0) eqn:E; [apply Nat.ltb_lt in E; lia|]. simpl. lia.
  - intros w k v H. apply nth_error_In in H. apply repeat_spec in H. discriminate.
  - constructor.
  - constructor.
  - reflexivity.
  - split; discriminate.
  - intros w x H. apply nth_error_In in H. apply repeat_spec in H. subst x. intros [E|E]; discriminate.
  - rewrite wsum_repeat. simpl. lia.
  - destruct (Z.to_nat (norm_par g par)) eqn:E; [lia | reflexivity].
  - intros [E|E]; discriminate.
Qed.

Ltac start HI := destruct HI as [Hpar Hpull Hitem Hinfl Hcap Hpark Hnext Hcnt Hwval Hhval Hsorted Hyield Hincl Hwexit Hndone Hchcl Hsrcend Hnomatch Hend].
Ltac prj := cbn [src buf rel reqs pulled disp inflight ws in_closed ndone ch_closed heap next cons yielded
                 ditem dflag set_disp set_w set_cons getw] in *.
Ltac pre := unfold inrange, dd, set_disp, set_w, set_cons, getw in *; prj.
Ltac rw :=
  repeat match goal with
         | E : disp _ = _ |- _ => rewrite E in *; clear E
         | E : cons _ = _ |- _ => rewrite E in *; clear E
         end; prj.
Ltac bdestr :=
  repeat match goal with
         | |- context [Nat.eqb ?a ?b] => destruct (Nat.eqb_spec a b)
         | H : context [Nat.eqb ?a ?b] |- _ => destruct (Nat.eqb_spec a b)
         | |- context [Nat.leb ?a ?b] => destruct (Nat.leb_spec a b)
         | H : context [Nat.leb ?a ?b] |- _ => destruct (Nat.leb_spec a b)
         | |- context [Nat.ltb ?a ?b] => destruct (Nat.ltb_spec a b)
         | H : context [Nat.ltb ?a ?b] |- _ => destruct (Nat.ltb_spec a b)
         end; cbn [b2n andb orb negb] in *; try lia.
Ltac easy1 :=
  first [ assumption | lia | discriminate | congruence
        | (intros; discriminate) | (intros; congruence) | (intros; lia)
        | (split; intros; congruence) | (intros [?|?]; congruence)
        | match goal with Hincl : _ <-> _ |- _ <-> _ =>
            split; [let X := fresh in intros X; apply Hincl in X; discriminate X
                   | let X := fresh in intros X; discriminate X] end ].
(* goals quantified over the worker list after an update at position w (Hy : nth_error (ws s) w = Some y) *)
Ltac wq Hy :=
  intros until 1;
  match goal with
  | H : nth_error (upd _ _ _) _ = Some _ |- _ =>
      destruct (nth_upd_cases _ _ _ _ _ _ Hy H) as [[? ?]|[? ?]]; subst
  end.
(* the standard obligations after worker w moved from y to x *)
Ltac wfields Hy Hcnt Hwval Hwexit Hndone :=
  solve
    [ (* count *)
      match goal with |- forall k, wcnt k (upd _ ?w ?x) + _ = _ =>
        let k0 := fresh "k0" in let U := fresh "U" in
        intros k0; pose proof (wcnt_upd k0 _ _ x _ Hy) as U; specialize (Hcnt k0);
        unfold holdsb in U; cbn [held] in U; bdestr end
    | (* ndone *)
      match goal with |- _ = wsum _ (upd _ ?w ?x) =>
        let U := fresh "U" in
        pose proof (wsum_upd (fun q => b2n (is_done q)) _ _ x _ Hy) as U; cbn [is_done b2n] in U; lia end
    | (* values / exits *)
      (wq Hy; solve [ eapply Hwval; eassumption | eapply Hwexit; eassumption | congruence
                    | (intros [?|?]; congruence) | (intros [?|?]; discriminate) ]) ].

Lemma inv_step s l s' : Inv s -> step fv s l = Some s' -> Inv s'.
Proof.
  intros HI Hs. unfold step in Hs. destruct l.
  - (* LSrcEnter *)
    dstep Hs. injection Hs as Hs; subst s'. start HI; pre; rw. constructor; pre; try easy1.
  - (* LSrcExit *)
    dstep Hs; injection Hs as Hs; subst s'; start HI; pre; rw.
    + apply Nat.ltb_lt in E0. constructor; pre; try easy1.
    + apply Nat.ltb_ge in E0. constructor; pre; try easy1.
  - (* LFEnter *)
    dstep Hs. injection Hs as Hs; subst s'. apply Nat.eqb_eq in E1; subst k0.
    start HI; pre; rw. constructor; pre; rewrite ?upd_length; try easy1;
      try wfields E Hcnt Hwval Hwexit Hndone.
  - (* LFExit *)
    dstep Hs. injection Hs as Hs; subst s'. apply andb_true_iff in E1. destruct E1 as [E1 Erel].
    apply Nat.eqb_eq in E1; subst k0.
    start HI; pre; rw. constructor; pre; rewrite ?upd_length; try easy1;
      try wfields E Hcnt Hwval Hwexit Hndone.
  - (* LCallNext *)
    dstep Hs. injection Hs as Hs; subst s'. start HI; pre; rw. constructor; pre; try easy1.
  - (* LRetNext *)
    dstep Hs. injection Hs as Hs; subst s'. start HI; pre; rw. constructor; pre; try easy1.
  - (* LReqNext *)
    injection Hs as Hs; subst s'. start HI; pre; rw. constructor; pre; try easy1.
  - (* LRelease *)
    injection Hs as Hs; subst s'. start HI; pre; rw. constructor; pre; try easy1.
  - discriminate Hs.
  - (* TAcquire *)
    dstep Hs; injection Hs as Hs; subst s'; start HI; pre; rw.
    + apply Z.geb_le in E0. constructor; pre; try easy1.
    + rewrite Z.geb_leb in E0. apply Z.leb_gt in E0. constructor; pre; try easy1.
  - (* TDispatch *)
    dstep Hs. injection Hs as Hs; subst s'. start HI; pre; rw.
    pose proof (Hitem k eq_refl) as Hk.
    constructor; pre; rewrite ?upd_length; try easy1; try wfields E0 Hcnt Hwval Hwexit Hndone.
  - (* TCloseIn *)
    dstep Hs. injection Hs as Hs; subst s'. start HI; pre; rw. constructor; pre; try easy1.
    intros _. apply Hsrcend. left; reflexivity.
  - (* TInClosed *)
    dstep Hs. injection Hs as Hs; subst s'. start HI; pre; rw.
    constructor; pre; rewrite ?upd_length; try easy1; try wfields E Hcnt Hwval Hwexit Hndone.
  - (* TWorkerDone *)
    dstep Hs. injection Hs as Hs; subst s'. start HI; pre; rw.
    pose proof (wsum_upd (fun q => b2n (is_done q)) _ _ WDone _ E) as U. cbn [is_done b2n] in U.
    pose proof (wsum_le_length (fun q => b2n (is_done q)) (upd (ws s) w WDone)) as L.
    rewrite upd_length in L.
    assert (Hlt : ndone s < length (ws s)).
    { assert (wsum (fun q => b2n (is_done q)) (upd (ws s) w WDone) <= length (ws s)).
      { apply L. intros x. destruct (is_done x); simpl; lia. }
      lia. }
    constructor; pre; rewrite ?upd_length; try easy1; try wfields E Hcnt Hwval Hwexit Hndone.
    + wq E; intros Hx; [eapply Hwexit; [exact E | left; reflexivity] | eapply Hwexit; eauto].
    + rewrite Hchcl. replace (ndone s =? length (ws s)) with false by (symmetry; apply Nat.eqb_neq; lia).
      reflexivity.
  - (* TLoop *)
    dstep Hs; injection Hs as Hs; subst s'; start HI; pre; rw.
    + (* empty heap *) constructor; pre; try easy1. intros _. rewrite E0. reflexivity.
    + (* pop *)
      apply Nat.eqb_eq in E2. subst n. rename l into t. rename z into v. rewrite E0 in *.
      assert (Hc1 : wcnt (next s) (ws s) + hcnt (next s) ((next s, v) :: t) = 1 /\ inrange s (next s) = true).
      { pose proof (Hcnt (next s)) as C. unfold inrange, dd. unfold hcnt in *. simpl in C |- *.
        rewrite Nat.eqb_refl in *. simpl in C |- *.
        destruct ((next s <=? next s) && (next s <? match ditem (disp s) with Some k0 => k0 | None => pulled s end));
          simpl in C; [split; [lia | reflexivity] | lia]. }
      destruct Hc1 as [Hc1 Hr]. unfold inrange, dd in Hr. apply andb_true_iff in Hr. destruct Hr as [_ Hr].
      apply Nat.ltb_lt in Hr.
      assert (Hdd : forall d', ditem d' = ditem (disp s) ->
                match ditem d' with Some k0 => k0 | None => pulled s end =
                match ditem (disp s) with Some k0 => k0 | None => pulled s end).
      { intros d' ->. reflexivity. }
      set (d' := match disp s with
                 | DParked j => if (inflight s - 1 =? buf s - 1)%Z then DAcq j else DParked j
                 | d => d end).
      assert (Hd' : ditem d' = ditem (disp s) /\ dflag d' = dflag (disp s)).
      { unfold d'. destruct (disp s); auto. destruct (inflight s - 1 =? buf s - 1)%Z; auto. }
      destruct Hd' as [Hd1 Hd2].
      assert (Hle : match ditem (disp s) with Some k0 => k0 | None => pulled s end <= pulled s).
      { destruct (ditem (disp s)) eqn:Ed; [specialize (Hitem _ eq_refl); lia | lia]. }
      constructor; pre; try easy1.
      * rewrite Hd1. exact Hitem.
      * intros k Hk. unfold d' in Hk. destruct (disp s) eqn:Ed; try discriminate Hk.
        destruct (inflight s - 1 =? buf s - 1)%Z eqn:Eb; [discriminate Hk|].
        apply Z.eqb_neq in Eb. specialize (Hpark _ eq_refl). lia.
      * rewrite Hd1. lia.
      * intros k. rewrite Hd1. specialize (Hcnt k). unfold hcnt in *. simpl in Hcnt. bdestr.
      * inversion Hhval; assumption.
      * inversion Hsorted; assumption.
      * inversion Hhval as [|a b Hv Ht]; subst. simpl in Hv. subst v.
        rewrite (firstn_S_nth (src s) (next s) 0%Z) by lia. rewrite map_app. simpl. rewrite Hyield. reflexivity.
      * rewrite Hincl. unfold d'. destruct (disp s); try (split; intros; congruence).
        destruct (inflight s - 1 =? buf s - 1)%Z; split; intros; congruence.
      * unfold d'. intros [X|X]; destruct (disp s); try discriminate X; try (apply Hsrcend; auto; fail);
          destruct (inflight s - 1 =? buf s - 1)%Z; discriminate X.
    + (* no match *) constructor; pre; try easy1. intros _. rewrite E0. simpl. exact E2.
  - (* TResult *)
    dstep Hs. injection Hs as Hs; subst s'. start HI; pre; rw.
    constructor; pre; rewrite ?upd_length; try easy1; try wfields E Hcnt Hwval Hwexit Hndone.
    + intros j. pose proof (wcnt_upd j _ _ WIdle _ E) as U. specialize (Hcnt j).
      unfold holdsb in U; cbn [held] in U. rewrite hcnt_push. cbn [fst]. bdestr.
    + apply hpush_Forall; [simpl; eapply Hwval; eauto | exact Hhval].
    + apply hpush_sorted. exact Hsorted.
  - (* TChClosed *)
    dstep Hs. injection Hs as Hs; subst s'. start HI; pre; rw.
    constructor; pre; try easy1.
    intros _.
    rewrite Hchcl in E0. apply Nat.eqb_eq in E0.
    assert (Hall : forall w x, nth_error (ws s) w = Some x -> x = WDone).
    { intros w x Hx. rewrite Hndone in E0.
      pose proof (wsum_full (fun q => b2n (is_done q)) (ws s)
                            ltac:(intros q; cbv beta; destruct (is_done q); simpl; lia) E0 w x Hx) as F.
      destruct x; simpl in F; try discriminate F. reflexivity. }
    destruct (ws s) as [|x0 tl] eqn:Ews; [simpl in Hpar; lia|].
    assert (Hic : in_closed s = true).
    { apply (Hwexit 0 x0 eq_refl). right. apply (Hall 0 x0 eq_refl). }
    apply Hincl in Hic. rewrite Hic in *. prj. specialize (Hsrcend (or_intror eq_refl)).
    destruct (Nat.eq_dec (next s) (pulled s)) as [|Hne]; [congruence|]. exfalso.
    assert (Hw0 : forall j, wcnt j (x0 :: tl) = 0).
    { intros j. apply wsum_zero. intros w x Hx. rewrite (Hall w x Hx). reflexivity. }
    assert (Hm : hmatch (heap s) (next s) = true).
    { apply head_is_next; [exact Hsorted | |].
      - intros j Hj. specialize (Hcnt j). rewrite Hw0 in Hcnt. bdestr.
      - pose proof (Hcnt (next s)) as C. rewrite Hw0 in C. bdestr. }
    rewrite Hnomatch in Hm by reflexivity. discriminate Hm.
Qed.

Lemma qstep_cases s l s' :
  qstep fv s l = Some s' -> (l = LQuiesce /\ s' = s) \/ step fv s l = Some s'.
Proof.
  destruct l; simpl; auto. destruct (quiescent fv s); [|discriminate]. intros H; inversion H; auto.
Qed.

Lemma inv_qstep s l s' : Inv s -> qstep fv s l = Some s' -> Inv s'.
Proof.
  intros HI Hq. destruct (qstep_cases _ _ _ Hq) as [[_ ->]|Hs]; [exact HI | eapply inv_step; eauto].
Qed.

Theorem reachable_inv g par bufsz items gated s :
  (1 <= g)%Z -> reachable (qstep fv) (init g par bufsz items gated) s -> Inv s.
Proof. intros Hg. apply invariant_rule; [apply inv_init; exact Hg | exact inv_qstep]. Qed.

(* the configuration never changes *)
Definition Conf (items : list Z) (b : Z) (p : nat) (s : st) : Prop :=
  src s = items /\ buf s = b /\ length (ws s) = p.

Lemma conf_step items b p s l s' : Conf items b p s -> step fv s l = Some s' -> Conf items b p s'.
Proof.
  unfold Conf. intros HC Hs. unfold step in Hs.
  destruct l; dstep Hs; try discriminate Hs; injection Hs as Hs; subst s'; pre; rewrite ?upd_length; exact HC.
Qed.

Theorem reachable_conf g par bufsz items gated s :
  reachable (qstep fv) (init g par bufsz items gated) s ->
  Conf items (norm_buf (norm_par g par) bufsz) (Z.to_nat (norm_par g par)) s.
Proof.
  apply invariant_rule.
  - unfold Conf, init; simpl. rewrite repeat_length. auto.
  - intros s0 l s1 HC Hq. destruct (qstep_cases _ _ _ Hq) as [[_ ->]|Hs]; [exact HC | eapply conf_step; eauto].
Qed.

(* ---- classification of the worker list ---- *)
Lemma ws_cases (l : list wpc) :
  (forall w x, nth_error l w = Some x -> x = WIdle \/ x = WDone) \/
  (exists w x, nth_error l w = Some x /\ x <> WIdle /\ x <> WDone).
Proof.
  induction l as [|h t IH].
  - left. intros [|w] x H; discriminate H.
  - destruct IH as [IH|(w & x & Hx & Hn)].
    + destruct h; try (right; exists 0; eexists; simpl; split; [reflexivity | split; discriminate]).
      * left. intros [|w] x H; simpl in H; [inversion H; auto | eapply IH; eauto].
      * left. intros [|w] x H; simpl in H; [inversion H; auto | eapply IH; eauto].
    + right. exists (S w), x. auto.
Qed.

Lemma ws_idle_or_alldone (l : list wpc) :
  (forall w x, nth_error l w = Some x -> x = WIdle \/ x = WDone) ->
  (exists w, nth_error l w = Some WIdle) \/ (forall w x, nth_error l w = Some x -> x = WDone).
Proof.
  induction l as [|h t IH]; intros H.
  - right. intros [|w] x Hx; discriminate Hx.
  - destruct (H 0 h eq_refl) as [->| ->].
    + left. exists 0. reflexivity.
    + destruct (IH (fun w x Hx => H (S w) x Hx)) as [[w Hw]|Hall].
      * left. exists (S w). exact Hw.
      * right. intros [|w] x Hx; simpl in Hx; [inversion Hx; reflexivity | eapply Hall; eauto].
Qed.

Lemma optZ_eqb_refl r : optZ_eqb r r = true.
Proof. destruct r; simpl; [apply Z.eqb_refl | reflexivity]. Qed.

Definition in_next (s : st) : Prop := cons s <> CIdle.
Definition env_pending (s : st) : Prop :=
  disp s = DInSrc \/ exists w k, nth_error (ws s) w = Some (WInF k).

Lemma progress_inv s :
  Inv s -> in_next s ->
  (exists l s', is_lib l = true /\ step fv s l = Some s') \/ env_pending s.
Proof.
  intros HI Hin. unfold in_next in Hin. unfold env_pending.
  destruct (cons s) eqn:Ec; [congruence | | |].
  - (* CLoop *) left. exists TLoop. unfold step. rewrite Ec.
    destruct (heap s) as [|[k v] t]; [eexists; split; reflexivity|].
    destruct (k =? next s); eexists; split; reflexivity.
  - (* CRecv *)
    destruct (ws_cases (ws s)) as [Hall|(w & x & Hx & Hn1 & Hn2)].
    2:{ destruct x; try congruence.
        - left. exists (LFEnter w k). unfold step, getw. rewrite Hx, Nat.eqb_refl. eexists; split; reflexivity.
        - right. right. eauto.
        - left. exists (TResult w). unfold step, getw. rewrite Hx, Ec. eexists; split; reflexivity.
        - left. exists (TWorkerDone w). unfold step, getw. rewrite Hx. eexists; split; reflexivity. }
    destruct (ch_closed s) eqn:Ecc.
    { left. exists TChClosed. unfold step. rewrite Ec, Ecc. eexists; split; reflexivity. }
    start HI.
    destruct (ws_idle_or_alldone _ Hall) as [[w Hw]|Hd].
    2:{ exfalso. rewrite Hchcl in Ecc. apply Nat.eqb_neq in Ecc. apply Ecc. rewrite Hndone.
        apply wsum_all. intros w x Hx. rewrite (Hd w x Hx). reflexivity. }
    destruct (disp s) eqn:Ed.
    + left. exists LSrcEnter. unfold step. rewrite Ed. eexists; split; reflexivity.
    + right. left. reflexivity.
    + left. exists TAcquire. unfold step. rewrite Ed. destruct (inflight s >=? buf s)%Z; eexists; split; reflexivity.
    + (* DParked: impossible *)
      exfalso. pose proof (Hpark k eq_refl) as Hb. pose proof (Hitem k eq_refl) as Hk.
      unfold inrange, dd in *. rewrite Ed in *. cbn [ditem dflag] in *.
      assert (Hw0 : forall j, wcnt j (ws s) = 0).
      { intros j. apply wsum_zero. intros w' x Hx. destruct (Hall w' x Hx) as [-> | ->]; reflexivity. }
      assert (Hm : hmatch (heap s) (next s) = true).
      { apply head_is_next; [exact Hsorted | |].
        - intros j Hj. specialize (Hcnt j). rewrite Hw0 in Hcnt. bdestr.
        - pose proof (Hcnt (next s)) as C. rewrite Hw0 in C. bdestr. }
      rewrite (Hnomatch Ec) in Hm. discriminate Hm.
    + left. exists (TDispatch w). unfold step, getw. rewrite Ed, Hw. eexists; split; reflexivity.
    + left. exists TCloseIn. unfold step. rewrite Ed. eexists; split; reflexivity.
    + left. exists (TInClosed w). unfold step, getw. rewrite Hw.
      replace (in_closed s) with true by (symmetry; apply Hincl; reflexivity). eexists; split; reflexivity.
  - (* CRet *) left. exists (LRetNext r). unfold step. rewrite Ec, optZ_eqb_refl. eexists; split; reflexivity.
Qed.

(* ---- the clauses of C14 for MapIterator ---- *)
Theorem in_order_exactly_once g par bufsz items gated s :
  (1 <= g)%Z -> reachable (qstep fv) (init g par bufsz items gated) s ->
  yielded s = map fv (firstn (next s) items) /\ next s <= length items /\
  (cons s = CRet None -> yielded s = map fv items).
Proof.
  intros Hg Hr. pose proof (reachable_inv _ _ _ _ _ _ Hg Hr) as HI.
  destruct (reachable_conf _ _ _ _ _ _ Hr) as (Hsrc & _ & _). start HI. rewrite Hsrc in *.
  split; [exact Hyield|]. split.
  - unfold dd in Hnext. destruct (ditem (disp s)) eqn:Ed; [specialize (Hitem _ eq_refl); lia | lia].
  - intros Hc. rewrite Hyield, (Hend Hc). rewrite firstn_all. reflexivity.
Qed.

Theorem inflight_bound g par bufsz items gated s :
  (1 <= g)%Z -> reachable (qstep fv) (init g par bufsz items gated) s ->
  (Z.of_nat (pulled s) - Z.of_nat (next s) <= norm_buf (norm_par g par) bufsz + 1)%Z.
Proof.
  intros Hg Hr. pose proof (reachable_inv _ _ _ _ _ _ Hg Hr) as HI.
  destruct (reachable_conf _ _ _ _ _ _ Hr) as (_ & Hbuf & _). start HI. rewrite Hbuf in *.
  destruct (disp s); cbn [dflag] in Hinfl; lia.
Qed.

Corollary inflight_bound_property g par bufsz items gated s :
  (1 <= g)%Z -> reachable (qstep fv) (init g par bufsz items gated) s ->
  (Z.of_nat (pulled s) - Z.of_nat (next s) <= Z.max 0 bufsz + norm_par g par + 1)%Z.
Proof.
  intros Hg Hr. pose proof (inflight_bound _ _ _ _ _ _ Hg Hr) as H.
  pose proof (norm_par_pos g par Hg) as Hp.
  unfold norm_buf in H. destruct (bufsz <? norm_par g par)%Z eqn:E; [lia|]. apply Z.ltb_ge in E. lia.
Qed.

Theorem no_deadlock g par bufsz items gated s :
  (1 <= g)%Z -> reachable (qstep fv) (init g par bufsz items gated) s -> in_next s ->
  (exists l s', is_lib l = true /\ step fv s l = Some s') \/ env_pending s.
Proof. intros Hg Hr. apply progress_inv. eapply reachable_inv; eauto. Qed.
End Proofs.
End MIP.
