(* C14 — proofs about the LTS models of parallel.MapIterator / MapStream (Conc/ParMap.v).
   Stdlib only, no axioms.  Part 1: shared lemmas; Part 2: MapIterator (module MIP);
   Part 3: MapStream (module MSP). *)
From Juniper Require Import Common.Base Conc.GoLTS Conc.ParMap.
From Coq Require Import Arith PeanoNat Sorted.
Local Open Scope nat_scope.

(* ------------------------------------------------------------------ *)
(* Part 1: shared lemmas                                               *)
(* ------------------------------------------------------------------ *)

Definition b2n (b : bool) : nat := if b then 1 else 0.

Lemma nth_upd {A} (l : list A) n m x :
  nth_error (upd l n x) m = if Nat.eq_dec n m then (if lt_dec n (length l) then Some x else None)
                            else nth_error l m.
Proof.
  destruct (Nat.eq_dec n m) as [->|Hne].
  - destruct (lt_dec m (length l)) as [Hlt|Hge].
    + apply nth_error_upd_same; exact Hlt.
    + apply nth_error_None. rewrite upd_length. lia.
  - apply nth_error_upd_other; exact Hne.
Qed.

Lemma nth_lt {A} (l : list A) n x : nth_error l n = Some x -> n < length l.
Proof. intros H. apply nth_error_Some. congruence. Qed.

(* what a list looks like pointwise after an update at a valid position *)
Lemma nth_upd_cases {A} (l : list A) n x0 x m y :
  nth_error l n = Some x0 -> nth_error (upd l n x) m = Some y ->
  (m = n /\ y = x) \/ (m <> n /\ nth_error l m = Some y).
Proof.
  intros H0 H. rewrite nth_upd in H. destruct (Nat.eq_dec n m) as [->|Hne].
  - destruct (lt_dec m (length l)) as [_|Hge]; [|exfalso; apply Hge; eapply nth_lt; eauto].
    left. split; congruence.
  - right. split; [congruence | exact H].
Qed.

Fixpoint wsum {A} (m : A -> nat) (l : list A) : nat :=
  match l with [] => 0 | x :: t => m x + wsum m t end.

Lemma wsum_upd {A} (m : A -> nat) l n x y :
  nth_error l n = Some y -> wsum m (upd l n x) + m y = wsum m l + m x.
Proof.
  revert n; induction l as [|h t IH]; intros [|n] H; simpl in *; try discriminate.
  - inversion H; subst. lia.
  - specialize (IH n H). lia.
Qed.

Lemma wsum_le_length {A} (m : A -> nat) l : (forall x, m x <= 1) -> wsum m l <= length l.
Proof. intros H. induction l as [|h t IH]; simpl; [lia|]. specialize (H h). lia. Qed.

Lemma wsum_zero {A} (m : A -> nat) l :
  (forall w x, nth_error l w = Some x -> m x = 0) -> wsum m l = 0.
Proof.
  induction l as [|h t IH]; intros H; simpl; [reflexivity|].
  rewrite (H 0 h eq_refl). rewrite IH; [reflexivity|]. intros w x Hx. exact (H (S w) x Hx).
Qed.

Lemma wsum_pos {A} (m : A -> nat) l : 0 < wsum m l -> exists w x, nth_error l w = Some x /\ 0 < m x.
Proof.
  induction l as [|h t IH]; simpl; [lia|]. intros H.
  destruct (m h) eqn:E.
  - destruct (IH H) as (w & x & Hx & Hm). exists (S w), x. auto.
  - exists 0, h. simpl. split; [reflexivity | lia].
Qed.

Lemma wsum_all {A} (m : A -> nat) l :
  (forall w x, nth_error l w = Some x -> m x = 1) -> wsum m l = length l.
Proof.
  induction l as [|h t IH]; intros H; simpl; [reflexivity|].
  rewrite (H 0 h eq_refl). rewrite IH; [reflexivity|]. intros w x Hx. exact (H (S w) x Hx).
Qed.

Lemma wsum_full {A} (m : A -> nat) l :
  (forall x, m x <= 1) -> wsum m l = length l -> forall w x, nth_error l w = Some x -> m x = 1.
Proof.
  intros Hm. induction l as [|h t IH]; intros H w x Hx; [destruct w; discriminate|].
  simpl in H. pose proof (wsum_le_length m t Hm) as Hle. pose proof (Hm h) as Hh.
  destruct w as [|w]; simpl in Hx.
  - inversion Hx; subst. lia.
  - apply (IH ltac:(lia) w x Hx).
Qed.

Lemma wsum_repeat {A} (m : A -> nat) x n : wsum m (repeat x n) = n * m x.
Proof. induction n as [|n IH]; simpl; [reflexivity | rewrite IH; lia]. Qed.

(* ---- the re-order buffer ---- *)
Definition hle (a b : entry) : Prop := fst a <= fst b.
Definition hcnt (k : nat) (h : list entry) : nat := wsum (fun e => b2n (Nat.eqb (fst e) k)) h.
Definition hmatch (h : list entry) (n : nat) : bool :=
  match h with (k, _) :: _ => Nat.eqb k n | [] => false end.

Lemma hcnt_push k x h : hcnt k (hpush x h) = b2n (Nat.eqb (fst x) k) + hcnt k h.
Proof.
  unfold hcnt. induction h as [|y t IH]; simpl; [lia|].
  destruct (fst x <=? fst y); simpl; [lia | rewrite IH; lia].
Qed.

Lemma hpush_Forall (P : entry -> Prop) x h : P x -> Forall P h -> Forall P (hpush x h).
Proof.
  intros Hx Hh. induction Hh as [|y t Hy Ht IH]; simpl; [auto|].
  destruct (fst x <=? fst y); auto.
Qed.

Lemma hpush_sorted x h : StronglySorted hle h -> StronglySorted hle (hpush x h).
Proof.
  intros Hs. induction Hs as [|y t Ht IH Hy]; simpl.
  - constructor; [constructor | constructor].
  - destruct (fst x <=? fst y) eqn:E.
    + apply Nat.leb_le in E. constructor; [constructor; assumption|].
      constructor; [exact E|]. eapply Forall_impl; [|exact Hy]. unfold hle. intros a Ha. lia.
    + apply Nat.leb_gt in E. constructor; [exact IH|].
      apply hpush_Forall; [unfold hle; lia | exact Hy].
Qed.

Lemma hcnt_pos_in k h : 0 < hcnt k h -> exists v, In (k, v) h.
Proof.
  unfold hcnt. intros H. apply wsum_pos in H. destruct H as (w & [j v] & Hx & Hm). simpl in Hm.
  destruct (j =? k) eqn:E; [|simpl in Hm; lia]. apply Nat.eqb_eq in E. subst j.
  exists v. eapply nth_error_In; eauto.
Qed.

(* if index n is buffered and nothing below n is, the head of the buffer is n *)
Lemma head_is_next h n :
  StronglySorted hle h -> (forall j, 0 < hcnt j h -> n <= j) -> 0 < hcnt n h -> hmatch h n = true.
Proof.
  intros Hs Hlow Hn. destruct h as [|[k v] t]; [unfold hcnt in Hn; simpl in Hn; lia|].
  simpl. apply Nat.eqb_eq. inversion Hs as [|a b Ht Hall]; subst.
  assert (Hk : n <= k). { apply Hlow. unfold hcnt; simpl. rewrite Nat.eqb_refl. simpl. lia. }
  destruct (hcnt_pos_in _ _ Hn) as (v' & Hin). destruct Hin as [Heq|Hin]; [congruence|].
  rewrite Forall_forall in Hall. specialize (Hall _ Hin). unfold hle in Hall. simpl in Hall. lia.
Qed.

Lemma firstn_S_nth {A} (l : list A) n d : n < length l -> firstn (S n) l = firstn n l ++ [nth n l d].
Proof.
  revert n; induction l as [|h t IH]; intros n H; simpl in H; [lia|].
  destruct n as [|n]; [reflexivity|]. simpl. f_equal. apply IH. lia.
Qed.

Lemma firstn_all_eq {A} (l : list A) n : n = length l -> firstn n l = l.
Proof. intros ->. apply firstn_all. Qed.

Lemma norm_par_pos g p : (1 <= g)%Z -> (1 <= norm_par g p)%Z.
Proof. intros H. unfold norm_par. destruct (p <=? 0)%Z eqn:E; [exact H | apply Z.leb_gt in E; lia]. Qed.

Lemma norm_buf_ge p b : (p <= norm_buf p b)%Z.
Proof. unfold norm_buf. destruct (b <? p)%Z eqn:E; [lia | apply Z.ltb_ge in E; lia]. Qed.

Ltac dstep Hs :=
  repeat match type of Hs with
         | match ?e with _ => _ end = Some _ =>
             let E := fresh "E" in destruct e eqn:E; try discriminate Hs
         end.
