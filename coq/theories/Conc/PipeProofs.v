(* C10 — proofs about the LTS model of stream.Pipe (Conc/Pipe.v).

   One combined invariant [Inv] of every state reachable by [qstep] from [init n nt nc], for every
   buffer size n, every number nt of sender goroutines and every number of contexts; from it the
   FIFO / no-duplication / no-loss clauses; the "settled" predicate for the stickiness of the end;
   progress (no stuck call) for Send, TrySend, Next and both Close calls; a variant showing that the
   library cannot take internal steps forever.  Stdlib only, no axioms. *)
From Juniper Require Import Common.Base Conc.GoLTS Conc.Pipe.
From Coq Require Import Arith PeanoNat Sorted.
Local Open Scope nat_scope.

(* ------------------------------------------------------------------ *)
(* list helpers                                                        *)
(* ------------------------------------------------------------------ *)

Lemma nth_map {A B} (f : A -> B) l n : nth_error (map f l) n = option_map f (nth_error l n).
Proof. revert n; induction l as [|h t IH]; intros [|n]; simpl; auto. Qed.

Lemma nth_upd_inv {A} (l : list A) t x t1 x1 :
  nth_error (upd l t x) t1 = Some x1 -> (t1 = t /\ x1 = x) \/ (t1 <> t /\ nth_error l t1 = Some x1).
Proof.
  intros H. destruct (Nat.eq_dec t t1) as [->|Hne].
  - left. split; [reflexivity|].
    destruct (lt_dec t1 (length l)) as [Hlt|Hge].
    + rewrite nth_error_upd_same in H by exact Hlt. congruence.
    + assert (Hn : nth_error (upd l t1 x) t1 = None) by (apply nth_error_None; rewrite upd_length; lia).
      congruence.
  - right. split; [congruence|]. rewrite nth_error_upd_other in H by exact Hne. exact H.
Qed.

Lemma nth_lt {A} (l : list A) n x : nth_error l n = Some x -> n < length l.
Proof. intros H. apply nth_error_Some. congruence. Qed.

Lemma existsb_false_nth {A} (f : A -> bool) l n x :
  existsb f l = false -> nth_error l n = Some x -> f x = false.
Proof.
  intros He Hn. destruct (f x) eqn:E; [|reflexivity].
  assert (Ht : existsb f l = true) by (apply existsb_exists; exists x; split; [eapply nth_error_In; eauto | exact E]).
  congruence.
Qed.

Lemma existsb_true_nth {A} (f : A -> bool) l :
  existsb f l = true -> exists n x, nth_error l n = Some x /\ f x = true.
Proof.
  intros He. apply existsb_exists in He. destruct He as (x & Hin & Hf).
  apply In_nth_error in Hin. destruct Hin as [n Hn]. exists n, x. split; assumption.
Qed.

Lemma in_snoc {A} (a : A) l b : In a (l ++ [b]) <-> In a l \/ a = b.
Proof. rewrite in_app_iff. simpl. intuition. Qed.

Lemma snoc_nonempty {A} (l : list A) w : exists v b, l ++ [w] = v :: b.
Proof. destruct l as [|h t]; simpl; eauto. Qed.

Lemma ssorted_snoc {A} (R : A -> A -> Prop) l v :
  StronglySorted R l -> Forall (fun w => R w v) l -> StronglySorted R (l ++ [v]).
Proof.
  induction 1 as [|a l Hs IH Ha]; simpl; intros HF.
  - constructor; constructor.
  - inversion HF as [|a' l' Hav HF']; subst. constructor.
    + apply IH; exact HF'.
    + apply Forall_app; split; [exact Ha | constructor; [exact Hav | constructor]].
Qed.

Lemma ssorted_app_l {A} (R : A -> A -> Prop) l1 l2 : StronglySorted R (l1 ++ l2) -> StronglySorted R l1.
Proof.
  induction l1 as [|a l1 IH]; simpl; intros H; [constructor|].
  inversion H as [|a' l' Hs Ha]; subst. constructor; [apply IH; exact Hs|].
  apply Forall_app in Ha. tauto.
Qed.

Lemma ssorted_nodup {A} (R : A -> A -> Prop) l :
  (forall a, ~ R a a) -> StronglySorted R l -> NoDup l.
Proof.
  intros Hirr. induction 1 as [|a l Hs IH Ha]; constructor; [|exact IH].
  intros Hin. rewrite Forall_forall in Ha. exact (Hirr a (Ha a Hin)).
Qed.

(* ------------------------------------------------------------------ *)
(* per-thread predicates                                               *)
(* ------------------------------------------------------------------ *)

Definition TAll (P : nat -> thread -> Prop) (l : list thread) : Prop :=
  forall t x, nth_error l t = Some x -> P t x.

Lemma TAll_upd (P Q : nat -> thread -> Prop) l t x :
  TAll P l -> (forall t1 x1, t1 <> t -> P t1 x1 -> Q t1 x1) -> Q t x -> TAll Q (upd l t x).
Proof.
  intros HP Himp Hx t1 x1 Hn. apply nth_upd_inv in Hn. destruct Hn as [[-> ->]|[Hne Hn]]; [exact Hx|].
  apply Himp; [exact Hne | apply HP; exact Hn].
Qed.

Lemma TAll_map (P Q : nat -> thread -> Prop) l f :
  TAll P l -> (forall t1 x1, P t1 x1 -> Q t1 (f x1)) -> TAll Q (map f l).
Proof.
  intros HP Himp t1 x1 Hn. rewrite nth_map in Hn. destruct (nth_error l t1) as [y|] eqn:E; [|discriminate].
  simpl in Hn. inversion Hn; subst. apply Himp. apply HP. exact E.
Qed.

Lemma TAll_map_upd (P Q : nat -> thread -> Prop) l f t x :
  TAll P l -> (forall t1 x1, t1 <> t -> P t1 x1 -> Q t1 (f x1)) -> Q t x -> TAll Q (upd (map f l) t x).
Proof.
  intros HP Himp Hx t1 x1 Hn. apply nth_upd_inv in Hn. destruct Hn as [[-> ->]|[Hne Hn]]; [exact Hx|].
  rewrite nth_map in Hn. destruct (nth_error l t1) as [y|] eqn:E; [|discriminate].
  simpl in Hn. inversion Hn; subst. apply Himp; [exact Hne | apply HP; exact E].
Qed.

Lemma TAll_impl (P Q : nat -> thread -> Prop) l : TAll P l -> (forall t1 x1, P t1 x1 -> Q t1 x1) -> TAll Q l.
Proof. intros HP Himp t1 x1 Hn. apply Himp, HP, Hn. Qed.

(* the value of the current call has entered the channel *)
Definition committed (p : spc) : bool :=
  match p with SRetSend true _ | SRetTry true _ => true | _ => false end.

(* inside Send / TrySend, before the outcome is decided *)
Definition sendish (p : spc) : bool :=
  match p with SPre _ | SSel _ | SParked _ | TPoll _ | TSel2 _ => true | _ => false end.

Definition pc_parked (p : spc) : bool := match p with SParked _ => true | _ => false end.

(* what the program counter of sender thread t promises about the shared state *)
Record thr_ok (s : st) (t : nat) (x : thread) : Prop := {
  (* values of t that entered the channel belong to earlier calls, or to the current one if it is committed *)
  tk_comm : forall i, In (t, i) (g_comm s) -> i < t_idx x \/ (i = t_idx x /\ committed (t_pc x) = true);
  (* a parked Send is blocked for the documented reasons: nobody closed, the buffer is full, no receiver waits *)
  tk_park : pc_parked (t_pc x) = true ->
            sdone s = false /\ rdone s = false /\ rparked (rcv s) = false /\ cap s <= length (buf s);
  tk_pctx : forall c, t_pc x = SParked c -> ctx_done s c = false;
  tk_sent : sendish (t_pc x) = true -> In (t, t_idx x) (g_sent s);
  tk_in : committed (t_pc x) = true -> In (t, t_idx x) (g_comm s);
  (* Send returns nil without having sent only after the sender was closed (with a nil error) *)
  tk_nil : t_pc x = SRetSend false RNil -> sdone s = true;
  tk_cw : forall e, t_pc x = CWrite e -> g_closing s = true /\ g_cerr s = e;
  tk_cc : t_pc x = CCloseCh -> g_closing s = true /\ serr s = g_cerr s
}.

(* a value of the same sender that comes earlier has the smaller sequence number *)
Definition vlt (w v : val) : Prop := fst w = fst v -> snd w < snd v.

Lemma vlt_irrefl v : ~ vlt v v.
Proof. unfold vlt. intros H. specialize (H eq_refl). lia. Qed.

Definition pend (r : rpc) : list val := match r with RRet (VVal v) => [v] | _ => [] end.

Definition rend_ok (s : st) (r : rpc) : Prop :=
  match r with
  | RDrain => sdone s = true
  | RRet VEnd => sdone s = true /\ serr s = false /\ incl (g_acked s) (g_rcvd s)
  | RRet VErr => sdone s = true /\ serr s = true /\ incl (g_acked s) (g_rcvd s)
  | _ => True
  end.

Record Inv (s : st) : Prop := {
  inv_fifo : g_rcvd s ++ buf s = g_comm s;
  inv_cap : length (buf s) <= cap s;
  inv_sdone : sdone s = true -> g_closing s = true /\ serr s = g_cerr s;
  inv_ths : TAll (thr_ok s) (ths s);
  inv_rpark : forall c, rcv s = RParked c -> buf s = [] /\ sdone s = false /\ ctx_done s c = false;
  inv_sorted : StronglySorted vlt (g_comm s);
  inv_sent : incl (g_comm s) (g_sent s);
  inv_acked : incl (g_acked s) (g_comm s);
  inv_rend : rend_ok s (rcv s);
  inv_ret : g_ret s ++ pend (rcv s) = g_rcvd s
}.

Lemma Inv_init n nt nc : Inv (init n nt nc).
Proof.
  constructor; simpl.
  - reflexivity.
  - lia.
  - intros; discriminate.
  - intros t x Hn. apply nth_error_In in Hn. apply repeat_spec in Hn. subst x.
    constructor; simpl; try (intros; discriminate); intros i [].
  - intros; discriminate.
  - constructor.
  - apply incl_refl.
  - apply incl_refl.
  - exact I.
  - reflexivity.
Qed.

(* ------------------------------------------------------------------ *)
(* generic state updates                                               *)
(* ------------------------------------------------------------------ *)

Lemma thr_ok_setT s t x' t1 x1 : thr_ok s t1 x1 -> thr_ok (setT s t x') t1 x1.
Proof. intros [H1 H2 H3 H4 H5 H6 H7 H8]. constructor; assumption. Qed.

(* one thread moves to a program counter whose promises hold in the unchanged shared state *)
Lemma Inv_setT s t x' : Inv s -> thr_ok s t x' -> Inv (setT s t x').
Proof.
  intros [I1 I2 I3 I4 I5 I6 I7 I8 I9 I10] Hx. constructor; try assumption.
  apply TAll_upd with (P := thr_ok s); [exact I4 | intros t1 x1 _ H1; apply thr_ok_setT; exact H1 | apply thr_ok_setT; exact Hx].
Qed.

Lemma Inv_add_acked s v : Inv s -> In v (g_comm s) -> g_closing s = false -> Inv (add_acked s v).
Proof.
  intros [I1 I2 I3 I4 I5 I6 I7 I8 I9 I10] Hin Hcl.
  assert (Hsd : sdone s = false).
  { destruct (sdone s) eqn:E; [|reflexivity]. destruct (I3 eq_refl) as [Hc _]. congruence. }
  constructor; try assumption.
  - apply TAll_impl with (P := thr_ok s); [exact I4|].
    intros t1 x1 [H1 H2 H3 H4 H5 H6 H7 H8]. constructor; assumption.
  - simpl. apply incl_app; [exact I8|]. intros w [<-|[]]. exact Hin.
  - simpl. unfold rend_ok in *. simpl. destruct (rcv s) as [| | | |[]]; try exact I; try congruence; destruct I9; congruence.
Qed.

Lemma Inv_add_sent s v : Inv s -> Inv (add_sent s v).
Proof.
  intros [I1 I2 I3 I4 I5 I6 I7 I8 I9 I10]. constructor; try assumption.
  - apply TAll_impl with (P := thr_ok s); [exact I4|].
    intros t1 x1 [H1 H2 H3 H4 H5 H6 H7 H8]. constructor; try assumption.
    intros Hs. simpl. apply in_or_app. left. apply H4. exact Hs.
  - simpl. apply incl_appl. exact I7.
Qed.

(* the receiver moves (no value involved) *)
Lemma Inv_set_rcv s r :
  Inv s ->
  (rparked r = true -> existsb is_sparked (ths s) = false) ->
  (forall c, r = RParked c -> buf s = [] /\ sdone s = false /\ ctx_done s c = false) ->
  rend_ok s r ->
  g_ret s ++ pend r = g_rcvd s ->
  Inv (set_rcv s r).
Proof.
  intros [I1 I2 I3 I4 I5 I6 I7 I8 I9 I10] Hp Hr He Hret. constructor; try assumption.
  intros t1 x1 Hn. destruct (I4 t1 x1 Hn) as [H1 H2 H3 H4 H5 H6 H7 H8]. constructor; try assumption.
  intros Hpk. destruct (H2 Hpk) as (Ha & Hb & Hc & Hd). repeat split; try assumption.
  simpl. destruct (rparked r) eqn:E; [|reflexivity].
  pose proof (existsb_false_nth _ _ _ _ (Hp eq_refl) Hn) as Hf.
  change (is_sparked x1) with (pc_parked (t_pc x1)) in Hf. congruence.
Qed.

(* Next returns the value it holds *)
Lemma Inv_ret_val s v : Inv s -> rcv s = RRet (VVal v) -> Inv (add_ret (set_rcv s RIdle) v).
Proof.
  intros [I1 I2 I3 I4 I5 I6 I7 I8 I9 I10] Hr. rewrite Hr in I10. simpl in I10.
  constructor; try assumption.
  - intros t1 x1 Hn. destruct (I4 t1 x1 Hn) as [H1 H2 H3 H4 H5 H6 H7 H8]. constructor; try assumption.
    intros Hpk. destruct (H2 Hpk) as (Ha & Hb & Hc & Hd). repeat split; assumption.
  - intros c Hc. discriminate Hc.
  - exact I.
  - simpl. rewrite app_nil_r. exact I10.
Qed.

Lemma sendish_not_committed p : sendish p = true -> committed p = false.
Proof. destruct p; simpl; congruence. Qed.

(* a sender moves between program counters, nothing shared changes *)
Lemma thr_ok_move s t x p' :
  thr_ok s t x -> committed (t_pc x) = false -> committed p' = false ->
  (sendish p' = true -> sendish (t_pc x) = true) ->
  (pc_parked p' = true -> sdone s = false /\ rdone s = false /\ rparked (rcv s) = false /\ cap s <= length (buf s)) ->
  (forall c, p' = SParked c -> ctx_done s c = false) ->
  (p' = SRetSend false RNil -> sdone s = true) ->
  (forall e, p' = CWrite e -> g_closing s = true /\ g_cerr s = e) ->
  (p' = CCloseCh -> g_closing s = true /\ serr s = g_cerr s) ->
  thr_ok s t (set_pc x p').
Proof.
  intros [H1 H2 H3 H4 H5 H6 H7 H8] Hnc Hnc' Hs Hp Hc Hn Hw Hcc. constructor; simpl; try assumption.
  - intros i Hin. destruct (H1 i Hin) as [Hlt|[_ Hcm]]; [left; exact Hlt | congruence].
  - intros Hs'. apply H4. apply Hs. exact Hs'.
  - congruence.
Qed.

(* a call returns: the thread is idle again and its call counter advances *)
Lemma thr_ok_finish s t x : thr_ok s t x -> thr_ok s t (finish x).
Proof.
  intros [H1 H2 H3 H4 H5 H6 H7 H8]. constructor; simpl; try (intros; discriminate).
  intros i Hin. destruct (H1 i Hin) as [Hlt|[-> _]]; left; lia.
Qed.

(* ------------------------------------------------------------------ *)
(* a value enters the channel                                          *)
(* ------------------------------------------------------------------ *)

Lemma Inv_enqueue s t x p' :
  Inv s -> getT s t = Some x -> sendish (t_pc x) = true ->
  rparked (rcv s) = false -> has_room s = true ->
  (p' = SRetSend true RNil \/ p' = SRetTry true RNil) ->
  Inv (enqueue (setT s t (set_pc x p')) (t, t_idx x)).
Proof.
  intros HI Hg Hs Hnp Hroom Hp'.
  pose proof (inv_ths s HI t x Hg) as Hx.
  pose proof (sendish_not_committed _ Hs) as Hnc.
  destruct HI as [I1 I2 I3 I4 I5 I6 I7 I8 I9 I10].
  constructor; simpl; try assumption.
  - rewrite app_assoc, I1. reflexivity.
  - rewrite app_length. simpl. unfold has_room in Hroom. apply Nat.ltb_lt in Hroom. lia.
  - apply TAll_upd with (P := thr_ok s); [exact I4| |].
    + intros t1 x1 Hne [H1 H2 H3 H4 H5 H6 H7 H8]. constructor; simpl; try assumption.
      * intros i Hin. apply in_snoc in Hin. destruct Hin as [Hin|Heq]; [auto | inversion Heq; congruence].
      * intros Hpk. destruct (H2 Hpk) as (Ha & Hb & Hc & Hd). repeat split; try assumption.
        rewrite app_length; lia.
      * intros Hc. apply in_or_app; left; auto.
    + destruct Hx as [H1 H2 H3 H4 H5 H6 H7 H8]. constructor; simpl.
      * intros i Hin. apply in_snoc in Hin. destruct Hin as [Hin|Heq].
        -- destruct (H1 i Hin) as [Hlt|[_ Hc]]; [left; exact Hlt | congruence].
        -- inversion Heq; subst. right. split; [reflexivity | destruct Hp' as [->| ->]; reflexivity].
      * destruct Hp' as [->| ->]; discriminate.
      * destruct Hp' as [->| ->]; discriminate.
      * destruct Hp' as [->| ->]; discriminate.
      * intros _. apply in_snoc. right; reflexivity.
      * destruct Hp' as [->| ->]; discriminate.
      * destruct Hp' as [->| ->]; discriminate.
      * destruct Hp' as [->| ->]; discriminate.
  - intros c Hc. rewrite Hc in Hnp. discriminate Hnp.
  - apply ssorted_snoc; [exact I6|]. apply Forall_forall. intros [tw iw] Hw Hf. simpl in *. subst tw.
    destruct (tk_comm _ _ _ Hx iw Hw) as [Hlt|[_ Hc]]; [exact Hlt | congruence].
  - apply incl_app; [exact I7|]. intros w [<-|[]]. apply (tk_sent _ _ _ Hx Hs).
  - apply incl_appl. exact I8.
Qed.

Lemma Inv_handoff s t x p' c0 :
  Inv s -> getT s t = Some x -> sendish (t_pc x) = true ->
  rcv s = RParked c0 ->
  (p' = SRetSend true RNil \/ p' = SRetTry true RNil) ->
  Inv (handoff (setT s t (set_pc x p')) (t, t_idx x)).
Proof.
  intros HI Hg Hs Hrp Hp'.
  pose proof (inv_ths s HI t x Hg) as Hx.
  pose proof (sendish_not_committed _ Hs) as Hnc.
  destruct HI as [I1 I2 I3 I4 I5 I6 I7 I8 I9 I10].
  destruct (I5 c0 Hrp) as (Hbuf & Hsd & Hcd).
  rewrite Hrp in I10. simpl in I10. rewrite app_nil_r in I10.
  rewrite Hbuf in I1. rewrite app_nil_r in I1.
  constructor; simpl; try assumption.
  - rewrite Hbuf, app_nil_r, I1. reflexivity.
  - apply TAll_upd with (P := thr_ok s); [exact I4| |].
    + intros t1 x1 Hne [H1 H2 H3 H4 H5 H6 H7 H8]. constructor; simpl; try assumption.
      * intros i Hin. apply in_snoc in Hin. destruct Hin as [Hin|Heq]; [auto | inversion Heq; congruence].
      * intros Hpk. destruct (H2 Hpk) as (Ha & Hb & Hc & Hd). rewrite Hrp in Hc. discriminate Hc.
      * intros Hc. apply in_or_app; left; auto.
    + destruct Hx as [H1 H2 H3 H4 H5 H6 H7 H8]. constructor; simpl.
      * intros i Hin. apply in_snoc in Hin. destruct Hin as [Hin|Heq].
        -- destruct (H1 i Hin) as [Hlt|[_ Hc]]; [left; exact Hlt | congruence].
        -- inversion Heq; subst. right. split; [reflexivity | destruct Hp' as [->| ->]; reflexivity].
      * destruct Hp' as [->| ->]; discriminate.
      * destruct Hp' as [->| ->]; discriminate.
      * destruct Hp' as [->| ->]; discriminate.
      * intros _. apply in_snoc. right; reflexivity.
      * destruct Hp' as [->| ->]; discriminate.
      * destruct Hp' as [->| ->]; discriminate.
      * destruct Hp' as [->| ->]; discriminate.
  - intros c Hc. discriminate Hc.
  - apply ssorted_snoc; [exact I6|]. apply Forall_forall. intros [tw iw] Hw Hf. simpl in *. subst tw.
    destruct (tk_comm _ _ _ Hx iw Hw) as [Hlt|[_ Hc]]; [exact Hlt | congruence].
  - apply incl_app; [exact I7|]. intros w [<-|[]]. apply (tk_sent _ _ _ Hx Hs).
  - apply incl_appl. exact I8.
  - exact I.
  - rewrite I10. reflexivity.
Qed.

(* ------------------------------------------------------------------ *)
(* the receiver takes a value                                          *)
(* ------------------------------------------------------------------ *)

Lemma do_take_inv s o s' :
  do_take s o = Some s' ->
  (o = None /\ existsb is_sparked (ths s) = false /\
   exists v b, buf s = v :: b /\ s' = taken s v b (ths s) (g_comm s)) \/
  (exists t x c v b, o = Some t /\ getT s t = Some x /\ t_pc x = SParked c /\
     buf s ++ [(t, t_idx x)] = v :: b /\
     s' = taken s v b (upd (ths s) t (set_pc x (SRetSend true RNil))) (g_comm s ++ [(t, t_idx x)])).
Proof.
  unfold do_take. destruct o as [t|].
  - destruct (getT s t) as [x|] eqn:Hg; [|discriminate]. destruct (t_pc x) eqn:Hpc; try discriminate.
    destruct (buf s ++ [(t, t_idx x)]) as [|v b] eqn:Hb; [discriminate|].
    intros H; inversion H. right. exists t, x, c, v, b. repeat split; first [assumption | reflexivity | symmetry; assumption].
  - destruct (existsb is_sparked (ths s)) eqn:He; [discriminate|].
    destruct (buf s) as [|v b] eqn:Hb; [discriminate|]. intros H; inversion H. left. split; [reflexivity|]. split; [first [assumption | reflexivity]|]. exists v, b. split; first [assumption | reflexivity].
Qed.

Lemma Inv_do_take s o s' : Inv s -> pend (rcv s) = [] -> do_take s o = Some s' -> Inv s'.
Proof.
  intros HI Hpend Ht. apply do_take_inv in Ht.
  destruct Ht as [(-> & Hnp & v & b & Hb & ->)|(t & x & c & v & b & -> & Hg & Hpc & Hb & ->)].
  - destruct HI as [I1 I2 I3 I4 I5 I6 I7 I8 I9 I10]. rewrite Hpend, app_nil_r in I10.
    constructor; simpl; try assumption.
    + rewrite <- app_assoc. simpl. rewrite <- Hb. exact I1.
    + rewrite Hb in I2. simpl in I2. lia.
    + intros t1 x1 Hn. destruct (I4 t1 x1 Hn) as [H1 H2 H3 H4 H5 H6 H7 H8]. constructor; try assumption.
      intros Hpk. pose proof (existsb_false_nth _ _ _ _ Hnp Hn) as Hf.
      change (is_sparked x1) with (pc_parked (t_pc x1)) in Hf. congruence.
    + intros c Hc. discriminate Hc.
    + exact I.
    + rewrite I10. reflexivity.
  - pose proof (inv_ths s HI t x Hg) as Hx.
    assert (Hnc : committed (t_pc x) = false) by (rewrite Hpc; reflexivity).
    assert (Hs : sendish (t_pc x) = true) by (rewrite Hpc; reflexivity).
    destruct HI as [I1 I2 I3 I4 I5 I6 I7 I8 I9 I10]. rewrite Hpend, app_nil_r in I10.
    assert (Hlen : length b = length (buf s)).
    { apply (f_equal (@length val)) in Hb. rewrite app_length in Hb. simpl in Hb. lia. }
    constructor; simpl; try assumption.
    + rewrite <- app_assoc. simpl. rewrite <- Hb. rewrite app_assoc, I1. reflexivity.
    + lia.
    + apply TAll_upd with (P := thr_ok s); [exact I4| |].
      * intros t1 x1 Hne [H1 H2 H3 H4 H5 H6 H7 H8]. constructor; simpl; try assumption.
        -- intros i Hin. apply in_snoc in Hin. destruct Hin as [Hin|Heq]; [auto | inversion Heq; congruence].
        -- intros Hpk. destruct (H2 Hpk) as (Ha & Hb' & Hc & Hd). repeat split; try assumption. lia.
        -- intros Hc. apply in_or_app; left; auto.
      * destruct Hx as [H1 H2 H3 H4 H5 H6 H7 H8]. constructor; simpl; try (intros; discriminate).
        -- intros i Hin. apply in_snoc in Hin. destruct Hin as [Hin|Heq].
           ++ destruct (H1 i Hin) as [Hlt|[_ Hc]]; [left; exact Hlt | congruence].
           ++ inversion Heq; subst. right. split; reflexivity.
        -- intros _. apply in_snoc. right; reflexivity.
    + intros c0 Hc. discriminate Hc.
    + apply ssorted_snoc; [exact I6|]. apply Forall_forall. intros [tw iw] Hw Hf. simpl in *. subst tw.
      destruct (tk_comm _ _ _ Hx iw Hw) as [Hlt|[_ Hc]]; [exact Hlt | congruence].
    + apply incl_app; [exact I7|]. intros w [<-|[]]. apply (tk_sent _ _ _ Hx Hs).
    + apply incl_appl. exact I8.
    + exact I.
    + rewrite I10. reflexivity.
Qed.

(* ------------------------------------------------------------------ *)
(* closes and cancellation                                             *)
(* ------------------------------------------------------------------ *)

(* a parked Send is woken on one of its "done" arms; the shared state s' differs from s only in
   flags that the woken thread no longer depends on *)
Lemma thr_ok_woken s s' t x r :
  thr_ok s t x -> pc_parked (t_pc x) = true ->
  g_comm s' = g_comm s ->
  (r = RNil -> sdone s' = true) ->
  thr_ok s' t (set_pc x (SRetSend false r)).
Proof.
  intros [H1 H2 H3 H4 H5 H6 H7 H8] Hpk Hcm Hn.
  assert (Hnc : committed (t_pc x) = false) by (destruct (t_pc x); simpl in *; congruence).
  constructor; simpl; try (intros; discriminate).
  - rewrite Hcm. intros i Hin. destruct (H1 i Hin) as [Hlt|[_ Hc]]; [left; exact Hlt | congruence].
  - intros He. apply Hn. congruence.
Qed.

(* a thread that is not parked does not care about the channel/close/context flags *)
Lemma thr_ok_unparked s s' t x :
  thr_ok s t x -> pc_parked (t_pc x) = false ->
  g_comm s' = g_comm s -> g_sent s' = g_sent s ->
  (sdone s = true -> sdone s' = true) ->
  g_closing s' = g_closing s -> g_cerr s' = g_cerr s -> serr s' = serr s ->
  thr_ok s' t x.
Proof.
  intros [H1 H2 H3 H4 H5 H6 H7 H8] Hpk Hcm Hst Hsd Hcl Hce Hse.
  constructor; rewrite ?Hcm, ?Hst, ?Hcl, ?Hce, ?Hse; try assumption.
  - intros Hp. congruence.
  - intros c Hc. rewrite Hc in Hpk. discriminate Hpk.
  - intros Hp. apply Hsd. apply H6. exact Hp.
Qed.

Lemma thr_ok_wake_all s s' t x r :
  thr_ok s t x ->
  g_comm s' = g_comm s -> g_sent s' = g_sent s ->
  (sdone s = true -> sdone s' = true) -> (r = RNil -> sdone s' = true) ->
  g_closing s' = g_closing s -> g_cerr s' = g_cerr s -> serr s' = serr s ->
  thr_ok s' t (wake_all r x).
Proof.
  intros Hx Hcm Hst Hsd Hn Hcl Hce Hse. unfold wake_all.
  destruct (pc_parked (t_pc x)) eqn:Hpk.
  - destruct (t_pc x) eqn:Hpc; try discriminate Hpk. apply (thr_ok_woken s); try assumption. rewrite Hpc; reflexivity.
  - assert (Heq : match t_pc x with SParked _ => set_pc x (SRetSend false r) | _ => x end = x)
      by (destruct (t_pc x); try reflexivity; discriminate Hpk).
    rewrite Heq. apply (thr_ok_unparked s); assumption.
Qed.

Lemma Inv_close_ch s t x :
  Inv s -> getT s t = Some x -> t_pc x = CCloseCh ->
  Inv (set_sdone (set_rcv (set_ths s (upd (map (wake_all (errres s)) (ths s)) t (set_pc x SRetClose)))
                          (match rcv s with RParked _ => RDrain | r => r end))).
Proof.
  intros HI Hg Hpc. pose proof (inv_ths s HI t x Hg) as Hx.
  destruct (tk_cc _ _ _ Hx Hpc) as [Hcl Hse].
  destruct HI as [I1 I2 I3 I4 I5 I6 I7 I8 I9 I10].
  constructor; simpl; try assumption.
  - intros _. split; assumption.
  - apply TAll_map_upd with (P := thr_ok s); [exact I4| |].
    + intros t1 x1 Hne H1. apply (thr_ok_wake_all s); try reflexivity; exact H1.
    + destruct Hx as [H1 H2 H3 H4 H5 H6 H7 H8]. constructor; simpl; try (intros; discriminate).
      intros i Hin. destruct (H1 i Hin) as [Hlt|[_ Hc]]; [left; exact Hlt | rewrite Hpc in Hc; discriminate Hc].
  - intros c Hc. destruct (rcv s); discriminate Hc.
  - unfold rend_ok in *. simpl. destruct (rcv s) as [| | | |[]]; try exact I; try reflexivity;
      destruct I9 as (Ha & Hb & Hc); repeat split; assumption.
  - destruct (rcv s); exact I10.
Qed.

Lemma Inv_rclose s :
  Inv s -> Inv (set_rdone (set_rcl (set_ths s (map (wake_all RClosedPipe) (ths s))) RCClosed)).
Proof.
  intros [I1 I2 I3 I4 I5 I6 I7 I8 I9 I10]. constructor; simpl; try assumption.
  apply TAll_map with (P := thr_ok s); [exact I4|].
  intros t1 x1 H1. apply (thr_ok_wake_all s); try reflexivity; try exact H1; try (intros; assumption).
  intros Hr; discriminate Hr.
Qed.

Lemma cdone_upd_other cxs c c' v : c' <> c -> cdone (upd cxs c v) c' = cdone cxs c'.
Proof. intros Hne. unfold cdone. rewrite nth_error_upd_other by congruence. reflexivity. Qed.

Lemma cdone_upd_req cxs c c' : nth_error cxs c = Some CLive -> cdone (upd cxs c CReq) c' = cdone cxs c'.
Proof.
  intros Hl. destruct (Nat.eq_dec c' c) as [->|Hne]; [|apply cdone_upd_other; exact Hne].
  unfold cdone. rewrite nth_error_upd_same by (eapply nth_lt; eauto). rewrite Hl. reflexivity.
Qed.

Lemma Inv_cancel_req s c :
  Inv s -> nth_error (ctxs s) c = Some CLive -> Inv (set_ctxs s (upd (ctxs s) c CReq)).
Proof.
  intros [I1 I2 I3 I4 I5 I6 I7 I8 I9 I10] Hl. constructor; try assumption.
  - intros t1 x1 Hn. destruct (I4 t1 x1 Hn) as [H1 H2 H3 H4 H5 H6 H7 H8]. constructor; try assumption.
    intros c' Hc. unfold ctx_done. simpl. rewrite cdone_upd_req by exact Hl. apply H3. exact Hc.
  - intros c' Hc. destruct (I5 c' Hc) as (Ha & Hb & Hd). repeat split; try assumption.
    unfold ctx_done. simpl. rewrite cdone_upd_req by exact Hl. exact Hd.
Qed.

Lemma Inv_cancel_eff s c :
  Inv s ->
  Inv (set_rcv (set_ths (set_ctxs s (upd (ctxs s) c CDone)) (map (wake_ctx c) (ths s)))
               (match rcv s with
                | RParked c' => if Nat.eqb c' c then RRet VCtx else RParked c'
                | r => r end)).
Proof.
  intros [I1 I2 I3 I4 I5 I6 I7 I8 I9 I10].
  assert (Hrp : rparked (match rcv s with
                         | RParked c' => if Nat.eqb c' c then RRet VCtx else RParked c'
                         | r => r end) = true -> rparked (rcv s) = true).
  { destruct (rcv s) as [|c1|c1| |r1]; simpl; auto. }
  constructor; simpl; try assumption.
  - apply TAll_map with (P := thr_ok s); [exact I4|].
    intros t1 x1 Hx1. unfold wake_ctx. destruct (t_pc x1) eqn:Hpc;
      try (apply (thr_ok_unparked s); try reflexivity; try (intros; assumption); try exact Hx1; rewrite Hpc; reflexivity).
    destruct (Nat.eqb c0 c) eqn:Hcc.
    + apply (thr_ok_woken s); try reflexivity; try exact Hx1; [rewrite Hpc; reflexivity | intros Hr; discriminate Hr].
    + apply Nat.eqb_neq in Hcc. destruct Hx1 as [H1 H2 H3 H4 H5 H6 H7 H8]. constructor; try assumption.
      * intros Hpk. destruct (H2 Hpk) as (Ha & Hb & Hc & Hd). repeat split; try assumption.
        simpl. destruct (rparked (match rcv s with
                         | RParked c' => if Nat.eqb c' c then RRet VCtx else RParked c'
                         | r => r end)) eqn:E; [|reflexivity]. rewrite (Hrp eq_refl) in Hc. discriminate Hc.
      * intros c1 Hc1. rewrite Hpc in Hc1. inversion Hc1; subst c1.
        unfold ctx_done. simpl. rewrite cdone_upd_other by exact Hcc. apply (H3 c0). exact Hpc.
  - intros c1 Hc1. destruct (rcv s) as [|c2|c2| |r2] eqn:Hr; try discriminate Hc1.
    destruct (Nat.eqb c2 c) eqn:Hcc; [discriminate Hc1|]. inversion Hc1; subst c1.
    apply Nat.eqb_neq in Hcc. destruct (I5 c2 eq_refl) as (Ha & Hb & Hd). repeat split; try assumption.
    unfold ctx_done. simpl. rewrite cdone_upd_other by exact Hcc. exact Hd.
  - unfold rend_ok in *. simpl. destruct (rcv s) as [|c2|c2| |r2]; try exact I9.
    destruct (Nat.eqb c2 c); exact I.
  - destruct (rcv s) as [|c2|c2| |r2]; try exact I10. destruct (Nat.eqb c2 c); exact I10.
Qed.

Lemma Inv_call_close s t x e :
  Inv s -> getT s t = Some x -> t_pc x = SIdle -> g_closing s = false ->
  Inv (set_closing (setT s t (set_pc x (CWrite e))) e).
Proof.
  intros HI Hg Hpc Hcl. pose proof (inv_ths s HI t x Hg) as Hx.
  destruct HI as [I1 I2 I3 I4 I5 I6 I7 I8 I9 I10].
  assert (Hsd : sdone s = false).
  { destruct (sdone s) eqn:E; [|reflexivity]. destruct (I3 eq_refl) as [Hc _]. congruence. }
  constructor; simpl; try assumption.
  - intros Hs. congruence.
  - apply TAll_upd with (P := thr_ok s); [exact I4| |].
    + intros t1 x1 Hne [H1 H2 H3 H4 H5 H6 H7 H8]. constructor; simpl; try assumption.
      * intros e1 He1. destruct (H7 e1 He1) as [Hc _]. congruence.
      * intros Hc1. destruct (H8 Hc1) as [Hc _]. congruence.
    + destruct Hx as [H1 H2 H3 H4 H5 H6 H7 H8]. constructor; simpl; try (intros; discriminate).
      * intros i Hin. destruct (H1 i Hin) as [Hlt|[_ Hc]]; [left; exact Hlt | rewrite Hpc in Hc; discriminate Hc].
      * intros e0 He0. inversion He0. split; reflexivity.
Qed.

Lemma Inv_close_write s t x e :
  Inv s -> getT s t = Some x -> t_pc x = CWrite e ->
  Inv (set_serr (setT s t (set_pc x CCloseCh)) e).
Proof.
  intros HI Hg Hpc. pose proof (inv_ths s HI t x Hg) as Hx.
  destruct (tk_cw _ _ _ Hx e Hpc) as [Hcl Hce].
  destruct HI as [I1 I2 I3 I4 I5 I6 I7 I8 I9 I10].
  constructor; simpl; try assumption.
  - intros _. split; [exact Hcl | symmetry; exact Hce].
  - apply TAll_upd with (P := thr_ok s); [exact I4| |].
    + intros t1 x1 Hne [H1 H2 H3 H4 H5 H6 H7 H8]. constructor; simpl; try assumption.
      intros _. split; [exact Hcl | symmetry; exact Hce].
    + destruct Hx as [H1 H2 H3 H4 H5 H6 H7 H8]. constructor; simpl; try (intros; discriminate).
      * intros i Hin. destruct (H1 i Hin) as [Hlt|[_ Hc]]; [left; exact Hlt | rewrite Hpc in Hc; discriminate Hc].
      * intros _. split; [exact Hcl | symmetry; exact Hce].
  - unfold rend_ok in *. simpl. destruct (rcv s) as [| | | |[]]; try exact I9;
      destruct I9 as (Ha & Hb & Hc); destruct (I3 Ha) as [_ Hd]; repeat split; try assumption; congruence.
Qed.

(* ------------------------------------------------------------------ *)
(* the invariant is preserved by every step                            *)
(* ------------------------------------------------------------------ *)

Lemma thr_ok_ext s s' t x :
  thr_ok s t x ->
  g_comm s' = g_comm s -> sdone s' = sdone s -> rdone s' = rdone s -> rcv s' = rcv s -> cap s' = cap s ->
  buf s' = buf s -> ctxs s' = ctxs s -> g_sent s' = g_sent s -> g_closing s' = g_closing s ->
  g_cerr s' = g_cerr s -> serr s' = serr s ->
  thr_ok s' t x.
Proof.
  intros [H1 H2 H3 H4 H5 H6 H7 H8] E1 E2 E3 E4 E5 E6 E7 E8 E9 E10 E11.
  constructor; unfold ctx_done in *; rewrite ?E1, ?E2, ?E3, ?E4, ?E5, ?E6, ?E7, ?E8, ?E9, ?E10, ?E11; assumption.
Qed.

Lemma Inv_set_rcl s r : Inv s -> Inv (set_rcl s r).
Proof.
  intros [I1 I2 I3 I4 I5 I6 I7 I8 I9 I10]. constructor; try assumption.
  apply TAll_impl with (P := thr_ok s); [exact I4|].
  intros t1 x1 H1. apply (thr_ok_ext s); try reflexivity. exact H1.
Qed.

Lemma thr_ok_call s t x p' :
  thr_ok s t x -> t_pc x = SIdle -> pc_parked p' = false -> committed p' = false ->
  (forall r, p' <> SRetSend false r) -> (forall e, p' <> CWrite e) -> p' <> CCloseCh ->
  thr_ok (add_sent s (t, t_idx x)) t (set_pc x p').
Proof.
  intros [H1 H2 H3 H4 H5 H6 H7 H8] Hpc Hnp Hnc Hr Hw Hc. constructor; simpl.
  - intros i Hin. destruct (H1 i Hin) as [Hlt|[_ Hcm]]; [left; exact Hlt | rewrite Hpc in Hcm; discriminate Hcm].
  - congruence.
  - intros c Hc'. rewrite Hc' in Hnp. discriminate Hnp.
  - intros _. apply in_snoc. right; reflexivity.
  - congruence.
  - intros He. exfalso. exact (Hr _ He).
  - intros e He. exfalso. exact (Hw _ He).
  - intros He. exfalso. exact (Hc He).
Qed.

Ltac tstep H x Hg Hpc :=
  match type of H with
  | match getT ?s ?t with _ => _ end = Some _ =>
      destruct (getT s t) as [x|] eqn:Hg; [|discriminate H];
      destruct (t_pc x) eqn:Hpc; try discriminate H
  end.

Ltac inv_some H := inversion H; subst; clear H.

(* side conditions of [thr_ok_move] *)
Ltac move_sides Hpc :=
  simpl; rewrite ?Hpc; simpl; try (intros; discriminate); auto.

Ltac pc_move HI Hx Hpc :=
  apply Inv_setT; [exact HI|];
  apply thr_ok_move; [exact Hx | rewrite Hpc; reflexivity | reflexivity | move_sides Hpc ..].

Lemma Inv_step s l s' : Inv s -> step s l = Some s' -> Inv s'.
Proof.
  intros HI H. destruct l; unfold step in H.
  - (* LCallSend *)
    tstep H x Hg Hpc. inv_some H. pose proof (inv_ths s HI t x Hg) as Hx.
    change (Inv (setT (add_sent s (t, t_idx x)) t (set_pc x (SPre c)))).
    apply Inv_setT; [apply Inv_add_sent; exact HI|].
    apply thr_ok_call; try assumption; try reflexivity; intros; discriminate.
  - (* LRetSend *)
    tstep H x Hg Hpc. pose proof (inv_ths s HI t x Hg) as Hx.
    assert (Hfin : Inv (setT s t (finish x))) by (apply Inv_setT; [exact HI | apply thr_ok_finish; exact Hx]).
    destruct r, r0; try discriminate H; inv_some H; try exact Hfin.
    destruct (g_closing s) eqn:Hcl; [exact Hfin|].
    apply Inv_add_acked; [exact Hfin | | exact Hcl].
    simpl. destruct sent.
    + apply (tk_in _ _ _ Hx). rewrite Hpc. reflexivity.
    + pose proof (tk_nil _ _ _ Hx Hpc) as Hsd. destruct (inv_sdone s HI Hsd) as [Hc _]. congruence.
  - (* LCallTrySend *)
    tstep H x Hg Hpc. inv_some H. pose proof (inv_ths s HI t x Hg) as Hx.
    change (Inv (setT (add_sent s (t, t_idx x)) t (set_pc x (TPoll c)))).
    apply Inv_setT; [apply Inv_add_sent; exact HI|].
    apply thr_ok_call; try assumption; try reflexivity; intros; discriminate.
  - (* LRetTrySend *)
    tstep H x Hg Hpc. pose proof (inv_ths s HI t x Hg) as Hx.
    assert (Hfin : Inv (setT s t (finish x))) by (apply Inv_setT; [exact HI | apply thr_ok_finish; exact Hx]).
    destruct (Bool.eqb ok ok0) eqn:Hok; [|discriminate H]. apply eqb_prop in Hok. subst ok0.
    destruct r, r0; try discriminate H; inv_some H; try exact Hfin.
    destruct (ok && negb (g_closing s)) eqn:Hcl; [|exact Hfin].
    apply andb_true_iff in Hcl. destruct Hcl as [-> Hcl]. apply negb_true_iff in Hcl.
    apply Inv_add_acked; [exact Hfin | | exact Hcl].
    simpl. apply (tk_in _ _ _ Hx). rewrite Hpc. reflexivity.
  - (* LCallClose *)
    tstep H x Hg Hpc. destruct (g_closing s) eqn:Hcl; [discriminate H|]. inv_some H.
    apply Inv_call_close; assumption.
  - (* LRetClose *)
    tstep H x Hg Hpc. inv_some H. pose proof (inv_ths s HI t x Hg) as Hx.
    apply Inv_setT; [exact HI | apply thr_ok_finish; exact Hx].
  - (* LCallNext *)
    destruct (rcv s) eqn:Hr; try discriminate H. inv_some H.
    apply Inv_set_rcv; try exact HI; simpl; try (intros; discriminate); try exact I.
    rewrite <- (inv_ret s HI), Hr. reflexivity.
  - (* LRetNext *)
    destruct (rcv s) as [| | | |r'] eqn:Hr; try discriminate H.
    assert (Hnv : pend (RRet r') = [] -> Inv (set_rcv s RIdle)).
    { intros Hp. apply Inv_set_rcv; try exact HI; simpl; try (intros; discriminate); try exact I.
      rewrite <- (inv_ret s HI), Hr, Hp. reflexivity. }
    destruct r as [[a b]| | |], r' as [[a' b']| | |]; try discriminate H.
    + destruct (Nat.eqb a a' && Nat.eqb b b') eqn:E; [|discriminate H]. inv_some H.
      apply Inv_ret_val; assumption.
    + inv_some H. apply Hnv; reflexivity.
    + inv_some H. apply Hnv; reflexivity.
    + inv_some H. apply Hnv; reflexivity.
  - (* LCallRClose *)
    destruct (rcl s); try discriminate H. inv_some H. apply Inv_set_rcl; exact HI.
  - (* LRetRClose *)
    destruct (rcl s); try discriminate H. inv_some H. apply Inv_set_rcl; exact HI.
  - (* LCancel *)
    destruct (nth_error (ctxs s) c) as [[| |]|] eqn:Hc; try discriminate H; inv_some H; try exact HI.
    apply Inv_cancel_req; assumption.
  - (* LQuiesce *) discriminate H.
  - (* TPrePoll *)
    tstep H x Hg Hpc. pose proof (inv_ths s HI t x Hg) as Hx.
    destruct (sdone s) eqn:Hsd; inv_some H; pc_move HI Hx Hpc.
  - (* TSendCtx *)
    tstep H x Hg Hpc. pose proof (inv_ths s HI t x Hg) as Hx.
    destruct (ctx_done s c) eqn:Hcd; [|discriminate H]. inv_some H. pc_move HI Hx Hpc.
  - (* TSendRDone *)
    tstep H x Hg Hpc. pose proof (inv_ths s HI t x Hg) as Hx.
    destruct (rdone s) eqn:Hrd; [|discriminate H]. inv_some H. pc_move HI Hx Hpc.
  - (* TSendSDone *)
    tstep H x Hg Hpc. pose proof (inv_ths s HI t x Hg) as Hx.
    destruct (sdone s) eqn:Hsd; [|discriminate H]. inv_some H. pc_move HI Hx Hpc.
  - (* TSendEnq *)
    tstep H x Hg Hpc. destruct (negb (rparked (rcv s)) && has_room s) eqn:E; [|discriminate H]. inv_some H.
    apply andb_true_iff in E. destruct E as [E1 E2]. apply negb_true_iff in E1.
    apply Inv_enqueue; try assumption; [rewrite Hpc; reflexivity | left; reflexivity].
  - (* TSendHand *)
    tstep H x Hg Hpc. destruct (rcv s) as [| |c0| |] eqn:Hr; try discriminate H. simpl in H. inv_some H.
    apply (Inv_handoff s t x _ c0); try assumption; [rewrite Hpc; reflexivity | left; reflexivity].
  - (* TSendPark *)
    tstep H x Hg Hpc. pose proof (inv_ths s HI t x Hg) as Hx.
    destruct (ctx_done s c || rdone s || sdone s || rparked (rcv s) || has_room s) eqn:E; [discriminate H|].
    inv_some H. repeat (apply orb_false_iff in E; destruct E as [E ?]).
    pc_move HI Hx Hpc.
    + intros _. repeat split; try assumption. unfold has_room in *. apply Nat.ltb_ge. assumption.
    + intros c' Hc'. inversion Hc'; subst c'. assumption.
  - (* TTryCtx *)
    tstep H x Hg Hpc. pose proof (inv_ths s HI t x Hg) as Hx.
    destruct (ctx_done s c) eqn:Hcd; [|discriminate H]. inv_some H. pc_move HI Hx Hpc.
  - (* TTryRDone *)
    tstep H x Hg Hpc. pose proof (inv_ths s HI t x Hg) as Hx.
    destruct (rdone s) eqn:Hrd; [|discriminate H]. inv_some H. pc_move HI Hx Hpc.
  - (* TTrySDone *)
    tstep H x Hg Hpc. pose proof (inv_ths s HI t x Hg) as Hx.
    destruct (sdone s) eqn:Hsd; [|discriminate H]. inv_some H. pc_move HI Hx Hpc.
  - (* TTryDefault *)
    tstep H x Hg Hpc. pose proof (inv_ths s HI t x Hg) as Hx.
    destruct (ctx_done s c || rdone s || sdone s) eqn:E; [discriminate H|]. inv_some H. pc_move HI Hx Hpc.
  - (* TTryEnq *)
    tstep H x Hg Hpc. destruct (negb (rparked (rcv s)) && has_room s) eqn:E; [|discriminate H]. inv_some H.
    apply andb_true_iff in E. destruct E as [E1 E2]. apply negb_true_iff in E1.
    apply Inv_enqueue; try assumption; [rewrite Hpc; reflexivity | right; reflexivity].
  - (* TTryHand *)
    tstep H x Hg Hpc. destruct (rcv s) as [| |c0| |] eqn:Hr; try discriminate H. simpl in H. inv_some H.
    apply (Inv_handoff s t x _ c0); try assumption; [rewrite Hpc; reflexivity | right; reflexivity].
  - (* TTryFull *)
    tstep H x Hg Hpc. pose proof (inv_ths s HI t x Hg) as Hx.
    destruct (rparked (rcv s) || has_room s) eqn:E; [discriminate H|]. inv_some H. pc_move HI Hx Hpc.
  - (* TCloseWrite *)
    tstep H x Hg Hpc. inv_some H. apply Inv_close_write; assumption.
  - (* TCloseCh *)
    tstep H x Hg Hpc. inv_some H. apply Inv_close_ch; assumption.
  - (* TRecvCtx *)
    destruct (rcv s) as [|c| | |] eqn:Hr; try discriminate H.
    destruct (ctx_done s c); [|discriminate H]. inv_some H.
    apply Inv_set_rcv; try exact HI; simpl; try (intros; discriminate); try exact I.
    rewrite <- (inv_ret s HI), Hr. reflexivity.
  - (* TRecvTake *)
    destruct (rcv s) eqn:Hr; try discriminate H.
    eapply Inv_do_take; [exact HI | rewrite Hr; reflexivity | exact H].
  - (* TRecvSDone *)
    destruct (rcv s) as [|c| | |] eqn:Hr; try discriminate H.
    destruct (sdone s) eqn:Hsd; [|discriminate H]. inv_some H.
    apply Inv_set_rcv; try exact HI; simpl; try (intros; discriminate); try assumption.
    rewrite <- (inv_ret s HI), Hr. reflexivity.
  - (* TRecvPark *)
    destruct (rcv s) as [|c| | |] eqn:Hr; try discriminate H.
    destruct (ctx_done s c || negb (chan_empty s) || sdone s) eqn:E; [discriminate H|]. inv_some H.
    repeat (apply orb_false_iff in E; destruct E as [E ?]). apply negb_false_iff in H0.
    unfold chan_empty in H0. destruct (buf s) eqn:Hb; [|discriminate H0]. apply negb_true_iff in H0.
    apply Inv_set_rcv; try exact HI; simpl; try exact I.
    + intros _. exact H0.
    + intros c' Hc'. inversion Hc'; subst c'. repeat split; assumption.
    + rewrite <- (inv_ret s HI), Hr. reflexivity.
  - (* TDrainTake *)
    destruct (rcv s) eqn:Hr; try discriminate H.
    eapply Inv_do_take; [exact HI | rewrite Hr; reflexivity | exact H].
  - (* TDrainEmpty *)
    destruct (rcv s) eqn:Hr; try discriminate H.
    destruct (chan_empty s) eqn:Hce; [|discriminate H]. inv_some H.
    unfold chan_empty in Hce. destruct (buf s) eqn:Hb; [|discriminate Hce].
    pose proof (inv_rend s HI) as Hre. rewrite Hr in Hre. simpl in Hre.
    assert (Hack : incl (g_acked s) (g_rcvd s)).
    { pose proof (inv_fifo s HI) as Hf. rewrite Hb, app_nil_r in Hf. rewrite Hf. exact (inv_acked s HI). }
    apply Inv_set_rcv; try exact HI; try (intros; discriminate).
    + unfold endres. destruct (serr s) eqn:Hse; simpl; repeat split; assumption.
    + rewrite <- (inv_ret s HI), Hr. unfold endres. destruct (serr s); reflexivity.
  - (* TRClose *)
    destruct (rcl s); try discriminate H. inv_some H. apply Inv_rclose; exact HI.
  - (* TCancelEff *)
    destruct (nth_error (ctxs s) c) as [[| |]|] eqn:Hc; try discriminate H. inv_some H.
    apply Inv_cancel_eff; exact HI.
Qed.

Lemma Inv_qstep s l s' : Inv s -> qstep s l = Some s' -> Inv s'.
Proof.
  intros HI H. destruct l; try (exact (Inv_step _ _ _ HI H)).
  simpl in H. destruct (quiescent s); [|discriminate H]. inversion H; subst. exact HI.
Qed.

Theorem Inv_reachable n nt nc s : reachable qstep (init n nt nc) s -> Inv s.
Proof.
  apply (invariant_rule qstep Inv); [apply Inv_init | intros s1 l s2; apply Inv_qstep].
Qed.

(* ================================================================== *)
(* C10, clause 1: only sent values, no duplicates, per-sender order     *)
(* ================================================================== *)

Definition from (t : nat) (v : val) : bool := Nat.eqb (fst v) t.

Theorem fifo_no_dup n nt nc s :
  reachable qstep (init n nt nc) s ->
  (* conservation, in order: returned by Next ++ held by a Next about to return ++ buffered = entered *)
  g_ret s ++ pend (rcv s) ++ buf s = g_comm s /\
  (forall t, filter (from t) (g_ret s) ++ filter (from t) (pend (rcv s)) ++ filter (from t) (buf s)
             = filter (from t) (g_comm s)) /\
  (* what entered the channel was passed to a Send/TrySend call, at most once, and each sender's values
     entered in the order of its calls *)
  incl (g_comm s) (g_sent s) /\ StronglySorted vlt (g_comm s) /\ NoDup (g_comm s) /\
  (* hence the same for the values returned by Next *)
  incl (g_ret s) (g_sent s) /\ StronglySorted vlt (g_ret s) /\ NoDup (g_ret s) /\
  (* and the buffer never exceeds its capacity *)
  length (buf s) <= cap s.
Proof.
  intros Hr. apply Inv_reachable in Hr. destruct Hr as [I1 I2 I3 I4 I5 I6 I7 I8 I9 I10].
  assert (Hc : g_ret s ++ pend (rcv s) ++ buf s = g_comm s) by (rewrite app_assoc, I10; exact I1).
  assert (Hs : StronglySorted vlt (g_ret s)) by (rewrite <- Hc in I6; eapply ssorted_app_l; exact I6).
  repeat split; try assumption.
  - intros t. rewrite <- Hc. rewrite !filter_app. reflexivity.
  - apply (ssorted_nodup vlt); [exact vlt_irrefl | exact I6].
  - intros v Hv. apply I7. rewrite <- Hc. apply in_or_app. left; exact Hv.
  - apply (ssorted_nodup vlt); [exact vlt_irrefl | exact Hs].
Qed.

(* the values of one sender inside the channel / returned are exactly its committed calls: a value of
   thread t is in g_comm only for a call that has returned or that is about to return success *)
Theorem committed_calls n nt nc s t x i :
  reachable qstep (init n nt nc) s -> getT s t = Some x -> In (t, i) (g_comm s) ->
  i < t_idx x \/ (i = t_idx x /\ committed (t_pc x) = true).
Proof.
  intros Hr Hg Hin. apply Inv_reachable in Hr. exact (tk_comm _ _ _ (inv_ths s Hr t x Hg) i Hin).
Qed.

(* ================================================================== *)
(* C10, clause 2: nothing acknowledged before Close is lost             *)
(* ================================================================== *)

Definition is_end (r : rres) : bool := match r with VEnd | VErr => true | _ => false end.

(* [g_acked] collects (see [step], LRetSend / LRetTrySend) every value whose Send returned nil, or
   whose TrySend returned (true, nil), while PipeSender.Close had not been invoked yet. *)
Theorem no_loss_before_end n nt nc s r s' :
  reachable qstep (init n nt nc) s ->
  qstep s (LRetNext r) = Some s' -> is_end r = true ->
  incl (g_acked s) (g_ret s) /\ sdone s = true /\ (r = VErr <-> g_cerr s = true).
Proof.
  intros Hr H He. apply Inv_reachable in Hr. simpl in H.
  destruct (rcv s) as [| | | |r'] eqn:Hrc; try discriminate H.
  pose proof (inv_rend s Hr) as Hre. pose proof (inv_ret s Hr) as Hrt. rewrite Hrc in Hre, Hrt.
  destruct r as [[a b]| | |], r' as [[a' b']| | |]; try discriminate H; try discriminate He; simpl in *;
    destruct Hre as (Hsd & Hse & Hinc); rewrite app_nil_r in Hrt; rewrite Hrt;
    destruct (inv_sdone s Hr Hsd) as [_ Hce]; repeat split; try assumption; try congruence; intros; congruence.
Qed.

(* acknowledged values did enter the channel (a nil return before Close is never the "sender closed" arm) *)
Theorem acked_committed n nt nc s :
  reachable qstep (init n nt nc) s -> incl (g_acked s) (g_comm s).
Proof. intros Hr. apply Inv_reachable in Hr. exact (inv_acked s Hr). Qed.

(* ================================================================== *)
(* C10, clause 3: the end, once determined with no Send in flight,      *)
(* keeps being reported                                                 *)
(* ================================================================== *)

(* a Send past its senderDone poll / a TrySend past its first select, not yet decided *)
Definition inflight (p : spc) : bool := match p with SSel _ | SParked _ | TSel2 _ => true | _ => false end.

Definition noinf (l : list thread) : Prop := TAll (fun _ x => inflight (t_pc x) = false) l.

Record settled (s : st) : Prop := {
  st_sdone : sdone s = true;            (* the sender is closed *)
  st_buf : buf s = [];                  (* nothing is buffered *)
  st_noinf : noinf (ths s);             (* no Send/TrySend can still enter the channel *)
  st_pend : pend (rcv s) = []           (* no Next holds a value it has not returned yet *)
}.

Lemma noinf_upd l t x : noinf l -> inflight (t_pc x) = false -> noinf (upd l t x).
Proof. intros H Hx. apply TAll_upd with (P := fun _ x => inflight (t_pc x) = false); auto. Qed.

Lemma noinf_map l f :
  noinf l -> (forall x, inflight (t_pc x) = false -> inflight (t_pc (f x)) = false) -> noinf (map f l).
Proof. intros H Hf. apply TAll_map with (P := fun _ x => inflight (t_pc x) = false); auto. Qed.

Lemma wake_all_noinf r x : inflight (t_pc x) = false -> inflight (t_pc (wake_all r x)) = false.
Proof. unfold wake_all. destruct (t_pc x) eqn:E; simpl; rewrite ?E; auto. Qed.

Lemma wake_ctx_noinf c x : inflight (t_pc x) = false -> inflight (t_pc (wake_ctx c x)) = false.
Proof. unfold wake_ctx. destruct (t_pc x) eqn:E; simpl; rewrite ?E; auto. destruct (Nat.eqb c0 c); simpl; rewrite ?E; auto. Qed.

Lemma settled_no_take s o s' : settled s -> do_take s o = Some s' -> False.
Proof.
  intros [S1 S2 S3 S4] H. apply do_take_inv in H.
  destruct H as [(_ & _ & v & b & Hb & _)|(t & x & c & v & b & _ & Hg & Hpc & _)].
  - congruence.
  - pose proof (S3 t x Hg) as Hi. simpl in Hi. rewrite Hpc in Hi. discriminate Hi.
Qed.

Ltac st_thread H S3 x Hg Hpc Hi :=
  tstep H x Hg Hpc; pose proof (S3 _ _ Hg) as Hi; simpl in Hi; rewrite Hpc in Hi; simpl in Hi; try discriminate Hi.

Ltac st_guards H :=
  repeat match type of H with
         | (if ?b then _ else _) = Some _ => destruct b eqn:?; try discriminate H
         | Some (if ?b then _ else _) = Some _ => destruct b eqn:?
         end.

Ltac st_fin :=
  split; [constructor; simpl; try assumption; try reflexivity;
          try (apply noinf_upd; [assumption | reflexivity])
         | split; reflexivity].

Lemma settled_step s l s' :
  settled s -> step s l = Some s' -> settled s' /\ g_comm s' = g_comm s /\ g_rcvd s' = g_rcvd s.
Proof.
  intros HS H. pose proof HS as [S1 S2 S3 S4]. destruct l; unfold step in H.
  - st_thread H S3 x Hg Hpc Hi. inv_some H. st_fin.
  - st_thread H S3 x Hg Hpc Hi. destruct r, r0; try discriminate H; st_guards H; inv_some H; st_fin.
  - st_thread H S3 x Hg Hpc Hi. inv_some H. st_fin.
  - st_thread H S3 x Hg Hpc Hi. st_guards H. destruct r, r0; try discriminate H; st_guards H; inv_some H; st_fin.
  - st_thread H S3 x Hg Hpc Hi. st_guards H. inv_some H. st_fin.
  - st_thread H S3 x Hg Hpc Hi. inv_some H. st_fin.
  - destruct (rcv s) eqn:Hr; try discriminate H. inv_some H. st_fin.
  - destruct (rcv s) as [| | | |r'] eqn:Hr; try discriminate H. simpl in S4.
    destruct r as [[a b]| | |], r' as [[a' b']| | |]; try discriminate H; try discriminate S4; inv_some H; st_fin.
  - destruct (rcl s); try discriminate H. inv_some H. st_fin.
  - destruct (rcl s); try discriminate H. inv_some H. st_fin.
  - destruct (nth_error (ctxs s) c) as [[| |]|]; try discriminate H; inv_some H; st_fin.
  - discriminate H.
  - st_thread H S3 x Hg Hpc Hi. rewrite S1 in H. inv_some H. st_fin.
  - st_thread H S3 x Hg Hpc Hi.
  - st_thread H S3 x Hg Hpc Hi.
  - st_thread H S3 x Hg Hpc Hi.
  - st_thread H S3 x Hg Hpc Hi.
  - st_thread H S3 x Hg Hpc Hi.
  - st_thread H S3 x Hg Hpc Hi.
  - st_thread H S3 x Hg Hpc Hi. st_guards H. inv_some H. st_fin.
  - st_thread H S3 x Hg Hpc Hi. st_guards H. inv_some H. st_fin.
  - st_thread H S3 x Hg Hpc Hi. st_guards H. inv_some H. st_fin.
  - st_thread H S3 x Hg Hpc Hi. rewrite S1 in H. rewrite !orb_true_r in H. discriminate H.
  - st_thread H S3 x Hg Hpc Hi.
  - st_thread H S3 x Hg Hpc Hi.
  - st_thread H S3 x Hg Hpc Hi.
  - st_thread H S3 x Hg Hpc Hi. inv_some H. st_fin.
  - st_thread H S3 x Hg Hpc Hi. inv_some H. split; [|split; reflexivity].
    constructor; simpl; try assumption; try reflexivity.
    + apply noinf_upd; [|reflexivity]. apply noinf_map; [assumption | intros y; apply wake_all_noinf].
    + destruct (rcv s) as [| | | |[]]; simpl in *; try reflexivity; discriminate S4.
  - destruct (rcv s) as [|c| | |] eqn:Hr; try discriminate H. st_guards H. inv_some H. st_fin.
  - destruct (rcv s) eqn:Hr; try discriminate H. exfalso. eapply settled_no_take; eauto.
  - destruct (rcv s) as [|c| | |] eqn:Hr; try discriminate H. st_guards H. inv_some H. st_fin.
  - destruct (rcv s) as [|c| | |] eqn:Hr; try discriminate H. rewrite S1 in H. rewrite !orb_true_r in H. discriminate H.
  - destruct (rcv s) eqn:Hr; try discriminate H. exfalso. eapply settled_no_take; eauto.
  - destruct (rcv s) eqn:Hr; try discriminate H. st_guards H. inv_some H.
    split; [|split; reflexivity]. constructor; simpl; try assumption. unfold endres. destruct (serr s); reflexivity.
  - destruct (rcl s); try discriminate H. inv_some H. split; [|split; reflexivity].
    constructor; simpl; try assumption. apply noinf_map; [assumption | intros y; apply wake_all_noinf].
  - destruct (nth_error (ctxs s) c) as [[| |]|]; try discriminate H. inv_some H. split; [|split; reflexivity].
    constructor; simpl; try assumption.
    + apply noinf_map; [assumption | intros y; apply wake_ctx_noinf].
    + destruct (rcv s) as [|c1|c1| |[]]; simpl in *; try reflexivity; try discriminate S4.
      destruct (Nat.eqb c1 c); reflexivity.
Qed.

Lemma settled_qstep s l s' :
  settled s -> qstep s l = Some s' -> settled s' /\ g_comm s' = g_comm s /\ g_rcvd s' = g_rcvd s.
Proof.
  intros HS H. destruct l; try (exact (settled_step _ _ _ HS H)).
  simpl in H. destruct (quiescent s); [|discriminate H]. inversion H; subst. auto.
Qed.

(* in a settled state a returning Next does not return a value *)
Lemma settled_ret s r s' : settled s -> qstep s (LRetNext r) = Some s' -> r = VEnd \/ r = VErr \/ r = VCtx.
Proof.
  intros [S1 S2 S3 S4] H. simpl in H. destruct (rcv s) as [| | | |r'] eqn:Hr; try discriminate H.
  simpl in S4. destruct r as [[a b]| | |], r' as [[a' b']| | |]; try discriminate H; try discriminate S4; auto.
Qed.

(* MAIN (stickiness): from a settled state on, along every continuation - new Send/TrySend calls,
   cancellations, receiver Close, any number of Next calls - nothing enters the channel, nothing is
   received, and no Next returns a value: every Next reports the end / the close error (or its own
   context's error). *)
Theorem end_sticky s ls s' :
  settled s -> run qstep s ls = Some s' ->
  settled s' /\ g_comm s' = g_comm s /\ g_rcvd s' = g_rcvd s /\
  forall r, In (LRetNext r) ls -> r = VEnd \/ r = VErr \/ r = VCtx.
Proof.
  revert s. induction ls as [|l ls IH]; intros s HS Hr; simpl in Hr.
  - inversion Hr; subst. split; [exact HS|]. split; [reflexivity|]. split; [reflexivity|]. intros r [].
  - destruct (qstep s l) as [s1|] eqn:E; [|discriminate Hr].
    destruct (settled_qstep _ _ _ HS E) as (HS1 & Hc1 & Hr1).
    destruct (IH s1 HS1 Hr) as (HS' & Hc' & Hr' & Hall).
    split; [exact HS'|]. split; [congruence|]. split; [congruence|].
    intros r [Heq|Hin]; [subst l; exact (settled_ret _ _ _ HS E) | apply Hall; exact Hin].
Qed.

(* the state in which a Next decides to report the end is settled, provided no Send/TrySend is
   past its poll of senderDone at that moment *)
Theorem end_report_settled n nt nc s s' :
  reachable qstep (init n nt nc) s -> noinf (ths s) -> qstep s TDrainEmpty = Some s' ->
  settled s' /\ rcv s' = RRet (endres s).
Proof.
  intros Hr Hn H. apply Inv_reachable in Hr. simpl in H.
  destruct (rcv s) eqn:Hrc; try discriminate H.
  destruct (chan_empty s) eqn:Hce; [|discriminate H]. inversion H; subst s'. clear H.
  pose proof (inv_rend s Hr) as Hre. rewrite Hrc in Hre. simpl in Hre.
  unfold chan_empty in Hce. destruct (buf s) eqn:Hb; [|discriminate Hce].
  split; [|reflexivity]. constructor; simpl; try assumption. unfold endres. destruct (serr s); reflexivity.
Qed.

(* once the sender is closed, a Send that starts (is still at its first select) can only return *)
Lemma prepoll_after_close s t x c :
  sdone s = true -> getT s t = Some x -> t_pc x = SPre c ->
  step s (TPrePoll t) = Some (setT s t (set_pc x (SRetSend false (errres s)))).
Proof. intros Hsd Hg Hpc. unfold step. rewrite Hg, Hpc, Hsd. reflexivity. Qed.

(* ================================================================== *)
(* C10, clause 4: no call blocks forever                                *)
(* ================================================================== *)

(* some internal step or the return of sender thread t is enabled *)
Definition can_move (s : st) (t : nat) : Prop :=
  exists l, In l (thread_taus t ++ thread_rets t) /\ enabled s l = true.

Definition recv_labels (s : st) : list lab :=
  recv_taus s ++ match rcv s with RRet r => [LRetNext r] | _ => [] end.

Definition recv_can_move (s : st) : Prop := exists l, In l (recv_labels s) /\ enabled s l = true.

Ltac in_list := solve [simpl; repeat (first [left; reflexivity | right])].
Ltac pick_tau l := exists l; split; [apply in_or_app; left; in_list|].
Ltac pick_ret l := exists l; split; [apply in_or_app; right; in_list|].

(* a sender thread inside a call can always take a step of its own unless it is parked in Send's select *)
Lemma sender_can_move s t x :
  getT s t = Some x -> t_pc x <> SIdle -> (forall c, t_pc x <> SParked c) -> can_move s t.
Proof.
  intros Hg Hni Hnp. unfold can_move, enabled. destruct (t_pc x) eqn:Hpc.
  - congruence.
  - pick_tau (TPrePoll t). unfold step. rewrite Hg, Hpc. destruct (sdone s); reflexivity.
  - destruct (ctx_done s c) eqn:E1.
    { pick_tau (TSendCtx t). unfold step. rewrite Hg, Hpc, E1. reflexivity. }
    destruct (rdone s) eqn:E2.
    { pick_tau (TSendRDone t). unfold step. rewrite Hg, Hpc, E2. reflexivity. }
    destruct (sdone s) eqn:E3.
    { pick_tau (TSendSDone t). unfold step. rewrite Hg, Hpc, E3. reflexivity. }
    destruct (rparked (rcv s)) eqn:E4.
    { pick_tau (TSendHand t). unfold step. rewrite Hg, Hpc, E4. reflexivity. }
    destruct (has_room s) eqn:E5.
    { pick_tau (TSendEnq t). unfold step. rewrite Hg, Hpc, E4, E5. reflexivity. }
    pick_tau (TSendPark t). unfold step. rewrite Hg, Hpc, E1, E2, E3, E4, E5. reflexivity.
  - exfalso. exact (Hnp c eq_refl).
  - destruct (ctx_done s c) eqn:E1.
    { pick_tau (TTryCtx t). unfold step. rewrite Hg, Hpc, E1. reflexivity. }
    destruct (rdone s) eqn:E2.
    { pick_tau (TTryRDone t). unfold step. rewrite Hg, Hpc, E2. reflexivity. }
    destruct (sdone s) eqn:E3.
    { pick_tau (TTrySDone t). unfold step. rewrite Hg, Hpc, E3. reflexivity. }
    pick_tau (TTryDefault t). unfold step. rewrite Hg, Hpc, E1, E2, E3. reflexivity.
  - destruct (rparked (rcv s)) eqn:E4.
    { pick_tau (TTryHand t). unfold step. rewrite Hg, Hpc, E4. reflexivity. }
    destruct (has_room s) eqn:E5.
    { pick_tau (TTryEnq t). unfold step. rewrite Hg, Hpc, E4, E5. reflexivity. }
    pick_tau (TTryFull t). unfold step. rewrite Hg, Hpc, E4, E5. reflexivity.
  - pick_tau (TCloseWrite t). unfold step. rewrite Hg, Hpc. reflexivity.
  - pick_tau (TCloseCh t). unfold step. rewrite Hg, Hpc. reflexivity.
  - destruct r; [pick_ret (LRetSend t RNil) | pick_ret (LRetSend t RCtx) | pick_ret (LRetSend t RClosedPipe)
                 | pick_ret (LRetSend t RSErr)]; unfold step; rewrite Hg, Hpc; reflexivity.
  - destruct ok, r;
      [pick_ret (LRetTrySend t true RNil) | pick_ret (LRetTrySend t true RCtx) | pick_ret (LRetTrySend t true RClosedPipe)
       | pick_ret (LRetTrySend t true RSErr) | pick_ret (LRetTrySend t false RNil) | pick_ret (LRetTrySend t false RCtx)
       | pick_ret (LRetTrySend t false RClosedPipe) | pick_ret (LRetTrySend t false RSErr)];
      unfold step; rewrite Hg, Hpc; reflexivity.
  - pick_ret (LRetClose t). unfold step. rewrite Hg, Hpc. reflexivity.
Qed.

(* a parked Send is blocked for exactly the documented reasons *)
Theorem parked_send_blocked n nt nc s t x c :
  reachable qstep (init n nt nc) s -> getT s t = Some x -> t_pc x = SParked c ->
  rdone s = false /\ sdone s = false /\ ctx_done s c = false /\ rparked (rcv s) = false /\ has_room s = false.
Proof.
  intros Hr Hg Hpc. apply Inv_reachable in Hr. pose proof (inv_ths s Hr t x Hg) as Hx.
  assert (Hpk : pc_parked (t_pc x) = true) by (rewrite Hpc; reflexivity).
  destruct (tk_park _ _ _ Hx Hpk) as (Ha & Hb & Hc & Hd).
  repeat split; try assumption.
  - exact (tk_pctx _ _ _ Hx c Hpc).
  - unfold has_room. apply Nat.ltb_ge. exact Hd.
Qed.

(* MAIN (Send): a pending Send can take a step of its own as soon as the receiver is closed, the sender
   is closed, its context is done, a receiver is waiting, or the buffer has room *)
Theorem send_not_stuck n nt nc s t x c :
  reachable qstep (init n nt nc) s -> getT s t = Some x ->
  t_pc x = SPre c \/ t_pc x = SSel c \/ t_pc x = SParked c ->
  rdone s = true \/ sdone s = true \/ ctx_done s c = true \/ rparked (rcv s) = true \/ has_room s = true ->
  can_move s t.
Proof.
  intros Hr Hg Hpc Hcond. destruct Hpc as [Hpc|[Hpc|Hpc]].
  - apply (sender_can_move s t x Hg); rewrite Hpc; intros; discriminate.
  - apply (sender_can_move s t x Hg); rewrite Hpc; intros; discriminate.
  - destruct (parked_send_blocked _ _ _ _ _ _ _ Hr Hg Hpc) as (Ha & Hb & Hc & Hd & He).
    destruct Hcond as [H|[H|[H|[H|H]]]]; congruence.
Qed.

(* a decided call returns *)
Theorem send_returns s t x b r : getT s t = Some x -> t_pc x = SRetSend b r -> can_move s t.
Proof. intros Hg Hpc. apply (sender_can_move s t x Hg); rewrite Hpc; intros; discriminate. Qed.

(* MAIN (TrySend): in EVERY state (no reachability assumption) a pending TrySend has a step: it never parks *)
Theorem trysend_never_blocks s t x :
  getT s t = Some x ->
  (exists c, t_pc x = TPoll c) \/ (exists c, t_pc x = TSel2 c) \/ (exists ok r, t_pc x = SRetTry ok r) ->
  can_move s t.
Proof.
  intros Hg [[c Hpc]|[[c Hpc]|[ok [r Hpc]]]]; apply (sender_can_move s t x Hg); rewrite Hpc; intros; discriminate.
Qed.

(* PipeSender.Close never blocks *)
Theorem close_never_blocks s t x :
  getT s t = Some x -> (exists e, t_pc x = CWrite e) \/ t_pc x = CCloseCh \/ t_pc x = SRetClose -> can_move s t.
Proof.
  intros Hg [[e Hpc]|[Hpc|Hpc]]; apply (sender_can_move s t x Hg); rewrite Hpc; intros; discriminate.
Qed.

(* the receiver's Close never blocks *)
Theorem rclose_never_blocks s :
  (rcl s = RCCalled -> enabled s TRClose = true) /\ (rcl s = RCClosed -> enabled s LRetRClose = true).
Proof. split; intros H; unfold enabled, step; rewrite H; reflexivity. Qed.

Lemma take_enabled s :
  chan_empty s = false ->
  exists o, In (TRecvTake o) (recv_taus s) /\ In (TDrainTake o) (recv_taus s) /\ exists s', do_take s o = Some s'.
Proof.
  intros Hce. unfold chan_empty in Hce. destruct (existsb is_sparked (ths s)) eqn:He.
  - apply existsb_true_nth in He. destruct He as (t & x & Hn & Hp). exists (Some t).
    assert (Hin : In t (seq 0 (length (ths s)))) by (apply in_seq; split; [lia | simpl; eapply nth_lt; eauto]).
    split; [|split].
    + unfold recv_taus. apply in_or_app; right. apply in_flat_map. exists t. split; [exact Hin | left; reflexivity].
    + unfold recv_taus. apply in_or_app; right. apply in_flat_map. exists t. split; [exact Hin | right; left; reflexivity].
    + unfold do_take, getT. rewrite Hn. unfold is_sparked in Hp. destruct (t_pc x); try discriminate Hp.
      destruct (buf s ++ [(t, t_idx x)]) as [|v b] eqn:E; [destruct (buf s); discriminate E | eauto].
  - destruct (buf s) as [|v b] eqn:Hbuf; [discriminate Hce|]. exists None. split; [|split].
    + unfold recv_taus. apply in_or_app; left. in_list.
    + unfold recv_taus. apply in_or_app; left. in_list.
    + unfold do_take. rewrite He, Hbuf. eauto.
Qed.

(* a parked Next is blocked for exactly the documented reasons: nothing buffered, no sender offering a
   value, sender open, context live *)
Theorem parked_next_blocked n nt nc s c :
  reachable qstep (init n nt nc) s -> rcv s = RParked c ->
  chan_empty s = true /\ sdone s = false /\ ctx_done s c = false.
Proof.
  intros Hr Hrc. apply Inv_reachable in Hr. destruct (inv_rpark s Hr c Hrc) as (Hb & Hsd & Hcd).
  repeat split; try assumption. unfold chan_empty. rewrite Hb.
  destruct (existsb is_sparked (ths s)) eqn:He; [|reflexivity].
  apply existsb_true_nth in He. destruct He as (t & x & Hn & Hp).
  pose proof (inv_ths s Hr t x Hn) as Hx. change (is_sparked x) with (pc_parked (t_pc x)) in Hp.
  destruct (tk_park _ _ _ Hx Hp) as (_ & _ & Hc & _). rewrite Hrc in Hc. discriminate Hc.
Qed.

(* MAIN (Next): a pending Next can take a step as soon as a value is buffered or offered by a parked
   sender, the sender is closed, or its context is done *)
Theorem next_not_stuck n nt nc s :
  reachable qstep (init n nt nc) s -> rcv s <> RIdle ->
  (forall c, rcv s = RParked c -> chan_empty s = false \/ sdone s = true \/ ctx_done s c = true) ->
  recv_can_move s.
Proof.
  intros Hr Hni Hcond. unfold recv_can_move, recv_labels, enabled. destruct (rcv s) as [|c|c| |r] eqn:Hrc.
  - congruence.
  - destruct (ctx_done s c) eqn:E1.
    { exists TRecvCtx. split; [apply in_or_app; left; unfold recv_taus; apply in_or_app; left; in_list|].
      unfold step. rewrite Hrc, E1. reflexivity. }
    destruct (sdone s) eqn:E2.
    { exists TRecvSDone. split; [apply in_or_app; left; unfold recv_taus; apply in_or_app; left; in_list|].
      unfold step. rewrite Hrc, E2. reflexivity. }
    destruct (chan_empty s) eqn:E3.
    { exists TRecvPark. split; [apply in_or_app; left; unfold recv_taus; apply in_or_app; left; in_list|].
      unfold step. rewrite Hrc, E1, E2, E3. reflexivity. }
    destruct (take_enabled s E3) as (o & Hin & _ & s1 & Ht).
    exists (TRecvTake o). split; [apply in_or_app; left; exact Hin|]. unfold step. rewrite Hrc, Ht. reflexivity.
  - destruct (parked_next_blocked _ _ _ _ _ Hr Hrc) as (Ha & Hb & Hc).
    destruct (Hcond c eq_refl) as [H|[H|H]]; congruence.
  - destruct (chan_empty s) eqn:E3.
    { exists TDrainEmpty. split; [apply in_or_app; left; unfold recv_taus; apply in_or_app; left; in_list|].
      unfold step. rewrite Hrc, E3. reflexivity. }
    destruct (take_enabled s E3) as (o & _ & Hin & s1 & Ht).
    exists (TDrainTake o). split; [apply in_or_app; left; exact Hin|]. unfold step. rewrite Hrc, Ht. reflexivity.
  - exists (LRetNext r). split; [apply in_or_app; right; left; reflexivity|].
    unfold step. rewrite Hrc. destruct r as [[a b]| | |]; try reflexivity. rewrite !Nat.eqb_refl. reflexivity.
Qed.

(* ================================================================== *)
(* variant: the library cannot take internal steps forever              *)
(* ================================================================== *)

Definition rank_spc (p : spc) : nat :=
  match p with
  | SIdle => 0
  | SPre _ => 4
  | SSel _ | TPoll _ | CWrite _ => 3
  | SParked _ | TSel2 _ | CCloseCh => 2
  | SRetSend _ _ | SRetTry _ _ | SRetClose => 1
  end.
Definition rank_thr (x : thread) : nat := rank_spc (t_pc x).
Definition rank_rpc (r : rpc) : nat :=
  match r with RIdle => 0 | RSel _ => 4 | RParked _ => 3 | RDrain => 2 | RRet _ => 1 end.
Definition rank_rcl (r : rcpc) : nat := match r with RCCalled => 1 | _ => 0 end.
Definition rank_ctx (c : cstate) : nat := match c with CReq => 1 | _ => 0 end.

(* number of internal steps the calls in progress can still take *)
Definition measure (s : st) : nat :=
  list_sum (map rank_thr (ths s)) + rank_rpc (rcv s) + rank_rcl (rcl s) + list_sum (map rank_ctx (ctxs s)).

Definition is_tau (l : lab) : bool := match vis l with None => true | Some _ => false end.

Lemma sum_upd {A} (f : A -> nat) l t x x' :
  nth_error l t = Some x -> list_sum (map f (upd l t x')) + f x = list_sum (map f l) + f x'.
Proof.
  revert t. induction l as [|h l IH]; intros [|t] Hn; simpl in *; try discriminate.
  - inversion Hn; subst. lia.
  - specialize (IH t Hn). lia.
Qed.

Lemma sum_upd_pc l t x p' :
  nth_error l t = Some x ->
  list_sum (map rank_thr (upd l t (set_pc x p'))) + rank_spc (t_pc x) = list_sum (map rank_thr l) + rank_spc p'.
Proof. intros H. exact (sum_upd rank_thr l t x (set_pc x p') H). Qed.

Lemma sum_map_le {A} (f : A -> nat) g l :
  (forall x, f (g x) <= f x) -> list_sum (map f (map g l)) <= list_sum (map f l).
Proof. intros H. induction l as [|h l IH]; simpl; [lia|]. specialize (H h). lia. Qed.

Lemma rank_wake_all r x : rank_thr (wake_all r x) <= rank_thr x.
Proof. unfold wake_all, rank_thr. destruct (t_pc x) eqn:E; simpl; rewrite ?E; simpl; lia. Qed.

Lemma rank_wake_ctx c x : rank_thr (wake_ctx c x) <= rank_thr x.
Proof.
  unfold wake_ctx, rank_thr. destruct (t_pc x) eqn:E; simpl; rewrite ?E; simpl; try lia.
  destruct (Nat.eqb c0 c); simpl; rewrite ?E; simpl; lia.
Qed.

Lemma do_take_measure s o s' :
  do_take s o = Some s' -> 2 <= rank_rpc (rcv s) -> measure s' < measure s.
Proof.
  intros H Hr. apply do_take_inv in H.
  destruct H as [(_ & _ & v & b & _ & ->)|(t & x & c & v & b & _ & Hg & Hpc & _ & ->)]; unfold measure; simpl.
  - lia.
  - pose proof (sum_upd_pc (ths s) t x (SRetSend true RNil) Hg) as Hs.
    rewrite Hpc in Hs. simpl in Hs. lia.
Qed.

Ltac var_thread s t x x' Hg Hpc :=
  let Hs := fresh "Hs" in
  pose proof (sum_upd_pc (ths s) t x x' Hg) as Hs;
  rewrite Hpc in Hs; simpl in Hs;
  unfold measure; simpl; lia.

Theorem tau_variant s l s' : is_tau l = true -> step s l = Some s' -> measure s' < measure s.
Proof.
  intros Ht H. destruct l; try discriminate Ht; clear Ht; unfold step in H.
  - tstep H x Hg Hpc. st_guards H; inv_some H.
    + var_thread s t x (SRetSend false (errres s)) Hg Hpc.
    + var_thread s t x (SSel c) Hg Hpc.
  - tstep H x Hg Hpc. st_guards H; inv_some H. var_thread s t x (SRetSend false RCtx) Hg Hpc.
  - tstep H x Hg Hpc. st_guards H; inv_some H. var_thread s t x (SRetSend false RClosedPipe) Hg Hpc.
  - tstep H x Hg Hpc. st_guards H; inv_some H. var_thread s t x (SRetSend false (errres s)) Hg Hpc.
  - tstep H x Hg Hpc. st_guards H; inv_some H. var_thread s t x (SRetSend true RNil) Hg Hpc.
  - tstep H x Hg Hpc. st_guards H; inv_some H.
    pose proof (sum_upd_pc (ths s) t x (SRetSend true RNil) Hg) as Hs. rewrite Hpc in Hs. simpl in Hs.
    unfold measure. simpl. destruct (rcv s); simpl in *; try discriminate; lia.
  - tstep H x Hg Hpc. st_guards H; inv_some H. var_thread s t x (SParked c) Hg Hpc.
  - tstep H x Hg Hpc. st_guards H; inv_some H. var_thread s t x (SRetTry false RCtx) Hg Hpc.
  - tstep H x Hg Hpc. st_guards H; inv_some H. var_thread s t x (SRetTry false RClosedPipe) Hg Hpc.
  - tstep H x Hg Hpc. st_guards H; inv_some H. var_thread s t x (SRetTry false (errres s)) Hg Hpc.
  - tstep H x Hg Hpc. st_guards H; inv_some H. var_thread s t x (TSel2 c) Hg Hpc.
  - tstep H x Hg Hpc. st_guards H; inv_some H. var_thread s t x (SRetTry true RNil) Hg Hpc.
  - tstep H x Hg Hpc. st_guards H; inv_some H.
    pose proof (sum_upd_pc (ths s) t x (SRetTry true RNil) Hg) as Hs. rewrite Hpc in Hs. simpl in Hs.
    unfold measure. simpl. destruct (rcv s); simpl in *; try discriminate; lia.
  - tstep H x Hg Hpc. st_guards H; inv_some H. var_thread s t x (SRetTry false RNil) Hg Hpc.
  - tstep H x Hg Hpc. inv_some H. var_thread s t x CCloseCh Hg Hpc.
  - tstep H x Hg Hpc. inv_some H.
    assert (Hw : nth_error (map (wake_all (errres s)) (ths s)) t = Some x).
    { rewrite nth_map. unfold getT in Hg. rewrite Hg. simpl. unfold wake_all. rewrite Hpc. reflexivity. }
    pose proof (sum_upd_pc _ t x SRetClose Hw) as Hs. rewrite Hpc in Hs. simpl in Hs.
    pose proof (sum_map_le rank_thr (wake_all (errres s)) (ths s) (rank_wake_all _)) as Hle.
    unfold measure. simpl. destruct (rcv s); simpl; lia.
  - destruct (rcv s) as [|c| | |] eqn:Hr; try discriminate H. st_guards H; inv_some H.
    unfold measure; simpl; rewrite Hr; simpl; lia.
  - destruct (rcv s) eqn:Hr; try discriminate H. eapply do_take_measure; [exact H | rewrite Hr; simpl; lia].
  - destruct (rcv s) as [|c| | |] eqn:Hr; try discriminate H. st_guards H; inv_some H.
    unfold measure; simpl; rewrite Hr; simpl; lia.
  - destruct (rcv s) as [|c| | |] eqn:Hr; try discriminate H. st_guards H; inv_some H.
    unfold measure; simpl; rewrite Hr; simpl; lia.
  - destruct (rcv s) eqn:Hr; try discriminate H. eapply do_take_measure; [exact H | rewrite Hr; simpl; lia].
  - destruct (rcv s) eqn:Hr; try discriminate H. st_guards H; inv_some H.
    unfold measure; simpl; rewrite Hr; simpl; lia.
  - destruct (rcl s) eqn:Hr; try discriminate H. inv_some H.
    pose proof (sum_map_le rank_thr (wake_all RClosedPipe) (ths s) (rank_wake_all _)) as Hle.
    unfold measure; simpl; rewrite Hr; simpl; lia.
  - destruct (nth_error (ctxs s) c) as [[| |]|] eqn:Hc; try discriminate H. inv_some H.
    pose proof (sum_upd rank_ctx (ctxs s) c CReq CDone Hc) as Hs. simpl in Hs.
    pose proof (sum_map_le rank_thr (wake_ctx c) (ths s) (rank_wake_ctx _)) as Hle.
    unfold measure; simpl. destruct (rcv s) as [|c1|c1| |r1]; simpl; try lia.
    destruct (Nat.eqb c1 c); simpl; lia.
Qed.

(* hence any run consisting of internal steps only is no longer than the measure of its first state *)
Corollary tau_runs_bounded s ls s' :
  Forall (fun l => is_tau l = true) ls -> run step s ls = Some s' -> length ls + measure s' <= measure s.
Proof.
  revert s. induction ls as [|l ls IH]; intros s HF Hr; simpl in *.
  - inversion Hr; subst. lia.
  - inversion HF as [|l' ls' Hl HF']; subst. destruct (step s l) as [s1|] eqn:E; [|discriminate Hr].
    pose proof (tau_variant _ _ _ Hl E). specialize (IH s1 HF' Hr). lia.
Qed.

(* the three progress clauses together *)
Theorem no_stuck_call n nt nc s :
  reachable qstep (init n nt nc) s ->
  (forall t x c, getT s t = Some x ->
     t_pc x = SPre c \/ t_pc x = SSel c \/ t_pc x = SParked c ->
     rdone s = true \/ sdone s = true \/ ctx_done s c = true \/ rparked (rcv s) = true \/ has_room s = true ->
     can_move s t) /\
  (forall t x, getT s t = Some x ->
     (exists c, t_pc x = TPoll c) \/ (exists c, t_pc x = TSel2 c) \/ (exists ok r, t_pc x = SRetTry ok r) ->
     can_move s t) /\
  (rcv s <> RIdle ->
   (forall c, rcv s = RParked c -> chan_empty s = false \/ sdone s = true \/ ctx_done s c = true) ->
   recv_can_move s).
Proof.
  intros Hr. split; [|split].
  - intros t x c. apply (send_not_stuck n nt nc). exact Hr.
  - intros t x. apply trysend_never_blocks.
  - apply (next_not_stuck n nt nc). exact Hr.
Qed.

(* ================================================================== *)
(* non-vacuity: the model runs, and the hypotheses are satisfiable      *)
(* ================================================================== *)

Definition summary (o : option st) :=
  option_map (fun s => (g_sent s, g_acked s, g_comm s, g_ret s, buf s)) o.

(* buffer 2: two Sends return nil, Close(nil), three Nexts: both values, then End (the drain at work) *)
Definition run_buffered : list lab :=
  [LCallSend 0 0; TPrePoll 0; TSendEnq 0; LRetSend 0 RNil;
   LCallSend 0 0; TPrePoll 0; TSendEnq 0; LRetSend 0 RNil;
   LCallClose 0 false; TCloseWrite 0; TCloseCh 0; LRetClose 0; LQuiesce;
   LCallNext 1; TRecvSDone; TDrainTake None; LRetNext (VVal (0, 0));
   LCallNext 1; TRecvTake None; LRetNext (VVal (0, 1));
   LCallNext 1; TRecvSDone; TDrainEmpty].

Example ex_buffered_then_end :
  summary (run qstep (init 2 1 2) run_buffered)
  = Some ([(0, 0); (0, 1)], [(0, 0); (0, 1)], [(0, 0); (0, 1)], [(0, 0); (0, 1)], [])
  /\ option_map rcv (run qstep (init 2 1 2) run_buffered) = Some (RRet VEnd).
Proof. vm_compute. split; reflexivity. Qed.

(* the hypotheses of [no_loss_before_end] are satisfiable: the run above continues with LRetNext VEnd *)
Example ex_no_loss_hyp :
  exists s s', reachable qstep (init 2 1 2) s /\ qstep s (LRetNext VEnd) = Some s' /\ g_acked s = [(0, 0); (0, 1)].
Proof.
  destruct (run qstep (init 2 1 2) run_buffered) as [s|] eqn:E; [|vm_compute in E; discriminate E].
  exists s. assert (Hs : exists s', qstep s (LRetNext VEnd) = Some s' /\ g_acked s = [(0, 0); (0, 1)]).
  { vm_compute in E. inversion E; subst s. vm_compute. eexists. split; reflexivity. }
  destruct Hs as (s' & H1 & H2). exists s'. split; [exists run_buffered; exact E | split; assumption].
Qed.

(* capacity 0, two senders: both park, the receiver takes sender 1's value first (rendezvous), then
   sender 0's; a third Next parks and is woken by Close(err) *)
Definition run_rendezvous : list lab :=
  [LCallSend 0 0; LCallSend 1 1; TPrePoll 0; TPrePoll 1; TSendPark 0; TSendPark 1; LQuiesce;
   LCallNext 2; TRecvTake (Some 1); LRetNext (VVal (1, 0)); LRetSend 1 RNil;
   LCallNext 2; TRecvTake (Some 0); LRetSend 0 RNil; LRetNext (VVal (0, 0));
   LCallNext 2; TRecvPark; LQuiesce;
   LCallClose 1 true; TCloseWrite 1; TCloseCh 1; LRetClose 1; TDrainEmpty; LRetNext VErr; LQuiesce].

Example ex_rendezvous :
  summary (run qstep (init 0 2 3) run_rendezvous)
  = Some ([(0, 0); (1, 0)], [(1, 0); (0, 0)], [(1, 0); (0, 0)], [(1, 0); (0, 0)], []).
Proof. vm_compute. reflexivity. Qed.

(* a reachable state with a parked Send and one with a parked Next (hypotheses of the "blocked only for
   the documented reason" theorems) *)
Example ex_parked_send :
  option_map (fun s => (map t_pc (ths s), rcv s))
             (run qstep (init 0 1 1) [LCallSend 0 0; TPrePoll 0; TSendPark 0; LQuiesce])
  = Some ([SParked 0], RIdle).
Proof. vm_compute. reflexivity. Qed.

Example ex_parked_next :
  option_map rcv (run qstep (init 1 1 1) [LCallNext 0; TRecvPark; LQuiesce]) = Some (RParked 0).
Proof. vm_compute. reflexivity. Qed.

(* cancellation wakes a parked Send and a parked Next; receiver Close wakes a parked Send *)
Example ex_cancel_and_rclose :
  option_map (fun s => (map t_pc (ths s), rcv s))
    (run qstep (init 0 2 3)
       [LCallSend 0 0; TPrePoll 0; TSendPark 0; LCancel 0; TCancelEff 0; LRetSend 0 RCtx;
        LCallSend 1 1; TPrePoll 1; TSendPark 1; LCallRClose; TRClose; LRetRClose; LRetSend 1 RClosedPipe;
        LCallNext 2; TRecvPark; LCancel 2; TCancelEff 2; LRetNext VCtx; LQuiesce])
  = Some ([SIdle; SIdle], RIdle).
Proof. vm_compute. reflexivity. Qed.

(* a settled state is reachable: buffer drained, sender closed, End determined *)
Example ex_settled :
  exists s, run qstep (init 2 1 2) run_buffered = Some s /\ settled s.
Proof.
  destruct (run qstep (init 2 1 2) run_buffered) as [s|] eqn:E; [|vm_compute in E; discriminate E].
  exists s. split; [reflexivity|]. vm_compute in E. inversion E; subst s.
  constructor; simpl; try reflexivity.
  intros t x Hn. destruct t as [|t]; simpl in Hn; [inversion Hn; reflexivity | destruct t; discriminate Hn].
Qed.

(* WHY the stickiness clause needs "no Send in flight": a Send that passed its senderDone poll before the
   close may still enter the buffer after a Next has reported the end; the next Next then returns its
   value.  (The unconditional claim "after End every Next reports End" is refuted by this run.) *)
Definition run_end_then_value : list lab :=
  [LCallSend 0 0; TPrePoll 0;                                   (* Send is past the poll, not yet in the select *)
   LCallClose 1 false; TCloseWrite 1; TCloseCh 1; LRetClose 1;  (* the sender is closed *)
   LCallNext 1; TRecvSDone; TDrainEmpty; LRetNext VEnd;         (* End reported: the buffer is empty *)
   TSendEnq 0; LRetSend 0 RNil;                                 (* the select picks the ready [c <- x] arm *)
   LCallNext 1; TRecvTake None; LRetNext (VVal (0, 0))].        (* ... and the value arrives after End *)

Example end_sticky_unconditional_refuted :
  exists s, run qstep (init 1 2 2) run_end_then_value = Some s /\ g_ret s = [(0, 0)] /\
            In (LRetNext VEnd) (firstn 10 run_end_then_value).
Proof.
  destruct (run qstep (init 1 2 2) run_end_then_value) as [s|] eqn:E; [|vm_compute in E; discriminate E].
  exists s. split; [reflexivity|]. vm_compute in E. inversion E; subst s. split; [reflexivity|].
  simpl. repeat (first [left; reflexivity | right]).
Qed.
