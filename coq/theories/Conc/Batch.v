(* C11 — LTS model of stream.Batch / stream.BatchFunc (stream/stream.go) together with the scenario
   harness (harness_batch/batch.go).  Model only (no proofs here).

   Threads
     producer   the first goroutine of BatchFunc: up-call s.Next(bgCtx), the select-send on the
                unbuffered channel c, out.err, deferred close(c), s.Close() (up-call), wg.Done
     batcher    the second goroutine: select loop over c / timerC / out.waiting, full(batch),
                stopTimer / startTimer, flush (select on bgCtx.Done / out.batchC <- batch),
                deferred timer.Stop + close(out.batchC), wg.Done
     consumers  any number of calls of batchStream.Next, each with its own context: outer three-arm
                select, after `iter.waiting <- struct{}{}` the inner two-arm select
     closer     batchStream.Close: bgCancel(), wg.Wait()
     timer      TmNone (timer == nil) | TmIdle (stopped, or fired and received) | TmArmed deadline |
                TmFired (value in the timer's channel), against a logical clock advanced by LTick;
                a timer may fire arbitrarily later than its deadline.  (Go < 1.23 timer channels:
                the repository's go.mod says go 1.18, so asynctimerchan semantics apply.)
     source     harness code: a FIFO of tokens released by the controller; its Next returns the next
                token, or ctx.Err() once bgCtx is cancelled (ASSUMPTION of the property: the
                source's Next returns once bgCtx is cancelled)
     full       Batch: len(batch) >= batchSize (internal);  BatchFunc: an up-call into the harness
                whose result is carried by the label, optionally held by a gate

   Granularity (CONC_RULES): a thread sits at a blocking select until one arm fires; a rendezvous on
   an unbuffered channel (c, out.waiting, out.batchC) is one joint step of the two threads; the
   non-blocking code between two blocking points / visible events is part of the step that enters
   it.  Ghost fields (src, srcres, delivered, lostb, lostp, nclose, ann, stale) record the history. *)
From Juniper Require Import Common.Base Conc.GoLTS.

Inductive tok := KItem (v : Z) | KEnd | KErr (e : Z).            (* what the controller releases *)
Inductive sres := RItem (v : Z) | REnd | RErr (e : Z) | RCanceled. (* result of the source's Next *)
Inductive cres := CBatch (b : list Z) | CEnd | CErr (e : Z) | CCtx. (* result of batchStream.Next *)
Inductive cstate := XLive | XReq | XDone.                        (* context: live / cancel() called / Done closed *)
Inductive fmode := FBatch (size : Z) | FFunc (gated : bool).
Inductive freason := FCFull | FCTimer | FCWait | FCEnd.          (* which call site of flush *)
Inductive tstate := TmNone | TmIdle | TmArmed (d : Z) | TmFired.

Inductive ppc :=
| PStart                  (* loop head: about to call s.Next(bgCtx) *)
| PInNext                 (* inside the source's Next *)
| PSend (v : Z)           (* select { case c <- item: case <-bgCtx.Done(): } *)
| PCloseC                 (* left the loop; deferred close(c) next *)
| PSrcClose               (* deferred s.Close() next *)
| PWg                     (* deferred wg.Done() next *)
| PDone.

Inductive bpc :=
| BLoop                   (* the main select *)
| BFull                   (* item appended; about to evaluate full(batch) *)
| BInFull                 (* inside the user's full (BatchFunc) *)
| BFlush (r : freason)    (* inside flush: select { <-bgCtx.Done(); out.batchC <- batch } *)
| BExit                   (* returning: deferred timer.Stop + close(out.batchC) next *)
| BWg                     (* deferred wg.Done() next *)
| BDone
| BStuck.                 (* stopTimer would block on <-timerC forever / stale value left in the
                             timer channel: behaviour not followed further (proved unreachable) *)

Inductive cpc :=
| CIdle                   (* call not started *)
| CSel                    (* outer select: batchC / waiting<- / ctx.Done *)
| CInner                  (* inner select: batchC / ctx.Done *)
| CRet (r : cres)         (* about to return r *)
| CDone (r : cres).

Inductive kpc := KIdle | KCalled | KWait | KRet | KDone.

Record consumer := mkC { c_ctx : nat; c_pc : cpc }.

(* ghost record of one delivered batch *)
Record drec := mkD {
  d_who : nat;            (* the consumer call that received it *)
  d_batch : list Z;
  d_reason : freason;
  d_clock : Z;            (* clock at the hand-off *)
  d_start : Z;            (* batchStart at the hand-off *)
  d_ann : bool            (* a consumer had announced itself (out.waiting) since the previous hand-off *)
}.

Fixpoint list_eqb {A} (eqb : A -> A -> bool) (a b : list A) : bool :=
  match a, b with
  | [], [] => true
  | x :: a', y :: b' => eqb x y && list_eqb eqb a' b'
  | _, _ => false
  end.

Definition tok_eqb (a b : tok) : bool :=
  match a, b with
  | KItem x, KItem y | KErr x, KErr y => Z.eqb x y
  | KEnd, KEnd => true
  | _, _ => false
  end.
Definition sres_eqb (a b : sres) : bool :=
  match a, b with
  | RItem x, RItem y | RErr x, RErr y => Z.eqb x y
  | REnd, REnd | RCanceled, RCanceled => true
  | _, _ => false
  end.
Definition cres_eqb (a b : cres) : bool :=
  match a, b with
  | CBatch x, CBatch y => list_eqb Z.eqb x y
  | CErr x, CErr y => Z.eqb x y
  | CEnd, CEnd | CCtx, CCtx => true
  | _, _ => false
  end.
Definition cstate_eqb (a b : cstate) : bool :=
  match a, b with XLive, XLive | XReq, XReq | XDone, XDone => true | _, _ => false end.
Definition fmode_eqb (a b : fmode) : bool :=
  match a, b with
  | FBatch x, FBatch y => Z.eqb x y
  | FFunc x, FFunc y => Bool.eqb x y
  | _, _ => false
  end.
Definition freason_eqb (a b : freason) : bool :=
  match a, b with
  | FCFull, FCFull | FCTimer, FCTimer | FCWait, FCWait | FCEnd, FCEnd => true
  | _, _ => false
  end.
Definition tstate_eqb (a b : tstate) : bool :=
  match a, b with
  | TmNone, TmNone | TmIdle, TmIdle | TmFired, TmFired => true
  | TmArmed x, TmArmed y => Z.eqb x y
  | _, _ => false
  end.
Definition ppc_eqb (a b : ppc) : bool :=
  match a, b with
  | PStart, PStart | PInNext, PInNext | PCloseC, PCloseC | PSrcClose, PSrcClose | PWg, PWg
  | PDone, PDone => true
  | PSend x, PSend y => Z.eqb x y
  | _, _ => false
  end.
Definition bpc_eqb (a b : bpc) : bool :=
  match a, b with
  | BLoop, BLoop | BFull, BFull | BInFull, BInFull | BExit, BExit | BWg, BWg | BDone, BDone
  | BStuck, BStuck => true
  | BFlush x, BFlush y => freason_eqb x y
  | _, _ => false
  end.
Definition cpc_eqb (a b : cpc) : bool :=
  match a, b with
  | CIdle, CIdle | CSel, CSel | CInner, CInner => true
  | CRet x, CRet y | CDone x, CDone y => cres_eqb x y
  | _, _ => false
  end.
Definition kpc_eqb (a b : kpc) : bool :=
  match a, b with
  | KIdle, KIdle | KCalled, KCalled | KWait, KWait | KRet, KRet | KDone, KDone => true
  | _, _ => false
  end.
Definition consumer_eqb (a b : consumer) : bool :=
  Nat.eqb (c_ctx a) (c_ctx b) && cpc_eqb (c_pc a) (c_pc b).
Definition drec_eqb (a b : drec) : bool :=
  Nat.eqb (d_who a) (d_who b) && list_eqb Z.eqb (d_batch a) (d_batch b)
  && freason_eqb (d_reason a) (d_reason b) && Z.eqb (d_clock a) (d_clock b)
  && Z.eqb (d_start a) (d_start b) && Bool.eqb (d_ann a) (d_ann b).
Definition optz_eqb (a b : option Z) : bool :=
  match a, b with None, None => true | Some x, Some y => Z.eqb x y | _, _ => false end.
Definition optsres_eqb (a b : option sres) : bool :=
  match a, b with None, None => true | Some x, Some y => sres_eqb x y | _, _ => false end.

Record st := mkSt {
  maxw : Z;
  mode : fmode;
  clock : Z;
  srcq : list tok;
  fulltok : nat;
  ctxs : list cstate;
  bgdone : bool;
  ppc_ : ppc;
  perr : option Z;
  cclosed : bool;
  bpc_ : bpc;
  batch : list Z;
  bstart : Z;
  tmr : tstate;
  tc : bool;
  wae : bool;
  bclosed : bool;
  wg : nat;
  cons : list consumer;
  kpc_ : kpc;
  src : list Z;
  srcres : option sres;
  delivered : list drec;
  lostb : list Z;
  lostp : list Z;
  nclose : nat;
  ann : bool;
  stale : bool
}.

Definition set_maxw (s : st) (x : Z) : st :=
  mkSt x (mode s) (clock s) (srcq s) (fulltok s) (ctxs s) (bgdone s) (ppc_ s) (perr s) (cclosed s) (bpc_ s) (batch s) (bstart s) (tmr s) (tc s) (wae s) (bclosed s) (wg s) (cons s) (kpc_ s) (src s) (srcres s) (delivered s) (lostb s) (lostp s) (nclose s) (ann s) (stale s).
Definition set_mode (s : st) (x : fmode) : st :=
  mkSt (maxw s) x (clock s) (srcq s) (fulltok s) (ctxs s) (bgdone s) (ppc_ s) (perr s) (cclosed s) (bpc_ s) (batch s) (bstart s) (tmr s) (tc s) (wae s) (bclosed s) (wg s) (cons s) (kpc_ s) (src s) (srcres s) (delivered s) (lostb s) (lostp s) (nclose s) (ann s) (stale s).
Definition set_clock (s : st) (x : Z) : st :=
  mkSt (maxw s) (mode s) x (srcq s) (fulltok s) (ctxs s) (bgdone s) (ppc_ s) (perr s) (cclosed s) (bpc_ s) (batch s) (bstart s) (tmr s) (tc s) (wae s) (bclosed s) (wg s) (cons s) (kpc_ s) (src s) (srcres s) (delivered s) (lostb s) (lostp s) (nclose s) (ann s) (stale s).
Definition set_srcq (s : st) (x : list tok) : st :=
  mkSt (maxw s) (mode s) (clock s) x (fulltok s) (ctxs s) (bgdone s) (ppc_ s) (perr s) (cclosed s) (bpc_ s) (batch s) (bstart s) (tmr s) (tc s) (wae s) (bclosed s) (wg s) (cons s) (kpc_ s) (src s) (srcres s) (delivered s) (lostb s) (lostp s) (nclose s) (ann s) (stale s).
Definition set_fulltok (s : st) (x : nat) : st :=
  mkSt (maxw s) (mode s) (clock s) (srcq s) x (ctxs s) (bgdone s) (ppc_ s) (perr s) (cclosed s) (bpc_ s) (batch s) (bstart s) (tmr s) (tc s) (wae s) (bclosed s) (wg s) (cons s) (kpc_ s) (src s) (srcres s) (delivered s) (lostb s) (lostp s) (nclose s) (ann s) (stale s).
Definition set_ctxs (s : st) (x : list cstate) : st :=
  mkSt (maxw s) (mode s) (clock s) (srcq s) (fulltok s) x (bgdone s) (ppc_ s) (perr s) (cclosed s) (bpc_ s) (batch s) (bstart s) (tmr s) (tc s) (wae s) (bclosed s) (wg s) (cons s) (kpc_ s) (src s) (srcres s) (delivered s) (lostb s) (lostp s) (nclose s) (ann s) (stale s).
Definition set_bgdone (s : st) (x : bool) : st :=
  mkSt (maxw s) (mode s) (clock s) (srcq s) (fulltok s) (ctxs s) x (ppc_ s) (perr s) (cclosed s) (bpc_ s) (batch s) (bstart s) (tmr s) (tc s) (wae s) (bclosed s) (wg s) (cons s) (kpc_ s) (src s) (srcres s) (delivered s) (lostb s) (lostp s) (nclose s) (ann s) (stale s).
Definition set_ppc (s : st) (x : ppc) : st :=
  mkSt (maxw s) (mode s) (clock s) (srcq s) (fulltok s) (ctxs s) (bgdone s) x (perr s) (cclosed s) (bpc_ s) (batch s) (bstart s) (tmr s) (tc s) (wae s) (bclosed s) (wg s) (cons s) (kpc_ s) (src s) (srcres s) (delivered s) (lostb s) (lostp s) (nclose s) (ann s) (stale s).
Definition set_perr (s : st) (x : option Z) : st :=
  mkSt (maxw s) (mode s) (clock s) (srcq s) (fulltok s) (ctxs s) (bgdone s) (ppc_ s) x (cclosed s) (bpc_ s) (batch s) (bstart s) (tmr s) (tc s) (wae s) (bclosed s) (wg s) (cons s) (kpc_ s) (src s) (srcres s) (delivered s) (lostb s) (lostp s) (nclose s) (ann s) (stale s).
Definition set_cclosed (s : st) (x : bool) : st :=
  mkSt (maxw s) (mode s) (clock s) (srcq s) (fulltok s) (ctxs s) (bgdone s) (ppc_ s) (perr s) x (bpc_ s) (batch s) (bstart s) (tmr s) (tc s) (wae s) (bclosed s) (wg s) (cons s) (kpc_ s) (src s) (srcres s) (delivered s) (lostb s) (lostp s) (nclose s) (ann s) (stale s).
Definition set_bpc (s : st) (x : bpc) : st :=
  mkSt (maxw s) (mode s) (clock s) (srcq s) (fulltok s) (ctxs s) (bgdone s) (ppc_ s) (perr s) (cclosed s) x (batch s) (bstart s) (tmr s) (tc s) (wae s) (bclosed s) (wg s) (cons s) (kpc_ s) (src s) (srcres s) (delivered s) (lostb s) (lostp s) (nclose s) (ann s) (stale s).
Definition set_batch (s : st) (x : list Z) : st :=
  mkSt (maxw s) (mode s) (clock s) (srcq s) (fulltok s) (ctxs s) (bgdone s) (ppc_ s) (perr s) (cclosed s) (bpc_ s) x (bstart s) (tmr s) (tc s) (wae s) (bclosed s) (wg s) (cons s) (kpc_ s) (src s) (srcres s) (delivered s) (lostb s) (lostp s) (nclose s) (ann s) (stale s).
Definition set_bstart (s : st) (x : Z) : st :=
  mkSt (maxw s) (mode s) (clock s) (srcq s) (fulltok s) (ctxs s) (bgdone s) (ppc_ s) (perr s) (cclosed s) (bpc_ s) (batch s) x (tmr s) (tc s) (wae s) (bclosed s) (wg s) (cons s) (kpc_ s) (src s) (srcres s) (delivered s) (lostb s) (lostp s) (nclose s) (ann s) (stale s).
Definition set_tmr (s : st) (x : tstate) : st :=
  mkSt (maxw s) (mode s) (clock s) (srcq s) (fulltok s) (ctxs s) (bgdone s) (ppc_ s) (perr s) (cclosed s) (bpc_ s) (batch s) (bstart s) x (tc s) (wae s) (bclosed s) (wg s) (cons s) (kpc_ s) (src s) (srcres s) (delivered s) (lostb s) (lostp s) (nclose s) (ann s) (stale s).
Definition set_tc (s : st) (x : bool) : st :=
  mkSt (maxw s) (mode s) (clock s) (srcq s) (fulltok s) (ctxs s) (bgdone s) (ppc_ s) (perr s) (cclosed s) (bpc_ s) (batch s) (bstart s) (tmr s) x (wae s) (bclosed s) (wg s) (cons s) (kpc_ s) (src s) (srcres s) (delivered s) (lostb s) (lostp s) (nclose s) (ann s) (stale s).
Definition set_wae (s : st) (x : bool) : st :=
  mkSt (maxw s) (mode s) (clock s) (srcq s) (fulltok s) (ctxs s) (bgdone s) (ppc_ s) (perr s) (cclosed s) (bpc_ s) (batch s) (bstart s) (tmr s) (tc s) x (bclosed s) (wg s) (cons s) (kpc_ s) (src s) (srcres s) (delivered s) (lostb s) (lostp s) (nclose s) (ann s) (stale s).
Definition set_bclosed (s : st) (x : bool) : st :=
  mkSt (maxw s) (mode s) (clock s) (srcq s) (fulltok s) (ctxs s) (bgdone s) (ppc_ s) (perr s) (cclosed s) (bpc_ s) (batch s) (bstart s) (tmr s) (tc s) (wae s) x (wg s) (cons s) (kpc_ s) (src s) (srcres s) (delivered s) (lostb s) (lostp s) (nclose s) (ann s) (stale s).
Definition set_wg (s : st) (x : nat) : st :=
  mkSt (maxw s) (mode s) (clock s) (srcq s) (fulltok s) (ctxs s) (bgdone s) (ppc_ s) (perr s) (cclosed s) (bpc_ s) (batch s) (bstart s) (tmr s) (tc s) (wae s) (bclosed s) x (cons s) (kpc_ s) (src s) (srcres s) (delivered s) (lostb s) (lostp s) (nclose s) (ann s) (stale s).
Definition set_cons (s : st) (x : list consumer) : st :=
  mkSt (maxw s) (mode s) (clock s) (srcq s) (fulltok s) (ctxs s) (bgdone s) (ppc_ s) (perr s) (cclosed s) (bpc_ s) (batch s) (bstart s) (tmr s) (tc s) (wae s) (bclosed s) (wg s) x (kpc_ s) (src s) (srcres s) (delivered s) (lostb s) (lostp s) (nclose s) (ann s) (stale s).
Definition set_kpc (s : st) (x : kpc) : st :=
  mkSt (maxw s) (mode s) (clock s) (srcq s) (fulltok s) (ctxs s) (bgdone s) (ppc_ s) (perr s) (cclosed s) (bpc_ s) (batch s) (bstart s) (tmr s) (tc s) (wae s) (bclosed s) (wg s) (cons s) x (src s) (srcres s) (delivered s) (lostb s) (lostp s) (nclose s) (ann s) (stale s).
Definition set_src (s : st) (x : list Z) : st :=
  mkSt (maxw s) (mode s) (clock s) (srcq s) (fulltok s) (ctxs s) (bgdone s) (ppc_ s) (perr s) (cclosed s) (bpc_ s) (batch s) (bstart s) (tmr s) (tc s) (wae s) (bclosed s) (wg s) (cons s) (kpc_ s) x (srcres s) (delivered s) (lostb s) (lostp s) (nclose s) (ann s) (stale s).
Definition set_srcres (s : st) (x : option sres) : st :=
  mkSt (maxw s) (mode s) (clock s) (srcq s) (fulltok s) (ctxs s) (bgdone s) (ppc_ s) (perr s) (cclosed s) (bpc_ s) (batch s) (bstart s) (tmr s) (tc s) (wae s) (bclosed s) (wg s) (cons s) (kpc_ s) (src s) x (delivered s) (lostb s) (lostp s) (nclose s) (ann s) (stale s).
Definition set_delivered (s : st) (x : list drec) : st :=
  mkSt (maxw s) (mode s) (clock s) (srcq s) (fulltok s) (ctxs s) (bgdone s) (ppc_ s) (perr s) (cclosed s) (bpc_ s) (batch s) (bstart s) (tmr s) (tc s) (wae s) (bclosed s) (wg s) (cons s) (kpc_ s) (src s) (srcres s) x (lostb s) (lostp s) (nclose s) (ann s) (stale s).
Definition set_lostb (s : st) (x : list Z) : st :=
  mkSt (maxw s) (mode s) (clock s) (srcq s) (fulltok s) (ctxs s) (bgdone s) (ppc_ s) (perr s) (cclosed s) (bpc_ s) (batch s) (bstart s) (tmr s) (tc s) (wae s) (bclosed s) (wg s) (cons s) (kpc_ s) (src s) (srcres s) (delivered s) x (lostp s) (nclose s) (ann s) (stale s).
Definition set_lostp (s : st) (x : list Z) : st :=
  mkSt (maxw s) (mode s) (clock s) (srcq s) (fulltok s) (ctxs s) (bgdone s) (ppc_ s) (perr s) (cclosed s) (bpc_ s) (batch s) (bstart s) (tmr s) (tc s) (wae s) (bclosed s) (wg s) (cons s) (kpc_ s) (src s) (srcres s) (delivered s) (lostb s) x (nclose s) (ann s) (stale s).
Definition set_nclose (s : st) (x : nat) : st :=
  mkSt (maxw s) (mode s) (clock s) (srcq s) (fulltok s) (ctxs s) (bgdone s) (ppc_ s) (perr s) (cclosed s) (bpc_ s) (batch s) (bstart s) (tmr s) (tc s) (wae s) (bclosed s) (wg s) (cons s) (kpc_ s) (src s) (srcres s) (delivered s) (lostb s) (lostp s) x (ann s) (stale s).
Definition set_ann (s : st) (x : bool) : st :=
  mkSt (maxw s) (mode s) (clock s) (srcq s) (fulltok s) (ctxs s) (bgdone s) (ppc_ s) (perr s) (cclosed s) (bpc_ s) (batch s) (bstart s) (tmr s) (tc s) (wae s) (bclosed s) (wg s) (cons s) (kpc_ s) (src s) (srcres s) (delivered s) (lostb s) (lostp s) (nclose s) x (stale s).
Definition set_stale (s : st) (x : bool) : st :=
  mkSt (maxw s) (mode s) (clock s) (srcq s) (fulltok s) (ctxs s) (bgdone s) (ppc_ s) (perr s) (cclosed s) (bpc_ s) (batch s) (bstart s) (tmr s) (tc s) (wae s) (bclosed s) (wg s) (cons s) (kpc_ s) (src s) (srcres s) (delivered s) (lostb s) (lostp s) (nclose s) (ann s) x.

Definition st_eqb (a b : st) : bool :=
  Z.eqb (maxw a) (maxw b)
  && fmode_eqb (mode a) (mode b)
  && Z.eqb (clock a) (clock b)
  && list_eqb tok_eqb (srcq a) (srcq b)
  && Nat.eqb (fulltok a) (fulltok b)
  && list_eqb cstate_eqb (ctxs a) (ctxs b)
  && Bool.eqb (bgdone a) (bgdone b)
  && ppc_eqb (ppc_ a) (ppc_ b)
  && optz_eqb (perr a) (perr b)
  && Bool.eqb (cclosed a) (cclosed b)
  && bpc_eqb (bpc_ a) (bpc_ b)
  && list_eqb Z.eqb (batch a) (batch b)
  && Z.eqb (bstart a) (bstart b)
  && tstate_eqb (tmr a) (tmr b)
  && Bool.eqb (tc a) (tc b)
  && Bool.eqb (wae a) (wae b)
  && Bool.eqb (bclosed a) (bclosed b)
  && Nat.eqb (wg a) (wg b)
  && list_eqb consumer_eqb (cons a) (cons b)
  && kpc_eqb (kpc_ a) (kpc_ b)
  && list_eqb Z.eqb (src a) (src b)
  && optsres_eqb (srcres a) (srcres b)
  && list_eqb drec_eqb (delivered a) (delivered b)
  && list_eqb Z.eqb (lostb a) (lostb b)
  && list_eqb Z.eqb (lostp a) (lostp b)
  && Nat.eqb (nclose a) (nclose b)
  && Bool.eqb (ann a) (ann b)
  && Bool.eqb (stale a) (stale b).

Inductive lab :=
(* ---- visible events (recorded by the harness) ---- *)
| LRelease (t : tok)            (* controller: hand one token to the source's gate *)
| LReleaseFull                  (* controller: let one gated call of full return *)
| LSrcNextEnter | LSrcNextExit (r : sres)
| LSrcClose
| LFullEnter (b : list Z) | LFullExit (r : bool)
| LCallNext (k : nat) | LRetNext (k : nat) (r : cres)
| LCancel (c : nat)
| LCallClose | LRetClose
| LQuiesce
(* ---- environment: time ---- *)
| LTick (d : Z)
| TTimerFire
(* ---- internal steps ---- *)
| TRecvItem                     (* rendezvous on c: producer hands its item to the batcher *)
| TProdCancel                   (* producer's select takes <-bgCtx.Done() *)
| TCloseC | TProdDone
| TRecvClosed                   (* batcher: c is closed *)
| TFullEval                     (* Batch: len(batch) >= batchSize *)
| TTimerArm                     (* batcher: case <-timerC *)
| TRecvWaiting (k : nat)        (* rendezvous on out.waiting with consumer k *)
| TFlushSend (k : nat)          (* rendezvous on out.batchC with consumer k *)
| TFlushCancel                  (* flush takes <-bgCtx.Done() *)
| TCloseBatchC | TBatDone
| TConsClosed (k : nat)         (* consumer: batchC is closed *)
| TConsCtx (k : nat)            (* consumer: <-ctx.Done() *)
| TCancelEff (c : nat)
| TBgCancel | TWgWait.

(* ---- helpers ---- *)
Definition getc (s : st) (k : nat) : option consumer := nth_error (cons s) k.
Definition setc (s : st) (k : nat) (p : cpc) : st :=
  match getc s k with
  | Some x => set_cons s (upd (cons s) k (mkC (c_ctx x) p))
  | None => s
  end.
Definition ctx_done (s : st) (c : nat) : bool :=
  match nth_error (ctxs s) c with Some XDone => true | _ => false end.
Definition in_select (p : cpc) : bool := match p with CSel | CInner => true | _ => false end.

(* stopTimer: None = it blocks forever in `<-timerC` (timer stopped/received earlier but timerC not
   nil), or leaves a stale value in the channel (fired, timerC == nil) *)
Definition stop_timer (s : st) : option st :=
  match tmr s with
  | TmNone => Some s                                          (* timer == nil: return *)
  | TmArmed _ => Some (set_tc (set_tmr s TmIdle) false)       (* Stop() = true *)
  | TmFired => if tc s then Some (set_tc (set_tmr s TmIdle) false)   (* Stop() = false; drained *)
               else None
  | TmIdle => if tc s then None else Some (set_tc (set_tmr s TmIdle) false)   (* Stop() = false; timerC = nil *)
  end.

(* startTimer: stopTimer; NewTimer/Reset(maxWait - time.Since(batchStart)); timerC = timer.C.
   The deadline is now + (maxWait - (now - batchStart)) = batchStart + maxWait. *)
Definition start_timer (s : st) : st :=
  match stop_timer s with
  | Some s1 => set_tc (set_tmr s1 (TmArmed (bstart s1 + maxw s1))) true
  | None => set_bpc s BStuck
  end.

(* the code after full(batch) returned r, up to the next blocking point *)
Definition after_full (s : st) (r : bool) : st :=
  if r then
    match stop_timer s with
    | Some s1 => set_bpc s1 (BFlush FCFull)
    | None => set_bpc s BStuck
    end
  else
    match batch s with
    | [_] => let s1 := set_bstart (set_bpc s BLoop) (clock s) in
             if wae s then start_timer s1 else s1
    | _ => set_bpc s BLoop
    end.

Definition stop_on_exit (t : tstate) : tstate :=
  match t with TmArmed _ => TmIdle | _ => t end.

(* ---- the transition function ---- *)
Definition step (s : st) (l : lab) : option st :=
  match l with
  (* controller / environment *)
  | LRelease t => Some (set_srcq s (srcq s ++ [t]))
  | LReleaseFull => Some (set_fulltok s (S (fulltok s)))
  | LCancel c =>
      match nth_error (ctxs s) c with
      | Some XLive => Some (set_ctxs s (upd (ctxs s) c XReq))
      | Some _ => Some s
      | None => None
      end
  | TCancelEff c =>
      match nth_error (ctxs s) c with
      | Some XReq => Some (set_ctxs s (upd (ctxs s) c XDone))
      | _ => None
      end
  | LTick d => if 0 <? d then Some (set_clock s (clock s + d)) else None
  | TTimerFire =>
      match tmr s with
      | TmArmed dl => if dl <=? clock s then Some (set_tmr s TmFired) else None
      | _ => None
      end
  | LQuiesce => None            (* see [qstep] *)
  (* producer *)
  | LSrcNextEnter =>
      match ppc_ s with PStart => Some (set_ppc s PInNext) | _ => None end
  | LSrcNextExit r =>
      match ppc_ s with
      | PInNext =>
          match r, srcq s with
          | RItem v, KItem v' :: q =>
              if v =? v' then Some (set_ppc (set_src (set_srcq s q) (src s ++ [v])) (PSend v)) else None
          | REnd, KEnd :: q =>
              Some (set_ppc (set_srcres (set_srcq s q) (Some REnd)) PCloseC)
          | RErr e, KErr e' :: q =>
              if e =? e'
              then Some (set_ppc (set_perr (set_srcres (set_srcq s q) (Some (RErr e))) (Some e)) PCloseC)
              else None
          | RCanceled, _ =>
              (* the source returns ctx.Err(); err == context.Canceled && bgCtx.Err() == context.Canceled *)
              if bgdone s then Some (set_ppc (set_srcres s (Some RCanceled)) PCloseC) else None
          | _, _ => None
          end
      | _ => None
      end
  | TRecvItem =>
      match ppc_ s, bpc_ s with
      | PSend v, BLoop => Some (set_bpc (set_batch (set_ppc s PStart) (batch s ++ [v])) BFull)
      | _, _ => None
      end
  | TProdCancel =>
      match ppc_ s with
      | PSend v => if bgdone s then Some (set_ppc (set_lostp s (lostp s ++ [v])) PCloseC) else None
      | _ => None
      end
  | TCloseC =>
      match ppc_ s with PCloseC => Some (set_ppc (set_cclosed s true) PSrcClose) | _ => None end
  | LSrcClose =>
      match ppc_ s with PSrcClose => Some (set_ppc (set_nclose s (S (nclose s))) PWg) | _ => None end
  | TProdDone =>
      match ppc_ s with PWg => Some (set_ppc (set_wg s (pred (wg s))) PDone) | _ => None end
  (* batcher *)
  | TRecvClosed =>
      match bpc_ s with
      | BLoop =>
          if cclosed s
          then match batch s with
               | [] => Some (set_bpc s BExit)
               | _ => Some (set_bpc s (BFlush FCEnd))
               end
          else None
      | _ => None
      end
  | TFullEval =>
      match bpc_ s, mode s with
      | BFull, FBatch size => Some (after_full s (size <=? zlen (batch s)))
      | _, _ => None
      end
  | LFullEnter b =>
      match bpc_ s, mode s with
      | BFull, FFunc _ => if list_eqb Z.eqb b (batch s) then Some (set_bpc s BInFull) else None
      | _, _ => None
      end
  | LFullExit r =>
      match bpc_ s, mode s with
      | BInFull, FFunc false => Some (after_full s r)
      | BInFull, FFunc true =>
          match fulltok s with
          | S n => Some (after_full (set_fulltok s n) r)
          | O => None
          end
      | _, _ => None
      end
  | TTimerArm =>
      match bpc_ s, tmr s with
      | BLoop, TmFired =>
          if tc s then Some (set_bpc (set_tc (set_tmr s TmIdle) false) (BFlush FCTimer)) else None
      | _, _ => None
      end
  | TRecvWaiting k =>
      match bpc_ s, getc s k with
      | BLoop, Some x =>
          match c_pc x with
          | CSel =>
              let s1 := set_ann (setc s k CInner) true in
              match batch s with
              | [] => Some (set_wae s1 true)
              | _ => if maxw s <? clock s - bstart s
                     then match stop_timer s1 with            (* stopTimer(); flush() *)
                          | Some s2 => Some (set_bpc s2 (BFlush FCWait))
                          | None => Some (set_bpc s1 BStuck)
                          end
                     else Some (start_timer s1)
              end
          | _ => None
          end
      | _, _ => None
      end
  | TFlushSend k =>
      match bpc_ s, getc s k with
      | BFlush r, Some x =>
          if in_select (c_pc x)
          then let s1 := setc s k (CRet (CBatch (batch s))) in
               let s2 := set_delivered s1 (delivered s ++ [mkD k (batch s) r (clock s) (bstart s) (ann s)]) in
               let s3 := set_ann (set_wae (set_batch s2 []) false) false in
               Some (set_bpc s3 (match r with FCEnd => BExit | _ => BLoop end))
          else None
      | _, _ => None
      end
  | TFlushCancel =>
      match bpc_ s with
      | BFlush _ =>
          if bgdone s
          then Some (set_bpc (set_batch (set_lostb s (lostb s ++ batch s)) []) BExit)
          else None
      | _ => None
      end
  | TCloseBatchC =>
      match bpc_ s with
      | BExit => Some (set_bpc (set_bclosed (set_tmr s (stop_on_exit (tmr s))) true) BWg)
      | _ => None
      end
  | TBatDone =>
      match bpc_ s with BWg => Some (set_bpc (set_wg s (pred (wg s))) BDone) | _ => None end
  (* consumers *)
  | LCallNext k =>
      match getc s k with
      | Some x => match c_pc x with CIdle => Some (setc s k CSel) | _ => None end
      | None => None
      end
  | TConsClosed k =>
      match getc s k with
      | Some x =>
          if in_select (c_pc x) && bclosed s
          then Some (setc s k (CRet (match perr s with Some e => CErr e | None => CEnd end)))
          else None
      | None => None
      end
  | TConsCtx k =>
      match getc s k with
      | Some x =>
          if in_select (c_pc x) && ctx_done s (c_ctx x) then Some (setc s k (CRet CCtx)) else None
      | None => None
      end
  | LRetNext k r =>
      match getc s k with
      | Some x =>
          match c_pc x with
          | CRet r' => if cres_eqb r r' then Some (setc s k (CDone r')) else None
          | _ => None
          end
      | None => None
      end
  (* Close *)
  | LCallClose => match kpc_ s with KIdle => Some (set_kpc s KCalled) | _ => None end
  | TBgCancel => match kpc_ s with KCalled => Some (set_kpc (set_bgdone s true) KWait) | _ => None end
  | TWgWait =>
      match kpc_ s, wg s with
      | KWait, O => Some (set_kpc s KRet)
      | _, _ => None
      end
  | LRetClose => match kpc_ s with KRet => Some (set_kpc s KDone) | _ => None end
  end.

(* ---- the code BEFORE the fix "stop the batch timer when a waiter takes an overdue batch" ----
   Only the branch  time.Since(batchStart) > maxWait  of the `case <-out.waiting` arm differs: it
   called flush() without stopTimer(), so a timer started for this batch by an earlier waiter
   stayed live ([stale] records that).  Used only by C11_old_code_refuted. *)
Definition step_prefix (s : st) (l : lab) : option st :=
  match l with
  | TRecvWaiting k =>
      match bpc_ s, getc s k with
      | BLoop, Some x =>
          match c_pc x with
          | CSel =>
              let s1 := set_ann (setc s k CInner) true in
              match batch s with
              | [] => Some (set_wae s1 true)
              | _ => if maxw s <? clock s - bstart s
                     then Some (set_bpc (set_stale s1 (stale s || tc s)) (BFlush FCWait))
                     else Some (start_timer s1)
              end
          | _ => None
          end
      | _, _ => None
      end
  | _ => step s l
  end.

(* ---- label enumeration ---- *)
(* time: only the two thresholds the code compares the clock with are needed by the matcher *)
Definition tick_labels (s : st) : list lab :=
  (match tmr s with
   | TmArmed d => if clock s <? d then [LTick (d - clock s)] else []
   | _ => []
   end)
  ++ (match batch s, bpc_ s with
      | _ :: _, BLoop =>
          (* time.Since(batchStart) > maxWait is read only when a consumer announces itself *)
          if (clock s <=? bstart s + maxw s)
             && existsb (fun x => match c_pc x with CSel => true | _ => false end) (cons s)
          then [LTick (bstart s + maxw s + 1 - clock s)] else []
      | _, _ => []
      end).

Definition lib_tau_labels (s : st) : list lab :=
  [TTimerFire; TRecvItem; TProdCancel; TCloseC; TProdDone; TRecvClosed; TFullEval; TTimerArm;
   TFlushCancel; TCloseBatchC; TBatDone; TBgCancel; TWgWait]
  ++ flat_map (fun k => [TRecvWaiting k; TFlushSend k; TConsClosed k; TConsCtx k]) (seq 0 (length (cons s)))
  ++ map TCancelEff (seq 0 (length (ctxs s))).

Definition tau_labels (s : st) : list lab := tick_labels s ++ lib_tau_labels s.

(* visible labels that library / harness goroutines (not the controller) can emit *)
Definition lib_visible (s : st) : list lab :=
  [LSrcNextEnter; LSrcNextExit RCanceled; LSrcClose; LFullEnter (batch s); LFullExit true; LFullExit false;
   LRetClose]
  ++ (match srcq s with
      | KItem v :: _ => [LSrcNextExit (RItem v)]
      | KEnd :: _ => [LSrcNextExit REnd]
      | KErr e :: _ => [LSrcNextExit (RErr e)]
      | [] => []
      end)
  ++ flat_map (fun k => match getc s k with
                        | Some x => match c_pc x with CRet r => [LRetNext k r] | _ => [] end
                        | None => []
                        end) (seq 0 (length (cons s))).

Definition enabled (s : st) (l : lab) : bool := match step s l with Some _ => true | None => false end.

Definition timer_armed (s : st) : bool := match tmr s with TmArmed _ => true | _ => false end.

(* nothing can happen without the controller, and no timer is still running: what the harness's
   quiescence detector observes (its pendingTimers covers the armed timer) *)
Definition quiescent (s : st) : bool :=
  negb (existsb (enabled s) (lib_tau_labels s)) && negb (existsb (enabled s) (lib_visible s))
  && negb (timer_armed s).

Definition qstep (s : st) (l : lab) : option st :=
  match l with
  | LQuiesce => if quiescent s then Some s else None
  | _ => step s l
  end.

(* ---- events ---- *)
Definition vis (l : lab) : option lab :=
  match l with
  | LRelease _ | LReleaseFull | LSrcNextEnter | LSrcNextExit _ | LSrcClose | LFullEnter _ | LFullExit _
  | LCallNext _ | LRetNext _ _ | LCancel _ | LCallClose | LRetClose | LQuiesce => Some l
  | _ => None
  end.

Definition lab_eqb (a b : lab) : bool :=
  match a, b with
  | LRelease x, LRelease y => tok_eqb x y
  | LSrcNextExit x, LSrcNextExit y => sres_eqb x y
  | LFullEnter x, LFullEnter y => list_eqb Z.eqb x y
  | LFullExit x, LFullExit y => Bool.eqb x y
  | LCallNext x, LCallNext y | LCancel x, LCancel y => Nat.eqb x y
  | LRetNext x r, LRetNext y q => Nat.eqb x y && cres_eqb r q
  | LReleaseFull, LReleaseFull | LSrcNextEnter, LSrcNextEnter | LSrcClose, LSrcClose
  | LCallClose, LCallClose | LRetClose, LRetClose | LQuiesce, LQuiesce => true
  | _, _ => false
  end.

(* the initial state of a scenario: maxWait, the mode, the context of each consumer call, the
   number of consumer contexts *)
Definition init (mw : Z) (m : fmode) (calls : list nat) (nctx : nat) : st :=
  mkSt mw m
       0 [] O (repeat XLive nctx) false
       PStart None false
       BLoop [] 0 TmNone false false false
       2%nat (map (fun c => mkC c CIdle) calls) KIdle
       [] None [] [] [] O false false.

Definition fuel := 96%nat.

(* ---- the matcher works on a quotient of the state space ----
   [view] forgets what no transition reads: the ghost history fields, the results of finished
   consumer calls, and absolute time (only  clock - batchStart  capped at maxWait+1 while the batch
   is non-empty, and  deadline - clock  floored at 0 while the timer is armed, are ever compared).
   [step] commutes with [view] up to [view] (same enabledness, equivalent successors), so a history
   is producible from [init] by [qstep] iff it is producible by [vstep]; without the quotient the
   state sets double at every timing choice.  [view] also completes a requested context
   cancellation at once (XReq -> XDone): a state with XDone simulates the one with XReq (arms of a
   select are never forced before quiescence, and an XReq state is not quiescent), so acceptance is
   unchanged.  The theorems are about [step]/[qstep], never [vstep]. *)
Definition norm_consumer (x : consumer) : consumer :=
  match c_pc x with CDone _ => mkC (c_ctx x) (CDone CCtx) | _ => x end.

Definition view (s : st) : st :=
  let e := match batch s with [] => 0 | _ => Z.min (clock s - bstart s) (maxw s + 1) end in
  let t := match tmr s with TmArmed d => TmArmed (e + Z.max (d - clock s) 0) | x => x end in
  mkSt (maxw s) (mode s)
       e (srcq s) (fulltok s) (map (fun c => match c with XReq => XDone | _ => c end) (ctxs s)) (bgdone s)
       (ppc_ s) (perr s) (cclosed s)
       (bpc_ s) (batch s) 0 t (tc s) (wae s) (bclosed s)
       (wg s) (map norm_consumer (cons s)) (kpc_ s)
       [] None [] [] [] O false false.

Definition vstep (s : st) (l : lab) : option st :=
  match qstep s l with Some s' => Some (view s') | None => None end.

(* history acceptance: some run of the model produces exactly the recorded events, in order *)
Definition accepts_history (mw : Z) (m : fmode) (calls : list nat) (nctx : nat) (evs : list lab) : bool :=
  accepts vstep vis lab_eqb st_eqb tau_labels (fun _ e => [e]) fuel (init mw m calls nctx) evs.

Definition first_rejected (mw : Z) (m : fmode) (calls : list nat) (nctx : nat) (evs : list lab) : option nat :=
  first_reject vstep vis lab_eqb st_eqb tau_labels (fun _ e => [e]) fuel
               (close vstep vis st_eqb tau_labels fuel [init mw m calls nctx]) evs O.
