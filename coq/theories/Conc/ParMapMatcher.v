(* C14 — the history matchers of Conc/ParMap.v (parallel.MapIterator: module MI; parallel.MapStream:
   module MS).  The correspondence check calls [MI.accepts_history] / [MS.accepts_history]
   (props/parmap_common.py, [chk]): the generic matcher of GoLTS.v run on the REDUCED relation
   [mstep] = [qstep] followed by [canon], with the searched internal labels [tau_labels]
   (eager internal steps, dispatch to the first idle worker only) and [labels_ev].

   Method.  Dropping labels ([tau_labels], [labels_ev]) and merging states can only prune
   (GoLTSProofs.accepts_sound holds for arbitrary label enumerations and state tests), so the only
   reduction that matters for soundness is [canon].  [canon] sorts the worker list: a state of the matcher
   is a state of the model up to a permutation of the workers (relation [R]); [sim_step] /
   [sim_qstep] show that a permutation of the workers is a strong bisimulation of [step] / [qstep]
   that preserves the visible event (worker ids are erased by [vis]); for [LQuiesce] this uses that
   the enumerations inside [quiescent] are exact ([quiescent_spec]).  [sim_run] lifts a run of the
   matcher's relation to a run of the model with the same visible trace.

   MapIterator (module MIM)
   * [mi_accepts_sound] (SOUNDNESS, unconditional): every history accepted by [MI.accepts_history] is
     the visible trace of a run of the unreduced [MI.qstep] from [MI.init].
   * the unreduced matcher [MIM.accepts_full] (generic matcher on [qstep], [tau_all], [labels_ev]) is
     certified in both directions: [mi_full_sound], and [mi_full_complete] / [mi_full_reject_genuine] /
     [mi_full_iff] whenever its closures converged ([MIM.full_converged], executable).
     [mi_reduced_le_full]: what the shipped matcher accepts the unreduced one accepts.
   * NOT proved: completeness of the shipped matcher (no false rejection by [MI.accepts_history]).
     [reject_genuine] cannot be instantiated: [tau_labels] omits enabled internal labels on purpose
     (every non-eager label while an eager one — TCloseIn / TInClosed w / TWorkerDone w — is
     enabled; TDispatch to any idle worker but the first), so [labels_complete] is false for
     [mstep].  Missing: the partial-order argument that an eager label belongs to one thread, is
     that thread's only enabled label, disables no label of another thread and commutes with it (so
     every run can be permuted, without changing its trace, into one that fires eager labels as soon
     as they are enabled; [LQuiesce] is unaffected because it requires that no internal label is
     enabled), and convergence of the closures on the quotient by [R].  The symmetry half is
     available: by [sim_step] a dispatch to any idle worker leads to a state [R]-related to the one
     reached through the first idle worker.  [mi_reduced_le_full] together with [accepts_full] /
     [full_converged] gives an executable cross-check of a rejection on a given history.

   MapStream (module MSM)
   * [MS.canon] ALSO sorts the channel buffer [cbuf] by index.  This is not a symmetry of the model and
     the shipped matcher is UNSOUND for [MS.qstep]: [ms_accepts_sound_refuted] exhibits a
     configuration and a history that [MS.accepts_history] accepts although no run of the model has
     this trace (two workers; item 1 is sent to [c] before item 0, so the consumer must receive
     item 1 to reach item 0 and the second Next finds item 1 in its heap and cannot observe its
     cancelled context; with a sorted buffer the matcher leaves item 1 in [c] and lets the second
     Next return the context error).  The desired statement
        forall c evs, MS.accepts_history fv c evs = true ->
          exists ls s, run (MS.qstep fv) (MS.init c) ls = Some s /\ ms_trace ls = evs
     is therefore false.  (The check can only be too permissive because of this, never raise a false alarm.)
   * [ms_accepts_sound_partial]: what the shipped matcher accepts is the trace of a run of [cstep] =
     [qstep] followed by sorting [cbuf], i.e. of the model in which the channel [c] delivers the
     lowest index first.
   * [MSM.accepts_history_ws]: the shipped matcher with the sorting of [cbuf] removed (same
     [tau_labels], [labels_ev], worker sorting).  [ms_ws_accepts_sound] (SOUNDNESS, unconditional):
     what it accepts is the visible trace of a run of the unreduced [MS.qstep].  It rejects the
     witness above.
   * the unreduced matcher [MSM.accepts_full]: [ms_full_sound], [ms_full_complete],
     [ms_full_reject_genuine], [ms_full_iff] under [MSM.full_converged]; [ms_ws_le_full].
   * NOT proved: completeness of [MS.accepts_history] / [accepts_history_ws], for the same reason as
     for MI (eager labels TCloseIn / TLoop / TPut / TWait / TCloseWait / TInClosed w / TWExit w and
     TDRet / TWRet w of a goroutine that returned nil; first idle worker).  In addition, for the
     eager TWait / TCloseWait one needs that nobody observes the group's context once every
     goroutine has called wg.Done (they turn GLive into GDone ByWait and so disable TParentProp).

   Stdlib only, no axioms. *)
From Juniper Require Import Common.Base Conc.GoLTS Conc.GoLTSProofs Conc.ParMap.
From Juniper Require Conc.CondMatcher.
From Coq Require Import Arith PeanoNat Permutation.
Local Open Scope nat_scope.

(* the value function used by the check (props/parmap_common.py: fv) *)
Definition pm_fx (x : Z) : Z := (x * 3 + 7)%Z.

Lemma perm_nth_upd {A} (l1 l2 : list A) :
  Permutation l1 l2 -> forall w x, nth_error l1 w = Some x ->
  exists w', nth_error l2 w' = Some x /\ forall y, Permutation (upd l1 w y) (upd l2 w' y).
Proof.
  intros Hp. induction Hp as [|a l1 l2 Hp IH|a b l|l1 l2 l3 Hp1 IH1 Hp2 IH2]; intros w x Hn.
  - destruct w; discriminate Hn.
  - destruct w as [|n]; simpl in Hn.
    + exists 0. split; [exact Hn|]. intros y. simpl. apply perm_skip. exact Hp.
    + destruct (IH n x Hn) as [w' [Hn' Hu]]. exists (S w'). split; [exact Hn'|].
      intros y. simpl. apply perm_skip. apply Hu.
  - destruct w as [|[|n]]; simpl in Hn.
    + exists 1. split; [exact Hn|]. intros y. simpl. apply perm_swap.
    + exists 0. split; [exact Hn|]. intros y. simpl. apply perm_swap.
    + exists (S (S n)). split; [exact Hn|]. intros y. simpl. apply perm_swap.
  - destruct (IH1 w x Hn) as [w1 [Hn1 Hu1]]. destruct (IH2 w1 x Hn1) as [w2 [Hn2 Hu2]].
    exists w2. split; [exact Hn2|]. intros y. eapply perm_trans; [apply Hu1 | apply Hu2].
Qed.

Ltac rew_eqns := repeat match goal with H : ?x = ?v |- context [?x] => rewrite H end.


Lemma andl_true_iff (a b : bool) : (if a then b else false) = true <-> a = true /\ b = true.
Proof. destruct a, b; simpl; (split; [intros H | intros [H1 H2]]); try discriminate; auto. Qed.

Lemma list_eqb_spec {A} (eqb : A -> A -> bool) :
  (forall x y, eqb x y = true <-> x = y) ->
  forall a b, list_eqb eqb a b = true <-> a = b.
Proof.
  intros Hspec a. induction a as [|x a IH]; intros [|y b]; simpl.
  - split; reflexivity.
  - split; discriminate.
  - split; discriminate.
  - rewrite andl_true_iff, Hspec, IH. split.
    + intros [Hx Ha]. subst. reflexivity.
    + intros H. inversion H. split; reflexivity.
Qed.

Lemma bool_eqb_spec a b : Bool.eqb a b = true <-> a = b.
Proof. split; [apply Bool.eqb_prop | intros ->; apply Bool.eqb_reflx]. Qed.

Lemma entry_eqb_spec a b : entry_eqb a b = true <-> a = b.
Proof.
  destruct a as [a1 a2], b as [b1 b2]. unfold entry_eqb. simpl.
  rewrite andb_true_iff, Nat.eqb_eq, Z.eqb_eq. split.
  - intros [H1 H2]. subst. reflexivity.
  - intros H. inversion H. split; reflexivity.
Qed.

Lemma optZ_eqb_spec a b : optZ_eqb a b = true <-> a = b.
Proof.
  destruct a as [x|], b as [y|]; simpl; try (split; intros H; try discriminate; reflexivity).
  rewrite Z.eqb_eq. split; [intros ->; reflexivity | intros H; inversion H; reflexivity].
Qed.

Lemma optnat_eqb_spec a b : optnat_eqb a b = true <-> a = b.
Proof.
  destruct a as [x|], b as [y|]; simpl; try (split; intros H; try discriminate; reflexivity).
  rewrite Nat.eqb_eq. split; [intros ->; reflexivity | intros H; inversion H; reflexivity].
Qed.

Module MIM.
Import MI.

Definition setws (s : st) (l : list wpc) : st :=
  mkSt (src s) (buf s) (rel s) (reqs s) (pulled s) (disp s) (inflight s) l (in_closed s) (ndone s)
       (ch_closed s) (heap s) (next s) (cons s) (yielded s).

Definition qcls (l : lab) : bool :=
  match l with LReqNext | LRelease _ | LQuiesce => false | _ => true end.

Ltac prj := cbn [src buf rel reqs pulled disp inflight ws in_closed ndone ch_closed heap next cons yielded].
Ltac prj_in H := cbn [src buf rel reqs pulled disp inflight ws in_closed ndone ch_closed heap next cons yielded] in H.
Ltac unf := unfold step, setws, set_disp, set_cons, set_w, getw; prj.

Section S.
Variable fv : Z -> Z.

Ltac split_all := repeat match goal with |- context [match ?x with _ => _ end] => destruct x eqn:? end.

Ltac nonworker lb l Hlen :=
  let Hs0 := fresh "Hs0" in intros Hs0; exists lb, l; revert Hs0; unf; rewrite <- ?Hlen; split_all;
  intros Hs; try discriminate Hs; inversion Hs; subst; prj; repeat split; try reflexivity; assumption.

Ltac worker mk w Hp Hlen :=
  let Hs0 := fresh "Hs0" in intros Hs0; unfold step, getw in Hs0; prj_in Hs0; revert Hs0;
  let x := fresh "x" in let E := fresh "E" in
  destruct (nth_error _ w) as [x|] eqn:E;
  [ let w' := fresh "w'" in let E' := fresh "E'" in let Hu := fresh "Hu" in
    destruct (perm_nth_upd _ _ Hp _ _ E) as [w' [E' Hu]];
    split_all; intros Hs; try discriminate Hs; inversion Hs; subst;
    exists (mk w'); eexists; unf; rewrite E'; rewrite <- ?Hlen; rew_eqns;
    (split; [reflexivity | split; [apply Hu | split; reflexivity]])
  | split_all; intros Hs; discriminate Hs ].

Lemma sim_step a l lb a' :
  Permutation (ws a) l -> step fv a lb = Some a' ->
  exists lb' l', step fv (setws a l) lb' = Some (setws a' l') /\ Permutation (ws a') l'
                 /\ vis lb' = vis lb /\ qcls lb' = qcls lb.
Proof.
  intros Hp. pose proof (Permutation_length Hp) as Hlen. revert Hp Hlen.
  destruct a as [f1 f2 f3 f4 f5 f6 f7 ws1 f9 f10 f11 f12 f13 f14 f15]. prj. intros Hp Hlen.
  destruct lb as [ |r|w k|w k| |r| |k| | |w| |w|w| |w| ].
  - nonworker LSrcEnter l Hlen.
  - nonworker (LSrcExit r) l Hlen.
  - worker (fun w0 => LFEnter w0 k) w Hp Hlen.
  - worker (fun w0 => LFExit w0 k) w Hp Hlen.
  - nonworker LCallNext l Hlen.
  - nonworker (LRetNext r) l Hlen.
  - nonworker LReqNext l Hlen.
  - nonworker (LRelease k) l Hlen.
  - nonworker LQuiesce l Hlen.
  - nonworker TAcquire l Hlen.
  - worker TDispatch w Hp Hlen.
  - nonworker TCloseIn l Hlen.
  - worker TInClosed w Hp Hlen.
  - worker TWorkerDone w Hp Hlen.
  - nonworker TLoop l Hlen.
  - worker TResult w Hp Hlen.
  - nonworker TChClosed l Hlen.
Qed.

(* ---- label enumerations ---- *)
Lemma getw_lt (s : st) w x : nth_error (ws s) w = Some x -> w < length (ws s).
Proof. intros H. apply nth_error_Some. rewrite H. discriminate. Qed.

Ltac in_list := solve [simpl; repeat (first [left; reflexivity | right])].

Ltac worker_in s w Hs :=
  let x := fresh "x" in let E := fresh "E" in
  unfold step, getw in Hs;
  destruct (nth_error (ws s) w) as [x|] eqn:E;
  [ apply in_or_app; right; apply in_flat_map; exists w;
    split; [apply in_seq; split; [apply Nat.le_0_l | exact (getw_lt s w x E)] | in_list]
  | exfalso; apply Hs; first [reflexivity | destruct (disp s); reflexivity] ].

Lemma tau_all_complete s l : vis l = None -> step fv s l <> None -> In l (tau_all s).
Proof.
  intros Hv Hs. unfold tau_all.
  destruct l as [ |r|w k|w k| |r| |k| | |w| |w|w| |w| ]; simpl in Hv; try discriminate Hv; clear Hv.
  - apply in_or_app; left. in_list.
  - worker_in s w Hs.
  - apply in_or_app; left. in_list.
  - worker_in s w Hs.
  - worker_in s w Hs.
  - apply in_or_app; left. in_list.
  - worker_in s w Hs.
  - apply in_or_app; left. in_list.
Qed.

Lemma lib_visible_complete s l :
  qcls l = true -> vis l <> None -> step fv s l <> None -> In l (lib_visible s).
Proof.
  intros Hq Hv Hs. unfold lib_visible.
  destruct l as [ |r|w k|w k| |r| |k| | |w| |w|w| |w| ]; simpl in Hq, Hv; try discriminate Hq;
    try (exfalso; apply Hv; reflexivity); clear Hq Hv.
  - apply in_or_app; left. in_list.
  - apply in_or_app; left. unfold step in Hs.
    destruct (disp s); try (exfalso; apply Hs; reflexivity).
    destruct (pulled s <? length (src s)).
    + destruct (optnat_eqb r (Some (pulled s))) eqn:E; [|exfalso; apply Hs; reflexivity].
      apply optnat_eqb_spec in E. subst r. in_list.
    + destruct (optnat_eqb r None) eqn:E; [|exfalso; apply Hs; reflexivity].
      apply optnat_eqb_spec in E. subst r. in_list.
  - unfold step, getw in Hs. destruct (nth_error (ws s) w) as [x|] eqn:E; [|exfalso; apply Hs; reflexivity].
    destruct x; try (exfalso; apply Hs; reflexivity).
    destruct (Nat.eqb k k0) eqn:Ek; [|exfalso; apply Hs; reflexivity]. apply Nat.eqb_eq in Ek. subst k0.
    apply in_or_app; right. apply in_or_app; right. apply in_flat_map. exists w.
    split; [apply in_seq; split; [apply Nat.le_0_l | exact (getw_lt s w _ E)] | rewrite E; left; reflexivity].
  - unfold step, getw in Hs. destruct (nth_error (ws s) w) as [x|] eqn:E; [|exfalso; apply Hs; reflexivity].
    destruct x; try (exfalso; apply Hs; reflexivity).
    destruct (Nat.eqb k k0) eqn:Ek; [|exfalso; apply Hs; reflexivity]. apply Nat.eqb_eq in Ek. subst k0.
    apply in_or_app; right. apply in_or_app; right. apply in_flat_map. exists w.
    split; [apply in_seq; split; [apply Nat.le_0_l | exact (getw_lt s w _ E)] | rewrite E; left; reflexivity].
  - apply in_or_app; left. in_list.
  - apply in_or_app; right. apply in_or_app; left. unfold step in Hs.
    destruct (cons s) as [ | | |r']; try (exfalso; apply Hs; reflexivity).
    destruct (optZ_eqb r r') eqn:E; [|exfalso; apply Hs; reflexivity].
    apply optZ_eqb_spec in E. subst r'. left; reflexivity.
Qed.

Lemma in_classes_qcls s l : In l (tau_all s) \/ In l (lib_visible s) -> qcls l = true.
Proof.
  unfold tau_all, lib_visible. intros [H|H].
  - apply in_app_or in H. destruct H as [H|H].
    + simpl in H. repeat (destruct H as [H|H]; [subst l; reflexivity|]). destruct H.
    + apply in_flat_map in H. destruct H as [w [_ H]]. simpl in H.
      repeat (destruct H as [H|H]; [subst l; reflexivity|]). destruct H.
  - apply in_app_or in H. destruct H as [H|H].
    + simpl in H. repeat (destruct H as [H|H]; [subst l; reflexivity|]). destruct H.
    + apply in_app_or in H. destruct H as [H|H].
      * destruct (cons s); simpl in H; try (destruct H as [H|H]; [subst l; reflexivity|]); destruct H.
      * apply in_flat_map in H. destruct H as [w [_ H]].
        destruct (nth_error (ws s) w) as [x|]; [|destruct H].
        destruct x; simpl in H; try (destruct H as [H|H]; [subst l; reflexivity|]); destruct H.
Qed.

(* the enumerations of [quiescent] are exact: a state is quiescent iff no label of a library /
   harness goroutine (everything but the controller's) is enabled *)
Lemma quiescent_spec s : quiescent fv s = true <-> forall l, qcls l = true -> step fv s l = None.
Proof.
  unfold quiescent. rewrite andb_true_iff, !negb_true_iff. split.
  - intros [H1 H2] l Hq. destruct (step fv s l) as [s'|] eqn:E; [exfalso|reflexivity].
    destruct (vis l) as [e|] eqn:Ev.
    + assert (Hin : In l (lib_visible s)).
      { apply lib_visible_complete; [exact Hq | rewrite Ev; discriminate | rewrite E; discriminate]. }
      assert (Hex : existsb (enabled fv s) (lib_visible s) = true).
      { apply existsb_exists. exists l. split; [exact Hin|]. unfold enabled. rewrite E. reflexivity. }
      rewrite Hex in H2. discriminate H2.
    + assert (Hin : In l (tau_all s)).
      { apply tau_all_complete; [exact Ev | rewrite E; discriminate]. }
      assert (Hex : existsb (enabled fv s) (tau_all s) = true).
      { apply existsb_exists. exists l. split; [exact Hin|]. unfold enabled. rewrite E. reflexivity. }
      rewrite Hex in H1. discriminate H1.
  - intros H. split.
    + destruct (existsb (enabled fv s) (tau_all s)) eqn:E; [exfalso|reflexivity].
      apply existsb_exists in E. destruct E as [l [Hin Hen]]. unfold enabled in Hen.
      rewrite (H l (in_classes_qcls s l (or_introl Hin))) in Hen. discriminate Hen.
    + destruct (existsb (enabled fv s) (lib_visible s)) eqn:E; [exfalso|reflexivity].
      apply existsb_exists in E. destruct E as [l [Hin Hen]]. unfold enabled in Hen.
      rewrite (H l (in_classes_qcls s l (or_intror Hin))) in Hen. discriminate Hen.
Qed.

Lemma setws_setws s l1 l2 : setws (setws s l1) l2 = setws s l2.
Proof. reflexivity. Qed.
Lemma setws_id s : setws s (ws s) = s.
Proof. destruct s; reflexivity. Qed.
Lemma ws_setws s l : ws (setws s l) = l.
Proof. reflexivity. Qed.

Lemma quiescent_perm a l :
  Permutation (ws a) l -> quiescent fv a = true -> quiescent fv (setws a l) = true.
Proof.
  intros Hp Hq. apply quiescent_spec. intros lb Hc.
  destruct (step fv (setws a l) lb) as [c'|] eqn:E; [exfalso|reflexivity].
  destruct (sim_step (setws a l) (ws a) lb c' (Permutation_sym Hp) E) as [lb' [l' [Hs' [_ [_ Hq']]]]].
  rewrite setws_setws, setws_id in Hs'.
  rewrite (proj1 (quiescent_spec a) Hq lb') in Hs'; [discriminate Hs'|].
  rewrite Hq'. exact Hc.
Qed.

Lemma vis_quiesce lb : vis lb = Some LQuiesce -> lb = LQuiesce.
Proof. destruct lb; simpl; intros H; try discriminate H; try reflexivity; inversion H. Qed.

Lemma qstep_step s lb : lb <> LQuiesce -> qstep fv s lb = step fv s lb.
Proof. destruct lb; intros H; try reflexivity. exfalso; apply H; reflexivity. Qed.

Lemma sim_qstep a l lb a' :
  Permutation (ws a) l -> qstep fv a lb = Some a' ->
  exists lb' l', qstep fv (setws a l) lb' = Some (setws a' l') /\ Permutation (ws a') l' /\ vis lb' = vis lb.
Proof.
  intros Hp Hs.
  assert (Hd : lb = LQuiesce \/ lb <> LQuiesce) by (destruct lb; (left; reflexivity) || (right; discriminate)).
  destruct Hd as [->|Hne].
  - unfold qstep in Hs. destruct (quiescent fv a) eqn:Q; [|discriminate Hs]. inversion Hs; subst a'.
    exists LQuiesce, l. unfold qstep. rewrite (quiescent_perm a l Hp Q).
    split; [reflexivity|]. split; [exact Hp | reflexivity].
  - rewrite (qstep_step a lb Hne) in Hs.
    destruct (sim_step a l lb a' Hp Hs) as [lb' [l' [Hs' [Hp' [Hv _]]]]].
    exists lb', l'. rewrite qstep_step; [|intros ->; apply Hne; apply vis_quiesce; rewrite <- Hv; reflexivity].
    split; [exact Hs'|]. split; [exact Hp' | exact Hv].
Qed.

(* ---- the matcher's state is the model's state up to a permutation of the workers ---- *)
Definition R (a c : st) : Prop := exists l, Permutation (ws a) l /\ c = setws a l.

Lemma R_refl s : R s s.
Proof. exists (ws s). split; [apply Permutation_refl | symmetry; apply setws_id]. Qed.

Lemma winsert_perm x l : Permutation (winsert x l) (x :: l).
Proof.
  induction l as [|y t IH]; simpl; [apply Permutation_refl|].
  destruct (wle x y); [apply Permutation_refl|].
  eapply perm_trans; [apply perm_skip; exact IH | apply perm_swap].
Qed.

Lemma wsort_perm l : Permutation (wsort l) l.
Proof.
  induction l as [|x t IH]; simpl; [apply perm_nil|].
  eapply perm_trans; [apply winsert_perm | apply perm_skip; exact IH].
Qed.

Lemma canon_setws s : canon s = setws s (wsort (ws s)).
Proof. reflexivity. Qed.

Lemma sim_mstep a c lb a' :
  R a c -> mstep fv a lb = Some a' ->
  exists lb' c', qstep fv c lb' = Some c' /\ R a' c' /\ vis lb' = vis lb.
Proof.
  intros [l [Hp ->]] Hm. unfold mstep in Hm.
  destruct (qstep fv a lb) as [a1|] eqn:E; [|discriminate Hm]. inversion Hm; subst a'.
  destruct (sim_qstep a l lb a1 Hp E) as [lb' [l' [Hs [Hp' Hv]]]].
  exists lb', (setws a1 l'). split; [exact Hs|]. split; [|exact Hv].
  exists l'. split.
  - rewrite canon_setws, ws_setws. eapply perm_trans; [apply wsort_perm | exact Hp'].
  - rewrite canon_setws, setws_setws. reflexivity.
Qed.

Definition mi_trace : list lab -> list lab := trace lab lab vis.

Lemma sim_run : forall ls a c a',
  R a c -> run (mstep fv) a ls = Some a' ->
  exists ls' c', run (qstep fv) c ls' = Some c' /\ R a' c' /\ mi_trace ls' = mi_trace ls.
Proof.
  unfold mi_trace.
  induction ls as [|lb ls IH]; intros a c a' HR Hr.
  - simpl in Hr. inversion Hr; subst a'. exists [], c. split; [reflexivity|]. split; [exact HR | reflexivity].
  - change (run (mstep fv) a (lb :: ls))
      with (match mstep fv a lb with Some s1 => run (mstep fv) s1 ls | None => None end) in Hr.
    destruct (mstep fv a lb) as [a1|] eqn:Em; [|discriminate Hr].
    destruct (sim_mstep a c lb a1 HR Em) as [lb' [c1 [Hs [HR1 Hv]]]].
    destruct (IH a1 c1 a' HR1 Hr) as [ls' [c' [Hr' [HR' Ht']]]].
    exists (lb' :: ls'), c'. split.
    + change (run (qstep fv) c (lb' :: ls'))
        with (match qstep fv c lb' with Some s1 => run (qstep fv) s1 ls' | None => None end).
      rewrite Hs. exact Hr'.
    + split; [exact HR'|].
      change (trace lab lab vis (lb' :: ls'))
        with (match vis lb' with Some e => e :: trace lab lab vis ls' | None => trace lab lab vis ls' end).
      change (trace lab lab vis (lb :: ls))
        with (match vis lb with Some e => e :: trace lab lab vis ls | None => trace lab lab vis ls end).
      rewrite Hv, Ht'. reflexivity.
Qed.

Lemma lab_eqb_sound a b : lab_eqb a b = true -> a = b.
Proof.
  destruct a, b; simpl; intros H; try discriminate H; try reflexivity;
    repeat match goal with
    | H : (_ && _) = true |- _ => apply andb_true_iff in H; destruct H
    | H : Nat.eqb _ _ = true |- _ => apply Nat.eqb_eq in H
    | H : optnat_eqb _ _ = true |- _ => apply optnat_eqb_spec in H
    | H : optZ_eqb _ _ = true |- _ => apply optZ_eqb_spec in H
    end; subst; reflexivity.
Qed.

(* SOUNDNESS of the shipped matcher *)
Theorem mi_accepts_sound g par bufsz items gated evs :
  accepts_history fv g par bufsz items gated evs = true ->
  exists ls s, run (qstep fv) (init g par bufsz items gated) ls = Some s /\ mi_trace ls = evs.
Proof.
  unfold accepts_history. intros H.
  destruct (accepts_sound st lab lab (mstep fv) vis lab_eqb st_eqb (tau_labels fv) labels_ev
              lab_eqb_sound 64 _ evs H) as [ls [s [Hr Ht]]].
  destruct (sim_run ls _ _ s (R_refl _) Hr) as [ls' [c' [Hr' [_ Ht']]]].
  exists ls', c'. split; [exact Hr'|]. rewrite Ht'. exact Ht.
Qed.

(* ---------------------------------------------------------------------- *)
(* the unreduced matcher                                                   *)
(* ---------------------------------------------------------------------- *)
Definition accepts_full (g par bufsz : Z) (items : list Z) (gated : list bool) (evs : list lab) : bool :=
  accepts (qstep fv) vis lab_eqb st_eqb tau_all labels_ev 64 (init g par bufsz items gated) evs.

Definition full_converged (g par bufsz : Z) (items : list Z) (gated : list bool) (evs : list lab) : bool :=
  convergedb st lab lab (qstep fv) vis lab_eqb st_eqb tau_all labels_ev 64 (init g par bufsz items gated) evs.

Lemma dpc_eqb_spec a b : dpc_eqb a b = true <-> a = b.
Proof.
  destruct a, b; simpl; try (split; intros H; try discriminate H; reflexivity);
    rewrite Nat.eqb_eq; (split; [intros ->; reflexivity | intros H; inversion H; reflexivity]).
Qed.

Lemma wpc_eqb_spec a b : wpc_eqb a b = true <-> a = b.
Proof.
  destruct a, b; simpl; try (split; intros H; try discriminate H; reflexivity);
    rewrite ?andb_true_iff, ?Nat.eqb_eq, ?Z.eqb_eq;
    (split; [intros H; decompose [and] H; subst; reflexivity | intros H; inversion H; repeat split; reflexivity]).
Qed.

Lemma cpc_eqb_spec a b : cpc_eqb a b = true <-> a = b.
Proof.
  destruct a, b; simpl; try (split; intros H; try discriminate H; reflexivity).
  rewrite optZ_eqb_spec. split; [intros ->; reflexivity | intros H; inversion H; reflexivity].
Qed.

Theorem mi_st_eqb_spec a b : st_eqb a b = true <-> a = b.
Proof.
  destruct a as [a1 a2 a3 a4 a5 a6 a7 a8 a9 a10 a11 a12 a13 a14 a15],
           b as [b1 b2 b3 b4 b5 b6 b7 b8 b9 b10 b11 b12 b13 b14 b15].
  unfold st_eqb. prj.
  rewrite !andl_true_iff, (list_eqb_spec _ wpc_eqb_spec), dpc_eqb_spec, cpc_eqb_spec,
    (list_eqb_spec _ entry_eqb_spec), !Nat.eqb_eq, !Z.eqb_eq, (list_eqb_spec _ bool_eqb_spec),
    !bool_eqb_spec, !(list_eqb_spec _ Z.eqb_eq).
  split.
  - intros H. decompose [and] H. subst. reflexivity.
  - intros H. inversion H. subst. repeat split; reflexivity.
Qed.

Lemma vis_idem l e : vis l = Some e -> vis e = Some e.
Proof. destruct l; simpl; intros H; try discriminate H; inversion H; reflexivity. Qed.

Lemma lab_eqb_refl_vis a e : vis a = Some e -> lab_eqb a a = true.
Proof.
  destruct a as [ |r|w k|w k| |r| |k| | |w| |w|w| |w| ]; simpl; intros H; try discriminate H;
    rewrite ?Nat.eqb_refl; try reflexivity.
  - apply optnat_eqb_spec; reflexivity.
  - apply optZ_eqb_spec; reflexivity.
Qed.

Definition lab_eqb_tot (a b : lab) : bool :=
  match vis b with Some _ => lab_eqb a b | None => true end.

Lemma lab_eqb_tot_refl a : lab_eqb_tot a a = true.
Proof.
  unfold lab_eqb_tot. destruct (vis a) as [e|] eqn:Ev; [|reflexivity].
  eapply lab_eqb_refl_vis; exact Ev.
Qed.

Lemma lab_eqb_tot_agree (e l e' : lab) : vis l = Some e' -> lab_eqb e e' = lab_eqb_tot e e'.
Proof. intros Hv. unfold lab_eqb_tot. rewrite (vis_idem l e' Hv). reflexivity. Qed.

Lemma qtau_all_complete s l : vis l = None -> qstep fv s l <> None -> In l (tau_all s).
Proof.
  intros Hv Hs. apply tau_all_complete; [exact Hv|].
  rewrite <- qstep_step; [exact Hs|]. intros ->. discriminate Hv.
Qed.

Lemma labels_ev_complete s l e : vis l = Some e -> qstep fv s l <> None -> In l (labels_ev s e).
Proof.
  intros Hv Hs.
  destruct l as [ |r|w k|w k| |r| |k| | |w| |w|w| |w| ]; simpl in Hv; try discriminate Hv;
    inversion Hv; subst e; clear Hv; cbn [labels_ev]; try (left; reflexivity).
  - apply (in_map (fun w0 => LFEnter w0 k) (seq 0 (length (ws s))) w).
    apply in_seq. split; [apply Nat.le_0_l|]. apply nth_error_Some.
    intros E. apply Hs. simpl. unfold getw. rewrite E. reflexivity.
  - apply (in_map (fun w0 => LFExit w0 k) (seq 0 (length (ws s))) w).
    apply in_seq. split; [apply Nat.le_0_l|]. apply nth_error_Some.
    intros E. apply Hs. simpl. unfold getw. rewrite E. reflexivity.
Qed.

Theorem mi_full_sound g par bufsz items gated evs :
  accepts_full g par bufsz items gated evs = true ->
  exists ls s, run (qstep fv) (init g par bufsz items gated) ls = Some s /\ mi_trace ls = evs.
Proof.
  unfold accepts_full, mi_trace.
  apply (accepts_sound st lab lab (qstep fv) vis lab_eqb st_eqb tau_all labels_ev lab_eqb_sound).
Qed.

Lemma full_tot g par bufsz items gated evs :
  accepts_full g par bufsz items gated evs =
  accepts (qstep fv) vis lab_eqb_tot st_eqb tau_all labels_ev 64 (init g par bufsz items gated) evs.
Proof.
  unfold accepts_full.
  apply (CondMatcher.accepts_ext st lab lab (qstep fv) vis lab_eqb lab_eqb_tot st_eqb st_eqb tau_all
           labels_ev (fun _ => True)).
  - intros; exact I.
  - intros; reflexivity.
  - exact lab_eqb_tot_agree.
  - exact I.
Qed.

Lemma full_converged_tot g par bufsz items gated evs :
  full_converged g par bufsz items gated evs =
  convergedb st lab lab (qstep fv) vis lab_eqb_tot st_eqb tau_all labels_ev 64
             (init g par bufsz items gated) evs.
Proof.
  unfold full_converged.
  apply (CondMatcher.convergedb_ext st lab lab (qstep fv) vis lab_eqb lab_eqb_tot st_eqb st_eqb tau_all
           labels_ev (fun _ => True)).
  - intros; exact I.
  - intros; reflexivity.
  - exact lab_eqb_tot_agree.
  - exact I.
Qed.

(* COMPLETENESS of the unreduced matcher when its closures converged *)
Theorem mi_full_complete g par bufsz items gated evs ls s :
  full_converged g par bufsz items gated evs = true ->
  run (qstep fv) (init g par bufsz items gated) ls = Some s -> mi_trace ls = evs ->
  accepts_full g par bufsz items gated evs = true.
Proof.
  rewrite full_converged_tot, full_tot. unfold mi_trace.
  apply (accepts_complete_b st lab lab (qstep fv) vis lab_eqb_tot st_eqb tau_all labels_ev
           mi_st_eqb_spec lab_eqb_tot_refl qtau_all_complete labels_ev_complete).
Qed.

Theorem mi_full_reject_genuine g par bufsz items gated evs :
  full_converged g par bufsz items gated evs = true -> accepts_full g par bufsz items gated evs = false ->
  forall ls s, run (qstep fv) (init g par bufsz items gated) ls = Some s -> mi_trace ls <> evs.
Proof.
  intros Hc Hacc ls s Hr Ht.
  rewrite (mi_full_complete g par bufsz items gated evs ls s Hc Hr Ht) in Hacc. discriminate.
Qed.

Theorem mi_full_iff g par bufsz items gated evs :
  full_converged g par bufsz items gated evs = true ->
  (accepts_full g par bufsz items gated evs = true <->
   exists ls s, run (qstep fv) (init g par bufsz items gated) ls = Some s /\ mi_trace ls = evs).
Proof.
  intros Hc. split.
  - apply mi_full_sound.
  - intros [ls [s [Hr Ht]]]. eapply mi_full_complete; eassumption.
Qed.

(* the reductions only prune *)
Theorem mi_reduced_le_full g par bufsz items gated evs :
  full_converged g par bufsz items gated evs = true ->
  accepts_history fv g par bufsz items gated evs = true -> accepts_full g par bufsz items gated evs = true.
Proof.
  intros Hc Hacc. destruct (mi_accepts_sound g par bufsz items gated evs Hacc) as [ls [s [Hr Ht]]].
  eapply mi_full_complete; eassumption.
Qed.
End S.

(* ---- non-vacuity ---- *)
(* parallelism 2, three items, f held on item 0: item 1 finishes first and waits in the re-order buffer *)
Definition ex_items : list Z := [10; 20; 30]%Z.
Definition ex_gated : list bool := [true; false; false].
Definition ex_hist : list lab :=
  [LReqNext; LCallNext; LSrcEnter; LSrcExit (Some 0); LFEnter 0 0; LSrcEnter; LSrcExit (Some 1); LFEnter 0 1;
   LFExit 0 1; LSrcEnter; LSrcExit (Some 2); LRelease 0; LFExit 0 0; LRetNext (Some 37%Z);
   LReqNext; LCallNext; LRetNext (Some 67%Z); LFEnter 0 2; LFExit 0 2; LSrcEnter; LSrcExit None;
   LReqNext; LCallNext; LRetNext (Some 97%Z); LReqNext; LCallNext; LRetNext None; LQuiesce].

Example ex_accepts :
  accepts_history pm_fx 1 2 0 ex_items ex_gated ex_hist = true /\
  accepts_full pm_fx 1 2 0 ex_items ex_gated ex_hist = true /\
  full_converged pm_fx 1 2 0 ex_items ex_gated ex_hist = true.
Proof. vm_compute. repeat split; reflexivity. Qed.

Example ex_is_trace :
  exists ls s, run (qstep pm_fx) (init 1 2 0 ex_items ex_gated) ls = Some s /\ mi_trace ls = ex_hist.
Proof. apply mi_accepts_sound. exact (proj1 ex_accepts). Qed.

(* Next returns the result of item 1 while item 0 is still held in f: rejected, genuinely *)
Definition ex_bad : list lab :=
  [LReqNext; LCallNext; LSrcEnter; LSrcExit (Some 0); LFEnter 0 0; LSrcEnter; LSrcExit (Some 1); LFEnter 0 1;
   LFExit 0 1; LRetNext (Some 67%Z)].

Example ex_rejects :
  accepts_history pm_fx 1 2 0 ex_items ex_gated ex_bad = false /\
  accepts_full pm_fx 1 2 0 ex_items ex_gated ex_bad = false /\
  full_converged pm_fx 1 2 0 ex_items ex_gated ex_bad = true.
Proof. vm_compute. repeat split; reflexivity. Qed.

Example ex_no_run :
  forall ls s, run (qstep pm_fx) (init 1 2 0 ex_items ex_gated) ls = Some s -> mi_trace ls <> ex_bad.
Proof.
  apply mi_full_reject_genuine; [exact (proj2 (proj2 ex_rejects)) | exact (proj1 (proj2 ex_rejects))].
Qed.
End MIM.

Module MSM.
Import MS.

Definition setws (s : st) (l : list wpc) : st :=
  mkSt (src s) (ferr s) (serr s) (buf s) (fgated s) (sgated s) (frel s) (srel s) (reqs s) (nctx s) (pdone s)
       (g s) (eg_err s) (egdone s) (pulled s) (disp s) (tokens s) l (in_closed s) (ndone s)
       (cbuf s) (c_closed s) (heap s) (next s) (cons s)
       (yielded s) (taken s) (ndisp s) (failed s) (srcfailed s) (close_called s) (src_closed s).

Definition qcls (l : lab) : bool :=
  match l with
  | LReq _ | LReleaseF _ | LReleaseS _ | LCancelParent | LCancelNext _ | LQuiesce => false
  | _ => true
  end.

Ltac prj := cbn [src ferr serr buf fgated sgated frel srel reqs nctx pdone g eg_err egdone pulled disp tokens ws
                 in_closed ndone cbuf c_closed heap next cons yielded taken ndisp failed srcfailed close_called
                 src_closed].
Ltac prj_in H := cbn [src ferr serr buf fgated sgated frel srel reqs nctx pdone g eg_err egdone pulled disp tokens ws
                 in_closed ndone cbuf c_closed heap next cons yielded taken ndisp failed srcfailed close_called
                 src_closed] in H.
Ltac unf := unfold step, setws, set_disp, set_cons, set_w, set_g, set_harness, getw; prj.

Section S.
Variable fv : Z -> Z.

Ltac split_all := repeat match goal with |- context [match ?x with _ => _ end] => destruct x eqn:? end.

Ltac nonworker lb l Hlen :=
  let Hs0 := fresh "Hs0" in intros Hs0; exists lb, l; revert Hs0; unf; rewrite <- ?Hlen; split_all;
  intros Hs; try discriminate Hs; inversion Hs; subst; prj; repeat split; try reflexivity; assumption.

Ltac worker mk w Hp Hlen :=
  let Hs0 := fresh "Hs0" in intros Hs0; unfold step, set_w, getw in Hs0; prj_in Hs0; revert Hs0;
  let x := fresh "x" in let E := fresh "E" in
  destruct (nth_error _ w) as [x|] eqn:E;
  [ let w' := fresh "w'" in let E' := fresh "E'" in let Hu := fresh "Hu" in
    destruct (perm_nth_upd _ _ Hp _ _ E) as [w' [E' Hu]];
    split_all; intros Hs; try discriminate Hs; inversion Hs; subst;
    exists (mk w'); eexists; unf; rewrite E'; rewrite <- ?Hlen; rew_eqns;
    (split; [reflexivity | split; [apply Hu | split; reflexivity]])
  | split_all; intros Hs; discriminate Hs ].

Lemma sim_step a l lb a' :
  Permutation (ws a) l -> step fv a lb = Some a' ->
  exists lb' l', step fv (setws a l) lb' = Some (setws a' l') /\ Permutation (ws a') l'
                 /\ vis lb' = vis lb /\ qcls lb' = qcls lb.
Proof.
  intros Hp. pose proof (Permutation_length Hp) as Hlen. revert Hp Hlen.
  destruct a as [f1 f2 f3 f4 f5 f6 f7 f8 f9 f10 f11 f12 f13 f14 f15 f16 f17 ws1 f19 f20 f21 f22 f23 f24 f25
                 f26 f27 f28 f29 f30 f31 f32]. prj. intros Hp Hlen.
  destruct lb as [ |o| | |w k|w k o|j|r| | |c|k|k| |j| | | |w| | |w|w|w|w|w| | | | | | | | | ].
  - nonworker LSrcEnter l Hlen.
  - nonworker (LSrcExit o) l Hlen.
  - nonworker LSrcCloseEnter l Hlen.
  - nonworker LSrcCloseExit l Hlen.
  - worker (fun w0 => LFEnter w0 k) w Hp Hlen.
  - (destruct o; [worker (fun w0 => LFExit w0 k FoOk) w Hp Hlen | worker (fun w0 => LFExit w0 k FoErr) w Hp Hlen
                | worker (fun w0 => LFExit w0 k FoCtx) w Hp Hlen]).
  - nonworker (LCallNext j) l Hlen.
  - nonworker (LRetNext r) l Hlen.
  - nonworker LCallClose l Hlen.
  - nonworker LRetClose l Hlen.
  - nonworker (LReq c) l Hlen.
  - nonworker (LReleaseF k) l Hlen.
  - nonworker (LReleaseS k) l Hlen.
  - nonworker LCancelParent l Hlen.
  - nonworker (LCancelNext j) l Hlen.
  - nonworker LQuiesce l Hlen.
  - nonworker TDReady l Hlen.
  - nonworker TDCtx l Hlen.
  - worker TDispatch w Hp Hlen.
  - nonworker TCloseIn l Hlen.
  - nonworker TDRet l Hlen.
  - worker TInClosed w Hp Hlen.
  - worker TWSend w Hp Hlen.
  - worker TWCtx w Hp Hlen.
  - worker TWExit w Hp Hlen.
  - worker TWRet w Hp Hlen.
  - nonworker TLoop l Hlen.
  - nonworker TPut l Hlen.
  - nonworker TRecv l Hlen.
  - nonworker TCClosed l Hlen.
  - nonworker TNextCtx l Hlen.
  - nonworker TWait l Hlen.
  - nonworker TCloseCancel l Hlen.
  - nonworker TCloseWait l Hlen.
  - nonworker TParentProp l Hlen.
Qed.

(* ---- label enumerations ---- *)
Lemma getw_lt (s : st) w x : nth_error (ws s) w = Some x -> w < length (ws s).
Proof. intros H. apply nth_error_Some. rewrite H. discriminate. Qed.

Ltac in_list := solve [simpl; repeat (first [left; reflexivity | right])].

Ltac worker_in s w Hs :=
  let x := fresh "x" in let E := fresh "E" in
  unfold step, getw in Hs;
  destruct (nth_error (ws s) w) as [x|] eqn:E;
  [ apply in_or_app; right; apply in_flat_map; exists w;
    split; [apply in_seq; split; [apply Nat.le_0_l | exact (getw_lt s w x E)] | in_list]
  | exfalso; apply Hs; first [reflexivity | destruct (disp s); reflexivity] ].

Lemma tau_all_complete s l : vis l = None -> step fv s l <> None -> In l (tau_all s).
Proof.
  intros Hv Hs. unfold tau_all.
  destruct l as [ |o| | |w k|w k o|j|r| | |c|k|k| |j| | | |w| | |w|w|w|w|w| | | | | | | | | ];
    simpl in Hv; try discriminate Hv; clear Hv;
    try (apply in_or_app; left; in_list); worker_in s w Hs.
Qed.

Lemma cause_eqb_spec a b : cause_eqb a b = true <-> a = b.
Proof. destruct a, b; simpl; split; intros H; try discriminate H; reflexivity. Qed.

Ltac eqb_cases :=
  (split; [intros H; decompose [and] H; subst; reflexivity | intros H; inversion H; repeat split; reflexivity]).

Lemma err_eqb_spec a b : err_eqb a b = true <-> a = b.
Proof.
  destruct a, b; simpl; try (split; intros H; try discriminate H; reflexivity);
    rewrite ?Nat.eqb_eq, ?cause_eqb_spec; eqb_cases.
Qed.

Lemma res_eqb_spec a b : res_eqb a b = true <-> a = b.
Proof.
  destruct a, b; simpl; try (split; intros H; try discriminate H; reflexivity);
    rewrite ?Z.eqb_eq, ?err_eqb_spec; eqb_cases.
Qed.

Lemma sout_eqb_spec a b : sout_eqb a b = true <-> a = b.
Proof.
  destruct a, b; simpl; try (split; intros H; try discriminate H; reflexivity);
    rewrite ?Nat.eqb_eq; eqb_cases.
Qed.

Lemma fout_eqb_spec a b : fout_eqb a b = true <-> a = b.
Proof. destruct a, b; simpl; split; intros H; try discriminate H; reflexivity. Qed.

Lemma creq_eqb_spec a b : creq_eqb a b = true <-> a = b.
Proof.
  destruct a, b; simpl; try (split; intros H; try discriminate H; reflexivity);
    rewrite ?Nat.eqb_eq; eqb_cases.
Qed.

Lemma gstate_eqb_spec a b : gstate_eqb a b = true <-> a = b.
Proof.
  destruct a, b; simpl; try (split; intros H; try discriminate H; reflexivity);
    rewrite ?cause_eqb_spec; eqb_cases.
Qed.

Lemma opterr_eqb_spec a b : opterr_eqb a b = true <-> a = b.
Proof.
  destruct a, b; simpl; try (split; intros H; try discriminate H; reflexivity);
    rewrite ?err_eqb_spec; eqb_cases.
Qed.

Lemma dpc_eqb_spec a b : dpc_eqb a b = true <-> a = b.
Proof.
  destruct a, b; simpl; try (split; intros H; try discriminate H; reflexivity);
    rewrite ?Nat.eqb_eq, ?opterr_eqb_spec; eqb_cases.
Qed.

Lemma wpc_eqb_spec a b : wpc_eqb a b = true <-> a = b.
Proof.
  destruct a, b; simpl; try (split; intros H; try discriminate H; reflexivity);
    rewrite ?andb_true_iff, ?Nat.eqb_eq, ?Z.eqb_eq, ?opterr_eqb_spec; eqb_cases.
Qed.

Lemma cpc_eqb_spec a b : cpc_eqb a b = true <-> a = b.
Proof.
  destruct a, b; simpl; try (split; intros H; try discriminate H; reflexivity);
    rewrite ?andb_true_iff, ?Nat.eqb_eq, ?Z.eqb_eq, ?res_eqb_spec; eqb_cases.
Qed.

Ltac absurd_step Hs := exfalso; apply Hs; reflexivity.

Lemma lib_visible_complete s l :
  qcls l = true -> vis l <> None -> step fv s l <> None -> In l (lib_visible s).
Proof.
  intros Hq Hv Hs. unfold lib_visible.
  destruct l as [ |o| | |w k|w k o|j|r| | |c|k|k| |j| | | |w| | |w|w|w|w|w| | | | | | | | | ];
    simpl in Hq, Hv; try discriminate Hq; try (exfalso; apply Hv; reflexivity); clear Hq Hv;
    try (apply in_or_app; left; in_list).
  - (* LSrcExit *)
    apply in_or_app; left. destruct o as [k| | |]; try in_list.
    unfold step in Hs. destruct (disp s); try absurd_step Hs.
    destruct (Nat.eqb k (pulled s)) eqn:Ek; [|absurd_step Hs].
    apply Nat.eqb_eq in Ek. subst k. in_list.
  - (* LFEnter *)
    unfold step, getw in Hs. destruct (nth_error (ws s) w) as [x|] eqn:E; [|absurd_step Hs].
    destruct x; try absurd_step Hs.
    destruct (Nat.eqb k k0) eqn:Ek; [|absurd_step Hs]. apply Nat.eqb_eq in Ek. subst k0.
    do 3 (apply in_or_app; right). apply in_flat_map. exists w.
    split; [apply in_seq; split; [apply Nat.le_0_l | exact (getw_lt s w _ E)] | rewrite E; left; reflexivity].
  - (* LFExit *)
    unfold step, getw in Hs. destruct (nth_error (ws s) w) as [x|] eqn:E; [|absurd_step Hs].
    destruct x; try absurd_step Hs.
    destruct (Nat.eqb k k0) eqn:Ek; [|absurd_step Hs]. apply Nat.eqb_eq in Ek. subst k0.
    do 3 (apply in_or_app; right). apply in_flat_map. exists w.
    split; [apply in_seq; split; [apply Nat.le_0_l | exact (getw_lt s w _ E)] | rewrite E; destruct o; in_list].
  - (* LCallNext *)
    apply in_or_app; right. apply in_or_app; left. unfold step in Hs.
    destruct (cons s); try absurd_step Hs.
    destruct (reqs s) as [|[j'|] rq]; try absurd_step Hs.
    destruct (Nat.eqb j j') eqn:Ej; [|absurd_step Hs]. apply Nat.eqb_eq in Ej. subst j'. left; reflexivity.
  - (* LRetNext *)
    do 2 (apply in_or_app; right). apply in_or_app; left. unfold step in Hs.
    destruct (cons s) as [ | | | | |r'| | | | ]; try absurd_step Hs.
    destruct (res_eqb r r') eqn:E; [|absurd_step Hs].
    apply res_eqb_spec in E. subst r'. left; reflexivity.
Qed.

Lemma in_classes_qcls s l : In l (tau_all s) \/ In l (lib_visible s) -> qcls l = true.
Proof.
  unfold tau_all, lib_visible. intros [H|H].
  - apply in_app_or in H. destruct H as [H|H].
    + simpl in H. repeat (destruct H as [H|H]; [subst l; reflexivity|]). destruct H.
    + apply in_flat_map in H. destruct H as [w [_ H]]. simpl in H.
      repeat (destruct H as [H|H]; [subst l; reflexivity|]). destruct H.
  - apply in_app_or in H. destruct H as [H|H].
    + simpl in H. repeat (destruct H as [H|H]; [subst l; reflexivity|]). destruct H.
    + apply in_app_or in H. destruct H as [H|H].
      * destruct (reqs s) as [|[j|] rq]; simpl in H; try (destruct H as [H|H]; [subst l; reflexivity|]); destruct H.
      * apply in_app_or in H. destruct H as [H|H].
        -- destruct (cons s); simpl in H; try (destruct H as [H|H]; [subst l; reflexivity|]); destruct H.
        -- apply in_flat_map in H. destruct H as [w [_ H]].
           destruct (nth_error (ws s) w) as [x|]; [|destruct H].
           destruct x; simpl in H; repeat (destruct H as [H|H]; [subst l; reflexivity|]); destruct H.
Qed.

Lemma quiescent_spec s : quiescent fv s = true <-> forall l, qcls l = true -> step fv s l = None.
Proof.
  unfold quiescent. rewrite andb_true_iff, !negb_true_iff. split.
  - intros [H1 H2] l Hq. destruct (step fv s l) as [s'|] eqn:E; [exfalso|reflexivity].
    destruct (vis l) as [e|] eqn:Ev.
    + assert (Hin : In l (lib_visible s)).
      { apply lib_visible_complete; [exact Hq | rewrite Ev; discriminate | rewrite E; discriminate]. }
      assert (Hex : existsb (enabled fv s) (lib_visible s) = true).
      { apply existsb_exists. exists l. split; [exact Hin|]. unfold enabled. rewrite E. reflexivity. }
      rewrite Hex in H2. discriminate H2.
    + assert (Hin : In l (tau_all s)).
      { apply tau_all_complete; [exact Ev | rewrite E; discriminate]. }
      assert (Hex : existsb (enabled fv s) (tau_all s) = true).
      { apply existsb_exists. exists l. split; [exact Hin|]. unfold enabled. rewrite E. reflexivity. }
      rewrite Hex in H1. discriminate H1.
  - intros H. split.
    + destruct (existsb (enabled fv s) (tau_all s)) eqn:E; [exfalso|reflexivity].
      apply existsb_exists in E. destruct E as [l [Hin Hen]]. unfold enabled in Hen.
      rewrite (H l (in_classes_qcls s l (or_introl Hin))) in Hen. discriminate Hen.
    + destruct (existsb (enabled fv s) (lib_visible s)) eqn:E; [exfalso|reflexivity].
      apply existsb_exists in E. destruct E as [l [Hin Hen]]. unfold enabled in Hen.
      rewrite (H l (in_classes_qcls s l (or_intror Hin))) in Hen. discriminate Hen.
Qed.

Lemma setws_setws s l1 l2 : setws (setws s l1) l2 = setws s l2.
Proof. reflexivity. Qed.
Lemma setws_id s : setws s (ws s) = s.
Proof. destruct s; reflexivity. Qed.
Lemma ws_setws s l : ws (setws s l) = l.
Proof. reflexivity. Qed.

Lemma quiescent_perm a l :
  Permutation (ws a) l -> quiescent fv a = true -> quiescent fv (setws a l) = true.
Proof.
  intros Hp Hq. apply quiescent_spec. intros lb Hc.
  destruct (step fv (setws a l) lb) as [c'|] eqn:E; [exfalso|reflexivity].
  destruct (sim_step (setws a l) (ws a) lb c' (Permutation_sym Hp) E) as [lb' [l' [Hs' [_ [_ Hq']]]]].
  rewrite setws_setws, setws_id in Hs'.
  rewrite (proj1 (quiescent_spec a) Hq lb') in Hs'; [discriminate Hs'|].
  rewrite Hq'. exact Hc.
Qed.

Lemma vis_quiesce lb : vis lb = Some LQuiesce -> lb = LQuiesce.
Proof. destruct lb; simpl; intros H; try discriminate H; try reflexivity; inversion H. Qed.

Lemma qstep_step s lb : lb <> LQuiesce -> qstep fv s lb = step fv s lb.
Proof. destruct lb; intros H; try reflexivity. exfalso; apply H; reflexivity. Qed.

Lemma sim_qstep a l lb a' :
  Permutation (ws a) l -> qstep fv a lb = Some a' ->
  exists lb' l', qstep fv (setws a l) lb' = Some (setws a' l') /\ Permutation (ws a') l' /\ vis lb' = vis lb.
Proof.
  intros Hp Hs.
  assert (Hd : lb = LQuiesce \/ lb <> LQuiesce) by (destruct lb; (left; reflexivity) || (right; discriminate)).
  destruct Hd as [->|Hne].
  - unfold qstep in Hs. destruct (quiescent fv a) eqn:Q; [|discriminate Hs]. inversion Hs; subst a'.
    exists LQuiesce, l. unfold qstep. rewrite (quiescent_perm a l Hp Q).
    split; [reflexivity|]. split; [exact Hp | reflexivity].
  - rewrite (qstep_step a lb Hne) in Hs.
    destruct (sim_step a l lb a' Hp Hs) as [lb' [l' [Hs' [Hp' [Hv _]]]]].
    exists lb', l'. rewrite qstep_step; [|intros ->; apply Hne; apply vis_quiesce; rewrite <- Hv; reflexivity].
    split; [exact Hs'|]. split; [exact Hp' | exact Hv].
Qed.

(* ---- the matcher's state is the model's state up to a permutation of the workers ---- *)
Definition R (a c : st) : Prop := exists l, Permutation (ws a) l /\ c = setws a l.

Lemma R_refl s : R s s.
Proof. exists (ws s). split; [apply Permutation_refl | symmetry; apply setws_id]. Qed.

Lemma winsert_perm x l : Permutation (winsert x l) (x :: l).
Proof.
  induction l as [|y t IH]; simpl; [apply Permutation_refl|].
  destruct (wle x y); [apply Permutation_refl|].
  eapply perm_trans; [apply perm_skip; exact IH | apply perm_swap].
Qed.

Lemma wsort_perm l : Permutation (wsort l) l.
Proof.
  induction l as [|x t IH]; simpl; [apply perm_nil|].
  eapply perm_trans; [apply winsert_perm | apply perm_skip; exact IH].
Qed.

Definition ms_trace : list lab -> list lab := trace lab lab vis.

(* a matcher step = a model step, a post-processing [p] of the state that does not involve the workers,
   and the sorting of the workers *)
Section Post.
Variable p : st -> st.
Hypothesis p_setws : forall s l, p (setws s l) = setws (p s) l.

Definition pstep (s : st) (l : lab) : option st :=
  match qstep fv s l with Some s' => Some (p s') | None => None end.
Definition pmstep (s : st) (l : lab) : option st :=
  match qstep fv s l with Some s' => Some (setws (p s') (wsort (ws s'))) | None => None end.

Lemma sim_pmstep a c lb a' :
  R a c -> pmstep a lb = Some a' ->
  exists lb' c', pstep c lb' = Some c' /\ R a' c' /\ vis lb' = vis lb.
Proof.
  intros [l [Hp ->]] Hm. unfold pmstep in Hm.
  destruct (qstep fv a lb) as [a1|] eqn:E; [|discriminate Hm]. inversion Hm; subst a'.
  destruct (sim_qstep a l lb a1 Hp E) as [lb' [l' [Hs [Hp' Hv]]]].
  exists lb', (setws (p a1) l'). split; [unfold pstep; rewrite Hs, p_setws; reflexivity|].
  split; [|exact Hv]. exists l'. split.
  - rewrite ws_setws. eapply perm_trans; [apply wsort_perm | exact Hp'].
  - rewrite setws_setws. reflexivity.
Qed.

Lemma sim_prun : forall ls a c a',
  R a c -> run pmstep a ls = Some a' ->
  exists ls' c', run pstep c ls' = Some c' /\ R a' c' /\ ms_trace ls' = ms_trace ls.
Proof.
  unfold ms_trace.
  induction ls as [|lb ls IH]; intros a c a' HR Hr.
  - simpl in Hr. inversion Hr; subst a'. exists [], c. split; [reflexivity|]. split; [exact HR | reflexivity].
  - change (run pmstep a (lb :: ls))
      with (match pmstep a lb with Some s1 => run pmstep s1 ls | None => None end) in Hr.
    destruct (pmstep a lb) as [a1|] eqn:Em; [|discriminate Hr].
    destruct (sim_pmstep a c lb a1 HR Em) as [lb' [c1 [Hs [HR1 Hv]]]].
    destruct (IH a1 c1 a' HR1 Hr) as [ls' [c' [Hr' [HR' Ht']]]].
    exists (lb' :: ls'), c'. split.
    + change (run pstep c (lb' :: ls'))
        with (match pstep c lb' with Some s1 => run pstep s1 ls' | None => None end).
      rewrite Hs. exact Hr'.
    + split; [exact HR'|].
      change (trace lab lab vis (lb' :: ls'))
        with (match vis lb' with Some e => e :: trace lab lab vis ls' | None => trace lab lab vis ls' end).
      change (trace lab lab vis (lb :: ls))
        with (match vis lb with Some e => e :: trace lab lab vis ls | None => trace lab lab vis ls end).
      rewrite Hv, Ht'. reflexivity.
Qed.
End Post.

Lemma run_ext (f h : st -> lab -> option st) :
  (forall s l, f s l = h s l) -> forall ls s, run f s ls = run h s ls.
Proof.
  intros E. induction ls as [|l ls IH]; intros s; [reflexivity|].
  simpl. rewrite E. destruct (h s l); [apply IH | reflexivity].
Qed.

Lemma lab_eqb_sound a b : lab_eqb a b = true -> a = b.
Proof.
  destruct a, b; simpl; intros H; try discriminate H; try reflexivity;
    repeat match goal with
    | H : (_ && _) = true |- _ => apply andb_true_iff in H; destruct H
    | H : Nat.eqb _ _ = true |- _ => apply Nat.eqb_eq in H
    | H : sout_eqb _ _ = true |- _ => apply sout_eqb_spec in H
    | H : fout_eqb _ _ = true |- _ => apply fout_eqb_spec in H
    | H : res_eqb _ _ = true |- _ => apply res_eqb_spec in H
    | H : creq_eqb _ _ = true |- _ => apply creq_eqb_spec in H
    end; subst; reflexivity.
Qed.

(* ---------------------------------------------------------------------- *)
(* 1a. the shipped matcher: sound for the model whose channel [c] delivers the lowest index first *)
(* ---------------------------------------------------------------------- *)
Definition csort (s : st) : st :=
  mkSt (src s) (ferr s) (serr s) (buf s) (fgated s) (sgated s) (frel s) (srel s) (reqs s) (nctx s) (pdone s)
       (g s) (eg_err s) (egdone s) (pulled s) (disp s) (tokens s) (ws s) (in_closed s) (ndone s)
       (fold_right hpush [] (cbuf s)) (c_closed s) (heap s) (next s) (cons s)
       (yielded s) (taken s) (ndisp s) (failed s) (srcfailed s) (close_called s) (src_closed s).

(* [qstep] followed by sorting the channel buffer by index *)
Definition cstep : st -> lab -> option st := pstep csort.

Lemma mstep_pmstep s l : mstep fv s l = pmstep csort s l.
Proof. unfold mstep, pmstep. destruct (qstep fv s l); reflexivity. Qed.

Theorem ms_accepts_sound_partial c evs :
  accepts_history fv c evs = true ->
  exists ls s, run cstep (init c) ls = Some s /\ ms_trace ls = evs.
Proof.
  unfold accepts_history. intros H.
  destruct (accepts_sound st lab lab (mstep fv) vis lab_eqb st_eqb (tau_labels fv) labels_ev
              lab_eqb_sound 64 _ evs H) as [ls [s [Hr Ht]]].
  rewrite (run_ext _ _ mstep_pmstep) in Hr.
  destruct (sim_prun csort (fun _ _ => eq_refl) ls _ _ s (R_refl _) Hr) as [ls' [c' [Hr' [_ Ht']]]].
  exists ls', c'. split; [exact Hr'|]. rewrite Ht'. exact Ht.
Qed.

(* ---------------------------------------------------------------------- *)
(* 1b. the same matcher without the sorting of the channel buffer: sound for the model *)
(* ---------------------------------------------------------------------- *)
Definition canon_ws (s : st) : st := setws s (wsort (ws s)).
Definition mstep_ws (s : st) (l : lab) : option st :=
  match qstep fv s l with Some s' => Some (canon_ws s') | None => None end.
Definition accepts_history_ws (c : cfg) (evs : list lab) : bool :=
  accepts mstep_ws vis lab_eqb st_eqb (tau_labels fv) labels_ev 64 (init c) evs.

Lemma pstep_id s l : pstep (fun x => x) s l = qstep fv s l.
Proof. unfold pstep. destruct (qstep fv s l); reflexivity. Qed.

Theorem ms_ws_accepts_sound c evs :
  accepts_history_ws c evs = true ->
  exists ls s, run (qstep fv) (init c) ls = Some s /\ ms_trace ls = evs.
Proof.
  unfold accepts_history_ws. intros H.
  destruct (accepts_sound st lab lab mstep_ws vis lab_eqb st_eqb (tau_labels fv) labels_ev
              lab_eqb_sound 64 _ evs H) as [ls [s [Hr Ht]]].
  change mstep_ws with (pmstep (fun x => x)) in Hr.
  destruct (sim_prun (fun x => x) (fun _ _ => eq_refl) ls _ _ s (R_refl _) Hr) as [ls' [c' [Hr' [_ Ht']]]].
  rewrite (run_ext _ _ pstep_id) in Hr'.
  exists ls', c'. split; [exact Hr'|]. rewrite Ht'. exact Ht.
Qed.

(* ---------------------------------------------------------------------- *)
(* 2. the unreduced matcher                                                *)
(* ---------------------------------------------------------------------- *)
Definition accepts_full (c : cfg) (evs : list lab) : bool :=
  accepts (qstep fv) vis lab_eqb st_eqb tau_all labels_ev 64 (init c) evs.
Definition full_converged (c : cfg) (evs : list lab) : bool :=
  convergedb st lab lab (qstep fv) vis lab_eqb st_eqb tau_all labels_ev 64 (init c) evs.

Theorem ms_st_eqb_spec a b : st_eqb a b = true <-> a = b.
Proof.
  destruct a as [a1 a2 a3 a4 a5 a6 a7 a8 a9 a10 a11 a12 a13 a14 a15 a16 a17 a18 a19 a20 a21 a22 a23 a24 a25
                 a26 a27 a28 a29 a30 a31 a32],
           b as [b1 b2 b3 b4 b5 b6 b7 b8 b9 b10 b11 b12 b13 b14 b15 b16 b17 b18 b19 b20 b21 b22 b23 b24 b25
                 b26 b27 b28 b29 b30 b31 b32].
  unfold st_eqb. prj.
  rewrite !andl_true_iff, (list_eqb_spec _ wpc_eqb_spec), dpc_eqb_spec, cpc_eqb_spec,
    !(list_eqb_spec _ entry_eqb_spec), gstate_eqb_spec, opterr_eqb_spec, !Nat.eqb_eq, !bool_eqb_spec,
    (list_eqb_spec _ creq_eqb_spec), !(list_eqb_spec _ bool_eqb_spec), (list_eqb_spec _ Nat.eqb_eq),
    !(list_eqb_spec _ Z.eqb_eq).
  split.
  - intros H. decompose [and] H. subst. reflexivity.
  - intros H. inversion H. subst. repeat split; reflexivity.
Qed.

Lemma canon_res_idem r : canon_res (canon_res r) = canon_res r.
Proof. destruct r as [v| |e|]; try reflexivity. destruct e as [k| |c]; try reflexivity. destruct c; reflexivity. Qed.

Lemma vis_idem l e : vis l = Some e -> vis e = Some e.
Proof.
  destruct l; simpl; intros H; try discriminate H; inversion H; try reflexivity.
  simpl. rewrite canon_res_idem. reflexivity.
Qed.

Lemma lab_eqb_refl_vis a e : vis a = Some e -> lab_eqb a a = true.
Proof.
  destruct a; simpl; intros H; try discriminate H; rewrite ?Nat.eqb_refl; try reflexivity.
  - apply sout_eqb_spec; reflexivity.
  - simpl. apply fout_eqb_spec; reflexivity.
  - apply res_eqb_spec; reflexivity.
  - apply creq_eqb_spec; reflexivity.
Qed.

Definition lab_eqb_tot (a b : lab) : bool :=
  match vis b with Some _ => lab_eqb a b | None => true end.

Lemma lab_eqb_tot_refl a : lab_eqb_tot a a = true.
Proof.
  unfold lab_eqb_tot. destruct (vis a) as [e|] eqn:Ev; [|reflexivity].
  eapply lab_eqb_refl_vis; exact Ev.
Qed.

Lemma lab_eqb_tot_agree (e l e' : lab) : vis l = Some e' -> lab_eqb e e' = lab_eqb_tot e e'.
Proof. intros Hv. unfold lab_eqb_tot. rewrite (vis_idem l e' Hv). reflexivity. Qed.

Lemma qtau_all_complete s l : vis l = None -> qstep fv s l <> None -> In l (tau_all s).
Proof.
  intros Hv Hs. apply tau_all_complete; [exact Hv|].
  rewrite <- qstep_step; [exact Hs|]. intros ->. discriminate Hv.
Qed.

Lemma labels_ev_complete s l e : vis l = Some e -> qstep fv s l <> None -> In l (labels_ev s e).
Proof.
  intros Hv Hs.
  destruct l as [ |o| | |w k|w k o|j|r| | |c|k|k| |j| | | |w| | |w|w|w|w|w| | | | | | | | | ];
    simpl in Hv; try discriminate Hv;
    inversion Hv; subst e; clear Hv; cbn [labels_ev]; try (left; reflexivity).
  - apply (in_map (fun w0 => LFEnter w0 k) (seq 0 (length (ws s))) w).
    apply in_seq. split; [apply Nat.le_0_l|]. apply nth_error_Some.
    intros E. apply Hs. simpl. unfold getw. rewrite E. reflexivity.
  - apply (in_map (fun w0 => LFExit w0 k o) (seq 0 (length (ws s))) w).
    apply in_seq. split; [apply Nat.le_0_l|]. apply nth_error_Some.
    intros E. apply Hs. simpl. unfold getw. rewrite E. reflexivity.
  - destruct r as [v| |e|]; try (left; reflexivity).
    destruct e as [k| |c]; try (left; reflexivity). destruct c; simpl; in_list.
Qed.

Theorem ms_full_sound c evs :
  accepts_full c evs = true ->
  exists ls s, run (qstep fv) (init c) ls = Some s /\ ms_trace ls = evs.
Proof.
  unfold accepts_full, ms_trace.
  apply (accepts_sound st lab lab (qstep fv) vis lab_eqb st_eqb tau_all labels_ev lab_eqb_sound).
Qed.

Lemma full_tot c evs :
  accepts_full c evs = accepts (qstep fv) vis lab_eqb_tot st_eqb tau_all labels_ev 64 (init c) evs.
Proof.
  unfold accepts_full.
  apply (CondMatcher.accepts_ext st lab lab (qstep fv) vis lab_eqb lab_eqb_tot st_eqb st_eqb tau_all
           labels_ev (fun _ => True)).
  - intros; exact I.
  - intros; reflexivity.
  - exact lab_eqb_tot_agree.
  - exact I.
Qed.

Lemma full_converged_tot c evs :
  full_converged c evs =
  convergedb st lab lab (qstep fv) vis lab_eqb_tot st_eqb tau_all labels_ev 64 (init c) evs.
Proof.
  unfold full_converged.
  apply (CondMatcher.convergedb_ext st lab lab (qstep fv) vis lab_eqb lab_eqb_tot st_eqb st_eqb tau_all
           labels_ev (fun _ => True)).
  - intros; exact I.
  - intros; reflexivity.
  - exact lab_eqb_tot_agree.
  - exact I.
Qed.

Theorem ms_full_complete c evs ls s :
  full_converged c evs = true ->
  run (qstep fv) (init c) ls = Some s -> ms_trace ls = evs ->
  accepts_full c evs = true.
Proof.
  rewrite full_converged_tot, full_tot. unfold ms_trace.
  apply (accepts_complete_b st lab lab (qstep fv) vis lab_eqb_tot st_eqb tau_all labels_ev
           ms_st_eqb_spec lab_eqb_tot_refl qtau_all_complete labels_ev_complete).
Qed.

Theorem ms_full_reject_genuine c evs :
  full_converged c evs = true -> accepts_full c evs = false ->
  forall ls s, run (qstep fv) (init c) ls = Some s -> ms_trace ls <> evs.
Proof.
  intros Hc Hacc ls s Hr Ht.
  rewrite (ms_full_complete c evs ls s Hc Hr Ht) in Hacc. discriminate.
Qed.

Theorem ms_full_iff c evs :
  full_converged c evs = true ->
  (accepts_full c evs = true <->
   exists ls s, run (qstep fv) (init c) ls = Some s /\ ms_trace ls = evs).
Proof.
  intros Hc. split.
  - apply ms_full_sound.
  - intros [ls [s [Hr Ht]]]. eapply ms_full_complete; eassumption.
Qed.

Theorem ms_ws_le_full c evs :
  full_converged c evs = true -> accepts_history_ws c evs = true -> accepts_full c evs = true.
Proof.
  intros Hc Hacc. destruct (ms_ws_accepts_sound c evs Hacc) as [ls [s [Hr Ht]]].
  eapply ms_full_complete; eassumption.
Qed.
End S.

(* ---- non-vacuity ---- *)
(* parallelism 2, two items, f fails on item 1: Next yields f(item 0), then the error; Close *)
Definition ex_cfg := mkCfg 1 2 0 [10; 20]%Z [false; true] false [false; false] [false; false; false] 1.
Definition ex_hist : list lab :=
  [LReq (RqNext 0); LCallNext 0; LSrcEnter; LSrcExit (SoItem 0); LFEnter 0 0; LFExit 0 0 FoOk;
   LRetNext (RVal 37%Z); LSrcEnter; LSrcExit (SoItem 1); LFEnter 0 1; LFExit 0 1 FoErr; LSrcEnter;
   LSrcExit SoEnd; LSrcCloseEnter; LSrcCloseExit; LReq (RqNext 0); LCallNext 0; LRetNext (RErr (EF 1));
   LQuiesce; LReq RqClose; LCallClose; LRetClose; LQuiesce].

Example ex_accepts :
  accepts_history pm_fx ex_cfg ex_hist = true /\ accepts_history_ws pm_fx ex_cfg ex_hist = true /\
  accepts_full pm_fx ex_cfg ex_hist = true /\ full_converged pm_fx ex_cfg ex_hist = true.
Proof. vm_compute. repeat split; reflexivity. Qed.

Example ex_is_trace :
  exists ls s, run (qstep pm_fx) (init ex_cfg) ls = Some s /\ ms_trace ls = ex_hist.
Proof. apply ms_ws_accepts_sound. exact (proj1 (proj2 ex_accepts)). Qed.

(* the second Next reports the end of the stream although f failed on item 1: rejected, genuinely *)
Definition ex_bad : list lab :=
  [LReq (RqNext 0); LCallNext 0; LSrcEnter; LSrcExit (SoItem 0); LFEnter 0 0; LFExit 0 0 FoOk;
   LRetNext (RVal 37%Z); LSrcEnter; LSrcExit (SoItem 1); LFEnter 0 1; LFExit 0 1 FoErr; LSrcEnter;
   LSrcExit SoEnd; LSrcCloseEnter; LSrcCloseExit; LReq (RqNext 0); LCallNext 0; LRetNext REnd].

Example ex_rejects :
  accepts_history pm_fx ex_cfg ex_bad = false /\ accepts_history_ws pm_fx ex_cfg ex_bad = false /\
  accepts_full pm_fx ex_cfg ex_bad = false /\ full_converged pm_fx ex_cfg ex_bad = true.
Proof. vm_compute. repeat split; reflexivity. Qed.

Example ex_no_run :
  forall ls s, run (qstep pm_fx) (init ex_cfg) ls = Some s -> ms_trace ls <> ex_bad.
Proof.
  apply ms_full_reject_genuine;
    [exact (proj2 (proj2 (proj2 ex_rejects))) | exact (proj1 (proj2 (proj2 ex_rejects)))].
Qed.

(* ---- the shipped MapStream matcher is not sound for the model ----
   parallelism 2, bufferSize 3, f held on item 0.  Worker B finishes item 1, sends it to [c] and
   starts item 2 (FEnter 2 can only be B's: A is still inside f(item 0)); then item 0 is released and
   sent: c = [1; 0].  The first Next has to receive item 1 before item 0, so after it returned f(item 0)
   item 1 is in the heap and the second Next (whose context is already cancelled) must return
   f(item 1) = 67 in the model and in the Go code.  The matcher sorts c = [0; 1], receives item 0 only,
   and accepts "the second Next returns its context's error". *)
Definition bad_cfg :=
  mkCfg 1 2 3 [10; 20; 30]%Z [false; false; false] false [true; false; false] [false; false; false; false] 2.
Definition bad_hist : list lab :=
  [LSrcEnter; LSrcExit (SoItem 0); LFEnter 0 0; LSrcEnter; LSrcExit (SoItem 1); LFEnter 0 1; LFExit 0 1 FoOk;
   LSrcEnter; LSrcExit (SoItem 2); LFEnter 0 2; LReleaseF 0; LFExit 0 0 FoOk; LReq (RqNext 0); LCallNext 0;
   LRetNext (RVal 37%Z); LCancelNext 1; LReq (RqNext 1); LCallNext 1; LRetNext RCtx].

Example bad_verdicts :
  accepts_history pm_fx bad_cfg bad_hist = true /\ accepts_history_ws pm_fx bad_cfg bad_hist = false /\
  accepts_full pm_fx bad_cfg bad_hist = false /\ full_converged pm_fx bad_cfg bad_hist = true.
Proof. vm_compute. repeat split; reflexivity. Qed.

(* desired:  forall c evs, accepts_history fv c evs = true ->
               exists ls s, run (qstep fv) (init c) ls = Some s /\ ms_trace ls = evs.     REFUTED: *)
Theorem ms_accepts_sound_refuted :
  exists c evs, accepts_history pm_fx c evs = true /\
    forall ls s, run (qstep pm_fx) (init c) ls = Some s -> ms_trace ls <> evs.
Proof.
  exists bad_cfg, bad_hist. split; [exact (proj1 bad_verdicts)|].
  apply ms_full_reject_genuine;
    [exact (proj2 (proj2 (proj2 bad_verdicts))) | exact (proj1 (proj2 (proj2 bad_verdicts)))].
Qed.

(* it is a trace of the model with the lowest-index-first channel *)
Example bad_is_sorted_trace :
  exists ls s, run (cstep pm_fx) (init bad_cfg) ls = Some s /\ ms_trace ls = bad_hist.
Proof. apply ms_accepts_sound_partial. exact (proj1 bad_verdicts). Qed.
End MSM.

Print Assumptions MIM.mi_accepts_sound.
Print Assumptions MIM.mi_full_sound.
Print Assumptions MIM.mi_full_complete.
Print Assumptions MIM.mi_full_reject_genuine.
Print Assumptions MIM.mi_full_iff.
Print Assumptions MIM.mi_reduced_le_full.
Print Assumptions MIM.mi_st_eqb_spec.
Print Assumptions MIM.ex_no_run.
Print Assumptions MSM.ms_accepts_sound_partial.
Print Assumptions MSM.ms_ws_accepts_sound.
Print Assumptions MSM.ms_full_sound.
Print Assumptions MSM.ms_full_complete.
Print Assumptions MSM.ms_full_reject_genuine.
Print Assumptions MSM.ms_full_iff.
Print Assumptions MSM.ms_ws_le_full.
Print Assumptions MSM.ms_st_eqb_spec.
Print Assumptions MSM.ms_accepts_sound_refuted.
