(* C14 -- COMPLETENESS of the reduced history matchers of Conc/ParMap.v (no false rejection):
     MI.accepts_history            (parallel.MapIterator; the function the check calls), and
     MSM.accepts_history_ws        (parallel.MapStream; the sound variant of the shipped matcher, without the
                                    sorting of the channel buffer, which the check uses now).
   Both are the generic matcher of GoLTS.v run on  mstep = qstep followed by sorting the worker list,
   with the reduced enumeration [tau_labels] (if an "eager" internal label is enabled, the FIRST enabled
   one is the only internal label explored; dispatch to the first idle worker only).  Soundness is in
   ParMapMatcher.v; GoLTSProofs.reject_genuine cannot be instantiated ([labels_complete] is false).

   Proved here (stdlib only, no axioms), for ALL configurations, value functions and histories:

     MIC.mi_accepts_complete :  mi_converged fv g par bufsz items gated evs = true ->
        run (MI.qstep fv) (MI.init g par bufsz items gated) ls = Some s -> mi_trace ls = evs ->
        MI.accepts_history fv g par bufsz items gated evs = true
     MIC.mi_reject_genuine   :  mi_converged ... = true -> MI.accepts_history ... = false ->
        forall ls s, run (MI.qstep fv) (MI.init ...) ls = Some s -> mi_trace ls <> evs
     MIC.mi_accepts_iff
     MSC.ms_ws_accepts_complete, MSC.ms_ws_reject_genuine, MSC.ms_ws_accepts_iff : the same for
        MSM.accepts_history_ws / MS.qstep / MS.init c, under  ms_ws_converged fv c evs = true.
   [mi_converged] / [ms_ws_converged] are GoLTSProofs.convergedb on exactly the functions the matcher
   is run with (mstep, tau_labels, labels_ev, lab_eqb, st_eqb, fuel 64): the executable test "every
   closure computed along the history reached its fixpoint within the fuel".

   Method.
   Part 1 ([Section MatcherPOR], generic): completeness of a matcher that (a) normalises states by
   [canon], (b) explores a reduced set of internal labels, under hypotheses about a relation Q between
   model states and matcher states and a class of "eager" labels:
     - Q is reflexive, transitive, contains [canon]; it is a forward simulation for every label (an
       internal model step may be answered by no step: stuttering) and a backward simulation for eager
       steps;
     - [diamond]: an enabled eager step  a  and any other enabled step  l  commute (same state in both
       orders, a stays eager), or  l  is internal and  a  after  l  reaches a state Q-related to  a  alone;
     - eager steps decrease a measure that [canon] preserves;
     - [labels_red]: from a state with an enabled internal step the enumeration contains either an
       enabled eager label or a label leading to a Q-related state.
   [ahead s s'] (s' is reached from s by eager steps, up to Q), [path], [settle], [sim] follow
   GroupMatcher.v, generalised to a directed relation and a normalising matcher.

   Part 2 (MapIterator).  Q = MIM.R (a permutation of the workers; [sim_qstep] is the simulation,
   [eager_sim] the backward one).  Eager labels TCloseIn / TInClosed w / TWorkerDone w: [diamond_*]
   against all 17 labels; the only invariant needed is "[in] closed -> the dispatcher is done" (so that
   TInClosed w does not compete with TDispatch w).  A dispatch to any idle worker is answered by the
   dispatch to the first one ([perm_upd_same_val]).

   Part 3 (MapStream).  Eager labels TCloseIn / TLoop / TPut / TWait / TCloseWait / TInClosed w /
   TWExit w and TDRet / TWRet w of a goroutine that returned nil: [diamond_*] against all 35 labels,
   on states satisfying  good: "[in] closed -> the dispatcher is past close(in)" and
   "egdone = number of goroutines in their final state" (so that TDRet / TWRet never disable TWait /
   TCloseWait).  ONE pair does not commute: TWait / TCloseWait turn the group context from GLive to
   GDone ByWait and so disable TParentProp.  [alldone]: every goroutine has called wg.Done (this is
   the enabling condition of TWait / TCloseWait); then the dispatcher is SDone and every worker TDone
   ([alldone_inv]) and NO label other than TParentProp depends on the group context:
   [step_set_g] (all 35 labels).  Hence Q s s' :=  s' is s up to a permutation of the workers, and, if
   alldone, the context of s' may be an arbitrary cancelled one.  A TParentProp of the model in an
   alldone state is answered by stuttering ([Q_fwd]); quiescence transfers because a cancelled context
   only removes TParentProp ([quiescent_set_g]).

   What remains conditional: completeness is relative to the executable convergence test (fuel 64
   waves per closure); no closed bound "fuel >= number of tau-reachable states" is proved.
   Nothing is claimed about MS.accepts_history (with the sorted channel buffer): it is unsound
   (ParMapMatcher.ms_accepts_sound_refuted). *)
From Juniper Require Import Common.Base Conc.GoLTS Conc.GoLTSProofs Conc.ParMap Conc.ParMapMatcher.
From Coq Require Import Arith PeanoNat Permutation.
Local Open Scope nat_scope.

(* ====================================================================== *)
(* Part 1: completeness of a reduced matcher, generically                  *)
(* ====================================================================== *)
Section MatcherPOR.
  Variables St Lab Ev : Type.
  Variable step : St -> Lab -> option St.          (* the unreduced model (qstep) *)
  Variable vis : Lab -> option Ev.
  Variable ev_eqb : Ev -> Ev -> bool.
  Variable st_eqb : St -> St -> bool.
  Variable canon : St -> St.
  Variable labels : St -> list Lab.                (* the reduced enumeration of internal labels *)
  Variable labels_ev : St -> Ev -> list Lab.
  Variable good : St -> Prop.
  Variable Q : St -> St -> Prop.                   (* model state / matcher state *)
  Variable eager : St -> Lab -> Prop.
  Variable mu : St -> nat.

  Definition mstep (s : St) (l : Lab) : option St :=
    match step s l with Some s' => Some (canon s') | None => None end.

  Hypothesis good_step : forall s l s', good s -> step s l = Some s' -> good s'.
  Hypothesis good_canon : forall s, good s -> good (canon s).
  Hypothesis Q_refl : forall s, Q s s.
  Hypothesis Q_trans : forall a b c, Q a b -> Q b c -> Q a c.
  Hypothesis Q_canon : forall s, Q s (canon s).
  Hypothesis st_eqb_spec : forall a b, st_eqb a b = true <-> a = b.
  Hypothesis ev_eqb_refl_vis : forall l e, vis l = Some e -> ev_eqb e e = true.
  (* forward simulation, possibly stuttering on an internal step *)
  Hypothesis Q_fwd : forall s s' l t, good s -> good s' -> Q s s' -> step s l = Some t ->
    (vis l = None /\ Q t s') \/ (exists l' t', vis l' = vis l /\ step s' l' = Some t' /\ Q t t').
  (* backward simulation for eager steps *)
  Hypothesis Q_bwd_eager : forall s s' a t', good s -> good s' -> Q s s' -> eager s' a -> step s' a = Some t' ->
    exists a' t, eager s a' /\ step s a' = Some t /\ Q t t'.
  Hypothesis eager_vis : forall s a, eager s a -> vis a = None.
  (* an enabled eager step commutes with every other enabled step (or absorbs it, up to Q) *)
  Hypothesis diamond : forall s a s1 l t, good s -> eager s a -> step s a = Some s1 -> step s l = Some t ->
    l = a \/
    (exists u, step s1 l = Some u /\ step t a = Some u /\ eager t a) \/
    (vis l = None /\ exists u, step t a = Some u /\ eager t a /\ Q u s1).
  Hypothesis mu_dec : forall s a s1, eager s a -> step s a = Some s1 -> mu s1 < mu s.
  Hypothesis mu_canon : forall s, mu (canon s) = mu s.
  (* what the reduced enumeration explores from a state with an enabled internal step *)
  Hypothesis labels_red : forall s l t, good s -> vis l = None -> step s l = Some t ->
    (exists a0 s1, In a0 (labels s) /\ eager s a0 /\ step s a0 = Some s1) \/
    (exists l0 t0, In l0 (labels s) /\ vis l0 = None /\ step s l0 = Some t0 /\ Q t t0).
  Hypothesis labels_ev_complete :
    forall s l e, vis l = Some e -> step s l <> None -> In l (labels_ev s e).

  Local Notation rsucc_tau := (GoLTS.succ_tau St Lab mstep Ev vis labels).
  Local Notation rsucc_ev := (GoLTS.succ_ev St Lab mstep Ev vis ev_eqb labels_ev).
  Local Notation rclose := (GoLTS.close mstep vis st_eqb labels).
  Local Notation rstates_after := (GoLTS.states_after mstep vis ev_eqb st_eqb labels labels_ev).
  Local Notation raccepts := (GoLTS.accepts mstep vis ev_eqb st_eqb labels labels_ev).
  Local Notation run := (GoLTS.run step).
  Local Notation trace := (GoLTSProofs.trace Lab Ev vis).

  (* "s' is ahead of s": s' is reached from s by eager steps, up to Q *)
  Inductive ahead : St -> St -> Prop :=
  | ah_base s s' : Q s s' -> ahead s s'
  | ah_step s a s1 s' : eager s a -> step s a = Some s1 -> ahead s1 s' -> ahead s s'.

  Lemma ahead_refl s : ahead s s.
  Proof. apply ah_base. apply Q_refl. Qed.

  Lemma ahead_Q_r s s' : ahead s s' -> forall s'', Q s' s'' -> ahead s s''.
  Proof.
    induction 1 as [s s' Hq | s a s1 s' He Hs Hah IH]; intros s'' Hq2.
    - apply ah_base. eapply Q_trans; eassumption.
    - eapply ah_step; [exact He | exact Hs | apply IH; exact Hq2].
  Qed.

  Lemma ahead_Q_l u' t : ahead u' t -> forall u, good u -> good u' -> Q u u' -> ahead u t.
  Proof.
    induction 1 as [s s' Hq | s a s1 s' He Hs Hah IH]; intros u Hgu Hgs Hq0.
    - apply ah_base. eapply Q_trans; eassumption.
    - destruct (Q_bwd_eager u s a s1 Hgu Hgs Hq0 He Hs) as [a' [u1 [He' [Hs' Hq1]]]].
      apply (ah_step u a' u1 s' He' Hs').
      apply IH; [exact (good_step u a' u1 Hgu Hs') | exact (good_step s a s1 Hgs Hs) | exact Hq1].
  Qed.

  Lemma ahead_trans s s' : ahead s s' -> forall s'', good s -> good s' -> ahead s' s'' -> ahead s s''.
  Proof.
    induction 1 as [s s' Hq | s a s1 s' He Hs Hah IH]; intros s'' Hg Hg' Hah2.
    - exact (ahead_Q_l s' s'' Hah2 s Hg Hg' Hq).
    - apply (ah_step s a s1 s'' He Hs). apply IH; [exact (good_step s a s1 Hg Hs) | exact Hg' | exact Hah2].
  Qed.

  (* one step of the model against a state that is ahead *)
  Lemma path s s' : ahead s s' -> good s -> good s' ->
    forall l t, step s l = Some t ->
      (vis l = None /\ ahead t s') \/ (exists l' t', vis l' = vis l /\ step s' l' = Some t' /\ ahead t t').
  Proof.
    induction 1 as [s s' Hq | s a s1 s' He Hs Hah IH]; intros Hg Hg' l t Hst.
    - destruct (Q_fwd s s' l t Hg Hg' Hq Hst) as [[Hv Hq']|[l' [t' [Hv [Hs' Hq']]]]].
      + left. split; [exact Hv | apply ah_base; exact Hq'].
      + right. exists l', t'. split; [exact Hv|]. split; [exact Hs' | apply ah_base; exact Hq'].
    - assert (Hg1 : good s1) by (exact (good_step s a s1 Hg Hs)).
      assert (Hgt : good t) by (exact (good_step s l t Hg Hst)).
      destruct (diamond s a s1 l t Hg He Hs Hst) as [->|[[u [Hu1 [Hu2 Het]]]|[Hv [u [Hu2 [Het Hqu]]]]]].
      + left. split; [eapply eager_vis; exact He|]. rewrite Hs in Hst. inversion Hst; subst t. exact Hah.
      + destruct (IH Hg1 Hg' l u Hu1) as [[Hv Hau]|[l' [t' [Hv [Hs' Hau]]]]].
        * left. split; [exact Hv | exact (ah_step t a u s' Het Hu2 Hau)].
        * right. exists l', t'. split; [exact Hv|]. split; [exact Hs' | exact (ah_step t a u t' Het Hu2 Hau)].
      + left. split; [exact Hv|]. apply (ah_step t a u s' Het Hu2).
        apply (ahead_Q_l s1 s' Hah u); [exact (good_step t a u Hgt Hu2) | exact Hg1 | exact Hqu].
  Qed.

  Definition red_closed (S : list St) : Prop :=
    forall s s', In s S -> In s' (rsucc_tau s) -> In s' S.

  Fixpoint red_along (fuel : nat) (ss : list St) (evs : list Ev) : Prop :=
    match evs with
    | [] => True
    | e :: evs' =>
        let ss' := rclose fuel (flat_map (rsucc_ev e) ss) in
        red_closed ss' /\ red_along fuel ss' evs'
    end.

  Lemma tau_closedb_red S :
    tau_closedb St Lab Ev mstep vis st_eqb labels S = true -> red_closed S.
  Proof.
    unfold tau_closedb, red_closed. intros Hb s s' Hs Hs'.
    rewrite forallb_forall in Hb. specialize (Hb s Hs). rewrite forallb_forall in Hb.
    apply (mem_true_iff St st_eqb st_eqb_spec). apply Hb. exact Hs'.
  Qed.

  Lemma closed_alongb_red fuel evs : forall ss,
    closed_alongb St Lab Ev mstep vis ev_eqb st_eqb labels labels_ev fuel ss evs = true ->
    red_along fuel ss evs.
  Proof.
    induction evs as [|e evs IH]; intros ss Hb; simpl in *; [exact I|].
    apply andb_true_iff in Hb. destruct Hb as [Hb1 Hb2].
    split; [apply tau_closedb_red; exact Hb1 | apply IH; exact Hb2].
  Qed.

  Lemma in_rsucc_tau s l t : In l (labels s) -> vis l = None -> step s l = Some t -> In (canon t) (rsucc_tau s).
  Proof.
    intros Hin Hv Hs. apply (succ_tau_complete St Lab Ev mstep vis labels s l (canon t) Hin Hv).
    unfold mstep. rewrite Hs. reflexivity.
  Qed.

  (* a model step from a state of a reduced-closed set lands (up to [ahead]) in the set *)
  Lemma settle (S : list St) (HS : red_closed S) : forall n s' l t',
    mu s' < n -> good s' -> In s' S -> step s' l = Some t' -> vis l = None ->
    exists t'', In t'' S /\ ahead t' t''.
  Proof.
    induction n as [|n IH]; intros s' l t' Hmu Hg Hin Hst Hv; [lia|].
    destruct (labels_red s' l t' Hg Hv Hst) as [[a0 [s1 [Hl0 [He Hs1]]]]|[l0 [t0 [Hl0 [Hv0 [Hs0 Hq0]]]]]].
    - assert (Hva : vis a0 = None) by (eapply eager_vis; exact He).
      assert (Hin1 : In (canon s1) S) by (apply (HS s' _ Hin); eapply in_rsucc_tau; eassumption).
      assert (Hg1 : good s1) by (exact (good_step s' a0 s1 Hg Hs1)).
      assert (Hgt : good t') by (exact (good_step s' l t' Hg Hst)).
      destruct (diamond s' a0 s1 l t' Hg He Hs1 Hst) as [->|[[u [Hu1 [Hu2 Het]]]|[_ [u [Hu2 [Het Hqu]]]]]].
      + exists (canon s1). split; [exact Hin1|]. rewrite Hs1 in Hst. inversion Hst; subst t'.
        apply ah_base. apply Q_canon.
      + assert (Hgu : good u) by (exact (good_step t' a0 u Hgt Hu2)).
        destruct (Q_fwd s1 (canon s1) l u Hg1 (good_canon s1 Hg1) (Q_canon s1) Hu1)
          as [[_ Hq']|[l' [u' [Hv' [Hs' Hq']]]]].
        * exists (canon s1). split; [exact Hin1|]. apply (ah_step t' a0 u _ Het Hu2). apply ah_base. exact Hq'.
        * pose proof (mu_dec s' a0 s1 He Hs1) as Hdec.
          destruct (IH (canon s1) l' u') as [t'' [Hin'' Hah]];
            [rewrite mu_canon; lia | apply good_canon; exact Hg1 | exact Hin1 | exact Hs' | rewrite Hv'; exact Hv |].
          exists t''. split; [exact Hin''|]. apply (ah_step t' a0 u _ Het Hu2).
          apply (ahead_Q_l u' t'' Hah u Hgu); [|exact Hq'].
          eapply good_step; [apply good_canon; exact Hg1 | exact Hs'].
      + exists (canon s1). split; [exact Hin1|]. apply (ah_step t' a0 u _ Het Hu2). apply ah_base.
        eapply Q_trans; [exact Hqu | apply Q_canon].
    - exists (canon t0). split.
      + apply (HS s' _ Hin). eapply in_rsucc_tau; eassumption.
      + apply ah_base. eapply Q_trans; [exact Hq0 | apply Q_canon].
  Qed.

  Lemma good_mstep s l s' : good s -> mstep s l = Some s' -> good s'.
  Proof.
    unfold mstep. intros Hg Hm. destruct (step s l) as [s1|] eqn:E; [|discriminate Hm].
    inversion Hm; subst s'. apply good_canon. exact (good_step s l s1 Hg E).
  Qed.

  Lemma good_succ_tau s s' : good s -> In s' (rsucc_tau s) -> good s'.
  Proof.
    intros Hg Hin. destruct (in_succ_tau St Lab Ev mstep vis labels s s' Hin) as [l [_ Hq]].
    eapply good_mstep; eassumption.
  Qed.

  Lemma good_close fuel ss : (forall x, In x ss -> good x) -> forall x, In x (rclose fuel ss) -> good x.
  Proof.
    intros Hss. apply (close_inv St Lab Ev mstep vis st_eqb labels good good_succ_tau fuel ss Hss).
  Qed.

  Lemma good_succ_ev e ss : (forall x, In x ss -> good x) ->
    forall x, In x (flat_map (rsucc_ev e) ss) -> good x.
  Proof.
    intros Hss x Hx. apply in_flat_map in Hx. destruct Hx as [s [Hs Hx]].
    unfold GoLTS.succ_ev in Hx. apply in_flat_map in Hx. destruct Hx as [l [_ Hl]].
    destruct (vis l) as [e'|]; [|destruct Hl].
    destruct (ev_eqb e e'); [|destruct Hl].
    destruct (mstep s l) as [s1|] eqn:Es; [|destruct Hl].
    destruct Hl as [Hl|[]]. subst s1. eapply good_mstep; [apply Hss; exact Hs | exact Es].
  Qed.

  (* the simulation: the reduced state sets always contain a state ahead of the model's *)
  Lemma sim fuel ls : forall evs ss s s' sf,
    red_closed ss -> red_along fuel ss evs -> (forall x, In x ss -> good x) ->
    good s -> In s' ss -> ahead s s' ->
    run s ls = Some sf -> trace ls = evs ->
    rstates_after fuel ss evs <> [].
  Proof.
    induction ls as [|l ls IH]; intros evs ss s s' sf Hc Hal Hgs Hg Hin Hah Hr Ht.
    - simpl in Ht. subst evs. simpl. intros E. rewrite E in Hin. destruct Hin.
    - simpl in Hr. destruct (step s l) as [t|] eqn:Hq; [|discriminate Hr].
      assert (Hgt : good t) by (exact (good_step s l t Hg Hq)).
      simpl in Ht.
      destruct (path s s' Hah Hg (Hgs s' Hin) l t Hq) as [[Hv Hat]|[l' [t' [Hv' [Hq' Hat]]]]].
      + rewrite Hv in Ht. apply (IH evs ss t s' sf); assumption.
      + destruct (vis l) as [e|] eqn:Hv.
        * subst evs. simpl in Hal. destruct Hal as [Hc' Hal']. simpl.
          assert (Hin' : In (canon t') (rclose fuel (flat_map (rsucc_ev e) ss))).
          { apply (close_incl St Lab Ev mstep vis st_eqb labels st_eqb_spec).
            apply in_flat_map. exists s'. split; [exact Hin|].
            unfold GoLTS.succ_ev. apply in_flat_map. exists l'. split.
            - apply labels_ev_complete; [exact Hv' | rewrite Hq'; discriminate].
            - rewrite Hv', (ev_eqb_refl_vis l' e Hv'). unfold mstep. rewrite Hq'. left; reflexivity. }
          apply (IH _ _ t (canon t') sf); try assumption.
          -- apply good_close. apply good_succ_ev. exact Hgs.
          -- apply (ahead_Q_r t t' Hat). apply Q_canon.
          -- reflexivity.
        * destruct (settle ss Hc (S (mu s')) s' l' t') as [t'' [Hin'' Hat']];
            [lia | apply Hgs; exact Hin | exact Hin | exact Hq' | exact Hv' |].
          apply (IH evs ss t t'' sf); try assumption.
          apply (ahead_trans t t' Hat t'' Hgt); [|exact Hat'].
          eapply good_step; [apply Hgs; exact Hin | exact Hq'].
  Qed.

  (* COMPLETENESS of the reduced matcher when its closures converged *)
  Theorem por_accepts_complete fuel init evs ls s :
    good init ->
    convergedb St Lab Ev mstep vis ev_eqb st_eqb labels labels_ev fuel init evs = true ->
    run init ls = Some s -> trace ls = evs -> raccepts fuel init evs = true.
  Proof.
    intros Hgi Hconv Hr Ht. unfold convergedb in Hconv.
    apply andb_true_iff in Hconv. destruct Hconv as [Hb1 Hb2].
    unfold GoLTS.accepts.
    rewrite (first_reject_complete St Lab Ev mstep vis ev_eqb st_eqb labels labels_ev
               fuel evs (rclose fuel [init]) 0); [reflexivity|].
    apply (sim fuel ls evs (rclose fuel [init]) init init s).
    - apply tau_closedb_red. exact Hb1.
    - apply closed_alongb_red. exact Hb2.
    - apply good_close. intros x [<-|[]]. exact Hgi.
    - exact Hgi.
    - apply close_init.
    - apply ahead_refl.
    - exact Hr.
    - exact Ht.
  Qed.
End MatcherPOR.

(* ====================================================================== *)
(* shared list lemmas                                                      *)
(* ====================================================================== *)
Lemma upd_comm {A} (l : list A) n m x y : n <> m -> upd (upd l n x) m y = upd (upd l m y) n x.
Proof.
  revert n m; induction l as [|h t IH]; intros [|n] [|m] H; simpl; auto; try congruence.
  rewrite IH; [reflexivity | congruence].
Qed.

Fixpoint msum {A} (m : A -> nat) (l : list A) : nat :=
  match l with [] => 0 | x :: t => m x + msum m t end.

Lemma msum_upd {A} (m : A -> nat) l n x y :
  nth_error l n = Some y -> msum m (upd l n x) + m y = msum m l + m x.
Proof.
  revert n; induction l as [|h t IH]; intros [|n] H; simpl in *; try discriminate.
  - inversion H; subst. lia.
  - specialize (IH n H). lia.
Qed.

Lemma msum_perm {A} (m : A -> nat) l l' : Permutation l l' -> msum m l = msum m l'.
Proof. induction 1; simpl; lia. Qed.

Lemma perm_upd_head {A} (x y : A) : forall t j, nth_error t j = Some x -> Permutation (y :: t) (x :: upd t j y).
Proof.
  induction t as [|h t IH]; intros [|j] H; simpl in H; try discriminate.
  - inversion H; subst. simpl. apply perm_swap.
  - simpl. eapply perm_trans; [apply perm_swap|].
    eapply perm_trans; [apply perm_skip; apply (IH j H) | apply perm_swap].
Qed.

Lemma perm_upd_same_val {A} (x y : A) : forall l w w0,
  nth_error l w = Some x -> nth_error l w0 = Some x -> Permutation (upd l w y) (upd l w0 y).
Proof.
  induction l as [|h t IH]; intros [|w] [|w0] H H0; simpl in H, H0; try discriminate; simpl.
  - apply Permutation_refl.
  - inversion H; subst h. apply perm_upd_head. exact H0.
  - inversion H0; subst h. apply Permutation_sym. apply perm_upd_head. exact H.
  - apply perm_skip. apply IH; assumption.
Qed.

Lemma nth_lt_len {A} (l : list A) n x : nth_error l n = Some x -> n < length l.
Proof. intros H. apply nth_error_Some. congruence. Qed.

Lemma nth_upd_same_some {A} (l : list A) n x y : nth_error l n = Some y -> nth_error (upd l n x) n = Some x.
Proof. intros H. apply nth_error_upd_same. eapply nth_lt_len; exact H. Qed.

(* ====================================================================== *)
(* Part 2: MapIterator                                                     *)
(* ====================================================================== *)
Module MIC.
Import MI MIM.

Ltac dstepH H :=
  repeat match type of H with
         | match ?e with _ => _ end = Some _ =>
             let E := fresh "E" in destruct e eqn:E; try discriminate H
         end.

(* the relation between a model state and a matcher state: a permutation of the workers *)
Lemma R_sym a c : R a c -> R c a.
Proof.
  intros [l [Hp ->]]. exists (ws a). split.
  - rewrite ws_setws. apply Permutation_sym. exact Hp.
  - rewrite setws_setws, setws_id. reflexivity.
Qed.

Lemma R_trans a b c : R a b -> R b c -> R a c.
Proof.
  intros [l [Hp ->]] [l' [Hp' ->]]. exists l'. split.
  - rewrite ws_setws in Hp'. eapply perm_trans; eassumption.
  - rewrite setws_setws. reflexivity.
Qed.

Lemma R_canon s : R s (canon s).
Proof. exists (wsort (ws s)). split; [apply Permutation_sym; apply wsort_perm | apply canon_setws]. Qed.

(* invariant: once [in] is closed the dispatcher is done *)
Definition good (s : st) : Prop := in_closed s = true -> disp s = DDone.

Definition eager (a : lab) : Prop :=
  match a with TCloseIn | TInClosed _ | TWorkerDone _ => True | _ => False end.

Definition mu_w (x : wpc) : nat := match x with WIdle => 2 | WExit => 1 | _ => 0 end.
Definition mu (s : st) : nat := match disp s with DCloseIn => 1 | _ => 0 end + msum mu_w (ws s).

Section S.
Variable fv : Z -> Z.

Lemma good_init g par bufsz items gated : good (init g par bufsz items gated).
Proof. unfold good, init. prj. discriminate. Qed.

Lemma good_step s l s' : good s -> step fv s l = Some s' -> good s'.
Proof.
  intros Hg Hs. destruct s as [f1 f2 f3 f4 f5 d f7 ws1 ic f10 f11 f12 f13 f14 f15].
  unfold good in *. prj_in Hg. unfold step, getw, set_disp, set_w, set_cons in Hs. prj_in Hs.
  destruct l; dstepH Hs; inversion Hs; subst s'; prj; intros Hic;
    try (specialize (Hg Hic)); try congruence; try discriminate; try reflexivity.
  rewrite Hg. reflexivity.
Qed.

Lemma good_qstep s l s' : good s -> qstep fv s l = Some s' -> good s'.
Proof.
  intros Hg Hs. destruct l; try (exact (good_step s _ s' Hg Hs)).
  unfold qstep in Hs. destruct (quiescent fv s); [|discriminate Hs]. inversion Hs; subst s'. exact Hg.
Qed.

Lemma good_setws s l : good s -> good (setws s l).
Proof. intros H. exact H. Qed.

Lemma good_canon s : good s -> good (canon s).
Proof. intros H. exact H. Qed.


Lemma eager_sim a l lb a' :
  Permutation (ws a) l -> eager lb -> step fv a lb = Some a' ->
  exists lb' l', eager lb' /\ step fv (setws a l) lb' = Some (setws a' l') /\ Permutation (ws a') l'.
Proof.
  intros Hp He Hs. pose proof (Permutation_length Hp) as Hlen.
  destruct a as [f1 f2 f3 f4 f5 d f7 ws1 ic f10 f11 f12 f13 f14 f15]. prj_in Hp. prj_in Hlen.
  destruct lb; simpl in He; try contradiction; unfold step, getw, set_w in Hs; prj_in Hs.
  - dstepH Hs. inversion Hs; subst a'. exists TCloseIn, l. unf.
    split; [exact I|]. split; [reflexivity | exact Hp].
  - destruct (nth_error ws1 w) as [x|] eqn:E; [|discriminate Hs].
    destruct (perm_nth_upd _ _ Hp _ _ E) as [w' [E' Hu]].
    dstepH Hs. inversion Hs; subst a'. exists (TInClosed w'). eexists. unf. rewrite E'.
    split; [exact I|]. split; [reflexivity | apply Hu].
  - destruct (nth_error ws1 w) as [x|] eqn:E; [|discriminate Hs].
    destruct (perm_nth_upd _ _ Hp _ _ E) as [w' [E' Hu]].
    dstepH Hs. inversion Hs; subst a'. exists (TWorkerDone w'). eexists. unf. rewrite E', <- Hlen.
    split; [exact I|]. split; [reflexivity | apply Hu].
Qed.

Lemma mu_dec s a s1 : eager a -> step fv s a = Some s1 -> mu s1 < mu s.
Proof.
  intros He Hs. destruct s as [f1 f2 f3 f4 f5 d f7 ws1 ic f10 f11 f12 f13 f14 f15].
  destruct a; simpl in He; try contradiction; unfold step, getw, set_w in Hs; prj_in Hs; dstepH Hs;
    inversion Hs; subst s1; unfold mu; prj;
    try (match goal with E : nth_error _ ?w = Some ?y |- context [upd _ ?w ?x] =>
           pose proof (msum_upd mu_w _ w x y E) as Hu; simpl in Hu end); try lia.
Qed.

Lemma mu_canon s : mu (canon s) = mu s.
Proof. unfold mu, canon. prj. rewrite (msum_perm mu_w _ _ (wsort_perm (ws s))). reflexivity. Qed.

Lemma eager_vis a : eager a -> vis a = None.
Proof. destruct a; simpl; intros H; try contradiction; reflexivity. Qed.

Lemma eager_qstep s a : eager a -> qstep fv s a = step fv s a.
Proof. destruct a; simpl; intros H; try contradiction; reflexivity. Qed.

Lemma eager_qcls a : eager a -> qcls a = true.
Proof. destruct a; simpl; intros H; try contradiction; reflexivity. Qed.

Lemma eager_not_quiescent s a s1 : eager a -> step fv s a = Some s1 -> quiescent fv s = false.
Proof.
  intros He Hs. destruct (quiescent fv s) eqn:Q; [|reflexivity].
  rewrite (proj1 (quiescent_spec fv s) Q a (eager_qcls a He)) in Hs. discriminate Hs.
Qed.


(* ---- an enabled eager step commutes with every other enabled step ---- *)
Ltac fin_fields :=
  apply f_equal; rewrite ?upd_length; f_equal; try reflexivity; try (apply upd_comm; congruence).

Ltac windex Hl w :=
  match type of Hl with
  | context [nth_error _ ?w0] =>
      lazymatch w0 with
      | w => fail
      | _ => destruct (Nat.eq_dec w0 w) as [->|Hne]
      end
  end.

Lemma diamond_TCloseIn s s1 l t :
  step fv s TCloseIn = Some s1 -> step fv s l = Some t ->
  l = TCloseIn \/ exists u, step fv s1 l = Some u /\ step fv t TCloseIn = Some u.
Proof.
  intros Ha Hl. destruct s as [f1 f2 f3 f4 f5 d f7 ws1 ic f10 f11 f12 f13 f14 f15].
  unfold step in Ha; prj_in Ha. dstepH Ha. inversion Ha; subst s1; clear Ha.
  destruct l; unfold step, getw, set_disp, set_w, set_cons in Hl |- *; prj_in Hl; prj;
    try discriminate Hl; try (left; reflexivity);
    dstepH Hl; inversion Hl; subst t; clear Hl; right; eexists; (split; [reflexivity|]); prj; reflexivity.
Qed.


Ltac upd_other :=
  repeat match goal with
         | H : ?a <> ?b |- context [nth_error (upd _ ?b _) ?a] => rewrite (nth_error_upd_other _ b a _ (not_eq_sym H))
         | H : ?a <> ?b |- context [nth_error (upd _ ?a _) ?b] => rewrite (nth_error_upd_other _ a b _ H)
         end.
Ltac wcase Hl E w :=
  try (windex Hl w; [ rewrite E in Hl; try discriminate Hl | upd_other ]).

Lemma diamond_TInClosed s w s1 l t :
  good s -> step fv s (TInClosed w) = Some s1 -> step fv s l = Some t ->
  l = TInClosed w \/ exists u, step fv s1 l = Some u /\ step fv t (TInClosed w) = Some u.
Proof.
  intros Hg Ha Hl. destruct s as [f1 f2 f3 f4 f5 d f7 ws1 ic f10 f11 f12 f13 f14 f15].
  unfold step, getw, set_w in Ha; prj_in Ha. dstepH Ha. inversion Ha; subst s1; clear Ha.
  unfold good in Hg; prj_in Hg. specialize (Hg eq_refl). subst d.
  destruct l; unfold step, getw, set_disp, set_w, set_cons in Hl |- *; prj_in Hl; prj;
    try discriminate Hl; wcase Hl E w; try (left; reflexivity);
    dstepH Hl; inversion Hl; subst t; clear Hl; right; eexists; (split; [reflexivity|]); prj;
    upd_other; rewrite ?E; try reflexivity; fin_fields.
Qed.

Lemma diamond_TWorkerDone s w s1 l t :
  step fv s (TWorkerDone w) = Some s1 -> step fv s l = Some t ->
  l = TWorkerDone w \/ exists u, step fv s1 l = Some u /\ step fv t (TWorkerDone w) = Some u.
Proof.
  intros Ha Hl. destruct s as [f1 f2 f3 f4 f5 d f7 ws1 ic f10 f11 f12 f13 f14 f15].
  unfold step, getw, set_w in Ha; prj_in Ha. dstepH Ha. inversion Ha; subst s1; clear Ha.
  destruct l; unfold step, getw, set_disp, set_w, set_cons in Hl |- *; prj_in Hl; prj;
    try discriminate Hl; wcase Hl E w; try (left; reflexivity);
    dstepH Hl; inversion Hl; subst t; clear Hl; right; eexists; (split; [reflexivity|]); prj;
    upd_other; rewrite ?E; try reflexivity; fin_fields.
Qed.


Lemma diamond s a s1 l t :
  good s -> eager a -> qstep fv s a = Some s1 -> qstep fv s l = Some t ->
  l = a \/
  (exists u, qstep fv s1 l = Some u /\ qstep fv t a = Some u /\ eager a) \/
  (vis l = None /\ exists u, qstep fv t a = Some u /\ eager a /\ R u s1).
Proof.
  intros Hg He Ha Hl. rewrite (eager_qstep s a He) in Ha.
  assert (Hd : l = LQuiesce \/ l <> LQuiesce) by (destruct l; (left; reflexivity) || (right; discriminate)).
  destruct Hd as [->|Hnq].
  { simpl in Hl. rewrite (eager_not_quiescent s a s1 He Ha) in Hl. discriminate Hl. }
  rewrite (qstep_step fv s l Hnq) in Hl.
  assert (Hc : l = a \/ exists u, step fv s1 l = Some u /\ step fv t a = Some u).
  { destruct a; simpl in He; try contradiction.
    - exact (diamond_TCloseIn s s1 l t Ha Hl).
    - exact (diamond_TInClosed s w s1 l t Hg Ha Hl).
    - exact (diamond_TWorkerDone s w s1 l t Ha Hl). }
  destruct Hc as [->|[u [Hu1 Hu2]]]; [left; reflexivity|].
  right. left. exists u. rewrite (qstep_step fv s1 l Hnq), (eager_qstep t a He).
  split; [exact Hu1|]. split; [exact Hu2 | exact He].
Qed.

(* ---- the reduced enumeration ---- *)
Lemma in_eager_labels s a : In a (eager_labels s) -> eager a.
Proof.
  unfold eager_labels. intros [<-|Hin]; [exact I|].
  apply in_flat_map in Hin. destruct Hin as [w [_ H]]. simpl in H.
  destruct H as [<-|[<-|[]]]; exact I.
Qed.

Lemma first_idle_spec : forall l i w, nth_error l w = Some WIdle ->
  exists w0, first_idle l i = [i + w0] /\ nth_error l w0 = Some WIdle.
Proof.
  induction l as [|x t IH]; intros i w H; [destruct w; discriminate H|].
  assert (Hx : x = WIdle \/ x <> WIdle) by (destruct x; (left; reflexivity) || (right; discriminate)).
  destruct Hx as [->|Hx].
  - exists 0. rewrite Nat.add_0_r. split; reflexivity.
  - destruct w as [|w]; simpl in H; [inversion H; contradiction|].
    destruct (IH (S i) w H) as [w0 [Hf Hn]]. exists (S w0).
    replace (i + S w0) with (S i + w0) by lia. split; [|exact Hn].
    destruct x; try exact Hf. contradiction Hx; reflexivity.
Qed.

Ltac in_list := solve [simpl; repeat (first [left; reflexivity | right])].

Lemma labels_red s l t :
  good s -> vis l = None -> qstep fv s l = Some t ->
  (exists a0 s1, In a0 (tau_labels fv s) /\ eager a0 /\ qstep fv s a0 = Some s1) \/
  (exists l0 t0, In l0 (tau_labels fv s) /\ vis l0 = None /\ qstep fv s l0 = Some t0 /\ R t t0).
Proof.
  intros Hg Hv Hst. unfold tau_labels.
  destruct (filter (enabled fv s) (eager_labels s)) as [|a0 rest] eqn:Ef.
  - right.
    assert (Hno : forall a, In a (eager_labels s) -> step fv s a = None).
    { intros a Hin. destruct (step fv s a) as [x|] eqn:Es; [exfalso|reflexivity].
      assert (Hf : In a (filter (enabled fv s) (eager_labels s))).
      { apply filter_In. split; [exact Hin | unfold enabled; rewrite Es; reflexivity]. }
      rewrite Ef in Hf. destruct Hf. }
    assert (Hw : forall w x, nth_error (ws s) w = Some x -> In w (seq 0 (length (ws s)))).
    { intros w x E. apply in_seq. split; [apply Nat.le_0_l | exact (getw_lt s w x E)]. }
    destruct l; simpl in Hv; try discriminate Hv; clear Hv; cbv beta iota delta [qstep] in Hst.
    + exists TAcquire, t. split; [in_list|]. split; [reflexivity|]. split; [exact Hst | apply R_refl].
    + (* TDispatch *)
      unfold step, getw in Hst. destruct (disp s) as [ | |k|k|k| | ] eqn:Ed; try discriminate Hst.
      destruct (nth_error (ws s) w) as [x|] eqn:E; [|discriminate Hst].
      destruct x; try discriminate Hst. inversion Hst; subst t; clear Hst.
      destruct (first_idle_spec (ws s) 0 w E) as [w0 [Hf E0]]. simpl in Hf.
      exists (TDispatch w0). eexists. split.
      { apply in_or_app; right. apply in_or_app; left. rewrite Hf. left; reflexivity. }
      split; [reflexivity|]. split.
      { simpl. unfold getw. rewrite Ed, E0. reflexivity. }
      exists (upd (ws s) w0 (WHas k)). split.
      * unfold set_disp, set_w. prj. apply perm_upd_same_val with (x := WIdle); assumption.
      * reflexivity.
    + exfalso. rewrite (Hno TCloseIn) in Hst; [discriminate Hst | left; reflexivity].
    + exfalso. unfold step, getw in Hst. destruct (nth_error (ws s) w) as [x|] eqn:E; [|discriminate Hst].
      assert (Hin : In (TInClosed w) (eager_labels s)).
      { right. apply in_flat_map. exists w. split; [exact (Hw w x E) | in_list]. }
      pose proof (Hno _ Hin) as Hn. unfold step, getw in Hn. rewrite E in Hn. rewrite Hn in Hst. discriminate Hst.
    + exfalso. unfold step, getw in Hst. destruct (nth_error (ws s) w) as [x|] eqn:E; [|discriminate Hst].
      assert (Hin : In (TWorkerDone w) (eager_labels s)).
      { right. apply in_flat_map. exists w. split; [exact (Hw w x E) | in_list]. }
      pose proof (Hno _ Hin) as Hn. unfold step, getw in Hn. rewrite E in Hn. rewrite Hn in Hst. discriminate Hst.
    + exists TLoop, t. split; [in_list|]. split; [reflexivity|]. split; [exact Hst | apply R_refl].
    + exists (TResult w), t. split.
      { apply in_or_app; right. apply in_or_app; right. apply in_map.
        unfold step, getw in Hst. destruct (nth_error (ws s) w) as [x|] eqn:E; [exact (Hw w x E) | discriminate Hst]. }
      split; [reflexivity|]. split; [exact Hst | apply R_refl].
    + exists TChClosed, t. split; [in_list|]. split; [reflexivity|]. split; [exact Hst | apply R_refl].
  - left.
    assert (Hf : In a0 (filter (enabled fv s) (eager_labels s))) by (rewrite Ef; left; reflexivity).
    apply filter_In in Hf. destruct Hf as [Hin Hen].
    pose proof (in_eager_labels s a0 Hin) as He.
    unfold enabled in Hen. destruct (step fv s a0) as [s1|] eqn:Es; [|discriminate Hen].
    exists a0, s1. split; [left; reflexivity|]. split; [exact He|]. rewrite (eager_qstep s a0 He). exact Es.
Qed.

(* ---- simulations ---- *)
Lemma Q_fwd s s' l t :
  good s -> good s' -> R s s' -> qstep fv s l = Some t ->
  (vis l = None /\ R t s') \/ (exists l' t', vis l' = vis l /\ qstep fv s' l' = Some t' /\ R t t').
Proof.
  intros _ _ [l0 [Hp ->]] Hst. right.
  destruct (sim_qstep fv s l0 l t Hp Hst) as [lb' [l' [Hs' [Hp' Hv]]]].
  exists lb', (setws t l'). split; [exact Hv|]. split; [exact Hs'|]. exists l'. split; [exact Hp' | reflexivity].
Qed.

Lemma Q_bwd_eager s s' a t' :
  good s -> good s' -> R s s' -> eager a -> qstep fv s' a = Some t' ->
  exists a' t, eager a' /\ qstep fv s a' = Some t /\ R t t'.
Proof.
  intros _ _ HR He Hst. rewrite (eager_qstep s' a He) in Hst.
  apply R_sym in HR. destruct HR as [l0 [Hp ->]].
  destruct (eager_sim s' l0 a t' Hp He Hst) as [a' [l' [He' [Hs' Hp']]]].
  exists a', (setws t' l'). split; [exact He'|]. rewrite (eager_qstep _ a' He'). split; [exact Hs'|].
  apply R_sym. exists l'. split; [exact Hp' | reflexivity].
Qed.

Definition mi_converged (g par bufsz : Z) (items : list Z) (gated : list bool) (evs : list lab) : bool :=
  convergedb st lab lab (MI.mstep fv) vis lab_eqb st_eqb (tau_labels fv) labels_ev 64
             (init g par bufsz items gated) evs.

(* COMPLETENESS of the shipped matcher of MapIterator *)
Theorem mi_accepts_complete g par bufsz items gated evs ls s :
  mi_converged g par bufsz items gated evs = true ->
  run (qstep fv) (init g par bufsz items gated) ls = Some s -> mi_trace ls = evs ->
  accepts_history fv g par bufsz items gated evs = true.
Proof.
  intros Hc Hr Ht.
  apply (por_accepts_complete st lab lab (qstep fv) vis lab_eqb st_eqb canon (tau_labels fv) labels_ev
           good R (fun _ a => eager a) mu
           good_qstep good_canon R_refl R_trans R_canon mi_st_eqb_spec
           (fun l e H => lab_eqb_refl_vis e e (vis_idem l e H))
           Q_fwd Q_bwd_eager (fun _ a => eager_vis a) diamond
           (fun s a s1 He Hs => mu_dec s a s1 He (eq_trans (eq_sym (eager_qstep s a He)) Hs))
           mu_canon labels_red (labels_ev_complete fv)
           64 (init g par bufsz items gated) evs ls s (good_init g par bufsz items gated) Hc Hr Ht).
Qed.

Theorem mi_reject_genuine g par bufsz items gated evs :
  mi_converged g par bufsz items gated evs = true ->
  accepts_history fv g par bufsz items gated evs = false ->
  forall ls s, run (qstep fv) (init g par bufsz items gated) ls = Some s -> mi_trace ls <> evs.
Proof.
  intros Hc Hacc ls s Hr Ht.
  rewrite (mi_accepts_complete g par bufsz items gated evs ls s Hc Hr Ht) in Hacc. discriminate.
Qed.

Theorem mi_accepts_iff g par bufsz items gated evs :
  mi_converged g par bufsz items gated evs = true ->
  (accepts_history fv g par bufsz items gated evs = true <->
   exists ls s, run (qstep fv) (init g par bufsz items gated) ls = Some s /\ mi_trace ls = evs).
Proof.
  intros Hc. split.
  - apply mi_accepts_sound.
  - intros [ls [s [Hr Ht]]]. eapply mi_accepts_complete; eassumption.
Qed.

End S.

(* ---- non-vacuity ---- *)
Example ex_mi_accepts :
  accepts_history pm_fx 1 2 0 ex_items ex_gated ex_hist = true /\
  mi_converged pm_fx 1 2 0 ex_items ex_gated ex_hist = true.
Proof. vm_compute. split; reflexivity. Qed.

(* the rejection of the SHIPPED matcher is genuine *)
Example ex_mi_rejects :
  accepts_history pm_fx 1 2 0 ex_items ex_gated ex_bad = false /\
  mi_converged pm_fx 1 2 0 ex_items ex_gated ex_bad = true.
Proof. vm_compute. split; reflexivity. Qed.

Example ex_mi_no_run :
  forall ls s, run (qstep pm_fx) (init 1 2 0 ex_items ex_gated) ls = Some s -> mi_trace ls <> ex_bad.
Proof. apply mi_reject_genuine; [exact (proj2 ex_mi_rejects) | exact (proj1 ex_mi_rejects)]. Qed.

(* the hypotheses of the commutation lemmas are satisfiable: a worker leaving its loop and the consumer *)
Example ex_mi_diamond :
  exists s s1 t u, reachable (qstep pm_fx) (init 1 2 0 [] []) s /\ good s /\
    step pm_fx s (TInClosed 1) = Some s1 /\ step pm_fx s (TInClosed 0) = Some t /\
    step pm_fx s1 (TInClosed 0) = Some u /\ step pm_fx t (TInClosed 1) = Some u.
Proof.
  destruct (run (qstep pm_fx) (init 1 2 0 [] []) [LSrcEnter; LSrcExit None; TCloseIn]) as [s|] eqn:E;
    [|vm_compute in E; discriminate E].
  assert (Hre : reachable (qstep pm_fx) (init 1 2 0 [] []) s) by (eexists; exact E).
  vm_compute in E. inversion E; subst s.
  do 4 eexists. split; [exact Hre|]. split; [intros _; reflexivity|]. repeat split; vm_compute; reflexivity.
Qed.
End MIC.

(* ====================================================================== *)
(* Part 3: MapStream                                                       *)
(* ====================================================================== *)
Module MSC.
Import MS MSM.

Ltac dstepH H :=
  repeat match type of H with
         | match ?e with _ => _ end = Some _ =>
             let E := fresh "E" in destruct e eqn:E; try discriminate H
         end.

Definition wfin (x : wpc) : nat := match x with TDone => 1 | _ => 0 end.
Definition ddone (d : dpc) : nat := match d with SDone => 1 | _ => 0 end.
Definition dpast (d : dpc) : Prop :=
  match d with SCloseSrc _ | SInClose _ | SRet _ | SDone => True | _ => False end.

(* invariants: once [in] is closed the dispatcher is past close(in); egdone counts the goroutines
   that have called wg.Done *)
Definition good (s : st) : Prop :=
  (in_closed s = true -> dpast (disp s)) /\ egdone s = msum wfin (ws s) + ddone (disp s).

(* every goroutine of the errgroup has called wg.Done *)
Definition alldone (s : st) : Prop := egdone s = S (length (ws s)).

Definition eager (s : st) (a : lab) : Prop :=
  match a with
  | TCloseIn | TLoop | TPut | TWait | TCloseWait | TInClosed _ | TWExit _ => True
  | TDRet => disp s = SRet None
  | TWRet w => nth_error (ws s) w = Some (TRet None)
  | _ => False
  end.

Definition mu_w (x : wpc) : nat := match x with TIdle => 3 | TExit _ => 2 | TRet _ => 1 | _ => 0 end.
Definition mu_d (d : dpc) : nat := match d with SCloseIn _ | SRet _ => 1 | _ => 0 end.
Definition mu_c (c : cpc) : nat := match c with KLoop _ => 2 | KPut _ _ | KWait | KClose2 => 1 | _ => 0 end.
Definition mu (s : st) : nat := mu_d (disp s) + mu_c (cons s) + msum mu_w (ws s).

Lemma msum_le_length {A} (m : A -> nat) l : (forall x, m x <= 1) -> msum m l <= length l.
Proof. intros H. induction l as [|h t IH]; simpl; [lia|]. specialize (H h). lia. Qed.

Lemma msum_full {A} (m : A -> nat) l :
  (forall x, m x <= 1) -> msum m l = length l -> forall w x, nth_error l w = Some x -> m x = 1.
Proof.
  intros Hm. induction l as [|h t IH]; intros H w x Hx; [destruct w; discriminate|].
  simpl in H. pose proof (msum_le_length m t Hm) as Hle. pose proof (Hm h) as Hh.
  destruct w as [|w]; simpl in Hx.
  - inversion Hx; subst. lia.
  - apply (IH ltac:(lia) w x Hx).
Qed.

Lemma wfin_le1 x : wfin x <= 1.
Proof. destruct x; simpl; lia. Qed.

Lemma alldone_inv s : good s -> alldone s ->
  disp s = SDone /\ forall w x, nth_error (ws s) w = Some x -> x = TDone.
Proof.
  intros [_ Hg] Ha. unfold alldone in Ha. rewrite Ha in Hg.
  pose proof (msum_le_length wfin (ws s) wfin_le1) as Hle.
  assert (Hd : ddone (disp s) <= 1) by (destruct (disp s); simpl; lia).
  split.
  - destruct (disp s); simpl in Hg; try lia. reflexivity.
  - intros w x Hx. assert (Hm : msum wfin (ws s) = length (ws s)) by lia.
    pose proof (msum_full wfin (ws s) wfin_le1 Hm w x Hx) as H1. destruct x; simpl in H1; try lia. reflexivity.
Qed.

Section S.
Variable fv : Z -> Z.

Lemma good_init c : good (init c).
Proof.
  unfold good, init. prj. split; [discriminate|]. simpl.
  generalize (Z.to_nat (norm_par (c_gomaxprocs c) (c_par c))). intros n.
  induction n as [|n IH]; simpl; [reflexivity | exact IH].
Qed.

Ltac msum_facts :=
  repeat match goal with
         | E : nth_error ?l ?w = Some ?y |- context [msum wfin (upd ?l ?w ?x)] =>
             lazymatch goal with
             | _ : msum wfin (upd l w x) + _ = _ |- _ => fail
             | _ => let U := fresh "U" in pose proof (msum_upd wfin l w x y E) as U; cbn [wfin] in U
             end
         end.

Lemma good_step s l s' : good s -> step fv s l = Some s' -> good s'.
Proof.
  intros [Hg1 Hg2] Hs.
  destruct s as [f1 f2 f3 f4 f5 f6 f7 f8 f9 f10 f11 gs ee ed f15 d tk ws1 ic f20 f21 f22 f23 f24 f25
                 f26 f27 f28 f29 f30 f31 f32].
  prj_in Hg1. prj_in Hg2.
  unfold step, getw, set_disp, set_w, set_cons, set_g, set_harness in Hs. prj_in Hs.
  destruct l; dstepH Hs; inversion Hs; subst s'; clear Hs; unfold good; prj;
    (split; [ try exact Hg1; try (intros Hic; try specialize (Hg1 Hic); try exact I; try exact Hg1;
                                   try discriminate Hic; try contradiction)
            | msum_facts; cbn [ddone] in *; try lia ]).
Qed.

Lemma good_qstep s l s' : good s -> qstep fv s l = Some s' -> good s'.
Proof.
  intros Hg Hs. destruct l; try (exact (good_step s _ s' Hg Hs)).
  unfold qstep in Hs. destruct (quiescent fv s); [|discriminate Hs]. inversion Hs; subst s'. exact Hg.
Qed.

Lemma good_setws s l : Permutation (ws s) l -> good s -> good (setws s l).
Proof.
  intros Hp [H1 H2]. split; [exact H1|]. unfold setws. prj.
  rewrite <- (msum_perm wfin _ _ Hp). exact H2.
Qed.

Lemma good_set_g s x : good s -> good (set_g s x).
Proof. intros H. exact H. Qed.

Lemma good_canon s : good s -> good (canon_ws s).
Proof. intros H. apply good_setws; [apply Permutation_sym; apply wsort_perm | exact H]. Qed.

Lemma alldone_step s l t : good s -> alldone s -> step fv s l = Some t -> alldone t.
Proof.
  intros Hg Ha Hs. destruct (alldone_inv s Hg Ha) as [Hd Hw]. unfold alldone in *.
  destruct s as [f1 f2 f3 f4 f5 f6 f7 f8 f9 f10 f11 gs ee ed f15 d tk ws1 ic f20 f21 f22 f23 f24 f25
                 f26 f27 f28 f29 f30 f31 f32].
  prj_in Ha. prj_in Hd. prj_in Hw. subst d.
  unfold step, getw, set_disp, set_w, set_cons, set_g, set_harness in Hs. prj_in Hs.
  destruct l; dstepH Hs; inversion Hs; subst t; clear Hs; prj; rewrite ?upd_length; try exact Ha;
    match goal with E : nth_error ws1 _ = Some _ |- _ => apply Hw in E; discriminate E end.
Qed.

(* ---- the relation between a model state and a matcher state: a permutation of the workers, and the
   matcher's group context may already be cancelled once every goroutine has called wg.Done ---- *)
Definition Q (s s' : st) : Prop :=
  exists l x, Permutation (ws s) l /\ s' = set_g (setws s l) x /\ (x = g s \/ (alldone s /\ x <> GLive)).

Lemma set_g_id s : set_g s (g s) = s.
Proof. destruct s; reflexivity. Qed.

Lemma Q_of_R s s' : R s s' -> Q s s'.
Proof.
  intros [l [Hp ->]]. exists l, (g s). split; [exact Hp|]. split; [|left; reflexivity].
  symmetry. exact (set_g_id (setws s l)).
Qed.

Lemma Q_refl s : Q s s.
Proof. apply Q_of_R. apply R_refl. Qed.

Lemma Q_canon s : Q s (canon_ws s).
Proof.
  apply Q_of_R. exists (wsort (ws s)). split; [apply Permutation_sym; apply wsort_perm | reflexivity].
Qed.

Lemma Q_trans a b c : Q a b -> Q b c -> Q a c.
Proof.
  intros [l [x [Hp [-> Hx]]]] [l' [x' [Hp' [-> Hx']]]].
  exists l', x'. split; [|split; [reflexivity|]].
  - unfold set_g, setws in Hp'. prj_in Hp'. eapply perm_trans; eassumption.
  - unfold set_g, setws in Hx'. unfold alldone in *. prj_in Hx'.
    destruct Hx' as [->|[Ha Hn]]; [exact Hx|]. right. split; [|exact Hn].
    rewrite (Permutation_length Hp). exact Ha.
Qed.


(* ---- eager steps against a permutation of the workers ---- *)
Lemma eager_sim a l lb a' :
  Permutation (ws a) l -> eager a lb -> step fv a lb = Some a' ->
  exists lb' l', eager (setws a l) lb' /\ step fv (setws a l) lb' = Some (setws a' l') /\ Permutation (ws a') l'.
Proof.
  intros Hp He Hs. pose proof (Permutation_length Hp) as Hlen.
  destruct a as [f1 f2 f3 f4 f5 f6 f7 f8 f9 f10 f11 gs ee ed f15 d tk ws1 ic f20 f21 f22 f23 f24 f25
                 f26 f27 f28 f29 f30 f31 f32].
  prj_in Hp. prj_in Hlen.
  destruct lb; simpl in He; try contradiction;
    unfold step, getw, set_disp, set_w, set_cons, set_g, set_harness in Hs; prj_in Hs.
  - (* TCloseIn *) dstepH Hs. inversion Hs; subst a'. exists TCloseIn, l. unf.
    split; [exact I|]. split; [reflexivity | exact Hp].
  - (* TDRet *) dstepH Hs. inversion Hs; subst a'. exists TDRet, l. unf. rewrite E0.
    split; [exact He|]. split; [reflexivity | exact Hp].
  - (* TInClosed *) destruct (nth_error ws1 w) as [y|] eqn:E; [|discriminate Hs].
    destruct (perm_nth_upd _ _ Hp _ _ E) as [w' [E' Hu]].
    dstepH Hs. inversion Hs; subst a'. exists (TInClosed w'). eexists. unf. rewrite E'.
    split; [exact I|]. split; [reflexivity | apply Hu].
  - (* TWExit *) destruct (nth_error ws1 w) as [y|] eqn:E; [|discriminate Hs].
    destruct (perm_nth_upd _ _ Hp _ _ E) as [w' [E' Hu]].
    dstepH Hs. inversion Hs; subst a'. exists (TWExit w'). eexists. unf. rewrite E', <- Hlen.
    split; [exact I|]. split; [reflexivity | apply Hu].
  - (* TWRet *) prj_in He. destruct (perm_nth_upd _ _ Hp _ _ He) as [w' [E' Hu]].
    rewrite He in Hs. dstepH Hs. inversion Hs; subst a'. exists (TWRet w'). eexists.
    split; [exact E'|]. unf. rewrite E', E.
    split; [reflexivity | apply Hu].
  - (* TLoop *) dstepH Hs; inversion Hs; subst a'; exists TLoop, l; unf; rewrite ?E2;
      (split; [exact I|]); (split; [reflexivity | exact Hp]).
  - (* TPut *) dstepH Hs. inversion Hs; subst a'. exists TPut, l. unf. rewrite E0.
    split; [exact I|]. split; [reflexivity | exact Hp].
  - (* TWait *) dstepH Hs. inversion Hs; subst a'. exists TWait, l. unf. rewrite <- Hlen, E0.
    split; [exact I|]. split; [reflexivity | exact Hp].
  - (* TCloseWait *) dstepH Hs. inversion Hs; subst a'. exists TCloseWait, l. unf. rewrite <- Hlen, E0.
    split; [exact I|]. split; [reflexivity | exact Hp].
Qed.


Lemma mu_dec s a s1 : eager s a -> step fv s a = Some s1 -> mu s1 < mu s.
Proof.
  intros He Hs.
  destruct s as [f1 f2 f3 f4 f5 f6 f7 f8 f9 f10 f11 gs ee ed f15 d tk ws1 ic f20 f21 f22 f23 f24 f25
                 f26 f27 f28 f29 f30 f31 f32].
  destruct a; simpl in He; try contradiction;
    unfold step, getw, set_disp, set_w, set_cons, set_g, set_harness in Hs; prj_in Hs; dstepH Hs;
    inversion Hs; subst s1; unfold mu; prj; cbn [mu_d mu_c];
    try (match goal with E : nth_error _ ?w = Some ?y |- context [upd _ ?w ?x] =>
           pose proof (msum_upd mu_w _ w x y E) as Hu; cbn [mu_w] in Hu end); try lia.
Qed.

Lemma mu_canon s : mu (canon_ws s) = mu s.
Proof.
  unfold mu, canon_ws, setws. prj. rewrite (msum_perm mu_w _ _ (wsort_perm (ws s))). reflexivity.
Qed.

Lemma eager_vis s a : eager s a -> vis a = None.
Proof. destruct a; simpl; intros H; try contradiction; reflexivity. Qed.

Lemma eager_qstep s0 s a : eager s0 a -> qstep fv s a = step fv s a.
Proof. destruct a; simpl; intros H; try contradiction; reflexivity. Qed.

Lemma eager_qcls s a : eager s a -> qcls a = true.
Proof. destruct a; simpl; intros H; try contradiction; reflexivity. Qed.

Lemma eager_not_quiescent s a s1 : eager s a -> step fv s a = Some s1 -> quiescent fv s = false.
Proof.
  intros He Hs. destruct (quiescent fv s) eqn:Qs; [|reflexivity].
  rewrite (proj1 (quiescent_spec fv s) Qs a (eager_qcls s a He)) in Hs. discriminate Hs.
Qed.

Lemma eager_set_g s x a : eager (set_g s x) a <-> eager s a.
Proof. destruct a; simpl; split; intros H; exact H. Qed.

(* ---- once every goroutine is done the group context is dead: only TParentProp reads it ---- *)
Definition gnext (l : lab) (x : gstate) : gstate :=
  match l with
  | TWait | TCloseWait => cancelG x ByWait
  | TCloseCancel => cancelG x ByClose
  | _ => x
  end.

Lemma gnext_live l x : x <> GLive -> gnext l x <> GLive.
Proof. destruct x; [congruence|]. intros _. destruct l; simpl; discriminate. Qed.

Lemma step_set_g s x l : good s -> alldone s -> l <> TParentProp ->
  step fv (set_g s x) l = match step fv s l with Some t => Some (set_g t (gnext l x)) | None => None end.
Proof.
  intros Hg Ha Hl. destruct (alldone_inv s Hg Ha) as [Hd Hw].
  destruct s as [f1 f2 f3 f4 f5 f6 f7 f8 f9 f10 f11 gs ee ed f15 d tk ws1 ic f20 f21 f22 f23 f24 f25
                 f26 f27 f28 f29 f30 f31 f32].
  prj_in Hd. prj_in Hw. subst d.
  destruct l; try (exfalso; apply Hl; reflexivity);
    unfold step, getw, set_disp, set_w, set_cons, set_g, set_harness, gnext; prj; try reflexivity;
    try (match goal with |- context [nth_error ws1 ?w] =>
           let y := fresh "y" in let E := fresh "E" in
           destruct (nth_error ws1 w) as [y|] eqn:E; [apply Hw in E; subst y|]; reflexivity end);
    repeat (match goal with |- context [match ?e with _ => _ end] => destruct e end; try reflexivity).
Qed.


(* ---- an enabled eager step commutes with every other enabled step ---- *)
Ltac unfs := unfold step, getw, set_disp, set_w, set_cons, set_g, set_harness.
Ltac unfs_in H := unfold step, getw, set_disp, set_w, set_cons, set_g, set_harness in H.
Ltac fin_fields :=
  apply f_equal; rewrite ?upd_length; f_equal; try reflexivity; try (apply upd_comm; congruence).
Ltac upd_other :=
  repeat match goal with
         | H : ?a <> ?b |- context [nth_error (upd _ ?b _) ?a] => rewrite (nth_error_upd_other _ b a _ (not_eq_sym H))
         | H : ?a <> ?b |- context [nth_error (upd _ ?a _) ?b] => rewrite (nth_error_upd_other _ a b _ H)
         end.
Ltac windex Hl w :=
  match type of Hl with
  | context [nth_error _ ?w0] =>
      lazymatch w0 with
      | w => fail
      | _ => destruct (Nat.eq_dec w0 w) as [->|Hne]
      end
  end.
Ltac wcase Hl E w :=
  try (windex Hl w; [ rewrite E in Hl; try discriminate Hl | upd_other ]).
Ltac destr_st s :=
  destruct s as [f1 f2 f3 f4 f5 f6 f7 f8 f9 f10 f11 gs ee ed f15 d tk ws1 ic f20 f21 f22 f23 f24 f25
                 f26 f27 f28 f29 f30 f31 f32].


Lemma diamond_TCloseIn s s1 l t :
  step fv s TCloseIn = Some s1 -> step fv s l = Some t ->
  l = TCloseIn \/ exists u, step fv s1 l = Some u /\ step fv t TCloseIn = Some u.
Proof.
  intros Ha Hl. destr_st s.
  unfs_in Ha; prj_in Ha. dstepH Ha. inversion Ha; subst s1; clear Ha.
  destruct l; unfs_in Hl; unfs; prj_in Hl; prj;
    try discriminate Hl; try (left; reflexivity);
    dstepH Hl; inversion Hl; subst t; clear Hl; right; eexists; (split; [reflexivity|]); prj; reflexivity.
Qed.

Ltac core Hl t :=
  dstepH Hl; inversion Hl; subst t; clear Hl; right; eexists; (split; [reflexivity|]); prj; upd_other;
  rew_eqns; try reflexivity; fin_fields.



Lemma diamond_TLoop s s1 l t :
  step fv s TLoop = Some s1 -> step fv s l = Some t ->
  l = TLoop \/ exists u, step fv s1 l = Some u /\ step fv t TLoop = Some u.
Proof.
  intros Ha Hl. destr_st s.
  unfs_in Ha; prj_in Ha. dstepH Ha; inversion Ha; subst s1; clear Ha.
  all: destruct l; unfs_in Hl; unfs; prj_in Hl; prj;
    try discriminate Hl; try (left; reflexivity); core Hl t.
Qed.

Lemma diamond_TPut s s1 l t :
  step fv s TPut = Some s1 -> step fv s l = Some t ->
  l = TPut \/ exists u, step fv s1 l = Some u /\ step fv t TPut = Some u.
Proof.
  intros Ha Hl. destr_st s.
  unfs_in Ha; prj_in Ha. dstepH Ha; inversion Ha; subst s1; clear Ha.
  destruct l; unfs_in Hl; unfs; prj_in Hl; prj;
    try discriminate Hl; try (left; reflexivity); try solve [core Hl t].
  dstepH Hl; inversion Hl; subst t; clear Hl; right; eexists; (split; [reflexivity|]); prj.
  replace (n <? f4) with true; [reflexivity|].
  symmetry. apply Nat.ltb_lt. apply Nat.ltb_lt in E0. lia.
Qed.

Lemma wfin_lt l w x : nth_error l w = Some x -> wfin x = 0 -> msum wfin l < length l.
Proof.
  intros E H0. pose proof (msum_upd wfin l w TDone x E) as U. simpl in U.
  pose proof (msum_le_length wfin (upd l w TDone) wfin_le1) as Hle. rewrite upd_length in Hle. lia.
Qed.

Ltac kill_wait :=
  try (exfalso; match goal with E : (_ =? S _) = true |- _ => apply Nat.eqb_eq in E; cbn [ddone] in *; lia end).

Lemma diamond_TDRet s s1 l t :
  good s -> disp s = SRet None -> step fv s TDRet = Some s1 -> step fv s l = Some t ->
  l = TDRet \/ exists u, step fv s1 l = Some u /\ step fv t TDRet = Some u /\ disp t = SRet None.
Proof.
  intros [_ Hg2] Hd Ha Hl. destr_st s. prj_in Hg2. prj_in Hd. subst d.
  pose proof (msum_le_length wfin ws1 wfin_le1) as Hle.
  unfs_in Ha; prj_in Ha. cbn [record] in Ha. inversion Ha; subst s1; clear Ha.
  destruct l; unfs_in Hl; unfs; prj_in Hl; prj;
    try discriminate Hl; try (left; reflexivity).
  all: dstepH Hl; kill_wait.
  all: inversion Hl; subst t; clear Hl; right; eexists; (split; [reflexivity|]); prj; cbn [record].
  all: (split; [|reflexivity]).
  all: rew_eqns; try reflexivity; fin_fields.
Qed.

Lemma diamond_TInClosed s w s1 l t :
  good s -> step fv s (TInClosed w) = Some s1 -> step fv s l = Some t ->
  l = TInClosed w \/ exists u, step fv s1 l = Some u /\ step fv t (TInClosed w) = Some u.
Proof.
  intros [Hg1 _] Ha Hl. destr_st s. prj_in Hg1.
  unfs_in Ha; prj_in Ha. dstepH Ha. inversion Ha; subst s1; clear Ha. specialize (Hg1 eq_refl).
  destruct l; unfs_in Hl; unfs; prj_in Hl; prj; rewrite ?upd_length;
    try discriminate Hl; wcase Hl E w; try (left; reflexivity).
  all: dstepH Hl; try (exfalso; exact Hg1).
  all: inversion Hl; subst t; clear Hl; right; eexists; (split; [reflexivity|]); prj; upd_other.
  all: rew_eqns; try reflexivity; fin_fields.
Qed.

Lemma diamond_TWExit s w s1 l t :
  step fv s (TWExit w) = Some s1 -> step fv s l = Some t ->
  l = TWExit w \/ exists u, step fv s1 l = Some u /\ step fv t (TWExit w) = Some u.
Proof.
  intros Ha Hl. destr_st s.
  unfs_in Ha; prj_in Ha. dstepH Ha. inversion Ha; subst s1; clear Ha.
  destruct l; unfs_in Hl; unfs; prj_in Hl; prj; rewrite ?upd_length;
    try discriminate Hl; wcase Hl E w; try (left; reflexivity).
  all: dstepH Hl.
  all: inversion Hl; subst t; clear Hl; right; eexists; (split; [reflexivity|]); prj; upd_other.
  all: rew_eqns; try reflexivity; fin_fields.
Qed.

Lemma diamond_TWRet s w s1 l t :
  good s -> nth_error (ws s) w = Some (TRet None) -> step fv s (TWRet w) = Some s1 -> step fv s l = Some t ->
  l = TWRet w \/ exists u, step fv s1 l = Some u /\ step fv t (TWRet w) = Some u
                           /\ nth_error (ws t) w = Some (TRet None).
Proof.
  intros [_ Hg2] E Ha Hl. destr_st s. prj_in Hg2. prj_in E.
  pose proof (wfin_lt ws1 w _ E eq_refl) as Hlt.
  assert (Hdd : ddone d <= 1) by (destruct d; simpl; lia).
  unfs_in Ha; prj_in Ha. rewrite E in Ha. cbn [record] in Ha. inversion Ha; subst s1; clear Ha.
  destruct l; unfs_in Hl; unfs; prj_in Hl; prj; rewrite ?upd_length;
    try discriminate Hl; wcase Hl E w; try (left; reflexivity).
  all: dstepH Hl; kill_wait.
  all: inversion Hl; subst t; clear Hl; right; eexists; (split; [reflexivity|]); prj; upd_other; cbn [record].
  all: (split; [|try exact E]).
  all: rew_eqns; cbn [record]; try reflexivity; try fin_fields.
Qed.

Ltac kill_done Hw :=
  try (match goal with E : nth_error _ _ = Some _ |- _ => apply Hw in E; discriminate E end).

Lemma diamond_TWait s s1 l t :
  good s -> step fv s TWait = Some s1 -> step fv s l = Some t ->
  l = TWait \/ (exists u, step fv s1 l = Some u /\ step fv t TWait = Some u) \/
  (l = TParentProp /\ exists u, step fv t TWait = Some u /\ Q u s1).
Proof.
  intros Hg Ha Hl.
  assert (Had : alldone s).
  { unfold alldone. unfs_in Ha. destruct (cons s); try discriminate Ha.
    destruct (egdone s =? S (length (ws s))) eqn:E; [|discriminate Ha]. apply Nat.eqb_eq. exact E. }
  destruct (alldone_inv s Hg Had) as [Hd Hw]. clear Hg.
  destr_st s. prj_in Hd. prj_in Hw. subst d. unfold alldone in Had. prj_in Had.
  unfs_in Ha; prj_in Ha. dstepH Ha. inversion Ha; subst s1; clear Ha.
  destruct l; unfs_in Hl; unfs; prj_in Hl; prj; rewrite ?upd_length;
    try discriminate Hl; try (left; reflexivity).
  all: dstepH Hl; kill_done Hw.
  all: inversion Hl; subst t; clear Hl; right.
  all: try (left; eexists; (split; [reflexivity|]); prj; rew_eqns; try reflexivity; fin_fields).
  right. split; [reflexivity|]. eexists. split; [prj; rewrite E0; reflexivity|].
  exists ws1, (GDone ByWait). split; [apply Permutation_refl|]. split; [reflexivity|].
  right. split; [unfold alldone; prj; exact Had | discriminate].
Qed.

Lemma diamond_TCloseWait s s1 l t :
  good s -> step fv s TCloseWait = Some s1 -> step fv s l = Some t ->
  l = TCloseWait \/ (exists u, step fv s1 l = Some u /\ step fv t TCloseWait = Some u) \/
  (l = TParentProp /\ exists u, step fv t TCloseWait = Some u /\ Q u s1).
Proof.
  intros Hg Ha Hl.
  assert (Had : alldone s).
  { unfold alldone. unfs_in Ha. destruct (cons s); try discriminate Ha.
    destruct (egdone s =? S (length (ws s))) eqn:E; [|discriminate Ha]. apply Nat.eqb_eq. exact E. }
  destruct (alldone_inv s Hg Had) as [Hd Hw]. clear Hg.
  destr_st s. prj_in Hd. prj_in Hw. subst d. unfold alldone in Had. prj_in Had.
  unfs_in Ha; prj_in Ha. dstepH Ha. inversion Ha; subst s1; clear Ha.
  destruct l; unfs_in Hl; unfs; prj_in Hl; prj; rewrite ?upd_length;
    try discriminate Hl; try (left; reflexivity).
  all: dstepH Hl; kill_done Hw.
  all: inversion Hl; subst t; clear Hl; right.
  all: try (left; eexists; (split; [reflexivity|]); prj; rew_eqns; try reflexivity; fin_fields).
  right. split; [reflexivity|]. eexists. split; [prj; rewrite E0; reflexivity|].
  exists ws1, (GDone ByWait). split; [apply Permutation_refl|]. split; [reflexivity|].
  right. split; [unfold alldone; prj; exact Had | discriminate].
Qed.


Lemma diamond s a s1 l t :
  good s -> eager s a -> qstep fv s a = Some s1 -> qstep fv s l = Some t ->
  l = a \/
  (exists u, qstep fv s1 l = Some u /\ qstep fv t a = Some u /\ eager t a) \/
  (vis l = None /\ exists u, qstep fv t a = Some u /\ eager t a /\ Q u s1).
Proof.
  intros Hg He Ha Hl. rewrite (eager_qstep s s a He) in Ha.
  assert (Hd : l = LQuiesce \/ l <> LQuiesce) by (destruct l; (left; reflexivity) || (right; discriminate)).
  destruct Hd as [->|Hnq].
  { simpl in Hl. rewrite (eager_not_quiescent s a s1 He Ha) in Hl. discriminate Hl. }
  rewrite (qstep_step fv s l Hnq) in Hl.
  assert (Hc : l = a \/
               (exists u, step fv s1 l = Some u /\ step fv t a = Some u /\ eager t a) \/
               (vis l = None /\ exists u, step fv t a = Some u /\ eager t a /\ Q u s1)).
  { destruct a; simpl in He; try contradiction.
    - destruct (diamond_TCloseIn s s1 l t Ha Hl) as [->|[u [H1 H2]]]; [left; reflexivity|].
      right; left. exists u. split; [exact H1|]. split; [exact H2 | exact I].
    - destruct (diamond_TDRet s s1 l t Hg He Ha Hl) as [->|[u [H1 [H2 H3]]]]; [left; reflexivity|].
      right; left. exists u. split; [exact H1|]. split; [exact H2 | exact H3].
    - destruct (diamond_TInClosed s w s1 l t Hg Ha Hl) as [->|[u [H1 H2]]]; [left; reflexivity|].
      right; left. exists u. split; [exact H1|]. split; [exact H2 | exact I].
    - destruct (diamond_TWExit s w s1 l t Ha Hl) as [->|[u [H1 H2]]]; [left; reflexivity|].
      right; left. exists u. split; [exact H1|]. split; [exact H2 | exact I].
    - destruct (diamond_TWRet s w s1 l t Hg He Ha Hl) as [->|[u [H1 [H2 H3]]]]; [left; reflexivity|].
      right; left. exists u. split; [exact H1|]. split; [exact H2 | exact H3].
    - destruct (diamond_TLoop s s1 l t Ha Hl) as [->|[u [H1 H2]]]; [left; reflexivity|].
      right; left. exists u. split; [exact H1|]. split; [exact H2 | exact I].
    - destruct (diamond_TPut s s1 l t Ha Hl) as [->|[u [H1 H2]]]; [left; reflexivity|].
      right; left. exists u. split; [exact H1|]. split; [exact H2 | exact I].
    - destruct (diamond_TWait s s1 l t Hg Ha Hl) as [->|[[u [H1 H2]]|[-> [u [H2 H3]]]]]; [left; reflexivity| |].
      + right; left. exists u. split; [exact H1|]. split; [exact H2 | exact I].
      + right; right. split; [reflexivity|]. exists u. split; [exact H2|]. split; [exact I | exact H3].
    - destruct (diamond_TCloseWait s s1 l t Hg Ha Hl) as [->|[[u [H1 H2]]|[-> [u [H2 H3]]]]]; [left; reflexivity| |].
      + right; left. exists u. split; [exact H1|]. split; [exact H2 | exact I].
      + right; right. split; [reflexivity|]. exists u. split; [exact H2|]. split; [exact I | exact H3]. }
  destruct Hc as [->|[[u [Hu1 [Hu2 Het]]]|[Hv [u [Hu2 [Het Hq]]]]]]; [left; reflexivity| |].
  - right. left. exists u. rewrite (qstep_step fv s1 l Hnq), (eager_qstep s t a He).
    split; [exact Hu1|]. split; [exact Hu2 | exact Het].
  - right. right. split; [exact Hv|]. exists u. rewrite (eager_qstep s t a He).
    split; [exact Hu2|]. split; [exact Het | exact Hq].
Qed.

(* ---- the reduced enumeration ---- *)
Lemma in_eager_labels s a : In a (eager_labels s) -> eager s a.
Proof.
  unfold eager_labels. intros Hin. apply in_app_or in Hin. destruct Hin as [Hin|Hin].
  - simpl in Hin. repeat (destruct Hin as [<-|Hin]; [exact I|]). destruct Hin.
  - apply in_app_or in Hin. destruct Hin as [Hin|Hin].
    + destruct (disp s) as [ | | | |r|r|r|r| ] eqn:Ed; simpl in Hin; try contradiction.
      destruct r; simpl in Hin; try contradiction. destruct Hin as [<-|[]]. exact Ed.
    + apply in_flat_map in Hin. destruct Hin as [w [_ Hin]]. apply in_app_or in Hin. destruct Hin as [Hin|Hin].
      * simpl in Hin. destruct Hin as [<-|[<-|[]]]; exact I.
      * destruct (nth_error (ws s) w) as [y|] eqn:E; [|destruct Hin].
        destruct y as [ | | | |r|r| ]; try (destruct Hin).
        destruct r; simpl in Hin; try contradiction. destruct Hin as [<-|[]]. exact E.
Qed.

Lemma first_idle_spec : forall l i w, nth_error l w = Some TIdle ->
  exists w0, first_idle l i = [i + w0] /\ nth_error l w0 = Some TIdle.
Proof.
  induction l as [|x t IH]; intros i w H; [destruct w; discriminate H|].
  assert (Hx : x = TIdle \/ x <> TIdle) by (destruct x; (left; reflexivity) || (right; discriminate)).
  destruct Hx as [->|Hx].
  - exists 0. rewrite Nat.add_0_r. split; reflexivity.
  - destruct w as [|w]; simpl in H; [inversion H; contradiction|].
    destruct (IH (S i) w H) as [w0 [Hf Hn]]. exists (S w0).
    replace (i + S w0) with (S i + w0) by lia. split; [|exact Hn].
    destruct x; try exact Hf. contradiction Hx; reflexivity.
Qed.

Ltac in_list := solve [simpl; repeat (first [left; reflexivity | right])].

Lemma labels_red s l t :
  good s -> vis l = None -> qstep fv s l = Some t ->
  (exists a0 s1, In a0 (tau_labels fv s) /\ eager s a0 /\ qstep fv s a0 = Some s1) \/
  (exists l0 t0, In l0 (tau_labels fv s) /\ vis l0 = None /\ qstep fv s l0 = Some t0 /\ Q t t0).
Proof.
  intros Hg Hv Hst. unfold tau_labels.
  destruct (filter (enabled fv s) (eager_labels s)) as [|a0 rest] eqn:Ef.
  - right.
    assert (Hno : forall a, In a (eager_labels s) -> step fv s a = None).
    { intros a Hin. destruct (step fv s a) as [x|] eqn:Es; [exfalso|reflexivity].
      assert (Hf : In a (filter (enabled fv s) (eager_labels s))).
      { apply filter_In. split; [exact Hin | unfold enabled; rewrite Es; reflexivity]. }
      rewrite Ef in Hf. destruct Hf. }
    assert (Hw : forall w x, nth_error (ws s) w = Some x -> In w (seq 0 (length (ws s)))).
    { intros w x E. apply in_seq. split; [apply Nat.le_0_l | exact (getw_lt s w x E)]. }
    assert (Hwe : forall w, step fv s (TInClosed w) <> None \/ step fv s (TWExit w) <> None \/
                            step fv s (TWSend w) <> None \/ step fv s (TWCtx w) <> None \/
                            step fv s (TWRet w) <> None -> In w (seq 0 (length (ws s)))).
    { intros w H. destruct (nth_error (ws s) w) as [x|] eqn:E; [exact (Hw w x E)|].
      exfalso. unfold step, getw in H. rewrite E in H. decompose [or] H; congruence. }
    assert (Hdirect : forall l0, In l0 [TDReady; TDCtx; TDRet; TRecv; TCClosed; TNextCtx; TWait; TCloseCancel;
                                         TCloseWait; TParentProp] -> vis l0 = None ->
              step fv s l0 = Some t ->
              exists l1 t0, In l1 ([TDReady; TDCtx; TDRet; TRecv; TCClosed; TNextCtx; TWait; TCloseCancel;
                                     TCloseWait; TParentProp]
                                    ++ map TDispatch (first_idle (ws s) 0)
                                    ++ flat_map (fun w => [TWSend w; TWCtx w; TWRet w]) (seq 0 (length (ws s))))
                            /\ vis l1 = None /\ qstep fv s l1 = Some t0 /\ Q t t0).
    { intros l0 Hin Hv0 Hs0. exists l0, t. split; [apply in_or_app; left; exact Hin|].
      split; [exact Hv0|]. split; [|apply Q_refl].
      rewrite qstep_step; [exact Hs0 | intros ->; discriminate Hv0]. }
    assert (Hworker : forall w l0, In l0 [TWSend w; TWCtx w; TWRet w] -> In w (seq 0 (length (ws s))) ->
              step fv s l0 = Some t ->
              exists l1 t0, In l1 ([TDReady; TDCtx; TDRet; TRecv; TCClosed; TNextCtx; TWait; TCloseCancel;
                                     TCloseWait; TParentProp]
                                    ++ map TDispatch (first_idle (ws s) 0)
                                    ++ flat_map (fun w => [TWSend w; TWCtx w; TWRet w]) (seq 0 (length (ws s))))
                            /\ vis l1 = None /\ qstep fv s l1 = Some t0 /\ Q t t0).
    { intros w l0 Hin Hwi Hs0. exists l0, t. split.
      { apply in_or_app; right. apply in_or_app; right. apply in_flat_map. exists w. split; [exact Hwi | exact Hin]. }
      assert (Hv0 : vis l0 = None) by (simpl in Hin; decompose [or] Hin; subst; try reflexivity; contradiction).
      split; [exact Hv0|]. split; [|apply Q_refl].
      rewrite qstep_step; [exact Hs0 | intros ->; discriminate Hv0]. }
    destruct l; simpl in Hv; try discriminate Hv; clear Hv; cbv beta iota delta [qstep] in Hst;
      try (match type of Hst with step fv s ?l0 = Some t =>
             apply (Hdirect l0); [in_list | reflexivity | exact Hst] end).
    + (* TDispatch *)
      unfold step, getw in Hst. destruct (disp s) as [ | |k|k|r|r|r|r| ] eqn:Ed; try discriminate Hst.
      destruct (nth_error (ws s) w) as [x|] eqn:E; [|discriminate Hst].
      destruct x; try discriminate Hst. inversion Hst; subst t; clear Hst.
      destruct (first_idle_spec (ws s) 0 w E) as [w0 [Hf E0]]. simpl in Hf.
      exists (TDispatch w0). eexists. split.
      { apply in_or_app; right. apply in_or_app; left. rewrite Hf. left; reflexivity. }
      split; [reflexivity|]. split.
      { simpl. unfold getw. rewrite Ed, E0. reflexivity. }
      apply Q_of_R. exists (upd (ws s) w0 (THas k)). split.
      * prj. apply perm_upd_same_val with (x := TIdle); assumption.
      * reflexivity.
    + exfalso. rewrite (Hno TCloseIn) in Hst; [discriminate Hst | apply in_or_app; left; in_list].
    + exfalso. rewrite (Hno (TInClosed w)) in Hst; [discriminate Hst|].
      apply in_or_app; right. apply in_or_app; right. apply in_flat_map. exists w. split.
      * apply Hwe. left. rewrite Hst. discriminate.
      * apply in_or_app; left. in_list.
    + apply (Hworker w (TWSend w)); [in_list | apply Hwe; right; right; left; rewrite Hst; discriminate | exact Hst].
    + apply (Hworker w (TWCtx w)); [in_list | apply Hwe; right; right; right; left; rewrite Hst; discriminate | exact Hst].
    + exfalso. rewrite (Hno (TWExit w)) in Hst; [discriminate Hst|].
      apply in_or_app; right. apply in_or_app; right. apply in_flat_map. exists w. split.
      * apply Hwe. right; left. rewrite Hst. discriminate.
      * apply in_or_app; left. in_list.
    + apply (Hworker w (TWRet w)); [in_list | apply Hwe; right; right; right; right; rewrite Hst; discriminate | exact Hst].
    + exfalso. rewrite (Hno TLoop) in Hst; [discriminate Hst | apply in_or_app; left; in_list].
    + exfalso. rewrite (Hno TPut) in Hst; [discriminate Hst | apply in_or_app; left; in_list].
  - left.
    assert (Hf : In a0 (filter (enabled fv s) (eager_labels s))) by (rewrite Ef; left; reflexivity).
    apply filter_In in Hf. destruct Hf as [Hin Hen].
    pose proof (in_eager_labels s a0 Hin) as He.
    unfold enabled in Hen. destruct (step fv s a0) as [s1|] eqn:Es; [|discriminate Hen].
    exists a0, s1. split; [left; reflexivity|]. split; [exact He|]. rewrite (eager_qstep s s a0 He). exact Es.
Qed.

(* ---- simulations ---- *)
Definition gcond (s : st) (x : gstate) : Prop := x = g s \/ (alldone s /\ x <> GLive).

Lemma alldone_setws s l : Permutation (ws s) l -> alldone s -> alldone (setws s l).
Proof. intros Hp Ha. unfold alldone, setws in *. prj. rewrite <- (Permutation_length Hp). exact Ha. Qed.

Lemma alldone_qstep s l t : good s -> alldone s -> qstep fv s l = Some t -> alldone t.
Proof.
  intros Hg Ha Hs. destruct l; try (exact (alldone_step s _ t Hg Ha Hs)).
  unfold qstep in Hs. destruct (quiescent fv s); [|discriminate Hs]. inversion Hs; subst t. exact Ha.
Qed.

Lemma lab_TParentProp_dec l : l = TParentProp \/ l <> TParentProp.
Proof. destruct l; (left; reflexivity) || (right; discriminate). Qed.

Lemma lab_LQuiesce_dec l : l = LQuiesce \/ l <> LQuiesce.
Proof. destruct l; (left; reflexivity) || (right; discriminate). Qed.

Lemma quiescent_set_g s x : good s -> alldone s -> x <> GLive ->
  quiescent fv s = true -> quiescent fv (set_g s x) = true.
Proof.
  intros Hg Ha Hx Hq. apply quiescent_spec. intros lb Hc.
  destruct (lab_TParentProp_dec lb) as [->|Hne].
  - unfold step, set_g. prj. destruct x; [contradiction Hx; reflexivity | reflexivity].
  - rewrite (step_set_g s x lb Hg Ha Hne).
    rewrite (proj1 (quiescent_spec fv s) Hq lb Hc). reflexivity.
Qed.

Lemma Q_fwd s s' l t :
  good s -> good s' -> Q s s' -> qstep fv s l = Some t ->
  (vis l = None /\ Q t s') \/ (exists l' t', vis l' = vis l /\ qstep fv s' l' = Some t' /\ Q t t').
Proof.
  intros Hg _ [l0 [x [Hp [-> Hx]]]] Hst.
  destruct (sim_qstep fv s l0 l t Hp Hst) as [lb' [l' [Hs' [Hp' Hv]]]].
  destruct Hx as [->|[Ha Hn]].
  - right. exists lb', (setws t l').
    change (set_g (setws s l0) (g s)) with (set_g (setws s l0) (g (setws s l0))). rewrite set_g_id.
    split; [exact Hv|]. split; [exact Hs'|]. apply Q_of_R. exists l'. split; [exact Hp' | reflexivity].
  - pose proof (good_setws s l0 Hp Hg) as Hg2. pose proof (alldone_setws s l0 Hp Ha) as Ha2.
    pose proof (alldone_qstep s l t Hg Ha Hst) as Hat.
    destruct (lab_LQuiesce_dec lb') as [->|Hnq].
    { right. unfold qstep in Hs'. destruct (quiescent fv (setws s l0)) eqn:Eq; [|discriminate Hs'].
      assert (Heq : setws s l0 = setws t l') by congruence. clear Hs'. exists LQuiesce, (set_g (setws s l0) x). split; [exact Hv|]. split.
      - unfold qstep. rewrite (quiescent_set_g (setws s l0) x Hg2 Ha2 Hn Eq). reflexivity.
      - exists l', x. split; [exact Hp'|]. split; [rewrite <- Heq; reflexivity|]. right. split; assumption. }
    rewrite (qstep_step fv _ lb' Hnq) in Hs'.
    destruct (lab_TParentProp_dec lb') as [->|Hnp].
    + left. split; [rewrite <- Hv; reflexivity|].
      exists l', x. split; [exact Hp'|]. split; [|right; split; assumption].
      unfold step in Hs'. destruct (g (setws s l0)); [|discriminate Hs'].
      destruct (pdone (setws s l0)); [|discriminate Hs'].
      assert (Heq : set_g (setws s l0) (GDone ByParent) = setws t l') by congruence. rewrite <- Heq. reflexivity.
    + right. exists lb', (set_g (setws t l') (gnext lb' x)). split; [exact Hv|]. split.
      * rewrite (qstep_step fv _ lb' Hnq), (step_set_g _ x lb' Hg2 Ha2 Hnp), Hs'. reflexivity.
      * exists l', (gnext lb' x). split; [exact Hp'|]. split; [reflexivity|]. right.
        split; [exact Hat | apply gnext_live; exact Hn].
Qed.

Lemma Q_bwd_eager s s' a t' :
  good s -> good s' -> Q s s' -> eager s' a -> qstep fv s' a = Some t' ->
  exists a' t, eager s a' /\ qstep fv s a' = Some t /\ Q t t'.
Proof.
  intros Hg _ [l0 [x [Hp [-> Hx]]]] He Hst.
  rewrite (eager_qstep _ _ a He) in Hst. apply eager_set_g in He.
  pose proof (good_setws s l0 Hp Hg) as Hg2.
  assert (H2 : exists t2 x', step fv (setws s l0) a = Some t2 /\ t' = set_g t2 x' /\ gcond t2 x').
  { destruct Hx as [->|[Ha Hn]].
    - exists t', (g t'). split; [|split; [symmetry; apply set_g_id | left; reflexivity]].
      change (set_g (setws s l0) (g s)) with (set_g (setws s l0) (g (setws s l0))) in Hst.
      rewrite set_g_id in Hst. exact Hst.
    - pose proof (alldone_setws s l0 Hp Ha) as Ha2.
      assert (Hnp : a <> TParentProp) by (intros ->; exact He).
      rewrite (step_set_g _ x a Hg2 Ha2 Hnp) in Hst.
      destruct (step fv (setws s l0) a) as [t2|] eqn:E2; [|discriminate Hst]. inversion Hst; subst t'.
      exists t2, (gnext a x). split; [reflexivity|]. split; [reflexivity|]. right.
      split; [exact (alldone_step _ a t2 Hg2 Ha2 E2) | apply gnext_live; exact Hn]. }
  destruct H2 as [t2 [x' [Hs2 [-> Hc]]]].
  destruct (eager_sim (setws s l0) (ws s) a t2 (Permutation_sym Hp) He Hs2) as [a' [l' [He' [Hs' Hp']]]].
  rewrite setws_setws, setws_id in He', Hs'.
  exists a', (setws t2 l'). split; [exact He'|]. rewrite (eager_qstep s s a' He'). split; [exact Hs'|].
  exists (ws t2), x'. split; [apply Permutation_sym; exact Hp'|]. split.
  - rewrite setws_setws, setws_id. reflexivity.
  - destruct Hc as [->|[Ha Hn]]; [left; reflexivity|]. right. split; [|exact Hn].
    apply alldone_setws; assumption.
Qed.

Definition ms_ws_converged (c : cfg) (evs : list lab) : bool :=
  convergedb st lab lab (mstep_ws fv) vis lab_eqb st_eqb (tau_labels fv) labels_ev 64 (init c) evs.

(* COMPLETENESS of the (sound variant of the) shipped matcher of MapStream *)
Theorem ms_ws_accepts_complete c evs ls s :
  ms_ws_converged c evs = true ->
  run (qstep fv) (init c) ls = Some s -> ms_trace ls = evs ->
  accepts_history_ws fv c evs = true.
Proof.
  intros Hc Hr Ht.
  apply (por_accepts_complete st lab lab (qstep fv) vis lab_eqb st_eqb canon_ws (tau_labels fv) labels_ev
           good Q eager mu
           good_qstep good_canon Q_refl Q_trans Q_canon ms_st_eqb_spec
           (fun l e H => lab_eqb_refl_vis e e (vis_idem l e H))
           Q_fwd Q_bwd_eager eager_vis diamond
           (fun s a s1 He Hs => mu_dec s a s1 He (eq_trans (eq_sym (eager_qstep s s a He)) Hs))
           mu_canon labels_red (labels_ev_complete fv)
           64 (init c) evs ls s (good_init c) Hc Hr Ht).
Qed.

Theorem ms_ws_reject_genuine c evs :
  ms_ws_converged c evs = true -> accepts_history_ws fv c evs = false ->
  forall ls s, run (qstep fv) (init c) ls = Some s -> ms_trace ls <> evs.
Proof.
  intros Hc Hacc ls s Hr Ht.
  rewrite (ms_ws_accepts_complete c evs ls s Hc Hr Ht) in Hacc. discriminate.
Qed.

Theorem ms_ws_accepts_iff c evs :
  ms_ws_converged c evs = true ->
  (accepts_history_ws fv c evs = true <->
   exists ls s, run (qstep fv) (init c) ls = Some s /\ ms_trace ls = evs).
Proof.
  intros Hc. split.
  - apply ms_ws_accepts_sound.
  - intros [ls [s [Hr Ht]]]. eapply ms_ws_accepts_complete; eassumption.
Qed.

End S.

(* ---- non-vacuity ---- *)
Example ex_ms_accepts :
  accepts_history_ws pm_fx ex_cfg ex_hist = true /\ ms_ws_converged pm_fx ex_cfg ex_hist = true.
Proof. vm_compute. split; reflexivity. Qed.

(* the rejections of the matcher the check uses are genuine *)
Example ex_ms_rejects :
  accepts_history_ws pm_fx ex_cfg ex_bad = false /\ ms_ws_converged pm_fx ex_cfg ex_bad = true /\
  accepts_history_ws pm_fx bad_cfg bad_hist = false /\ ms_ws_converged pm_fx bad_cfg bad_hist = true.
Proof. vm_compute. repeat split; reflexivity. Qed.

Example ex_ms_no_run :
  forall ls s, run (qstep pm_fx) (init ex_cfg) ls = Some s -> ms_trace ls <> ex_bad.
Proof.
  apply ms_ws_reject_genuine; [exact (proj1 (proj2 ex_ms_rejects)) | exact (proj1 ex_ms_rejects)].
Qed.

(* the caller's context is cancelled while the last Next is inside eg.Wait(): the matcher has fired
   TWait eagerly, the model may let the cancellation propagate first *)
Definition par_cfg := mkCfg 1 1 0 [10]%Z [false] false [false] [false; false] 1.
Definition par_hist : list lab :=
  [LReq (RqNext 0); LCallNext 0; LSrcEnter; LSrcExit (SoItem 0); LFEnter 0 0; LFExit 0 0 FoOk;
   LRetNext (RVal 37%Z); LSrcEnter; LSrcExit SoEnd; LSrcCloseEnter; LSrcCloseExit;
   LReq (RqNext 0); LCallNext 0; LCancelParent; LRetNext REnd; LQuiesce].
Definition par_bad : list lab :=
  [LReq (RqNext 0); LCallNext 0; LSrcEnter; LSrcExit (SoItem 0); LFEnter 0 0; LFExit 0 0 FoOk;
   LRetNext (RVal 37%Z); LSrcEnter; LSrcExit SoEnd; LSrcCloseEnter; LSrcCloseExit;
   LReq (RqNext 0); LCallNext 0; LCancelParent; LRetNext (RErr (ECtx ByParent))].

Example ex_par :
  accepts_history_ws pm_fx par_cfg par_hist = true /\ ms_ws_converged pm_fx par_cfg par_hist = true /\
  accepts_history_ws pm_fx par_cfg par_bad = false /\ ms_ws_converged pm_fx par_cfg par_bad = true.
Proof. vm_compute. repeat split; reflexivity. Qed.

Example ex_par_no_run :
  forall ls s, run (qstep pm_fx) (init par_cfg) ls = Some s -> ms_trace ls <> par_bad.
Proof.
  apply ms_ws_reject_genuine; [exact (proj2 (proj2 (proj2 ex_par))) | exact (proj1 (proj2 (proj2 ex_par)))].
Qed.

(* the pair that does not commute is reachable: TWait disables TParentProp, and the two orders end in
   Q-related, different states *)
Example ex_wait_parent :
  exists s s1 t u, reachable (qstep pm_fx) (init par_cfg) s /\ good s /\
    step pm_fx s TWait = Some s1 /\ step pm_fx s TParentProp = Some t /\
    step pm_fx s1 TParentProp = None /\ step pm_fx t TWait = Some u /\ g u <> g s1 /\ Q u s1.
Proof.
  destruct (run (qstep pm_fx) (init par_cfg)
              [LReq (RqNext 0); LCallNext 0; LSrcEnter; LSrcExit (SoItem 0); TDReady; TDispatch 0; LFEnter 0 0;
               LFExit 0 0 FoOk; TWSend 0; TLoop; TRecv; TLoop; TPut; LRetNext (RVal 37%Z); LSrcEnter;
               LSrcExit SoEnd; TCloseIn; LSrcCloseEnter; LSrcCloseExit; TDRet; TInClosed 0; TWExit 0; TWRet 0;
               LReq (RqNext 0); LCallNext 0; TLoop; TCClosed; LCancelParent]) as [s|] eqn:E;
    [|vm_compute in E; discriminate E].
  assert (Hre : reachable (qstep pm_fx) (init par_cfg) s) by (eexists; exact E).
  assert (Hg : good s).
  { revert E. generalize (good_init par_cfg). generalize (init par_cfg).
    generalize [LReq (RqNext 0); LCallNext 0; LSrcEnter; LSrcExit (SoItem 0); TDReady; TDispatch 0; LFEnter 0 0;
               LFExit 0 0 FoOk; TWSend 0; TLoop; TRecv; TLoop; TPut; LRetNext (RVal 37%Z); LSrcEnter;
               LSrcExit SoEnd; TCloseIn; LSrcCloseEnter; LSrcCloseExit; TDRet; TInClosed 0; TWExit 0; TWRet 0;
               LReq (RqNext 0); LCallNext 0; TLoop; TCClosed; LCancelParent].
    intros ls. induction ls as [|l ls IH]; intros s0 H0 Hr; simpl in Hr.
    - inversion Hr; subst; exact H0.
    - destruct (qstep pm_fx s0 l) as [s1|] eqn:Es; [|discriminate Hr].
      exact (IH s1 (good_qstep pm_fx s0 l s1 H0 Es) Hr). }
  vm_compute in E. inversion E; subst s. clear E.
  do 4 eexists. split; [exact Hre|]. split; [exact Hg|].
  split; [vm_compute; reflexivity|]. split; [vm_compute; reflexivity|].
  split; [vm_compute; reflexivity|]. split; [vm_compute; reflexivity|].
  split; [vm_compute; discriminate|].
  eexists _, (GDone ByWait). split; [apply Permutation_refl|]. split; [vm_compute; reflexivity|].
  right. split; [vm_compute; reflexivity | discriminate].
Qed.
End MSC.

Print Assumptions por_accepts_complete.
Print Assumptions MIC.diamond.
Print Assumptions MIC.mi_accepts_complete.
Print Assumptions MIC.mi_reject_genuine.
Print Assumptions MIC.mi_accepts_iff.
Print Assumptions MIC.ex_mi_no_run.
Print Assumptions MSC.diamond.
Print Assumptions MSC.step_set_g.
Print Assumptions MSC.ms_ws_accepts_complete.
Print Assumptions MSC.ms_ws_reject_genuine.
Print Assumptions MSC.ms_ws_accepts_iff.
Print Assumptions MSC.ex_ms_no_run.
Print Assumptions MSC.ex_par_no_run.
Print Assumptions MSC.ex_wait_parent.
