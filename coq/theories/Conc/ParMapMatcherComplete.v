From Juniper Require Import Common.Base Conc.GoLTS Conc.GoLTSProofs Conc.ParMap Conc.ParMapMatcher.
From Coq Require Import Arith PeanoNat Permutation.
Local Open Scope nat_scope.

(* ====================================================================== *)
(* Part 1: completeness of a reduced matcher, generically                  *)
(* ====================================================================== *)
Section MatcherPOR.
  Variables St Lab Ev : Type.
  Variable step : St -> Lab -> option St.          (* the unreduced model (qstep) *)
  Variable vis : Lab -> option Ev.
  Variable ev_eqb : Ev -> Ev -> bool.
  Variable st_eqb : St -> St -> bool.
  Variable canon : St -> St.
  Variable labels : St -> list Lab.                (* the reduced enumeration of internal labels *)
  Variable labels_ev : St -> Ev -> list Lab.
  Variable good : St -> Prop.
  Variable Q : St -> St -> Prop.                   (* model state / matcher state *)
  Variable eager : St -> Lab -> Prop.
  Variable mu : St -> nat.

  Definition mstep (s : St) (l : Lab) : option St :=
    match step s l with Some s' => Some (canon s') | None => None end.

  Hypothesis good_step : forall s l s', good s -> step s l = Some s' -> good s'.
  Hypothesis good_canon : forall s, good s -> good (canon s).
  Hypothesis Q_refl : forall s, Q s s.
  Hypothesis Q_trans : forall a b c, Q a b -> Q b c -> Q a c.
  Hypothesis Q_canon : forall s, Q s (canon s).
  Hypothesis st_eqb_spec : forall a b, st_eqb a b = true <-> a = b.
  Hypothesis ev_eqb_refl_vis : forall l e, vis l = Some e -> ev_eqb e e = true.
  (* forward simulation, possibly stuttering on an internal step *)
  Hypothesis Q_fwd : forall s s' l t, good s -> good s' -> Q s s' -> step s l = Some t ->
    (vis l = None /\ Q t s') \/ (exists l' t', vis l' = vis l /\ step s' l' = Some t' /\ Q t t').
  (* backward simulation for eager steps *)
  Hypothesis Q_bwd_eager : forall s s' a t', good s -> good s' -> Q s s' -> eager s' a -> step s' a = Some t' ->
    exists a' t, eager s a' /\ step s a' = Some t /\ Q t t'.
  Hypothesis eager_vis : forall s a, eager s a -> vis a = None.
  (* an enabled eager step commutes with every other enabled step (or absorbs it, up to Q) *)
  Hypothesis diamond : forall s a s1 l t, good s -> eager s a -> step s a = Some s1 -> step s l = Some t ->
    l = a \/
    (exists u, step s1 l = Some u /\ step t a = Some u /\ eager t a) \/
    (vis l = None /\ exists u, step t a = Some u /\ eager t a /\ Q u s1).
  Hypothesis mu_dec : forall s a s1, eager s a -> step s a = Some s1 -> mu s1 < mu s.
  Hypothesis mu_canon : forall s, mu (canon s) = mu s.
  (* what the reduced enumeration explores from a state with an enabled internal step *)
  Hypothesis labels_red : forall s l t, good s -> vis l = None -> step s l = Some t ->
    (exists a0 s1, In a0 (labels s) /\ eager s a0 /\ step s a0 = Some s1) \/
    (exists l0 t0, In l0 (labels s) /\ vis l0 = None /\ step s l0 = Some t0 /\ Q t t0).
  Hypothesis labels_ev_complete :
    forall s l e, vis l = Some e -> step s l <> None -> In l (labels_ev s e).

  Local Notation rsucc_tau := (GoLTS.succ_tau St Lab mstep Ev vis labels).
  Local Notation rsucc_ev := (GoLTS.succ_ev St Lab mstep Ev vis ev_eqb labels_ev).
  Local Notation rclose := (GoLTS.close mstep vis st_eqb labels).
  Local Notation rstates_after := (GoLTS.states_after mstep vis ev_eqb st_eqb labels labels_ev).
  Local Notation raccepts := (GoLTS.accepts mstep vis ev_eqb st_eqb labels labels_ev).
  Local Notation run := (GoLTS.run step).
  Local Notation trace := (GoLTSProofs.trace Lab Ev vis).

  (* "s' is ahead of s": s' is reached from s by eager steps, up to Q *)
  Inductive ahead : St -> St -> Prop :=
  | ah_base s s' : Q s s' -> ahead s s'
  | ah_step s a s1 s' : eager s a -> step s a = Some s1 -> ahead s1 s' -> ahead s s'.

  Lemma ahead_refl s : ahead s s.
  Proof. apply ah_base. apply Q_refl. Qed.

  Lemma ahead_Q_r s s' : ahead s s' -> forall s'', Q s' s'' -> ahead s s''.
  Proof.
    induction 1 as [s s' Hq | s a s1 s' He Hs Hah IH]; intros s'' Hq2.
    - apply ah_base. eapply Q_trans; eassumption.
    - eapply ah_step; [exact He | exact Hs | apply IH; exact Hq2].
  Qed.

  Lemma ahead_Q_l u' t : ahead u' t -> forall u, good u -> good u' -> Q u u' -> ahead u t.
  Proof.
    induction 1 as [s s' Hq | s a s1 s' He Hs Hah IH]; intros u Hgu Hgs Hq0.
    - apply ah_base. eapply Q_trans; eassumption.
    - destruct (Q_bwd_eager u s a s1 Hgu Hgs Hq0 He Hs) as [a' [u1 [He' [Hs' Hq1]]]].
      apply (ah_step u a' u1 s' He' Hs').
      apply IH; [exact (good_step u a' u1 Hgu Hs') | exact (good_step s a s1 Hgs Hs) | exact Hq1].
  Qed.

  Lemma ahead_trans s s' : ahead s s' -> forall s'', good s -> good s' -> ahead s' s'' -> ahead s s''.
  Proof.
    induction 1 as [s s' Hq | s a s1 s' He Hs Hah IH]; intros s'' Hg Hg' Hah2.
    - exact (ahead_Q_l s' s'' Hah2 s Hg Hg' Hq).
    - apply (ah_step s a s1 s'' He Hs). apply IH; [exact (good_step s a s1 Hg Hs) | exact Hg' | exact Hah2].
  Qed.

  (* one step of the model against a state that is ahead *)
  Lemma path s s' : ahead s s' -> good s -> good s' ->
    forall l t, step s l = Some t ->
      (vis l = None /\ ahead t s') \/ (exists l' t', vis l' = vis l /\ step s' l' = Some t' /\ ahead t t').
  Proof.
    induction 1 as [s s' Hq | s a s1 s' He Hs Hah IH]; intros Hg Hg' l t Hst.
    - destruct (Q_fwd s s' l t Hg Hg' Hq Hst) as [[Hv Hq']|[l' [t' [Hv [Hs' Hq']]]]].
      + left. split; [exact Hv | apply ah_base; exact Hq'].
      + right. exists l', t'. split; [exact Hv|]. split; [exact Hs' | apply ah_base; exact Hq'].
    - assert (Hg1 : good s1) by (exact (good_step s a s1 Hg Hs)).
      assert (Hgt : good t) by (exact (good_step s l t Hg Hst)).
      destruct (diamond s a s1 l t Hg He Hs Hst) as [->|[[u [Hu1 [Hu2 Het]]]|[Hv [u [Hu2 [Het Hqu]]]]]].
      + left. split; [eapply eager_vis; exact He|]. rewrite Hs in Hst. inversion Hst; subst t. exact Hah.
      + destruct (IH Hg1 Hg' l u Hu1) as [[Hv Hau]|[l' [t' [Hv [Hs' Hau]]]]].
        * left. split; [exact Hv | exact (ah_step t a u s' Het Hu2 Hau)].
        * right. exists l', t'. split; [exact Hv|]. split; [exact Hs' | exact (ah_step t a u t' Het Hu2 Hau)].
      + left. split; [exact Hv|]. apply (ah_step t a u s' Het Hu2).
        apply (ahead_Q_l s1 s' Hah u); [exact (good_step t a u Hgt Hu2) | exact Hg1 | exact Hqu].
  Qed.

  Definition red_closed (S : list St) : Prop :=
    forall s s', In s S -> In s' (rsucc_tau s) -> In s' S.

  Fixpoint red_along (fuel : nat) (ss : list St) (evs : list Ev) : Prop :=
    match evs with
    | [] => True
    | e :: evs' =>
        let ss' := rclose fuel (flat_map (rsucc_ev e) ss) in
        red_closed ss' /\ red_along fuel ss' evs'
    end.

  Lemma tau_closedb_red S :
    tau_closedb St Lab Ev mstep vis st_eqb labels S = true -> red_closed S.
  Proof.
    unfold tau_closedb, red_closed. intros Hb s s' Hs Hs'.
    rewrite forallb_forall in Hb. specialize (Hb s Hs). rewrite forallb_forall in Hb.
    apply (mem_true_iff St st_eqb st_eqb_spec). apply Hb. exact Hs'.
  Qed.

  Lemma closed_alongb_red fuel evs : forall ss,
    closed_alongb St Lab Ev mstep vis ev_eqb st_eqb labels labels_ev fuel ss evs = true ->
    red_along fuel ss evs.
  Proof.
    induction evs as [|e evs IH]; intros ss Hb; simpl in *; [exact I|].
    apply andb_true_iff in Hb. destruct Hb as [Hb1 Hb2].
    split; [apply tau_closedb_red; exact Hb1 | apply IH; exact Hb2].
  Qed.

  Lemma in_rsucc_tau s l t : In l (labels s) -> vis l = None -> step s l = Some t -> In (canon t) (rsucc_tau s).
  Proof.
    intros Hin Hv Hs. apply (succ_tau_complete St Lab Ev mstep vis labels s l (canon t) Hin Hv).
    unfold mstep. rewrite Hs. reflexivity.
  Qed.

  (* a model step from a state of a reduced-closed set lands (up to [ahead]) in the set *)
  Lemma settle (S : list St) (HS : red_closed S) : forall n s' l t',
    mu s' < n -> good s' -> In s' S -> step s' l = Some t' -> vis l = None ->
    exists t'', In t'' S /\ ahead t' t''.
  Proof.
    induction n as [|n IH]; intros s' l t' Hmu Hg Hin Hst Hv; [lia|].
    destruct (labels_red s' l t' Hg Hv Hst) as [[a0 [s1 [Hl0 [He Hs1]]]]|[l0 [t0 [Hl0 [Hv0 [Hs0 Hq0]]]]]].
    - assert (Hva : vis a0 = None) by (eapply eager_vis; exact He).
      assert (Hin1 : In (canon s1) S) by (apply (HS s' _ Hin); eapply in_rsucc_tau; eassumption).
      assert (Hg1 : good s1) by (exact (good_step s' a0 s1 Hg Hs1)).
      assert (Hgt : good t') by (exact (good_step s' l t' Hg Hst)).
      destruct (diamond s' a0 s1 l t' Hg He Hs1 Hst) as [->|[[u [Hu1 [Hu2 Het]]]|[_ [u [Hu2 [Het Hqu]]]]]].
      + exists (canon s1). split; [exact Hin1|]. rewrite Hs1 in Hst. inversion Hst; subst t'.
        apply ah_base. apply Q_canon.
      + assert (Hgu : good u) by (exact (good_step t' a0 u Hgt Hu2)).
        destruct (Q_fwd s1 (canon s1) l u Hg1 (good_canon s1 Hg1) (Q_canon s1) Hu1)
          as [[_ Hq']|[l' [u' [Hv' [Hs' Hq']]]]].
        * exists (canon s1). split; [exact Hin1|]. apply (ah_step t' a0 u _ Het Hu2). apply ah_base. exact Hq'.
        * pose proof (mu_dec s' a0 s1 He Hs1) as Hdec.
          destruct (IH (canon s1) l' u') as [t'' [Hin'' Hah]];
            [rewrite mu_canon; lia | apply good_canon; exact Hg1 | exact Hin1 | exact Hs' | rewrite Hv'; exact Hv |].
          exists t''. split; [exact Hin''|]. apply (ah_step t' a0 u _ Het Hu2).
          apply (ahead_Q_l u' t'' Hah u Hgu); [|exact Hq'].
          eapply good_step; [apply good_canon; exact Hg1 | exact Hs'].
      + exists (canon s1). split; [exact Hin1|]. apply (ah_step t' a0 u _ Het Hu2). apply ah_base.
        eapply Q_trans; [exact Hqu | apply Q_canon].
    - exists (canon t0). split.
      + apply (HS s' _ Hin). eapply in_rsucc_tau; eassumption.
      + apply ah_base. eapply Q_trans; [exact Hq0 | apply Q_canon].
  Qed.

  Lemma good_mstep s l s' : good s -> mstep s l = Some s' -> good s'.
  Proof.
    unfold mstep. intros Hg Hm. destruct (step s l) as [s1|] eqn:E; [|discriminate Hm].
    inversion Hm; subst s'. apply good_canon. exact (good_step s l s1 Hg E).
  Qed.

  Lemma good_succ_tau s s' : good s -> In s' (rsucc_tau s) -> good s'.
  Proof.
    intros Hg Hin. destruct (in_succ_tau St Lab Ev mstep vis labels s s' Hin) as [l [_ Hq]].
    eapply good_mstep; eassumption.
  Qed.

  Lemma good_close fuel ss : (forall x, In x ss -> good x) -> forall x, In x (rclose fuel ss) -> good x.
  Proof.
    intros Hss. apply (close_inv St Lab Ev mstep vis st_eqb labels good good_succ_tau fuel ss Hss).
  Qed.

  Lemma good_succ_ev e ss : (forall x, In x ss -> good x) ->
    forall x, In x (flat_map (rsucc_ev e) ss) -> good x.
  Proof.
    intros Hss x Hx. apply in_flat_map in Hx. destruct Hx as [s [Hs Hx]].
    unfold GoLTS.succ_ev in Hx. apply in_flat_map in Hx. destruct Hx as [l [_ Hl]].
    destruct (vis l) as [e'|]; [|destruct Hl].
    destruct (ev_eqb e e'); [|destruct Hl].
    destruct (mstep s l) as [s1|] eqn:Es; [|destruct Hl].
    destruct Hl as [Hl|[]]. subst s1. eapply good_mstep; [apply Hss; exact Hs | exact Es].
  Qed.

  (* the simulation: the reduced state sets always contain a state ahead of the model's *)
  Lemma sim fuel ls : forall evs ss s s' sf,
    red_closed ss -> red_along fuel ss evs -> (forall x, In x ss -> good x) ->
    good s -> In s' ss -> ahead s s' ->
    run s ls = Some sf -> trace ls = evs ->
    rstates_after fuel ss evs <> [].
  Proof.
    induction ls as [|l ls IH]; intros evs ss s s' sf Hc Hal Hgs Hg Hin Hah Hr Ht.
    - simpl in Ht. subst evs. simpl. intros E. rewrite E in Hin. destruct Hin.
    - simpl in Hr. destruct (step s l) as [t|] eqn:Hq; [|discriminate Hr].
      assert (Hgt : good t) by (exact (good_step s l t Hg Hq)).
      simpl in Ht.
      destruct (path s s' Hah Hg (Hgs s' Hin) l t Hq) as [[Hv Hat]|[l' [t' [Hv' [Hq' Hat]]]]].
      + rewrite Hv in Ht. apply (IH evs ss t s' sf); assumption.
      + destruct (vis l) as [e|] eqn:Hv.
        * subst evs. simpl in Hal. destruct Hal as [Hc' Hal']. simpl.
          assert (Hin' : In (canon t') (rclose fuel (flat_map (rsucc_ev e) ss))).
          { apply (close_incl St Lab Ev mstep vis st_eqb labels st_eqb_spec).
            apply in_flat_map. exists s'. split; [exact Hin|].
            unfold GoLTS.succ_ev. apply in_flat_map. exists l'. split.
            - apply labels_ev_complete; [exact Hv' | rewrite Hq'; discriminate].
            - rewrite Hv', (ev_eqb_refl_vis l' e Hv'). unfold mstep. rewrite Hq'. left; reflexivity. }
          apply (IH _ _ t (canon t') sf); try assumption.
          -- apply good_close. apply good_succ_ev. exact Hgs.
          -- apply (ahead_Q_r t t' Hat). apply Q_canon.
          -- reflexivity.
        * destruct (settle ss Hc (S (mu s')) s' l' t') as [t'' [Hin'' Hat']];
            [lia | apply Hgs; exact Hin | exact Hin | exact Hq' | exact Hv' |].
          apply (IH evs ss t t'' sf); try assumption.
          apply (ahead_trans t t' Hat t'' Hgt); [|exact Hat'].
          eapply good_step; [apply Hgs; exact Hin | exact Hq'].
  Qed.

  (* COMPLETENESS of the reduced matcher when its closures converged *)
  Theorem por_accepts_complete fuel init evs ls s :
    good init ->
    convergedb St Lab Ev mstep vis ev_eqb st_eqb labels labels_ev fuel init evs = true ->
    run init ls = Some s -> trace ls = evs -> raccepts fuel init evs = true.
  Proof.
    intros Hgi Hconv Hr Ht. unfold convergedb in Hconv.
    apply andb_true_iff in Hconv. destruct Hconv as [Hb1 Hb2].
    unfold GoLTS.accepts.
    rewrite (first_reject_complete St Lab Ev mstep vis ev_eqb st_eqb labels labels_ev
               fuel evs (rclose fuel [init]) 0); [reflexivity|].
    apply (sim fuel ls evs (rclose fuel [init]) init init s).
    - apply tau_closedb_red. exact Hb1.
    - apply closed_alongb_red. exact Hb2.
    - apply good_close. intros x [<-|[]]. exact Hgi.
    - exact Hgi.
    - apply close_init.
    - apply ahead_refl.
    - exact Hr.
    - exact Ht.
  Qed.
End MatcherPOR.
