(* C18 — the history matchers of Conc/Watch.v (xsync.Watchable) and Conc/Future.v (xsync.Future,
   xsync.Lazy) are certified.

   1. Watchable.  The SHIPPED matcher [Watch.accepts_history cfg ng evs] is the generic matcher of
      GoLTS.v run on the REDUCED relation [cqstep s l = canon (qstep s l)]: after every step dead
      cells are dropped (the cell references in the program counters and the pointer are
      renumbered), unobservable cell values are cleared and the ghost flag [c_set] is erased.
      It is certified against the UNREDUCED model [qstep]:
        - [Rel r L V s c]  ("c is a reduct of s": r renames the cell indices of s that are still
          referenced (L) to those of c, the closed flags agree on L, the values agree on the cells
          whose value can still be read (V)) is a BISIMULATION for [step] / [qstep] that also
          preserves quiescence ([lockstep], [qlockstep]), and it absorbs [canon] ([Rel_canon]);
        - hence every run of [cqstep] from [init] is the image of a run of [qstep] with the same
          labels and conversely ([run_sim_back], [run_sim_fwd]);
        - SOUNDNESS, unconditional ([watch_accepts_sound]): an accepted history is the visible
          trace of a run of [qstep] from [init cfg ng];
        - COMPLETENESS ([watch_accepts_complete], [watch_reject_genuine], [watch_accepts_iff]):
          whenever the closures computed on canonical states converged within the fuel
          ([watch_converged], an executable test), a rejected history is the trace of no run of
          [qstep].
      The unreduced matcher [accepts_history_plain] (the cross-check "P" of the correspondence
      check) is certified the same way ([plain_accepts_sound], [plain_accepts_complete], ...), and
      the two matchers agree wherever both converged ([watch_reduced_eq_plain]).

   2. Future ([Fut.accepts_history]) and Lazy ([Lazy.accepts_history]) are the plain generic
      matcher on [qstep] with complete label enumerations: soundness (unconditional) and
      completeness (when the closures converged: [fut_converged], [lazy_converged]) are
      instances of the generic theorems of GoLTSProofs.v.

   In all three systems events are labels and [lab_eqb] is [false] on internal labels (which are
   never events); this is handled by the extensionality theorems of CondMatcher.v (part 1).
   Stdlib only, no axioms. *)
From Juniper Require Import Common.Base Conc.GoLTS Conc.GoLTSProofs.
From Juniper Require Conc.Watch Conc.Future Conc.WatchProofs Conc.CondMatcher.
From Coq Require Import Arith PeanoNat.
Local Open Scope nat_scope.

(* ---------------------------------------------------------------------- *)
(* generic helpers                                                         *)
(* ---------------------------------------------------------------------- *)

Lemma andl_true_iff (a b : bool) : (if a then b else false) = true <-> a = true /\ b = true.
Proof.
  destruct a, b; simpl; (split; [intros H | intros [H1 H2]]); try discriminate; auto.
Qed.

Lemma bool_eqb_spec a b : Bool.eqb a b = true <-> a = b.
Proof. split; [apply Bool.eqb_prop | intros ->; apply Bool.eqb_reflx]. Qed.

Lemma map_upd {A B} (f : A -> B) (l : list A) n x : map f (upd l n x) = upd (map f l) n (f x).
Proof.
  revert n. induction l as [|h t IH]; intros [|n]; simpl; try reflexivity.
  rewrite IH. reflexivity.
Qed.

Lemma existsb_ext_all {A} (f g : A -> bool) (l : list A) :
  (forall x, f x = g x) -> existsb f l = existsb g l.
Proof.
  intros H. induction l as [|a t IH]; simpl; [reflexivity|]. rewrite H, IH. reflexivity.
Qed.

Lemma run_cons {St Lab} (step : St -> Lab -> option St) s l ls :
  run step s (l :: ls) = match step s l with Some s1 => run step s1 ls | None => None end.
Proof. reflexivity. Qed.

(* ====================================================================== *)
(*                               Watchable                                 *)
(* ====================================================================== *)
Module WatchM.
Import Watch.
Import WatchProofs.

Definition watch_trace : list lab -> list lab := trace lab lab vis.

(* ---------------------------------------------------------------------- *)
(* the equality tests decide equality                                      *)
(* ---------------------------------------------------------------------- *)

Lemma list_eqb_spec {A} (eqb : A -> A -> bool) :
  (forall x y, eqb x y = true <-> x = y) ->
  forall a b, list_eqb eqb a b = true <-> a = b.
Proof.
  intros Hspec a. induction a as [|x a IH]; intros [|y b]; simpl.
  - split; reflexivity.
  - split; discriminate.
  - split; discriminate.
  - rewrite andl_true_iff, Hspec, IH. split.
    + intros [Hx Ha]. subst. reflexivity.
    + intros H. inversion H. split; reflexivity.
Qed.

Lemma optnat_eqb_spec a b : optnat_eqb a b = true <-> a = b.
Proof.
  destruct a as [x|], b as [y|]; simpl; try (split; intros H; try discriminate; reflexivity).
  rewrite Nat.eqb_eq. split; [intros ->; reflexivity | intros H; inversion H; reflexivity].
Qed.

Lemma optnat_eqb_refl a : optnat_eqb a a = true.
Proof. apply optnat_eqb_spec. reflexivity. Qed.

Ltac eqb_crush :=
  repeat match goal with
  | H : (_ && _) = true |- _ => apply andb_true_iff in H; destruct H
  | H : Nat.eqb _ _ = true |- _ => apply Nat.eqb_eq in H
  | H : Z.eqb _ _ = true |- _ => apply Z.eqb_eq in H
  | H : Bool.eqb _ _ = true |- _ => apply Bool.eqb_prop in H
  | H : optnat_eqb _ _ = true |- _ => apply (proj1 (optnat_eqb_spec _ _)) in H
  end; subst.

Lemma pc_eqb_spec a b : pc_eqb a b = true <-> a = b.
Proof.
  split.
  - destruct a, b; simpl; intros H; try discriminate H; eqb_crush; reflexivity.
  - intros ->. destruct b; simpl;
      rewrite ?Nat.eqb_refl, ?Z.eqb_refl, ?Bool.eqb_reflx, ?optnat_eqb_refl; reflexivity.
Qed.

Lemma act_eqb_spec a b : act_eqb a b = true <-> a = b.
Proof.
  split.
  - destruct a, b; simpl; intros H; try discriminate H; eqb_crush; reflexivity.
  - intros ->. destruct b; simpl; rewrite ?Nat.eqb_refl, ?Z.eqb_refl; reflexivity.
Qed.

Lemma thread_eqb_spec a b : thread_eqb a b = true <-> a = b.
Proof.
  destruct a as [g1 p1 c1], b as [g2 p2 c2]. unfold thread_eqb. simpl.
  rewrite !andl_true_iff, pc_eqb_spec, Nat.eqb_eq, optnat_eqb_spec, (list_eqb_spec _ act_eqb_spec).
  split.
  - intros (Hc & _ & Hg & Hp). subst. reflexivity.
  - intros H. inversion H. repeat split; reflexivity.
Qed.

Lemma cell_eqb_spec a b : cell_eqb a b = true <-> a = b.
Proof.
  destruct a as [v1 c1 s1], b as [v2 c2 s2]. unfold cell_eqb. simpl.
  rewrite !andl_true_iff, Z.eqb_eq, !bool_eqb_spec. split.
  - intros (Hv & Hc & Hs). subst. reflexivity.
  - intros H. inversion H. repeat split; reflexivity.
Qed.

Theorem watch_st_eqb_spec a b : st_eqb a b = true <-> a = b.
Proof.
  destruct a as [t1 c1 p1 g1], b as [t2 c2 p2 g2]. unfold st_eqb. simpl.
  rewrite !andl_true_iff, optnat_eqb_spec, (list_eqb_spec _ thread_eqb_spec),
    (list_eqb_spec _ cell_eqb_spec), (list_eqb_spec _ bool_eqb_spec). split.
  - intros (Hp & Ht & Hc & Hg). subst. reflexivity.
  - intros H. inversion H. repeat split; reflexivity.
Qed.

(* ---- events are labels ---- *)

Lemma watch_vis_some l e : vis l = Some e -> e = l.
Proof. destruct l; simpl; intros H; try discriminate; inversion H; reflexivity. Qed.

Lemma watch_vis_idem l e : vis l = Some e -> vis e = Some e.
Proof. intros H. pose proof (watch_vis_some l e H) as He. subst e. exact H. Qed.

Lemma watch_lab_eqb_sound a b : lab_eqb a b = true -> a = b.
Proof. destruct a, b; simpl; intros H; try discriminate H; eqb_crush; reflexivity. Qed.

Lemma watch_lab_eqb_refl_vis a e : vis a = Some e -> lab_eqb a a = true.
Proof.
  destruct a; simpl; intros H; try discriminate H;
    rewrite ?Nat.eqb_refl, ?Z.eqb_refl, ?Bool.eqb_reflx; reflexivity.
Qed.

Theorem watch_lab_eqb_spec a b e : vis b = Some e -> (lab_eqb a b = true <-> a = b).
Proof.
  intros Hv. split; [apply watch_lab_eqb_sound|].
  intros ->. eapply watch_lab_eqb_refl_vis; exact Hv.
Qed.

Definition lab_eqb_tot (a b : lab) : bool :=
  match vis b with Some _ => lab_eqb a b | None => true end.

Lemma lab_eqb_tot_refl a : lab_eqb_tot a a = true.
Proof.
  unfold lab_eqb_tot. destruct (vis a) as [e|] eqn:Ev; [|reflexivity].
  eapply watch_lab_eqb_refl_vis; exact Ev.
Qed.

Lemma lab_eqb_tot_agree (e l e' : lab) : vis l = Some e' -> lab_eqb e e' = lab_eqb_tot e e'.
Proof. intros Hv. unfold lab_eqb_tot. rewrite (watch_vis_idem l e' Hv). reflexivity. Qed.

(* ---- the label enumerations contain every enabled label ---- *)

Ltac in_list := solve [simpl; repeat (first [left; reflexivity | right])].

Theorem watch_tau_labels_complete s l :
  vis l = None -> qstep s l <> None -> In l (tau_labels s).
Proof.
  intros Hv Hs. unfold tau_labels.
  destruct l as [t|g| |t v|t|t|t v b|t|t|t|t|t|t|t]; simpl in Hv; try discriminate Hv; clear Hv;
    (assert (Ht : t < length (ths s))
       by (apply nth_error_Some; intros E; apply Hs; simpl; unfold getth; rewrite E; reflexivity));
    apply in_flat_map; exists t;
    (split; [apply in_seq; split; [apply Nat.le_0_l | exact Ht] | in_list]).
Qed.

Theorem watch_labels_ev_complete (step' : st -> lab -> option st) (s : st) (l e : lab) :
  vis l = Some e -> step' s l <> None -> In l ((fun (_ : st) (x : lab) => [x]) s e).
Proof. intros Hv _. left. apply (watch_vis_some l e Hv). Qed.

(* ---------------------------------------------------------------------- *)
(* the state reduction: "c is a reduct of s"                               *)
(* ---------------------------------------------------------------------- *)

(* renaming of the cell references of a program counter *)
Definition ren_pc (r : nat -> nat) (p : pc) : pc :=
  match p with
  | PSetSwapped (Some k) => PSetSwapped (Some (r k))
  | PValGot k => PValGot (r k)
  | PValPolled k b => PValPolled (r k) b
  | PWait k => PWait (r k)
  | _ => p
  end.

Definition ren_th (r : nat -> nat) (x : thread) : thread :=
  mkT (t_gate x) (t_prog x) (ren_pc r (t_pc x)).

(* every cell a program counter refers to is in L / every cell whose value it can read is in V *)
Definition refs_in (L : nat -> Prop) (p : pc) : Prop :=
  match p with
  | PSetSwapped (Some k) | PValGot k | PValPolled k _ | PWait k => L k
  | _ => True
  end.

Definition reads_in (V : nat -> Prop) (p : pc) : Prop :=
  match p with
  | PValGot k | PValPolled k _ => V k
  | _ => True
  end.

Record Rel (r : nat -> nat) (L V : nat -> Prop) (s c : st) : Prop := mkRel {
  r_gates : gates c = gates s;
  r_ths : ths c = map (ren_th r) (ths s);
  r_ptr : ptr c = option_map r (ptr s);
  r_ptrV : forall k, ptr s = Some k -> V k;
  r_VL : forall k, V k -> L k;
  r_refs : forall t x, nth_error (ths s) t = Some x -> refs_in L (t_pc x) /\ reads_in V (t_pc x);
  r_inj : forall a b, L a -> L b -> r a = r b -> a = b;
  r_cells : forall k, L k ->
            exists cs cc, nth_error (cells s) k = Some cs /\ nth_error (cells c) (r k) = Some cc /\
                          c_closed cc = c_closed cs /\ (V k -> c_val cc = c_val cs)
}.

Arguments r_gates {r L V s c}.
Arguments r_ths {r L V s c}.
Arguments r_ptr {r L V s c}.
Arguments r_ptrV {r L V s c}.
Arguments r_VL {r L V s c}.
Arguments r_refs {r L V s c}.
Arguments r_inj {r L V s c}.
Arguments r_cells {r L V s c}.

(* the relation the simulation is about *)
Definition reduct (s c : st) : Prop := exists r L V, Rel r L V s c.

Lemma ren_pc_id p : ren_pc (fun k => k) p = p.
Proof. destruct p as [| | |v|[k|]| | | | |k|k b|k|]; reflexivity. Qed.

Lemma ren_pc_comp g r p : ren_pc g (ren_pc r p) = ren_pc (fun k => g (r k)) p.
Proof. destruct p as [| | |v|[k|]| | | | |k|k b|k|]; reflexivity. Qed.

Lemma renum_pc_ren lv p : renum_pc lv p = ren_pc (renum lv) p.
Proof. destruct p as [| | |v|[k|]| | | | |k|k b|k|]; reflexivity. Qed.

Lemma ren_pc_ext (L : nat -> Prop) r1 r p :
  (forall k, L k -> r1 k = r k) -> refs_in L p -> ren_pc r1 p = ren_pc r p.
Proof.
  intros H. destruct p as [| | |v|[k|]| | | | |k|k b|k|]; simpl; intros HL;
    try reflexivity; rewrite (H _ HL); reflexivity.
Qed.

Lemma refs_in_mono (L L1 : nat -> Prop) p : (forall k, L k -> L1 k) -> refs_in L p -> refs_in L1 p.
Proof. intros H. destruct p as [| | |v|[k|]| | | | |k|k b|k|]; simpl; auto. Qed.

Lemma reads_in_mono (V V1 : nat -> Prop) p : (forall k, V k -> V1 k) -> reads_in V p -> reads_in V1 p.
Proof. intros H. destruct p as [| | |v|[k|]| | | | |k|k b|k|]; simpl; auto. Qed.

Lemma refs_in_char L x : refs_in L (t_pc x) <-> (forall k, refers k x = true -> L k).
Proof.
  unfold refers. destruct (t_pc x) as [| | |v|[j|]| | | | |j|j b|j|]; simpl; split; intros H;
    try exact I; try (intros k Hk; discriminate Hk);
    try (intros k Hk; apply Nat.eqb_eq in Hk; subst k; exact H);
    apply H; apply Nat.eqb_refl.
Qed.

Lemma reads_in_char V x : reads_in V (t_pc x) <-> (forall k, reads_value k x = true -> V k).
Proof.
  unfold reads_value. destruct (t_pc x) as [| | |v|[j|]| | | | |j|j b|j|]; simpl; split; intros H;
    try exact I; try (intros k Hk; discriminate Hk);
    try (intros k Hk; apply Nat.eqb_eq in Hk; subst k; exact H);
    apply H; apply Nat.eqb_refl.
Qed.

Lemma reads_refers k x : reads_value k x = true -> refers k x = true.
Proof.
  unfold reads_value, refers. destruct (t_pc x) as [| | |v|[j|]| | | | |j|j b|j|]; simpl; auto;
    discriminate.
Qed.

Lemma refers_ren r k x : refers k x = true -> refers (r k) (ren_th r x) = true.
Proof.
  unfold refers. simpl. destruct (t_pc x) as [| | |v|[j|]| | | | |j|j b|j|]; simpl;
    intros H; try discriminate H; apply Nat.eqb_eq in H; subst j; apply Nat.eqb_refl.
Qed.

Lemma reads_ren r k x : reads_value k x = true -> reads_value (r k) (ren_th r x) = true.
Proof.
  unfold reads_value. simpl. destruct (t_pc x) as [| | |v|[j|]| | | | |j|j b|j|]; simpl;
    intros H; try discriminate H; apply Nat.eqb_eq in H; subst j; apply Nat.eqb_refl.
Qed.

Section RelFacts.
  Variables (r : nat -> nat) (L V : nat -> Prop) (s c : st).
  Hypothesis HR : Rel r L V s c.

  Lemma getth_rel t : getth c t = option_map (ren_th r) (getth s t).
  Proof. unfold getth. rewrite (r_ths HR), nth_error_map. reflexivity. Qed.

  Lemma nth_ths_rel t x : nth_error (ths s) t = Some x -> nth_error (ths c) t = Some (ren_th r x).
  Proof. intros Hx. rewrite (r_ths HR), nth_error_map, Hx. reflexivity. Qed.

  Lemma Rel_lt k : L k -> k < length (cells s) /\ r k < length (cells c).
  Proof.
    intros Hk. destruct (r_cells HR k Hk) as (cs & cc & Hcs & Hcc & _).
    split; eapply nth_lt; eassumption.
  Qed.

  Lemma ptr_L k : ptr s = Some k -> L k.
  Proof. intros H. apply (r_VL HR), (r_ptrV HR), H. Qed.

  Lemma ready_rel x : refs_in L (t_pc x) -> ready c (ren_th r x) = ready s x.
  Proof.
    unfold ready. simpl. destruct (t_pc x) as [| | |v|[k|]| | | | |k|k b|k|]; simpl; intros HL;
      try reflexivity.
    - unfold gate_open. simpl. rewrite (r_gates HR). reflexivity.
    - unfold cell_closed. destruct (r_cells HR k HL) as (cs & cc & Hcs & Hcc & Hcl & _).
      rewrite Hcs, Hcc. exact Hcl.
  Qed.

  Lemma poll_rel x : poll_allowed c (ren_th r x) = poll_allowed s x.
  Proof. unfold poll_allowed. simpl. rewrite (r_gates HR). reflexivity. Qed.

  (* one goroutine moves, the store is untouched *)
  Lemma Rel_upd_thread s1 c1 t x x' :
    nth_error (ths s) t = Some x ->
    refs_in L (t_pc x') -> reads_in V (t_pc x') ->
    ths s1 = upd (ths s) t x' -> cells s1 = cells s -> ptr s1 = ptr s -> gates s1 = gates s ->
    ths c1 = upd (ths c) t (ren_th r x') -> cells c1 = cells c -> ptr c1 = ptr c ->
    gates c1 = gates c ->
    Rel r L V s1 c1.
  Proof.
    intros Hx HL HV Ht Hc Hp Hg Ht' Hc' Hp' Hg'. constructor.
    - rewrite Hg', Hg. exact (r_gates HR).
    - rewrite Ht', Ht, (r_ths HR), map_upd. reflexivity.
    - rewrite Hp', Hp. exact (r_ptr HR).
    - rewrite Hp. exact (r_ptrV HR).
    - exact (r_VL HR).
    - intros u y Hu. rewrite Ht in Hu. apply nth_upd_Some in Hu.
      destruct Hu as [[_ ->]|[_ Hu]]; [split; assumption | exact (r_refs HR u y Hu)].
    - exact (r_inj HR).
    - rewrite Hc, Hc'. exact (r_cells HR).
  Qed.

  (* only the gates change *)
  Lemma Rel_same_store s1 c1 :
    ths s1 = ths s -> cells s1 = cells s -> ptr s1 = ptr s ->
    ths c1 = ths c -> cells c1 = cells c -> ptr c1 = ptr c -> gates c1 = gates s1 ->
    Rel r L V s1 c1.
  Proof.
    intros Ht Hc Hp Ht' Hc' Hp' Hg. constructor.
    - exact Hg.
    - rewrite Ht', Ht. exact (r_ths HR).
    - rewrite Hp', Hp. exact (r_ptr HR).
    - rewrite Hp. exact (r_ptrV HR).
    - exact (r_VL HR).
    - rewrite Ht. exact (r_refs HR).
    - exact (r_inj HR).
    - rewrite Hc, Hc'. exact (r_cells HR).
  Qed.

  (* the close step of Set *)
  Lemma Rel_close s1 c1 t x k cs cc :
    nth_error (ths s) t = Some x -> L k ->
    nth_error (cells s) k = Some cs -> nth_error (cells c) (r k) = Some cc ->
    ths s1 = upd (ths s) t (set_pc x PSetClosed) -> cells s1 = upd (cells s) k (close_cell cs) ->
    ptr s1 = ptr s -> gates s1 = gates s ->
    ths c1 = upd (ths c) t (ren_th r (set_pc x PSetClosed)) ->
    cells c1 = upd (cells c) (r k) (close_cell cc) -> ptr c1 = ptr c -> gates c1 = gates c ->
    Rel r L V s1 c1.
  Proof.
    intros Hx Hk Hcs Hcc Ht Hc Hp Hg Ht' Hc' Hp' Hg'. constructor.
    - rewrite Hg', Hg. exact (r_gates HR).
    - rewrite Ht', Ht, (r_ths HR), map_upd. reflexivity.
    - rewrite Hp', Hp. exact (r_ptr HR).
    - rewrite Hp. exact (r_ptrV HR).
    - exact (r_VL HR).
    - intros u y Hu. rewrite Ht in Hu. apply nth_upd_Some in Hu.
      destruct Hu as [[_ ->]|[_ Hu]]; [simpl; split; exact I | exact (r_refs HR u y Hu)].
    - exact (r_inj HR).
    - intros j Hj. rewrite Hc, Hc'. destruct (Nat.eq_dec j k) as [->|Hne].
      + exists (close_cell cs), (close_cell cc).
        split; [eapply nth_upd_same; exact Hcs|]. split; [eapply nth_upd_same; exact Hcc|].
        split; [reflexivity|]. simpl. intros Hv.
        destruct (r_cells HR k Hk) as (cs' & cc' & Hcs' & Hcc' & _ & Hval).
        rewrite Hcs in Hcs'. rewrite Hcc in Hcc'. inversion Hcs'; inversion Hcc'; subst. exact (Hval Hv).
      + destruct (r_cells HR j Hj) as (cs' & cc' & Hcs' & Hcc' & Hcl & Hval).
        exists cs', cc'. rewrite !nth_error_upd_other.
        * repeat split; assumption.
        * intros E. apply Hne. apply (r_inj HR); [exact Hj | exact Hk | symmetry; exact E].
        * intros E. apply Hne. symmetry. exact E.
  Qed.

  (* a fresh cell is published (Swap of Set, successful CompareAndSwap of Value) *)
  Definition ext (n m : nat) : nat -> nat := fun k => if Nat.eqb k n then m else r k.

  Lemma ext_old n m k : k <> n -> ext n m k = r k.
  Proof. intros H. unfold ext. apply Nat.eqb_neq in H. rewrite H. reflexivity. Qed.

  Lemma ext_new n m : ext n m n = m.
  Proof. unfold ext. rewrite Nat.eqb_refl. reflexivity. Qed.

  Lemma Rel_append s1 c1 t x x' v b1 b2 :
    let n := length (cells s) in
    let m := length (cells c) in
    let L1 := fun k => L k \/ k = n in
    let V1 := fun k => V k \/ k = n in
    nth_error (ths s) t = Some x ->
    refs_in L1 (t_pc x') -> reads_in V1 (t_pc x') ->
    ths s1 = upd (ths s) t x' -> cells s1 = cells s ++ [mkCell v false b1] -> ptr s1 = Some n ->
    gates s1 = gates s ->
    ths c1 = upd (ths c) t (ren_th (ext n m) x') -> cells c1 = cells c ++ [mkCell v false b2] ->
    ptr c1 = Some m -> gates c1 = gates c ->
    Rel (ext n m) L1 V1 s1 c1.
  Proof.
    intros n m L1 V1 Hx HL HV Ht Hc Hp Hg Ht' Hc' Hp' Hg'.
    assert (Hold : forall k, L k -> ext n m k = r k).
    { intros k Hk. apply ext_old. destruct (Rel_lt k Hk) as [Hlt _]. unfold n. lia. }
    constructor.
    - rewrite Hg', Hg. exact (r_gates HR).
    - rewrite Ht', Ht, (r_ths HR), map_upd. f_equal. apply map_ext_in. intros y Hy.
      apply In_nth_error in Hy. destruct Hy as [u Hu]. unfold ren_th. f_equal. symmetry.
      apply (ren_pc_ext L); [exact Hold | exact (proj1 (r_refs HR u y Hu))].
    - rewrite Hp', Hp. simpl. rewrite ext_new. reflexivity.
    - intros k Hk. rewrite Hp in Hk. inversion Hk. right. reflexivity.
    - intros k [Hk|Hk]; [left; exact (r_VL HR k Hk) | right; exact Hk].
    - intros u y Hu. rewrite Ht in Hu. apply nth_upd_Some in Hu.
      destruct Hu as [[_ ->]|[_ Hu]]; [split; assumption|].
      destruct (r_refs HR u y Hu) as [H1 H2]. split.
      + apply (refs_in_mono L); [intros k Hk; left; exact Hk | exact H1].
      + apply (reads_in_mono V); [intros k Hk; left; exact Hk | exact H2].
    - intros a b [Ha| ->] [Hb| ->] E.
      + rewrite (Hold a Ha), (Hold b Hb) in E. exact (r_inj HR a b Ha Hb E).
      + rewrite (Hold a Ha), ext_new in E. destruct (Rel_lt a Ha) as [_ Hlt]. unfold m in E. lia.
      + rewrite (Hold b Hb), ext_new in E. destruct (Rel_lt b Hb) as [_ Hlt]. unfold m in E. lia.
      + reflexivity.
    - intros k [Hk| ->]; rewrite Hc, Hc'.
      + destruct (r_cells HR k Hk) as (cs & cc & Hcs & Hcc & Hcl & Hval).
        exists cs, cc. rewrite (Hold k Hk).
        split; [apply nth_app_l; exact Hcs|]. split; [apply nth_app_l; exact Hcc|].
        split; [exact Hcl|]. intros [Hv|Hv]; [exact (Hval Hv)|].
        destruct (Rel_lt k Hk) as [Hlt _]. unfold n in Hv. lia.
      + exists (mkCell v false b1), (mkCell v false b2). rewrite ext_new.
        split; [apply nth_app_last|]. split; [apply nth_app_last|]. split; reflexivity.
  Qed.
End RelFacts.

(* ---------------------------------------------------------------------- *)
(* [Rel] is a bisimulation for [step]                                      *)
(* ---------------------------------------------------------------------- *)

Definition lock (os oc : option st) : Prop :=
  match os, oc with
  | Some s1, Some c1 => reduct s1 c1
  | None, None => True
  | _, _ => False
  end.

Ltac thread_case HR s t x Hx HrL HrV :=
  unfold lock; simpl; rewrite (getth_rel _ _ _ _ _ HR t);
  destruct (getth s t) as [x|] eqn:Hx; simpl; [|exact I];
  unfold getth in Hx; destruct (r_refs HR t x Hx) as [HrL HrV].

(* the new thread is [set_pc x p] (or any thread with the same gate), store untouched *)
Ltac upd_thread HR Hx x' :=
  match type of HR with
  | Rel ?r ?L ?V ?s ?c =>
      exists r, L, V;
      apply (Rel_upd_thread r L V s c HR _ _ _ _ x' Hx); simpl; auto
  end.

Theorem lockstep r L V s c l : Rel r L V s c -> lock (step s l) (step c l).
Proof.
  intros HR.
  destruct l as [t|g| |t v|t|t|t v b|t|t|t|t|t|t|t].
  - (* LSpawn *)
    thread_case HR s t x Hx HrL HrV.
    destruct (t_pc x) as [| | |w|[k|]| | | | |k|k b|k|] eqn:Hp; simpl; try exact I.
    upd_thread HR Hx (set_pc x PGate).
  - (* LRelease *)
    unfold lock. simpl. rewrite (r_gates HR).
    destruct (g <? length (gates s)); [|exact I].
    exists r, L, V. apply (Rel_same_store r L V s c HR); simpl; reflexivity.
  - (* LQuiesce *) exact I.
  - (* LCallSet *)
    thread_case HR s t x Hx HrL HrV.
    destruct (t_prog x) as [|[w| |g|] rest] eqn:Hprog; simpl; try exact I.
    rewrite (ready_rel r L V s c HR x HrL).
    destruct (ready s x && Z.eqb v w); [|exact I].
    upd_thread HR Hx (set_pc x (PSetCalled v)).
  - (* LRetSet *)
    thread_case HR s t x Hx HrL HrV.
    destruct (t_pc x) as [| | |w|[k|]| | | | |k|k b|k|] eqn:Hp; simpl; try exact I.
    upd_thread HR Hx (mkT (t_gate x) (tl (t_prog x)) PReady).
  - (* LCallValue *)
    thread_case HR s t x Hx HrL HrV.
    destruct (t_prog x) as [|[w| |g|] rest] eqn:Hprog; simpl; try exact I;
      rewrite (ready_rel r L V s c HR x HrL);
      (destruct (ready s x); [|exact I]);
      upd_thread HR Hx (set_pc x PValCalled).
  - (* LRetValue *)
    thread_case HR s t x Hx HrL HrV.
    destruct (t_pc x) as [| | |w|[k|]| | | | |k|k b'|k|] eqn:Hp; simpl; try exact I.
    simpl in HrL, HrV.
    destruct (r_cells HR k HrL) as (cs & cc & Hcs & Hcc & Hcl & Hval).
    rewrite Hcs, Hcc, (Hval HrV).
    destruct (Z.eqb (c_val cs) v && Bool.eqb b b'); [|exact I].
    destruct (t_prog x) as [|[w| |g|] rest] eqn:Hprog; simpl; try exact I.
    + upd_thread HR Hx (mkT (t_gate x) rest PReady).
    + upd_thread HR Hx (mkT (t_gate x) rest PReady).
    + upd_thread HR Hx (set_pc x (PWait k)).
  - (* LPanic *) exact I.
  - (* TSwap *)
    thread_case HR s t x Hx HrL HrV.
    destruct (t_pc x) as [| | |w|[k|]| | | | |k|k b|k|] eqn:Hp; simpl; try exact I.
    exists (ext r (length (cells s)) (length (cells c))),
           (fun k => L k \/ k = length (cells s)), (fun k => V k \/ k = length (cells s)).
    apply (Rel_append r L V s c HR _ _ t x (set_pc x (PSetSwapped (ptr s))) w true true Hx);
      simpl; auto.
    + destruct (ptr s) as [p|] eqn:Hptr; simpl; [|exact I]. left. exact (ptr_L r L V s c HR p Hptr).
    + rewrite (r_ptr HR). destruct (ptr s) as [p|] eqn:Hptr; simpl; [|reflexivity].
      unfold ren_th, set_pc. simpl. rewrite ext_old; [reflexivity|].
      destruct (Rel_lt r L V s c HR p (ptr_L r L V s c HR p Hptr)) as [Hlt _]. lia.
  - (* TClose *)
    thread_case HR s t x Hx HrL HrV.
    destruct (t_pc x) as [| | |w|[k|]| | | | |k|k b|k|] eqn:Hp; simpl; try exact I.
    + simpl in HrL.
      destruct (r_cells HR k HrL) as (cs & cc & Hcs & Hcc & Hcl & Hval).
      rewrite Hcs, Hcc, Hcl. destruct (c_closed cs) eqn:Hcd.
      * upd_thread HR Hx (set_pc x PPanic).
      * exists r, L, V.
        apply (Rel_close r L V s c HR _ _ t x k cs cc Hx HrL Hcs Hcc); reflexivity.
    + upd_thread HR Hx (set_pc x PSetClosed).
  - (* TLoad *)
    thread_case HR s t x Hx HrL HrV.
    destruct (t_pc x) as [| | |w|[k|]| | | | |k|k b|k|] eqn:Hp; simpl; try exact I.
    rewrite (r_ptr HR). destruct (ptr s) as [p|] eqn:Hptr; simpl.
    + upd_thread HR Hx (set_pc x (PValGot p)).
      * exact (ptr_L r L V s c HR p Hptr).
      * exact (r_ptrV HR p Hptr).
    + upd_thread HR Hx (set_pc x PValNil).
  - (* TCas *)
    thread_case HR s t x Hx HrL HrV.
    destruct (t_pc x) as [| | |w|[k|]| | | | |k|k b|k|] eqn:Hp; simpl; try exact I.
    rewrite (r_ptr HR). destruct (ptr s) as [p|] eqn:Hptr; simpl.
    + upd_thread HR Hx (set_pc x PValCasFailed).
    + exists (ext r (length (cells s)) (length (cells c))),
             (fun k => L k \/ k = length (cells s)), (fun k => V k \/ k = length (cells s)).
      apply (Rel_append r L V s c HR _ _ t x (set_pc x (PValGot (length (cells s)))) 0%Z false false Hx);
        simpl; auto.
      unfold ren_th, set_pc. simpl. rewrite ext_new. reflexivity.
  - (* TReload *)
    thread_case HR s t x Hx HrL HrV.
    destruct (t_pc x) as [| | |w|[k|]| | | | |k|k b|k|] eqn:Hp; simpl; try exact I.
    rewrite (r_ptr HR). destruct (ptr s) as [p|] eqn:Hptr; simpl.
    + upd_thread HR Hx (set_pc x (PValGot p)).
      * exact (ptr_L r L V s c HR p Hptr).
      * exact (r_ptrV HR p Hptr).
    + upd_thread HR Hx (set_pc x PPanic).
  - (* TPoll *)
    thread_case HR s t x Hx HrL HrV.
    destruct (t_pc x) as [| | |w|[k|]| | | | |k|k b|k|] eqn:Hp; simpl; try exact I.
    simpl in HrL, HrV.
    destruct (r_cells HR k HrL) as (cs & cc & Hcs & Hcc & Hcl & Hval).
    rewrite Hcs, Hcc, Hcl, (poll_rel r L V s c HR x).
    destruct (poll_allowed s x); [|exact I].
    upd_thread HR Hx (set_pc x (PValPolled k (c_closed cs))).
Qed.

(* ---- quiescence is preserved ---- *)

Lemma enabled_rel r L V s c l : Rel r L V s c -> enabled c l = enabled s l.
Proof.
  intros HR. pose proof (lockstep r L V s c l HR) as H. unfold lock in H. unfold enabled.
  destruct (step s l), (step c l); try reflexivity; destruct H.
Qed.

Lemma tau_labels_rel r L V s c : Rel r L V s c -> tau_labels c = tau_labels s.
Proof. intros HR. unfold tau_labels. rewrite (r_ths HR), map_length. reflexivity. Qed.

Lemma thread_visible_rel r L V s c t : Rel r L V s c -> thread_visible c t = thread_visible s t.
Proof.
  intros HR. unfold thread_visible. rewrite (getth_rel r L V s c HR t).
  destruct (getth s t) as [x|] eqn:Hx; simpl; [|reflexivity].
  unfold getth in Hx. destruct (r_refs HR t x Hx) as [HrL HrV].
  destruct (t_pc x) as [| | |w|[k|]| | | | |k|k b|k|] eqn:Hp; simpl; try reflexivity.
  simpl in HrL, HrV. destruct (r_cells HR k HrL) as (cs & cc & Hcs & Hcc & Hcl & Hval).
  rewrite Hcs, Hcc, (Hval HrV). reflexivity.
Qed.

Lemma lib_visible_rel r L V s c : Rel r L V s c -> lib_visible c = lib_visible s.
Proof.
  intros HR. unfold lib_visible. rewrite (r_ths HR), map_length.
  apply flat_map_ext. intros t. apply (thread_visible_rel r L V s c t HR).
Qed.

Lemma quiescent_rel r L V s c : Rel r L V s c -> quiescent c = quiescent s.
Proof.
  intros HR. unfold quiescent.
  rewrite (tau_labels_rel r L V s c HR), (lib_visible_rel r L V s c HR).
  rewrite (existsb_ext_all (enabled c) (enabled s) (tau_labels s)
             (fun l => enabled_rel r L V s c l HR)).
  rewrite (existsb_ext_all (enabled c) (enabled s) (lib_visible s)
             (fun l => enabled_rel r L V s c l HR)).
  reflexivity.
Qed.

Theorem qlockstep r L V s c l : Rel r L V s c -> lock (qstep s l) (qstep c l).
Proof.
  intros HR.
  destruct l as [t|g| |t v|t|t|t v b|t|t|t|t|t|t|t];
    try (match goal with |- lock (qstep _ ?l) (qstep _ _) => exact (lockstep r L V s c l HR) end).
  unfold lock. simpl. rewrite (quiescent_rel r L V s c HR).
  destruct (quiescent s); [|exact I]. exists r, L, V. exact HR.
Qed.

(* ---------------------------------------------------------------------- *)
(* [canon c] is a reduct of whatever [c] is a reduct of                    *)
(* ---------------------------------------------------------------------- *)

Lemma live_nth c : forall cs i k,
  nth_error (live_from c i cs) k = option_map (fun cc => negb (dead c (i + k) cc)) (nth_error cs k).
Proof.
  induction cs as [|a cs IH]; intros i [|k]; simpl; try reflexivity.
  - rewrite Nat.add_0_r. reflexivity.
  - rewrite IH, Nat.add_succ_r. reflexivity.
Qed.

Lemma compact_nth c : forall cs i k cc,
  nth_error cs k = Some cc -> dead c (i + k) cc = false ->
  nth_error (compact_from c i cs) (renum (live_from c i cs) k) =
  Some (mkCell (if optnat_eqb (ptr c) (Some (i + k)) || existsb (reads_value (i + k)) (ths c)
                then c_val cc else 0%Z) (c_closed cc) true).
Proof.
  induction cs as [|a cs IH]; intros i [|k] cc Hk Hd; simpl in Hk; try discriminate Hk.
  - inversion Hk; subst a. rewrite Nat.add_0_r in *. simpl. rewrite Hd. reflexivity.
  - rewrite Nat.add_succ_r in *. specialize (IH (S i) k cc Hk Hd). simpl.
    destruct (dead c i a); simpl; exact IH.
Qed.

Lemma renum_inj : forall lv a b,
  nth_error lv a = Some true -> nth_error lv b = Some true -> renum lv a = renum lv b -> a = b.
Proof.
  induction lv as [|x lv IH]; intros [|a] [|b] Ha Hb E; simpl in *; try discriminate; try reflexivity.
  - inversion Ha; subst x. simpl in E. discriminate E.
  - inversion Hb; subst x. simpl in E. discriminate E.
  - f_equal. apply IH; try assumption. lia.
Qed.

Lemma ths_canon c :
  ths (canon c) = map (ren_th (renum (live_from c 0 (cells c)))) (ths c).
Proof.
  unfold canon. simpl. apply map_ext. intros x. unfold ren_th. rewrite renum_pc_ren. reflexivity.
Qed.

Lemma cells_canon c : cells (canon c) = compact_from c 0 (cells c).
Proof. reflexivity. Qed.

Lemma ptr_canon c : ptr (canon c) = option_map (renum (live_from c 0 (cells c))) (ptr c).
Proof. unfold canon. simpl. destruct (ptr c); reflexivity. Qed.

Lemma gates_canon c : gates (canon c) = gates c.
Proof. reflexivity. Qed.

(* the cells of s that are still referenced / whose value can still be read *)
Definition referenced (s : st) (k : nat) : Prop :=
  ptr s = Some k \/ exists t x, nth_error (ths s) t = Some x /\ refers k x = true.
Definition readable (s : st) (k : nat) : Prop :=
  ptr s = Some k \/ exists t x, nth_error (ths s) t = Some x /\ reads_value k x = true.

Theorem Rel_canon r L V s c :
  Rel r L V s c ->
  Rel (fun k => renum (live_from c 0 (cells c)) (r k))
      (fun k => L k /\ referenced s k) (fun k => V k /\ readable s k) s (canon c).
Proof.
  intros HR.
  set (lv := live_from c 0 (cells c)).
  (* a referenced cell is not dead in c *)
  assert (Hlive : forall k cc, L k -> referenced s k -> nth_error (cells c) (r k) = Some cc ->
                               dead c (r k) cc = false).
  { intros k cc Hk Href Hcc. unfold dead. destruct (c_closed cc); [|reflexivity]. simpl.
    destruct Href as [Hptr|(t & x & Hx & Hrf)].
    - rewrite (r_ptr HR), Hptr. simpl. rewrite Nat.eqb_refl. reflexivity.
    - assert (E : existsb (refers (r k)) (ths c) = true).
      { apply existsb_exists. exists (ren_th r x). split.
        - eapply nth_error_In. apply (nth_ths_rel r L V s c HR t x Hx).
        - apply refers_ren. exact Hrf. }
      rewrite E. apply andb_false_r. }
  assert (Hlv : forall k, L k -> referenced s k -> nth_error lv (r k) = Some true).
  { intros k Hk Href. destruct (r_cells HR k Hk) as (cs & cc & _ & Hcc & _).
    unfold lv. rewrite live_nth, Hcc. simpl. rewrite (Hlive k cc Hk Href Hcc). reflexivity. }
  constructor.
  - rewrite gates_canon. exact (r_gates HR).
  - rewrite ths_canon, (r_ths HR), map_map. apply map_ext. intros x.
    unfold ren_th. simpl. rewrite ren_pc_comp. reflexivity.
  - rewrite ptr_canon, (r_ptr HR). destruct (ptr s); reflexivity.
  - intros k Hk. split; [exact (r_ptrV HR k Hk) | left; exact Hk].
  - intros k [Hk Hrd]. split; [exact (r_VL HR k Hk)|].
    destruct Hrd as [Hp|(t & x & Hx & Hrv)]; [left; exact Hp|].
    right. exists t, x. split; [exact Hx | apply reads_refers; exact Hrv].
  - intros t x Hx. destruct (r_refs HR t x Hx) as [H1 H2]. split.
    + apply refs_in_char. intros k Hk. split.
      * exact (proj1 (refs_in_char L x) H1 k Hk).
      * right. exists t, x. split; assumption.
    + apply reads_in_char. intros k Hk. split.
      * exact (proj1 (reads_in_char V x) H2 k Hk).
      * right. exists t, x. split; assumption.
  - intros a b [Ha Hra] [Hb Hrb] E.
    apply (r_inj HR a b Ha Hb).
    apply (renum_inj lv); [exact (Hlv a Ha Hra) | exact (Hlv b Hb Hrb) | exact E].
  - intros k [Hk Href].
    destruct (r_cells HR k Hk) as (cs & cc & Hcs & Hcc & Hcl & Hval).
    pose proof (compact_nth c (cells c) 0 (r k) cc Hcc (Hlive k cc Hk Href Hcc)) as Hn.
    simpl in Hn.
    eexists cs, _. split; [exact Hcs|]. split; [rewrite cells_canon; exact Hn|].
    split; [exact Hcl|]. simpl. intros [Hv Hrd].
    assert (E : optnat_eqb (ptr c) (Some (r k)) || existsb (reads_value (r k)) (ths c) = true).
    { destruct Hrd as [Hptr|(t & x & Hx & Hrv)].
      - rewrite (r_ptr HR), Hptr. simpl. rewrite Nat.eqb_refl. reflexivity.
      - apply orb_true_iff. right. apply existsb_exists. exists (ren_th r x). split.
        + eapply nth_error_In. apply (nth_ths_rel r L V s c HR t x Hx).
        + apply reads_ren. exact Hrv. }
    rewrite E. exact (Hval Hv).
Qed.

Corollary reduct_canon s c : reduct s c -> reduct s (canon c).
Proof. intros (r & L & V & HR). eexists _, _, _. exact (Rel_canon r L V s c HR). Qed.

Lemma ren_th_id x : ren_th (fun k => k) x = x.
Proof. destruct x as [g p q]. unfold ren_th. simpl. rewrite ren_pc_id. reflexivity. Qed.

Lemma reduct_init cfg ng : reduct (init cfg ng) (init cfg ng).
Proof.
  exists (fun k => k), (fun _ => False), (fun _ => False). constructor; simpl.
  - reflexivity.
  - symmetry. erewrite map_ext; [apply map_id | exact ren_th_id].
  - reflexivity.
  - intros k Hk. discriminate Hk.
  - intros k [].
  - intros t x Hx. rewrite nth_error_map in Hx. destruct (nth_error cfg t); [|discriminate Hx].
    inversion Hx. simpl. split; exact I.
  - intros a b [].
  - intros k [].
Qed.

(* ---------------------------------------------------------------------- *)
(* runs of the reduced relation = runs of the model                        *)
(* ---------------------------------------------------------------------- *)

(* one step of the model against one step of the reduced relation *)
Theorem cqlockstep s c l : reduct s c -> lock (qstep s l) (cqstep c l).
Proof.
  intros (r & L & V & HR). pose proof (qlockstep r L V s c l HR) as H.
  unfold cqstep, lock in *. destruct (qstep s l) as [s1|], (qstep c l) as [c1|]; try exact H.
  apply reduct_canon. exact H.
Qed.

(* every run of the reduced relation is the image of a run of the model (same labels) *)
Theorem run_sim_back : forall ls s c c',
  reduct s c -> run cqstep c ls = Some c' ->
  exists s', run qstep s ls = Some s' /\ reduct s' c'.
Proof.
  induction ls as [|l ls IH]; intros s c c' HR Hr.
  - simpl in Hr. inversion Hr; subst c'. exists s. split; [reflexivity | exact HR].
  - rewrite run_cons in Hr. pose proof (cqlockstep s c l HR) as H. unfold lock in H.
    destruct (cqstep c l) as [c1|]; [|discriminate Hr].
    destruct (qstep s l) as [s1|] eqn:Es; [|destruct H].
    destruct (IH s1 c1 c' H Hr) as (s' & Hr' & HR').
    exists s'. split; [rewrite run_cons, Es; exact Hr' | exact HR'].
Qed.

(* ... and every run of the model has an image *)
Theorem run_sim_fwd : forall ls s c s',
  reduct s c -> run qstep s ls = Some s' ->
  exists c', run cqstep c ls = Some c' /\ reduct s' c'.
Proof.
  induction ls as [|l ls IH]; intros s c s' HR Hr.
  - simpl in Hr. inversion Hr; subst s'. exists c. split; [reflexivity | exact HR].
  - rewrite run_cons in Hr. pose proof (cqlockstep s c l HR) as H. unfold lock in H.
    destruct (qstep s l) as [s1|]; [|discriminate Hr].
    destruct (cqstep c l) as [c1|] eqn:Ec; [|destruct H].
    destruct (IH s1 c1 s' H Hr) as (c' & Hr' & HR').
    exists c'. split; [rewrite run_cons, Ec; exact Hr' | exact HR'].
Qed.

(* ---------------------------------------------------------------------- *)
(* the shipped matcher (on canonical states)                               *)
(* ---------------------------------------------------------------------- *)

(* SOUNDNESS (unconditional): an accepted history is the visible trace of a run of the
   UNREDUCED model *)
Theorem watch_accepts_sound cfg ng evs :
  accepts_history cfg ng evs = true ->
  exists ls s, run qstep (init cfg ng) ls = Some s /\ watch_trace ls = evs.
Proof.
  unfold accepts_history, watch_trace. intros H.
  destruct (accepts_sound st lab lab cqstep vis lab_eqb st_eqb tau_labels (fun _ e => [e])
              watch_lab_eqb_sound 64 (init cfg ng) evs H) as (ls & c & Hr & Ht).
  destruct (run_sim_back ls (init cfg ng) (init cfg ng) c (reduct_init cfg ng) Hr) as (s & Hr' & _).
  exists ls, s. split; [exact Hr' | exact Ht].
Qed.

(* the executable convergence test (closures of canonical states) *)
Definition watch_converged (cfg : list (option nat * list act)) (ng : nat) (evs : list lab) : bool :=
  convergedb st lab lab cqstep vis lab_eqb st_eqb tau_labels (fun _ e => [e]) 64 (init cfg ng) evs.

Lemma cq_tau_labels_complete s l : vis l = None -> cqstep s l <> None -> In l (tau_labels s).
Proof.
  intros Hv Hs. apply watch_tau_labels_complete; [exact Hv|].
  intros E. apply Hs. unfold cqstep. rewrite E. reflexivity.
Qed.

Lemma watch_accepts_tot cfg ng evs :
  accepts_history cfg ng evs =
  accepts cqstep vis lab_eqb_tot st_eqb tau_labels (fun _ e => [e]) 64 (init cfg ng) evs.
Proof.
  unfold accepts_history.
  apply (CondMatcher.accepts_ext st lab lab cqstep vis lab_eqb lab_eqb_tot st_eqb st_eqb tau_labels
           (fun _ e => [e]) (fun _ => True)).
  - intros; exact I.
  - intros; reflexivity.
  - exact lab_eqb_tot_agree.
  - exact I.
Qed.

Lemma watch_converged_tot cfg ng evs :
  watch_converged cfg ng evs =
  convergedb st lab lab cqstep vis lab_eqb_tot st_eqb tau_labels (fun _ e => [e]) 64 (init cfg ng) evs.
Proof.
  unfold watch_converged.
  apply (CondMatcher.convergedb_ext st lab lab cqstep vis lab_eqb lab_eqb_tot st_eqb st_eqb tau_labels
           (fun _ e => [e]) (fun _ => True)).
  - intros; exact I.
  - intros; reflexivity.
  - exact lab_eqb_tot_agree.
  - exact I.
Qed.

(* COMPLETENESS: when the closures converged, the history of every run of the UNREDUCED model
   is accepted *)
Theorem watch_accepts_complete cfg ng evs ls s :
  watch_converged cfg ng evs = true ->
  run qstep (init cfg ng) ls = Some s -> watch_trace ls = evs ->
  accepts_history cfg ng evs = true.
Proof.
  intros Hc Hr Ht.
  destruct (run_sim_fwd ls (init cfg ng) (init cfg ng) s (reduct_init cfg ng) Hr) as (c & Hr' & _).
  rewrite watch_converged_tot in Hc. rewrite watch_accepts_tot. unfold watch_trace in Ht.
  exact (accepts_complete_b st lab lab cqstep vis lab_eqb_tot st_eqb tau_labels (fun _ e => [e])
           watch_st_eqb_spec lab_eqb_tot_refl cq_tau_labels_complete
           (watch_labels_ev_complete cqstep) 64 (init cfg ng) evs ls c Hc Hr' Ht).
Qed.

Theorem watch_reject_genuine cfg ng evs :
  watch_converged cfg ng evs = true -> accepts_history cfg ng evs = false ->
  forall ls s, run qstep (init cfg ng) ls = Some s -> watch_trace ls <> evs.
Proof.
  intros Hc Hacc ls s Hr Ht.
  rewrite (watch_accepts_complete cfg ng evs ls s Hc Hr Ht) in Hacc. discriminate.
Qed.

Theorem watch_accepts_iff cfg ng evs :
  watch_converged cfg ng evs = true ->
  (accepts_history cfg ng evs = true <->
   exists ls s, run qstep (init cfg ng) ls = Some s /\ watch_trace ls = evs).
Proof.
  intros Hc. split.
  - apply watch_accepts_sound.
  - intros (ls & s & Hr & Ht). eapply watch_accepts_complete; eassumption.
Qed.

(* ---------------------------------------------------------------------- *)
(* the unreduced matcher (cross-check "P")                                 *)
(* ---------------------------------------------------------------------- *)

Definition plain_converged (cfg : list (option nat * list act)) (ng : nat) (evs : list lab) : bool :=
  convergedb st lab lab qstep vis lab_eqb st_eqb tau_labels (fun _ e => [e]) 64 (init cfg ng) evs.

Theorem plain_accepts_sound cfg ng evs :
  accepts_history_plain cfg ng evs = true ->
  exists ls s, run qstep (init cfg ng) ls = Some s /\ watch_trace ls = evs.
Proof.
  unfold accepts_history_plain, watch_trace.
  apply (accepts_sound st lab lab qstep vis lab_eqb st_eqb tau_labels (fun _ e => [e])
           watch_lab_eqb_sound).
Qed.

Theorem plain_accepts_complete cfg ng evs ls s :
  plain_converged cfg ng evs = true ->
  run qstep (init cfg ng) ls = Some s -> watch_trace ls = evs ->
  accepts_history_plain cfg ng evs = true.
Proof.
  unfold plain_converged, accepts_history_plain, watch_trace.
  rewrite (CondMatcher.convergedb_ext st lab lab qstep vis lab_eqb lab_eqb_tot st_eqb st_eqb tau_labels
             (fun _ e => [e]) (fun _ => True) (fun _ _ _ _ _ => I) (fun _ _ _ _ => eq_refl)
             lab_eqb_tot_agree 64 (init cfg ng) evs I).
  rewrite (CondMatcher.accepts_ext st lab lab qstep vis lab_eqb lab_eqb_tot st_eqb st_eqb tau_labels
             (fun _ e => [e]) (fun _ => True) (fun _ _ _ _ _ => I) (fun _ _ _ _ => eq_refl)
             lab_eqb_tot_agree 64 (init cfg ng) evs I).
  apply (accepts_complete_b st lab lab qstep vis lab_eqb_tot st_eqb tau_labels (fun _ e => [e])
           watch_st_eqb_spec lab_eqb_tot_refl watch_tau_labels_complete
           (watch_labels_ev_complete qstep)).
Qed.

Theorem plain_reject_genuine cfg ng evs :
  plain_converged cfg ng evs = true -> accepts_history_plain cfg ng evs = false ->
  forall ls s, run qstep (init cfg ng) ls = Some s -> watch_trace ls <> evs.
Proof.
  intros Hc Hacc ls s Hr Ht.
  rewrite (plain_accepts_complete cfg ng evs ls s Hc Hr Ht) in Hacc. discriminate.
Qed.

(* the state reduction does not change the verdict (wherever both searches converged) *)
Theorem watch_reduced_eq_plain cfg ng evs :
  watch_converged cfg ng evs = true -> plain_converged cfg ng evs = true ->
  accepts_history cfg ng evs = accepts_history_plain cfg ng evs.
Proof.
  intros Hc Hp.
  destruct (accepts_history cfg ng evs) eqn:Ea, (accepts_history_plain cfg ng evs) eqn:Eb;
    try reflexivity.
  - destruct (watch_accepts_sound cfg ng evs Ea) as (ls & s & Hr & Ht).
    rewrite (plain_accepts_complete cfg ng evs ls s Hp Hr Ht) in Eb. discriminate.
  - destruct (plain_accepts_sound cfg ng evs Eb) as (ls & s & Hr & Ht).
    rewrite (watch_accepts_complete cfg ng evs ls s Hc Hr Ht) in Ea. discriminate.
Qed.

End WatchM.

(* ====================================================================== *)
(*                                Future                                   *)
(* ====================================================================== *)
Module FutM.
Import Future.
Import Fut.

Definition fut_trace : list lab -> list lab := trace lab lab vis.

Lemma list_eqb_spec {A} (eqb : A -> A -> bool) :
  (forall x y, eqb x y = true <-> x = y) ->
  forall a b, list_eqb eqb a b = true <-> a = b.
Proof.
  intros Hspec a. induction a as [|x a IH]; intros [|y b]; simpl.
  - split; reflexivity.
  - split; discriminate.
  - split; discriminate.
  - rewrite andl_true_iff, Hspec, IH. split.
    + intros [Hx Ha]. subst. reflexivity.
    + intros H. inversion H. split; reflexivity.
Qed.

Lemma optnat_eqb_spec a b : optnat_eqb a b = true <-> a = b.
Proof.
  destruct a as [x|], b as [y|]; simpl; try (split; intros H; try discriminate; reflexivity).
  rewrite Nat.eqb_eq. split; [intros ->; reflexivity | intros H; inversion H; reflexivity].
Qed.

Lemma cstate_eqb_spec a b : cstate_eqb a b = true <-> a = b.
Proof. destruct a, b; simpl; split; intros H; try discriminate; reflexivity. Qed.

Ltac eqb_crush :=
  repeat match goal with
  | H : (_ && _) = true |- _ => apply andb_true_iff in H; destruct H
  | H : Nat.eqb _ _ = true |- _ => apply Nat.eqb_eq in H
  | H : Z.eqb _ _ = true |- _ => apply Z.eqb_eq in H
  | H : Bool.eqb _ _ = true |- _ => apply Bool.eqb_prop in H
  end; subst.

Lemma kind_eqb_spec a b : kind_eqb a b = true <-> a = b.
Proof.
  split.
  - destruct a, b; simpl; intros H; try discriminate H; eqb_crush; reflexivity.
  - intros ->. destruct b; simpl; rewrite ?Nat.eqb_refl, ?Z.eqb_refl; reflexivity.
Qed.

Lemma pc_eqb_spec a b : pc_eqb a b = true <-> a = b.
Proof.
  split.
  - destruct a, b; simpl; intros H; try discriminate H; eqb_crush; reflexivity.
  - intros ->. destruct b; simpl; rewrite ?Z.eqb_refl; reflexivity.
Qed.

Lemma thread_eqb_spec a b : thread_eqb a b = true <-> a = b.
Proof.
  destruct a as [g1 k1 p1], b as [g2 k2 p2]. unfold thread_eqb. simpl.
  rewrite !andl_true_iff, pc_eqb_spec, kind_eqb_spec, optnat_eqb_spec. split.
  - intros (Hp & Hk & Hg). subst. reflexivity.
  - intros H. inversion H. repeat split; reflexivity.
Qed.

Theorem fut_st_eqb_spec a b : st_eqb a b = true <-> a = b.
Proof.
  destruct a as [t1 x1 c1 f1 w1 k1 g1], b as [t2 x2 c2 f2 w2 k2 g2]. unfold st_eqb. simpl.
  rewrite !andl_true_iff, !bool_eqb_spec, Z.eqb_eq, (list_eqb_spec _ thread_eqb_spec),
    (list_eqb_spec _ cstate_eqb_spec), (list_eqb_spec _ bool_eqb_spec), optnat_eqb_spec. split.
  - intros (Hc & Hx & Ht & Hk & Hg & Hf & Hw). subst. reflexivity.
  - intros H. inversion H. repeat split; reflexivity.
Qed.

Lemma fut_vis_some l e : vis l = Some e -> e = l.
Proof. destruct l; simpl; intros H; try discriminate; inversion H; reflexivity. Qed.

Lemma fut_vis_idem l e : vis l = Some e -> vis e = Some e.
Proof. intros H. pose proof (fut_vis_some l e H) as He. subst e. exact H. Qed.

Lemma fut_lab_eqb_sound a b : lab_eqb a b = true -> a = b.
Proof. destruct a, b; simpl; intros H; try discriminate H; eqb_crush; reflexivity. Qed.

Lemma fut_lab_eqb_refl_vis a e : vis a = Some e -> lab_eqb a a = true.
Proof.
  destruct a; simpl; intros H; try discriminate H;
    rewrite ?Nat.eqb_refl, ?Z.eqb_refl, ?Bool.eqb_reflx; reflexivity.
Qed.

Theorem fut_lab_eqb_spec a b e : vis b = Some e -> (lab_eqb a b = true <-> a = b).
Proof.
  intros Hv. split; [apply fut_lab_eqb_sound|].
  intros ->. eapply fut_lab_eqb_refl_vis; exact Hv.
Qed.

Ltac in_list := solve [simpl; repeat (first [left; reflexivity | right])].

Theorem fut_tau_labels_complete s l :
  vis l = None -> qstep s l <> None -> In l (tau_labels s).
Proof.
  intros Hv Hs. unfold tau_labels.
  destruct l as [t|g|c| |t v|t|t|t|t v|t c|t v e|t|t|t|t|t|t|t|t|t|c];
    simpl in Hv; try discriminate Hv; clear Hv.
  1-9: (assert (Ht : t < length (ths s))
          by (apply nth_error_Some; intros E; apply Hs; simpl; unfold getth; rewrite E; reflexivity));
       apply in_or_app; left; apply in_flat_map; exists t;
       (split; [apply in_seq; split; [apply Nat.le_0_l | exact Ht] | in_list]).
  apply in_or_app; right. apply in_map. apply in_seq. split; [apply Nat.le_0_l|]. simpl.
  apply nth_error_Some. intros E. apply Hs. simpl. rewrite E. reflexivity.
Qed.

Theorem fut_labels_ev_complete (s : st) (l e : lab) :
  vis l = Some e -> qstep s l <> None -> In l ((fun (_ : st) (x : lab) => [x]) s e).
Proof. intros Hv _. left. apply (fut_vis_some l e Hv). Qed.

Definition fut_converged (cfg : list (option nat * kind)) (nctx ng : nat) (evs : list lab) : bool :=
  convergedb st lab lab qstep vis lab_eqb st_eqb tau_labels (fun _ e => [e]) 64 (init cfg nctx ng) evs.

(* SOUNDNESS (unconditional) *)
Theorem fut_accepts_sound cfg nctx ng evs :
  accepts_history cfg nctx ng evs = true ->
  exists ls s, run qstep (init cfg nctx ng) ls = Some s /\ fut_trace ls = evs.
Proof.
  unfold accepts_history, fut_trace.
  apply (accepts_sound st lab lab qstep vis lab_eqb st_eqb tau_labels (fun _ e => [e])
           fut_lab_eqb_sound).
Qed.

Definition lab_eqb_tot (a b : lab) : bool :=
  match vis b with Some _ => lab_eqb a b | None => true end.

Lemma lab_eqb_tot_refl a : lab_eqb_tot a a = true.
Proof.
  unfold lab_eqb_tot. destruct (vis a) as [e|] eqn:Ev; [|reflexivity].
  eapply fut_lab_eqb_refl_vis; exact Ev.
Qed.

Lemma lab_eqb_tot_agree (e l e' : lab) : vis l = Some e' -> lab_eqb e e' = lab_eqb_tot e e'.
Proof. intros Hv. unfold lab_eqb_tot. rewrite (fut_vis_idem l e' Hv). reflexivity. Qed.

Lemma fut_accepts_tot cfg nctx ng evs :
  accepts_history cfg nctx ng evs =
  accepts qstep vis lab_eqb_tot st_eqb tau_labels (fun _ e => [e]) 64 (init cfg nctx ng) evs.
Proof.
  unfold accepts_history.
  apply (CondMatcher.accepts_ext st lab lab qstep vis lab_eqb lab_eqb_tot st_eqb st_eqb tau_labels
           (fun _ e => [e]) (fun _ => True)).
  - intros; exact I.
  - intros; reflexivity.
  - exact lab_eqb_tot_agree.
  - exact I.
Qed.

Lemma fut_converged_tot cfg nctx ng evs :
  fut_converged cfg nctx ng evs =
  convergedb st lab lab qstep vis lab_eqb_tot st_eqb tau_labels (fun _ e => [e]) 64
             (init cfg nctx ng) evs.
Proof.
  unfold fut_converged.
  apply (CondMatcher.convergedb_ext st lab lab qstep vis lab_eqb lab_eqb_tot st_eqb st_eqb tau_labels
           (fun _ e => [e]) (fun _ => True)).
  - intros; exact I.
  - intros; reflexivity.
  - exact lab_eqb_tot_agree.
  - exact I.
Qed.

(* COMPLETENESS: when the closures converged, a history produced by a run is accepted *)
Theorem fut_accepts_complete cfg nctx ng evs ls s :
  fut_converged cfg nctx ng evs = true ->
  run qstep (init cfg nctx ng) ls = Some s -> fut_trace ls = evs ->
  accepts_history cfg nctx ng evs = true.
Proof.
  rewrite fut_converged_tot, fut_accepts_tot. unfold fut_trace.
  apply (accepts_complete_b st lab lab qstep vis lab_eqb_tot st_eqb tau_labels (fun _ e => [e])
           fut_st_eqb_spec lab_eqb_tot_refl fut_tau_labels_complete fut_labels_ev_complete).
Qed.

Theorem fut_reject_genuine cfg nctx ng evs :
  fut_converged cfg nctx ng evs = true -> accepts_history cfg nctx ng evs = false ->
  forall ls s, run qstep (init cfg nctx ng) ls = Some s -> fut_trace ls <> evs.
Proof.
  intros Hc Hacc ls s Hr Ht.
  rewrite (fut_accepts_complete cfg nctx ng evs ls s Hc Hr Ht) in Hacc. discriminate.
Qed.

Theorem fut_accepts_iff cfg nctx ng evs :
  fut_converged cfg nctx ng evs = true ->
  (accepts_history cfg nctx ng evs = true <->
   exists ls s, run qstep (init cfg nctx ng) ls = Some s /\ fut_trace ls = evs).
Proof.
  intros Hc. split.
  - apply fut_accepts_sound.
  - intros (ls & s & Hr & Ht). eapply fut_accepts_complete; eassumption.
Qed.

End FutM.

(* ====================================================================== *)
(*                                 Lazy                                    *)
(* ====================================================================== *)
Module LazyM.
Import Future.
Import Lazy.

Definition lazy_trace : list lab -> list lab := trace lab lab vis.

Ltac eqb_crush :=
  repeat match goal with
  | H : (_ && _) = true |- _ => apply andb_true_iff in H; destruct H
  | H : Nat.eqb _ _ = true |- _ => apply Nat.eqb_eq in H
  | H : Z.eqb _ _ = true |- _ => apply Z.eqb_eq in H
  | H : Bool.eqb _ _ = true |- _ => apply Bool.eqb_prop in H
  end; subst.

Lemma once_eqb_spec a b : once_eqb a b = true <-> a = b.
Proof.
  split.
  - destruct a, b; simpl; intros H; try discriminate H; eqb_crush; reflexivity.
  - intros ->. destruct b; simpl; rewrite ?Nat.eqb_refl, ?Z.eqb_refl; reflexivity.
Qed.

Lemma pc_eqb_spec a b : pc_eqb a b = true <-> a = b.
Proof.
  split.
  - destruct a, b; simpl; intros H; try discriminate H; eqb_crush; reflexivity.
  - intros ->. destruct b; simpl; rewrite ?Nat.eqb_refl, ?Z.eqb_refl; reflexivity.
Qed.

Lemma thread_eqb_spec a b : thread_eqb a b = true <-> a = b.
Proof.
  destruct a as [g1 n1 p1], b as [g2 n2 p2]. unfold thread_eqb. simpl.
  rewrite !andl_true_iff, pc_eqb_spec, Nat.eqb_eq, FutM.optnat_eqb_spec. split.
  - intros (Hp & Hn & Hg). subst. reflexivity.
  - intros H. inversion H. repeat split; reflexivity.
Qed.

Theorem lazy_st_eqb_spec a b : st_eqb a b = true <-> a = b.
Proof.
  destruct a as [t1 o1 n1 d1 p1 b1 g1], b as [t2 o2 n2 d2 p2 b2 g2]. unfold st_eqb. simpl.
  rewrite !andl_true_iff, !andb_true_iff, once_eqb_spec, (FutM.list_eqb_spec _ thread_eqb_spec),
    Nat.eqb_eq, !bool_eqb_spec, Z.eqb_eq, (FutM.list_eqb_spec _ bool_eqb_spec). split.
  - intros (Ho & Ht & (((Hn & Hd) & Hp) & Hb) & Hg). subst. reflexivity.
  - intros H. inversion H. repeat split; reflexivity.
Qed.

Lemma lazy_vis_some l e : vis l = Some e -> e = l.
Proof. destruct l; simpl; intros H; try discriminate; inversion H; reflexivity. Qed.

Lemma lazy_vis_idem l e : vis l = Some e -> vis e = Some e.
Proof. intros H. pose proof (lazy_vis_some l e H) as He. subst e. exact H. Qed.

Lemma lazy_lab_eqb_sound a b : lab_eqb a b = true -> a = b.
Proof. destruct a, b; simpl; intros H; try discriminate H; eqb_crush; reflexivity. Qed.

Lemma lazy_lab_eqb_refl_vis a e : vis a = Some e -> lab_eqb a a = true.
Proof.
  destruct a; simpl; intros H; try discriminate H;
    rewrite ?Nat.eqb_refl, ?Z.eqb_refl; reflexivity.
Qed.

Theorem lazy_lab_eqb_spec a b e : vis b = Some e -> (lab_eqb a b = true <-> a = b).
Proof.
  intros Hv. split; [apply lazy_lab_eqb_sound|].
  intros ->. eapply lazy_lab_eqb_refl_vis; exact Hv.
Qed.

Ltac in_list := solve [simpl; repeat (first [left; reflexivity | right])].

Theorem lazy_tau_labels_complete s l :
  vis l = None -> qstep s l <> None -> In l (tau_labels s).
Proof.
  intros Hv Hs. unfold tau_labels.
  destruct l as [t|g| | |t|t v|t n|t v|t|t]; simpl in Hv; try discriminate Hv; clear Hv;
    (assert (Ht : t < length (ths s))
       by (apply nth_error_Some; intros E; apply Hs; simpl; unfold getth; rewrite E; reflexivity));
    apply in_flat_map; exists t;
    (split; [apply in_seq; split; [apply Nat.le_0_l | exact Ht] | in_list]).
Qed.

Theorem lazy_labels_ev_complete (s : st) (l e : lab) :
  vis l = Some e -> qstep s l <> None -> In l ((fun (_ : st) (x : lab) => [x]) s e).
Proof. intros Hv _. left. apply (lazy_vis_some l e Hv). Qed.

Definition lazy_converged (cfg : list (option nat * nat)) (gated : bool) (base : Z) (ng : nat)
           (evs : list lab) : bool :=
  convergedb st lab lab qstep vis lab_eqb st_eqb tau_labels (fun _ e => [e]) 64
             (init cfg gated base ng) evs.

(* SOUNDNESS (unconditional) *)
Theorem lazy_accepts_sound cfg gated base ng evs :
  accepts_history cfg gated base ng evs = true ->
  exists ls s, run qstep (init cfg gated base ng) ls = Some s /\ lazy_trace ls = evs.
Proof.
  unfold accepts_history, lazy_trace.
  apply (accepts_sound st lab lab qstep vis lab_eqb st_eqb tau_labels (fun _ e => [e])
           lazy_lab_eqb_sound).
Qed.

Definition lab_eqb_tot (a b : lab) : bool :=
  match vis b with Some _ => lab_eqb a b | None => true end.

Lemma lab_eqb_tot_refl a : lab_eqb_tot a a = true.
Proof.
  unfold lab_eqb_tot. destruct (vis a) as [e|] eqn:Ev; [|reflexivity].
  eapply lazy_lab_eqb_refl_vis; exact Ev.
Qed.

Lemma lab_eqb_tot_agree (e l e' : lab) : vis l = Some e' -> lab_eqb e e' = lab_eqb_tot e e'.
Proof. intros Hv. unfold lab_eqb_tot. rewrite (lazy_vis_idem l e' Hv). reflexivity. Qed.

Lemma lazy_accepts_tot cfg gated base ng evs :
  accepts_history cfg gated base ng evs =
  accepts qstep vis lab_eqb_tot st_eqb tau_labels (fun _ e => [e]) 64 (init cfg gated base ng) evs.
Proof.
  unfold accepts_history.
  apply (CondMatcher.accepts_ext st lab lab qstep vis lab_eqb lab_eqb_tot st_eqb st_eqb tau_labels
           (fun _ e => [e]) (fun _ => True)).
  - intros; exact I.
  - intros; reflexivity.
  - exact lab_eqb_tot_agree.
  - exact I.
Qed.

Lemma lazy_converged_tot cfg gated base ng evs :
  lazy_converged cfg gated base ng evs =
  convergedb st lab lab qstep vis lab_eqb_tot st_eqb tau_labels (fun _ e => [e]) 64
             (init cfg gated base ng) evs.
Proof.
  unfold lazy_converged.
  apply (CondMatcher.convergedb_ext st lab lab qstep vis lab_eqb lab_eqb_tot st_eqb st_eqb tau_labels
           (fun _ e => [e]) (fun _ => True)).
  - intros; exact I.
  - intros; reflexivity.
  - exact lab_eqb_tot_agree.
  - exact I.
Qed.

(* COMPLETENESS: when the closures converged, a history produced by a run is accepted *)
Theorem lazy_accepts_complete cfg gated base ng evs ls s :
  lazy_converged cfg gated base ng evs = true ->
  run qstep (init cfg gated base ng) ls = Some s -> lazy_trace ls = evs ->
  accepts_history cfg gated base ng evs = true.
Proof.
  rewrite lazy_converged_tot, lazy_accepts_tot. unfold lazy_trace.
  apply (accepts_complete_b st lab lab qstep vis lab_eqb_tot st_eqb tau_labels (fun _ e => [e])
           lazy_st_eqb_spec lab_eqb_tot_refl lazy_tau_labels_complete lazy_labels_ev_complete).
Qed.

Theorem lazy_reject_genuine cfg gated base ng evs :
  lazy_converged cfg gated base ng evs = true -> accepts_history cfg gated base ng evs = false ->
  forall ls s, run qstep (init cfg gated base ng) ls = Some s -> lazy_trace ls <> evs.
Proof.
  intros Hc Hacc ls s Hr Ht.
  rewrite (lazy_accepts_complete cfg gated base ng evs ls s Hc Hr Ht) in Hacc. discriminate.
Qed.

Theorem lazy_accepts_iff cfg gated base ng evs :
  lazy_converged cfg gated base ng evs = true ->
  (accepts_history cfg gated base ng evs = true <->
   exists ls s, run qstep (init cfg gated base ng) ls = Some s /\ lazy_trace ls = evs).
Proof.
  intros Hc. split.
  - apply lazy_accepts_sound.
  - intros (ls & s & Hr & Ht). eapply lazy_accepts_complete; eassumption.
Qed.

End LazyM.

(* ====================================================================== *)
(*                             non-vacuity                                 *)
(* ====================================================================== *)
Module WatchEx.
Import Watch WatchM.

(* three Sets against an observer loop: the cells of the first Sets die and are dropped by
   [canon] while the history is matched *)
Definition ex_cfg : list (option nat * list act) := [(None, [ASet 1; ASet 2; ASet 3]%Z); (None, [AWatch])].
Definition ex_hist : list lab :=
  [LSpawn 1; LCallValue 1; LRetValue 1 0 false; LSpawn 0; LCallSet 0 1; LRetSet 0;
   LCallValue 1; LRetValue 1 1 false; LCallSet 0 2; LRetSet 0; LCallSet 0 3; LRetSet 0;
   LCallValue 1; LRetValue 1 3 false; LQuiesce]%Z.

Example ex_accepts :
  accepts_history ex_cfg 0 ex_hist = true /\ watch_converged ex_cfg 0 ex_hist = true /\
  accepts_history_plain ex_cfg 0 ex_hist = true /\ plain_converged ex_cfg 0 ex_hist = true.
Proof. vm_compute. repeat split; reflexivity. Qed.

Example ex_is_trace : exists ls s, run qstep (init ex_cfg 0) ls = Some s /\ watch_trace ls = ex_hist.
Proof. apply watch_accepts_sound. exact (proj1 ex_accepts). Qed.

(* the reduction is not the identity on this history: the final canonical state has fewer cells
   than any run of the model producing it (4 cells: the empty one and one per Set) *)
Example ex_canon_drops :
  existsb (fun c => Nat.ltb (length (cells c)) 4)
    (states_after cqstep vis lab_eqb st_eqb tau_labels (fun _ e => [e]) 64
       (close cqstep vis st_eqb tau_labels 64 [init ex_cfg 0]) ex_hist) = true.
Proof. vm_compute. reflexivity. Qed.

(* a Value that returns a stale value after a Set has returned: rejected, genuinely *)
Definition ex_cfg2 : list (option nat * list act) := [(None, [ASet 5]%Z); (None, [AValue])].
Definition ex_bad : list lab :=
  [LSpawn 0; LSpawn 1; LCallSet 0 5; LRetSet 0; LCallValue 1; LRetValue 1 0 false]%Z.

Example ex_rejects :
  accepts_history ex_cfg2 0 ex_bad = false /\ watch_converged ex_cfg2 0 ex_bad = true.
Proof. vm_compute. split; reflexivity. Qed.

Example ex_no_run : forall ls s, run qstep (init ex_cfg2 0) ls = Some s -> watch_trace ls <> ex_bad.
Proof. apply watch_reject_genuine; [exact (proj2 ex_rejects) | exact (proj1 ex_rejects)]. Qed.

(* the hypotheses of the simulation are satisfiable beyond the initial state: a reachable state
   with a dead cell is related to its canonical form, which is strictly smaller *)
Example ex_reduct_nontrivial :
  exists s c, reduct s c /\ length (cells c) < length (cells s).
Proof.
  destruct (run_sim_fwd
              [LSpawn 0; LCallSet 0 1; TSwap 0; TClose 0; LRetSet 0; LCallSet 0 2; TSwap 0; TClose 0]%Z
              (init ex_cfg 0) (init ex_cfg 0)
              (mkSt [mkT None [ASet 2; ASet 3]%Z PSetClosed; mkT None [AWatch] PIdle]
                    [mkCell 1 true true; mkCell 2 false true] (Some 1) [])
              (reduct_init ex_cfg 0) eq_refl) as (c & Hr & HR).
  vm_compute in Hr. inversion Hr; subst c.
  eexists _, _. split; [exact HR|]. simpl. lia.
Qed.
End WatchEx.

Module FutEx.
Import Future Fut FutM.

Definition ex_cfg : list (option nat * kind) := [(None, KFill 7); (None, KWait); (None, KWaitCtx 0)].
Definition ex_hist : list lab :=
  [LSpawn 0; LSpawn 1; LSpawn 2; LCallWait 1; LCallWaitCtx 2 0; LCancel 0; LRetWaitCtx 2 0 true;
   LCallFill 0 7; LRetFill 0; LRetWait 1 7; LQuiesce]%Z.

Example ex_accepts : accepts_history ex_cfg 1 0 ex_hist = true /\ fut_converged ex_cfg 1 0 ex_hist = true.
Proof. vm_compute. split; reflexivity. Qed.

Example ex_is_trace : exists ls s, run qstep (init ex_cfg 1 0) ls = Some s /\ fut_trace ls = ex_hist.
Proof. apply fut_accepts_sound. exact (proj1 ex_accepts). Qed.

(* Wait returning before any Fill: rejected, genuinely *)
Definition ex_bad : list lab := [LSpawn 1; LCallWait 1; LRetWait 1 0]%Z.

Example ex_rejects : accepts_history ex_cfg 1 0 ex_bad = false /\ fut_converged ex_cfg 1 0 ex_bad = true.
Proof. vm_compute. split; reflexivity. Qed.

Example ex_no_run : forall ls s, run qstep (init ex_cfg 1 0) ls = Some s -> fut_trace ls <> ex_bad.
Proof. apply fut_reject_genuine; [exact (proj2 ex_rejects) | exact (proj1 ex_rejects)]. Qed.

(* two concurrent Fills: exactly one returns, the other panics, every Wait returns the winner's value *)
Definition ex_cfg2 : list (option nat * kind) := [(None, KFill 1); (None, KFill 2); (None, KWait); (None, KWait)]%Z.
Definition ex_hist2 : list lab :=
  [LSpawn 0; LSpawn 1; LSpawn 2; LCallWait 2; LCallFill 0 1; LCallFill 1 2; LPanicFill 0; LRetWait 2 2; LRetFill 1;
   LSpawn 3; LCallWait 3; LRetWait 3 2; LQuiesce]%Z.

Example ex_accepts2 : accepts_history ex_cfg2 0 0 ex_hist2 = true /\ fut_converged ex_cfg2 0 0 ex_hist2 = true.
Proof. vm_compute. split; reflexivity. Qed.

(* the behaviour of the code before the repair (the second Fill overwrites the value before it panics):
   rejected, genuinely *)
Definition ex_bad2 : list lab :=
  [LSpawn 0; LSpawn 1; LSpawn 2; LSpawn 3; LCallFill 0 1; LRetFill 0; LCallWait 2; LRetWait 2 1;
   LCallFill 1 2; LPanicFill 1; LCallWait 3; LRetWait 3 2]%Z.

Example ex_rejects2 : accepts_history ex_cfg2 0 0 ex_bad2 = false /\ fut_converged ex_cfg2 0 0 ex_bad2 = true.
Proof. vm_compute. split; reflexivity. Qed.

Example ex_no_run2 : forall ls s, run qstep (init ex_cfg2 0 0) ls = Some s -> fut_trace ls <> ex_bad2.
Proof. apply fut_reject_genuine; [exact (proj2 ex_rejects2) | exact (proj1 ex_rejects2)]. Qed.

(* both Fills return / both panic: rejected, genuinely *)
Definition ex_bad2b : list lab := [LSpawn 0; LSpawn 1; LCallFill 0 1; LCallFill 1 2; LRetFill 0; LRetFill 1]%Z.
Definition ex_bad2c : list lab := [LSpawn 0; LSpawn 1; LCallFill 0 1; LCallFill 1 2; LPanicFill 0; LPanicFill 1]%Z.

Example ex_rejects2bc :
  (accepts_history ex_cfg2 0 0 ex_bad2b = false /\ fut_converged ex_cfg2 0 0 ex_bad2b = true) /\
  (accepts_history ex_cfg2 0 0 ex_bad2c = false /\ fut_converged ex_cfg2 0 0 ex_bad2c = true).
Proof. vm_compute. repeat split; reflexivity. Qed.

(* a WaitContext called after Fill has returned, with a cancelled context: the value is accepted,
   the context error (possible before the repair) is rejected, genuinely *)
Definition ex_cfg3 : list (option nat * kind) := [(None, KFill 7); (None, KWaitCtx 0)]%Z.
Definition ex_hist3 : list lab :=
  [LSpawn 0; LCallFill 0 7; LRetFill 0; LCancel 0; LQuiesce; LSpawn 1; LCallWaitCtx 1 0; LRetWaitCtx 1 7 false; LQuiesce]%Z.
Definition ex_bad3 : list lab :=
  [LSpawn 0; LCallFill 0 7; LRetFill 0; LCancel 0; LQuiesce; LSpawn 1; LCallWaitCtx 1 0; LRetWaitCtx 1 0 true]%Z.

Example ex_accepts3 : accepts_history ex_cfg3 1 0 ex_hist3 = true /\ fut_converged ex_cfg3 1 0 ex_hist3 = true.
Proof. vm_compute. split; reflexivity. Qed.

Example ex_rejects3 : accepts_history ex_cfg3 1 0 ex_bad3 = false /\ fut_converged ex_cfg3 1 0 ex_bad3 = true.
Proof. vm_compute. split; reflexivity. Qed.

Example ex_no_run3 : forall ls s, run qstep (init ex_cfg3 1 0) ls = Some s -> fut_trace ls <> ex_bad3.
Proof. apply fut_reject_genuine; [exact (proj2 ex_rejects3) | exact (proj1 ex_rejects3)]. Qed.
End FutEx.

Module LazyEx.
Import Future Lazy LazyM.

Definition ex_cfg : list (option nat * nat) := [(None, 1); (None, 2)].
Definition ex_hist : list lab :=
  [LSpawn 0; LSpawn 1; LCallLazy 0; LCallLazy 1; LFEnter 0 1; LReleaseF; LFExit 0 11;
   LRetLazy 0 11; LRetLazy 1 11; LCallLazy 1; LRetLazy 1 11; LQuiesce]%Z.

Example ex_accepts :
  accepts_history ex_cfg true 10 0 ex_hist = true /\ lazy_converged ex_cfg true 10 0 ex_hist = true.
Proof. vm_compute. split; reflexivity. Qed.

Example ex_is_trace :
  exists ls s, run qstep (init ex_cfg true 10 0) ls = Some s /\ lazy_trace ls = ex_hist.
Proof. apply lazy_accepts_sound. exact (proj1 ex_accepts). Qed.

(* f entered a second time: rejected, genuinely *)
Definition ex_bad : list lab :=
  [LSpawn 0; LSpawn 1; LCallLazy 0; LCallLazy 1; LFEnter 0 1; LFEnter 1 2].

Example ex_rejects :
  accepts_history ex_cfg true 10 0 ex_bad = false /\ lazy_converged ex_cfg true 10 0 ex_bad = true.
Proof. vm_compute. split; reflexivity. Qed.

Example ex_no_run :
  forall ls s, run qstep (init ex_cfg true 10 0) ls = Some s -> lazy_trace ls <> ex_bad.
Proof. apply lazy_reject_genuine; [exact (proj2 ex_rejects) | exact (proj1 ex_rejects)]. Qed.
End LazyEx.

Print Assumptions WatchM.watch_st_eqb_spec.
Print Assumptions WatchM.watch_lab_eqb_spec.
Print Assumptions WatchM.watch_tau_labels_complete.
Print Assumptions WatchM.lockstep.
Print Assumptions WatchM.qlockstep.
Print Assumptions WatchM.Rel_canon.
Print Assumptions WatchM.run_sim_back.
Print Assumptions WatchM.run_sim_fwd.
Print Assumptions WatchM.watch_accepts_sound.
Print Assumptions WatchM.watch_accepts_complete.
Print Assumptions WatchM.watch_reject_genuine.
Print Assumptions WatchM.watch_accepts_iff.
Print Assumptions WatchM.plain_accepts_sound.
Print Assumptions WatchM.plain_accepts_complete.
Print Assumptions WatchM.plain_reject_genuine.
Print Assumptions WatchM.watch_reduced_eq_plain.
Print Assumptions FutM.fut_accepts_sound.
Print Assumptions FutM.fut_accepts_complete.
Print Assumptions FutM.fut_reject_genuine.
Print Assumptions FutM.fut_accepts_iff.
Print Assumptions LazyM.lazy_accepts_sound.
Print Assumptions LazyM.lazy_accepts_complete.
Print Assumptions LazyM.lazy_reject_genuine.
Print Assumptions LazyM.lazy_accepts_iff.
Print Assumptions WatchEx.ex_no_run.
Print Assumptions FutEx.ex_no_run.
Print Assumptions FutEx.ex_no_run2.
Print Assumptions FutEx.ex_no_run3.
Print Assumptions LazyEx.ex_no_run.
