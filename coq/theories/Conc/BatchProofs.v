(* C11 — proofs about the LTS model of stream.Batch / BatchFunc (Conc/Batch.v).
   Invariants of every state reachable by [qstep] from [init mw m calls nctx], for every maxWait,
   mode, number of consumer calls and contexts, and every label sequence (all interleavings, all
   item values, all results of the user's full, all tick amounts).  Stdlib only, no axioms. *)
From Juniper Require Import Common.Base Conc.GoLTS Conc.Batch.
From Coq Require Import Arith PeanoNat.

(* ------------------------------------------------------------------ *)
(* classes of program counters                                         *)
(* ------------------------------------------------------------------ *)
Definition pal (p : ppc) : nat := match p with PDone => 0 | _ => 1 end.
Definition bal (p : bpc) : nat := match p with BDone => 0 | _ => 1 end.
Definition p_cc (p : ppc) : bool := match p with PSrcClose | PWg | PDone => true | _ => false end.
Definition p_nc (p : ppc) : nat := match p with PWg | PDone => 1 | _ => 0 end.
Definition p_exit (p : ppc) : bool :=
  match p with PCloseC | PSrcClose | PWg | PDone => true | _ => false end.
Definition b_bc (p : bpc) : bool := match p with BWg | BDone => true | _ => false end.
Definition b_run (p : bpc) : bool := match p with BWg | BDone => false | _ => true end.
Definition b_exit (p : bpc) : bool := match p with BExit | BWg | BDone => true | _ => false end.
Definition tm_live (t : tstate) : bool := match t with TmArmed _ | TmFired => true | _ => false end.
Definition k_after (p : kpc) : bool := match p with KWait | KRet | KDone => true | _ => false end.
Definition k_ret (p : kpc) : bool := match p with KRet | KDone => true | _ => false end.
Definition held (p : ppc) : list Z := match p with PSend v => [v] | _ => [] end.

(* ------------------------------------------------------------------ *)
(* tactics                                                             *)
(* ------------------------------------------------------------------ *)
Ltac inv_some :=
  repeat match goal with
         | H : Some _ = Some _ |- _ => inversion H; subst; clear H
         | H : None = Some _ |- _ => discriminate H
         end.

(* split the definition of [step] along its matches *)
Ltac brk H :=
  repeat (inv_some;
          match type of H with
          | match ?x with _ => _ end = Some _ => destruct x eqn:?; try discriminate H
          | (if ?x then _ else _) = Some _ => destruct x eqn:?; try discriminate H
          end);
  inv_some.

Ltac unf := unfold after_full, start_timer, stop_timer, setc, getc in *.

Ltac goal_cases :=
  repeat match goal with
         | |- context [match ?x with _ => _ end] => destruct x eqn:?
         | |- context [if ?x then _ else _] => destruct x eqn:?
         end.

Lemma qstep_step s l s' : qstep s l = Some s' -> l = LQuiesce /\ s' = s \/ step s l = Some s'.
Proof.
  destruct l; simpl; auto.
  destruct (quiescent s); [intros H; inversion H; auto | discriminate].
Qed.

(* ------------------------------------------------------------------ *)
(* normal forms of the timer helpers when timerC is consistent         *)
(* ------------------------------------------------------------------ *)
Definition stopped (s : st) : st :=
  match tmr s with TmNone => s | _ => set_tc (set_tmr s TmIdle) false end.

Lemma stop_timer_nf s : tc s = tm_live (tmr s) -> stop_timer s = Some (stopped s).
Proof.
  unfold stop_timer, stopped. destruct (tmr s) eqn:Et; simpl; intros Hc; rewrite ?Hc; reflexivity.
Qed.

Lemma start_timer_nf s :
  tc s = tm_live (tmr s) -> start_timer s = set_tc (set_tmr s (TmArmed (bstart s + maxw s))) true.
Proof.
  intros Hc. unfold start_timer. rewrite (stop_timer_nf s Hc). unfold stopped.
  destruct (tmr s); reflexivity.
Qed.

Lemma after_full_nf s r :
  tc s = tm_live (tmr s) ->
  after_full s r =
  if r then set_bpc (stopped s) (BFlush FCFull)
  else match batch s with
       | [_] => if wae s
                then set_tc (set_tmr (set_bstart (set_bpc s BLoop) (clock s)) (TmArmed (clock s + maxw s))) true
                else set_bstart (set_bpc s BLoop) (clock s)
       | _ => set_bpc s BLoop
       end.
Proof.
  intros Hc. unfold after_full. rewrite (stop_timer_nf s Hc).
  destruct r; [reflexivity|].
  destruct (batch s) as [|x [|y t]]; try reflexivity.
  destruct (wae s); [|reflexivity].
  rewrite start_timer_nf; [reflexivity | exact Hc].
Qed.

Ltac norm_setc :=
  unfold setc in *;
  repeat match goal with
         | H : getc ?s ?k = Some _ |- _ => progress (rewrite H in * )
         end.

Ltac tc_side Htc :=
  simpl; apply Htc;
  first [ reflexivity | match goal with H : bpc_ _ = _ |- _ => rewrite H; reflexivity end ].

Ltac nf_timers Htc :=
  try (rewrite after_full_nf in * by tc_side Htc);
  try (rewrite start_timer_nf in * by tc_side Htc);
  try (rewrite stop_timer_nf in * by tc_side Htc);
  unfold stopped in *.

(* case analysis of one transition: afterwards s' is an explicit stack of setters on s *)
Ltac step_cases H Htc :=
  match type of H with step _ ?l = Some _ => destruct l end;
  simpl in H; brk H; norm_setc;
  repeat match goal with
         | Hx : stop_timer _ = Some _ |- _ =>
             rewrite stop_timer_nf in Hx by tc_side Htc; inversion Hx; subst; clear Hx
         | Hx : stop_timer _ = None |- _ =>
             rewrite stop_timer_nf in Hx by tc_side Htc; discriminate Hx
         end;
  nf_timers Htc; simpl in *; goal_cases.

Ltac zb :=
  repeat match goal with
         | Hx : (_ <=? _) = true |- _ => apply Z.leb_le in Hx
         | Hx : (_ <=? _) = false |- _ => apply Z.leb_gt in Hx
         | Hx : (_ <? _) = true |- _ => apply Z.ltb_lt in Hx
         | Hx : (_ <? _) = false |- _ => apply Z.ltb_ge in Hx
         | Hx : (_ =? _) = true |- _ => apply Z.eqb_eq in Hx
         end.

Ltac spec_hyps :=
  repeat match goal with
         | H : ?a = ?a -> _ |- _ => specialize (H eq_refl)
         | H : true = false -> _ |- _ => clear H
         | H : false = true -> _ |- _ => clear H
         | H : _ /\ _ |- _ => destruct H
         end.

(* ------------------------------------------------------------------ *)
(* G1: the control skeleton                                            *)
(* ------------------------------------------------------------------ *)
Record G1 (s : st) : Prop := mkG1 {
  g_wg : wg s = (pal (ppc_ s) + bal (bpc_ s))%nat;
  g_cc : cclosed s = p_cc (ppc_ s);
  g_nc : nclose s = p_nc (ppc_ s);
  g_bc : bclosed s = b_bc (bpc_ s);
  g_stuck : bpc_ s <> BStuck;
  g_tc : b_run (bpc_ s) = true -> tc s = tm_live (tmr s);
  g_bexit : b_exit (bpc_ s) = true -> batch s = [];
  g_lostb : b_exit (bpc_ s) = false -> lostb s = [];
  g_ploop : p_exit (ppc_ s) = false -> lostp s = [] /\ srcres s = None /\ perr s = None;
  g_live : bgdone s = false -> lostb s = [] /\ lostp s = [];
  g_bx_cc : bgdone s = false -> b_exit (bpc_ s) = true \/ bpc_ s = BFlush FCEnd -> cclosed s = true;
  g_res : bgdone s = false -> p_exit (ppc_ s) = true ->
          (srcres s = Some REnd /\ perr s = None) \/ (exists e, srcres s = Some (RErr e) /\ perr s = Some e);
  g_perr : forall e, perr s = Some e -> srcres s = Some (RErr e);
  g_k : k_after (kpc_ s) = bgdone s;
  g_kret : k_ret (kpc_ s) = true -> wg s = O
}.

Lemma G1_init mw m calls nctx : G1 (init mw m calls nctx).
Proof.
  constructor; simpl; auto; try discriminate; try (intros; discriminate).
  intros _ [Hx|Hx]; discriminate.
Qed.

Ltac rw_goal :=
  repeat match goal with
         | H : ?f ?s = _ |- context [?f ?s] => rewrite H
         end.

Ltac g1_solve :=
  simpl; rw_goal; simpl; intros; spec_hyps;
  first [ congruence | lia | discriminate
        | (intuition (try congruence; try lia); fail)
        | eauto ].

Lemma G1_step s l s' : G1 s -> step s l = Some s' -> G1 s'.
Proof.
  intros [Hwg Hcc Hnc Hbc Hst Htc Hbx Hlb Hpl Hlv Hbxc Hres Hperr Hk Hkr] H.
  step_cases H Htc.
  all: simpl in *; spec_hyps; constructor; g1_solve.
Qed.

Definition Reach (mw : Z) (m : fmode) (calls : list nat) (nctx : nat) (s : st) : Prop :=
  reachable qstep (init mw m calls nctx) s.

Lemma reach_inv (P : st -> Prop) mw m calls nctx :
  P (init mw m calls nctx) ->
  (forall s l s', Reach mw m calls nctx s -> P s -> step s l = Some s' -> P s') ->
  forall s, Reach mw m calls nctx s -> P s.
Proof.
  intros H0 Hs s Hr.
  assert (HP : Reach mw m calls nctx s /\ P s); [|exact (proj2 HP)].
  apply (invariant_rule qstep (fun s => Reach mw m calls nctx s /\ P s) (init mw m calls nctx)); auto.
  - split; [apply reachable_refl | exact H0].
  - intros s1 l s2 [Hr1 HP1] Hq. split; [eapply reachable_step; eauto|].
    destruct (qstep_step _ _ _ Hq) as [[_ ->]|Hst]; [exact HP1 | eapply Hs; eauto].
Qed.

Lemma G1_reach mw m calls nctx s : Reach mw m calls nctx s -> G1 s.
Proof.
  apply reach_inv; [apply G1_init | intros; eapply G1_step; eauto].
Qed.

(* ------------------------------------------------------------------ *)
(* G2: partition                                                       *)
(* ------------------------------------------------------------------ *)
Definition dconcat (s : st) : list Z := concat (map d_batch (delivered s)).

Definition G2 (s : st) : Prop :=
  src s = dconcat s ++ batch s ++ lostb s ++ held (ppc_ s) ++ lostp s.

Lemma G2_step s l s' : G1 s -> G2 s -> step s l = Some s' -> G2 s'.
Proof.
  intros [Hwg Hcc Hnc Hbc Hst Htc Hbx Hlb Hpl Hlv Hbxc Hres Hperr Hk Hkr] H2 H.
  unfold G2, dconcat in *.
  step_cases H Htc.
  all: simpl in *; spec_hyps; rw_goal; simpl; try (rewrite H2); rw_goal; simpl.
  all: repeat rewrite ?map_app, ?concat_app, ?app_nil_r, <- ?app_assoc; simpl;
       repeat rewrite ?app_nil_r; try reflexivity; try congruence.
Qed.

Lemma G2_init mw m calls nctx : G2 (init mw m calls nctx).
Proof. reflexivity. Qed.

(* ------------------------------------------------------------------ *)
(* monotone facts of one transition                                    *)
(* ------------------------------------------------------------------ *)
Record Mono (s s' : st) : Prop := mkMono {
  m_del : exists t, delivered s' = delivered s ++ t;
  m_bc : bclosed s = true -> bclosed s' = true;
  m_bg : bgdone s' = false -> bgdone s = false;
  m_perr_end : bclosed s = true -> bgdone s = false -> perr s' = perr s;
  m_perr : forall e, perr s = Some e -> perr s' = Some e;
  m_stale : stale s' = false -> stale s = false;
  m_clock : clock s <= clock s';
  m_cfg : maxw s' = maxw s /\ mode s' = mode s
}.

Lemma step_mono s l s' : G1 s -> step s l = Some s' -> Mono s s'.
Proof.
  intros [Hwg Hcc Hnc Hbc Hst Htc Hbx Hlb Hpl Hlv Hbxc Hres Hperr Hk Hkr] H.
  step_cases H Htc.
  all: simpl in *; spec_hyps; constructor; simpl; rw_goal; simpl; intros.
  all: try (exists []; rewrite app_nil_r; reflexivity).
  all: try (eexists; reflexivity).
  all: try first [ congruence | lia | (split; reflexivity) ].
  - exfalso. specialize (Hbxc H3). destruct (bpc_ s); simpl in *; try discriminate;
      assert (Hx : cclosed s = true) by (apply Hbxc; auto); congruence.
Qed.

(* ------------------------------------------------------------------ *)
(* G3: what the consumers hold, and who holds each delivered batch     *)
(* ------------------------------------------------------------------ *)
Definition pc_res (p : cpc) : option cres :=
  match p with CRet r | CDone r => Some r | _ => None end.

Definition res_ok (s : st) (k : nat) (r : cres) : Prop :=
  match r with
  | CBatch b => exists d, In d (delivered s) /\ d_who d = k /\ d_batch d = b
  | CEnd => bclosed s = true /\ (bgdone s = false -> perr s = None)
  | CErr e => bclosed s = true /\ perr s = Some e
  | CCtx => True
  end.

Record G3 (s : st) : Prop := mkG3 {
  g3_res : forall k x r, nth_error (cons s) k = Some x -> pc_res (c_pc x) = Some r -> res_ok s k r;
  g3_del : forall d, In d (delivered s) ->
                     exists x, nth_error (cons s) (d_who d) = Some x /\
                               pc_res (c_pc x) = Some (CBatch (d_batch d));
  g3_nodup : NoDup (map d_who (delivered s))
}.

Lemma nth_lt {A} (l : list A) n x : nth_error l n = Some x -> (n < length l)%nat.
Proof. intros H. apply nth_error_Some. congruence. Qed.

Lemma res_ok_mono s s' k r : Mono s s' -> res_ok s k r -> res_ok s' k r.
Proof.
  intros [[t Ht] Hbc Hbg Hpe Hp _ _ _] Hr. destruct r as [b| |e|]; simpl in *; auto.
  - destruct Hr as (d & Hin & Hw & Hb). exists d. rewrite Ht. split; [apply in_or_app; auto | auto].
  - destruct Hr as [Hc Hn]. split; [auto|]. intros Hb'. rewrite (Hpe Hc (Hbg Hb')). auto.
  - destruct Hr as [Hc He]. split; auto.
Qed.

(* a transition that touches neither the consumers nor the delivered list *)
Lemma G3_frame s s' :
  G3 s -> Mono s s' -> cons s' = cons s -> delivered s' = delivered s -> G3 s'.
Proof.
  intros [Hr Hd Hn] Hm Hc Hdl. constructor; rewrite ?Hc, ?Hdl; auto.
  intros k x r Hk Hp. eapply res_ok_mono; eauto.
Qed.

(* consumer k moves from pc (c_pc x) to p' *)
Lemma G3_upd s s' k x p' :
  G3 s -> Mono s s' -> nth_error (cons s) k = Some x ->
  cons s' = upd (cons s) k (mkC (c_ctx x) p') ->
  (pc_res (c_pc x) = None \/ pc_res p' = pc_res (c_pc x)) ->
  (forall r, pc_res p' = Some r -> pc_res (c_pc x) = None -> res_ok s' k r) ->
  (delivered s' = delivered s \/
   pc_res (c_pc x) = None /\ exists d, delivered s' = delivered s ++ [d] /\ d_who d = k /\
                                       pc_res p' = Some (CBatch (d_batch d))) ->
  G3 s'.
Proof.
  intros [Hr Hd Hn] Hm Hk Hc Hpc Hnew Hdl.
  pose proof (nth_lt _ _ _ Hk) as Hlt.
  assert (Hsame : nth_error (cons s') k = Some (mkC (c_ctx x) p'))
    by (rewrite Hc; apply nth_error_upd_same; exact Hlt).
  assert (Hoth : forall j, j <> k -> nth_error (cons s') j = nth_error (cons s) j)
    by (intros j Hj; rewrite Hc; apply nth_error_upd_other; congruence).
  assert (Hold : forall d, In d (delivered s) ->
                           exists y, nth_error (cons s') (d_who d) = Some y /\
                                     pc_res (c_pc y) = Some (CBatch (d_batch d))).
  { intros d Hin. destruct (Hd d Hin) as (y & Hy & Hpy).
    destruct (Nat.eq_dec (d_who d) k) as [E|E].
    - rewrite E in *. rewrite Hk in Hy. inversion Hy; subst y.
      exists (mkC (c_ctx x) p'). split; [exact Hsame|]. simpl.
      destruct Hpc as [Hnone|Heq]; [congruence | rewrite Heq; exact Hpy].
    - exists y. rewrite (Hoth _ E). auto. }
  constructor.
  - intros j y r Hj Hp. destruct (Nat.eq_dec j k) as [->|Hne].
    + rewrite Hsame in Hj. inversion Hj; subst y. simpl in Hp.
      destruct Hpc as [Hnone|Heq].
      * apply Hnew; auto.
      * eapply res_ok_mono; eauto. eapply Hr; eauto. rewrite <- Heq. exact Hp.
    + rewrite (Hoth _ Hne) in Hj. eapply res_ok_mono; eauto.
  - destruct Hdl as [Hdl|(Hnone & d0 & Hdl & Hw & Hp0)]; rewrite Hdl.
    + exact Hold.
    + intros d Hin. apply in_app_or in Hin. destruct Hin as [Hin|[<-|[]]]; [auto|].
      exists (mkC (c_ctx x) p'). rewrite Hw. split; [exact Hsame | exact Hp0].
  - destruct Hdl as [Hdl|(Hnone & d0 & Hdl & Hw & Hp0)]; rewrite Hdl; [exact Hn|].
    rewrite map_app. simpl.
    assert (Hni : ~ In k (map d_who (delivered s))).
    { intros Hin. apply in_map_iff in Hin. destruct Hin as (d & Hwd & Hin).
      destruct (Hd d Hin) as (y & Hy & Hpy). rewrite Hwd, Hk in Hy. inversion Hy; subst y. congruence. }
    rewrite Hw. clear - Hn Hni.
    induction (map d_who (delivered s)) as [|a t IH]; simpl.
    + constructor; [intros []|constructor].
    + inversion Hn; subst. constructor.
      * intros Hin. apply in_app_or in Hin. destruct Hin as [Hin|[E|[]]]; [auto|].
        apply Hni. left; auto.
      * apply IH; auto. intros Hin; apply Hni; right; auto.
Qed.

Lemma G3_init mw m calls nctx : G3 (init mw m calls nctx).
Proof.
  constructor; simpl.
  - intros k x r Hk Hp. rewrite nth_error_map in Hk.
    destruct (nth_error calls k); simpl in Hk; [|discriminate]. inversion Hk; subst. discriminate.
  - intros d [].
  - constructor.
Qed.

Lemma G3_step s l s' : G1 s -> G3 s -> step s l = Some s' -> G3 s'.
Proof.
  intros HG1 HG3 H.
  pose proof (step_mono _ _ _ HG1 H) as Hm.
  pose proof (g_tc _ HG1) as Htc.
  pose proof (g_bc _ HG1) as Hbc.
  step_cases H Htc.
  all: try (eapply G3_frame; [eassumption | eassumption | reflexivity | reflexivity]; fail).
  all: repeat match goal with
              | Hx : (_ && _)%bool = true |- _ => apply andb_prop in Hx; destruct Hx
              end.
  all: match goal with
       | Hg : getc ?s0 ?k0 = Some ?c0 |- G3 ?s1 =>
           eapply (G3_upd s0 s1 k0 c0); [eassumption | eassumption | exact Hg | reflexivity | | | ]
       end.
  all: try match goal with
           | Hp : in_select (c_pc ?c0) = true |- _ =>
               assert (Hnone : pc_res (c_pc c0) = None)
                 by (destruct (c_pc c0); simpl in *; try discriminate; reflexivity)
           | Hp : c_pc ?c0 = _ |- _ => rewrite Hp in *; simpl
           end.
  all: try (left; reflexivity); auto.
  all: try (right; split; [assumption|]; eexists; split; [reflexivity | split; reflexivity]).
  all: try (intros r1 Hr1 Hn1;
            try (match goal with Hp : c_pc _ = _ |- _ => rewrite Hp in Hn1; discriminate Hn1 end);
            simpl in Hr1; inversion Hr1; subst r1; simpl; auto).
  all: try (eexists; split; [apply in_or_app; right; left; reflexivity | split; reflexivity]).
  discriminate Hn1.
Qed.

Lemma G3_reach mw m calls nctx s : Reach mw m calls nctx s -> G3 s.
Proof.
  apply reach_inv; [apply G3_init|].
  intros s0 l s' Hr HG H. eapply G3_step; eauto. eapply G1_reach; eauto.
Qed.

Lemma G2_reach mw m calls nctx s : Reach mw m calls nctx s -> G2 s.
Proof.
  apply reach_inv; [apply G2_init|].
  intros s0 l s' Hr HG H. eapply G2_step; eauto. eapply G1_reach; eauto.
Qed.

(* ------------------------------------------------------------------ *)
(* G4: sizes (Batch with batchSize >= 1)                               *)
(* ------------------------------------------------------------------ *)
Record G4 (s : st) : Prop := mkG4 {
  g4_batch : forall size, mode s = FBatch size -> 1 <= size ->
                          zlen (batch s) <= size /\ (bpc_ s = BLoop -> zlen (batch s) < size);
  g4_del : forall size d, mode s = FBatch size -> 1 <= size -> In d (delivered s) ->
                          zlen (d_batch d) <= size
}.

Lemma G4_init mw m calls nctx : G4 (init mw m calls nctx).
Proof.
  constructor; simpl.
  - intros size _ H1. unfold zlen; simpl. lia.
  - intros size d _ _ [].
Qed.

Lemma G4_step s l s' : G1 s -> G4 s -> step s l = Some s' -> G4 s'.
Proof.
  intros HG1 [Hb Hd] H.
  pose proof (g_tc _ HG1) as Htc.
  step_cases H Htc.
  all: constructor; simpl; rw_goal; simpl; intros size0; intros;
       repeat match goal with
              | Hx : In _ (_ ++ [_]) |- _ => apply in_app_or in Hx; destruct Hx as [Hx|[Hx|[]]]; [|subst; simpl]
              | Hm : mode ?s0 = FBatch _, Hx : FBatch _ = FBatch _ |- _ => inversion Hx; subst; clear Hx
              end;
       try (eapply Hd; eauto; fail);
       try match goal with
           | Hm : mode ?s0 = FBatch ?sz |- _ =>
               let Hb1 := fresh "Hb1" in let Hb2 := fresh "Hb2" in
               destruct (Hb sz ltac:(first [assumption|reflexivity]) ltac:(assumption)) as [Hb1 Hb2]
           end.
  all: zb; rewrite ?zlen_app in *; unfold zlen in *; simpl in *; intuition (try congruence; try lia).
Qed.

Lemma G4_reach mw m calls nctx s : Reach mw m calls nctx s -> G4 s.
Proof.
  apply reach_inv; [apply G4_init|].
  intros s0 l s' Hr HG H. eapply G4_step; eauto. eapply G1_reach; eauto.
Qed.

(* ------------------------------------------------------------------ *)
(* G5: non-empty batches and the maxWait discipline, on runs that have *)
(* not taken the stale-timer step (ghost [stale] still false)          *)
(* ------------------------------------------------------------------ *)
Definition tmr_ok (s : st) : Prop :=
  match tmr s with
  | TmArmed d => d = bstart s + maxw s
  | TmFired => bstart s + maxw s <= clock s
  | _ => True
  end.
Definition timed (r : freason) : bool := match r with FCTimer | FCWait => true | _ => false end.
Definition in_body (p : bpc) : bool := match p with BLoop | BFull | BInFull => true | _ => false end.

Record G5 (s : st) : Prop := mkG5 {
  g5_del : forall d, In d (delivered s) ->
                     d_batch d <> [] /\
                     (timed (d_reason d) = true -> d_ann d = true /\ d_start d + maxw s <= d_clock d);
  g5_flush : forall r, bpc_ s = BFlush r ->
                       batch s <> [] /\ (r <> FCEnd -> tc s = false) /\
                       (timed r = true -> ann s = true /\ bstart s + maxw s <= clock s);
  g5_full : bpc_ s = BFull \/ bpc_ s = BInFull ->
            batch s <> [] /\ (tc s = true -> (2 <= length (batch s))%nat);
  g5_loop : in_body (bpc_ s) = true -> tc s = true -> ann s = true /\ tmr_ok s /\ batch s <> [];
  g5_wae : wae s = true -> ann s = true
}.

Lemma G5_init mw m calls nctx : G5 (init mw m calls nctx).
Proof.
  constructor; simpl; try discriminate; intros.
  - contradiction.
  - destruct H; discriminate.
Qed.

Ltac g5_spec :=
  repeat match goal with
         | H : forall r, BFlush ?r0 = BFlush r -> _ |- _ => specialize (H r0 eq_refl)
         | H : ?a = ?a \/ _ -> _ |- _ => specialize (H (or_introl eq_refl))
         | H : _ \/ ?a = ?a -> _ |- _ => specialize (H (or_intror eq_refl))
         | H : (_ || _)%bool = false |- _ => apply orb_false_iff in H; destruct H
         end.

Ltac fwd :=
  repeat match goal with
         | Hf : forall r, bpc_ ?s = BFlush r -> _, Hr : bpc_ ?s = BFlush ?r0 |- _ => specialize (Hf r0 Hr)
         | Hf : ?P -> _, Hp : ?P |- _ => specialize (Hf Hp)
         end.

Ltac g5_fin :=
  repeat match goal with Hx : BFlush _ = BFlush _ |- _ => inversion Hx; subst; clear Hx end;
  zb; simpl in *; fwd; spec_hyps;
  try match goal with
      | |- context [tmr ?s0] => destruct (tmr s0) eqn:?; simpl in *
      | Hx : context [tmr ?s0] |- _ => destruct (tmr s0) eqn:?; simpl in *
      end;
  try match goal with
      | |- context [batch ?s0 ++ _] => destruct (batch s0) eqn:?; simpl in *
      end;
  fwd; spec_hyps;
  intuition (try congruence; try lia; try discriminate).

Lemma G5_step s l s' : G1 s -> stale s' = false -> G5 s -> step s l = Some s' -> G5 s'.
Proof.
  intros HG1 Hns [Hd Hfl Hfu Hlo Hwa] H.
  pose proof (g_tc _ HG1) as Htc.
  step_cases H Htc.
  all: simpl in *; g5_spec; spec_hyps.
  all: constructor; unfold tmr_ok in *; simpl; rw_goal; simpl; intros;
       repeat match goal with
              | Hx : In _ (_ ++ [_]) |- _ => apply in_app_or in Hx; destruct Hx as [Hx|[Hx|[]]]; [|subst; simpl]
              end;
       try (apply Hd; assumption).
  all: try (g5_fin; fail).
  all: g5_fin; rewrite app_length; simpl; lia.
Qed.

Lemma G5_reach mw m calls nctx s : Reach mw m calls nctx s -> stale s = false -> G5 s.
Proof.
  revert s. apply (reach_inv (fun s => stale s = false -> G5 s)).
  - intros _. apply G5_init.
  - intros s0 l s' Hr HG H Hns.
    pose proof (G1_reach _ _ _ _ _ Hr) as HG1.
    eapply G5_step; eauto. apply HG. exact (m_stale _ _ (step_mono _ _ _ HG1 H) Hns).
Qed.

(* ------------------------------------------------------------------ *)
(* G6: why a batch was flushed                                         *)
(* ------------------------------------------------------------------ *)
Record G6 (s : st) : Prop := mkG6 {
  g6_full : forall size, mode s = FBatch size -> bpc_ s = BFlush FCFull -> size <= zlen (batch s);
  g6_end : bpc_ s = BFlush FCEnd -> cclosed s = true;
  g6_del : forall d, In d (delivered s) ->
                     (d_reason d = FCEnd -> cclosed s = true) /\
                     (forall size, mode s = FBatch size -> d_reason d = FCFull -> size <= zlen (d_batch d))
}.

Lemma G6_init mw m calls nctx : G6 (init mw m calls nctx).
Proof. constructor; simpl; try discriminate; intros; try discriminate; contradiction. Qed.

Lemma G6_step s l s' : G1 s -> G6 s -> step s l = Some s' -> G6 s'.
Proof.
  intros HG1 [Hf He Hd] H.
  pose proof (g_tc _ HG1) as Htc.
  step_cases H Htc.
  all: simpl in *; spec_hyps.
  all: constructor; simpl; rw_goal; simpl; intros;
       repeat match goal with
              | Hx : In _ (_ ++ [_]) |- _ => apply in_app_or in Hx; destruct Hx as [Hx|[Hx|[]]]; [|subst; simpl]
              | Hm : mode ?s0 = FBatch _, Hx : FBatch _ = FBatch _ |- _ => inversion Hx; subst; clear Hx
              end.
  all: try (zb; fwd; spec_hyps; intuition (try congruence; try lia; try discriminate); fail).
  split; [discriminate | intros; apply Hf; auto].
Qed.

Lemma G6_reach mw m calls nctx s : Reach mw m calls nctx s -> G6 s.
Proof.
  apply reach_inv; [apply G6_init|].
  intros s0 l s' Hr HG H. eapply G6_step; eauto. eapply G1_reach; eauto.
Qed.

(* ================================================================== *)
(* The clauses of C11                                                  *)
(* ================================================================== *)
Section Clauses.
  Variables (mw : Z) (m : fmode) (calls : list nat) (nctx : nat).
  Notation R := (Reach mw m calls nctx).

  (* the result a consumer call holds / has returned *)
  Definition result_of (s : st) (k : nat) : option cres :=
    match nth_error (cons s) k with Some x => pc_res (c_pc x) | None => None end.

  (* ---- partition ---- *)
  Lemma partition_eq s : R s ->
    src s = dconcat s ++ batch s ++ lostb s ++ held (ppc_ s) ++ lostp s.
  Proof. intros Hr. exact (G2_reach _ _ _ _ _ Hr). Qed.

  Lemma nothing_lost_before_close s : R s -> bgdone s = false -> lostb s = [] /\ lostp s = [].
  Proof. intros Hr. exact (g_live _ (G1_reach _ _ _ _ _ Hr)). Qed.

  Lemma bclosed_all_delivered s :
    R s -> bclosed s = true -> bgdone s = false ->
    src s = dconcat s /\
    ((srcres s = Some REnd /\ perr s = None) \/ (exists e, srcres s = Some (RErr e) /\ perr s = Some e)).
  Proof.
    intros Hr Hbc Hbg.
    pose proof (G1_reach _ _ _ _ _ Hr) as G. pose proof (partition_eq _ Hr) as HP.
    assert (Hbx : b_exit (bpc_ s) = true).
    { rewrite (g_bc _ G) in Hbc. destruct (bpc_ s); simpl in *; congruence. }
    pose proof (g_bexit _ G Hbx) as Hb.
    destruct (g_live _ G Hbg) as [Hlb Hlp].
    pose proof (g_bx_cc _ G Hbg (or_introl Hbx)) as Hcc.
    rewrite (g_cc _ G) in Hcc.
    assert (Hpx : p_exit (ppc_ s) = true) by (destruct (ppc_ s); simpl in *; congruence).
    assert (Hh : held (ppc_ s) = []) by (destruct (ppc_ s); simpl in *; congruence).
    split; [|exact (g_res _ G Hbg Hpx)].
    rewrite HP, Hb, Hlb, Hlp, Hh. rewrite !app_nil_r. reflexivity.
  Qed.

  (* at End everything was delivered *)
  Lemma end_means_all_delivered s k :
    R s -> result_of s k = Some CEnd -> bgdone s = false ->
    srcres s = Some REnd /\ src s = dconcat s.
  Proof.
    intros Hr Hk Hbg. unfold result_of in Hk.
    destruct (nth_error (cons s) k) as [x|] eqn:Hx; [|discriminate].
    destruct (g3_res _ (G3_reach _ _ _ _ _ Hr) k x CEnd Hx Hk) as [Hbc Hpe].
    destruct (bclosed_all_delivered s Hr Hbc Hbg) as [Hs [[Hr1 _]|(e & _ & He)]].
    - auto.
    - rewrite (Hpe Hbg) in He. discriminate.
  Qed.

  (* ---- a source error is reported after the items that preceded it ---- *)
  Lemma error_after_items s k e :
    R s -> result_of s k = Some (CErr e) ->
    srcres s = Some (RErr e) /\ (bgdone s = false -> src s = dconcat s).
  Proof.
    intros Hr Hk. unfold result_of in Hk.
    destruct (nth_error (cons s) k) as [x|] eqn:Hx; [|discriminate].
    destruct (g3_res _ (G3_reach _ _ _ _ _ Hr) k x (CErr e) Hx Hk) as [Hbc Hpe].
    split; [exact (g_perr _ (G1_reach _ _ _ _ _ Hr) e Hpe)|].
    intros Hbg. exact (proj1 (bclosed_all_delivered s Hr Hbc Hbg)).
  Qed.

  (* every delivered batch is held by exactly one consumer call, which returns exactly it *)
  Lemma delivered_owned s d :
    R s -> In d (delivered s) -> result_of s (d_who d) = Some (CBatch (d_batch d)).
  Proof.
    intros Hr Hin. destruct (g3_del _ (G3_reach _ _ _ _ _ Hr) d Hin) as (x & Hx & Hp).
    unfold result_of. rewrite Hx. exact Hp.
  Qed.

  Lemma delivered_distinct_calls s : R s -> NoDup (map d_who (delivered s)).
  Proof. intros Hr. exact (g3_nodup _ (G3_reach _ _ _ _ _ Hr)). Qed.

  Lemma batch_result_was_delivered s k b :
    R s -> result_of s k = Some (CBatch b) -> exists d, In d (delivered s) /\ d_who d = k /\ d_batch d = b.
  Proof.
    intros Hr Hk. unfold result_of in Hk.
    destruct (nth_error (cons s) k) as [x|] eqn:Hx; [|discriminate].
    exact (g3_res _ (G3_reach _ _ _ _ _ Hr) k x (CBatch b) Hx Hk).
  Qed.

  (* ---- sizes ---- *)
  Lemma bounded s size d :
    R s -> mode s = FBatch size -> 1 <= size -> In d (delivered s) -> zlen (d_batch d) <= size.
  Proof. intros Hr. exact (g4_del _ (G4_reach _ _ _ _ _ Hr) size d). Qed.

  Lemma nonempty_partial s d :
    R s -> stale s = false -> In d (delivered s) -> d_batch d <> [].
  Proof. intros Hr Hns Hin. exact (proj1 (g5_del _ (G5_reach _ _ _ _ _ Hr Hns) d Hin)). Qed.

  (* ---- maxWait ---- *)
  Lemma maxwait_partial s d :
    R s -> stale s = false -> In d (delivered s) -> timed (d_reason d) = true ->
    d_ann d = true /\ d_start d + maxw s <= d_clock d.
  Proof. intros Hr Hns Hin. exact (proj2 (g5_del _ (G5_reach _ _ _ _ _ Hr Hns) d Hin)). Qed.

  (* for Batch: "not full, and handed out while c is still open (the source has not ended and Close
     has not made the producer leave)" implies the flush was a timed one *)
  Lemma underfilled_is_timed s size d :
    R s -> mode s = FBatch size -> In d (delivered s) -> zlen (d_batch d) < size -> cclosed s = false ->
    timed (d_reason d) = true.
  Proof.
    intros Hr Hm Hin Hlt Hcc.
    destruct (g6_del _ (G6_reach _ _ _ _ _ Hr) d Hin) as [He Hf].
    destruct (d_reason d) eqn:E; simpl; auto.
    - specialize (Hf size Hm eq_refl). lia.
    - specialize (He eq_refl). congruence.
  Qed.

  Lemma init_cfg s : R s -> maxw s = mw /\ mode s = m.
  Proof.
    revert s. apply reach_inv; [simpl; auto|].
    intros s l s' Hr [H1 H2] H.
    destruct (m_cfg _ _ (step_mono _ _ _ (G1_reach _ _ _ _ _ Hr) H)) as [E1 E2]. split; congruence.
  Qed.

  (* ---- the timer protocol never blocks the batcher ---- *)
  Lemma timer_protocol_ok s : R s -> bpc_ s <> BStuck.
  Proof. intros Hr. exact (g_stuck _ (G1_reach _ _ _ _ _ Hr)). Qed.
End Clauses.

(* ------------------------------------------------------------------ *)
(* the ghost flag [stale] is never set by the (fixed) code, so the two  *)
(* clauses hold on all runs                                            *)
(* ------------------------------------------------------------------ *)
Lemma stale_never mw m calls nctx s : Reach mw m calls nctx s -> stale s = false.
Proof.
  revert s. apply (reach_inv (fun s => stale s = false)); [reflexivity|].
  intros s0 l s' Hr Hs H. pose proof (g_tc _ (G1_reach _ _ _ _ _ Hr)) as Htc.
  step_cases H Htc; simpl; assumption.
Qed.

Lemma nonempty_all mw m calls nctx s d :
  Reach mw m calls nctx s -> In d (delivered s) -> d_batch d <> [].
Proof. intros Hr. apply (nonempty_partial _ _ _ _ s d Hr). eapply stale_never; eauto. Qed.

Lemma maxwait_all mw m calls nctx s d :
  Reach mw m calls nctx s -> In d (delivered s) -> timed (d_reason d) = true ->
  d_ann d = true /\ d_start d + maxw s <= d_clock d.
Proof. intros Hr. apply (maxwait_partial _ _ _ _ s d Hr). eapply stale_never; eauto. Qed.

(* ------------------------------------------------------------------ *)
(* a consumer call whose context expires                               *)
(* ------------------------------------------------------------------ *)
(* the labels of consumer call k other than receiving a batch *)
Definition consumer_label (k : nat) (l : lab) : bool :=
  match l with
  | LCallNext j | TRecvWaiting j | TConsClosed j | TConsCtx j | LRetNext j _ => Nat.eqb j k
  | _ => false
  end.

Definition same_data (s s' : st) : Prop :=
  batch s' = batch s /\ delivered s' = delivered s /\ src s' = src s /\ lostb s' = lostb s /\
  lostp s' = lostp s /\ srcq s' = srcq s /\ ppc_ s' = ppc_ s.

Lemma consumer_frame s l s' k :
  G1 s -> step s l = Some s' -> consumer_label k l = true -> same_data s s'.
Proof.
  intros HG1 H Hl. pose proof (g_tc _ HG1) as Htc.
  step_cases H Htc.
  all: simpl in *; try discriminate.
  all: unfold same_data; simpl; repeat split; reflexivity.
Qed.

Lemma ctx_result_took_nothing mw m calls nctx s k :
  Reach mw m calls nctx s -> result_of s k = Some CCtx -> forall d, In d (delivered s) -> d_who d <> k.
Proof.
  intros Hr Hk d Hin E. pose proof (delivered_owned _ _ _ _ s d Hr Hin) as Ho.
  rewrite E in Ho. congruence.
Qed.

(* a batch in hand-off is taken by any consumer that is (or later arrives) in one of its selects *)
Lemma handoff_enabled s r k x :
  bpc_ s = BFlush r -> getc s k = Some x -> in_select (c_pc x) = true ->
  exists s', step s (TFlushSend k) = Some s' /\ result_of s' k = Some (CBatch (batch s)).
Proof.
  intros Hb Hk Hs. simpl. rewrite Hb, Hk, Hs. eexists. split; [reflexivity|].
  unfold result_of, setc. rewrite Hk. simpl.
  rewrite nth_error_upd_same; [reflexivity|]. unfold getc in Hk. eapply nth_lt; eauto.
Qed.

(* ------------------------------------------------------------------ *)
(* Close                                                               *)
(* ------------------------------------------------------------------ *)
(* steps of the producer, the batcher and Close itself (incl. the up-calls into the source and full) *)
Definition close_label (l : lab) : bool :=
  match l with
  | TBgCancel | TWgWait
  | LSrcNextEnter | LSrcNextExit _ | TProdCancel | TCloseC | LSrcClose | TProdDone
  | TRecvItem | TRecvClosed | TFullEval | LFullEnter _ | LFullExit _ | TFlushCancel | TCloseBatchC | TBatDone => true
  | _ => false
  end.

Lemma list_eqb_Z_refl (l : list Z) : list_eqb Z.eqb l l = true.
Proof. induction l as [|a t IH]; simpl; [reflexivity|]. rewrite Z.eqb_refl. exact IH. Qed.

Definition close_pending (s : st) : Prop := kpc_ s = KCalled \/ kpc_ s = KWait.

(* the user's full, if the batcher is inside it, is able to return *)
Definition full_returns (s : st) : Prop :=
  bpc_ s = BInFull -> exists s', step s (LFullExit true) = Some s'.

Lemma close_progress_G1 s :
  G1 s -> close_pending s -> full_returns s ->
  exists l s', close_label l = true /\ step s l = Some s' /\
               (In l (lib_tau_labels s) \/ In l (lib_visible s)).
Proof.
  intros G [Hk|Hk] Hfull.
  - exists TBgCancel. eexists. simpl. rewrite Hk. split; [reflexivity|]. split; [reflexivity|].
    left. simpl. tauto.
  - assert (Hbg : bgdone s = true) by (rewrite <- (g_k _ G), Hk; reflexivity).
    destruct (ppc_ s) eqn:Ep.
    + exists LSrcNextEnter. eexists. simpl. rewrite Ep. repeat split. right. simpl. tauto.
    + exists (LSrcNextExit RCanceled). eexists. simpl. rewrite Ep, Hbg.
      split; [reflexivity|]. split; [destruct (srcq s) as [|[] ?]; reflexivity|]. right. simpl. tauto.
    + exists TProdCancel. eexists. simpl. rewrite Ep, Hbg. repeat split. left. simpl. tauto.
    + exists TCloseC. eexists. simpl. rewrite Ep. repeat split. left. simpl. tauto.
    + exists LSrcClose. eexists. simpl. rewrite Ep. repeat split. right. simpl. tauto.
    + exists TProdDone. eexists. simpl. rewrite Ep. repeat split. left. simpl. tauto.
    + (* the producer has finished: c is closed; the batcher moves *)
      assert (Hcc : cclosed s = true) by (rewrite (g_cc _ G), Ep; reflexivity).
      destruct (bpc_ s) eqn:Eb.
      * exists TRecvClosed. simpl. rewrite Eb, Hcc.
        destruct (batch s); eexists; (split; [reflexivity|]); (split; [reflexivity|]); left; simpl; tauto.
      * destruct (mode s) eqn:Em.
        -- exists TFullEval. eexists. simpl. rewrite Eb, Em. repeat split. left. simpl. tauto.
        -- exists (LFullEnter (batch s)). eexists. simpl. rewrite Eb, Em, list_eqb_Z_refl.
           repeat split. right. simpl. tauto.
      * destruct (Hfull Eb) as [s' Hs']. exists (LFullExit true), s'.
        split; [reflexivity|]. split; [exact Hs'|]. right. simpl. tauto.
      * exists TFlushCancel. eexists. simpl. rewrite Eb, Hbg. repeat split. left. simpl. tauto.
      * exists TCloseBatchC. eexists. simpl. rewrite Eb. repeat split. left. simpl. tauto.
      * exists TBatDone. eexists. simpl. rewrite Eb. repeat split. left. simpl. tauto.
      * exists TWgWait. eexists. simpl. rewrite Hk.
        assert (Hw : wg s = O) by (rewrite (g_wg _ G), Ep, Eb; reflexivity).
        rewrite Hw. repeat split. left. simpl. tauto.
      * exfalso. exact (g_stuck _ G Eb).
Qed.

Lemma close_never_quiescent_G1 s :
  G1 s -> close_pending s -> full_returns s -> quiescent s = false.
Proof.
  intros G Hp Hf. destruct (close_progress_G1 s G Hp Hf) as (l & s' & _ & Hs & [Hin|Hin]).
  - unfold quiescent.
    assert (E : existsb (enabled s) (lib_tau_labels s) = true).
    { apply existsb_exists. exists l. split; [exact Hin|]. unfold enabled. rewrite Hs. reflexivity. }
    rewrite E. reflexivity.
  - unfold quiescent.
    assert (E : existsb (enabled s) (lib_visible s) = true).
    { apply existsb_exists. exists l. split; [exact Hin|]. unfold enabled. rewrite Hs. reflexivity. }
    rewrite E. rewrite andb_false_r. reflexivity.
Qed.

Lemma close_returned_G1 s :
  G1 s -> k_ret (kpc_ s) = true ->
  wg s = O /\ ppc_ s = PDone /\ bpc_ s = BDone /\ nclose s = 1%nat /\ cclosed s = true /\ bclosed s = true.
Proof.
  intros G Hk. pose proof (g_kret _ G Hk) as Hw. rewrite (g_wg _ G) in Hw.
  assert (Ep : ppc_ s = PDone) by (destruct (ppc_ s); simpl in Hw; try lia; reflexivity).
  assert (Eb : bpc_ s = BDone) by (destruct (bpc_ s); simpl in Hw; try lia; reflexivity).
  rewrite (g_wg _ G), (g_nc _ G), (g_cc _ G), (g_bc _ G), Ep, Eb. simpl. repeat split; reflexivity.
Qed.

Lemma source_closed_at_most_once_G1 s : G1 s -> (nclose s <= 1)%nat.
Proof. intros G. rewrite (g_nc _ G). destruct (ppc_ s); simpl; lia. Qed.

(* ------------------------------------------------------------------ *)
(* a variant: every step that is not a controller action or a clock    *)
(* tick decreases [mu]                                                 *)
(* ------------------------------------------------------------------ *)
Definition lib_label (l : lab) : bool :=
  match l with
  | LRelease _ | LReleaseFull | LCancel _ | LCallNext _ | LCallClose | LTick _ | LQuiesce => false
  | _ => true
  end.

Fixpoint sumf {A} (f : A -> nat) (l : list A) : nat :=
  match l with [] => O | x :: t => (f x + sumf f t)%nat end.

Lemma sumf_upd {A} (f : A -> nat) (l : list A) k x y :
  nth_error l k = Some x -> (sumf f (upd l k y) + f x = sumf f l + f y)%nat.
Proof.
  revert k; induction l as [|a t IH]; intros [|k] H; simpl in *; try discriminate.
  - inversion H; subst. lia.
  - specialize (IH k H). lia.
Qed.

Definition rp (p : ppc) : nat :=
  match p with PDone => 0 | PWg => 1 | PSrcClose => 2 | PCloseC => 3 | PInNext => 4 | PStart => 5 | PSend _ => 6 end.
Definition rb (p : bpc) : nat :=
  match p with
  | BDone | BStuck => 0 | BWg => 1 | BExit => 2 | BFlush FCEnd => 3 | BLoop => 4 | BFlush _ => 5
  | BInFull => 9 | BFull => 10
  end.
Definition rcp (p : cpc) : nat :=
  match p with CDone _ | CIdle => 0 | CRet _ => 1 | CInner => 2 | CSel => 3 end.
Definition rc (x : consumer) : nat := rcp (c_pc x).
Definition rk (p : kpc) : nat :=
  match p with KDone | KIdle => 0 | KRet => 1 | KWait => 2 | KCalled => 3 end.
Definition rt (t : tstate) : nat := match t with TmArmed _ => 2 | TmFired => 1 | _ => 0 end.
Definition rx (c : cstate) : nat := match c with XReq => 1 | _ => 0 end.

Definition mu (s : st) : nat :=
  (7 * (3 * length (srcq s) + rp (ppc_ s)) + 6 * sumf rc (cons s) + sumf rx (ctxs s)
   + rk (kpc_ s) + 2 * rt (tmr s) + rb (bpc_ s))%nat.

Lemma variant_G1 s l s' :
  G1 s -> lib_label l = true -> step s l = Some s' -> (mu s' < mu s)%nat.
Proof.
  intros HG1 Hl H. pose proof (g_tc _ HG1) as Htc.
  step_cases H Htc.
  all: simpl in Hl; try discriminate Hl.
  all: unfold mu; simpl; rw_goal; simpl.
  all: repeat match goal with
              | Hx : (_ && _)%bool = true |- _ => apply andb_prop in Hx; destruct Hx
              end.
  all: try match goal with
           | Hg : getc ?s0 ?k0 = Some ?c0 |- context [upd (cons ?s0) ?k0 ?y] =>
               pose proof (sumf_upd rc (cons s0) k0 c0 y Hg); unfold rc in *; simpl in *
           end.
  all: try match goal with
           | Hg : nth_error (ctxs ?s0) ?k0 = Some ?c0 |- context [upd (ctxs ?s0) ?k0 ?y] =>
               pose proof (sumf_upd rx (ctxs s0) k0 c0 y Hg); simpl in *
           end.
  all: try match goal with
           | Hp : in_select (c_pc ?c0) = true |- _ => destruct (c_pc c0); simpl in *; try discriminate
           | Hp : c_pc ?c0 = _ |- _ => rewrite Hp in *; simpl in *
           end.
  all: try match goal with |- context [rt (tmr ?s0)] => destruct (tmr s0); simpl end.
  all: try match goal with |- context [match ?r with FCEnd => _ | _ => _ end] => destruct r; simpl end.
  all: lia.
Qed.

(* ------------------------------------------------------------------ *)
(* witnesses: the code before the fix ([step_prefix]) delivers an      *)
(* empty batch, or an underfilled batch younger than maxWait, through  *)
(* a stale timer                                                       *)
(* ------------------------------------------------------------------ *)
Definition run_from (mw : Z) (m : fmode) (calls : list nat) (nctx : nat) (ls : list lab) : st :=
  match run qstep (init mw m calls nctx) ls with Some s => s | None => init mw m calls nctx end.

Definition run_prefix (mw : Z) (m : fmode) (calls : list nat) (nctx : nat) (ls : list lab) : st :=
  match run step_prefix (init mw m calls nctx) ls with Some s => s | None => init mw m calls nctx end.

(* Batch(s, maxWait = 10, batchSize = 5): item 1 arrives; call 0 announces itself and starts the
   timer (deadline 10), its context expires; at clock 11 - the timer has not fired yet - call 1
   announces itself: time.Since(batchStart) > maxWait, so the old code flushed WITHOUT stopTimer;
   the stale timer then fires and the `case <-timerC` arm flushes the new, empty batch to call 2. *)
Definition w_stale_prefix : list lab :=
  [LRelease (KItem 1); LSrcNextEnter; LSrcNextExit (RItem 1); TRecvItem; TFullEval;
   LCallNext 0%nat; TRecvWaiting 0%nat;
   LCancel 0%nat; TCancelEff 0%nat; TConsCtx 0%nat; LRetNext 0%nat CCtx;
   LTick 11;
   LCallNext 1%nat; TRecvWaiting 1%nat; TFlushSend 1%nat; LRetNext 1%nat (CBatch [1])].

Definition w_empty : list lab :=
  w_stale_prefix ++ [TTimerFire; TTimerArm; LCallNext 2%nat; TFlushSend 2%nat; LRetNext 2%nat (CBatch [])].

(* ... or, if item 2 arrives first, the one-item batch [2] (batchStart = 11) is flushed at clock 11 *)
Definition w_early : list lab :=
  w_stale_prefix ++ [LRelease (KItem 2); LSrcNextEnter; LSrcNextExit (RItem 2); TRecvItem; TFullEval;
                     TTimerFire; TTimerArm; LCallNext 2%nat; TFlushSend 2%nat; LRetNext 2%nat (CBatch [2])].

Lemma old_code_refuted :
  let i := init 10 (FBatch 5) [0; 1; 2]%nat 3 in
  (exists s d, run step_prefix i w_empty = Some s /\ In d (delivered s) /\ d_batch d = [] /\
               result_of s (d_who d) = Some (CBatch []))
  /\ (exists s d, run step_prefix i w_early = Some s /\ In d (delivered s) /\
                  d_batch d <> [] /\ zlen (d_batch d) < 5 /\ cclosed s = false /\
                  timed (d_reason d) = true /\ d_ann d = false /\ d_clock d < d_start d + maxw s)
  (* and the fixed code cannot follow either script: the timer is stopped, TTimerFire is disabled *)
  /\ run step i w_empty = None /\ run step i w_early = None.
Proof.
  split; [|split; [|split]].
  - exists (run_prefix 10 (FBatch 5) [0; 1; 2]%nat 3 w_empty), (mkD 2 [] FCTimer 11 0 false).
    vm_compute. split; [reflexivity|]. split; [right; left; reflexivity | split; reflexivity].
  - exists (run_prefix 10 (FBatch 5) [0; 1; 2]%nat 3 w_early), (mkD 2 [2] FCTimer 11 11 false).
    vm_compute. split; [reflexivity|]. split; [right; left; reflexivity|].
    repeat split; try reflexivity. discriminate.
  - vm_compute. reflexivity.
  - vm_compute. reflexivity.
Qed.

(* ------------------------------------------------------------------ *)
(* non-vacuity: runs on which the hypotheses of the theorems hold      *)
(* ------------------------------------------------------------------ *)
(* a timed delivery on a run without the stale-timer step *)
Definition ex_timed : list lab :=
  [LRelease (KItem 1); LSrcNextEnter; LSrcNextExit (RItem 1); TRecvItem; TFullEval; LSrcNextEnter;
   LCallNext 0%nat; TRecvWaiting 0%nat; LTick 10; TTimerFire; TTimerArm; TFlushSend 0%nat;
   LRetNext 0%nat (CBatch [1]); LQuiesce].
Example ex_timed_ok :
  let s := run_from 10 (FBatch 3) [0]%nat 1 ex_timed in
  run qstep (init 10 (FBatch 3) [0]%nat 1) ex_timed = Some s /\ stale s = false /\
  delivered s = [mkD 0 [1] FCTimer 10 0 true] /\ result_of s 0 = Some (CBatch [1]).
Proof. vm_compute. repeat split; reflexivity. Qed.

(* the historical hang scenario: batch full, no consumer, producer holds item 2, then Close *)
Definition ex_close : list lab :=
  [LRelease (KItem 1); LRelease (KItem 2); LSrcNextEnter; LSrcNextExit (RItem 1); TRecvItem; TFullEval;
   LSrcNextEnter; LSrcNextExit (RItem 2); LQuiesce;
   LCallClose; TBgCancel; TProdCancel; TFlushCancel; TCloseC; LSrcClose; TProdDone;
   TCloseBatchC; TBatDone; TWgWait; LRetClose; LQuiesce].
Example ex_close_ok :
  let s := run_from 10 (FBatch 1) [] 0 ex_close in
  run qstep (init 10 (FBatch 1) [] 0) ex_close = Some s /\ kpc_ s = KDone /\ nclose s = 1%nat /\
  src s = [1; 2] /\ lostb s = [1] /\ lostp s = [2] /\ wg s = O.
Proof. vm_compute. repeat split; reflexivity. Qed.

(* an error after one item: the item is delivered first, then the error *)
Definition ex_err : list lab :=
  [LRelease (KItem 1); LRelease (KErr 7); LSrcNextEnter; LSrcNextExit (RItem 1); TRecvItem; TFullEval;
   LSrcNextEnter; LSrcNextExit (RErr 7); TCloseC; LSrcClose; TProdDone; TRecvClosed;
   LCallNext 0%nat; TFlushSend 0%nat; LRetNext 0%nat (CBatch [1]); TCloseBatchC; TBatDone;
   LCallNext 1%nat; TConsClosed 1%nat; LRetNext 1%nat (CErr 7); LQuiesce].
Example ex_err_ok :
  let s := run_from 10 (FBatch 2) [0; 1]%nat 2 ex_err in
  run qstep (init 10 (FBatch 2) [0; 1]%nat 2) ex_err = Some s /\ result_of s 1 = Some (CErr 7) /\
  bgdone s = false /\ src s = [1] /\ dconcat s = [1] /\ srcres s = Some (RErr 7).
Proof. vm_compute. repeat split; reflexivity. Qed.

(* a context expiry between two waiters: the second one gets the batch *)
Example ex_ctx_ok :
  let s := run_from 10 (FBatch 5) [0; 1; 2]%nat 3 w_stale_prefix in
  result_of s 0 = Some CCtx /\ result_of s 1 = Some (CBatch [1]) /\ src s = [1] /\ dconcat s = [1].
Proof. vm_compute. repeat split; reflexivity. Qed.

(* the matcher accepts the visible part of such runs *)
Example ex_accepts :
  accepts_history 10 (FBatch 1) [] 0
    [LRelease (KItem 1); LRelease (KItem 2); LSrcNextEnter; LSrcNextExit (RItem 1); LSrcNextEnter;
     LSrcNextExit (RItem 2); LQuiesce; LCallClose; LSrcClose; LRetClose; LQuiesce] = true.
Proof. vm_compute. reflexivity. Qed.
