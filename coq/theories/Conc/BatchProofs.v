(* C11 — proofs about the LTS model of stream.Batch / BatchFunc (Conc/Batch.v).
   Invariants of every state reachable by [qstep] from [init mw m calls nctx], for every maxWait,
   mode, number of consumer calls and contexts, and every label sequence (all interleavings, all
   item values, all results of the user's full, all tick amounts).  Stdlib only, no axioms. *)
From Juniper Require Import Common.Base Conc.GoLTS Conc.Batch.
From Coq Require Import Arith PeanoNat.

(* ------------------------------------------------------------------ *)
(* classes of program counters                                         *)
(* ------------------------------------------------------------------ *)
Definition pal (p : ppc) : nat := match p with PDone => 0 | _ => 1 end.
Definition bal (p : bpc) : nat := match p with BDone => 0 | _ => 1 end.
Definition p_cc (p : ppc) : bool := match p with PSrcClose | PWg | PDone => true | _ => false end.
Definition p_nc (p : ppc) : nat := match p with PWg | PDone => 1 | _ => 0 end.
Definition p_exit (p : ppc) : bool :=
  match p with PCloseC | PSrcClose | PWg | PDone => true | _ => false end.
Definition b_bc (p : bpc) : bool := match p with BWg | BDone => true | _ => false end.
Definition b_run (p : bpc) : bool := match p with BWg | BDone => false | _ => true end.
Definition b_exit (p : bpc) : bool := match p with BExit | BWg | BDone => true | _ => false end.
Definition tm_live (t : tstate) : bool := match t with TmArmed _ | TmFired => true | _ => false end.
Definition k_after (p : kpc) : bool := match p with KWait | KRet | KDone => true | _ => false end.
Definition k_ret (p : kpc) : bool := match p with KRet | KDone => true | _ => false end.
Definition held (p : ppc) : list Z := match p with PSend v => [v] | _ => [] end.

(* ------------------------------------------------------------------ *)
(* tactics                                                             *)
(* ------------------------------------------------------------------ *)
Ltac inv_some :=
  repeat match goal with
         | H : Some _ = Some _ |- _ => inversion H; subst; clear H
         | H : None = Some _ |- _ => discriminate H
         end.

(* split the definition of [step] along its matches *)
Ltac brk H :=
  repeat (inv_some;
          match type of H with
          | match ?x with _ => _ end = Some _ => destruct x eqn:?; try discriminate H
          | (if ?x then _ else _) = Some _ => destruct x eqn:?; try discriminate H
          end);
  inv_some.

Ltac unf := unfold after_full, start_timer, stop_timer, setc, getc in *.

Ltac goal_cases :=
  repeat match goal with
         | |- context [match ?x with _ => _ end] => destruct x eqn:?
         | |- context [if ?x then _ else _] => destruct x eqn:?
         end.

Lemma qstep_step s l s' : qstep s l = Some s' -> l = LQuiesce /\ s' = s \/ step s l = Some s'.
Proof.
  destruct l; simpl; auto.
  destruct (quiescent s); [intros H; inversion H; auto | discriminate].
Qed.

(* ------------------------------------------------------------------ *)
(* normal forms of the timer helpers when timerC is consistent         *)
(* ------------------------------------------------------------------ *)
Definition stopped (s : st) : st :=
  match tmr s with TmNone => s | _ => set_tc (set_tmr s TmIdle) false end.

Lemma stop_timer_nf s : tc s = tm_live (tmr s) -> stop_timer s = Some (stopped s).
Proof.
  unfold stop_timer, stopped. destruct (tmr s) eqn:Et; simpl; intros Hc; rewrite ?Hc; reflexivity.
Qed.

Lemma start_timer_nf s :
  tc s = tm_live (tmr s) -> start_timer s = set_tc (set_tmr s (TmArmed (bstart s + maxw s))) true.
Proof.
  intros Hc. unfold start_timer. rewrite (stop_timer_nf s Hc). unfold stopped.
  destruct (tmr s); reflexivity.
Qed.

Lemma after_full_nf s r :
  tc s = tm_live (tmr s) ->
  after_full s r =
  if r then set_bpc (stopped s) (BFlush FCFull)
  else match batch s with
       | [_] => if wae s
                then set_tc (set_tmr (set_bstart (set_bpc s BLoop) (clock s)) (TmArmed (clock s + maxw s))) true
                else set_bstart (set_bpc s BLoop) (clock s)
       | _ => set_bpc s BLoop
       end.
Proof.
  intros Hc. unfold after_full. rewrite (stop_timer_nf s Hc).
  destruct r; [reflexivity|].
  destruct (batch s) as [|x [|y t]]; try reflexivity.
  destruct (wae s); [|reflexivity].
  rewrite start_timer_nf; [reflexivity | exact Hc].
Qed.

Ltac norm_setc :=
  unfold setc in *;
  repeat match goal with
         | H : getc ?s ?k = Some _ |- context [getc ?s ?k] => rewrite H
         end.

Ltac tc_side Htc :=
  simpl; apply Htc;
  first [ reflexivity | match goal with H : bpc_ _ = _ |- _ => rewrite H; reflexivity end ].

Ltac nf_timers Htc :=
  try (rewrite after_full_nf by tc_side Htc);
  try (rewrite start_timer_nf by tc_side Htc);
  unfold stopped.

(* case analysis of one transition: afterwards s' is an explicit stack of setters on s *)
Ltac step_cases H Htc :=
  match type of H with step _ ?l = Some _ => destruct l end;
  simpl in H; brk H; norm_setc; nf_timers Htc; simpl; goal_cases.

Ltac spec_hyps :=
  repeat match goal with
         | H : ?a = ?a -> _ |- _ => specialize (H eq_refl)
         | H : true = false -> _ |- _ => clear H
         | H : false = true -> _ |- _ => clear H
         | H : _ /\ _ |- _ => destruct H
         end.

(* ------------------------------------------------------------------ *)
(* G1: the control skeleton                                            *)
(* ------------------------------------------------------------------ *)
Record G1 (s : st) : Prop := mkG1 {
  g_wg : wg s = (pal (ppc_ s) + bal (bpc_ s))%nat;
  g_cc : cclosed s = p_cc (ppc_ s);
  g_nc : nclose s = p_nc (ppc_ s);
  g_bc : bclosed s = b_bc (bpc_ s);
  g_stuck : bpc_ s <> BStuck;
  g_tc : b_run (bpc_ s) = true -> tc s = tm_live (tmr s);
  g_bexit : b_exit (bpc_ s) = true -> batch s = [];
  g_lostb : b_exit (bpc_ s) = false -> lostb s = [];
  g_ploop : p_exit (ppc_ s) = false -> lostp s = [] /\ srcres s = None /\ perr s = None;
  g_live : bgdone s = false -> lostb s = [] /\ lostp s = [];
  g_bx_cc : bgdone s = false -> b_exit (bpc_ s) = true \/ bpc_ s = BFlush FCEnd -> cclosed s = true;
  g_res : bgdone s = false -> p_exit (ppc_ s) = true ->
          (srcres s = Some REnd /\ perr s = None) \/ (exists e, srcres s = Some (RErr e) /\ perr s = Some e);
  g_perr : forall e, perr s = Some e -> srcres s = Some (RErr e);
  g_k : k_after (kpc_ s) = bgdone s;
  g_kret : k_ret (kpc_ s) = true -> wg s = O
}.

Lemma G1_init mw m calls nctx : G1 (init mw m calls nctx).
Proof.
  constructor; simpl; auto; try discriminate; try (intros; discriminate).
  intros _ [Hx|Hx]; discriminate.
Qed.

Ltac rw_eqs :=
  repeat match goal with
         | H : ?f ?s = _ |- context [?f ?s] => rewrite H
         end.

Ltac g1_solve :=
  simpl in *; spec_hyps; intros; rw_eqs; simpl;
  try (intuition (try congruence; try lia); fail); eauto.

Lemma G1_step s l s' : G1 s -> step s l = Some s' -> G1 s'.
Proof.
  intros [Hwg Hcc Hnc Hbc Hst Htc Hbx Hlb Hpl Hlv Hbxc Hres Hperr Hk Hkr] H.
  step_cases H Htc.
  all: try (constructor; g1_solve; fail).
  all: constructor; g1_solve.
  all: match goal with |- ?g => idtac g end.
  Show.
Admitted.
