(* C11 — proofs about the LTS model of stream.Batch / BatchFunc (Conc/Batch.v).
   Invariants of every state reachable by [qstep] from [init mw m calls nctx], for every maxWait,
   mode, number of consumer calls and contexts, and every label sequence (all interleavings, all
   item values, all results of the user's full, all tick amounts).  Stdlib only, no axioms. *)
From Juniper Require Import Common.Base Conc.GoLTS Conc.Batch.
From Coq Require Import Arith PeanoNat.

(* ------------------------------------------------------------------ *)
(* classes of program counters                                         *)
(* ------------------------------------------------------------------ *)
Definition pal (p : ppc) : nat := match p with PDone => 0 | _ => 1 end.
Definition bal (p : bpc) : nat := match p with BDone => 0 | _ => 1 end.
Definition p_cc (p : ppc) : bool := match p with PSrcClose | PWg | PDone => true | _ => false end.
Definition p_nc (p : ppc) : nat := match p with PWg | PDone => 1 | _ => 0 end.
Definition p_exit (p : ppc) : bool :=
  match p with PCloseC | PSrcClose | PWg | PDone => true | _ => false end.
Definition b_bc (p : bpc) : bool := match p with BWg | BDone => true | _ => false end.
Definition b_run (p : bpc) : bool := match p with BWg | BDone => false | _ => true end.
Definition b_exit (p : bpc) : bool := match p with BExit | BWg | BDone => true | _ => false end.
Definition tm_live (t : tstate) : bool := match t with TmArmed _ | TmFired => true | _ => false end.
Definition k_after (p : kpc) : bool := match p with KWait | KRet | KDone => true | _ => false end.
Definition k_ret (p : kpc) : bool := match p with KRet | KDone => true | _ => false end.
Definition held (p : ppc) : list Z := match p with PSend v => [v] | _ => [] end.

(* ------------------------------------------------------------------ *)
(* tactics                                                             *)
(* ------------------------------------------------------------------ *)
Ltac inv_some :=
  repeat match goal with
         | H : Some _ = Some _ |- _ => inversion H; subst; clear H
         | H : None = Some _ |- _ => discriminate H
         end.

(* split the definition of [step] along its matches *)
Ltac brk H :=
  repeat (inv_some;
          match type of H with
          | match ?x with _ => _ end = Some _ => destruct x eqn:?; try discriminate H
          | (if ?x then _ else _) = Some _ => destruct x eqn:?; try discriminate H
          end);
  inv_some.

Ltac unf := unfold after_full, start_timer, stop_timer, setc, getc in *.

Ltac goal_cases :=
  repeat match goal with
         | |- context [match ?x with _ => _ end] => destruct x eqn:?
         | |- context [if ?x then _ else _] => destruct x eqn:?
         end.

Lemma qstep_step s l s' : qstep s l = Some s' -> l = LQuiesce /\ s' = s \/ step s l = Some s'.
Proof.
  destruct l; simpl; auto.
  destruct (quiescent s); [intros H; inversion H; auto | discriminate].
Qed.

(* ------------------------------------------------------------------ *)
(* normal forms of the timer helpers when timerC is consistent         *)
(* ------------------------------------------------------------------ *)
Definition stopped (s : st) : st :=
  match tmr s with TmNone => s | _ => set_tc (set_tmr s TmIdle) false end.

Lemma stop_timer_nf s : tc s = tm_live (tmr s) -> stop_timer s = Some (stopped s).
Proof.
  unfold stop_timer, stopped. destruct (tmr s) eqn:Et; simpl; intros Hc; rewrite ?Hc; reflexivity.
Qed.

Lemma start_timer_nf s :
  tc s = tm_live (tmr s) -> start_timer s = set_tc (set_tmr s (TmArmed (bstart s + maxw s))) true.
Proof.
  intros Hc. unfold start_timer. rewrite (stop_timer_nf s Hc). unfold stopped.
  destruct (tmr s); reflexivity.
Qed.

Lemma after_full_nf s r :
  tc s = tm_live (tmr s) ->
  after_full s r =
  if r then set_bpc (stopped s) (BFlush FCFull)
  else match batch s with
       | [_] => if wae s
                then set_tc (set_tmr (set_bstart (set_bpc s BLoop) (clock s)) (TmArmed (clock s + maxw s))) true
                else set_bstart (set_bpc s BLoop) (clock s)
       | _ => set_bpc s BLoop
       end.
Proof.
  intros Hc. unfold after_full. rewrite (stop_timer_nf s Hc).
  destruct r; [reflexivity|].
  destruct (batch s) as [|x [|y t]]; try reflexivity.
  destruct (wae s); [|reflexivity].
  rewrite start_timer_nf; [reflexivity | exact Hc].
Qed.

Ltac norm_setc :=
  unfold setc in *;
  repeat match goal with
         | H : getc ?s ?k = Some _ |- context [getc ?s ?k] => rewrite H
         end.

Ltac tc_side Htc :=
  simpl; apply Htc;
  first [ reflexivity | match goal with H : bpc_ _ = _ |- _ => rewrite H; reflexivity end ].

Ltac nf_timers Htc :=
  try (rewrite after_full_nf by tc_side Htc);
  try (rewrite start_timer_nf by tc_side Htc);
  unfold stopped.

(* case analysis of one transition: afterwards s' is an explicit stack of setters on s *)
Ltac step_cases H Htc :=
  match type of H with step _ ?l = Some _ => destruct l end;
  simpl in H; brk H; norm_setc; nf_timers Htc; simpl; goal_cases.

Ltac spec_hyps :=
  repeat match goal with
         | H : ?a = ?a -> _ |- _ => specialize (H eq_refl)
         | H : true = false -> _ |- _ => clear H
         | H : false = true -> _ |- _ => clear H
         | H : _ /\ _ |- _ => destruct H
         end.

(* ------------------------------------------------------------------ *)
(* G1: the control skeleton                                            *)
(* ------------------------------------------------------------------ *)
Record G1 (s : st) : Prop := mkG1 {
  g_wg : wg s = (pal (ppc_ s) + bal (bpc_ s))%nat;
  g_cc : cclosed s = p_cc (ppc_ s);
  g_nc : nclose s = p_nc (ppc_ s);
  g_bc : bclosed s = b_bc (bpc_ s);
  g_stuck : bpc_ s <> BStuck;
  g_tc : b_run (bpc_ s) = true -> tc s = tm_live (tmr s);
  g_bexit : b_exit (bpc_ s) = true -> batch s = [];
  g_lostb : b_exit (bpc_ s) = false -> lostb s = [];
  g_ploop : p_exit (ppc_ s) = false -> lostp s = [] /\ srcres s = None /\ perr s = None;
  g_live : bgdone s = false -> lostb s = [] /\ lostp s = [];
  g_bx_cc : bgdone s = false -> b_exit (bpc_ s) = true \/ bpc_ s = BFlush FCEnd -> cclosed s = true;
  g_res : bgdone s = false -> p_exit (ppc_ s) = true ->
          (srcres s = Some REnd /\ perr s = None) \/ (exists e, srcres s = Some (RErr e) /\ perr s = Some e);
  g_perr : forall e, perr s = Some e -> srcres s = Some (RErr e);
  g_k : k_after (kpc_ s) = bgdone s;
  g_kret : k_ret (kpc_ s) = true -> wg s = O
}.

Lemma G1_init mw m calls nctx : G1 (init mw m calls nctx).
Proof.
  constructor; simpl; auto; try discriminate; try (intros; discriminate).
  intros _ [Hx|Hx]; discriminate.
Qed.

Ltac rw_goal :=
  repeat match goal with
         | H : ?f ?s = _ |- context [?f ?s] => rewrite H
         end.

Ltac g1_solve :=
  simpl; rw_goal; simpl; intros; spec_hyps;
  first [ congruence | lia | discriminate
        | (intuition (try congruence; try lia); fail)
        | eauto ].

Lemma G1_step s l s' : G1 s -> step s l = Some s' -> G1 s'.
Proof.
  intros [Hwg Hcc Hnc Hbc Hst Htc Hbx Hlb Hpl Hlv Hbxc Hres Hperr Hk Hkr] H.
  step_cases H Htc.
  all: simpl in *; spec_hyps; constructor; g1_solve.
Qed.

Definition Reach (mw : Z) (m : fmode) (calls : list nat) (nctx : nat) (s : st) : Prop :=
  reachable qstep (init mw m calls nctx) s.

Lemma reach_inv (P : st -> Prop) mw m calls nctx :
  P (init mw m calls nctx) ->
  (forall s l s', Reach mw m calls nctx s -> P s -> step s l = Some s' -> P s') ->
  forall s, Reach mw m calls nctx s -> P s.
Proof.
  intros H0 Hs s Hr.
  assert (HP : Reach mw m calls nctx s /\ P s); [|exact (proj2 HP)].
  apply (invariant_rule qstep (fun s => Reach mw m calls nctx s /\ P s) (init mw m calls nctx)); auto.
  - split; [apply reachable_refl | exact H0].
  - intros s1 l s2 [Hr1 HP1] Hq. split; [eapply reachable_step; eauto|].
    destruct (qstep_step _ _ _ Hq) as [[_ ->]|Hst]; [exact HP1 | eapply Hs; eauto].
Qed.

Lemma G1_reach mw m calls nctx s : Reach mw m calls nctx s -> G1 s.
Proof.
  apply reach_inv; [apply G1_init | intros; eapply G1_step; eauto].
Qed.

(* ------------------------------------------------------------------ *)
(* G2: partition                                                       *)
(* ------------------------------------------------------------------ *)
Definition dconcat (s : st) : list Z := concat (map d_batch (delivered s)).

Definition G2 (s : st) : Prop :=
  src s = dconcat s ++ batch s ++ lostb s ++ held (ppc_ s) ++ lostp s.

Lemma G2_step s l s' : G1 s -> G2 s -> step s l = Some s' -> G2 s'.
Proof.
  intros [Hwg Hcc Hnc Hbc Hst Htc Hbx Hlb Hpl Hlv Hbxc Hres Hperr Hk Hkr] H2 H.
  unfold G2, dconcat in *.
  step_cases H Htc.
  all: simpl in *; spec_hyps; rw_goal; simpl; try (rewrite H2); rw_goal; simpl.
  all: repeat rewrite ?map_app, ?concat_app, ?app_nil_r, <- ?app_assoc; simpl;
       repeat rewrite ?app_nil_r; try reflexivity; try congruence.
Qed.

Lemma G2_init mw m calls nctx : G2 (init mw m calls nctx).
Proof. reflexivity. Qed.

(* ------------------------------------------------------------------ *)
(* monotone facts of one transition                                    *)
(* ------------------------------------------------------------------ *)
Record Mono (s s' : st) : Prop := mkMono {
  m_del : exists t, delivered s' = delivered s ++ t;
  m_bc : bclosed s = true -> bclosed s' = true;
  m_bg : bgdone s' = false -> bgdone s = false;
  m_perr_end : bclosed s = true -> bgdone s = false -> perr s' = perr s;
  m_perr : forall e, perr s = Some e -> perr s' = Some e;
  m_stale : stale s' = false -> stale s = false;
  m_clock : clock s <= clock s';
  m_cfg : maxw s' = maxw s /\ mode s' = mode s
}.

Lemma step_mono s l s' : G1 s -> step s l = Some s' -> Mono s s'.
Proof.
  intros [Hwg Hcc Hnc Hbc Hst Htc Hbx Hlb Hpl Hlv Hbxc Hres Hperr Hk Hkr] H.
  step_cases H Htc.
  all: simpl in *; spec_hyps; constructor; simpl; rw_goal; simpl; intros.
  all: try (exists []; rewrite app_nil_r; reflexivity).
  all: try (eexists; reflexivity).
  all: try first [ congruence | lia | (split; reflexivity) ].
  - exfalso. specialize (Hbxc H3). destruct (bpc_ s); simpl in *; try discriminate;
      assert (Hx : cclosed s = true) by (apply Hbxc; auto); congruence.
  - match goal with Hx : (_ || _)%bool = false |- _ => apply orb_false_iff in Hx; exact (proj1 Hx) end.
Qed.

(* ------------------------------------------------------------------ *)
(* G3: what the consumers hold, and who holds each delivered batch     *)
(* ------------------------------------------------------------------ *)
Definition pc_res (p : cpc) : option cres :=
  match p with CRet r | CDone r => Some r | _ => None end.

Definition res_ok (s : st) (k : nat) (r : cres) : Prop :=
  match r with
  | CBatch b => exists d, In d (delivered s) /\ d_who d = k /\ d_batch d = b
  | CEnd => bclosed s = true /\ (bgdone s = false -> perr s = None)
  | CErr e => bclosed s = true /\ perr s = Some e
  | CCtx => True
  end.

Record G3 (s : st) : Prop := mkG3 {
  g3_res : forall k x r, nth_error (cons s) k = Some x -> pc_res (c_pc x) = Some r -> res_ok s k r;
  g3_del : forall d, In d (delivered s) ->
                     exists x, nth_error (cons s) (d_who d) = Some x /\
                               pc_res (c_pc x) = Some (CBatch (d_batch d));
  g3_nodup : NoDup (map d_who (delivered s))
}.

Lemma nth_lt {A} (l : list A) n x : nth_error l n = Some x -> (n < length l)%nat.
Proof. intros H. apply nth_error_Some. congruence. Qed.

Lemma res_ok_mono s s' k r : Mono s s' -> res_ok s k r -> res_ok s' k r.
Proof.
  intros [[t Ht] Hbc Hbg Hpe Hp _ _ _] Hr. destruct r as [b| |e|]; simpl in *; auto.
  - destruct Hr as (d & Hin & Hw & Hb). exists d. rewrite Ht. split; [apply in_or_app; auto | auto].
  - destruct Hr as [Hc Hn]. split; [auto|]. intros Hb'. rewrite (Hpe Hc (Hbg Hb')). auto.
  - destruct Hr as [Hc He]. split; auto.
Qed.

(* a transition that touches neither the consumers nor the delivered list *)
Lemma G3_frame s s' :
  G3 s -> Mono s s' -> cons s' = cons s -> delivered s' = delivered s -> G3 s'.
Proof.
  intros [Hr Hd Hn] Hm Hc Hdl. constructor; rewrite ?Hc, ?Hdl; auto.
  intros k x r Hk Hp. eapply res_ok_mono; eauto.
Qed.

(* consumer k moves from pc (c_pc x) to p' *)
Lemma G3_upd s s' k x p' :
  G3 s -> Mono s s' -> nth_error (cons s) k = Some x ->
  cons s' = upd (cons s) k (mkC (c_ctx x) p') ->
  (pc_res (c_pc x) = None \/ pc_res p' = pc_res (c_pc x)) ->
  (forall r, pc_res p' = Some r -> pc_res (c_pc x) = None -> res_ok s' k r) ->
  (delivered s' = delivered s \/
   pc_res (c_pc x) = None /\ exists d, delivered s' = delivered s ++ [d] /\ d_who d = k /\
                                       pc_res p' = Some (CBatch (d_batch d))) ->
  G3 s'.
Proof.
  intros [Hr Hd Hn] Hm Hk Hc Hpc Hnew Hdl.
  pose proof (nth_lt _ _ _ Hk) as Hlt.
  assert (Hsame : nth_error (cons s') k = Some (mkC (c_ctx x) p'))
    by (rewrite Hc; apply nth_error_upd_same; exact Hlt).
  assert (Hoth : forall j, j <> k -> nth_error (cons s') j = nth_error (cons s) j)
    by (intros j Hj; rewrite Hc; apply nth_error_upd_other; congruence).
  assert (Hold : forall d, In d (delivered s) ->
                           exists y, nth_error (cons s') (d_who d) = Some y /\
                                     pc_res (c_pc y) = Some (CBatch (d_batch d))).
  { intros d Hin. destruct (Hd d Hin) as (y & Hy & Hpy).
    destruct (Nat.eq_dec (d_who d) k) as [E|E].
    - rewrite E in *. rewrite Hk in Hy. inversion Hy; subst y.
      exists (mkC (c_ctx x) p'). split; [exact Hsame|]. simpl.
      destruct Hpc as [Hnone|Heq]; [congruence | rewrite Heq; exact Hpy].
    - exists y. rewrite (Hoth _ E). auto. }
  constructor.
  - intros j y r Hj Hp. destruct (Nat.eq_dec j k) as [->|Hne].
    + rewrite Hsame in Hj. inversion Hj; subst y. simpl in Hp.
      destruct Hpc as [Hnone|Heq].
      * apply Hnew; auto.
      * eapply res_ok_mono; eauto. eapply Hr; eauto. rewrite <- Heq. exact Hp.
    + rewrite (Hoth _ Hne) in Hj. eapply res_ok_mono; eauto.
  - destruct Hdl as [Hdl|(Hnone & d0 & Hdl & Hw & Hp0)]; rewrite Hdl.
    + exact Hold.
    + intros d Hin. apply in_app_or in Hin. destruct Hin as [Hin|[<-|[]]]; [auto|].
      exists (mkC (c_ctx x) p'). rewrite Hw. split; [exact Hsame | exact Hp0].
  - destruct Hdl as [Hdl|(Hnone & d0 & Hdl & Hw & Hp0)]; rewrite Hdl; [exact Hn|].
    rewrite map_app. simpl.
    assert (Hni : ~ In k (map d_who (delivered s))).
    { intros Hin. apply in_map_iff in Hin. destruct Hin as (d & Hwd & Hin).
      destruct (Hd d Hin) as (y & Hy & Hpy). rewrite Hwd, Hk in Hy. inversion Hy; subst y. congruence. }
    rewrite Hw. clear - Hn Hni.
    induction (map d_who (delivered s)) as [|a t IH]; simpl.
    + constructor; [intros []|constructor].
    + inversion Hn; subst. constructor.
      * intros Hin. apply in_app_or in Hin. destruct Hin as [Hin|[E|[]]]; [auto|].
        apply Hni. left; auto.
      * apply IH; auto. intros Hin; apply Hni; right; auto.
Qed.

Lemma G3_init mw m calls nctx : G3 (init mw m calls nctx).
Proof.
  constructor; simpl.
  - intros k x r Hk Hp. rewrite nth_error_map in Hk.
    destruct (nth_error calls k); simpl in Hk; [|discriminate]. inversion Hk; subst. discriminate.
  - intros d [].
  - constructor.
Qed.
