(* Common library for the goroutine-based components (DESIGN.md A2.7).

   A component is a labelled transition system  step : St -> Lab -> option St,  deterministic
   given the label (the label carries the thread and every non-deterministic choice).
   This file provides: runs, reachability, the invariant rule, and an executable history matcher
   (used by the correspondence check: a history recorded on the real code must be producible by
   the model).  No axioms. *)
From Juniper Require Import Common.Base.

Section LTS.
  Variables St Lab : Type.
  Variable step : St -> Lab -> option St.

  Fixpoint run (s : St) (ls : list Lab) : option St :=
    match ls with
    | [] => Some s
    | l :: ls' => match step s l with Some s' => run s' ls' | None => None end
    end.

  Definition reachable (init s : St) : Prop := exists ls, run init ls = Some s.

  Lemma run_app s ls1 ls2 :
    run s (ls1 ++ ls2) = match run s ls1 with Some s' => run s' ls2 | None => None end.
  Proof.
    revert s; induction ls1 as [|l ls1 IH]; intros s; simpl; [reflexivity|].
    destruct (step s l); [apply IH | reflexivity].
  Qed.

  Lemma reachable_refl init : reachable init init.
  Proof. exists []; reflexivity. Qed.

  Lemma reachable_step init s l s' :
    reachable init s -> step s l = Some s' -> reachable init s'.
  Proof.
    intros [ls Hr] Hs. exists (ls ++ [l]). rewrite run_app, Hr. simpl. rewrite Hs. reflexivity.
  Qed.

  (* the invariant rule: the only induction principle the component proofs need *)
  Theorem invariant_rule (Inv : St -> Prop) init :
    Inv init ->
    (forall s l s', Inv s -> step s l = Some s' -> Inv s') ->
    forall s, reachable init s -> Inv s.
  Proof.
    intros H0 Hstep s [ls Hr]. revert init H0 Hr.
    induction ls as [|l ls IH]; intros init H0 Hr; simpl in Hr.
    - inversion Hr; subst; exact H0.
    - destruct (step init l) as [s1|] eqn:E; [|discriminate].
      apply (IH s1); [eapply Hstep; eauto | exact Hr].
  Qed.

  (* run-indexed form: every prefix of every run satisfies the invariant *)
  Corollary invariant_run (Inv : St -> Prop) init :
    Inv init ->
    (forall s l s', Inv s -> step s l = Some s' -> Inv s') ->
    forall ls s, run init ls = Some s -> Inv s.
  Proof. intros H0 Hs ls s Hr. eapply invariant_rule; eauto. exists ls; exact Hr. Qed.

  (* ---------------- executable history matcher ----------------
     vis l    : the visible event of a label (None = internal step)
     labels s : a finite list of candidate labels from state s (must contain every enabled label
                whose data is determined by s and the event being matched; see [labels_ev])  *)
  Variable Ev : Type.
  Variable vis : Lab -> option Ev.
  Variable ev_eqb : Ev -> Ev -> bool.
  Variable st_eqb : St -> St -> bool.
  Variable labels : St -> list Lab.          (* internal labels enabled-or-not from s *)
  Variable labels_ev : St -> Ev -> list Lab. (* labels that could produce event e from s *)

  Definition succ_tau (s : St) : list St :=
    flat_map (fun l => match vis l with
                       | None => match step s l with Some s' => [s'] | None => [] end
                       | Some _ => []
                       end) (labels s).

  Definition succ_ev (e : Ev) (s : St) : list St :=
    flat_map (fun l => match vis l with
                       | Some e' => if ev_eqb e e'
                                    then match step s l with Some s' => [s'] | None => [] end
                                    else []
                       | None => []
                       end) (labels_ev s e).

  Fixpoint mem (s : St) (l : list St) : bool :=
    match l with [] => false | x :: t => st_eqb s x || mem s t end.

  Fixpoint add_new (new seen : list St) : list St * list St :=
    (* returns (really new ones, seen extended) *)
    match new with
    | [] => ([], seen)
    | x :: t => if mem x seen then add_new t seen
                else let '(n, sn) := add_new t (x :: seen) in (x :: n, sn)
    end.

  (* breadth-first closure under internal steps; fuel bounds the number of waves *)
  Fixpoint closure (fuel : nat) (frontier seen : list St) : list St :=
    match fuel with
    | O => seen
    | S f =>
        match frontier with
        | [] => seen
        | _ => let '(n, sn) := add_new (flat_map succ_tau frontier) seen in closure f n sn
        end
    end.

  Definition close (fuel : nat) (ss : list St) : list St :=
    let '(n, sn) := add_new ss [] in closure fuel n sn.

  (* the set of model states compatible with the recorded history so far *)
  Fixpoint states_after (fuel : nat) (ss : list St) (evs : list Ev) : list St :=
    match evs with
    | [] => ss
    | e :: evs' => states_after fuel (close fuel (flat_map (succ_ev e) ss)) evs'
    end.

  (* index of the first event that no model run can produce (None = history accepted) *)
  Fixpoint first_reject (fuel : nat) (ss : list St) (evs : list Ev) (i : nat) : option nat :=
    match evs with
    | [] => None
    | e :: evs' =>
        match close fuel (flat_map (succ_ev e) ss) with
        | [] => Some i
        | ss' => first_reject fuel ss' evs' (S i)
        end
    end.

  Definition accepts (fuel : nat) (init : St) (evs : list Ev) : bool :=
    match first_reject fuel (close fuel [init]) evs O with None => true | Some _ => false end.

  (* after the history: is there a compatible model state satisfying a predicate (e.g. "every
     call that the implementation left pending is blocked in the model too")? *)
  Definition final_exists (fuel : nat) (init : St) (evs : list Ev) (p : St -> bool) : bool :=
    existsb p (states_after fuel (close fuel [init]) evs).
End LTS.

Arguments run {St Lab} step s ls.
Arguments reachable {St Lab} step init s.
Arguments invariant_rule {St Lab} step Inv init.
Arguments invariant_run {St Lab} step Inv init.
Arguments accepts {St Lab} step {Ev} vis ev_eqb st_eqb labels labels_ev fuel init evs.
Arguments first_reject {St Lab} step {Ev} vis ev_eqb st_eqb labels labels_ev fuel ss evs i.
Arguments states_after {St Lab} step {Ev} vis ev_eqb st_eqb labels labels_ev fuel ss evs.
Arguments close {St Lab} step {Ev} vis st_eqb labels fuel ss.
Arguments final_exists {St Lab} step {Ev} vis ev_eqb st_eqb labels labels_ev fuel init evs p.
