(* Layer M for internal/heap/heap.go (binary heap with index notifications) and
   container/xheap/xheap.go (Heap and PriorityQueue).  Field for field, branch for branch;
   panics are values; loops that are not structural carry explicit fuel.
   No proofs in this file (the model must keep running when a proof breaks).

   Modelled deviation from the source as it stands in /repo: UpdateAt ends with [h.gen++]
   (the fix that is about to be committed), so every operation that writes the array bumps gen.
   Because of that, the slice iterator held by a heapIterator (which aliases h.a) can be
   modelled as a COPY of the contents taken at the iterator's first Next: any later in-place
   write bumps gen and the gen check precedes every read.

   Fuel exhaustion is reported as [Panic POther]; Proofs.v shows it never happens. *)
From Juniper Require Import Common.Base.

Definition rbind {A B} (r : result A) (f : A -> result B) : result B :=
  match r with Ok a => f a | Panic c => Panic c end.

Section Heap.
  Context {T IS : Type}.
  Variable zero : T.                          (* [var zero T] *)
  Variable less : T -> T -> bool.             (* lessFn *)
  Variable on_index : T -> Z -> IS -> IS.       (* indexChanged, acting on the state it closes over *)

  Record heap := mkHeap { ha : list T; hgen : Z; hs : IS }.

  (* the part of the state the percolation loops work on: h.a and the closure state *)
  Definition core := (list T * IS)%type.

  Definition parent (i : Z) : Z := Z.quot (i - 1) 2.
  Definition children (i : Z) : Z * Z := (i * 2 + 1, i * 2 + 2).

  (* notifyIndexChanged *)
  Definition notify (i : Z) (c : core) : result core :=
    match zget (fst c) i with
    | Some x => Ok (fst c, on_index x i (snd c))
    | None => Panic PIndex
    end.

  (* h.less(i, j) *)
  Definition less_at (c : core) (i j : Z) : result bool :=
    match zget (fst c) i, zget (fst c) j with
    | Some x, Some y => Ok (less x y)
    | _, _ => Panic PIndex
    end.

  (* a[i], a[j] = a[j], a[i]; notify(i); notify(j).  Both reads succeeding means both writes do. *)
  Definition swap (i j : Z) (c : core) : result core :=
    match zget (fst c) i, zget (fst c) j with
    | Some x, Some y =>
        Ok (upd (upd (fst c) (Z.to_nat i) y) (Z.to_nat j) x,
            on_index x j (on_index y i (snd c)))
    | _, _ => Panic PIndex
    end.

  (* for i > 0 { p := parent(i); if less(i,p) { swap(i,p) }; i = p }   -- no early exit *)
  Fixpoint percolate_up (fuel : nat) (i : Z) (c : core) : result core :=
    if 0 <? i then
      match fuel with
      | O => Panic POther
      | S f =>
          let p := parent i in
          rbind (less_at c i p) (fun b =>
          rbind (if b then swap i p c else Ok c) (percolate_up f p))
      end
    else Ok c.

  Fixpoint percolate_down (fuel : nat) (i : Z) (c : core) : result core :=
    match fuel with
    | O => Panic POther
    | S f =>
        let '(lc, rc) := children i in
        let n := zlen (fst c) in
        if n <=? lc then Ok c                                     (* no children *)
        else if n <=? rc then                                     (* only a left child *)
          rbind (less_at c lc i) (fun b =>
          if b then rbind (swap lc i c) (percolate_down f lc) else Ok c)
        else                                                      (* both children *)
          rbind (less_at c rc lc) (fun b =>
          let least := if b then rc else lc in
          rbind (less_at c least i) (fun b2 =>
          if b2 then rbind (swap least i c) (percolate_down f least) else Ok c))
    end.

  Definition up (i : Z) (c : core) : result core := percolate_up (length (fst c)) i c.
  Definition down (i : Z) (c : core) : result core := percolate_down (S (length (fst c))) i c.

  (* for i := len/2 - 1; i >= 0; i-- { percolateDown(i) }   with n = len/2 iterations *)
  Fixpoint heapify (n : nat) (c : core) : result core :=
    match n with
    | O => Ok c
    | S n' => rbind (down (Z.of_nat n') c) (heapify n')
    end.

  (* for i := range initial { notify(i) } *)
  Fixpoint notify_loop (n : nat) (i : Z) (c : core) : result core :=
    match n with
    | O => Ok c
    | S n' => rbind (notify i c) (notify_loop n' (i + 1))
    end.

  Definition new (initial : list T) (s0 : IS) : result heap :=
    rbind (heapify (Z.to_nat (Z.quot (zlen initial) 2)) (initial, s0)) (fun c =>
    rbind (notify_loop (length initial) 0 c) (fun c' =>
    Ok (mkHeap (fst c') 0 (snd c')))).

  Definition len (h : heap) : Z := zlen (ha h).

  (* slices.Grow panics on negative n; xslices.Shrink with negative n panics too
     (make with negative length, or x2[:len(s)] beyond cap(x2) = len(s)+n).  Neither changes
     the contents or gen. *)
  Definition grow (n : Z) (h : heap) : result heap := if n <? 0 then Panic PNeg else Ok h.
  Definition shrink (n : Z) (h : heap) : result heap := if n <? 0 then Panic PNeg else Ok h.

  Definition push (x : T) (h : heap) : result heap :=
    let a := ha h ++ [x] in
    let n := zlen a in
    rbind (notify (n - 1) (a, hs h)) (fun c =>
    rbind (up (n - 1) c) (fun c' =>
    Ok (mkHeap (fst c') (hgen h + 1) (snd c')))).

  Definition pop (h : heap) : result (T * heap) :=
    let a := ha h in
    let n := zlen a in
    match zget a 0 with
    | None => Panic PIndex
    | Some item =>
      match zget a (n - 1) with
      | None => Panic PIndex
      | Some lst =>
        match zset a 0 lst with
        | None => Panic PIndex
        | Some a1 =>
          match zset a1 (n - 1) zero with
          | None => Panic PIndex
          | Some a2 =>
              let a3 := zslice a2 0 (n - 1) in
              rbind (if 0 <? zlen a3 then notify 0 (a3, hs h) else Ok (a3, hs h)) (fun c =>
              rbind (down 0 c) (fun c' =>
              Ok (item, mkHeap (fst c') (hgen h + 1) (snd c'))))
          end
        end
      end
    end.

  Definition peek (h : heap) : result T :=
    match zget (ha h) 0 with Some x => Ok x | None => Panic PIndex end.

  Definition remove_at (i : Z) (h : heap) : result heap :=
    let a := ha h in
    let n := zlen a in
    match zget a (n - 1) with
    | None => Panic PIndex
    | Some lst =>
      match zset a i lst with
      | None => Panic PIndex
      | Some a1 =>
        match zset a1 (n - 1) zero with
        | None => Panic PIndex
        | Some a2 =>
            let a3 := zslice a2 0 (n - 1) in
            rbind (if i <? zlen a3
                   then rbind (notify i (a3, hs h)) (fun c => rbind (up i c) (down i))
                   else Ok (a3, hs h)) (fun c' =>
            Ok (mkHeap (fst c') (hgen h + 1) (snd c')))
        end
      end
    end.

  Definition item (i : Z) (h : heap) : result T :=
    match zget (ha h) i with Some x => Ok x | None => Panic PIndex end.

  (* with the gen++ fix *)
  Definition update_at (i : Z) (x : T) (h : heap) : result heap :=
    match zset (ha h) i x with
    | None => Panic PIndex
    | Some a1 =>
        rbind (notify i (a1, hs h)) (fun c =>
        rbind (up i c) (fun c1 =>
        rbind (down i c1) (fun c' =>
        Ok (mkHeap (fst c') (hgen h + 1) (snd c')))))
    end.

  (* heapIterator: gen = -1 until the first Next; then the captured gen and the slice iterator
     (modelled by the remaining items of the copy). *)
  Record hiter := mkIter { it_gen : Z; it_rest : list T }.

  Definition iterate : hiter := mkIter (-1) [].

  (* sliceIterator.Next *)
  Definition inner_next (it : hiter) : result (option T) * hiter :=
    match it_rest it with
    | [] => (Ok None, it)
    | x :: r => (Ok (Some x), mkIter (it_gen it) r)
    end.

  Definition iter_next (h : heap) (it : hiter) : result (option T) * hiter :=
    if it_gen it =? -1 then inner_next (mkIter (hgen h) (ha h))
    else if negb (it_gen it =? hgen h) then (Panic PModified, it)
    else inner_next it.

  (* drain an iterator; None = fuel exhausted (excluded by theorem) *)
  Fixpoint drain (fuel : nat) (h : heap) (it : hiter) : option (result (list T)) :=
    match fuel with
    | O => None
    | S fuel' =>
        match iter_next h it with
        | (Panic c, _) => Some (Panic c)
        | (Ok None, _) => Some (Ok [])
        | (Ok (Some x), it') =>
            match drain fuel' h it' with
            | Some (Ok l) => Some (Ok (x :: l))
            | r => r
            end
        end
    end.

  Definition iterate_all (h : heap) : option (result (list T)) :=
    drain (S (length (ha h))) h iterate.
End Heap.

Arguments heap : clear implicits.
Arguments hiter : clear implicits.
Arguments core : clear implicits.

(* ---------- xheap.PriorityQueue[K, P] ---------- *)
Section PQ.
  Context {K P : Type}.
  Variable keqb : K -> K -> bool.             (* == on the comparable key type *)
  Variable kzero : K.
  Variable pzero : P.                         (* zero value of P *)
  Variable pless : P -> P -> bool.            (* less on priorities *)

  (* the Go map m : K -> int, as an association list *)
  Definition imap := list (K * Z).

  Fixpoint m_get (m : imap) (k : K) : option Z :=
    match m with
    | [] => None
    | (k', v) :: r => if keqb k k' then Some v else m_get r k
    end.

  Fixpoint m_set (k : K) (v : Z) (m : imap) : imap :=
    match m with
    | [] => [(k, v)]
    | (k', v') :: r => if keqb k k' then (k, v) :: r else (k', v') :: m_set k v r
    end.

  Fixpoint m_del (k : K) (m : imap) : imap :=
    match m with
    | [] => []
    | (k', v') :: r => if keqb k k' then m_del k r else (k', v') :: m_del k r
    end.

  Local Notation kp := (K * P)%type.          (* KP[K, P] *)
  Definition kpzero : kp := (kzero, pzero).
  Definition kpless (a b : kp) : bool := pless (snd a) (snd b).
  Definition kp_index (x : kp) (i : Z) (m : imap) : imap := m_set (fst x) i m.

  (* the queue is its inner heap together with m (the heap's closure state) *)
  Definition pq := heap kp imap.

  (* the de-duplicating loop of NewPriorityQueue: keeps first occurrences, placeholder -1 *)
  Fixpoint pq_filter (l : list kp) (m : imap) (filtered : list kp) : imap * list kp :=
    match l with
    | [] => (m, filtered)
    | x :: r =>
        match m_get m (fst x) with
        | Some _ => pq_filter r m filtered
        | None => pq_filter r (m_set (fst x) (-1) m) (filtered ++ [x])
        end
    end.

  Definition pq_new (initial : list kp) : result pq :=
    let '(m, filtered) := pq_filter initial [] [] in
    new kpless kp_index filtered m.

  Definition pq_len (q : pq) : Z := len q.
  Definition pq_grow (n : Z) (q : pq) : result pq := grow n q.

  Definition pq_update (k : K) (p : P) (q : pq) : result pq :=
    match m_get (hs q) k with
    | Some idx => update_at kpless kp_index idx (k, p) q
    | None => push kpless kp_index (k, p) q
    end.

  Definition pq_pop (q : pq) : result (K * pq) :=
    rbind (pop kpzero kpless kp_index q) (fun r =>
    let '(x, q') := r in
    Ok (fst x, mkHeap (ha q') (hgen q') (m_del (fst x) (hs q')))).

  Definition pq_peek (q : pq) : result K :=
    rbind (peek q) (fun x => Ok (fst x)).

  Definition pq_contains (k : K) (q : pq) : bool :=
    match m_get (hs q) k with Some _ => true | None => false end.

  Definition pq_priority (k : K) (q : pq) : result P :=
    match m_get (hs q) k with
    | Some idx => rbind (item idx q) (fun x => Ok (snd x))
    | None => Ok pzero
    end.

  Definition pq_remove (k : K) (q : pq) : result pq :=
    match m_get (hs q) k with
    | None => Ok q
    | Some i =>
        rbind (remove_at kpzero kpless kp_index i q) (fun q' =>
        Ok (mkHeap (ha q') (hgen q') (m_del k (hs q'))))
    end.

  (* iterator.Map(h.inner.Iterate(), func(kp) K { return kp.K }) *)
  Definition pq_iter_next (q : pq) (it : hiter kp) : result (option K) * hiter kp :=
    let '(r, it') := iter_next q it in
    (match r with
     | Ok (Some x) => Ok (Some (fst x))
     | Ok None => Ok None
     | Panic c => Panic c
     end, it').

  Fixpoint pq_drain (fuel : nat) (q : pq) (it : hiter kp) : option (result (list K)) :=
    match fuel with
    | O => None
    | S fuel' =>
        match pq_iter_next q it with
        | (Panic c, _) => Some (Panic c)
        | (Ok None, _) => Some (Ok [])
        | (Ok (Some x), it') =>
            match pq_drain fuel' q it' with
            | Some (Ok l) => Some (Ok (x :: l))
            | r => r
            end
        end
    end.

  Definition pq_iterate_all (q : pq) : option (result (list K)) :=
    pq_drain (S (length (ha q))) q iterate.
End PQ.

Arguments imap : clear implicits.
Arguments pq : clear implicits.
Notation kp K P := (K * P)%type (only parsing).

(* ---------- history level: xheap.Heap[int] and xheap.PriorityQueue[int, int] ---------- *)
Inductive hop :=
| HPush (x : Z) | HPop | HPeek | HLen | HGrow (n : Z) | HShrink (n : Z)
| HIterNew | HIterNext (j : nat) | HIterate.

Inductive qop :=
| QUpdate (k p : Z) | QPop | QPeek | QContains (k : Z) | QPriority (k : Z) | QRemove (k : Z)
| QLen | QGrow (n : Z) | QIterNew | QIterNext (j : nat) | QIterate.

Inductive out :=
| OUnit | OVal (x : Z) | OInt (n : Z) | OBool (b : bool) | OList (l : list Z)
| OEnd | OPanic | OBad.

(* xheap.Heap[int]: indexChanged is func(a T, i int) {} *)
Definition no_index (x : Z) (i : Z) (u : unit) : unit := u.

Definition zheap := heap Z unit.

Record hst := mkHst { hh : zheap; hits : list (hiter Z) }.

Section HeapHistory.
  Variable less : Z -> Z -> bool.

  Definition hnew (initial : list Z) : result zheap := new less no_index initial tt.

  Definition hstep (s : hst) (o : hop) : hst * out :=
    let h := hh s in
    let keep := fun h' => mkHst h' (hits s) in
    match o with
    | HPush x =>
        match push less no_index x h with Ok h' => (keep h', OUnit) | Panic _ => (s, OPanic) end
    | HPop =>
        match pop 0 less no_index h with Ok (x, h') => (keep h', OVal x) | Panic _ => (s, OPanic) end
    | HPeek => match peek h with Ok x => (s, OVal x) | Panic _ => (s, OPanic) end
    | HLen => (s, OInt (len h))
    | HGrow n => match grow n h with Ok h' => (keep h', OUnit) | Panic _ => (s, OPanic) end
    | HShrink n => match shrink n h with Ok h' => (keep h', OUnit) | Panic _ => (s, OPanic) end
    | HIterNew => (mkHst h (hits s ++ [iterate]), OUnit)
    | HIterNext j =>
        match nth_error (hits s) j with
        | None => (s, OBad)
        | Some it =>
            let '(r, it') := iter_next h it in
            (mkHst h (upd (hits s) j it'),
             match r with Ok (Some x) => OVal x | Ok None => OEnd | Panic _ => OPanic end)
        end
    | HIterate =>
        match iterate_all h with
        | Some (Ok l) => (s, OList l)
        | Some (Panic _) => (s, OPanic)
        | None => (s, OBad)
        end
    end.

  Fixpoint hrun_from (s : hst) (ops : list hop) : list out :=
    match ops with
    | [] => []
    | o :: ops' => let '(s', r) := hstep s o in r :: hrun_from s' ops'
    end.

  Fixpoint hrun_state_from (s : hst) (ops : list hop) : hst :=
    match ops with
    | [] => s
    | o :: ops' => hrun_state_from (fst (hstep s o)) ops'
    end.

  (* the state right after xheap.New(less, initial); the error branch is excluded by theorem *)
  Definition hinit (initial : list Z) : hst :=
    match hnew initial with
    | Ok h => mkHst h []
    | Panic _ => mkHst (mkHeap initial (-2) tt) []
    end.

  Definition hrun (initial : list Z) (ops : list hop) : list out :=
    match hnew initial with
    | Ok h => hrun_from (mkHst h []) ops
    | Panic _ => [OBad]
    end.

  Definition hrun_state (initial : list Z) (ops : list hop) : hst :=
    hrun_state_from (hinit initial) ops.
End HeapHistory.

Definition zpq := pq Z Z.

Record qst := mkQst { qq : zpq; qits : list (hiter (kp Z Z)) }.

Section QueueHistory.
  Variable pless : Z -> Z -> bool.

  Definition qnew (initial : list (Z * Z)) : result zpq := pq_new Z.eqb pless initial.

  Definition qstep (s : qst) (o : qop) : qst * out :=
    let q := qq s in
    let keep := fun q' => mkQst q' (qits s) in
    match o with
    | QUpdate k p =>
        match pq_update Z.eqb pless k p q with Ok q' => (keep q', OUnit) | Panic _ => (s, OPanic) end
    | QPop =>
        match pq_pop Z.eqb 0 0 pless q with Ok (k, q') => (keep q', OVal k) | Panic _ => (s, OPanic) end
    | QPeek => match pq_peek q with Ok k => (s, OVal k) | Panic _ => (s, OPanic) end
    | QContains k => (s, OBool (pq_contains Z.eqb k q))
    | QPriority k =>
        match pq_priority Z.eqb 0 k q with Ok p => (s, OInt p) | Panic _ => (s, OPanic) end
    | QRemove k =>
        match pq_remove Z.eqb 0 0 pless k q with Ok q' => (keep q', OUnit) | Panic _ => (s, OPanic) end
    | QLen => (s, OInt (pq_len q))
    | QGrow n => match pq_grow n q with Ok q' => (keep q', OUnit) | Panic _ => (s, OPanic) end
    | QIterNew => (mkQst q (qits s ++ [iterate]), OUnit)
    | QIterNext j =>
        match nth_error (qits s) j with
        | None => (s, OBad)
        | Some it =>
            let '(r, it') := pq_iter_next q it in
            (mkQst q (upd (qits s) j it'),
             match r with Ok (Some x) => OVal x | Ok None => OEnd | Panic _ => OPanic end)
        end
    | QIterate =>
        match pq_iterate_all q with
        | Some (Ok l) => (s, OList l)
        | Some (Panic _) => (s, OPanic)
        | None => (s, OBad)
        end
    end.

  Fixpoint qrun_from (s : qst) (ops : list qop) : list out :=
    match ops with
    | [] => []
    | o :: ops' => let '(s', r) := qstep s o in r :: qrun_from s' ops'
    end.

  Fixpoint qrun_state_from (s : qst) (ops : list qop) : qst :=
    match ops with
    | [] => s
    | o :: ops' => qrun_state_from (fst (qstep s o)) ops'
    end.

  Definition qinit (initial : list (Z * Z)) : qst :=
    match qnew initial with
    | Ok q => mkQst q []
    | Panic _ => mkQst (mkHeap initial (-2) []) []
    end.

  Definition qrun (initial : list (Z * Z)) (ops : list qop) : list out :=
    match qnew initial with
    | Ok q => qrun_from (mkQst q []) ops
    | Panic _ => [OBad]
    end.

  Definition qrun_state (initial : list (Z * Z)) (ops : list qop) : qst :=
    qrun_state_from (qinit initial) ops.
End QueueHistory.
