(* Generic lemmas about the heap model (any element type, any index-notification state):
   unfolding equations of the percolation loops, fuel sufficiency, "everything is a sequence
   of swaps", and preservation of the heap order.  Used by Heap/Proofs.v. *)
From Coq Require Import Permutation Sorted.
From Juniper Require Import Common.Base Heap.Model Heap.Spec.

(* ---------- lists and Z indices ---------- *)
Lemma zlen_upd {A} (l : list A) n x : zlen (upd l n x) = zlen l.
Proof. unfold zlen; rewrite upd_length; reflexivity. Qed.

Lemma zlen_snoc {A} (l : list A) x : zlen (l ++ [x]) = zlen l + 1.
Proof. rewrite zlen_app. reflexivity. Qed.

Lemma zget_upd_same {A} (l : list A) i x :
  0 <= i < zlen l -> zget (upd l (Z.to_nat i) x) i = Some x.
Proof.
  intros Hi. unfold zget. destruct (i <? 0) eqn:E; [apply Z.ltb_lt in E; lia|].
  apply nth_error_upd_same. unfold zlen in Hi. lia.
Qed.

Lemma zget_upd_other {A} (l : list A) i j x :
  0 <= i -> i <> j -> zget (upd l (Z.to_nat i) x) j = zget l j.
Proof.
  intros Hi Hne. unfold zget. destruct (j <? 0) eqn:E; [reflexivity|].
  apply Z.ltb_ge in E. apply nth_error_upd_other. lia.
Qed.

Lemma zget_None_iff {A} (l : list A) i : zget l i = None <-> (i < 0 \/ zlen l <= i).
Proof.
  split.
  - intros H. destruct (Z_lt_dec i 0) as [Hn|Hn]; [left; exact Hn|right].
    destruct (Z_le_dec (zlen l) i) as [Hl|Hl]; [exact Hl|].
    destruct (zget_in_range l i) as [x Hx]; [lia|congruence].
  - intros H. destruct (zget l i) eqn:E; [|reflexivity].
    apply zget_Some_range in E. lia.
Qed.

Lemma zget_app_l {A} (l1 l2 : list A) i : i < zlen l1 -> zget (l1 ++ l2) i = zget l1 i.
Proof.
  intros Hi. unfold zget. destruct (i <? 0) eqn:E; [reflexivity|].
  apply Z.ltb_ge in E. apply nth_error_app1. unfold zlen in Hi. lia.
Qed.

Lemma zget_app_last {A} (l : list A) x : zget (l ++ [x]) (zlen l) = Some x.
Proof.
  unfold zget, zlen. destruct (Z.of_nat (length l) <? 0) eqn:E; [apply Z.ltb_lt in E; lia|].
  rewrite Nat2Z.id. rewrite nth_error_app2 by lia. rewrite Nat.sub_diag. reflexivity.
Qed.

Lemma zget_firstn {A} (l : list A) n i : i < Z.of_nat n -> zget (firstn n l) i = zget l i.
Proof.
  intros Hi. unfold zget. destruct (i <? 0) eqn:E; [reflexivity|].
  apply Z.ltb_ge in E.
  assert (Hn : (Z.to_nat i < n)%nat) by lia.
  revert Hn. generalize (Z.to_nat i) as k. clear Hi E. revert l.
  induction n as [|n IH]; intros l k Hk; [lia|].
  destruct l as [|h t]; [destruct k; reflexivity|].
  destruct k as [|k]; simpl; [reflexivity|]. apply IH. lia.
Qed.

Lemma zget_In {A} (l : list A) i x : zget l i = Some x -> In x l.
Proof.
  unfold zget. destruct (i <? 0); [discriminate|]. apply nth_error_In.
Qed.

Lemma In_zget {A} (l : list A) x : In x l -> exists i, zget l i = Some x.
Proof.
  intros H. apply In_nth_error in H. destruct H as [n Hn].
  exists (Z.of_nat n). unfold zget.
  destruct (Z.of_nat n <? 0) eqn:E; [apply Z.ltb_lt in E; lia|].
  rewrite Nat2Z.id. exact Hn.
Qed.

Lemma zget_map {A B} (f : A -> B) (l : list A) i :
  zget (map f l) i = option_map f (zget l i).
Proof.
  unfold zget. destruct (i <? 0); [reflexivity|].
  generalize (Z.to_nat i) as n. induction l as [|h t IH]; intros [|n]; simpl; auto.
Qed.

Lemma firstn_upd_ge {A} (l : list A) n m x : (n <= m)%nat -> firstn n (upd l m x) = firstn n l.
Proof.
  revert n m. induction l as [|h t IH]; intros n m Hnm.
  - destruct m; reflexivity.
  - destruct n as [|n]; [reflexivity|]. destruct m as [|m]; [lia|].
    simpl. f_equal. apply IH. lia.
Qed.

(* replacing l[n] = x by y: a permutation up to the two elements *)
Lemma perm_upd {A} (l : list A) n x y :
  nth_error l n = Some x -> Permutation (y :: l) (x :: upd l n y).
Proof.
  revert n. induction l as [|h t IH]; intros [|n] H; simpl in *; try discriminate.
  - injection H as ->. apply perm_swap.
  - eapply perm_trans; [apply perm_swap|].
    eapply perm_trans; [apply perm_skip, (IH n H)|]. apply perm_swap.
Qed.

Lemma zget_nth_error {A} (l : list A) i x :
  zget l i = Some x -> nth_error l (Z.to_nat i) = Some x.
Proof. unfold zget. destruct (i <? 0); [discriminate|auto]. Qed.

Lemma swap_perm {A} (a : list A) i j x y :
  zget a i = Some x -> zget a j = Some y ->
  Permutation (upd (upd a (Z.to_nat i) y) (Z.to_nat j) x) a.
Proof.
  intros Hi Hj.
  pose proof (zget_Some_range _ _ _ Hi) as Ri.
  pose proof (zget_Some_range _ _ _ Hj) as Rj.
  assert (H1 : Permutation (y :: a) (x :: upd a (Z.to_nat i) y)).
  { apply perm_upd. apply zget_nth_error. exact Hi. }
  assert (Hj1 : zget (upd a (Z.to_nat i) y) j = Some y).
  { destruct (Z.eq_dec i j) as [E|E].
    - subst j. apply zget_upd_same. exact Ri.
    - rewrite zget_upd_other by lia. exact Hj. }
  assert (H2 : Permutation (x :: upd a (Z.to_nat i) y)
                           (y :: upd (upd a (Z.to_nat i) y) (Z.to_nat j) x)).
  { apply perm_upd. apply zget_nth_error. exact Hj1. }
  apply Permutation_sym. eapply Permutation_cons_inv.
  eapply perm_trans; [exact H1|exact H2].
Qed.

(* a[i] := last; truncate: removes exactly a[i] *)
Lemma remove_perm {A} (a : list A) i x lst :
  zget a i = Some x -> zget a (zlen a - 1) = Some lst ->
  Permutation a (x :: firstn (Z.to_nat (zlen a - 1)) (upd a (Z.to_nat i) lst)).
Proof.
  intros Hi Hl.
  pose proof (zget_Some_range _ _ _ Hi) as Ri.
  destruct (exists_last (l := a)) as [f [z Ea]].
  { intros ->. unfold zlen in Ri. simpl in Ri. lia. }
  subst a.
  assert (Hlen : zlen (f ++ [z]) - 1 = zlen f) by (rewrite zlen_snoc; lia).
  rewrite Hlen in *. rewrite zget_app_last in Hl. injection Hl as <-.
  replace (Z.to_nat (zlen f)) with (length f) by (unfold zlen; lia).
  destruct (Z.eq_dec i (zlen f)) as [E|E].
  - subst i. rewrite zget_app_last in Hi. injection Hi as <-.
    rewrite firstn_upd_ge by (unfold zlen; lia).
    rewrite firstn_app, Nat.sub_diag, firstn_all. simpl. rewrite app_nil_r.
    apply Permutation_sym, Permutation_cons_append.
  - rewrite zlen_snoc in Ri.
    rewrite zget_app_l in Hi by lia.
    assert (Eu : upd (f ++ [z]) (Z.to_nat i) z = upd f (Z.to_nat i) z ++ [z]).
    { assert (Hn : (Z.to_nat i < length f)%nat) by (unfold zlen in *; lia).
      revert Hn. generalize (Z.to_nat i) as n. clear.
      induction f as [|h t IH]; intros n Hn; simpl in *; [lia|].
      destruct n as [|n]; simpl; [reflexivity|]. f_equal. apply IH. lia. }
    rewrite Eu.
    rewrite firstn_app. rewrite upd_length, Nat.sub_diag. simpl. rewrite app_nil_r.
    rewrite <- (upd_length f (Z.to_nat i) z) at 1. rewrite firstn_all.
    eapply perm_trans; [apply Permutation_sym, Permutation_cons_append|].
    apply perm_upd. apply zget_nth_error. exact Hi.
Qed.

(* ---------- parent / children arithmetic ---------- *)
Lemma parent_spec i : 0 < i ->
  0 <= parent i < i /\ (i = 2 * parent i + 1 \/ i = 2 * parent i + 2).
Proof.
  intros Hi. unfold parent. rewrite Z.quot_div_nonneg by lia.
  pose proof (Z_div_mod_eq_full (i - 1) 2) as E.
  pose proof (Z.mod_pos_bound (i - 1) 2) as B.
  lia.
Qed.

Lemma parent_left j : 0 <= j -> parent (2 * j + 1) = j.
Proof. intros Hj. pose proof (parent_spec (2 * j + 1)) as H. lia. Qed.

Lemma parent_right j : 0 <= j -> parent (2 * j + 2) = j.
Proof. intros Hj. pose proof (parent_spec (2 * j + 2)) as H. lia. Qed.

(* ---------- the percolation loops ---------- *)
Section Generic.
  Context {T IS : Type}.
  Variable zero : T.
  Variable less : T -> T -> bool.
  Variable on_index : T -> Z -> IS -> IS.

  Notation core := (core T IS).
  Notation swap := (swap on_index).
  Notation percolate_up := (percolate_up less on_index).
  Notation percolate_down := (percolate_down less on_index).

  (* the result of a successful swap(i, j) when a[i] = x and a[j] = y *)
  Definition swapc (i j : Z) (x y : T) (c : core) : core :=
    (upd (upd (fst c) (Z.to_nat i) y) (Z.to_nat j) x, on_index x j (on_index y i (snd c))).

  Lemma swap_eq i j x y c :
    zget (fst c) i = Some x -> zget (fst c) j = Some y -> swap i j c = Ok (swapc i j x y c).
  Proof. intros Hi Hj. unfold Model.swap. rewrite Hi, Hj. reflexivity. Qed.

  Lemma swapc_len i j x y c : zlen (fst (swapc i j x y c)) = zlen (fst c).
  Proof. unfold swapc; simpl. rewrite !zlen_upd. reflexivity. Qed.

  Lemma swapc_length i j x y c : length (fst (swapc i j x y c)) = length (fst c).
  Proof. unfold swapc; simpl. rewrite !upd_length. reflexivity. Qed.

  Lemma swapc_get i j x y c k :
    zget (fst c) i = Some x -> zget (fst c) j = Some y ->
    zget (fst (swapc i j x y c)) k =
      if k =? j then Some x else if k =? i then Some y else zget (fst c) k.
  Proof.
    intros Hi Hj.
    pose proof (zget_Some_range _ _ _ Hi) as Ri.
    pose proof (zget_Some_range _ _ _ Hj) as Rj.
    unfold swapc; simpl.
    destruct (Z.eqb_spec k j) as [E|E].
    - subst k. apply zget_upd_same. rewrite zlen_upd. exact Rj.
    - rewrite zget_upd_other by lia.
      destruct (Z.eqb_spec k i) as [E2|E2].
      + subst k. apply zget_upd_same. exact Ri.
      + apply zget_upd_other; lia.
  Qed.

  Lemma swapc_perm i j x y c :
    zget (fst c) i = Some x -> zget (fst c) j = Some y ->
    Permutation (fst (swapc i j x y c)) (fst c).
  Proof. intros Hi Hj. unfold swapc; simpl. apply swap_perm; assumption. Qed.

  (* reflexive-transitive closure of successful swaps *)
  Inductive swaps : core -> core -> Prop :=
  | swaps_refl c : swaps c c
  | swaps_step c i j x y c' :
      zget (fst c) i = Some x -> zget (fst c) j = Some y ->
      swaps (swapc i j x y c) c' -> swaps c c'.

  Lemma swaps_trans c1 c2 c3 : swaps c1 c2 -> swaps c2 c3 -> swaps c1 c3.
  Proof.
    intros H12. induction H12 as [c|c i j x y c' Hi Hj H IH]; intros H23; [exact H23|].
    eapply swaps_step; [exact Hi|exact Hj|apply IH; exact H23].
  Qed.

  Lemma swaps_preserve (Pr : core -> Prop) :
    (forall c i j x y, zget (fst c) i = Some x -> zget (fst c) j = Some y ->
                       Pr c -> Pr (swapc i j x y c)) ->
    forall c c', swaps c c' -> Pr c -> Pr c'.
  Proof.
    intros Hstep c c' H. induction H as [c|c i j x y c' Hi Hj H IH]; intros Hc; [exact Hc|].
    apply IH. apply Hstep; assumption.
  Qed.

  Lemma swaps_perm c c' : swaps c c' -> Permutation (fst c) (fst c').
  Proof.
    intros H. induction H as [c|c i j x y c' Hi Hj H IH]; [apply Permutation_refl|].
    eapply perm_trans; [apply Permutation_sym, (swapc_perm i j x y c Hi Hj)|exact IH].
  Qed.

  Lemma swaps_len c c' : swaps c c' -> zlen (fst c') = zlen (fst c).
  Proof.
    intros H. apply swaps_perm in H. apply Permutation_length in H. unfold zlen. lia.
  Qed.

  (* --- unfolding equations --- *)
  Lemma up_stop f i c : i <= 0 -> percolate_up f i c = Ok c.
  Proof.
    intros Hi. destruct f; simpl; destruct (0 <? i) eqn:E; try reflexivity;
      apply Z.ltb_lt in E; lia.
  Qed.

  Lemma up_unfold f i c x y :
    0 < i -> zget (fst c) i = Some x -> zget (fst c) (parent i) = Some y ->
    percolate_up (S f) i c =
      percolate_up f (parent i) (if less x y then swapc i (parent i) x y c else c).
  Proof.
    intros Hi Hx Hy. simpl.
    destruct (0 <? i) eqn:E; [|apply Z.ltb_ge in E; lia].
    unfold less_at. rewrite Hx, Hy. simpl.
    destruct (less x y); simpl; [|reflexivity].
    rewrite (swap_eq _ _ _ _ _ Hx Hy). reflexivity.
  Qed.

  (* the child percolateDown compares with a[i] (when i has a child) *)
  Definition least_child (a : list T) (i : Z) : Z :=
    if zlen a <=? i * 2 + 2 then i * 2 + 1
    else match zget a (i * 2 + 2), zget a (i * 2 + 1) with
         | Some xr, Some xl => if less xr xl then i * 2 + 2 else i * 2 + 1
         | _, _ => i * 2 + 1
         end.

  Lemma down_stop f i c : zlen (fst c) <= i * 2 + 1 -> percolate_down (S f) i c = Ok c.
  Proof.
    intros H. simpl. destruct (zlen (fst c) <=? i * 2 + 1) eqn:E; [reflexivity|].
    apply Z.leb_gt in E. lia.
  Qed.

  Lemma least_child_cases a i :
    0 <= i -> i * 2 + 1 < zlen a ->
    let m := least_child a i in
    (m = i * 2 + 1 \/ m = i * 2 + 2) /\ m < zlen a.
  Proof.
    intros Hi Hl. unfold least_child.
    destruct (zlen a <=? i * 2 + 2) eqn:E; [lia|]. apply Z.leb_gt in E.
    destruct (zget a (i * 2 + 2)) as [xr|]; [|lia].
    destruct (zget a (i * 2 + 1)) as [xl|]; [|lia].
    destruct (less xr xl); lia.
  Qed.

  Lemma down_unfold f i c xm xi :
    0 <= i -> i * 2 + 1 < zlen (fst c) ->
    zget (fst c) (least_child (fst c) i) = Some xm -> zget (fst c) i = Some xi ->
    percolate_down (S f) i c =
      if less xm xi
      then percolate_down f (least_child (fst c) i) (swapc (least_child (fst c) i) i xm xi c)
      else Ok c.
  Proof.
    intros Hi Hl Hm Hxi. simpl. unfold least_child in *.
    destruct (zlen (fst c) <=? i * 2 + 1) eqn:E1; [apply Z.leb_le in E1; lia|].
    destruct (zlen (fst c) <=? i * 2 + 2) eqn:E2.
    - unfold less_at. rewrite Hm, Hxi. simpl.
      destruct (less xm xi); [|reflexivity].
      rewrite (swap_eq _ _ _ _ _ Hm Hxi). reflexivity.
    - apply Z.leb_gt in E2.
      destruct (zget_in_range (fst c) (i * 2 + 2)) as [xr Hr]; [lia|].
      destruct (zget_in_range (fst c) (i * 2 + 1)) as [xl Hxl]; [lia|].
      rewrite Hr, Hxl in Hm. unfold less_at at 1. rewrite Hr, Hxl. simpl.
      destruct (less xr xl); unfold less_at; rewrite Hm, Hxi; simpl;
        (destruct (less xm xi); [|reflexivity]);
        rewrite (swap_eq _ _ _ _ _ Hm Hxi); reflexivity.
  Qed.

  (* --- fuel suffices, and the result is reached by swaps --- *)
  Lemma up_total : forall f i c,
      i < zlen (fst c) -> i <= Z.of_nat f ->
      exists c', percolate_up f i c = Ok c' /\ swaps c c'.
  Proof.
    induction f as [|f IH]; intros i c Hr Hf.
    - exists c. split; [apply up_stop; lia|apply swaps_refl].
    - destruct (Z_le_dec i 0) as [H0|H0].
      + exists c. split; [apply up_stop; lia|apply swaps_refl].
      + pose proof (parent_spec i ltac:(lia)) as [Hp _].
        destruct (zget_in_range (fst c) i) as [x Hx]; [lia|].
        destruct (zget_in_range (fst c) (parent i)) as [y Hy]; [lia|].
        rewrite (up_unfold f i c x y ltac:(lia) Hx Hy).
        destruct (less x y).
        * destruct (IH (parent i) (swapc i (parent i) x y c)) as [c' [E Hs]];
            [rewrite swapc_len; lia|lia|].
          exists c'. split; [exact E|]. exact (swaps_step _ _ _ _ _ _ Hx Hy Hs).
        * apply IH; lia.
  Qed.

  Lemma down_total : forall f i c,
      0 <= i -> zlen (fst c) <= i + Z.of_nat f ->
      exists c', percolate_down (S f) i c = Ok c' /\ swaps c c'.
  Proof.
    induction f as [|f IH]; intros i c Hi Hf.
    - exists c. split; [apply down_stop; lia|apply swaps_refl].
    - destruct (Z_le_dec (zlen (fst c)) (i * 2 + 1)) as [Hn|Hn].
      + exists c. split; [apply down_stop; exact Hn|apply swaps_refl].
      + pose proof (least_child_cases (fst c) i Hi ltac:(lia)) as [Hm Hml].
        destruct (zget_in_range (fst c) (least_child (fst c) i)) as [xm Hxm]; [lia|].
        destruct (zget_in_range (fst c) i) as [xi Hxi]; [lia|].
        rewrite (down_unfold (S f) i c xm xi Hi ltac:(lia) Hxm Hxi).
        destruct (less xm xi).
        * destruct (IH (least_child (fst c) i) (swapc (least_child (fst c) i) i xm xi c))
            as [c' [E Hs]]; [lia|rewrite swapc_len; lia|].
          exists c'. split; [exact E|]. exact (swaps_step _ _ _ _ _ _ Hxm Hxi Hs).
        * exists c. split; [reflexivity|apply swaps_refl].
  Qed.

  Lemma up_ok i c : i < zlen (fst c) ->
    exists c', up less on_index i c = Ok c' /\ swaps c c'.
  Proof. intros H. apply up_total; [exact H|unfold zlen in H; lia]. Qed.

  Lemma down_ok i c : 0 <= i ->
    exists c', down less on_index i c = Ok c' /\ swaps c c'.
  Proof. intros H. apply down_total; [exact H|unfold zlen; lia]. Qed.
End Generic.

(* ---------- heap order ---------- *)
Section Order.
  Context {T IS : Type}.
  Variable less : T -> T -> bool.
  Variable on_index : T -> Z -> IS -> IS.
  Hypothesis SWO : strict_weak less.

  Notation core := (core T IS).
  Notation percolate_up := (percolate_up less on_index).
  Notation percolate_down := (percolate_down less on_index).
  Notation swapc := (swapc on_index).
  Notation least_child := (least_child less).

  Lemma less_irrefl a : less a a = false.
  Proof. exact (proj1 SWO a). Qed.

  Lemma less_trans a b c : less a b = true -> less b c = true -> less a c = true.
  Proof. exact (proj1 (proj2 SWO) a b c). Qed.

  Lemma less_incomp a b c : less a b = false -> less b c = false -> less a c = false.
  Proof. exact (proj2 (proj2 SWO) a b c). Qed.

  Lemma less_asym a b : less a b = true -> less b a = false.
  Proof.
    intros H. destruct (less b a) eqn:E; [|reflexivity].
    rewrite <- (less_irrefl a). symmetry. eapply less_trans; eassumption.
  Qed.

  (* a is not less than b, c is less than b: a is not less than c *)
  Lemma less_above a b c : less a b = false -> less c b = true -> less a c = false.
  Proof.
    intros Hab Hcb. destruct (less a c) eqn:E; [|reflexivity].
    rewrite <- Hab. symmetry. eapply less_trans; eassumption.
  Qed.

  (* a[c] is not less than a[q] (vacuous out of range) *)
  Definition nl (a : list T) (c q : Z) : Prop :=
    forall x y, zget a c = Some x -> zget a q = Some y -> less x y = false.
  Definition okp (a : list T) (c : Z) : Prop := nl a c (parent c).

  Definition ord_from (a : list T) (k : Z) : Prop :=
    forall c, 0 < c -> k <= parent c -> okp a c.

  Lemma heap_ordered_okp a : heap_ordered less a <-> (forall c, 0 < c -> okp a c).
  Proof.
    unfold heap_ordered, okp, nl. split; intros H.
    - intros c Hc x y Hx Hy. eapply H; eassumption.
    - intros i x y Hi Hx Hy. eapply H; eassumption.
  Qed.

  Lemma ord_from_0 a : ord_from a 0 <-> heap_ordered less a.
  Proof.
    rewrite heap_ordered_okp. unfold ord_from. split; intros H c Hc.
    - apply H; [exact Hc|]. pose proof (parent_spec c Hc). lia.
    - intros _. apply H. exact Hc.
  Qed.

  (* all pairs with parent >= k are fine except those whose parent is j; j's children are
     not less than j's parent *)
  Definition down_inv (a : list T) (k j : Z) : Prop :=
    (forall c, 0 < c -> k <= parent c -> parent c <> j -> okp a c) /\
    (0 < j -> k <= parent j -> forall c, 0 < c -> parent c = j -> nl a c (parent j)).

  (* all pairs are fine except the pair above j and the pairs below j; j's children are not
     less than j's parent *)
  Definition upd_inv (a : list T) (j : Z) : Prop :=
    (forall c, 0 < c -> c <> j -> parent c <> j -> okp a c) /\
    (0 < j -> forall c, 0 < c -> parent c = j -> nl a c (parent j)).

  Definition up_inv (a : list T) (j : Z) : Prop :=
    upd_inv a j /\ (forall c, 0 < c -> parent c = j -> okp a c).

  Lemma least_child_min a j xm :
    0 <= j -> j * 2 + 1 < zlen a -> zget a (least_child a j) = Some xm ->
    forall c xc, 0 < c -> parent c = j -> zget a c = Some xc -> less xc xm = false.
  Proof.
    intros Hj Hl Hm c xc Hc Hp Hxc.
    pose proof (parent_spec c Hc) as [_ Hcc]. rewrite Hp in Hcc.
    unfold Lemmas.least_child in Hm.
    destruct (zlen a <=? j * 2 + 2) eqn:E.
    - apply Z.leb_le in E. destruct Hcc as [Hcc|Hcc].
      + replace (j * 2 + 1) with c in Hm by lia. rewrite Hxc in Hm. injection Hm as <-.
        apply less_irrefl.
      + apply zget_Some_range in Hxc. lia.
    - apply Z.leb_gt in E.
      destruct (zget_in_range a (j * 2 + 2)) as [xr Hr]; [lia|].
      destruct (zget_in_range a (j * 2 + 1)) as [xl Hxl]; [lia|].
      rewrite Hr, Hxl in Hm.
      destruct (less xr xl) eqn:Erl.
      + rewrite Hr in Hm. injection Hm as <-. destruct Hcc as [Hcc|Hcc].
        * replace (j * 2 + 1) with c in Hxl by lia. rewrite Hxc in Hxl. injection Hxl as <-.
          apply less_asym. exact Erl.
        * replace (j * 2 + 2) with c in Hr by lia. rewrite Hxc in Hr. injection Hr as <-.
          apply less_irrefl.
      + rewrite Hxl in Hm. injection Hm as <-. destruct Hcc as [Hcc|Hcc].
        * replace (j * 2 + 1) with c in Hxl by lia. rewrite Hxc in Hxl. injection Hxl as <-.
          apply less_irrefl.
        * replace (j * 2 + 2) with c in Hr by lia. rewrite Hxc in Hr. injection Hr as <-.
          exact Erl.
  Qed.

  (* reading the array after swapc at an index known to be different from both *)
  Lemma swapc_get_other i j x y (c : core) k :
    zget (fst c) i = Some x -> zget (fst c) j = Some y -> k <> i -> k <> j ->
    zget (fst (swapc i j x y c)) k = zget (fst c) k.
  Proof.
    intros Hi Hj Hki Hkj. rewrite (swapc_get on_index i j x y c k Hi Hj).
    destruct (Z.eqb_spec k j); [lia|]. destruct (Z.eqb_spec k i); [lia|]. reflexivity.
  Qed.

  Lemma swapc_get_i i j x y (c : core) :
    zget (fst c) i = Some x -> zget (fst c) j = Some y -> i <> j ->
    zget (fst (swapc i j x y c)) i = Some y.
  Proof.
    intros Hi Hj Hne. rewrite (swapc_get on_index i j x y c i Hi Hj).
    destruct (Z.eqb_spec i j); [lia|]. rewrite Z.eqb_refl. reflexivity.
  Qed.

  Lemma swapc_get_j i j x y (c : core) :
    zget (fst c) i = Some x -> zget (fst c) j = Some y ->
    zget (fst (swapc i j x y c)) j = Some x.
  Proof.
    intros Hi Hj. rewrite (swapc_get on_index i j x y c j Hi Hj).
    rewrite Z.eqb_refl. reflexivity.
  Qed.

  Lemma down_inv_swap (c : core) k j m xm xj :
    0 <= k <= j -> (m = j * 2 + 1 \/ m = j * 2 + 2) ->
    zget (fst c) m = Some xm -> zget (fst c) j = Some xj -> less xm xj = true ->
    (forall c0 xc, 0 < c0 -> parent c0 = j -> zget (fst c) c0 = Some xc -> less xc xm = false) ->
    down_inv (fst c) k j -> down_inv (fst (swapc m j xm xj c)) k m.
  Proof.
    intros Hkj Hm Hxm Hxj Hlt Hmin [D1 D2].
    assert (Hpm : parent m = j) by (destruct Hm; subst m; [rewrite <- (parent_left j) at 2|rewrite <- (parent_right j) at 2]; try lia; f_equal; lia).
    assert (Hmj : m <> j) by lia.
    split.
    - intros c0 Hc0 Hk Hq x' y' Hx' Hy'.
      pose proof (parent_spec c0 Hc0) as [Hpr _].
      destruct (Z.eq_dec (parent c0) j) as [Eq|Eq].
      + rewrite Eq in Hy'. rewrite (swapc_get_j m j xm xj c Hxm Hxj) in Hy'. injection Hy' as <-.
        destruct (Z.eq_dec c0 m) as [Ec|Ec].
        * subst c0. rewrite (swapc_get_i m j xm xj c Hxm Hxj Hmj) in Hx'. injection Hx' as <-.
          apply less_asym. exact Hlt.
        * rewrite (swapc_get_other m j xm xj c c0 Hxm Hxj) in Hx' by lia.
          eapply Hmin; eassumption.
      + destruct (Z.eq_dec c0 j) as [Ec|Ec].
        * subst c0. rewrite (swapc_get_j m j xm xj c Hxm Hxj) in Hx'. injection Hx' as <-.
          rewrite (swapc_get_other m j xm xj c (parent j) Hxm Hxj) in Hy' by lia.
          apply (D2 Hc0 Hk m ltac:(lia) Hpm xm y' Hxm Hy').
        * assert (Ecm : c0 <> m) by (intros ->; lia).
          rewrite (swapc_get_other m j xm xj c c0 Hxm Hxj) in Hx' by lia.
          rewrite (swapc_get_other m j xm xj c (parent c0) Hxm Hxj) in Hy' by lia.
          apply (D1 c0 Hc0 Hk Eq x' y' Hx' Hy').
    - intros Hm0 Hk c0 Hc0 Hq x' y' Hx' Hy'.
      pose proof (parent_spec c0 Hc0) as [Hpr _].
      rewrite Hpm in Hy'. rewrite (swapc_get_j m j xm xj c Hxm Hxj) in Hy'. injection Hy' as <-.
      rewrite (swapc_get_other m j xm xj c c0 Hxm Hxj) in Hx' by lia.
      assert (Hok : okp (fst c) c0) by (apply D1; lia).
      apply (Hok x' xm Hx'). rewrite Hq. exact Hxm.
  Qed.

  Lemma down_order : forall f j (c c' : core) k,
      0 <= k <= j -> percolate_down f j c = Ok c' ->
      down_inv (fst c) k j -> ord_from (fst c') k.
  Proof.
    induction f as [|f IH]; intros j c c' k Hkj E Hinv; [discriminate|].
    destruct (Z_le_dec (zlen (fst c)) (j * 2 + 1)) as [Hn|Hn].
    - rewrite down_stop in E by exact Hn. injection E as <-.
      destruct Hinv as [D1 D2]. intros c0 Hc0 Hk.
      destruct (Z.eq_dec (parent c0) j) as [Eq|Eq]; [|apply D1; assumption].
      intros x y Hx Hy. apply zget_Some_range in Hx.
      pose proof (parent_spec c0 Hc0). lia.
    - pose proof (least_child_cases less (fst c) j ltac:(lia) ltac:(lia)) as [Hm Hml].
      destruct (zget_in_range (fst c) (least_child (fst c) j)) as [xm Hxm]; [lia|].
      destruct (zget_in_range (fst c) j) as [xj Hxj]; [lia|].
      rewrite (down_unfold less on_index f j c xm xj ltac:(lia) ltac:(lia) Hxm Hxj) in E.
      pose proof (least_child_min (fst c) j xm ltac:(lia) ltac:(lia) Hxm) as Hmin.
      destruct (less xm xj) eqn:Elt.
      + eapply IH; [|exact E|].
        * lia.
        * apply down_inv_swap; [lia|exact Hm|exact Hxm|exact Hxj|exact Elt|exact Hmin|exact Hinv].
      + injection E as <-. destruct Hinv as [D1 D2]. intros c0 Hc0 Hk.
        destruct (Z.eq_dec (parent c0) j) as [Eq|Eq]; [|apply D1; assumption].
        intros x y Hx Hy. rewrite Eq in Hy. rewrite Hxj in Hy. injection Hy as <-.
        eapply less_incomp; [|exact Elt]. eapply Hmin; eassumption.
  Qed.

  (* --- percolateUp --- *)
  Lemma up_inv_swap (c : core) j x y :
    0 < j -> zget (fst c) j = Some x -> zget (fst c) (parent j) = Some y -> less x y = true ->
    upd_inv (fst c) j -> up_inv (fst (swapc j (parent j) x y c)) (parent j).
  Proof.
    intros Hj Hx Hy Hlt [W1 W2].
    pose proof (parent_spec j Hj) as [Hpj _].
    set (p := parent j) in *.
    assert (Hjp : j <> p) by lia.
    assert (U1 : forall c0, 0 < c0 -> c0 <> p -> okp (fst (swapc j p x y c)) c0).
    { intros c0 Hc0 Hne x' y' Hx' Hy'.
      pose proof (parent_spec c0 Hc0) as [Hpr _].
      destruct (Z.eq_dec c0 j) as [Ec|Ec].
      - subst c0. fold p in Hy'.
        rewrite (swapc_get_i j p x y c Hx Hy Hjp) in Hx'. injection Hx' as <-.
        rewrite (swapc_get_j j p x y c Hx Hy) in Hy'. injection Hy' as <-.
        apply less_asym. exact Hlt.
      - rewrite (swapc_get_other j p x y c c0 Hx Hy) in Hx' by lia.
        destruct (Z.eq_dec (parent c0) p) as [Eq|Eq].
        + rewrite Eq in Hy'. rewrite (swapc_get_j j p x y c Hx Hy) in Hy'. injection Hy' as <-.
          eapply less_above; [|exact Hlt].
          apply (W1 c0 Hc0 Ec ltac:(lia) x' y Hx'). rewrite Eq. exact Hy.
        + destruct (Z.eq_dec (parent c0) j) as [Eq2|Eq2].
          * rewrite Eq2 in Hy'. rewrite (swapc_get_i j p x y c Hx Hy Hjp) in Hy'.
            injection Hy' as <-. apply (W2 Hj c0 Hc0 Eq2 x' y Hx' Hy).
          * rewrite (swapc_get_other j p x y c (parent c0) Hx Hy) in Hy' by lia.
            apply (W1 c0 Hc0 Ec Eq2 x' y' Hx' Hy'). }
    split; [split|].
    - intros c0 Hc0 Hne _. apply U1; assumption.
    - intros Hp0 c0 Hc0 Hq x' z Hx' Hz.
      pose proof (parent_spec c0 Hc0) as [Hpr _].
      pose proof (parent_spec p Hp0) as [Hpp _].
      rewrite (swapc_get_other j p x y c (parent p) Hx Hy) in Hz by lia.
      assert (Hyz : less y z = false).
      { apply (W1 p Hp0 ltac:(lia) ltac:(lia) y z Hy Hz). }
      destruct (Z.eq_dec c0 j) as [Ec|Ec].
      + subst c0. rewrite (swapc_get_i j p x y c Hx Hy Hjp) in Hx'. injection Hx' as <-.
        exact Hyz.
      + rewrite (swapc_get_other j p x y c c0 Hx Hy) in Hx' by lia.
        eapply less_incomp; [|exact Hyz].
        apply (W1 c0 Hc0 Ec ltac:(lia) x' y Hx'). rewrite Hq. exact Hy.
    - intros c0 Hc0 Hq. apply U1; [exact Hc0|]. pose proof (parent_spec c0 Hc0). lia.
  Qed.

  Lemma up_inv_noswap a j y :
    0 < j -> zget a (parent j) = Some y -> okp a j -> up_inv a j -> up_inv a (parent j).
  Proof.
    intros Hj Hy Hok [[W1 W2] U3].
    assert (Hall : forall c0, 0 < c0 -> okp a c0).
    { intros c0 Hc0. destruct (Z.eq_dec c0 j) as [->|Ec]; [exact Hok|].
      destruct (Z.eq_dec (parent c0) j) as [Eq|Eq]; [apply U3; assumption|apply W1; assumption]. }
    split; [split|].
    - intros c0 Hc0 _ _. apply Hall. exact Hc0.
    - intros Hp0 c0 Hc0 Hq x' z Hx' Hz.
      eapply less_incomp.
      + apply (Hall c0 Hc0 x' y Hx'). rewrite Hq. exact Hy.
      + apply (Hall (parent j) Hp0 y z Hy Hz).
    - intros c0 Hc0 _. apply Hall. exact Hc0.
  Qed.

  Lemma up_order : forall f j (c c' : core),
      j < zlen (fst c) -> percolate_up f j c = Ok c' ->
      up_inv (fst c) j -> heap_ordered less (fst c').
  Proof.
    induction f as [|f IH]; intros j c c' Hr E Hinv.
    - destruct (Z_le_dec j 0) as [H0|H0].
      + rewrite up_stop in E by exact H0. injection E as <-.
        apply heap_ordered_okp. intros c0 Hc0. destruct Hinv as [[W1 W2] U3].
        destruct (Z.eq_dec (parent c0) j) as [Eq|Eq]; [apply U3; assumption|apply W1; [assumption|lia|assumption]].
      + simpl in E. destruct (0 <? j) eqn:Ej; [discriminate|]. apply Z.ltb_ge in Ej. lia.
    - destruct (Z_le_dec j 0) as [H0|H0].
      + rewrite up_stop in E by exact H0. injection E as <-.
        apply heap_ordered_okp. intros c0 Hc0. destruct Hinv as [[W1 W2] U3].
        destruct (Z.eq_dec (parent c0) j) as [Eq|Eq]; [apply U3; assumption|apply W1; [assumption|lia|assumption]].
      + pose proof (parent_spec j ltac:(lia)) as [Hp _].
        destruct (zget_in_range (fst c) j) as [x Hx]; [lia|].
        destruct (zget_in_range (fst c) (parent j)) as [y Hy]; [lia|].
        rewrite (up_unfold less on_index f j c x y ltac:(lia) Hx Hy) in E.
        destruct (less x y) eqn:Elt.
        * eapply IH; [|exact E|].
          -- rewrite swapc_len. lia.
          -- apply up_inv_swap; try assumption; try lia. exact (proj1 Hinv).
        * eapply IH; [|exact E|]; [lia|].
          eapply up_inv_noswap; try eassumption; try lia.
          intros x' y' Hx' Hy'. rewrite Hx in Hx'. rewrite Hy in Hy'.
          injection Hx' as <-. injection Hy' as <-. exact Elt.
  Qed.

  Lemma up_noop : forall f j (c : core),
      j < zlen (fst c) -> j <= Z.of_nat f ->
      (forall c0, 0 < c0 <= j -> okp (fst c) c0) -> percolate_up f j c = Ok c.
  Proof.
    induction f as [|f IH]; intros j c Hr Hf Hok.
    - apply up_stop. lia.
    - destruct (Z_le_dec j 0) as [H0|H0]; [apply up_stop; exact H0|].
      pose proof (parent_spec j ltac:(lia)) as [Hp _].
      destruct (zget_in_range (fst c) j) as [x Hx]; [lia|].
      destruct (zget_in_range (fst c) (parent j)) as [y Hy]; [lia|].
      rewrite (up_unfold less on_index f j c x y ltac:(lia) Hx Hy).
      rewrite (Hok j ltac:(lia) x y Hx Hy).
      apply IH; [lia|lia|]. intros c0 Hc0. apply Hok. lia.
  Qed.

  Lemma heap_ordered_down_inv a i : heap_ordered less a -> down_inv a 0 i.
  Proof.
    intros Ho. rewrite heap_ordered_okp in Ho. split.
    - intros c Hc _ _. apply Ho. exact Hc.
    - intros Hi _ c Hc Hq x z Hx Hz.
      pose proof (parent_spec c Hc) as [Hpr _].
      pose proof (zget_Some_range _ _ _ Hx) as Rx.
      destruct (zget_in_range a i) as [y Hy]; [lia|].
      eapply less_incomp.
      + apply (Ho c Hc x y Hx). rewrite Hq. exact Hy.
      + apply (Ho i Hi y z Hy Hz).
  Qed.

  (* percolateUp after a[i] was overwritten: afterwards only the pairs below i can be wrong *)
  Lemma up_weak i (c c' : core) :
    0 <= i < zlen (fst c) -> up less on_index i c = Ok c' ->
    upd_inv (fst c) i -> down_inv (fst c') 0 i.
  Proof.
    intros Hr E Hinv. unfold up in E.
    destruct (Z.eq_dec i 0) as [E0|E0].
    - subst i. rewrite up_stop in E by lia. injection E as <-.
      destruct Hinv as [W1 W2]. split.
      + intros c0 Hc0 _ Hq. apply W1; [exact Hc0|lia|exact Hq].
      + intros H; lia.
    - destruct (length (fst c)) as [|f] eqn:El; [unfold zlen in Hr; lia|].
      assert (Hfl : zlen (fst c) = Z.of_nat (S f)) by (unfold zlen; rewrite El; reflexivity).
      pose proof (parent_spec i ltac:(lia)) as [Hp _].
      destruct (zget_in_range (fst c) i) as [x Hx]; [lia|].
      destruct (zget_in_range (fst c) (parent i)) as [y Hy]; [lia|].
      rewrite (up_unfold less on_index f i c x y ltac:(lia) Hx Hy) in E.
      destruct (less x y) eqn:Elt.
      + apply heap_ordered_down_inv.
        eapply up_order; [|exact E|].
        * rewrite swapc_len. lia.
        * apply up_inv_swap; try assumption; lia.
      + destruct Hinv as [W1 W2].
        rewrite up_noop in E; [| lia | lia |].
        * injection E as <-. split.
          -- intros c0 Hc0 _ Hq. destruct (Z.eq_dec c0 i) as [->|Ec].
             ++ intros x' y' Hx' Hy'. rewrite Hx in Hx'. rewrite Hy in Hy'.
                injection Hx' as <-. injection Hy' as <-. exact Elt.
             ++ apply W1; assumption.
          -- intros Hi _. apply W2. exact Hi.
        * intros c0 Hc0. pose proof (parent_spec c0 ltac:(lia)).
          apply W1; lia.
  Qed.

  (* --- establishing the invariants --- *)
  Lemma overwrite_upd_inv a b i :
    heap_ordered less a ->
    (forall k x, k <> i -> zget b k = Some x -> zget a k = Some x) ->
    (0 <= i < zlen a) ->
    upd_inv b i.
  Proof.
    intros Ho Hag Hr. rewrite heap_ordered_okp in Ho. split.
    - intros c Hc Hci Hpi x y Hx Hy.
      apply (Ho c Hc x y); apply Hag; assumption.
    - intros Hi c Hc Hq x z Hx Hz.
      pose proof (parent_spec c Hc) as [Hpr _].
      pose proof (parent_spec i Hi) as [Hpi _].
      destruct (zget_in_range a i) as [y Hy]; [lia|].
      eapply less_incomp.
      + apply (Ho c Hc x y); [apply Hag; [lia|exact Hx]|rewrite Hq; exact Hy].
      + apply (Ho i Hi y z Hy). apply Hag; [lia|exact Hz].
  Qed.

  Lemma upd_inv_root a : upd_inv a 0 -> down_inv a 0 0.
  Proof.
    intros [W1 W2]. split.
    - intros c Hc _ Hq. apply W1; [exact Hc|lia|exact Hq].
    - intros H; lia.
  Qed.

  Lemma root_min a r : heap_ordered less a -> zget a 0 = Some r ->
    forall i x, zget a i = Some x -> less x r = false.
  Proof.
    intros Ho Hr. rewrite heap_ordered_okp in Ho.
    assert (H : forall n i x, (Z.to_nat i <= n)%nat -> zget a i = Some x -> less x r = false).
    { induction n as [|n IH]; intros i x Hn Hx;
        pose proof (zget_Some_range _ _ _ Hx) as Rx.
      - replace i with 0 in Hx by lia. rewrite Hr in Hx. injection Hx as <-. apply less_irrefl.
      - destruct (Z.eq_dec i 0) as [->|Hi].
        + rewrite Hr in Hx. injection Hx as <-. apply less_irrefl.
        + pose proof (parent_spec i ltac:(lia)) as [Hp _].
          destruct (zget_in_range a (parent i)) as [y Hy]; [lia|].
          eapply less_incomp; [apply (Ho i ltac:(lia) x y Hx Hy)|].
          apply (IH (parent i) y); [lia|exact Hy]. }
    intros i x Hx. apply (H (Z.to_nat i) i x); [lia|exact Hx].
  Qed.
End Order.

(* ---------- the heap operations ---------- *)
Lemma zset_ok {A} (l : list A) i x :
  0 <= i < zlen l -> zset l i x = Some (upd l (Z.to_nat i) x).
Proof.
  intros H. unfold zset.
  destruct (i <? 0) eqn:E1; [apply Z.ltb_lt in E1; lia|].
  destruct (zlen l <=? i) eqn:E2; [apply Z.leb_le in E2; lia|]. reflexivity.
Qed.

Lemma zset_None {A} (l : list A) i x : ~ (0 <= i < zlen l) -> zset l i x = None.
Proof.
  intros H. unfold zset.
  destruct (i <? 0) eqn:E1; [reflexivity|]. apply Z.ltb_ge in E1.
  destruct (zlen l <=? i) eqn:E2; [reflexivity|]. apply Z.leb_gt in E2. lia.
Qed.

Lemma zget_firstn_Some {A} (l : list A) n k x :
  zget (firstn n l) k = Some x -> zget l k = Some x.
Proof.
  intros H. pose proof (zget_Some_range _ _ _ H) as R.
  unfold zlen in R. rewrite firstn_length in R.
  rewrite zget_firstn in H by lia. exact H.
Qed.

Lemma trunc_upd_get {A} (a : list A) i v n k x :
  0 <= i -> k <> i -> zget (firstn n (upd a (Z.to_nat i) v)) k = Some x -> zget a k = Some x.
Proof.
  intros Hi Hk H. apply zget_firstn_Some in H.
  rewrite zget_upd_other in H by lia. exact H.
Qed.

Lemma trunc_upd_get_i {A} (a : list A) i v n :
  0 <= i < Z.of_nat n -> i < zlen a -> zget (firstn n (upd a (Z.to_nat i) v)) i = Some v.
Proof.
  intros Hi Hl. rewrite zget_firstn by lia. apply zget_upd_same. lia.
Qed.

Lemma trunc_eq {A} (a : list A) n z :
  zslice (upd a (Z.to_nat (n - 1)) z) 0 (n - 1) = firstn (Z.to_nat (n - 1)) a.
Proof.
  unfold zslice. rewrite Z.sub_0_r. simpl. apply firstn_upd_ge. lia.
Qed.

Lemma zlen_firstn {A} (l : list A) n : 0 <= n <= zlen l -> zlen (firstn (Z.to_nat n) l) = n.
Proof. intros H. unfold zlen in *. rewrite firstn_length. lia. Qed.

Section Ops.
  Context {T IS : Type}.
  Variable zero : T.
  Variable less : T -> T -> bool.
  Variable on_index : T -> Z -> IS -> IS.

  Notation heap := (heap T IS).
  Notation core := (core T IS).
  Notation swaps := (swaps on_index).
  Notation push := (push less on_index).
  Notation pop := (pop zero less on_index).
  Notation remove_at := (remove_at zero less on_index).
  Notation update_at := (update_at less on_index).
  Notation new := (new less on_index).
  Notation ho := (heap_ordered less).

  Lemma notify_eq i (c : core) x :
    zget (fst c) i = Some x -> notify on_index i c = Ok (fst c, on_index x i (snd c)).
  Proof. intros H. unfold notify. rewrite H. reflexivity. Qed.

  Lemma push_up_inv a x : ho a -> up_inv less (a ++ [x]) (zlen a).
  Proof.
    intros Ho. pose proof (zlen_nonneg a) as Hn.
    assert (Hout : forall c, 0 < c -> parent c = zlen a -> zget (a ++ [x]) c = None).
    { intros c Hc Hp. apply zget_None_iff. right. rewrite zlen_snoc.
      pose proof (parent_spec c Hc). lia. }
    split; [split|].
    - intros c Hc Hne Hpne y z Hy Hz.
      pose proof (zget_Some_range _ _ _ Hy) as Ry. rewrite zlen_snoc in Ry.
      pose proof (parent_spec c Hc) as [Hp _].
      rewrite zget_app_l in Hy by lia. rewrite zget_app_l in Hz by lia.
      eapply Ho; eassumption.
    - intros _ c Hc Hp y z Hy _. rewrite (Hout c Hc Hp) in Hy. discriminate.
    - intros c Hc Hp y z Hy _. rewrite (Hout c Hc Hp) in Hy. discriminate.
  Qed.

  Lemma push_spec x (h : heap) :
    exists c' : core,
      push x h = Ok (mkHeap (fst c') (hgen h + 1) (snd c')) /\
      swaps (ha h ++ [x], on_index x (zlen (ha h)) (hs h)) c' /\
      (strict_weak less -> ho (ha h) -> ho (fst c')).
  Proof.
    unfold Model.push.
    assert (El : zlen (ha h ++ [x]) - 1 = zlen (ha h)).
    { rewrite zlen_snoc. lia. }
    rewrite El.
    rewrite (notify_eq (zlen (ha h)) (ha h ++ [x], hs h) x) by apply zget_app_last.
    simpl fst. simpl snd. unfold rbind at 1.
    set (c0 := (ha h ++ [x], on_index x (zlen (ha h)) (hs h))).
    assert (Hr : zlen (ha h) < zlen (fst c0)).
    { unfold c0; simpl. rewrite zlen_snoc. lia. }
    destruct (up_ok less on_index (zlen (ha h)) c0 Hr) as [c' [E Hs]].
    exists c'. rewrite E. simpl. split; [reflexivity|]. split; [exact Hs|].
    intros SWO Ho.
    eapply (up_order less on_index SWO); [exact Hr|exact E|].
    unfold c0; simpl. apply push_up_inv. exact Ho.
  Qed.

  (* the array and closure state right before the percolation in Pop / RemoveAt *)
  Definition cut (a : list T) (i : Z) (lst : T) : list T :=
    firstn (Z.to_nat (zlen a - 1)) (upd a (Z.to_nat i) lst).

  Definition cut_core (a : list T) (s : IS) (i : Z) (lst : T) : core :=
    (cut a i lst, if i <? zlen a - 1 then on_index lst i s else s).

  Lemma cut_len a i lst : 0 < zlen a -> zlen (cut a i lst) = zlen a - 1.
  Proof. intros H. unfold cut. apply zlen_firstn. rewrite zlen_upd. lia. Qed.

  Lemma cut_get_i a i lst : 0 <= i < zlen a - 1 -> zget (cut a i lst) i = Some lst.
  Proof. intros H. unfold cut. apply trunc_upd_get_i; lia. Qed.

  Lemma cut_get a i lst k x :
    0 <= i -> k <> i -> zget (cut a i lst) k = Some x -> zget a k = Some x.
  Proof. intros Hi Hk. unfold cut. apply trunc_upd_get; assumption. Qed.

  Lemma cut_last a lst : cut a (zlen a - 1) lst = firstn (Z.to_nat (zlen a - 1)) a.
  Proof. unfold cut. apply firstn_upd_ge. lia. Qed.

  Lemma cut_perm a i x lst :
    zget a i = Some x -> zget a (zlen a - 1) = Some lst -> Permutation a (x :: cut a i lst).
  Proof. intros Hi Hl. unfold cut. apply remove_perm; assumption. Qed.

  Lemma ho_firstn a n : ho a -> ho (firstn n a).
  Proof.
    intros Ho i x y Hi Hx Hy. apply zget_firstn_Some in Hx. apply zget_firstn_Some in Hy.
    eapply Ho; eassumption.
  Qed.

  Lemma pop_empty (h : heap) : ha h = [] -> pop h = Panic PIndex.
  Proof. intros E. unfold Model.pop. rewrite E. reflexivity. Qed.

  Lemma pop_spec (h : heap) item :
    zget (ha h) 0 = Some item ->
    exists lst (c' : core),
      zget (ha h) (zlen (ha h) - 1) = Some lst /\
      pop h = Ok (item, mkHeap (fst c') (hgen h + 1) (snd c')) /\
      swaps (cut_core (ha h) (hs h) 0 lst) c' /\
      (strict_weak less -> ho (ha h) -> ho (fst c')).
  Proof.
    intros Hitem. pose proof (zget_Some_range _ _ _ Hitem) as R0.
    destruct (zget_in_range (ha h) (zlen (ha h) - 1)) as [lst Hlst]; [lia|].
    exists lst. unfold Model.pop. rewrite Hitem, Hlst.
    rewrite (zset_ok (ha h) 0 lst) by lia.
    rewrite zset_ok by (rewrite zlen_upd; lia).
    rewrite trunc_eq. fold (cut (ha h) 0 lst).
    rewrite cut_len by lia.
    assert (E1 : (if 0 <? zlen (ha h) - 1
                  then notify on_index 0 (cut (ha h) 0 lst, hs h)
                  else Ok (cut (ha h) 0 lst, hs h)) = Ok (cut_core (ha h) (hs h) 0 lst)).
    { unfold cut_core. destruct (0 <? zlen (ha h) - 1) eqn:E; [|reflexivity].
      apply Z.ltb_lt in E. apply notify_eq. simpl. apply cut_get_i. lia. }
    rewrite E1. unfold rbind at 1.
    destruct (down_ok less on_index 0 (cut_core (ha h) (hs h) 0 lst) ltac:(lia)) as [c' [E Hs]].
    exists c'. rewrite E. simpl. split; [reflexivity|]. split; [reflexivity|]. split; [exact Hs|].
    intros SWO Ho. apply (ord_from_0 less).
    eapply (down_order less on_index SWO); [|exact E|]; [lia|].
    apply upd_inv_root. unfold cut_core; simpl.
    apply (overwrite_upd_inv less SWO (ha h)); [exact Ho| |lia].
    intros k x Hk. apply cut_get; [lia|exact Hk].
  Qed.

  Lemma remove_at_spec (h : heap) i x :
    zget (ha h) i = Some x ->
    exists lst (c' : core),
      zget (ha h) (zlen (ha h) - 1) = Some lst /\
      remove_at i h = Ok (mkHeap (fst c') (hgen h + 1) (snd c')) /\
      swaps (cut_core (ha h) (hs h) i lst) c' /\
      (strict_weak less -> ho (ha h) -> ho (fst c')).
  Proof.
    intros Hx. pose proof (zget_Some_range _ _ _ Hx) as Ri.
    destruct (zget_in_range (ha h) (zlen (ha h) - 1)) as [lst Hlst]; [lia|].
    exists lst. unfold Model.remove_at. rewrite Hlst.
    rewrite (zset_ok (ha h) i lst) by lia.
    rewrite zset_ok by (rewrite zlen_upd; lia).
    rewrite trunc_eq. fold (cut (ha h) i lst).
    rewrite cut_len by lia.
    destruct (i <? zlen (ha h) - 1) eqn:Ei.
    - apply Z.ltb_lt in Ei.
      rewrite (notify_eq i (cut (ha h) i lst, hs h) lst) by (simpl; apply cut_get_i; lia).
      simpl fst; simpl snd. unfold rbind at 2.
      assert (Ec : cut_core (ha h) (hs h) i lst = (cut (ha h) i lst, on_index lst i (hs h))).
      { unfold cut_core. destruct (i <? zlen (ha h) - 1) eqn:E; [reflexivity|].
        apply Z.ltb_ge in E. lia. }
      rewrite <- Ec.
      assert (Hr : i < zlen (fst (cut_core (ha h) (hs h) i lst))).
      { rewrite Ec. simpl. rewrite cut_len; lia. }
      destruct (up_ok less on_index i _ Hr) as [c1 [E1 Hs1]].
      rewrite E1. unfold rbind at 2.
      destruct (down_ok less on_index i c1 ltac:(lia)) as [c' [E2 Hs2]].
      exists c'. rewrite E2. simpl. split; [reflexivity|]. split; [reflexivity|].
      split; [eapply swaps_trans; eassumption|].
      intros SWO Ho. apply (ord_from_0 less).
      eapply (down_order less on_index SWO); [|exact E2|]; [lia|].
      eapply (up_weak less on_index SWO); [|exact E1|]; [lia|].
      rewrite Ec; simpl.
      apply (overwrite_upd_inv less SWO (ha h)); [exact Ho| |lia].
      intros k y Hk. apply cut_get; [lia|exact Hk].
    - apply Z.ltb_ge in Ei.
      exists (cut_core (ha h) (hs h) i lst). simpl.
      split; [reflexivity|].
      split.
      { unfold cut_core. destruct (i <? zlen (ha h) - 1) eqn:E; [apply Z.ltb_lt in E; lia|].
        reflexivity. }
      split; [apply swaps_refl|].
      intros SWO Ho. simpl. replace i with (zlen (ha h) - 1) by lia.
      rewrite cut_last. apply ho_firstn. exact Ho.
  Qed.

  Lemma update_at_spec (h : heap) i x old :
    zget (ha h) i = Some old ->
    exists c' : core,
      update_at i x h = Ok (mkHeap (fst c') (hgen h + 1) (snd c')) /\
      swaps (upd (ha h) (Z.to_nat i) x, on_index x i (hs h)) c' /\
      (strict_weak less -> ho (ha h) -> ho (fst c')).
  Proof.
    intros Hold. pose proof (zget_Some_range _ _ _ Hold) as Ri.
    unfold Model.update_at. rewrite (zset_ok (ha h) i x) by lia.
    rewrite (notify_eq i (upd (ha h) (Z.to_nat i) x, hs h) x)
      by (simpl; apply zget_upd_same; lia).
    simpl fst; simpl snd. unfold rbind at 1.
    set (c0 := (upd (ha h) (Z.to_nat i) x, on_index x i (hs h))).
    assert (Hr : i < zlen (fst c0)) by (unfold c0; simpl; rewrite zlen_upd; lia).
    destruct (up_ok less on_index i c0 Hr) as [c1 [E1 Hs1]].
    rewrite E1. unfold rbind at 1.
    destruct (down_ok less on_index i c1 ltac:(lia)) as [c' [E2 Hs2]].
    exists c'. rewrite E2. simpl. split; [reflexivity|].
    split; [eapply swaps_trans; eassumption|].
    intros SWO Ho. apply (ord_from_0 less).
    eapply (down_order less on_index SWO); [|exact E2|]; [lia|].
    eapply (up_weak less on_index SWO); [|exact E1|]; [lia|].
    unfold c0; simpl.
    apply (overwrite_upd_inv less SWO (ha h)); [exact Ho| |lia].
    intros k y Hk Hy. rewrite zget_upd_other in Hy by lia. exact Hy.
  Qed.

  Lemma update_at_bad (h : heap) i x : zget (ha h) i = None -> update_at i x h = Panic PIndex.
  Proof.
    intros H. unfold Model.update_at. rewrite zset_None; [reflexivity|].
    apply zget_None_iff in H. lia.
  Qed.

  (* --- New --- *)
  Lemma heapify_spec : forall n (c : core),
      exists c', heapify less on_index n c = Ok c' /\ swaps c c' /\
                 (strict_weak less -> ord_from less (fst c) (Z.of_nat n) -> ho (fst c')).
  Proof.
    induction n as [|n IH]; intros c.
    - exists c. split; [reflexivity|]. split; [apply swaps_refl|].
      intros SWO H. apply (ord_from_0 less). exact H.
    - simpl heapify.
      destruct (down_ok less on_index (Z.of_nat n) c ltac:(lia)) as [c1 [E1 Hs1]].
      rewrite E1. unfold rbind.
      destruct (IH c1) as [c' [E2 [Hs2 Ho2]]].
      exists c'. split; [exact E2|]. split; [eapply swaps_trans; eassumption|].
      intros SWO H. apply Ho2; [exact SWO|].
      eapply (down_order less on_index SWO); [|exact E1|]; [lia|].
      split.
      + intros c0 Hc0 Hk Hne. apply H; [exact Hc0|lia].
      + intros Hn Hk. pose proof (parent_spec (Z.of_nat n) Hn). lia.
  Qed.

  (* the closure state after notifying positions i, i+1, ... holding the items l *)
  Fixpoint notified (l : list T) (i : Z) (s : IS) : IS :=
    match l with
    | [] => s
    | x :: r => notified r (i + 1) (on_index x i s)
    end.

  Lemma notify_loop_spec : forall l2 l1 s,
      notify_loop on_index (length l2) (zlen l1) (l1 ++ l2, s) =
      Ok (l1 ++ l2, notified l2 (zlen l1) s).
  Proof.
    induction l2 as [|x r IH]; intros l1 s; [reflexivity|].
    simpl length. simpl notify_loop.
    rewrite (notify_eq (zlen l1) (l1 ++ x :: r, s) x).
    - unfold rbind. simpl fst. simpl snd.
      replace (l1 ++ x :: r) with ((l1 ++ [x]) ++ r) by (rewrite <- app_assoc; reflexivity).
      replace (zlen l1 + 1) with (zlen (l1 ++ [x])) by (rewrite zlen_snoc; lia).
      rewrite IH. simpl notified. rewrite zlen_snoc. reflexivity.
    - simpl. replace (l1 ++ x :: r) with ((l1 ++ [x]) ++ r) by (rewrite <- app_assoc; reflexivity).
      rewrite zget_app_l by (rewrite zlen_snoc; lia).
      apply zget_app_last.
  Qed.

  Lemma new_spec initial s0 :
    exists c1 : core,
      swaps (initial, s0) c1 /\
      new initial s0 = Ok (mkHeap (fst c1) 0 (notified (fst c1) 0 (snd c1))) /\
      (strict_weak less -> ho (fst c1)).
  Proof.
    unfold Model.new.
    destruct (heapify_spec (Z.to_nat (Z.quot (zlen initial) 2)) (initial, s0))
      as [c1 [E1 [Hs1 Ho1]]].
    exists c1. split; [exact Hs1|]. rewrite E1. unfold rbind at 1.
    assert (El : length initial = length (fst c1)).
    { apply swaps_perm in Hs1. apply Permutation_length in Hs1. exact Hs1. }
    rewrite El.
    pose proof (notify_loop_spec (fst c1) [] (snd c1)) as E2.
    simpl in E2. change (zlen []) with 0 in E2.
    replace (fst c1, snd c1) with c1 in E2 by (destruct c1; reflexivity).
    rewrite E2. simpl. split; [reflexivity|].
    intros SWO. apply Ho1; [exact SWO|].
    intros c Hc Hk x y Hx _. simpl in Hx.
    apply zget_Some_range in Hx.
    pose proof (parent_spec c Hc) as [Hp Hcc].
    pose proof (zlen_nonneg initial) as Hn.
    rewrite Z2Nat.id in Hk by (apply Z.quot_pos; lia).
    rewrite Z.quot_div_nonneg in Hk by lia.
    pose proof (Z_div_mod_eq_full (zlen initial) 2).
    pose proof (Z.mod_pos_bound (zlen initial) 2).
    lia.
  Qed.

  (* gen bookkeeping, without any assumption on less *)
  Lemma push_gen x (h h' : heap) : push x h = Ok h' -> hgen h' = hgen h + 1.
  Proof.
    intros E. destruct (push_spec x h) as [c' [E' _]]. rewrite E' in E.
    injection E as <-. reflexivity.
  Qed.

  Lemma pop_gen (h h' : heap) x : pop h = Ok (x, h') -> hgen h' = hgen h + 1.
  Proof.
    intros E. destruct (zget (ha h) 0) as [item|] eqn:E0.
    - destruct (pop_spec h item E0) as [lst [c' [_ [E' _]]]]. rewrite E' in E.
      injection E as _ <-. reflexivity.
    - unfold Model.pop in E. rewrite E0 in E. discriminate.
  Qed.

  Lemma remove_at_gen (h h' : heap) i : remove_at i h = Ok h' -> hgen h' = hgen h + 1.
  Proof.
    intros E. destruct (zget (ha h) i) as [x|] eqn:E0.
    - destruct (remove_at_spec h i x E0) as [lst [c' [_ [E' _]]]]. rewrite E' in E.
      injection E as <-. reflexivity.
    - unfold Model.remove_at in E.
      destruct (zget (ha h) (zlen (ha h) - 1)); [|discriminate].
      rewrite zset_None in E; [discriminate|]. apply zget_None_iff in E0. lia.
  Qed.

  Lemma update_at_gen (h h' : heap) i x : update_at i x h = Ok h' -> hgen h' = hgen h + 1.
  Proof.
    intros E. destruct (zget (ha h) i) as [old|] eqn:E0.
    - destruct (update_at_spec h i x old E0) as [c' [E' _]]. rewrite E' in E.
      injection E as <-. reflexivity.
    - rewrite update_at_bad in E by exact E0. discriminate.
  Qed.
End Ops.
