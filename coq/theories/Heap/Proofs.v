(* Proofs for xheap.Heap and xheap.PriorityQueue: invariants over all histories, refinement of
   the ideal multiset / finite map (C05) and the iterator properties (C15). *)
From Coq Require Import Permutation Sorted.
From Juniper Require Import Common.Base Heap.Model Heap.Spec Heap.Corr Heap.Lemmas.

(* ---------- small list facts ---------- *)
Lemma Forall_upd {A} (P : A -> Prop) (l : list A) n x :
  Forall P l -> P x -> Forall P (upd l n x).
Proof.
  intros Hl Hx. revert n. induction Hl as [|h t Hh Ht IH]; intros [|n]; simpl; auto.
Qed.

Lemma Forall2_upd {A B} (R : A -> B -> Prop) (l : list A) (m : list B) n x y :
  Forall2 R l m -> R x y -> Forall2 R (upd l n x) (upd m n y).
Proof.
  intros H Hxy. revert n. induction H as [|a b l m Hab Hlm IH]; intros [|n]; simpl; auto.
Qed.

Lemma Forall2_nth_error {A B} (R : A -> B -> Prop) (l : list A) (m : list B) n :
  Forall2 R l m ->
  match nth_error l n, nth_error m n with
  | Some a, Some b => R a b
  | None, None => True
  | _, _ => False
  end.
Proof.
  intros H. revert n. induction H as [|a b l m Hab Hlm IH]; intros [|n]; simpl; auto.
  apply IH.
Qed.

Lemma Forall2_nth_error_Some {A B} (R : A -> B -> Prop) (l : list A) (m : list B) n a :
  Forall2 R l m -> nth_error l n = Some a -> exists b, nth_error m n = Some b /\ R a b.
Proof.
  intros H E. pose proof (Forall2_nth_error R l m n H) as Hn. rewrite E in Hn.
  destruct (nth_error m n) as [b|]; [exists b; auto|contradiction].
Qed.

Lemma Forall2_nth_error_None {A B} (R : A -> B -> Prop) (l : list A) (m : list B) n :
  Forall2 R l m -> nth_error l n = None -> nth_error m n = None.
Proof.
  intros H E. pose proof (Forall2_nth_error R l m n H) as Hn. rewrite E in Hn.
  destruct (nth_error m n) as [b|]; [contradiction|reflexivity].
Qed.

Lemma Forall2_snoc {A B} (R : A -> B -> Prop) (l : list A) (m : list B) x y :
  Forall2 R l m -> R x y -> Forall2 R (l ++ [x]) (m ++ [y]).
Proof. intros H Hxy. apply Forall2_app; [exact H|constructor; [exact Hxy|constructor]]. Qed.

Lemma Forall2_weaken {A B} (R R' : A -> B -> Prop) (l : list A) (m : list B) :
  (forall a b, R a b -> R' a b) -> Forall2 R l m -> Forall2 R' l m.
Proof. intros HR H. induction H; constructor; auto. Qed.

Lemma Forall2_Forall_r {A B} (R : A -> B -> Prop) (P : B -> Prop) (l : list A) (m : list B) :
  (forall a b, R a b -> P b) -> Forall2 R l m -> Forall P m.
Proof. intros HRP H. induction H; constructor; eauto. Qed.

Lemma In_remove_one x l : In x l -> Permutation l (x :: remove_one x l).
Proof.
  induction l as [|y r IH]; intros H; [destruct H|]. simpl.
  destruct (Z.eqb_spec x y) as [->|Hne]; [apply Permutation_refl|].
  destruct H as [H|H]; [congruence|].
  eapply perm_trans; [apply perm_skip, IH, H|apply perm_swap].
Qed.

Lemma remove_one_perm x l r : Permutation l (x :: r) -> Permutation (remove_one x l) r.
Proof.
  intros H. assert (Hin : In x l).
  { eapply Permutation_in; [apply Permutation_sym, H|left; reflexivity]. }
  apply In_remove_one in Hin.
  eapply Permutation_cons_inv. eapply perm_trans; [apply Permutation_sym, Hin|exact H].
Qed.

(* ---------- iterators (generic) ---------- *)
Section Iter.
  Context {T IS : Type}.
  Variable pr : T -> Z.                  (* what the caller sees of an item *)
  Notation heap := (heap T IS).
  Notation hiter := (hiter T).

  Definition out_of (r : result (option T)) : out :=
    match r with Ok (Some x) => OVal (pr x) | Ok None => OEnd | Panic _ => OPanic end.

  Lemma iter_next_started (h : heap) g rest :
    g <> -1 -> g = hgen h -> iter_next h (mkIter g rest) = inner_next (mkIter g rest).
  Proof.
    intros Hg Eg. unfold iter_next. simpl it_gen.
    destruct (Z.eqb_spec g (-1)); [lia|]. destruct (Z.eqb_spec g (hgen h)); [|lia]. reflexivity.
  Qed.

  Lemma drain_started (h : heap) : forall rest fuel g,
      (length rest < fuel)%nat -> g <> -1 -> g = hgen h ->
      drain fuel h (mkIter g rest) = Some (Ok rest).
  Proof.
    induction rest as [|x r IH]; intros fuel g Hf Hg Eg; (destruct fuel as [|fuel]; [simpl in Hf; lia|]).
    - cbn [drain]. rewrite iter_next_started by assumption. reflexivity.
    - cbn [drain]. rewrite iter_next_started by assumption. unfold inner_next. cbn [it_rest it_gen].
      rewrite IH; [reflexivity|simpl in Hf; lia|exact Hg|exact Eg].
  Qed.

  Lemma iterate_all_unchanged (h : heap) : hgen h <> -1 -> iterate_all h = Some (Ok (ha h)).
  Proof.
    intros Hg. unfold iterate_all. cbn [drain]. unfold iter_next, iterate. cbn [it_gen].
    rewrite Z.eqb_refl. unfold inner_next. cbn [it_rest it_gen].
    destruct (ha h) as [|x r] eqn:Ea; [reflexivity|].
    rewrite drain_started; [reflexivity|simpl; lia|exact Hg|reflexivity].
  Qed.

  Lemma iter_next_gen_le (h : heap) it :
    it_gen it <= hgen h -> it_gen (snd (iter_next h it)) <= hgen h.
  Proof.
    intros H. unfold iter_next, inner_next.
    destruct (it_gen it =? -1).
    - simpl. destruct (ha h); simpl; lia.
    - destruct (negb (it_gen it =? hgen h)); [exact H|].
      destruct (it_rest it); simpl; exact H.
  Qed.

  Lemma iter_next_modified (h : heap) it :
    it_gen it <> -1 -> it_gen it < hgen h -> fst (iter_next h it) = Panic PModified.
  Proof.
    intros H1 H2. unfold iter_next.
    destruct (Z.eqb_spec (it_gen it) (-1)); [lia|].
    destruct (Z.eqb_spec (it_gen it) (hgen h)); [lia|]. reflexivity.
  Qed.

  (* link between an iterator and its ghost; depends on the container only through gen *)
  Definition ginv (gen : Z) (it : hiter) (g : ghost) : Prop :=
    (g_started g = false /\ it = iterate /\ g_yield g = [] /\ g_ended g = false) \/
    (g_started g = true /\ it_gen it <> -1 /\ it_gen it <= gen /\
     (it_gen it = gen -> g_snap g = g_yield g ++ map pr (it_rest it)) /\ ghost_ok g).

  Lemma ginv_ok gen it g : ginv gen it g -> ghost_ok g.
  Proof.
    intros [[_ [_ [Hy He]]]|[_ [_ [_ [_ H]]]]]; [|exact H].
    split; [rewrite Hy; exists (g_snap g); reflexivity|rewrite He; discriminate].
  Qed.

  Lemma ginv_mono gen gen' it g : gen <= gen' -> ginv gen it g -> ginv gen' it g.
  Proof.
    intros Hle [H|[Hs [Hn [Hl [Hsnap Hok]]]]]; [left; exact H|right].
    repeat split; try assumption; try lia; try (apply Hok).
    intros E. apply Hsnap. lia.
  Qed.

  Lemma ginv_new gen : ginv gen iterate ghost0.
  Proof. left. repeat split. Qed.

  Lemma ginv_started gen it g :
    g_started g = true -> it_gen it <> -1 -> it_gen it <= gen ->
    (it_gen it = gen -> g_snap g = g_yield g ++ map pr (it_rest it)) ->
    prefix_of (g_yield g) (g_snap g) -> (g_ended g = true -> g_yield g = g_snap g) ->
    ginv gen it g.
  Proof. intros H1 H2 H3 H4 H5 H6. right. repeat split; assumption. Qed.

  Lemma ginv_next (h : heap) it g :
    0 <= hgen h -> ginv (hgen h) it g ->
    ginv (hgen h) (snd (iter_next h it))
         (ghost_next (map pr (ha h)) g (out_of (fst (iter_next h it)))).
  Proof.
    intros Hg [[Hs [Hit [Hy He]]]|[Hs [Hn [Hl [Hsnap [Hpre Hend]]]]]].
    - subst it. unfold iter_next, inner_next. simpl. unfold ghost_next. rewrite Hs, Hy.
      destruct (ha h) as [|x r]; simpl; apply ginv_started; simpl.
      + reflexivity.
      + lia.
      + lia.
      + reflexivity.
      + exists []. reflexivity.
      + reflexivity.
      + reflexivity.
      + lia.
      + lia.
      + reflexivity.
      + exists (map pr r). reflexivity.
      + intros E. rewrite He in E. discriminate.
    - unfold iter_next, inner_next.
      destruct (Z.eqb_spec (it_gen it) (-1)); [lia|].
      destruct (Z.eqb_spec (it_gen it) (hgen h)) as [Eg|Eg]; simpl.
      + specialize (Hsnap Eg). unfold ghost_next. rewrite Hs.
        destruct (it_rest it) as [|x r] eqn:Er; simpl; apply ginv_started; simpl.
        * reflexivity.
        * exact Hn.
        * exact Hl.
        * intros _. rewrite Er. exact Hsnap.
        * exact Hpre.
        * intros _. rewrite Hsnap. simpl. rewrite app_nil_r. reflexivity.
        * reflexivity.
        * exact Hn.
        * exact Hl.
        * intros _. rewrite Hsnap. simpl. rewrite <- app_assoc. reflexivity.
        * exists (map pr r). rewrite Hsnap. simpl. rewrite <- app_assoc. reflexivity.
        * intros E. specialize (Hend E). rewrite Hsnap in Hend.
          rewrite <- (app_nil_r (g_yield g)) in Hend at 1.
          apply app_inv_head in Hend. discriminate.
      + unfold ghost_next. rewrite Hs. simpl. apply ginv_started; simpl.
        * reflexivity.
        * exact Hn.
        * exact Hl.
        * intros E. lia.
        * exact Hpre.
        * exact Hend.
  Qed.
End Iter.

(* ---------- xheap.Heap[int]: invariants over all histories ---------- *)
Section HeapHist.
  Variable less : Z -> Z -> bool.

  Notation hstep := (hstep less).
  Notation hinit := (hinit less).
  Notation hrun := (hrun less).
  Notation hrun_from := (hrun_from less).
  Notation hrun_state := (hrun_state less).
  Notation hrun_state_from := (hrun_state_from less).
  Notation ho := (heap_ordered less).

  Lemma hnew_ok initial :
    exists h, hnew less initial = Ok h /\ hgen h = 0 /\ Permutation initial (ha h) /\
              (strict_weak less -> ho (ha h)).
  Proof.
    destruct (new_spec less no_index initial tt) as [c1 [Hs [E Ho]]].
    eexists. split; [exact E|]. simpl. split; [reflexivity|].
    split; [apply swaps_perm in Hs; exact Hs|exact Ho].
  Qed.

  Lemma hinit_eq initial :
    exists h, hnew less initial = Ok h /\ hinit initial = mkHst h [] /\ hgen h = 0 /\
              Permutation initial (ha h) /\ (strict_weak less -> ho (ha h)).
  Proof.
    destruct (hnew_ok initial) as [h [E [Hg [Hp Ho]]]].
    exists h. unfold Model.hinit. rewrite E. auto.
  Qed.

  Lemma hrun_eq initial ops : hrun initial ops = hrun_from (hinit initial) ops.
  Proof.
    destruct (hinit_eq initial) as [h [E [Ei _]]]. unfold Model.hrun. rewrite E, Ei. reflexivity.
  Qed.

  (* effect of each mutating operation *)
  Lemma hstep_push s x :
    exists h', hstep s (HPush x) = (mkHst h' (hits s), OUnit) /\
               hgen h' = hgen (hh s) + 1 /\ Permutation (x :: ha (hh s)) (ha h') /\
               (strict_weak less -> ho (ha (hh s)) -> ho (ha h')).
  Proof.
    destruct (push_spec less no_index x (hh s)) as [c' [E [Hs Ho]]].
    eexists. simpl. rewrite E. split; [reflexivity|]. simpl.
    split; [reflexivity|]. split; [|exact Ho].
    apply swaps_perm in Hs. simpl in Hs.
    eapply perm_trans; [apply Permutation_cons_append|exact Hs].
  Qed.

  Lemma hstep_pop_empty s : ha (hh s) = [] -> hstep s HPop = (s, OPanic).
  Proof. intros E. simpl. rewrite pop_empty by exact E. reflexivity. Qed.

  Lemma hstep_pop s x :
    zget (ha (hh s)) 0 = Some x ->
    exists h', hstep s HPop = (mkHst h' (hits s), OVal x) /\
               hgen h' = hgen (hh s) + 1 /\ Permutation (ha (hh s)) (x :: ha h') /\
               (strict_weak less -> ho (ha (hh s)) -> ho (ha h')).
  Proof.
    intros Hx. destruct (pop_spec 0 less no_index (hh s) x Hx) as [lst [c' [Hl [E [Hs Ho]]]]].
    eexists. simpl. rewrite E. split; [reflexivity|]. simpl.
    split; [reflexivity|]. split; [|exact Ho].
    apply swaps_perm in Hs. simpl in Hs.
    eapply perm_trans; [apply (cut_perm (ha (hh s)) 0 x lst Hx Hl)|].
    apply perm_skip. exact Hs.
  Qed.

  Lemma hstep_peek s : hstep s HPeek =
    (s, match zget (ha (hh s)) 0 with Some x => OVal x | None => OPanic end).
  Proof. simpl. unfold peek. destruct (zget (ha (hh s)) 0); reflexivity. Qed.

  Lemma zget0_nil {A} (l : list A) : zget l 0 = None <-> l = [].
  Proof. destruct l; simpl; split; intros H; try reflexivity; discriminate. Qed.

  (* the heap (not the iterators) after a step: unchanged unless Push / non-empty Pop *)
  Lemma hstep_hh_same s o :
    match o with HPush _ | HPop => False | _ => True end -> hh (fst (hstep s o)) = hh s.
  Proof.
    intros Ho. destruct o; try destruct Ho; simpl.
    - destruct (peek (hh s)); reflexivity.
    - reflexivity.
    - unfold grow. destruct (n <? 0); reflexivity.
    - unfold shrink. destruct (n <? 0); reflexivity.
    - reflexivity.
    - destruct (nth_error (hits s) j); [|reflexivity].
      destruct (iter_next (hh s) h). reflexivity.
    - destruct (iterate_all (hh s)) as [[l|c]|]; reflexivity.
  Qed.

  (* --- gen never decreases; iterators never run ahead of the heap --- *)
  Definition hgen_inv (s : hst) : Prop :=
    0 <= hgen (hh s) /\ Forall (fun it => it_gen it <= hgen (hh s)) (hits s).

  Lemma Forall_gen_mono (its : list (hiter Z)) g g' :
    g <= g' -> Forall (fun it => it_gen it <= g) its -> Forall (fun it => it_gen it <= g') its.
  Proof. intros Hle H. eapply Forall_impl; [|exact H]. simpl. intros it Hit. lia. Qed.

  Lemma hstep_gen_inv s o : hgen_inv s -> hgen_inv (fst (hstep s o)).
  Proof.
    intros [Hg Hits]. destruct o.
    - destruct (hstep_push s x) as [h' [E [Hg' _]]]. rewrite E. unfold hgen_inv. simpl.
      split; [lia|]. eapply Forall_gen_mono; [|exact Hits]. lia.
    - destruct (zget (ha (hh s)) 0) as [x|] eqn:E0.
      + destruct (hstep_pop s x E0) as [h' [E [Hg' _]]]. rewrite E. unfold hgen_inv. simpl.
        split; [lia|]. eapply Forall_gen_mono; [|exact Hits]. lia.
      + apply zget0_nil in E0. rewrite hstep_pop_empty by exact E0. split; assumption.
    - rewrite hstep_peek. split; assumption.
    - split; assumption.
    - simpl. unfold grow. destruct (n <? 0); split; assumption.
    - simpl. unfold shrink. destruct (n <? 0); split; assumption.
    - simpl. split; [exact Hg|]. apply Forall_app. split; [exact Hits|].
      constructor; [simpl; lia|constructor].
    - simpl. destruct (nth_error (hits s) j) as [it|] eqn:Ej; [|split; assumption].
      pose proof (iter_next_gen_le (hh s) it) as Hle.
      destruct (iter_next (hh s) it) as [r it'] eqn:En. simpl. split; [exact Hg|].
      apply Forall_upd; [exact Hits|]. simpl in Hle. apply Hle.
      rewrite Forall_forall in Hits. apply Hits. eapply nth_error_In; eassumption.
    - simpl. destruct (iterate_all (hh s)) as [[l|c]|]; split; assumption.
  Qed.

  Lemma hinit_gen_inv initial : hgen_inv (hinit initial).
  Proof.
    destruct (hinit_eq initial) as [h [_ [E [Hg _]]]]. rewrite E. split; simpl; [lia|constructor].
  Qed.

  Lemma hrun_state_from_app s ops o :
    hrun_state_from s (ops ++ [o]) = fst (hstep (hrun_state_from s ops) o).
  Proof. revert s. induction ops as [|o' ops IH]; intros s; simpl; [reflexivity|apply IH]. Qed.

  Lemma reach_ind (Pr : hst -> Prop) initial :
    Pr (hinit initial) -> (forall s o, Pr s -> Pr (fst (hstep s o))) ->
    forall ops, Pr (hrun_state initial ops).
  Proof.
    intros H0 Hstep ops. unfold Model.hrun_state. generalize (hinit initial) H0.
    induction ops as [|o ops IH]; intros s Hs; simpl; [exact Hs|].
    apply IH. apply Hstep. exact Hs.
  Qed.

  Lemma hgen_inv_reach initial ops : hgen_inv (hrun_state initial ops).
  Proof. apply reach_ind; [apply hinit_gen_inv|intros s o; apply hstep_gen_inv]. Qed.

  (* --- C15 --- *)
  Lemma heap_iter_unchanged initial ops :
    let h := hh (hrun_state initial ops) in iterate_all h = Some (Ok (ha h)).
  Proof.
    intros h. apply iterate_all_unchanged.
    destruct (hgen_inv_reach initial ops) as [Hg _]. fold h in Hg. lia.
  Qed.

  Lemma heap_iter_add_remove_panics initial ops o it :
    let s := hrun_state initial ops in
    h_adds_or_removes o = true ->
    snd (hstep s o) <> OPanic ->
    In it (hits (fst (hstep s o))) -> it_gen it <> -1 ->
    fst (iter_next (hh (fst (hstep s o))) it) = Panic PModified.
  Proof.
    intros s Hmod Hnp Hin Hst.
    destruct (hgen_inv_reach initial ops) as [Hg Hits]. fold s in Hg, Hits.
    rewrite Forall_forall in Hits.
    destruct o; try discriminate Hmod.
    - destruct (hstep_push s x) as [h' [E [Hg' _]]]. rewrite E in *. simpl in *.
      apply iter_next_modified; [exact Hst|]. specialize (Hits it Hin). simpl in Hits. lia.
    - destruct (zget (ha (hh s)) 0) as [x|] eqn:E0.
      + destruct (hstep_pop s x E0) as [h' [E [Hg' _]]]. rewrite E in *. simpl in *.
        apply iter_next_modified; [exact Hst|]. specialize (Hits it Hin). simpl in Hits. lia.
      + apply zget0_nil in E0. rewrite hstep_pop_empty in Hnp by exact E0. simpl in Hnp. congruence.
  Qed.

  Definition hghost_inv (s : hst) (gs : list ghost) : Prop :=
    Forall2 (ginv (fun x => x) (hgen (hh s))) (hits s) gs.

  Lemma hghost_step_inv s gs o :
    hgen_inv s -> hghost_inv s gs ->
    hghost_inv (fst (hstep s o)) (hghost_step less s gs o).
  Proof.
    intros [Hg _] H. unfold hghost_inv in *.
    assert (Hmono : forall g', hgen (hh s) <= g' ->
              Forall2 (ginv (fun x => x) g') (hits s) gs).
    { intros g' Hle. eapply Forall2_weaken; [|exact H]. intros it g. apply ginv_mono. exact Hle. }
    destruct o.
    - destruct (hstep_push s x) as [h' [E [Hg' _]]]. rewrite E. simpl. apply Hmono. lia.
    - destruct (zget (ha (hh s)) 0) as [x|] eqn:E0.
      + destruct (hstep_pop s x E0) as [h' [E [Hg' _]]]. rewrite E. simpl. apply Hmono. lia.
      + apply zget0_nil in E0. rewrite hstep_pop_empty by exact E0. exact H.
    - rewrite hstep_peek. exact H.
    - exact H.
    - simpl. unfold grow. destruct (n <? 0); exact H.
    - simpl. unfold shrink. destruct (n <? 0); exact H.
    - simpl. apply Forall2_snoc; [exact H|apply ginv_new].
    - unfold hghost_step.
      pose proof (Forall2_nth_error _ _ _ j H) as Hj.
      cbn [Model.hstep].
      destruct (nth_error (hits s) j) as [it|] eqn:Ej; destruct (nth_error gs j) as [g|] eqn:Egj;
        try contradiction; [|exact H].
      pose proof (ginv_next (fun x => x) (hh s) it g Hg Hj) as Hn.
      destruct (iter_next (hh s) it) as [r it'] eqn:En. simpl in *.
      apply Forall2_upd; [exact H|]. rewrite map_id in Hn.
      destruct r as [[x|]|c]; exact Hn.
    - simpl. destruct (iterate_all (hh s)) as [[l|c]|]; exact H.
  Qed.

  Lemma hgrun_inv : forall ops s gs,
      hgen_inv s -> hghost_inv s gs ->
      hghost_inv (fst (hgrun less s gs ops)) (snd (hgrun less s gs ops)).
  Proof.
    induction ops as [|o ops IH]; intros s gs Hs Hgs; simpl; [exact Hgs|].
    apply IH; [apply hstep_gen_inv; exact Hs|apply hghost_step_inv; assumption].
  Qed.

  Lemma heap_iter_ghost_ok initial ops :
    Forall ghost_ok (snd (hgrun less (hinit initial) [] ops)).
  Proof.
    pose proof (hgrun_inv ops (hinit initial) [] (hinit_gen_inv initial)) as H.
    eapply Forall2_Forall_r; [|apply H].
    - intros it g. apply ginv_ok.
    - destruct (hinit_eq initial) as [h [_ [E _]]]. rewrite E. constructor.
  Qed.

  (* --- heap order and the multiset refinement (C05) --- *)
  Hypothesis SWO : strict_weak less.

  Lemma hstep_ordered s o : ho (ha (hh s)) -> ho (ha (hh (fst (hstep s o)))).
  Proof.
    intros Ho. destruct o; try (rewrite hstep_hh_same by exact I; exact Ho).
    - destruct (hstep_push s x) as [h' [E [_ [_ Ho']]]]. rewrite E. simpl. apply Ho'; assumption.
    - destruct (zget (ha (hh s)) 0) as [x|] eqn:E0.
      + destruct (hstep_pop s x E0) as [h' [E [_ [_ Ho']]]]. rewrite E. simpl. apply Ho'; assumption.
      + apply zget0_nil in E0. rewrite hstep_pop_empty by exact E0. exact Ho.
  Qed.

  Lemma heap_ordered_reach initial ops : ho (ha (hh (hrun_state initial ops))).
  Proof.
    apply (reach_ind (fun s => ho (ha (hh s)))).
    - destruct (hinit_eq initial) as [h [_ [E [_ [_ Ho]]]]]. rewrite E. simpl. apply Ho. exact SWO.
    - intros s o. apply hstep_ordered.
  Qed.

  Lemma root_is_min a x : ho a -> zget a 0 = Some x -> is_min less x a.
  Proof.
    intros Ho Hx. split; [eapply zget_In; exact Hx|].
    intros y Hy. apply In_zget in Hy. destruct Hy as [i Hi].
    eapply (root_min less SWO); eassumption.
  Qed.

  Lemma is_min_perm x l l' : Permutation l l' -> is_min less x l -> is_min less x l'.
  Proof.
    intros Hp [Hin Hmin]. split; [eapply Permutation_in; eassumption|].
    intros y Hy. apply Hmin. eapply Permutation_in; [apply Permutation_sym, Hp|exact Hy].
  Qed.

  Lemma hspec_from : forall ops s l,
      ho (ha (hh s)) -> 0 <= hgen (hh s) -> Permutation (ha (hh s)) l ->
      hspec_run less l ops (hrun_from s ops).
  Proof.
    induction ops as [|o ops IH]; intros s l Ho Hg Hp; simpl; [exact I|].
    destruct (hstep s o) as [s' r] eqn:Es.
    assert (Ho' : ho (ha (hh s'))).
    { replace s' with (fst (hstep s o)) by (rewrite Es; reflexivity). apply hstep_ordered. exact Ho. }
    assert (Hsame : match o with HPush _ | HPop => False | _ => True end ->
                    hspec_ok less l o r -> hspec_ok less l o r /\ hspec_run less (ms_step l o r) ops (hrun_from s' ops)).
    { intros Hk Hok. split; [exact Hok|].
      assert (Eh : hh s' = hh s).
      { replace s' with (fst (hstep s o)) by (rewrite Es; reflexivity). apply hstep_hh_same. exact Hk. }
      replace (ms_step l o r) with l by (destruct o; try reflexivity; destruct Hk).
      apply IH; rewrite ?Eh; assumption. }
    destruct o.
    - destruct (hstep_push s x) as [h' [E [Hg' [Hp' _]]]]. rewrite E in Es.
      injection Es as <- <-. split; [reflexivity|]. simpl.
      apply IH; simpl; [exact Ho'|lia|].
      eapply perm_trans; [apply Permutation_sym, Hp'|apply perm_skip, Hp].
    - destruct (zget (ha (hh s)) 0) as [x|] eqn:E0.
      + destruct (hstep_pop s x E0) as [h' [E [Hg' [Hp' _]]]]. rewrite E in Es.
        injection Es as <- <-.
        assert (Hmin : is_min less x l).
        { eapply is_min_perm; [exact Hp|]. apply root_is_min; assumption. }
        split.
        * simpl. destruct l as [|y l0]; [destruct Hmin as [[] _]|]. exists x. split; [reflexivity|exact Hmin].
        * simpl. apply IH; simpl; [exact Ho'|lia|].
          apply Permutation_sym, remove_one_perm.
          eapply perm_trans; [apply Permutation_sym, Hp|exact Hp'].
      + apply zget0_nil in E0. rewrite hstep_pop_empty in Es by exact E0.
        injection Es as <- <-. rewrite E0 in Hp. apply Permutation_nil in Hp. subst l.
        split; [reflexivity|]. simpl. apply IH; try assumption. rewrite E0. apply Permutation_refl.
    - apply Hsame; [exact I|]. rewrite hstep_peek in Es. injection Es as _ <-.
      simpl. destruct (zget (ha (hh s)) 0) as [x|] eqn:E0.
      + assert (Hmin : is_min less x l).
        { eapply is_min_perm; [exact Hp|]. apply root_is_min; assumption. }
        destruct l as [|y l0]; [destruct Hmin as [[] _]|]. exists x. split; [reflexivity|exact Hmin].
      + apply zget0_nil in E0. rewrite E0 in Hp. apply Permutation_nil in Hp. subst l. reflexivity.
    - apply Hsame; [exact I|]. simpl in Es. injection Es as _ <-. simpl.
      unfold len. apply Permutation_length in Hp. unfold zlen. rewrite Hp. reflexivity.
    - apply Hsame; [exact I|]. simpl in Es. unfold grow in Es. simpl.
      destruct (n <? 0); injection Es as _ <-; reflexivity.
    - apply Hsame; [exact I|]. simpl in Es. unfold shrink in Es. simpl.
      destruct (n <? 0); injection Es as _ <-; reflexivity.
    - apply Hsame; [exact I|]. simpl in Es. injection Es as _ <-. reflexivity.
    - apply Hsame; exact I.
    - apply Hsame; [exact I|]. simpl in Es.
      rewrite iterate_all_unchanged in Es by lia. injection Es as _ <-.
      simpl. exists (ha (hh s)). split; [reflexivity|exact Hp].
  Qed.

  Lemma heap_refines_multiset initial ops : hspec_run less initial ops (hrun initial ops).
  Proof.
    rewrite hrun_eq. destruct (hinit_eq initial) as [h [_ [E [Hg [Hp Ho]]]]]. rewrite E.
    apply hspec_from; simpl; [apply Ho; exact SWO|lia|apply Permutation_sym; exact Hp].
  Qed.

  (* the ghost multiset really is the contents, and Len is its size, after every history *)
  Lemma hms_from : forall ops s l,
      ho (ha (hh s)) -> Permutation (ha (hh s)) l ->
      Permutation (ha (hh (hrun_state_from s ops))) (ms_run l ops (hrun_from s ops)).
  Proof.
    induction ops as [|o ops IH]; intros s l Ho Hp; simpl; [exact Hp|].
    destruct (hstep s o) as [s' r] eqn:Es. simpl.
    assert (Ho' : ho (ha (hh s'))).
    { replace s' with (fst (hstep s o)) by (rewrite Es; reflexivity). apply hstep_ordered. exact Ho. }
    apply IH; [exact Ho'|].
    assert (Hsame : match o with HPush _ | HPop => False | _ => True end ->
                    Permutation (ha (hh s')) (ms_step l o r)).
    { intros Hk.
      replace s' with (fst (hstep s o)) by (rewrite Es; reflexivity).
      rewrite hstep_hh_same by exact Hk.
      replace (ms_step l o r) with l by (destruct o; try reflexivity; destruct Hk).
      exact Hp. }
    destruct o; try (apply Hsame; exact I).
    - destruct (hstep_push s x) as [h' [E [_ [Hp' _]]]]. rewrite E in Es.
      injection Es as <- <-. simpl.
      eapply perm_trans; [apply Permutation_sym, Hp'|apply perm_skip, Hp].
    - destruct (zget (ha (hh s)) 0) as [x|] eqn:E0.
      + destruct (hstep_pop s x E0) as [h' [E [_ [Hp' _]]]]. rewrite E in Es.
        injection Es as <- <-. simpl.
        apply Permutation_sym, remove_one_perm.
        eapply perm_trans; [apply Permutation_sym, Hp|exact Hp'].
      + apply zget0_nil in E0. rewrite hstep_pop_empty in Es by exact E0.
        injection Es as <- <-. exact Hp.
  Qed.

  Lemma heap_contents_multiset initial ops :
    Permutation (ha (hh (hrun_state initial ops))) (ms_run initial ops (hrun initial ops)).
  Proof.
    rewrite hrun_eq. unfold Model.hrun_state.
    destruct (hinit_eq initial) as [h [_ [E [_ [Hp Ho]]]]]. rewrite E.
    apply hms_from; simpl; [apply Ho; exact SWO|apply Permutation_sym; exact Hp].
  Qed.

  Lemma heap_empty_panics initial ops :
    let s := hrun_state initial ops in
    (snd (hstep s HPop) = OPanic <-> ha (hh s) = []) /\
    (snd (hstep s HPeek) = OPanic <-> ha (hh s) = []) /\
    (snd (hstep s HPop) = OPanic -> fst (hstep s HPop) = s) /\
    fst (hstep s HPeek) = s.
  Proof.
    intros s.
    assert (Hpop : snd (hstep s HPop) = OPanic <-> ha (hh s) = []).
    { destruct (zget (ha (hh s)) 0) as [x|] eqn:E0.
      - destruct (hstep_pop s x E0) as [h' [E _]]. rewrite E. simpl.
        split; [discriminate|]. intros En. rewrite En in E0. discriminate.
      - apply zget0_nil in E0. rewrite hstep_pop_empty by exact E0. simpl. tauto. }
    split; [exact Hpop|]. split; [|split].
    - rewrite hstep_peek. simpl. destruct (zget (ha (hh s)) 0) as [x|] eqn:E0.
      + split; [discriminate|]. intros En. rewrite En in E0. discriminate.
      + apply zget0_nil in E0. tauto.
    - intros Hp. apply Hpop in Hp. rewrite hstep_pop_empty by exact Hp. reflexivity.
    - rewrite hstep_peek. reflexivity.
  Qed.
  (* popping until empty returns everything, in non-decreasing order *)
  Lemma heap_drain_from : forall n s,
      ho (ha (hh s)) -> length (ha (hh s)) = n ->
      exists xs, hrun_from s (repeat HPop n) = map OVal xs /\
                 Permutation xs (ha (hh s)) /\ nondecreasing less xs /\
                 ha (hh (hrun_state_from s (repeat HPop n))) = [].
  Proof.
    induction n as [|n IH]; intros s Ho Hlen.
    - exists []. simpl. split; [reflexivity|].
      destruct (ha (hh s)); [|discriminate]. repeat split; constructor.
    - destruct (zget (ha (hh s)) 0) as [x|] eqn:E0;
        [|apply zget0_nil in E0; rewrite E0 in Hlen; discriminate].
      destruct (hstep_pop s x E0) as [h' [E [_ [Hp Ho']]]].
      assert (Hlen' : length (ha h') = n).
      { apply Permutation_length in Hp. simpl in Hp. lia. }
      destruct (IH (mkHst h' (hits s)) (Ho' SWO Ho) Hlen') as [xs [Hrun [Hpx [Hsort Hemp]]]].
      exists (x :: xs). change (repeat HPop (S n)) with (HPop :: repeat HPop n).
      cbn [Model.hrun_from Model.hrun_state_from]. rewrite E. cbn [fst map].
      split; [rewrite Hrun; reflexivity|].
      split; [eapply perm_trans; [apply perm_skip; exact Hpx|apply Permutation_sym; exact Hp]|].
      split; [|exact Hemp].
      constructor; [exact Hsort|].
      apply Forall_forall. intros y Hy.
      destruct (root_is_min (ha (hh s)) x Ho E0) as [_ Hmin]. apply Hmin.
      eapply Permutation_in; [apply Permutation_sym; exact Hp|].
      right. eapply Permutation_in; [exact Hpx|exact Hy].
  Qed.

  Lemma heap_drain_sorted initial ops :
    let s := hrun_state initial ops in
    let n := length (ha (hh s)) in
    exists xs, hrun_from s (repeat HPop n) = map OVal xs /\
               Permutation xs (ha (hh s)) /\ nondecreasing less xs /\
               ha (hh (hrun_state_from s (repeat HPop n))) = [].
  Proof.
    intros s n. apply heap_drain_from; [apply heap_ordered_reach|reflexivity].
  Qed.
End HeapHist.

(* ---------- xheap.PriorityQueue[int,int]: gen and iterators (C15) ---------- *)
Section QueueIter.
  Variable pless : Z -> Z -> bool.

  Notation qstep := (qstep pless).
  Notation qinit := (qinit pless).
  Notation qrun_state := (qrun_state pless).
  Notation kpl := (@kpless Z Z pless).
  Notation kpi := (@kp_index Z Z Z.eqb).

  Lemma qnew_ok initial :
    exists q, qnew pless initial = Ok q /\ hgen q = 0.
  Proof.
    unfold qnew, pq_new. destruct (pq_filter Z.eqb initial [] []) as [m filtered].
    destruct (new_spec kpl kpi filtered m) as [c1 [_ [E _]]].
    eexists. split; [exact E|reflexivity].
  Qed.

  Lemma qinit_eq initial :
    exists q, qnew pless initial = Ok q /\ qinit initial = mkQst q [] /\ hgen q = 0.
  Proof.
    destruct (qnew_ok initial) as [q [E Hg]]. exists q. unfold Model.qinit. rewrite E. auto.
  Qed.

  Lemma pq_update_gen k p (q q' : zpq) :
    pq_update Z.eqb pless k p q = Ok q' -> hgen q' = hgen q + 1.
  Proof.
    unfold pq_update. destruct (m_get Z.eqb (hs q) k) as [idx|]; intros E.
    - apply update_at_gen in E. exact E.
    - apply push_gen in E. exact E.
  Qed.

  Lemma pq_pop_gen (q q' : zpq) k :
    pq_pop Z.eqb 0 0 pless q = Ok (k, q') -> hgen q' = hgen q + 1.
  Proof.
    unfold pq_pop. destruct (pop (kpzero 0 0) kpl kpi q) as [[x q1]|c] eqn:E; simpl; intros E'.
    - injection E' as _ <-. simpl. apply pop_gen in E. exact E.
    - discriminate.
  Qed.

  Lemma pq_remove_gen k (q q' : zpq) :
    pq_remove Z.eqb 0 0 pless k q = Ok q' ->
    (pq_contains Z.eqb k q = false /\ q' = q) \/
    (pq_contains Z.eqb k q = true /\ hgen q' = hgen q + 1).
  Proof.
    unfold pq_remove, pq_contains. destruct (m_get Z.eqb (hs q) k) as [i|]; intros E.
    - right. split; [reflexivity|].
      destruct (remove_at (kpzero 0 0) kpl kpi i q) as [q1|c] eqn:E1; simpl in E; [|discriminate].
      injection E as <-. simpl. apply remove_at_gen in E1. exact E1.
    - left. injection E as <-. auto.
  Qed.

  (* the queue (not the iterators) after a step *)
  Lemma qstep_qq_gen s o :
    hgen (qq s) <= hgen (qq (fst (qstep s o))) /\
    (q_modifies s o = true -> snd (qstep s o) <> OPanic ->
     hgen (qq (fst (qstep s o))) = hgen (qq s) + 1).
  Proof.
    destruct o; cbv beta iota zeta delta [Model.qstep q_modifies].
    - destruct (pq_update Z.eqb pless k p (qq s)) as [q'|c] eqn:E; simpl.
      + apply pq_update_gen in E. lia.
      + split; [lia|]. intros _ H. congruence.
    - destruct (pq_pop Z.eqb 0 0 pless (qq s)) as [[k q']|c] eqn:E; simpl.
      + apply pq_pop_gen in E. lia.
      + split; [lia|]. intros _ H. congruence.
    - destruct (pq_peek (qq s)); simpl; split; try lia; discriminate.
    - simpl. split; [lia|discriminate].
    - destruct (pq_priority Z.eqb 0 k (qq s)); simpl; split; try lia; discriminate.
    - destruct (pq_remove Z.eqb 0 0 pless k (qq s)) as [q'|c] eqn:E; simpl.
      + apply pq_remove_gen in E. destruct E as [[Ec ->]|[Ec Eg]]; rewrite Ec.
        * split; [lia|discriminate].
        * split; [lia|]. intros _ _. exact Eg.
      + split; [lia|]. intros _ H. congruence.
    - simpl. split; [lia|discriminate].
    - unfold pq_grow, grow. destruct (n <? 0); simpl; split; try lia; discriminate.
    - simpl. split; [lia|discriminate].
    - destruct (nth_error (qits s) j); [|simpl; split; [lia|discriminate]].
      destruct (pq_iter_next (qq s) h). simpl. split; [lia|discriminate].
    - destruct (pq_iterate_all (qq s)) as [[l|c]|]; simpl; split; try lia; discriminate.
  Qed.

  Lemma qstep_its_same s o :
    match o with QIterNew | QIterNext _ => False | _ => True end ->
    qits (fst (qstep s o)) = qits s.
  Proof.
    intros Hk. destruct o; try destruct Hk; simpl.
    - destruct (pq_update Z.eqb pless k p (qq s)); reflexivity.
    - destruct (pq_pop Z.eqb 0 0 pless (qq s)) as [[k q']|c]; reflexivity.
    - destruct (pq_peek (qq s)); reflexivity.
    - reflexivity.
    - destruct (pq_priority Z.eqb 0 k (qq s)); reflexivity.
    - destruct (pq_remove Z.eqb 0 0 pless k (qq s)); reflexivity.
    - reflexivity.
    - destruct (pq_grow n (qq s)); reflexivity.
    - destruct (pq_iterate_all (qq s)) as [[l|c]|]; reflexivity.
  Qed.

  Lemma pq_iter_next_eq (q : zpq) it :
    pq_iter_next q it =
    (match fst (iter_next q it) with
     | Ok (Some x) => Ok (Some (fst x)) | Ok None => Ok None | Panic c => Panic c end,
     snd (iter_next q it)).
  Proof. unfold pq_iter_next. destruct (iter_next q it) as [r it']. reflexivity. Qed.

  Lemma qstep_iter_next s j :
    qstep s (QIterNext j) =
    match nth_error (qits s) j with
    | None => (s, OBad)
    | Some it => (mkQst (qq s) (upd (qits s) j (snd (iter_next (qq s) it))),
                  out_of fst (fst (iter_next (qq s) it)))
    end.
  Proof.
    simpl. destruct (nth_error (qits s) j) as [it|]; [|reflexivity].
    rewrite pq_iter_next_eq. destruct (iter_next (qq s) it) as [[[x|]|c] it']; reflexivity.
  Qed.

  Definition qgen_inv (s : qst) : Prop :=
    0 <= hgen (qq s) /\ Forall (fun it => it_gen it <= hgen (qq s)) (qits s).

  Lemma qstep_gen_inv s o : qgen_inv s -> qgen_inv (fst (qstep s o)).
  Proof.
    intros [Hg Hits]. pose proof (qstep_qq_gen s o) as [Hle _].
    assert (Hother : match o with QIterNew | QIterNext _ => False | _ => True end ->
                     qgen_inv (fst (qstep s o))).
    { intros Hk. split; [lia|]. rewrite qstep_its_same by exact Hk.
      eapply Forall_impl; [|exact Hits]. simpl. intros it Hit. lia. }
    destruct o; try (apply Hother; exact I).
    - simpl. split; [exact Hg|]. apply Forall_app. split; [exact Hits|].
      constructor; [simpl; lia|constructor].
    - rewrite qstep_iter_next. destruct (nth_error (qits s) j) as [it|] eqn:Ej; [|split; assumption].
      simpl. split; [exact Hg|]. apply Forall_upd; [exact Hits|].
      apply iter_next_gen_le. rewrite Forall_forall in Hits. apply Hits.
      eapply nth_error_In; eassumption.
  Qed.

  Lemma qinit_gen_inv initial : qgen_inv (qinit initial).
  Proof.
    destruct (qinit_eq initial) as [q [_ [E Hg]]]. rewrite E. split; simpl; [lia|constructor].
  Qed.

  Lemma qreach_ind (Pr : qst -> Prop) initial :
    Pr (qinit initial) -> (forall s o, Pr s -> Pr (fst (qstep s o))) ->
    forall ops, Pr (qrun_state initial ops).
  Proof.
    intros H0 Hstep ops. unfold Model.qrun_state. generalize (qinit initial) H0.
    induction ops as [|o ops IH]; intros s Hs; simpl; [exact Hs|].
    apply IH. apply Hstep. exact Hs.
  Qed.

  Lemma qgen_inv_reach initial ops : qgen_inv (qrun_state initial ops).
  Proof. apply qreach_ind; [apply qinit_gen_inv|intros s o; apply qstep_gen_inv]. Qed.

  Lemma pq_drain_eq (q : zpq) : forall fuel it,
      pq_drain fuel q it =
      match drain fuel q it with
      | Some (Ok l) => Some (Ok (map fst l))
      | Some (Panic c) => Some (Panic c)
      | None => None
      end.
  Proof.
    induction fuel as [|fuel IH]; intros it; [reflexivity|].
    cbn [pq_drain drain]. rewrite pq_iter_next_eq.
    destruct (iter_next q it) as [[[x|]|c] it']; cbn [fst snd]; try reflexivity.
    rewrite IH. destruct (drain fuel q it') as [[l|c]|]; reflexivity.
  Qed.

  Lemma pq_iterate_all_unchanged (q : zpq) :
    hgen q <> -1 -> pq_iterate_all q = Some (Ok (map fst (ha q))).
  Proof.
    intros Hg. unfold pq_iterate_all. rewrite pq_drain_eq.
    fold (iterate_all q). rewrite iterate_all_unchanged by exact Hg. reflexivity.
  Qed.

  Lemma queue_iter_unchanged initial ops :
    let q := qq (qrun_state initial ops) in pq_iterate_all q = Some (Ok (map fst (ha q))).
  Proof.
    intros q. apply pq_iterate_all_unchanged.
    destruct (qgen_inv_reach initial ops) as [Hg _]. fold q in Hg. lia.
  Qed.

  Lemma queue_iter_add_remove_panics initial ops o it :
    let s := qrun_state initial ops in
    q_modifies s o = true ->
    snd (qstep s o) <> OPanic ->
    In it (qits (fst (qstep s o))) -> it_gen it <> -1 ->
    fst (pq_iter_next (qq (fst (qstep s o))) it) = Panic PModified.
  Proof.
    intros s Hmod Hnp Hin Hst.
    destruct (qgen_inv_reach initial ops) as [Hg Hits]. fold s in Hg, Hits.
    pose proof (qstep_qq_gen s o) as [_ Hplus]. specialize (Hplus Hmod Hnp).
    rewrite qstep_its_same in Hin by (destruct o; try exact I; discriminate Hmod).
    rewrite Forall_forall in Hits. specialize (Hits it Hin). simpl in Hits.
    rewrite pq_iter_next_eq. simpl.
    rewrite iter_next_modified; [reflexivity|exact Hst|lia].
  Qed.

  Definition qghost_inv (s : qst) (gs : list ghost) : Prop :=
    Forall2 (ginv fst (hgen (qq s))) (qits s) gs.

  Lemma qghost_step_inv s gs o :
    qgen_inv s -> qghost_inv s gs ->
    qghost_inv (fst (qstep s o)) (qghost_step pless s gs o).
  Proof.
    intros [Hg _] H. unfold qghost_inv in *.
    pose proof (qstep_qq_gen s o) as [Hle _].
    assert (Hother : match o with QIterNew | QIterNext _ => False | _ => True end ->
              Forall2 (ginv fst (hgen (qq (fst (qstep s o))))) (qits (fst (qstep s o)))
                      (qghost_step pless s gs o)).
    { intros Hk. rewrite qstep_its_same by exact Hk.
      replace (qghost_step pless s gs o) with gs by (destruct o; try reflexivity; destruct Hk).
      eapply Forall2_weaken; [|exact H]. intros it g. apply ginv_mono. exact Hle. }
    destruct o; try (apply Hother; exact I).
    - simpl. apply Forall2_snoc; [exact H|apply ginv_new].
    - unfold qghost_step. rewrite qstep_iter_next.
      destruct (nth_error (qits s) j) as [it|] eqn:Ej.
      + destruct (Forall2_nth_error_Some _ _ _ j it H Ej) as [g [Egj Hj]]. rewrite Egj.
        simpl. apply Forall2_upd; [exact H|].
        apply ginv_next; assumption.
      + rewrite (Forall2_nth_error_None _ _ _ j H Ej). exact H.
  Qed.

  Lemma qgrun_inv : forall ops s gs,
      qgen_inv s -> qghost_inv s gs ->
      qghost_inv (fst (qgrun pless s gs ops)) (snd (qgrun pless s gs ops)).
  Proof.
    induction ops as [|o ops IH]; intros s gs Hs Hgs; simpl; [exact Hgs|].
    apply IH; [apply qstep_gen_inv; exact Hs|apply qghost_step_inv; assumption].
  Qed.

  Lemma queue_iter_ghost_ok initial ops :
    Forall ghost_ok (snd (qgrun pless (qinit initial) [] ops)).
  Proof.
    pose proof (qgrun_inv ops (qinit initial) [] (qinit_gen_inv initial)) as H.
    eapply Forall2_Forall_r; [|apply H].
    - intros it g. apply ginv_ok.
    - destruct (qinit_eq initial) as [q [_ [E _]]]. rewrite E. constructor.
  Qed.
End QueueIter.

(* ---------- the index map of the priority queue ---------- *)
Section IndexMap.
  Notation mget := (m_get Z.eqb).
  Notation mset := (m_set Z.eqb).
  Notation mdel := (m_del Z.eqb).
  Notation kpi := (@kp_index Z Z Z.eqb).
  Notation zkp := (Z * Z)%type.
  Notation qcore := (core zkp (imap Z)).

  Lemma m_get_set k v m k' : mget (mset k v m) k' = if k' =? k then Some v else mget m k'.
  Proof.
    induction m as [|[k0 v0] r IH]; simpl.
    - destruct (k' =? k); reflexivity.
    - destruct (Z.eqb_spec k k0) as [->|Hne]; simpl.
      + destruct (k' =? k0); reflexivity.
      + destruct (Z.eqb_spec k' k0) as [->|Hne2].
        * destruct (Z.eqb_spec k0 k); [congruence|reflexivity].
        * exact IH.
  Qed.

  Lemma m_get_del k m k' : mget (mdel k m) k' = if k' =? k then None else mget m k'.
  Proof.
    induction m as [|[k0 v0] r IH]; simpl.
    - destruct (k' =? k); reflexivity.
    - destruct (Z.eqb_spec k k0) as [->|Hne]; simpl.
      + rewrite IH. destruct (k' =? k0); reflexivity.
      + destruct (Z.eqb_spec k' k0) as [->|Hne2].
        * destruct (Z.eqb_spec k0 k); [congruence|reflexivity].
        * exact IH.
  Qed.

  (* every array element is indexed correctly *)
  Definition tracks (a : list zkp) (m : imap Z) : Prop :=
    forall i x, zget a i = Some x -> mget m (fst x) = Some i.

  (* every indexed key is in the array, except the keys in E *)
  Definition dom_sub (a : list zkp) (m : imap Z) (E : Z -> Prop) : Prop :=
    forall k i, mget m k = Some i -> In k (map fst a) \/ E k.

  Lemma zget_of_nat {A} (l : list A) n : zget l (Z.of_nat n) = nth_error l n.
  Proof.
    unfold zget. destruct (Z.of_nat n <? 0) eqn:E; [apply Z.ltb_lt in E; lia|].
    rewrite Nat2Z.id. reflexivity.
  Qed.

  Lemma tracks_inj a m i j x y :
    tracks a m -> zget a i = Some x -> zget a j = Some y -> fst x = fst y -> i = j.
  Proof.
    intros Ht Hi Hj E. apply Ht in Hi. apply Ht in Hj. rewrite E in Hi. congruence.
  Qed.

  Lemma tracks_nodup a m : tracks a m -> NoDup (map fst a).
  Proof.
    intros Ht. apply NoDup_nth_error. intros i j Hi E.
    rewrite map_length in Hi.
    rewrite !nth_error_map in E.
    destruct (nth_error a i) as [x|] eqn:Ei; [|apply nth_error_None in Ei; lia].
    destruct (nth_error a j) as [y|] eqn:Ej; [|discriminate].
    simpl in E. injection E as E.
    rewrite <- zget_of_nat in Ei, Ej.
    pose proof (tracks_inj a m _ _ x y Ht Ei Ej E). lia.
  Qed.

  Lemma In_key_zget (a : list zkp) k : In k (map fst a) -> exists i p, zget a i = Some (k, p).
  Proof.
    intros H. apply in_map_iff in H. destruct H as [[k0 p] [E Hin]]. simpl in E. subst k0.
    apply In_zget in Hin. destruct Hin as [i Hi]. exists i, p. exact Hi.
  Qed.

  Lemma zget_In_key (a : list zkp) i x : zget a i = Some x -> In (fst x) (map fst a).
  Proof. intros H. apply in_map. eapply zget_In; exact H. Qed.

  Lemma exact_of_tracks a m :
    tracks a m -> dom_sub a m (fun _ => False) -> index_exact Z.eqb a m.
  Proof.
    intros Ht Hd. split; [|eapply tracks_nodup; exact Ht].
    intros k i. split.
    - intros Hm. destruct (Hd k i Hm) as [Hin|[]].
      apply In_key_zget in Hin. destruct Hin as [i' [p Hi']].
      pose proof (Ht i' (k, p) Hi') as Hm'. simpl in Hm'.
      assert (i' = i) by congruence. subst i'. exists p. exact Hi'.
    - intros [p Hp]. apply (Ht i (k, p) Hp).
  Qed.

  Lemma tracks_of_exact a m : index_exact Z.eqb a m -> tracks a m.
  Proof. intros [He _] i [k p] Hx. simpl. apply He. exists p. exact Hx. Qed.

  Lemma dom_of_exact a m E : index_exact Z.eqb a m -> dom_sub a m E.
  Proof.
    intros [He _] k i Hm. left. apply He in Hm. destruct Hm as [p Hp].
    apply (zget_In_key a i (k, p) Hp).
  Qed.

  (* preserved by swap (with its two notifications) *)
  Lemma tracks_swapc (c : qcore) i j x y :
    zget (fst c) i = Some x -> zget (fst c) j = Some y ->
    tracks (fst c) (snd c) -> tracks (fst (swapc kpi i j x y c)) (snd (swapc kpi i j x y c)).
  Proof.
    intros Hi Hj Ht k z Hz.
    rewrite (swapc_get kpi i j x y c k Hi Hj) in Hz.
    unfold swapc, kp_index. simpl snd. rewrite !m_get_set.
    destruct (Z.eqb_spec k j) as [->|Hkj].
    - injection Hz as <-. rewrite Z.eqb_refl. reflexivity.
    - destruct (Z.eqb_spec k i) as [->|Hki].
      + injection Hz as <-.
        destruct (Z.eqb_spec (fst y) (fst x)) as [E|E].
        * pose proof (tracks_inj _ _ _ _ _ _ Ht Hi Hj (eq_sym E)). lia.
        * rewrite Z.eqb_refl. reflexivity.
      + destruct (Z.eqb_spec (fst z) (fst x)) as [E|E].
        * pose proof (tracks_inj _ _ _ _ _ _ Ht Hz Hi E). lia.
        * destruct (Z.eqb_spec (fst z) (fst y)) as [E2|E2].
          -- pose proof (tracks_inj _ _ _ _ _ _ Ht Hz Hj E2). lia.
          -- apply Ht. exact Hz.
  Qed.

  Lemma dom_sub_swapc (c : qcore) i j x y E :
    zget (fst c) i = Some x -> zget (fst c) j = Some y ->
    dom_sub (fst c) (snd c) E -> dom_sub (fst (swapc kpi i j x y c)) (snd (swapc kpi i j x y c)) E.
  Proof.
    intros Hi Hj Hd k v Hm.
    assert (Hperm : forall k0, In k0 (map fst (fst c)) -> In k0 (map fst (fst (swapc kpi i j x y c)))).
    { intros k0. apply Permutation_in. apply Permutation_map, Permutation_sym.
      apply swapc_perm; assumption. }
    unfold swapc, kp_index in Hm. simpl snd in Hm. rewrite !m_get_set in Hm.
    destruct (Z.eqb_spec k (fst x)) as [->|E1].
    - left. apply Hperm. eapply zget_In_key; exact Hi.
    - destruct (Z.eqb_spec k (fst y)) as [->|E2].
      + left. apply Hperm. eapply zget_In_key; exact Hj.
      + destruct (Hd k v Hm) as [H|H]; [left; apply Hperm; exact H|right; exact H].
  Qed.

  Lemma swaps_tracks (c c' : qcore) E :
    swaps kpi c c' -> tracks (fst c) (snd c) /\ dom_sub (fst c) (snd c) E ->
    tracks (fst c') (snd c') /\ dom_sub (fst c') (snd c') E.
  Proof.
    intros Hs. apply (swaps_preserve kpi (fun c => tracks (fst c) (snd c) /\ dom_sub (fst c) (snd c) E));
      [|exact Hs].
    intros c0 i j x y Hi Hj [Ht Hd]. split; [apply tracks_swapc|apply dom_sub_swapc]; assumption.
  Qed.

  Lemma swaps_dom (c c' : qcore) E :
    swaps kpi c c' -> dom_sub (fst c) (snd c) E -> dom_sub (fst c') (snd c') E.
  Proof.
    intros Hs. apply (swaps_preserve kpi (fun c => dom_sub (fst c) (snd c) E)); [|exact Hs].
    intros c0 i j x y Hi Hj Hd. apply dom_sub_swapc; assumption.
  Qed.

  (* a[i] := x where a[i] already had key (fst x); notify(i) *)
  Lemma set_inv a m i k p p0 :
    index_exact Z.eqb a m -> zget a i = Some (k, p0) ->
    tracks (upd a (Z.to_nat i) (k, p)) (mset k i m) /\
    dom_sub (upd a (Z.to_nat i) (k, p)) (mset k i m) (fun _ => False).
  Proof.
    intros Hex Hi. pose proof (tracks_of_exact _ _ Hex) as Ht.
    pose proof (zget_Some_range _ _ _ Hi) as Ri.
    split.
    - intros j z Hz. rewrite m_get_set.
      destruct (Z.eq_dec j i) as [->|Hji].
      + rewrite zget_upd_same in Hz by lia. injection Hz as <-. simpl. rewrite Z.eqb_refl. reflexivity.
      + rewrite zget_upd_other in Hz by lia.
        destruct (Z.eqb_spec (fst z) k) as [E|E].
        * pose proof (tracks_inj _ _ _ _ z (k, p0) Ht Hz Hi E). lia.
        * apply Ht. exact Hz.
    - intros k' v Hm. left. rewrite m_get_set in Hm.
      destruct (Z.eqb_spec k' k) as [->|E].
      + apply (zget_In_key _ i (k, p)). apply zget_upd_same. lia.
      + destruct Hex as [He _]. apply He in Hm. destruct Hm as [p' Hp'].
        destruct (Z.eq_dec v i) as [->|Hvi]; [rewrite Hi in Hp'; congruence|].
        apply (zget_In_key _ v (k', p')). rewrite zget_upd_other by lia. exact Hp'.
  Qed.

  (* append a new key; notify(len-1) *)
  Lemma push_inv a m k p :
    index_exact Z.eqb a m -> mget m k = None ->
    tracks (a ++ [(k, p)]) (mset k (zlen a) m) /\
    dom_sub (a ++ [(k, p)]) (mset k (zlen a) m) (fun _ => False).
  Proof.
    intros Hex Hk. pose proof (tracks_of_exact _ _ Hex) as Ht. split.
    - intros j z Hz. rewrite m_get_set.
      pose proof (zget_Some_range _ _ _ Hz) as Rj. rewrite zlen_snoc in Rj.
      destruct (Z.eq_dec j (zlen a)) as [->|Hj].
      + rewrite zget_app_last in Hz. injection Hz as <-. simpl. rewrite Z.eqb_refl. reflexivity.
      + rewrite zget_app_l in Hz by lia.
        destruct (Z.eqb_spec (fst z) k) as [E|E].
        * apply Ht in Hz. rewrite E in Hz. congruence.
        * apply Ht. exact Hz.
    - intros k' v Hm. left. rewrite m_get_set in Hm. rewrite map_app, in_app_iff.
      destruct (Z.eqb_spec k' k) as [->|E]; [right; left; reflexivity|].
      left. destruct (dom_of_exact _ _ (fun _ => False) Hex k' v Hm) as [H|[]]. exact H.
  Qed.

  (* a[i] := last; truncate; notify(i) if i is still inside: everything but key k is indexed *)
  Lemma cut_inv a m i k p0 lst :
    index_exact Z.eqb a m -> zget a i = Some (k, p0) -> zget a (zlen a - 1) = Some lst ->
    let c3 := cut_core kpi a m i lst in
    tracks (fst c3) (snd c3) /\ dom_sub (fst c3) (snd c3) (fun k' => k' = k) /\
    ~ In k (map fst (fst c3)).
  Proof.
    intros Hex Hi Hl c3. pose proof (tracks_of_exact _ _ Hex) as Ht.
    pose proof (zget_Some_range _ _ _ Hi) as Ri.
    assert (Hnk : ~ In k (map fst (cut a i lst))).
    { pose proof (cut_perm a i (k, p0) lst Hi Hl) as Hp.
      destruct Hex as [_ Hnd]. apply (Permutation_map fst) in Hp.
      apply (Permutation_NoDup Hp) in Hnd. simpl in Hnd. inversion Hnd; assumption. }
    unfold c3, cut_core. simpl fst. simpl snd.
    destruct (i <? zlen a - 1) eqn:Ei.
    - apply Z.ltb_lt in Ei. unfold kp_index. split; [|split; [|exact Hnk]].
      + intros j z Hz. rewrite m_get_set.
        pose proof (zget_Some_range _ _ _ Hz) as Rj. rewrite cut_len in Rj by lia.
        destruct (Z.eq_dec j i) as [->|Hji].
        * rewrite cut_get_i in Hz by lia. injection Hz as <-. rewrite Z.eqb_refl. reflexivity.
        * apply cut_get in Hz; [|lia|exact Hji].
          destruct (Z.eqb_spec (fst z) (fst lst)) as [E|E].
          -- pose proof (tracks_inj _ _ _ _ _ _ Ht Hz Hl E). lia.
          -- apply Ht. exact Hz.
      + intros k' v Hm. rewrite m_get_set in Hm.
        destruct (Z.eqb_spec k' (fst lst)) as [->|E].
        * left. apply (zget_In_key _ i lst). apply cut_get_i. lia.
        * destruct Hex as [He _]. apply He in Hm. destruct Hm as [p' Hp'].
          pose proof (zget_Some_range _ _ _ Hp') as Rv.
          destruct (Z.eq_dec v i) as [->|Hvi]; [right; rewrite Hi in Hp'; congruence|].
          destruct (Z.eq_dec v (zlen a - 1)) as [->|Hvl];
            [rewrite Hl in Hp'; injection Hp' as ->; simpl in E; congruence|].
          left. apply (zget_In_key _ v (k', p')).
          unfold cut. rewrite zget_firstn by lia. rewrite zget_upd_other by lia. exact Hp'.
    - apply Z.ltb_ge in Ei. assert (Eil : i = zlen a - 1) by lia. subst i.
      split; [|split; [|exact Hnk]].
      + intros j z Hz. rewrite cut_last in Hz. apply zget_firstn_Some in Hz. apply Ht. exact Hz.
      + intros k' v Hm. destruct Hex as [He _]. apply He in Hm. destruct Hm as [p' Hp'].
        pose proof (zget_Some_range _ _ _ Hp') as Rv.
        destruct (Z.eq_dec v (zlen a - 1)) as [->|Hvl]; [right; rewrite Hi in Hp'; congruence|].
        left. apply (zget_In_key _ v (k', p')). rewrite cut_last.
        rewrite zget_firstn by lia. exact Hp'.
  Qed.

  Lemma finish_del a m k :
    tracks a m -> dom_sub a m (fun k' => k' = k) -> ~ In k (map fst a) ->
    index_exact Z.eqb a (mdel k m).
  Proof.
    intros Ht Hd Hnk. apply exact_of_tracks.
    - intros i x Hx. rewrite m_get_del.
      destruct (Z.eqb_spec (fst x) k) as [E|E].
      + exfalso. apply Hnk. rewrite <- E. eapply zget_In_key; exact Hx.
      + apply Ht. exact Hx.
    - intros k' v Hm. rewrite m_get_del in Hm.
      destruct (Z.eqb_spec k' k) as [E|E]; [discriminate|].
      destruct (Hd k' v Hm) as [H|H]; [left; exact H|congruence].
  Qed.

  (* the notification loop at the end of New *)
  Lemma notified_other : forall (l : list zkp) i m k,
      ~ In k (map fst l) -> mget (notified kpi l i m) k = mget m k.
  Proof.
    induction l as [|x r IH]; intros i m k Hk; [reflexivity|].
    simpl. rewrite IH by (intros H; apply Hk; right; exact H).
    unfold kp_index. rewrite m_get_set.
    destruct (Z.eqb_spec k (fst x)) as [->|E]; [exfalso; apply Hk; left; reflexivity|reflexivity].
  Qed.

  Lemma notified_nth : forall (l : list zkp) i m n x,
      NoDup (map fst l) -> nth_error l n = Some x ->
      mget (notified kpi l i m) (fst x) = Some (i + Z.of_nat n).
  Proof.
    induction l as [|y r IH]; intros i m n x Hnd Hn; [destruct n; discriminate|].
    simpl in Hnd. inversion Hnd as [|k0 l0 Hnotin Hnd']; subst.
    destruct n as [|n]; simpl in Hn.
    - injection Hn as ->. simpl. rewrite notified_other by exact Hnotin.
      unfold kp_index. rewrite m_get_set, Z.eqb_refl. f_equal. lia.
    - simpl. rewrite (IH (i + 1) _ n x Hnd' Hn). f_equal. lia.
  Qed.

  Lemma notified_inv (a : list zkp) m :
    NoDup (map fst a) -> dom_sub a m (fun _ => False) ->
    index_exact Z.eqb a (notified kpi a 0 m).
  Proof.
    intros Hnd Hd. apply exact_of_tracks.
    - intros i x Hx. pose proof (zget_Some_range _ _ _ Hx) as Ri.
      apply zget_nth_error in Hx.
      rewrite (notified_nth a 0 m (Z.to_nat i) x Hnd Hx). f_equal. lia.
    - intros k v Hm.
      destruct (in_dec Z.eq_dec k (map fst a)) as [Hin|Hnin]; [left; exact Hin|].
      rewrite notified_other in Hm by exact Hnin. exact (Hd k v Hm).
  Qed.
End IndexMap.

(* ---------- association lists (the ideal map) ---------- *)
Lemma filter_perm {A} (f : A -> bool) (l l' : list A) :
  Permutation l l' -> Permutation (filter f l) (filter f l').
Proof.
  intros H. induction H as [|x l l' H IH|x y l|l l' l'' H1 IH1 H2 IH2]; simpl.
  - apply perm_nil.
  - destruct (f x); [apply perm_skip|]; exact IH.
  - destruct (f x), (f y); try apply Permutation_refl. apply perm_swap.
  - eapply perm_trans; eassumption.
Qed.

Lemma i_get_None k l : i_get k l = None <-> ~ In k (map fst l).
Proof.
  induction l as [|[k0 p0] r IH]; simpl; [tauto|].
  destruct (Z.eqb_spec k k0) as [->|Hne].
  - split; [discriminate|]. intros H. exfalso. apply H. left. reflexivity.
  - rewrite IH. split; [intros H [E|Hin]; [congruence|auto]|intros H Hin; apply H; right; exact Hin].
Qed.

Lemma i_get_In k p l : NoDup (map fst l) -> (i_get k l = Some p <-> In (k, p) l).
Proof.
  induction l as [|[k0 p0] r IH]; intros Hnd; simpl; [split; [discriminate|tauto]|].
  simpl in Hnd. inversion Hnd as [|k1 l1 Hnotin Hnd']; subst.
  destruct (Z.eqb_spec k k0) as [->|Hne].
  - split.
    + intros E. injection E as ->. left. reflexivity.
    + intros [E|Hin]; [injection E as ->; reflexivity|].
      exfalso. apply Hnotin. apply (in_map fst) in Hin. exact Hin.
  - rewrite (IH Hnd'). split; [intros H; right; exact H|intros [E|H]; [congruence|exact H]].
Qed.

Lemma i_get_remove k k0 l : i_get k (i_remove k0 l) = if k =? k0 then None else i_get k l.
Proof.
  induction l as [|[k1 p1] r IH]; simpl.
  - destruct (k =? k0); reflexivity.
  - destruct (Z.eqb_spec k0 k1) as [->|Hne]; simpl.
    + rewrite IH. destruct (Z.eqb_spec k k1); reflexivity.
    + rewrite IH. destruct (Z.eqb_spec k k1) as [->|Hne2]; [|reflexivity].
      destruct (Z.eqb_spec k1 k0); [congruence|reflexivity].
Qed.

Lemma i_get_app k l x :
  i_get k (l ++ [x]) =
  match i_get k l with Some p => Some p | None => if k =? fst x then Some (snd x) else None end.
Proof.
  induction l as [|[k1 p1] r IH]; simpl.
  - destruct x as [k0 p0]. simpl. reflexivity.
  - destruct (k =? k1); [reflexivity|exact IH].
Qed.

Lemma keys_filter (f : Z * Z -> bool) l k : In k (map fst (filter f l)) -> In k (map fst l).
Proof.
  intros H. apply in_map_iff in H. destruct H as [x [E Hin]]. apply filter_In in Hin.
  apply in_map_iff. exists x. tauto.
Qed.

Lemma nodup_filter_keys (f : Z * Z -> bool) l :
  NoDup (map fst l) -> NoDup (map fst (filter f l)).
Proof.
  induction l as [|x r IH]; intros H; simpl; [constructor|].
  simpl in H. inversion H as [|k0 l0 Hnotin Hnd]; subst.
  destruct (f x); simpl; [constructor|]; auto.
  intros Hin. apply Hnotin. eapply keys_filter; exact Hin.
Qed.

Lemma i_remove_notin k l : ~ In k (map fst l) -> i_remove k l = l.
Proof.
  induction l as [|[k0 p0] r IH]; intros H; simpl; [reflexivity|].
  destruct (Z.eqb_spec k k0) as [->|Hne]; simpl.
  - exfalso. apply H. left. reflexivity.
  - f_equal. apply IH. intros Hin. apply H. right. exact Hin.
Qed.

Lemma i_remove_key k l : ~ In k (map fst (i_remove k l)).
Proof. rewrite <- i_get_None. rewrite i_get_remove, Z.eqb_refl. reflexivity. Qed.

Lemma i_remove_perm_cons k p l r :
  NoDup (map fst l) -> Permutation l ((k, p) :: r) -> Permutation (i_remove k l) r.
Proof.
  intros Hnd Hp.
  assert (Hnd' : NoDup (map fst ((k, p) :: r))).
  { eapply Permutation_NoDup; [apply Permutation_map; exact Hp|exact Hnd]. }
  simpl in Hnd'. inversion Hnd' as [|k0 l0 Hnotin _]; subst.
  eapply perm_trans; [apply filter_perm; exact Hp|].
  simpl. rewrite Z.eqb_refl. simpl. fold (i_remove k r). rewrite i_remove_notin by exact Hnotin.
  apply Permutation_refl.
Qed.

Lemma nodup_key_split k p l :
  NoDup (map fst l) -> In (k, p) l -> Permutation l ((k, p) :: i_remove k l).
Proof.
  induction l as [|[k0 p0] r IH]; intros Hnd Hin; [destruct Hin|].
  simpl in Hnd. inversion Hnd as [|k1 l1 Hnotin Hnd']; subst. simpl.
  destruct (Z.eqb_spec k k0) as [->|Hne]; simpl.
  - destruct Hin as [E|Hin].
    + injection E as ->. fold (i_remove k0 r). rewrite i_remove_notin by exact Hnotin.
      apply Permutation_refl.
    + exfalso. apply Hnotin. apply (in_map fst) in Hin. exact Hin.
  - destruct Hin as [E|Hin]; [congruence|].
    eapply perm_trans; [apply perm_skip, (IH Hnd' Hin)|apply perm_swap].
Qed.

Lemma same_map_perm l1 l2 :
  NoDup (map fst l1) -> NoDup (map fst l2) -> (forall k, i_get k l1 = i_get k l2) ->
  Permutation l1 l2.
Proof.
  intros H1 H2 Hget. apply NoDup_Permutation.
  - eapply NoDup_map_inv; exact H1.
  - eapply NoDup_map_inv; exact H2.
  - intros [k p]. rewrite <- (i_get_In k p l1 H1), <- (i_get_In k p l2 H2), Hget. tauto.
Qed.

Lemma first_occ_get k l : i_get k (first_occ l) = i_get k l.
Proof.
  induction l as [|[k0 p0] r IH]; simpl; [reflexivity|].
  destruct (Z.eqb_spec k k0) as [->|Hne]; [reflexivity|].
  rewrite i_get_remove. destruct (Z.eqb_spec k k0); [congruence|exact IH].
Qed.

Lemma first_occ_nodup l : NoDup (map fst (first_occ l)).
Proof.
  induction l as [|[k0 p0] r IH]; simpl; constructor.
  - apply i_remove_key.
  - apply nodup_filter_keys. exact IH.
Qed.

(* the de-duplicating loop of NewPriorityQueue *)
Definition filt_inv (m : imap Z) (acc : list (Z * Z)) : Prop :=
  NoDup (map fst acc) /\ (forall k, m_get Z.eqb m k = None <-> ~ In k (map fst acc)).

Lemma pq_filter_spec : forall l m acc,
    filt_inv m acc ->
    filt_inv (fst (pq_filter Z.eqb l m acc)) (snd (pq_filter Z.eqb l m acc)) /\
    forall k, i_get k (snd (pq_filter Z.eqb l m acc)) =
              match i_get k acc with Some p => Some p | None => i_get k l end.
Proof.
  induction l as [|[k0 p0] r IH]; intros m acc [Hnd Hdom]; simpl.
  - split; [split; assumption|]. intros k. destruct (i_get k acc); reflexivity.
  - destruct (m_get Z.eqb m k0) as [v|] eqn:Em.
    + destruct (IH m acc (conj Hnd Hdom)) as [HJ Hget]. split; [exact HJ|].
      intros k. rewrite Hget. destruct (i_get k acc) as [p|] eqn:Eg; [reflexivity|].
      destruct (Z.eqb_spec k k0) as [->|Hne]; [|reflexivity].
      exfalso. apply i_get_None in Eg. apply Hdom in Eg. congruence.
    + assert (HJ : filt_inv (m_set Z.eqb k0 (-1) m) (acc ++ [(k0, p0)])).
      { split.
        - eapply Permutation_NoDup; [apply Permutation_map, Permutation_cons_append|].
          simpl. constructor; [apply Hdom; exact Em|exact Hnd].
        - intros k. rewrite m_get_set, map_app, in_app_iff. simpl.
          destruct (Z.eqb_spec k k0) as [->|Hne].
          + split; [discriminate|]. intros H. exfalso. apply H. right. left. reflexivity.
          + rewrite Hdom. split; [intros H [Hin|[E|[]]]; [auto|congruence]|intros H Hin; apply H; left; exact Hin]. }
      destruct (IH _ _ HJ) as [HJ' Hget]. split; [exact HJ'|].
      intros k. rewrite Hget, i_get_app. simpl.
      destruct (i_get k acc); [reflexivity|]. destruct (k =? k0); reflexivity.
Qed.

(* ---------- xheap.PriorityQueue[int,int]: index map, heap order, refinement (C05) ---------- *)
Section QueueHist.
  Variable pless : Z -> Z -> bool.
  Hypothesis SWO : strict_weak pless.

  Notation qstep := (qstep pless).
  Notation qinit := (qinit pless).
  Notation qrun := (qrun pless).
  Notation qrun_from := (qrun_from pless).
  Notation qrun_state := (qrun_state pless).
  Notation qrun_state_from := (qrun_state_from pless).
  Notation kpl := (@kpless Z Z pless).
  Notation kpi := (@kp_index Z Z Z.eqb).
  Notation mget := (m_get Z.eqb).

  Lemma kpless_swo : strict_weak kpl.
  Proof.
    destruct SWO as [H1 [H2 H3]]. unfold kpless. split; [|split].
    - intros a. apply H1.
    - intros a b c. apply H2.
    - intros a b c. apply H3.
  Qed.

  Definition qinv (q : zpq) : Prop :=
    index_exact Z.eqb (ha q) (hs q) /\ heap_ordered kpl (ha q).

  Lemma exact_key_in (q : zpq) k i : index_exact Z.eqb (ha q) (hs q) ->
    mget (hs q) k = Some i -> exists p, zget (ha q) i = Some (k, p).
  Proof. intros [He _] H. apply He. exact H. Qed.

  Lemma exact_key_notin (q : zpq) k : index_exact Z.eqb (ha q) (hs q) ->
    mget (hs q) k = None -> ~ In k (map fst (ha q)).
  Proof.
    intros [He _] H Hin. apply In_key_zget in Hin. destruct Hin as [i [p Hp]].
    assert (Hm : mget (hs q) k = Some i) by (apply He; exists p; exact Hp). congruence.
  Qed.

  Lemma pq_update_spec (q : zpq) k p :
    qinv q ->
    exists q', pq_update Z.eqb pless k p q = Ok q' /\ qinv q' /\
               Permutation (ha q') ((k, p) :: i_remove k (ha q)).
  Proof.
    intros [Hex Ho]. unfold pq_update. destruct (mget (hs q) k) as [idx|] eqn:Em.
    - destruct (exact_key_in q k idx Hex Em) as [p0 Hp0].
      destruct (update_at_spec kpl kpi q idx (k, p) (k, p0) Hp0) as [c' [E [Hs Ho']]].
      eexists. split; [exact E|]. simpl.
      destruct (set_inv (ha q) (hs q) idx k p p0 Hex Hp0) as [Ht Hd].
      destruct (swaps_tracks _ c' (fun _ => False) Hs (conj Ht Hd)) as [Ht' Hd'].
      pose proof (exact_of_tracks _ _ Ht' Hd') as Hex'.
      split; [split; [exact Hex'|apply Ho'; [exact kpless_swo|exact Ho]]|].
      apply swaps_perm in Hs. simpl in Hs.
      set (U := upd (ha q) (Z.to_nat idx) (k, p)) in *.
      assert (HndU : NoDup (map fst U)).
      { eapply Permutation_NoDup; [apply Permutation_map, Permutation_sym; exact Hs|exact (proj2 Hex')]. }
      assert (HinU : In (k, p) U).
      { apply (zget_In U idx). apply zget_upd_same. apply zget_Some_range in Hp0. exact Hp0. }
      assert (Hrem : Permutation (i_remove k (ha q)) (i_remove k U)).
      { pose proof (perm_upd (ha q) (Z.to_nat idx) (k, p0) (k, p) (zget_nth_error _ _ _ Hp0)) as Hpu.
        apply (filter_perm (fun x => negb (k =? fst x))) in Hpu. simpl in Hpu.
        rewrite Z.eqb_refl in Hpu. simpl in Hpu. exact Hpu. }
      eapply perm_trans; [apply Permutation_sym; exact Hs|].
      eapply perm_trans; [apply (nodup_key_split k p U HndU HinU)|].
      apply perm_skip, Permutation_sym. exact Hrem.
    - destruct (push_spec kpl kpi (k, p) q) as [c' [E [Hs Ho']]].
      eexists. split; [exact E|]. simpl.
      destruct (push_inv (ha q) (hs q) k p Hex Em) as [Ht Hd].
      destruct (swaps_tracks _ c' (fun _ => False) Hs (conj Ht Hd)) as [Ht' Hd'].
      split; [split; [apply exact_of_tracks; assumption|apply Ho'; [exact kpless_swo|exact Ho]]|].
      apply swaps_perm in Hs. simpl in Hs.
      rewrite i_remove_notin by (apply exact_key_notin; assumption).
      eapply perm_trans; [apply Permutation_sym; exact Hs|].
      apply Permutation_sym, Permutation_cons_append.
  Qed.

  (* what Pop and Remove share: cut, percolate, delete the key *)
  Lemma after_cut (q : zpq) i k p0 lst (c' : core (Z * Z) (imap Z)) :
    qinv q -> zget (ha q) i = Some (k, p0) -> zget (ha q) (zlen (ha q) - 1) = Some lst ->
    swaps kpi (cut_core kpi (ha q) (hs q) i lst) c' ->
    index_exact Z.eqb (fst c') (m_del Z.eqb k (snd c')) /\
    Permutation (ha q) ((k, p0) :: fst c').
  Proof.
    intros [Hex Ho] Hi Hl Hs.
    destruct (cut_inv (ha q) (hs q) i k p0 lst Hex Hi Hl) as [Ht [Hd Hnk]].
    destruct (swaps_tracks _ c' _ Hs (conj Ht Hd)) as [Ht' Hd'].
    apply swaps_perm in Hs. simpl in Hs.
    split.
    - apply finish_del; [exact Ht'|exact Hd'|].
      intros Hin. apply Hnk. eapply Permutation_in; [apply Permutation_map, Permutation_sym; exact Hs|exact Hin].
    - eapply perm_trans; [apply (cut_perm (ha q) i (k, p0) lst Hi Hl)|apply perm_skip; exact Hs].
  Qed.

  Lemma pq_pop_spec (q : zpq) k p :
    qinv q -> zget (ha q) 0 = Some (k, p) ->
    exists q', pq_pop Z.eqb 0 0 pless q = Ok (k, q') /\ qinv q' /\ hgen q' = hgen q + 1 /\
               Permutation (ha q) ((k, p) :: ha q').
  Proof.
    intros Hq H0. unfold pq_pop.
    destruct (pop_spec (kpzero 0 0) kpl kpi q (k, p) H0) as [lst [c' [Hl [E [Hs Ho']]]]].
    rewrite E. simpl. eexists. split; [reflexivity|]. simpl.
    destruct (after_cut q 0 k p lst c' Hq H0 Hl Hs) as [Hex' Hp].
    split; [split; [exact Hex'|apply Ho'; [exact kpless_swo|exact (proj2 Hq)]]|].
    split; [reflexivity|exact Hp].
  Qed.

  Lemma pq_pop_empty (q : zpq) : ha q = [] -> pq_pop Z.eqb 0 0 pless q = Panic PIndex.
  Proof. intros E. unfold pq_pop. rewrite pop_empty by exact E. reflexivity. Qed.

  Lemma pq_remove_spec (q : zpq) k i :
    qinv q -> mget (hs q) k = Some i ->
    exists p0 q', pq_remove Z.eqb 0 0 pless k q = Ok q' /\ qinv q' /\
                  Permutation (ha q) ((k, p0) :: ha q').
  Proof.
    intros Hq Em. unfold pq_remove. rewrite Em.
    destruct (exact_key_in q k i (proj1 Hq) Em) as [p0 Hp0].
    destruct (remove_at_spec (kpzero 0 0) kpl kpi q i (k, p0) Hp0) as [lst [c' [Hl [E [Hs Ho']]]]].
    rewrite E. simpl. exists p0. eexists. split; [reflexivity|]. simpl.
    destruct (after_cut q i k p0 lst c' Hq Hp0 Hl Hs) as [Hex' Hp].
    split; [split; [exact Hex'|apply Ho'; [exact kpless_swo|exact (proj2 Hq)]]|exact Hp].
  Qed.

  Lemma pq_remove_absent (q : zpq) k :
    mget (hs q) k = None -> pq_remove Z.eqb 0 0 pless k q = Ok q.
  Proof. intros Em. unfold pq_remove. rewrite Em. reflexivity. Qed.

  (* --- New --- *)
  Lemma qnew_spec initial :
    exists q, qnew pless initial = Ok q /\ qinv q /\ hgen q = 0 /\
              Permutation (ha q) (first_occ initial).
  Proof.
    unfold qnew, pq_new.
    assert (HJ0 : filt_inv [] []).
    { split; [constructor|]. intros k. simpl. tauto. }
    destruct (pq_filter_spec initial [] [] HJ0) as [[Hnd Hdom] Hget].
    destruct (pq_filter Z.eqb initial [] []) as [m filtered]. simpl in *.
    destruct (new_spec kpl kpi filtered m) as [c1 [Hs [E Ho]]].
    eexists. split; [exact E|]. simpl.
    assert (Hp : Permutation filtered (fst c1)) by (apply swaps_perm in Hs; exact Hs).
    assert (Hnd1 : NoDup (map fst (fst c1))).
    { eapply Permutation_NoDup; [apply Permutation_map; exact Hp|exact Hnd]. }
    assert (Hd0 : dom_sub filtered m (fun _ => False)).
    { intros k v Hm. left.
      destruct (in_dec Z.eq_dec k (map fst filtered)) as [Hin|Hnin]; [exact Hin|].
      apply Hdom in Hnin. congruence. }
    pose proof (swaps_dom _ c1 _ Hs Hd0) as Hd1.
    split; [split; [apply notified_inv; assumption|apply Ho; exact kpless_swo]|].
    split; [reflexivity|].
    eapply perm_trans; [apply Permutation_sym; exact Hp|].
    apply same_map_perm; [exact Hnd|apply first_occ_nodup|].
    intros k. rewrite Hget, first_occ_get. reflexivity.
  Qed.

  Lemma qinit_spec initial :
    exists q, qnew pless initial = Ok q /\ qinit initial = mkQst q [] /\ qinv q /\ hgen q = 0 /\
              Permutation (ha q) (first_occ initial).
  Proof.
    destruct (qnew_spec initial) as [q [E [Hq [Hg Hp]]]].
    exists q. unfold Model.qinit. rewrite E. auto.
  Qed.

  Lemma qrun_eq initial ops : qrun initial ops = qrun_from (qinit initial) ops.
  Proof.
    destruct (qinit_spec initial) as [q [E [Ei _]]]. unfold Model.qrun. rewrite E, Ei. reflexivity.
  Qed.

  (* --- the invariant over all histories --- *)
  Lemma qstep_inv s o : qinv (qq s) -> qinv (qq (fst (qstep s o))).
  Proof.
    intros Hq. destruct o; cbv beta iota zeta delta [Model.qstep].
    - destruct (pq_update_spec (qq s) k p Hq) as [q' [E [Hq' _]]]. rewrite E. exact Hq'.
    - destruct (zget (ha (qq s)) 0) as [[k p]|] eqn:E0.
      + destruct (pq_pop_spec (qq s) k p Hq E0) as [q' [E [Hq' _]]]. rewrite E. exact Hq'.
      + apply zget0_nil in E0. rewrite pq_pop_empty by exact E0. exact Hq.
    - destruct (pq_peek (qq s)); exact Hq.
    - exact Hq.
    - destruct (pq_priority Z.eqb 0 k (qq s)); exact Hq.
    - destruct (mget (hs (qq s)) k) as [i|] eqn:Em.
      + destruct (pq_remove_spec (qq s) k i Hq Em) as [p0 [q' [E [Hq' _]]]]. rewrite E. exact Hq'.
      + rewrite pq_remove_absent by exact Em. exact Hq.
    - exact Hq.
    - unfold pq_grow, grow. destruct (n <? 0); exact Hq.
    - exact Hq.
    - destruct (nth_error (qits s) j); [|exact Hq]. destruct (pq_iter_next (qq s) h). exact Hq.
    - destruct (pq_iterate_all (qq s)) as [[l|c]|]; exact Hq.
  Qed.

  Lemma queue_inv_reach initial ops : qinv (qq (qrun_state initial ops)).
  Proof.
    apply (qreach_ind pless (fun s => qinv (qq s))).
    - destruct (qinit_spec initial) as [q [_ [E [Hq _]]]]. rewrite E. exact Hq.
    - intros s o. apply qstep_inv.
  Qed.

  (* --- reading the ideal map through the index --- *)
  Lemma lookup_present (q : zpq) l k i :
    qinv q -> Permutation (ha q) l -> mget (hs q) k = Some i ->
    exists p, zget (ha q) i = Some (k, p) /\ i_get k l = Some p.
  Proof.
    intros [Hex _] Hp Em. destruct (exact_key_in q k i Hex Em) as [p Hz]. exists p.
    split; [exact Hz|]. apply i_get_In.
    - eapply Permutation_NoDup; [apply Permutation_map; exact Hp|exact (proj2 Hex)].
    - eapply Permutation_in; [exact Hp|eapply zget_In; exact Hz].
  Qed.

  Lemma lookup_absent (q : zpq) l k :
    qinv q -> Permutation (ha q) l -> mget (hs q) k = None -> i_get k l = None.
  Proof.
    intros [Hex _] Hp Em. apply i_get_None. intros Hin.
    apply (exact_key_notin q k Hex Em).
    eapply Permutation_in; [apply Permutation_map, Permutation_sym; exact Hp|exact Hin].
  Qed.

  Lemma root_is_min_key (q : zpq) l k p :
    qinv q -> Permutation (ha q) l -> zget (ha q) 0 = Some (k, p) -> is_min_key pless k l.
  Proof.
    intros [Hex Ho] Hp H0.
    assert (Hnd : NoDup (map fst l)).
    { eapply Permutation_NoDup; [apply Permutation_map; exact Hp|exact (proj2 Hex)]. }
    exists p. split.
    - apply i_get_In; [exact Hnd|]. eapply Permutation_in; [exact Hp|eapply zget_In; exact H0].
    - intros k' p' Hg. apply i_get_In in Hg; [|exact Hnd].
      apply (Permutation_in _ (Permutation_sym Hp)) in Hg. apply In_zget in Hg.
      destruct Hg as [i Hi].
      exact (root_min kpl kpless_swo (ha q) (k, p) Ho H0 i (k', p') Hi).
  Qed.

  Lemma qspec_from : forall ops s l,
      qinv (qq s) -> 0 <= hgen (qq s) -> Permutation (ha (qq s)) l ->
      qspec_run pless l ops (qrun_from s ops).
  Proof.
    induction ops as [|o ops IH]; intros s l Hq Hg Hp; simpl; [exact I|].
    assert (Hnd : NoDup (map fst l)).
    { eapply Permutation_NoDup; [apply Permutation_map; exact Hp|exact (proj2 (proj1 Hq))]. }
    pose proof (qstep_qq_gen pless s o) as [Hle _].
    pose proof (qstep_inv s o Hq) as Hq'.
    destruct (qstep s o) as [s' r] eqn:Es. simpl in Hle, Hq'.
    destruct o; cbv beta iota zeta delta [Model.qstep] in Es.
    - destruct (pq_update_spec (qq s) k p Hq) as [q' [E [_ Hp']]]. rewrite E in Es.
      injection Es as <- <-. split; [reflexivity|]. simpl in *.
      apply IH; [exact Hq'|simpl; lia|].
      eapply perm_trans; [exact Hp'|]. apply perm_skip. apply filter_perm. exact Hp.
    - destruct (zget (ha (qq s)) 0) as [[k p]|] eqn:E0.
      + destruct (pq_pop_spec (qq s) k p Hq E0) as [q' [E [_ [_ Hp']]]]. rewrite E in Es.
        injection Es as <- <-. simpl in *.
        pose proof (root_is_min_key (qq s) l k p Hq Hp E0) as Hmin.
        split.
        * destruct l as [|y l0]; [destruct Hmin as [p1 [Hg1 _]]; discriminate|].
          exists k. split; [reflexivity|exact Hmin].
        * apply IH; [exact Hq'|simpl; lia|].
          apply Permutation_sym. apply (i_remove_perm_cons k p); [exact Hnd|].
          eapply perm_trans; [apply Permutation_sym; exact Hp|exact Hp'].
      + apply zget0_nil in E0. rewrite pq_pop_empty in Es by exact E0.
        injection Es as <- <-. rewrite E0 in Hp. apply Permutation_nil in Hp. subst l.
        split; [reflexivity|]. simpl. apply IH; try assumption. rewrite E0. apply Permutation_refl.
    - unfold pq_peek, peek in Es. simpl. destruct (zget (ha (qq s)) 0) as [[k p]|] eqn:E0; simpl in Es;
        injection Es as <- <-.
      + pose proof (root_is_min_key (qq s) l k p Hq Hp E0) as Hmin. split.
        * destruct l as [|y l0]; [destruct Hmin as [p1 [Hg1 _]]; discriminate|].
          exists k. split; [reflexivity|exact Hmin].
        * apply IH; assumption.
      + apply zget0_nil in E0. rewrite E0 in Hp. apply Permutation_nil in Hp. subst l.
        split; [reflexivity|]. apply IH; try assumption. rewrite E0. apply Permutation_refl.
    - injection Es as <- <-. simpl. split; [|apply IH; assumption].
      unfold pq_contains. destruct (mget (hs (qq s)) k) as [i|] eqn:Em.
      + destruct (lookup_present (qq s) l k i Hq Hp Em) as [p [_ Hgl]]. rewrite Hgl. reflexivity.
      + rewrite (lookup_absent (qq s) l k Hq Hp Em). reflexivity.
    - unfold pq_priority, item in Es. simpl. destruct (mget (hs (qq s)) k) as [i|] eqn:Em.
      + destruct (lookup_present (qq s) l k i Hq Hp Em) as [p [Hz Hgl]]. rewrite Hz in Es. simpl in Es.
        injection Es as <- <-. rewrite Hgl. split; [reflexivity|apply IH; assumption].
      + injection Es as <- <-. rewrite (lookup_absent (qq s) l k Hq Hp Em).
        split; [reflexivity|apply IH; assumption].
    - destruct (mget (hs (qq s)) k) as [i|] eqn:Em.
      + destruct (pq_remove_spec (qq s) k i Hq Em) as [p0 [q' [E [_ Hp']]]]. rewrite E in Es.
        injection Es as <- <-. split; [reflexivity|]. simpl in *.
        apply IH; [exact Hq'|simpl; lia|].
        apply Permutation_sym. apply (i_remove_perm_cons k p0); [exact Hnd|].
        eapply perm_trans; [apply Permutation_sym; exact Hp|exact Hp'].
      + rewrite pq_remove_absent in Es by exact Em. injection Es as <- <-.
        split; [reflexivity|]. simpl in *.
        rewrite i_remove_notin; [apply IH; assumption|].
        apply i_get_None. apply (lookup_absent (qq s) l k Hq Hp Em).
    - injection Es as <- <-. simpl. split; [|apply IH; assumption].
      unfold pq_len, len. apply Permutation_length in Hp. unfold zlen. rewrite Hp. reflexivity.
    - unfold pq_grow, grow in Es. simpl. destruct (n <? 0); injection Es as <- <-;
        (split; [reflexivity|apply IH; assumption]).
    - injection Es as <- <-. simpl. split; [reflexivity|apply IH; assumption].
    - simpl. split; [exact I|].
      destruct (nth_error (qits s) j) as [it|].
      + destruct (pq_iter_next (qq s) it) as [r0 it']. injection Es as <- <-.
        destruct r0 as [[x|]|c]; simpl; apply IH; assumption.
      + injection Es as <- <-. simpl. apply IH; assumption.
    - rewrite pq_iterate_all_unchanged in Es by lia. injection Es as <- <-. simpl.
      split; [|apply IH; assumption].
      exists (map fst (ha (qq s))). split; [reflexivity|apply Permutation_map; exact Hp].
  Qed.

  Lemma queue_refines_map initial ops :
    qspec_run pless (first_occ initial) ops (qrun initial ops).
  Proof.
    rewrite qrun_eq. destruct (qinit_spec initial) as [q [_ [E [Hq [Hg Hp]]]]]. rewrite E.
    apply qspec_from; simpl; [exact Hq|lia|exact Hp].
  Qed.

  Lemma queue_new_first_occ initial :
    let a := ha (qq (qinit initial)) in
    NoDup (map fst a) /\ (forall k, i_get k a = i_get k initial) /\
    Permutation a (first_occ initial).
  Proof.
    destruct (qinit_spec initial) as [q [_ [E [Hq [_ Hp]]]]]. rewrite E. simpl.
    assert (Hnd : NoDup (map fst (ha q))) by exact (proj2 (proj1 Hq)).
    split; [exact Hnd|]. split; [|exact Hp].
    intros k. rewrite <- (first_occ_get k initial).
    destruct (i_get k (first_occ initial)) as [p|] eqn:Eg.
    - apply i_get_In; [exact Hnd|].
      apply (Permutation_in _ (Permutation_sym Hp)). apply i_get_In; [apply first_occ_nodup|exact Eg].
    - apply i_get_None. apply i_get_None in Eg. intros Hin. apply Eg.
      eapply Permutation_in; [apply Permutation_map; exact Hp|exact Hin].
  Qed.

  Lemma queue_empty_panics initial ops :
    let s := qrun_state initial ops in
    (snd (qstep s QPop) = OPanic <-> ha (qq s) = []) /\
    (snd (qstep s QPeek) = OPanic <-> ha (qq s) = []) /\
    (snd (qstep s QPop) = OPanic -> fst (qstep s QPop) = s) /\
    fst (qstep s QPeek) = s.
  Proof.
    intros s. pose proof (queue_inv_reach initial ops) as Hq. fold s in Hq.
    assert (Hpop : snd (qstep s QPop) = OPanic <-> ha (qq s) = []).
    { cbv beta iota zeta delta [Model.qstep].
      destruct (zget (ha (qq s)) 0) as [[k p]|] eqn:E0.
      - destruct (pq_pop_spec (qq s) k p Hq E0) as [q' [E _]]. rewrite E. simpl.
        split; [discriminate|]. intros En. rewrite En in E0. discriminate.
      - apply zget0_nil in E0. rewrite pq_pop_empty by exact E0. simpl. tauto. }
    split; [exact Hpop|]. split; [|split].
    - cbv beta iota zeta delta [Model.qstep]. unfold pq_peek, peek.
      destruct (zget (ha (qq s)) 0) as [x|] eqn:E0; simpl.
      + split; [discriminate|]. intros En. rewrite En in E0. discriminate.
      + apply zget0_nil in E0. tauto.
    - intros Hp. apply Hpop in Hp. cbv beta iota zeta delta [Model.qstep].
      rewrite pq_pop_empty by exact Hp. reflexivity.
    - cbv beta iota zeta delta [Model.qstep]. destruct (pq_peek (qq s)); reflexivity.
  Qed.
  (* popping until empty returns every key once, priorities in non-decreasing order *)
  Lemma queue_drain_from : forall n s,
      qinv (qq s) -> length (ha (qq s)) = n ->
      exists kps, qrun_from s (repeat QPop n) = map (fun x => OVal (fst x)) kps /\
                  Permutation kps (ha (qq s)) /\ nondecreasing pless (map snd kps) /\
                  ha (qq (qrun_state_from s (repeat QPop n))) = [].
  Proof.
    induction n as [|n IH]; intros s Hq Hlen.
    - exists []. simpl. split; [reflexivity|].
      destruct (ha (qq s)); [|discriminate]. repeat split; constructor.
    - destruct (zget (ha (qq s)) 0) as [[k p]|] eqn:E0;
        [|apply zget0_nil in E0; rewrite E0 in Hlen; discriminate].
      destruct (pq_pop_spec (qq s) k p Hq E0) as [q' [E [Hq' [_ Hp]]]].
      assert (Hlen' : length (ha q') = n).
      { apply Permutation_length in Hp. simpl in Hp. lia. }
      destruct (IH (mkQst q' (qits s)) Hq' Hlen') as [kps [Hrun [Hpx [Hsort Hemp]]]].
      exists ((k, p) :: kps). change (repeat QPop (S n)) with (QPop :: repeat QPop n).
      cbn [Model.qrun_from Model.qrun_state_from].
      cbv beta iota zeta delta [Model.qstep]. rewrite E. cbn [fst map].
      split; [rewrite Hrun; reflexivity|].
      split; [eapply perm_trans; [apply perm_skip; exact Hpx|apply Permutation_sym; exact Hp]|].
      split; [|exact Hemp].
      constructor; [exact Hsort|].
      apply Forall_forall. intros p' Hy. apply in_map_iff in Hy. destruct Hy as [[k' p''] [Ep Hin]].
      simpl in Ep. subst p''.
      assert (Hina : In (k', p') (ha (qq s))).
      { eapply Permutation_in; [apply Permutation_sym; exact Hp|].
        right. eapply Permutation_in; [exact Hpx|exact Hin]. }
      apply In_zget in Hina. destruct Hina as [i Hi].
      exact (root_min kpl kpless_swo (ha (qq s)) (k, p) (proj2 Hq) E0 i (k', p') Hi).
  Qed.

  Lemma queue_drain_sorted initial ops :
    let s := qrun_state initial ops in
    let n := length (ha (qq s)) in
    exists kps, qrun_from s (repeat QPop n) = map (fun x => OVal (fst x)) kps /\
                Permutation kps (ha (qq s)) /\ nondecreasing pless (map snd kps) /\
                ha (qq (qrun_state_from s (repeat QPop n))) = [].
  Proof.
    intros s n. apply queue_drain_from; [apply queue_inv_reach|reflexivity].
  Qed.
End QueueHist.

(* ---------- the orderings used by the harness are strict weak orders ---------- *)
Lemma swo_of_key (f : Z -> Z) : strict_weak (fun a b => f a <? f b).
Proof.
  split; [|split].
  - intros a. apply Z.ltb_irrefl.
  - intros a b c H1 H2. apply Z.ltb_lt in H1, H2. apply Z.ltb_lt. lia.
  - intros a b c H1 H2. apply Z.ltb_ge in H1, H2. apply Z.ltb_ge. lia.
Qed.

Example swo_ltb : strict_weak Z.ltb.
Proof. exact (swo_of_key (fun x => x)). Qed.

Example swo_reversed : strict_weak (fun a b => b <? a).
Proof.
  split; [|split].
  - intros a. apply Z.ltb_irrefl.
  - intros a b c H1 H2. apply Z.ltb_lt in H1, H2. apply Z.ltb_lt. lia.
  - intros a b c H1 H2. apply Z.ltb_ge in H1, H2. apply Z.ltb_ge. lia.
Qed.

Example swo_coarse : strict_weak (fun a b => Z.quot a 4 <? Z.quot b 4).
Proof. exact (swo_of_key (fun x => Z.quot x 4)). Qed.

Lemma swo_ext {T} (f g : T -> T -> bool) :
  (forall a b, f a b = g a b) -> strict_weak f -> strict_weak g.
Proof.
  intros E [H1 [H2 H3]]. split; [|split].
  - intros a. rewrite <- E. apply H1.
  - intros a b c. rewrite <- !E. apply H2.
  - intros a b c. rewrite <- !E. apply H3.
Qed.

Lemma cmp_less_ltb (f : Z -> Z) a b :
  (f a <? f b) = cmp_less (fun x y => Z.compare (f x) (f y)) a b.
Proof. unfold cmp_less, Z.ltb. destruct (f a ?= f b); reflexivity. Qed.

Theorem order_of_swo mode : strict_weak (order_of mode).
Proof.
  unfold order_of.
  destruct (mode =? 0); [exact swo_ltb|].
  destruct (mode =? 1); [exact swo_reversed|].
  destruct (mode =? 2); [exact swo_coarse|].
  destruct (mode =? 3).
  - eapply swo_ext; [|exact swo_ltb]. intros a b. apply (cmp_less_ltb (fun x => x)).
  - eapply swo_ext; [|exact swo_coarse]. intros a b. apply (cmp_less_ltb (fun x => Z.quot x 4)).
Qed.

(* ---------- non-vacuity: the model runs non-trivial histories ---------- *)
Example heap_history_runs :
  hrun Z.ltb [5; 3; 8; 1; 3] [HPush 0; HPop; HPeek; HLen; HPop; HPop; HIterate] =
  [OUnit; OVal 0; OVal 1; OInt 5; OVal 1; OVal 3; OList [3; 5; 8]].
Proof. vm_compute. reflexivity. Qed.

Example queue_history_runs :
  qrun Z.ltb [(1, 50); (2, 10); (1, 0); (3, 30)]
       [QUpdate 1 5; QPeek; QRemove 2; QContains 2; QPriority 3; QPop; QPop; QPop] =
  [OUnit; OVal 1; OUnit; OBool false; OInt 30; OVal 1; OVal 3; OPanic].
Proof. vm_compute. reflexivity. Qed.

(* an iterator that is under way, a Push, and the panic of its next call; a second iterator that
   runs to the end of its snapshot *)
Example heap_ghost_runs :
  snd (hgrun Z.ltb (hinit Z.ltb [4; 2; 9]) []
         [HIterNew; HIterNew; HIterNext 0; HPush 1; HIterNext 0;
          HIterNext 1; HIterNext 1; HIterNext 1; HIterNext 1; HIterNext 1]) =
  [mkGhost true [2; 4; 9] [2] false true;
   mkGhost true [1; 2; 9; 4] [1; 2; 9; 4] true false].
Proof. vm_compute. reflexivity. Qed.

Example queue_ghost_runs :
  snd (qgrun Z.ltb (qinit Z.ltb [(7, 4); (8, 2); (9, 9)]) []
         [QIterNew; QIterNext 0; QUpdate 7 1; QIterNext 0; QIterNew; QIterNext 1; QIterNext 1;
          QIterNext 1; QIterNext 1]) =
  [mkGhost true [8; 7; 9] [8] false true;
   mkGhost true [7; 8; 9] [7; 8; 9] true false].
Proof. vm_compute. reflexivity. Qed.
