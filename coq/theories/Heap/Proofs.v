(* Proofs for xheap.Heap and xheap.PriorityQueue: invariants over all histories, refinement of
   the ideal multiset / finite map (C05) and the iterator properties (C15). *)
From Coq Require Import Permutation Sorted.
From Juniper Require Import Common.Base Heap.Model Heap.Spec Heap.Lemmas.

(* ---------- small list facts ---------- *)
Lemma Forall_upd {A} (P : A -> Prop) (l : list A) n x :
  Forall P l -> P x -> Forall P (upd l n x).
Proof.
  intros Hl Hx. revert n. induction Hl as [|h t Hh Ht IH]; intros [|n]; simpl; auto.
Qed.

Lemma Forall2_upd {A B} (R : A -> B -> Prop) (l : list A) (m : list B) n x y :
  Forall2 R l m -> R x y -> Forall2 R (upd l n x) (upd m n y).
Proof.
  intros H Hxy. revert n. induction H as [|a b l m Hab Hlm IH]; intros [|n]; simpl; auto.
Qed.

Lemma Forall2_nth_error {A B} (R : A -> B -> Prop) (l : list A) (m : list B) n :
  Forall2 R l m ->
  match nth_error l n, nth_error m n with
  | Some a, Some b => R a b
  | None, None => True
  | _, _ => False
  end.
Proof.
  intros H. revert n. induction H as [|a b l m Hab Hlm IH]; intros [|n]; simpl; auto.
  apply IH.
Qed.

Lemma Forall2_snoc {A B} (R : A -> B -> Prop) (l : list A) (m : list B) x y :
  Forall2 R l m -> R x y -> Forall2 R (l ++ [x]) (m ++ [y]).
Proof. intros H Hxy. apply Forall2_app; [exact H|constructor; [exact Hxy|constructor]]. Qed.

Lemma Forall2_weaken {A B} (R R' : A -> B -> Prop) (l : list A) (m : list B) :
  (forall a b, R a b -> R' a b) -> Forall2 R l m -> Forall2 R' l m.
Proof. intros HR H. induction H; constructor; auto. Qed.

Lemma Forall2_Forall_r {A B} (R : A -> B -> Prop) (P : B -> Prop) (l : list A) (m : list B) :
  (forall a b, R a b -> P b) -> Forall2 R l m -> Forall P m.
Proof. intros HRP H. induction H; constructor; eauto. Qed.

Lemma In_remove_one x l : In x l -> Permutation l (x :: remove_one x l).
Proof.
  induction l as [|y r IH]; intros H; [destruct H|]. simpl.
  destruct (Z.eqb_spec x y) as [->|Hne]; [apply Permutation_refl|].
  destruct H as [H|H]; [congruence|].
  eapply perm_trans; [apply perm_skip, IH, H|apply perm_swap].
Qed.

Lemma remove_one_perm x l r : Permutation l (x :: r) -> Permutation (remove_one x l) r.
Proof.
  intros H. assert (Hin : In x l).
  { eapply Permutation_in; [apply Permutation_sym, H|left; reflexivity]. }
  apply In_remove_one in Hin.
  eapply Permutation_cons_inv. eapply perm_trans; [apply Permutation_sym, Hin|exact H].
Qed.

(* ---------- iterators (generic) ---------- *)
Section Iter.
  Context {T IS : Type}.
  Variable pr : T -> Z.                  (* what the caller sees of an item *)
  Notation heap := (heap T IS).
  Notation hiter := (hiter T).

  Definition out_of (r : result (option T)) : out :=
    match r with Ok (Some x) => OVal (pr x) | Ok None => OEnd | Panic _ => OPanic end.

  Lemma iter_next_started (h : heap) g rest :
    g <> -1 -> g = hgen h -> iter_next h (mkIter g rest) = inner_next (mkIter g rest).
  Proof.
    intros Hg Eg. unfold iter_next. simpl it_gen.
    destruct (Z.eqb_spec g (-1)); [lia|]. destruct (Z.eqb_spec g (hgen h)); [|lia]. reflexivity.
  Qed.

  Lemma drain_started (h : heap) : forall rest fuel g,
      (length rest < fuel)%nat -> g <> -1 -> g = hgen h ->
      drain fuel h (mkIter g rest) = Some (Ok rest).
  Proof.
    induction rest as [|x r IH]; intros fuel g Hf Hg Eg; (destruct fuel as [|fuel]; [simpl in Hf; lia|]).
    - cbn [drain]. rewrite iter_next_started by assumption. reflexivity.
    - cbn [drain]. rewrite iter_next_started by assumption. unfold inner_next. cbn [it_rest it_gen].
      rewrite IH; [reflexivity|simpl in Hf; lia|exact Hg|exact Eg].
  Qed.

  Lemma iterate_all_unchanged (h : heap) : hgen h <> -1 -> iterate_all h = Some (Ok (ha h)).
  Proof.
    intros Hg. unfold iterate_all. cbn [drain]. unfold iter_next, iterate. cbn [it_gen].
    rewrite Z.eqb_refl. unfold inner_next. cbn [it_rest it_gen].
    destruct (ha h) as [|x r] eqn:Ea; [reflexivity|].
    rewrite drain_started; [reflexivity|simpl; lia|exact Hg|reflexivity].
  Qed.

  Lemma iter_next_gen_le (h : heap) it :
    it_gen it <= hgen h -> it_gen (snd (iter_next h it)) <= hgen h.
  Proof.
    intros H. unfold iter_next, inner_next.
    destruct (it_gen it =? -1).
    - simpl. destruct (ha h); simpl; lia.
    - destruct (negb (it_gen it =? hgen h)); [exact H|].
      destruct (it_rest it); simpl; exact H.
  Qed.

  Lemma iter_next_modified (h : heap) it :
    it_gen it <> -1 -> it_gen it < hgen h -> fst (iter_next h it) = Panic PModified.
  Proof.
    intros H1 H2. unfold iter_next.
    destruct (Z.eqb_spec (it_gen it) (-1)); [lia|].
    destruct (Z.eqb_spec (it_gen it) (hgen h)); [lia|]. reflexivity.
  Qed.

  (* link between an iterator and its ghost; depends on the container only through gen *)
  Definition ginv (gen : Z) (it : hiter) (g : ghost) : Prop :=
    (g_started g = false /\ it = iterate /\ g_yield g = [] /\ g_ended g = false) \/
    (g_started g = true /\ it_gen it <> -1 /\ it_gen it <= gen /\
     (it_gen it = gen -> g_snap g = g_yield g ++ map pr (it_rest it)) /\ ghost_ok g).

  Lemma ginv_ok gen it g : ginv gen it g -> ghost_ok g.
  Proof.
    intros [[_ [_ [Hy He]]]|[_ [_ [_ [_ H]]]]]; [|exact H].
    split; [rewrite Hy; exists (g_snap g); reflexivity|rewrite He; discriminate].
  Qed.

  Lemma ginv_mono gen gen' it g : gen <= gen' -> ginv gen it g -> ginv gen' it g.
  Proof.
    intros Hle [H|[Hs [Hn [Hl [Hsnap Hok]]]]]; [left; exact H|right].
    repeat split; try assumption; try lia; try (apply Hok).
    intros E. apply Hsnap. lia.
  Qed.

  Lemma ginv_new gen : ginv gen iterate ghost0.
  Proof. left. repeat split. Qed.

  Lemma ginv_started gen it g :
    g_started g = true -> it_gen it <> -1 -> it_gen it <= gen ->
    (it_gen it = gen -> g_snap g = g_yield g ++ map pr (it_rest it)) ->
    prefix_of (g_yield g) (g_snap g) -> (g_ended g = true -> g_yield g = g_snap g) ->
    ginv gen it g.
  Proof. intros H1 H2 H3 H4 H5 H6. right. repeat split; assumption. Qed.

  Lemma ginv_next (h : heap) it g :
    0 <= hgen h -> ginv (hgen h) it g ->
    ginv (hgen h) (snd (iter_next h it))
         (ghost_next (map pr (ha h)) g (out_of (fst (iter_next h it)))).
  Proof.
    intros Hg [[Hs [Hit [Hy He]]]|[Hs [Hn [Hl [Hsnap [Hpre Hend]]]]]].
    - subst it. unfold iter_next, inner_next. simpl. unfold ghost_next. rewrite Hs, Hy.
      destruct (ha h) as [|x r]; simpl; apply ginv_started; simpl.
      + reflexivity.
      + lia.
      + lia.
      + reflexivity.
      + exists []. reflexivity.
      + reflexivity.
      + reflexivity.
      + lia.
      + lia.
      + reflexivity.
      + exists (map pr r). reflexivity.
      + intros E. rewrite He in E. discriminate.
    - unfold iter_next, inner_next.
      destruct (Z.eqb_spec (it_gen it) (-1)); [lia|].
      destruct (Z.eqb_spec (it_gen it) (hgen h)) as [Eg|Eg]; simpl.
      + specialize (Hsnap Eg). unfold ghost_next. rewrite Hs.
        destruct (it_rest it) as [|x r] eqn:Er; simpl; apply ginv_started; simpl.
        * reflexivity.
        * exact Hn.
        * exact Hl.
        * intros _. rewrite Er. exact Hsnap.
        * exact Hpre.
        * intros _. rewrite Hsnap. simpl. rewrite app_nil_r. reflexivity.
        * reflexivity.
        * exact Hn.
        * exact Hl.
        * intros _. rewrite Hsnap. simpl. rewrite <- app_assoc. reflexivity.
        * exists (map pr r). rewrite Hsnap. simpl. rewrite <- app_assoc. reflexivity.
        * intros E. specialize (Hend E). rewrite Hsnap in Hend.
          rewrite <- (app_nil_r (g_yield g)) in Hend at 1.
          apply app_inv_head in Hend. discriminate.
      + unfold ghost_next. rewrite Hs. simpl. apply ginv_started; simpl.
        * reflexivity.
        * exact Hn.
        * exact Hl.
        * intros E. lia.
        * exact Hpre.
        * exact Hend.
  Qed.
End Iter.

(* ---------- xheap.Heap[int]: invariants over all histories ---------- *)
Section HeapHist.
  Variable less : Z -> Z -> bool.

  Notation hstep := (hstep less).
  Notation hinit := (hinit less).
  Notation hrun := (hrun less).
  Notation hrun_from := (hrun_from less).
  Notation hrun_state := (hrun_state less).
  Notation hrun_state_from := (hrun_state_from less).
  Notation ho := (heap_ordered less).

  Lemma hnew_ok initial :
    exists h, hnew less initial = Ok h /\ hgen h = 0 /\ Permutation initial (ha h) /\
              (strict_weak less -> ho (ha h)).
  Proof.
    destruct (new_spec less no_index initial tt) as [c1 [Hs [E Ho]]].
    eexists. split; [exact E|]. simpl. split; [reflexivity|].
    split; [apply swaps_perm in Hs; exact Hs|exact Ho].
  Qed.

  Lemma hinit_eq initial :
    exists h, hnew less initial = Ok h /\ hinit initial = mkHst h [] /\ hgen h = 0 /\
              Permutation initial (ha h) /\ (strict_weak less -> ho (ha h)).
  Proof.
    destruct (hnew_ok initial) as [h [E [Hg [Hp Ho]]]].
    exists h. unfold Model.hinit. rewrite E. auto.
  Qed.

  Lemma hrun_eq initial ops : hrun initial ops = hrun_from (hinit initial) ops.
  Proof.
    destruct (hinit_eq initial) as [h [E [Ei _]]]. unfold Model.hrun. rewrite E, Ei. reflexivity.
  Qed.

  (* effect of each mutating operation *)
  Lemma hstep_push s x :
    exists h', hstep s (HPush x) = (mkHst h' (hits s), OUnit) /\
               hgen h' = hgen (hh s) + 1 /\ Permutation (x :: ha (hh s)) (ha h') /\
               (strict_weak less -> ho (ha (hh s)) -> ho (ha h')).
  Proof.
    destruct (push_spec less no_index x (hh s)) as [c' [E [Hs Ho]]].
    eexists. simpl. rewrite E. split; [reflexivity|]. simpl.
    split; [reflexivity|]. split; [|exact Ho].
    apply swaps_perm in Hs. simpl in Hs.
    eapply perm_trans; [apply Permutation_cons_append|exact Hs].
  Qed.

  Lemma hstep_pop_empty s : ha (hh s) = [] -> hstep s HPop = (s, OPanic).
  Proof. intros E. simpl. rewrite pop_empty by exact E. reflexivity. Qed.

  Lemma hstep_pop s x :
    zget (ha (hh s)) 0 = Some x ->
    exists h', hstep s HPop = (mkHst h' (hits s), OVal x) /\
               hgen h' = hgen (hh s) + 1 /\ Permutation (ha (hh s)) (x :: ha h') /\
               (strict_weak less -> ho (ha (hh s)) -> ho (ha h')).
  Proof.
    intros Hx. destruct (pop_spec 0 less no_index (hh s) x Hx) as [lst [c' [Hl [E [Hs Ho]]]]].
    eexists. simpl. rewrite E. split; [reflexivity|]. simpl.
    split; [reflexivity|]. split; [|exact Ho].
    apply swaps_perm in Hs. simpl in Hs.
    eapply perm_trans; [apply (cut_perm (ha (hh s)) 0 x lst Hx Hl)|].
    apply perm_skip. exact Hs.
  Qed.

  Lemma hstep_peek s : hstep s HPeek =
    (s, match zget (ha (hh s)) 0 with Some x => OVal x | None => OPanic end).
  Proof. simpl. unfold peek. destruct (zget (ha (hh s)) 0); reflexivity. Qed.

  Lemma zget0_nil {A} (l : list A) : zget l 0 = None <-> l = [].
  Proof. destruct l; simpl; split; intros H; try reflexivity; discriminate. Qed.

  (* the heap (not the iterators) after a step: unchanged unless Push / non-empty Pop *)
  Lemma hstep_hh_same s o :
    match o with HPush _ | HPop => False | _ => True end -> hh (fst (hstep s o)) = hh s.
  Proof.
    intros Ho. destruct o; try destruct Ho; simpl.
    - destruct (peek (hh s)); reflexivity.
    - reflexivity.
    - unfold grow. destruct (n <? 0); reflexivity.
    - unfold shrink. destruct (n <? 0); reflexivity.
    - reflexivity.
    - destruct (nth_error (hits s) j); [|reflexivity].
      destruct (iter_next (hh s) h). reflexivity.
    - destruct (iterate_all (hh s)) as [[l|c]|]; reflexivity.
  Qed.

  (* --- gen never decreases; iterators never run ahead of the heap --- *)
  Definition hgen_inv (s : hst) : Prop :=
    0 <= hgen (hh s) /\ Forall (fun it => it_gen it <= hgen (hh s)) (hits s).

  Lemma Forall_gen_mono (its : list (hiter Z)) g g' :
    g <= g' -> Forall (fun it => it_gen it <= g) its -> Forall (fun it => it_gen it <= g') its.
  Proof. intros Hle H. eapply Forall_impl; [|exact H]. simpl. intros it Hit. lia. Qed.

  Lemma hstep_gen_inv s o : hgen_inv s -> hgen_inv (fst (hstep s o)).
  Proof.
    intros [Hg Hits]. destruct o.
    - destruct (hstep_push s x) as [h' [E [Hg' _]]]. rewrite E. unfold hgen_inv. simpl.
      split; [lia|]. eapply Forall_gen_mono; [|exact Hits]. lia.
    - destruct (zget (ha (hh s)) 0) as [x|] eqn:E0.
      + destruct (hstep_pop s x E0) as [h' [E [Hg' _]]]. rewrite E. unfold hgen_inv. simpl.
        split; [lia|]. eapply Forall_gen_mono; [|exact Hits]. lia.
      + apply zget0_nil in E0. rewrite hstep_pop_empty by exact E0. split; assumption.
    - rewrite hstep_peek. split; assumption.
    - split; assumption.
    - simpl. unfold grow. destruct (n <? 0); split; assumption.
    - simpl. unfold shrink. destruct (n <? 0); split; assumption.
    - simpl. split; [exact Hg|]. apply Forall_app. split; [exact Hits|].
      constructor; [simpl; lia|constructor].
    - simpl. destruct (nth_error (hits s) j) as [it|] eqn:Ej; [|split; assumption].
      pose proof (iter_next_gen_le (hh s) it) as Hle.
      destruct (iter_next (hh s) it) as [r it'] eqn:En. simpl. split; [exact Hg|].
      apply Forall_upd; [exact Hits|]. simpl in Hle. apply Hle.
      rewrite Forall_forall in Hits. apply Hits. eapply nth_error_In; eassumption.
    - simpl. destruct (iterate_all (hh s)) as [[l|c]|]; split; assumption.
  Qed.

  Lemma hinit_gen_inv initial : hgen_inv (hinit initial).
  Proof.
    destruct (hinit_eq initial) as [h [_ [E [Hg _]]]]. rewrite E. split; simpl; [lia|constructor].
  Qed.

  Lemma hrun_state_from_app s ops o :
    hrun_state_from s (ops ++ [o]) = fst (hstep (hrun_state_from s ops) o).
  Proof. revert s. induction ops as [|o' ops IH]; intros s; simpl; [reflexivity|apply IH]. Qed.

  Lemma reach_ind (Pr : hst -> Prop) initial :
    Pr (hinit initial) -> (forall s o, Pr s -> Pr (fst (hstep s o))) ->
    forall ops, Pr (hrun_state initial ops).
  Proof.
    intros H0 Hstep ops. unfold Model.hrun_state. generalize (hinit initial) H0.
    induction ops as [|o ops IH]; intros s Hs; simpl; [exact Hs|].
    apply IH. apply Hstep. exact Hs.
  Qed.

  Lemma hgen_inv_reach initial ops : hgen_inv (hrun_state initial ops).
  Proof. apply reach_ind; [apply hinit_gen_inv|intros s o; apply hstep_gen_inv]. Qed.

  (* --- C15 --- *)
  Lemma heap_iter_unchanged initial ops :
    let h := hh (hrun_state initial ops) in iterate_all h = Some (Ok (ha h)).
  Proof.
    intros h. apply iterate_all_unchanged.
    destruct (hgen_inv_reach initial ops) as [Hg _]. fold h in Hg. lia.
  Qed.

  Lemma heap_iter_add_remove_panics initial ops o it :
    let s := hrun_state initial ops in
    h_adds_or_removes o = true ->
    snd (hstep s o) <> OPanic ->
    In it (hits (fst (hstep s o))) -> it_gen it <> -1 ->
    fst (iter_next (hh (fst (hstep s o))) it) = Panic PModified.
  Proof.
    intros s Hmod Hnp Hin Hst.
    destruct (hgen_inv_reach initial ops) as [Hg Hits]. fold s in Hg, Hits.
    rewrite Forall_forall in Hits.
    destruct o; try discriminate Hmod.
    - destruct (hstep_push s x) as [h' [E [Hg' _]]]. rewrite E in *. simpl in *.
      apply iter_next_modified; [exact Hst|]. specialize (Hits it Hin). simpl in Hits. lia.
    - destruct (zget (ha (hh s)) 0) as [x|] eqn:E0.
      + destruct (hstep_pop s x E0) as [h' [E [Hg' _]]]. rewrite E in *. simpl in *.
        apply iter_next_modified; [exact Hst|]. specialize (Hits it Hin). simpl in Hits. lia.
      + apply zget0_nil in E0. rewrite hstep_pop_empty in Hnp by exact E0. simpl in Hnp. congruence.
  Qed.

  Definition hghost_inv (s : hst) (gs : list ghost) : Prop :=
    Forall2 (ginv (fun x => x) (hgen (hh s))) (hits s) gs.

  Lemma hghost_step_inv s gs o :
    hgen_inv s -> hghost_inv s gs ->
    hghost_inv (fst (hstep s o)) (hghost_step less s gs o).
  Proof.
    intros [Hg _] H. unfold hghost_inv in *.
    assert (Hmono : forall g', hgen (hh s) <= g' ->
              Forall2 (ginv (fun x => x) g') (hits s) gs).
    { intros g' Hle. eapply Forall2_weaken; [|exact H]. intros it g. apply ginv_mono. exact Hle. }
    destruct o.
    - destruct (hstep_push s x) as [h' [E [Hg' _]]]. rewrite E. simpl. apply Hmono. lia.
    - destruct (zget (ha (hh s)) 0) as [x|] eqn:E0.
      + destruct (hstep_pop s x E0) as [h' [E [Hg' _]]]. rewrite E. simpl. apply Hmono. lia.
      + apply zget0_nil in E0. rewrite hstep_pop_empty by exact E0. exact H.
    - rewrite hstep_peek. exact H.
    - exact H.
    - simpl. unfold grow. destruct (n <? 0); exact H.
    - simpl. unfold shrink. destruct (n <? 0); exact H.
    - simpl. apply Forall2_snoc; [exact H|apply ginv_new].
    - unfold hghost_step.
      pose proof (Forall2_nth_error _ _ _ j H) as Hj.
      cbn [Model.hstep].
      destruct (nth_error (hits s) j) as [it|] eqn:Ej; destruct (nth_error gs j) as [g|] eqn:Egj;
        try contradiction; [|exact H].
      pose proof (ginv_next (fun x => x) (hh s) it g Hg Hj) as Hn.
      destruct (iter_next (hh s) it) as [r it'] eqn:En. simpl in *.
      apply Forall2_upd; [exact H|]. rewrite map_id in Hn.
      destruct r as [[x|]|c]; exact Hn.
    - simpl. destruct (iterate_all (hh s)) as [[l|c]|]; exact H.
  Qed.

  Lemma hgrun_inv : forall ops s gs,
      hgen_inv s -> hghost_inv s gs ->
      hghost_inv (fst (hgrun less s gs ops)) (snd (hgrun less s gs ops)).
  Proof.
    induction ops as [|o ops IH]; intros s gs Hs Hgs; simpl; [exact Hgs|].
    apply IH; [apply hstep_gen_inv; exact Hs|apply hghost_step_inv; assumption].
  Qed.

  Lemma heap_iter_ghost_ok initial ops :
    Forall ghost_ok (snd (hgrun less (hinit initial) [] ops)).
  Proof.
    pose proof (hgrun_inv ops (hinit initial) [] (hinit_gen_inv initial)) as H.
    eapply Forall2_Forall_r; [|apply H].
    - intros it g. apply ginv_ok.
    - destruct (hinit_eq initial) as [h [_ [E _]]]. rewrite E. constructor.
  Qed.

  (* --- heap order and the multiset refinement (C05) --- *)
  Hypothesis SWO : strict_weak less.

  Lemma hstep_ordered s o : ho (ha (hh s)) -> ho (ha (hh (fst (hstep s o)))).
  Proof.
    intros Ho. destruct o; try (rewrite hstep_hh_same by exact I; exact Ho).
    - destruct (hstep_push s x) as [h' [E [_ [_ Ho']]]]. rewrite E. simpl. apply Ho'; assumption.
    - destruct (zget (ha (hh s)) 0) as [x|] eqn:E0.
      + destruct (hstep_pop s x E0) as [h' [E [_ [_ Ho']]]]. rewrite E. simpl. apply Ho'; assumption.
      + apply zget0_nil in E0. rewrite hstep_pop_empty by exact E0. exact Ho.
  Qed.

  Lemma heap_ordered_reach initial ops : ho (ha (hh (hrun_state initial ops))).
  Proof.
    apply (reach_ind (fun s => ho (ha (hh s)))).
    - destruct (hinit_eq initial) as [h [_ [E [_ [_ Ho]]]]]. rewrite E. simpl. apply Ho. exact SWO.
    - intros s o. apply hstep_ordered.
  Qed.

  Lemma root_is_min a x : ho a -> zget a 0 = Some x -> is_min less x a.
  Proof.
    intros Ho Hx. split; [eapply zget_In; exact Hx|].
    intros y Hy. apply In_zget in Hy. destruct Hy as [i Hi].
    eapply (root_min less SWO); eassumption.
  Qed.

  Lemma is_min_perm x l l' : Permutation l l' -> is_min less x l -> is_min less x l'.
  Proof.
    intros Hp [Hin Hmin]. split; [eapply Permutation_in; eassumption|].
    intros y Hy. apply Hmin. eapply Permutation_in; [apply Permutation_sym, Hp|exact Hy].
  Qed.

  Lemma hspec_from : forall ops s l,
      ho (ha (hh s)) -> 0 <= hgen (hh s) -> Permutation (ha (hh s)) l ->
      hspec_run less l ops (hrun_from s ops).
  Proof.
    induction ops as [|o ops IH]; intros s l Ho Hg Hp; simpl; [exact I|].
    destruct (hstep s o) as [s' r] eqn:Es.
    assert (Ho' : ho (ha (hh s'))).
    { replace s' with (fst (hstep s o)) by (rewrite Es; reflexivity). apply hstep_ordered. exact Ho. }
    assert (Hsame : match o with HPush _ | HPop => False | _ => True end ->
                    hspec_ok less l o r -> hspec_ok less l o r /\ hspec_run less (ms_step l o r) ops (hrun_from s' ops)).
    { intros Hk Hok. split; [exact Hok|].
      assert (Eh : hh s' = hh s).
      { replace s' with (fst (hstep s o)) by (rewrite Es; reflexivity). apply hstep_hh_same. exact Hk. }
      replace (ms_step l o r) with l by (destruct o; try reflexivity; destruct Hk).
      apply IH; rewrite ?Eh; assumption. }
    destruct o.
    - destruct (hstep_push s x) as [h' [E [Hg' [Hp' _]]]]. rewrite E in Es.
      injection Es as <- <-. split; [reflexivity|]. simpl.
      apply IH; simpl; [exact Ho'|lia|].
      eapply perm_trans; [apply Permutation_sym, Hp'|apply perm_skip, Hp].
    - destruct (zget (ha (hh s)) 0) as [x|] eqn:E0.
      + destruct (hstep_pop s x E0) as [h' [E [Hg' [Hp' _]]]]. rewrite E in Es.
        injection Es as <- <-.
        assert (Hmin : is_min less x l).
        { eapply is_min_perm; [exact Hp|]. apply root_is_min; assumption. }
        split.
        * simpl. destruct l as [|y l0]; [destruct Hmin as [[] _]|]. exists x. split; [reflexivity|exact Hmin].
        * simpl. apply IH; simpl; [exact Ho'|lia|].
          apply Permutation_sym, remove_one_perm.
          eapply perm_trans; [apply Permutation_sym, Hp|exact Hp'].
      + apply zget0_nil in E0. rewrite hstep_pop_empty in Es by exact E0.
        injection Es as <- <-. rewrite E0 in Hp. apply Permutation_nil in Hp. subst l.
        split; [reflexivity|]. simpl. apply IH; try assumption. rewrite E0. apply Permutation_refl.
    - apply Hsame; [exact I|]. rewrite hstep_peek in Es. injection Es as _ <-.
      simpl. destruct (zget (ha (hh s)) 0) as [x|] eqn:E0.
      + assert (Hmin : is_min less x l).
        { eapply is_min_perm; [exact Hp|]. apply root_is_min; assumption. }
        destruct l as [|y l0]; [destruct Hmin as [[] _]|]. exists x. split; [reflexivity|exact Hmin].
      + apply zget0_nil in E0. rewrite E0 in Hp. apply Permutation_nil in Hp. subst l. reflexivity.
    - apply Hsame; [exact I|]. simpl in Es. injection Es as _ <-. simpl.
      unfold len. apply Permutation_length in Hp. unfold zlen. rewrite Hp. reflexivity.
    - apply Hsame; [exact I|]. simpl in Es. unfold grow in Es. simpl.
      destruct (n <? 0); injection Es as _ <-; reflexivity.
    - apply Hsame; [exact I|]. simpl in Es. unfold shrink in Es. simpl.
      destruct (n <? 0); injection Es as _ <-; reflexivity.
    - apply Hsame; [exact I|]. simpl in Es. injection Es as _ <-. reflexivity.
    - apply Hsame; exact I.
    - apply Hsame; [exact I|]. simpl in Es.
      rewrite iterate_all_unchanged in Es by lia. injection Es as _ <-.
      simpl. exists (ha (hh s)). split; [reflexivity|exact Hp].
  Qed.

  Lemma heap_refines_multiset initial ops : hspec_run less initial ops (hrun initial ops).
  Proof.
    rewrite hrun_eq. destruct (hinit_eq initial) as [h [_ [E [Hg [Hp Ho]]]]]. rewrite E.
    apply hspec_from; simpl; [apply Ho; exact SWO|lia|apply Permutation_sym; exact Hp].
  Qed.

  (* the ghost multiset really is the contents, and Len is its size, after every history *)
  Lemma hms_from : forall ops s l,
      ho (ha (hh s)) -> Permutation (ha (hh s)) l ->
      Permutation (ha (hh (hrun_state_from s ops))) (ms_run l ops (hrun_from s ops)).
  Proof.
    induction ops as [|o ops IH]; intros s l Ho Hp; simpl; [exact Hp|].
    destruct (hstep s o) as [s' r] eqn:Es. simpl.
    assert (Ho' : ho (ha (hh s'))).
    { replace s' with (fst (hstep s o)) by (rewrite Es; reflexivity). apply hstep_ordered. exact Ho. }
    apply IH; [exact Ho'|].
    assert (Hsame : match o with HPush _ | HPop => False | _ => True end ->
                    Permutation (ha (hh s')) (ms_step l o r)).
    { intros Hk.
      replace s' with (fst (hstep s o)) by (rewrite Es; reflexivity).
      rewrite hstep_hh_same by exact Hk.
      replace (ms_step l o r) with l by (destruct o; try reflexivity; destruct Hk).
      exact Hp. }
    destruct o; try (apply Hsame; exact I).
    - destruct (hstep_push s x) as [h' [E [_ [Hp' _]]]]. rewrite E in Es.
      injection Es as <- <-. simpl.
      eapply perm_trans; [apply Permutation_sym, Hp'|apply perm_skip, Hp].
    - destruct (zget (ha (hh s)) 0) as [x|] eqn:E0.
      + destruct (hstep_pop s x E0) as [h' [E [_ [Hp' _]]]]. rewrite E in Es.
        injection Es as <- <-. simpl.
        apply Permutation_sym, remove_one_perm.
        eapply perm_trans; [apply Permutation_sym, Hp|exact Hp'].
      + apply zget0_nil in E0. rewrite hstep_pop_empty in Es by exact E0.
        injection Es as <- <-. exact Hp.
  Qed.

  Lemma heap_contents_multiset initial ops :
    Permutation (ha (hh (hrun_state initial ops))) (ms_run initial ops (hrun initial ops)).
  Proof.
    rewrite hrun_eq. unfold Model.hrun_state.
    destruct (hinit_eq initial) as [h [_ [E [_ [Hp Ho]]]]]. rewrite E.
    apply hms_from; simpl; [apply Ho; exact SWO|apply Permutation_sym; exact Hp].
  Qed.

  Lemma heap_empty_panics initial ops :
    let s := hrun_state initial ops in
    (snd (hstep s HPop) = OPanic <-> ha (hh s) = []) /\
    (snd (hstep s HPeek) = OPanic <-> ha (hh s) = []) /\
    (snd (hstep s HPop) = OPanic -> fst (hstep s HPop) = s) /\
    fst (hstep s HPeek) = s.
  Proof.
    intros s.
    assert (Hpop : snd (hstep s HPop) = OPanic <-> ha (hh s) = []).
    { destruct (zget (ha (hh s)) 0) as [x|] eqn:E0.
      - destruct (hstep_pop s x E0) as [h' [E _]]. rewrite E. simpl.
        split; [discriminate|]. intros En. rewrite En in E0. discriminate.
      - apply zget0_nil in E0. rewrite hstep_pop_empty by exact E0. simpl. tauto. }
    split; [exact Hpop|]. split; [|split].
    - rewrite hstep_peek. simpl. destruct (zget (ha (hh s)) 0) as [x|] eqn:E0.
      + split; [discriminate|]. intros En. rewrite En in E0. discriminate.
      + apply zget0_nil in E0. tauto.
    - intros Hp. apply Hpop in Hp. rewrite hstep_pop_empty by exact Hp. reflexivity.
    - rewrite hstep_peek. reflexivity.
  Qed.
End HeapHist.

(* ---------- xheap.PriorityQueue[int,int]: gen and iterators (C15) ---------- *)
Section QueueIter.
  Variable pless : Z -> Z -> bool.

  Notation qstep := (qstep pless).
  Notation qinit := (qinit pless).
  Notation qrun_state := (qrun_state pless).
  Notation kpl := (kpless pless).
  Notation kpi := (kp_index Z.eqb).

  Lemma qnew_ok initial :
    exists q, qnew pless initial = Ok q /\ hgen q = 0.
  Proof.
    unfold qnew, pq_new. destruct (pq_filter Z.eqb initial [] []) as [m filtered].
    destruct (new_spec kpl kpi filtered m) as [c1 [_ [E _]]].
    eexists. split; [exact E|reflexivity].
  Qed.

  Lemma qinit_eq initial :
    exists q, qnew pless initial = Ok q /\ qinit initial = mkQst q [] /\ hgen q = 0.
  Proof.
    destruct (qnew_ok initial) as [q [E Hg]]. exists q. unfold Model.qinit. rewrite E. auto.
  Qed.

  Lemma pq_update_gen k p (q q' : zpq) :
    pq_update Z.eqb pless k p q = Ok q' -> hgen q' = hgen q + 1.
  Proof.
    unfold pq_update. destruct (m_get Z.eqb (hs q) k) as [idx|]; intros E.
    - apply update_at_gen in E. exact E.
    - apply push_gen in E. exact E.
  Qed.

  Lemma pq_pop_gen (q q' : zpq) k :
    pq_pop Z.eqb 0 0 pless q = Ok (k, q') -> hgen q' = hgen q + 1.
  Proof.
    unfold pq_pop. destruct (pop (kpzero 0 0) kpl kpi q) as [[x q1]|c] eqn:E; simpl; intros E'.
    - injection E' as _ <-. simpl. apply pop_gen in E. exact E.
    - discriminate.
  Qed.

  Lemma pq_remove_gen k (q q' : zpq) :
    pq_remove Z.eqb 0 0 pless k q = Ok q' ->
    (pq_contains Z.eqb k q = false /\ q' = q) \/
    (pq_contains Z.eqb k q = true /\ hgen q' = hgen q + 1).
  Proof.
    unfold pq_remove, pq_contains. destruct (m_get Z.eqb (hs q) k) as [i|]; intros E.
    - right. split; [reflexivity|].
      destruct (remove_at (kpzero 0 0) kpl kpi i q) as [q1|c] eqn:E1; simpl in E; [|discriminate].
      injection E as <-. simpl. apply remove_at_gen in E1. exact E1.
    - left. injection E as <-. auto.
  Qed.

  (* the queue (not the iterators) after a step *)
  Lemma qstep_qq_gen s o :
    hgen (qq s) <= hgen (qq (fst (qstep s o))) /\
    (q_modifies s o = true -> snd (qstep s o) <> OPanic ->
     hgen (qq (fst (qstep s o))) = hgen (qq s) + 1).
  Proof.
    destruct o; cbv beta iota zeta delta [Model.qstep q_modifies].
    - destruct (pq_update Z.eqb pless k p (qq s)) as [q'|c] eqn:E; simpl.
      + apply pq_update_gen in E. lia.
      + split; [lia|]. intros _ H. congruence.
    - destruct (pq_pop Z.eqb 0 0 pless (qq s)) as [[k q']|c] eqn:E; simpl.
      + apply pq_pop_gen in E. lia.
      + split; [lia|]. intros _ H. congruence.
    - destruct (pq_peek (qq s)); simpl; split; try lia; discriminate.
    - simpl. split; [lia|discriminate].
    - destruct (pq_priority Z.eqb 0 k (qq s)); simpl; split; try lia; discriminate.
    - destruct (pq_remove Z.eqb 0 0 pless k (qq s)) as [q'|c] eqn:E; simpl.
      + apply pq_remove_gen in E. destruct E as [[Ec ->]|[Ec Eg]]; rewrite Ec.
        * split; [lia|discriminate].
        * split; [lia|]. intros _ _. exact Eg.
      + split; [lia|]. intros _ H. congruence.
    - simpl. split; [lia|discriminate].
    - unfold pq_grow, grow. destruct (n <? 0); simpl; split; try lia; discriminate.
    - simpl. split; [lia|discriminate].
    - destruct (nth_error (qits s) j); [|simpl; split; [lia|discriminate]].
      destruct (pq_iter_next (qq s) h). simpl. split; [lia|discriminate].
    - destruct (pq_iterate_all (qq s)) as [[l|c]|]; simpl; split; try lia; discriminate.
  Qed.

  Lemma qstep_its_same s o :
    match o with QIterNew | QIterNext _ => False | _ => True end ->
    qits (fst (qstep s o)) = qits s.
  Proof.
    intros Hk. destruct o; try destruct Hk; simpl.
    - destruct (pq_update Z.eqb pless k p (qq s)); reflexivity.
    - destruct (pq_pop Z.eqb 0 0 pless (qq s)) as [[k q']|c]; reflexivity.
    - destruct (pq_peek (qq s)); reflexivity.
    - reflexivity.
    - destruct (pq_priority Z.eqb 0 k (qq s)); reflexivity.
    - destruct (pq_remove Z.eqb 0 0 pless k (qq s)); reflexivity.
    - reflexivity.
    - destruct (pq_grow n (qq s)); reflexivity.
    - destruct (pq_iterate_all (qq s)) as [[l|c]|]; reflexivity.
  Qed.

  Lemma pq_iter_next_eq (q : zpq) it :
    pq_iter_next q it =
    (match fst (iter_next q it) with
     | Ok (Some x) => Ok (Some (fst x)) | Ok None => Ok None | Panic c => Panic c end,
     snd (iter_next q it)).
  Proof. unfold pq_iter_next. destruct (iter_next q it) as [r it']. reflexivity. Qed.

  Lemma qstep_iter_next s j :
    qstep s (QIterNext j) =
    match nth_error (qits s) j with
    | None => (s, OBad)
    | Some it => (mkQst (qq s) (upd (qits s) j (snd (iter_next (qq s) it))),
                  out_of fst (fst (iter_next (qq s) it)))
    end.
  Proof.
    simpl. destruct (nth_error (qits s) j) as [it|]; [|reflexivity].
    rewrite pq_iter_next_eq. destruct (iter_next (qq s) it) as [[[x|]|c] it']; reflexivity.
  Qed.

  Definition qgen_inv (s : qst) : Prop :=
    0 <= hgen (qq s) /\ Forall (fun it => it_gen it <= hgen (qq s)) (qits s).

  Lemma qstep_gen_inv s o : qgen_inv s -> qgen_inv (fst (qstep s o)).
  Proof.
    intros [Hg Hits]. pose proof (qstep_qq_gen s o) as [Hle _].
    assert (Hother : match o with QIterNew | QIterNext _ => False | _ => True end ->
                     qgen_inv (fst (qstep s o))).
    { intros Hk. split; [lia|]. rewrite qstep_its_same by exact Hk.
      eapply Forall_impl; [|exact Hits]. simpl. intros it Hit. lia. }
    destruct o; try (apply Hother; exact I).
    - simpl. split; [exact Hg|]. apply Forall_app. split; [exact Hits|].
      constructor; [simpl; lia|constructor].
    - rewrite qstep_iter_next. destruct (nth_error (qits s) j) as [it|] eqn:Ej; [|split; assumption].
      simpl. split; [exact Hg|]. apply Forall_upd; [exact Hits|].
      apply iter_next_gen_le. rewrite Forall_forall in Hits. apply Hits.
      eapply nth_error_In; eassumption.
  Qed.

  Lemma qinit_gen_inv initial : qgen_inv (qinit initial).
  Proof.
    destruct (qinit_eq initial) as [q [_ [E Hg]]]. rewrite E. split; simpl; [lia|constructor].
  Qed.

  Lemma qreach_ind (Pr : qst -> Prop) initial :
    Pr (qinit initial) -> (forall s o, Pr s -> Pr (fst (qstep s o))) ->
    forall ops, Pr (qrun_state initial ops).
  Proof.
    intros H0 Hstep ops. unfold Model.qrun_state. generalize (qinit initial) H0.
    induction ops as [|o ops IH]; intros s Hs; simpl; [exact Hs|].
    apply IH. apply Hstep. exact Hs.
  Qed.

  Lemma qgen_inv_reach initial ops : qgen_inv (qrun_state initial ops).
  Proof. apply qreach_ind; [apply qinit_gen_inv|intros s o; apply qstep_gen_inv]. Qed.

  Lemma pq_drain_eq (q : zpq) : forall fuel it,
      pq_drain fuel q it =
      match drain fuel q it with
      | Some (Ok l) => Some (Ok (map fst l))
      | Some (Panic c) => Some (Panic c)
      | None => None
      end.
  Proof.
    induction fuel as [|fuel IH]; intros it; [reflexivity|].
    cbn [pq_drain drain]. rewrite pq_iter_next_eq.
    destruct (iter_next q it) as [[[x|]|c] it']; cbn [fst snd]; try reflexivity.
    rewrite IH. destruct (drain fuel q it') as [[l|c]|]; reflexivity.
  Qed.

  Lemma pq_iterate_all_unchanged (q : zpq) :
    hgen q <> -1 -> pq_iterate_all q = Some (Ok (map fst (ha q))).
  Proof.
    intros Hg. unfold pq_iterate_all. rewrite pq_drain_eq.
    fold (iterate_all q). rewrite iterate_all_unchanged by exact Hg. reflexivity.
  Qed.

  Lemma queue_iter_unchanged initial ops :
    let q := qq (qrun_state initial ops) in pq_iterate_all q = Some (Ok (map fst (ha q))).
  Proof.
    intros q. apply pq_iterate_all_unchanged.
    destruct (qgen_inv_reach initial ops) as [Hg _]. fold q in Hg. lia.
  Qed.

  Lemma queue_iter_add_remove_panics initial ops o it :
    let s := qrun_state initial ops in
    q_modifies s o = true ->
    snd (qstep s o) <> OPanic ->
    In it (qits (fst (qstep s o))) -> it_gen it <> -1 ->
    fst (pq_iter_next (qq (fst (qstep s o))) it) = Panic PModified.
  Proof.
    intros s Hmod Hnp Hin Hst.
    destruct (qgen_inv_reach initial ops) as [Hg Hits]. fold s in Hg, Hits.
    pose proof (qstep_qq_gen s o) as [_ Hplus]. specialize (Hplus Hmod Hnp).
    rewrite qstep_its_same in Hin by (destruct o; try exact I; discriminate Hmod).
    rewrite Forall_forall in Hits. specialize (Hits it Hin). simpl in Hits.
    rewrite pq_iter_next_eq. simpl.
    rewrite iter_next_modified; [reflexivity|exact Hst|lia].
  Qed.

  Definition qghost_inv (s : qst) (gs : list ghost) : Prop :=
    Forall2 (ginv fst (hgen (qq s))) (qits s) gs.

  Lemma qghost_step_inv s gs o :
    qgen_inv s -> qghost_inv s gs ->
    qghost_inv (fst (qstep s o)) (qghost_step pless s gs o).
  Proof.
    intros [Hg _] H. unfold qghost_inv in *.
    pose proof (qstep_qq_gen s o) as [Hle _].
    assert (Hother : match o with QIterNew | QIterNext _ => False | _ => True end ->
              Forall2 (ginv fst (hgen (qq (fst (qstep s o))))) (qits (fst (qstep s o)))
                      (qghost_step pless s gs o)).
    { intros Hk. rewrite qstep_its_same by exact Hk.
      replace (qghost_step pless s gs o) with gs by (destruct o; try reflexivity; destruct Hk).
      eapply Forall2_weaken; [|exact H]. intros it g. apply ginv_mono. exact Hle. }
    destruct o; try (apply Hother; exact I).
    - simpl. apply Forall2_snoc; [exact H|apply ginv_new].
    - unfold qghost_step. rewrite qstep_iter_next.
      pose proof (Forall2_nth_error _ _ _ j H) as Hj.
      destruct (nth_error (qits s) j) as [it|] eqn:Ej; destruct (nth_error gs j) as [g|] eqn:Egj;
        try contradiction; [|exact H].
      simpl. apply Forall2_upd; [exact H|].
      apply ginv_next; assumption.
  Qed.

  Lemma qgrun_inv : forall ops s gs,
      qgen_inv s -> qghost_inv s gs ->
      qghost_inv (fst (qgrun pless s gs ops)) (snd (qgrun pless s gs ops)).
  Proof.
    induction ops as [|o ops IH]; intros s gs Hs Hgs; simpl; [exact Hgs|].
    apply IH; [apply qstep_gen_inv; exact Hs|apply qghost_step_inv; assumption].
  Qed.

  Lemma queue_iter_ghost_ok initial ops :
    Forall ghost_ok (snd (qgrun pless (qinit initial) [] ops)).
  Proof.
    pose proof (qgrun_inv ops (qinit initial) [] (qinit_gen_inv initial)) as H.
    eapply Forall2_Forall_r; [|apply H].
    - intros it g. apply ginv_ok.
    - destruct (qinit_eq initial) as [q [_ [E _]]]. rewrite E. constructor.
  Qed.
End QueueIter.
