(* Layer S for the binary heap and the priority queue: the predicates and the ideal objects
   (a multiset as a list up to Permutation; a finite map as an association list with unique
   keys) used in the statements of C05 and C15, and the ghost instrumentation of iterators.
   Definitions only. *)
From Coq Require Import Permutation Sorted.
From Juniper Require Import Common.Base Heap.Model.

(* ---- orderings ---- *)
Definition strict_weak {T} (less : T -> T -> bool) : Prop :=
  (forall a, less a a = false) /\
  (forall a b c, less a b = true -> less b c = true -> less a c = true) /\
  (forall a b c, less a b = false -> less b c = false -> less a c = false).

(* ---- invariants ---- *)
Section Inv.
  Context {T : Type}.
  Variable less : T -> T -> bool.

  (* for every index i > 0: less a[i] a[parent i] = false *)
  Definition heap_ordered (a : list T) : Prop :=
    forall i x y, 0 < i -> zget a i = Some x -> zget a (parent i) = Some y -> less x y = false.

  (* x is held and no held item is less than x *)
  Definition is_min (x : T) (l : list T) : Prop :=
    In x l /\ forall y, In y l -> less y x = false.

  (* non-decreasing: no later item is less than an earlier one *)
  Definition nondecreasing (l : list T) : Prop :=
    StronglySorted (fun a b => less b a = false) l.
End Inv.

Section IndexInv.
  Context {K P : Type}.
  Variable keqb : K -> K -> bool.

  (* m's domain is exactly the keys in the array, m k is the position of k, keys are distinct *)
  Definition index_exact (a : list (K * P)) (m : imap K) : Prop :=
    (forall k i, m_get keqb m k = Some i <-> exists p, zget a i = Some (k, p)) /\
    NoDup (map fst a).
End IndexInv.

Definition prefix_of {T} (p l : list T) : Prop := exists r, l = p ++ r.

(* ---- C05, heap: ideal multiset of held items = initial + pushes - pops ---- *)
Fixpoint remove_one (x : Z) (l : list Z) : list Z :=
  match l with
  | [] => []
  | y :: r => if x =? y then r else y :: remove_one x r
  end.

(* ghost multiset update, driven by the operation and what it returned *)
Definition ms_step (l : list Z) (o : hop) (r : out) : list Z :=
  match o, r with
  | HPush x, OUnit => x :: l
  | HPop, OVal x => remove_one x l
  | _, _ => l
  end.

Section HeapSpec.
  Variable less : Z -> Z -> bool.

  (* what operation o may return when the held multiset is l *)
  Definition hspec_ok (l : list Z) (o : hop) (r : out) : Prop :=
    match o with
    | HPush _ => r = OUnit
    | HPop | HPeek =>
        match l with
        | [] => r = OPanic
        | _ => exists x, r = OVal x /\ is_min less x l
        end
    | HLen => r = OInt (zlen l)
    | HGrow n | HShrink n => r = if n <? 0 then OPanic else OUnit
    | HIterate => exists p, r = OList p /\ Permutation p l
    | HIterNew => r = OUnit
    | HIterNext _ => True                     (* constrained by C15 *)
    end.

  Fixpoint hspec_run (l : list Z) (ops : list hop) (outs : list out) : Prop :=
    match ops, outs with
    | [], [] => True
    | o :: ops', r :: outs' => hspec_ok l o r /\ hspec_run (ms_step l o r) ops' outs'
    | _, _ => False
    end.

  (* the ghost multiset after a history *)
  Fixpoint ms_run (l : list Z) (ops : list hop) (outs : list out) : list Z :=
    match ops, outs with
    | o :: ops', r :: outs' => ms_run (ms_step l o r) ops' outs'
    | _, _ => l
    end.
End HeapSpec.

(* ---- C05, queue: ideal finite map key -> priority as an association list ---- *)
Fixpoint i_get (k : Z) (l : list (Z * Z)) : option Z :=
  match l with
  | [] => None
  | (k', p) :: r => if k =? k' then Some p else i_get k r
  end.

Definition i_remove (k : Z) (l : list (Z * Z)) : list (Z * Z) :=
  filter (fun x => negb (k =? fst x)) l.

Definition i_update (k p : Z) (l : list (Z * Z)) : list (Z * Z) := (k, p) :: i_remove k l.

(* each distinct key once, with the priority of its first occurrence *)
Fixpoint first_occ (l : list (Z * Z)) : list (Z * Z) :=
  match l with
  | [] => []
  | (k, p) :: r => (k, p) :: i_remove k (first_occ r)
  end.

Definition qs_step (l : list (Z * Z)) (o : qop) (r : out) : list (Z * Z) :=
  match o, r with
  | QUpdate k p, OUnit => i_update k p l
  | QPop, OVal k => i_remove k l
  | QRemove k, OUnit => i_remove k l
  | _, _ => l
  end.

Section QueueSpec.
  Variable pless : Z -> Z -> bool.

  (* k is present and no present key has a priority less than k's *)
  Definition is_min_key (k : Z) (l : list (Z * Z)) : Prop :=
    exists p, i_get k l = Some p /\
              forall k' p', i_get k' l = Some p' -> pless p' p = false.

  Definition qspec_ok (l : list (Z * Z)) (o : qop) (r : out) : Prop :=
    match o with
    | QUpdate _ _ | QRemove _ => r = OUnit
    | QPop | QPeek =>
        match l with
        | [] => r = OPanic
        | _ => exists k, r = OVal k /\ is_min_key k l
        end
    | QContains k => r = OBool (match i_get k l with Some _ => true | None => false end)
    | QPriority k => r = OInt (match i_get k l with Some p => p | None => 0 end)
    | QLen => r = OInt (zlen l)
    | QGrow n => r = if n <? 0 then OPanic else OUnit
    | QIterate => exists ks, r = OList ks /\ Permutation ks (map fst l)
    | QIterNew => r = OUnit
    | QIterNext _ => True                     (* constrained by C15 *)
    end.

  Fixpoint qspec_run (l : list (Z * Z)) (ops : list qop) (outs : list out) : Prop :=
    match ops, outs with
    | [], [] => True
    | o :: ops', r :: outs' => qspec_ok l o r /\ qspec_run (qs_step l o r) ops' outs'
    | _, _ => False
    end.

  Fixpoint qs_run (l : list (Z * Z)) (ops : list qop) (outs : list out) : list (Z * Z) :=
    match ops, outs with
    | o :: ops', r :: outs' => qs_run (qs_step l o r) ops' outs'
    | _, _ => l
    end.
End QueueSpec.

(* ---- C15: ghost instrumentation of explicit iterators ----
   The snapshot is the contents at the iterator's FIRST Next (when it captures gen). *)
Record ghost := mkGhost {
  g_started : bool;       (* Next has been called at least once *)
  g_snap : list Z;        (* contents (heap items / queue keys, array order) at the first Next *)
  g_yield : list Z;       (* items returned so far *)
  g_ended : bool;         (* it has reported exhaustion *)
  g_panicked : bool       (* it has panicked *)
}.

Definition ghost0 : ghost := mkGhost false [] [] false false.

(* one Next call on a ghost: [contents] is what the container holds now, [r] what Next returned *)
Definition ghost_next (contents : list Z) (g : ghost) (r : out) : ghost :=
  let snap := if g_started g then g_snap g else contents in
  match r with
  | OVal x => mkGhost true snap (g_yield g ++ [x]) (g_ended g) (g_panicked g)
  | OEnd => mkGhost true snap (g_yield g) true (g_panicked g)
  | _ => mkGhost true snap (g_yield g) (g_ended g) true
  end.

Definition ghost_ok (g : ghost) : Prop :=
  prefix_of (g_yield g) (g_snap g) /\ (g_ended g = true -> g_yield g = g_snap g).

Section HeapGhost.
  Variable less : Z -> Z -> bool.

  Definition hghost_step (s : hst) (gs : list ghost) (o : hop) : list ghost :=
    match o with
    | HIterNew => gs ++ [ghost0]
    | HIterNext j =>
        match nth_error gs j with
        | Some g => upd gs j (ghost_next (ha (hh s)) g (snd (hstep less s o)))
        | None => gs
        end
    | _ => gs
    end.

  Fixpoint hgrun (s : hst) (gs : list ghost) (ops : list hop) : hst * list ghost :=
    match ops with
    | [] => (s, gs)
    | o :: ops' => hgrun (fst (hstep less s o)) (hghost_step s gs o) ops'
    end.

  (* adds or removes an element (when it does not panic) *)
  Definition h_adds_or_removes (o : hop) : bool :=
    match o with HPush _ | HPop => true | _ => false end.
End HeapGhost.

Section QueueGhost.
  Variable pless : Z -> Z -> bool.

  Definition qghost_step (s : qst) (gs : list ghost) (o : qop) : list ghost :=
    match o with
    | QIterNew => gs ++ [ghost0]
    | QIterNext j =>
        match nth_error gs j with
        | Some g => upd gs j (ghost_next (map fst (ha (qq s))) g (snd (qstep pless s o)))
        | None => gs
        end
    | _ => gs
    end.

  Fixpoint qgrun (s : qst) (gs : list ghost) (ops : list qop) : qst * list ghost :=
    match ops with
    | [] => (s, gs)
    | o :: ops' => qgrun (fst (qstep pless s o)) (qghost_step s gs o) ops'
    end.

  (* adds or removes an element or changes a priority (when it does not panic):
     Update of a new or an existing key, Pop, Remove of a present key *)
  Definition q_modifies (s : qst) (o : qop) : bool :=
    match o with
    | QUpdate _ _ | QPop => true
    | QRemove k => pq_contains Z.eqb k (qq s)
    | _ => false
    end.
End QueueGhost.
