(* Correspondence evaluator for xheap.Heap[int] and xheap.PriorityQueue[int,int]: runs the
   model on a recorded operation list and compares with the implementation's recorded
   observations (evaluated with vm_compute).  No proofs; depends on Model only. *)
From Juniper Require Import Common.Base Heap.Model.

(* the orderings the harness uses.  0: natural less; 1: reversed; 2: coarse (many ties);
   3: NewCmp with the natural compare (less a b := compare(a,b) < 0); 4: NewCmp coarse. *)
Definition cmp_less (cmp : Z -> Z -> comparison) (a b : Z) : bool :=
  match cmp a b with Lt => true | _ => false end.

Definition order_of (mode : Z) : Z -> Z -> bool :=
  if mode =? 0 then Z.ltb
  else if mode =? 1 then (fun a b => b <? a)
  else if mode =? 2 then (fun a b => Z.quot a 4 <? Z.quot b 4)
  else if mode =? 3 then cmp_less Z.compare
  else cmp_less (fun a b => Z.compare (Z.quot a 4) (Z.quot b 4)).

Fixpoint list_eqb (l m : list Z) : bool :=
  match l, m with
  | [], [] => true
  | x :: l', y :: m' => (x =? y) && list_eqb l' m'
  | _, _ => false
  end.

Definition out_eqb (a b : out) : bool :=
  match a, b with
  | OUnit, OUnit | OEnd, OEnd | OPanic, OPanic | OBad, OBad => true
  | OVal x, OVal y => x =? y
  | OInt x, OInt y => x =? y
  | OBool x, OBool y => Bool.eqb x y
  | OList l, OList m => list_eqb l m
  | _, _ => false
  end.

Fixpoint outs_eqb (a b : list out) : bool :=
  match a, b with
  | [], [] => true
  | x :: a', y :: b' => out_eqb x y && outs_eqb a' b'
  | _, _ => false
  end.

(* a case = (ordering mode, initial slice, operations, observed outputs) *)
Definition check_heap (c : Z * list Z * list hop * list out) : bool :=
  let '(mode, initial, ops, outs) := c in
  outs_eqb (hrun (order_of mode) initial ops) outs.

(* a case = (ordering mode, initial (key, priority) list, operations, observed outputs) *)
Definition check_pq (c : Z * list (Z * Z) * list qop * list out) : bool :=
  let '(mode, initial, ops, outs) := c in
  outs_eqb (qrun (order_of mode) initial ops) outs.

(* the evaluators compute *)
Example check_heap_computes :
  check_heap (0, [5; 3; 8; 1],
              [HLen; HPeek; HPush 0; HIterNew; HIterNext 0; HPop; HIterNext 0; HPop; HIterate;
               HPop; HPop; HPop; HPop; HPeek; HGrow (-1); HShrink 2],
              [OInt 4; OVal 1; OUnit; OUnit; OVal 0; OVal 0; OPanic; OVal 1; OList [3; 5; 8];
               OVal 3; OVal 5; OVal 8; OPanic; OPanic; OPanic; OUnit]) = true.
Proof. vm_compute. reflexivity. Qed.

Example check_pq_computes :
  check_pq (2, [(1, 50); (2, 10); (1, 0); (3, 30)],
            [QLen; QPeek; QPriority 1; QPriority 9; QContains 9; QUpdate 9 1; QContains 9;
             QIterNew; QIterNext 0; QUpdate 1 60; QIterNext 0; QRemove 2; QIterate;
             QPop; QPop; QPop; QPop; QPeek],
            [OInt 3; OVal 2; OInt 50; OInt 0; OBool false; OUnit; OBool true;
             OUnit; OVal 9; OUnit; OPanic; OUnit; OList [9; 1; 3];
             OVal 9; OVal 3; OVal 1; OPanic; OPanic]) = true.
Proof. vm_compute. reflexivity. Qed.
