(* Common definitions shared by all models: panics as values, Z-indexed list access
   (Go slices), and small list lemmas.  Stdlib only; no axioms. *)
From Coq Require Export List ZArith Lia Bool.
Export ListNotations.
Open Scope Z_scope.

(* Go panics are values of the model (A2.3 of DESIGN.md). *)
Inductive pclass := PEmpty | PIndex | PNeg | PModified | PDivZero | PNil | POther.

Inductive result (A : Type) : Type :=
| Ok (a : A)
| Panic (c : pclass).
Arguments Ok {A} a.
Arguments Panic {A} c.

Definition is_panic {A} (r : result A) : bool :=
  match r with Ok _ => false | Panic _ => true end.

Definition zlen {A} (l : list A) : Z := Z.of_nat (length l).

(* l[i] of a Go slice: None models the index-out-of-range panic. *)
Definition zget {A} (l : list A) (i : Z) : option A :=
  if i <? 0 then None else nth_error l (Z.to_nat i).

Fixpoint upd {A} (l : list A) (n : nat) (x : A) : list A :=
  match l, n with
  | [], _ => []
  | _ :: t, O => x :: t
  | h :: t, S n' => h :: upd t n' x
  end.

(* l[i] = x of a Go slice. *)
Definition zset {A} (l : list A) (i : Z) (x : A) : option (list A) :=
  if (i <? 0) || (zlen l <=? i) then None else Some (upd l (Z.to_nat i) x).

(* l[lo:hi] for 0 <= lo <= hi <= len l (callers establish the range). *)
Definition zslice {A} (l : list A) (lo hi : Z) : list A :=
  firstn (Z.to_nat (hi - lo)) (skipn (Z.to_nat lo) l).

Definition zrepeat {A} (x : A) (n : Z) : list A := repeat x (Z.to_nat n).

(* Go's truncated remainder is Z.rem; division by zero panics in Go and is guarded by callers. *)

Lemma zlen_nonneg {A} (l : list A) : 0 <= zlen l.
Proof. unfold zlen; lia. Qed.

Lemma zlen_app {A} (l1 l2 : list A) : zlen (l1 ++ l2) = zlen l1 + zlen l2.
Proof. unfold zlen; rewrite app_length; lia. Qed.

Lemma zlen_cons {A} (x : A) l : zlen (x :: l) = 1 + zlen l.
Proof. unfold zlen; simpl length; lia. Qed.

Lemma zlen_repeat {A} (x : A) n : 0 <= n -> zlen (zrepeat x n) = n.
Proof. intros; unfold zlen, zrepeat; rewrite repeat_length; lia. Qed.

Lemma upd_length {A} (l : list A) n x : length (upd l n x) = length l.
Proof. revert n; induction l as [|h t IH]; intros [|n]; simpl; auto. Qed.

Lemma nth_error_upd_same {A} (l : list A) n x :
  (n < length l)%nat -> nth_error (upd l n x) n = Some x.
Proof.
  revert n; induction l as [|h t IH]; intros [|n] H; simpl in *; try lia; auto.
  apply IH; lia.
Qed.

Lemma nth_error_upd_other {A} (l : list A) n m x :
  n <> m -> nth_error (upd l n x) m = nth_error l m.
Proof.
  revert n m; induction l as [|h t IH]; intros [|n] [|m] H; simpl; auto; try congruence.
Qed.

Lemma zget_Some_range {A} (l : list A) i x : zget l i = Some x -> 0 <= i < zlen l.
Proof.
  unfold zget, zlen; destruct (i <? 0) eqn:E; [discriminate|].
  intros H. apply Z.ltb_ge in E.
  assert (Hn : nth_error l (Z.to_nat i) <> None) by congruence.
  apply nth_error_Some in Hn. lia.
Qed.

Lemma zget_in_range {A} (l : list A) i : 0 <= i < zlen l -> exists x, zget l i = Some x.
Proof.
  unfold zget, zlen; intros H.
  destruct (i <? 0) eqn:E; [apply Z.ltb_lt in E; lia|].
  destruct (nth_error l (Z.to_nat i)) eqn:N; [eauto|].
  apply nth_error_None in N; lia.
Qed.
