(* C04 / C15 (deque part) -- the tie to the source by translation.
   Generated/ImpDeque.v is the statement-level translation of EVERY method of container/deque/deque.go
   (Len, Grow, Shrink, PushFront, PushBack, maybeExpand, resize, PopFront, PopBack, Front, Back, Item, Set,
   positiveMod and dequeIterator.Next), regenerated from the Go source on every run by tools/gofacts/imp.go, with
   64-bit wrap-around on every int operation and the run-time panics of indexing, slicing, % and make explicit.
   The theorems below say that, in every state a history of calls can reach from the zero Deque, each translated
   method returns the same value, panics with the same class and leaves the same state (buffer, front, back,
   generation) as the function of the hand-written model Deque/Model.v that Properties/C04.v and C15_deque.v are
   about.  Only statements live here; each is closed by [exact] of a lemma of Translated/ImpDequeOK.v. *)
From Juniper Require Import Common.Base Deque.Model Deque.Spec Deque.Proofs.
From Juniper Require Import Translated.GoImp Generated.Params Generated.ImpDeque Translated.ImpDequeOK.

Theorem C04_translated_params_ok : 1 <= deque_minSize <= alloc_max.
Proof. unfold deque_minSize. rewrite alloc_max_val. lia. Qed.

(* every history shorter than 2^60 calls; any element type; the shipped minSize and growth factor *)
Theorem C04_translated_source_agrees :
  forall (T : Type) (zero : T) (ops : list (op T)),
    Z.of_nat (length ops) < 2^60 ->
    gi_agrees zero deque_minSize (sd (run_state zero deque_minSize deque_growMul st0 ops)).
Proof. intros T zero. exact (translated_agrees_on_histories zero deque_minSize C04_translated_params_ok). Qed.

(* the same for any well-formed deque whatever its history (e.g. one whose backing array came from Shrink(0)) *)
Theorem C04_translated_source_agrees_wf :
  forall (T : Type) (zero : T) (d : deque T),
    wf d -> capok d -> genok d -> gi_agrees zero deque_minSize d.
Proof. intros T zero. exact (gi_agrees_wf zero deque_minSize C04_translated_params_ok). Qed.

(* C15: the translated dequeIterator.Next is the model's iter_next in every reachable state, for every iterator
   value (fresh, advanced, exhausted or stale) *)
Theorem C15_translated_iterator_agrees :
  forall (T : Type) (zero : T) (ops : list (op T)) (it : Model.iter),
    Z.of_nat (length ops) < 2^60 ->
    let d := sd (run_state zero deque_minSize deque_growMul st0 ops) in
    gi_dequeIterator_Next zero d it = lift_next zero (iter_next d it).
Proof.
  intros T zero ops it Hl d.
  exact (proj2 (proj2 (proj2 (proj2 (proj2 (proj2 (proj2 (proj2 (proj2 (proj2 (proj2
    (translated_agrees_on_histories zero deque_minSize C04_translated_params_ok ops Hl))))))))))) it).
Qed.

(* Len has no side effect and never panics in ANY state: the translator's early evaluation of d.Len() in
   `i < 0 || i >= d.Len()` is sound *)
Theorem C04_translated_Len_safe : forall (T : Type) (d : deque T), exists v, gi_Deque_Len d = Ok v.
Proof. exact @gi_Deque_Len_safe. Qed.

(* the 64-bit wraps the translation carries and the model omits cannot happen: in particular the generation
   counter stays below 2^62 in every history shorter than 2^60 *)
Theorem C04_translated_gen_bound :
  forall (T : Type) (zero : T) (ops : list (op T)),
    gen (sd (run_state zero deque_minSize deque_growMul st0 ops)) <= 2 * Z.of_nat (length ops).
Proof.
  intros T zero ops.
  pose proof (run_gen_le zero deque_minSize ops st0) as H. cbn [st0 sd empty gen] in H. lia.
Qed.

(* non-vacuity: the translated code RUNS.  A wrapped buffer (front = 14, back = 2, cap 16), then Len, Item in and
   out of range, a Grow whose allocation fails, PopFront, a Grow that reallocates, an iterator step, and the same
   iterator after a Set (stale) *)
Example C04_translated_runs :
  let pre := [OpPushBack 1; OpPushBack 2; OpPushBack 3; OpPopFront; OpPushFront 4; OpPushFront 5; OpPushFront 6] in
  let d := sd (run_state 0 16 2 st0 pre) in   (* explicit constants: the example does not depend on the shipped ones *)
  let z := [0; 0; 0; 0; 0; 0; 0; 0; 0; 0; 0] in
  ((front d, back d, cap d), gi_Deque_Len d, gi_Deque_Item 4 d, gi_Deque_Item 5 d,
   gi_Deque_Grow 0 9223372036854775807 d,
   gi_Deque_PopFront 0 d,
   match gi_Deque_Grow 0 20 d with Ok d2 => Ok (cap d2, front d2, back d2, window d2) | Panic c => Panic c end,
   gi_dequeIterator_Next 0 d (iterate d),
   match gi_Deque_Set 0 9 d with Ok d3 => gi_dequeIterator_Next 0 d3 (mkIter 15 false 8) | Panic c => Panic c end)
  = ((14, 2, 16), Ok 5, Ok 3, Panic PIndex,
     Panic PAlloc,
     Ok (6, mkDeque (Some ([4; 2; 3] ++ z ++ [0; 5])) 15 2 9),
     Ok (36, 0, 4, [6; 5; 4; 2; 3]),
     Ok ((6, true), mkIter 15 false 8),
     Panic PModified).
Proof. vm_compute. reflexivity. Qed.

Print Assumptions C04_translated_params_ok.
Print Assumptions C04_translated_source_agrees.
Print Assumptions C04_translated_source_agrees_wf.
Print Assumptions C15_translated_iterator_agrees.
Print Assumptions C04_translated_Len_safe.
Print Assumptions C04_translated_gen_bound.
Print Assumptions C04_translated_runs.
