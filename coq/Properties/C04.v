(* C04 — deque.Deque equals an ideal double-ended sequence for every history.
   Only statements live here; each is closed by [exact] of a lemma proved in Deque/Proofs.v. *)
From Juniper Require Import Common.Base Deque.Model Deque.Spec Deque.Proofs.

Section C04.
  Context {T : Type} (zero : T) (minSize growMul : Z).
  (* guards on the regenerated constants; discharged for the shipped values in Generated/ParamsOK.v *)
  Hypothesis Hmin : 1 <= minSize.
  Hypothesis Hgrow : 2 <= growMul.

  Notation run := (run zero minSize growMul).
  Notation run_state := (run_state zero minSize growMul).
  Notation step := (step zero minSize growMul).

  (* every call returns what the ideal sequence returns, for every history from the zero value *)
  Theorem C04_refinement : forall ops,
      forallb seq_op ops = true -> run st0 ops = srun [] ops.
  Proof. exact (deque_refinement zero minSize growMul Hmin Hgrow). Qed.

  (* the live window of the buffer is the ideal sequence after every history (iterator ops included) *)
  Theorem C04_abs : forall ops, window (sd (run_state st0 ops)) = srun_state [] ops.
  Proof. exact (deque_abs zero minSize growMul Hmin Hgrow). Qed.

  Theorem C04_grow_shrink_preserve : forall ops n,
      let d := sd (run_state st0 ops) in
      window (grow zero n d) = window d /\
      (forall d', shrink zero n d = Ok d' -> window d' = window d) /\
      (shrink zero n d = Panic PNeg <-> n < 0).
  Proof. exact (deque_grow_shrink_preserve zero minSize growMul Hmin Hgrow). Qed.

  (* panics happen exactly where the ideal sequence says, and leave the state unchanged *)
  Theorem C04_panics_exact : forall ops o,
      seq_op o = true ->
      let s := run_state st0 ops in
      (snd (step s o) = OPanic <-> must_panic (window (sd s)) o = true) /\
      (snd (step s o) = OPanic -> fst (step s o) = s).
  Proof. exact (deque_panics_exact zero minSize growMul Hmin Hgrow). Qed.

  (* popped elements are not retained: slots outside the live window hold the zero value *)
  Theorem C04_no_retention : forall ops, clean zero (sd (run_state st0 ops)).
  Proof. exact (deque_no_retention zero minSize growMul Hmin Hgrow). Qed.
End C04.

Print Assumptions C04_refinement.
Print Assumptions C04_abs.
Print Assumptions C04_grow_shrink_preserve.
Print Assumptions C04_panics_exact.
Print Assumptions C04_no_retention.

(* ---- the shipped constants (regenerated from the Go source on every run) meet the guards ---- *)
From Juniper Require Import Generated.Params.

Theorem C04_params_ok : 1 <= deque_minSize /\ 2 <= deque_growMul.
Proof. unfold deque_minSize, deque_growMul; split; lia. Qed.

Theorem C04_refinement_shipped : forall ops : list (op Z),
    forallb seq_op ops = true ->
    run 0 deque_minSize deque_growMul st0 ops = srun [] ops.
Proof. exact (C04_refinement 0 deque_minSize deque_growMul (proj1 C04_params_ok) (proj2 C04_params_ok)). Qed.

Theorem C04_no_retention_shipped : forall ops : list (op Z),
    clean 0 (sd (run_state 0 deque_minSize deque_growMul st0 ops)).
Proof. exact (C04_no_retention 0 deque_minSize deque_growMul (proj1 C04_params_ok) (proj2 C04_params_ok)). Qed.

(* non-vacuity: a history that wraps, fills, reallocates and shrinks to capacity 0 *)
Example C04_history_runs :
  let ops := [OpPushBack 1; OpPushFront 2; OpPopBack; OpShrink 0; OpPushFront 3; OpGrow 40; OpIterate; OpPopFront; OpPopFront; OpShrink 0; OpLen] in
  run 0 deque_minSize deque_growMul st0 ops = srun [] ops /\
  srun [] ops = [OUnit; OUnit; OVal 1; OUnit; OUnit; OUnit; OList [3; 2]; OVal 3; OVal 2; OUnit; OInt 0].
Proof. vm_compute. split; reflexivity. Qed.

Print Assumptions C04_params_ok.
Print Assumptions C04_refinement_shipped.
Print Assumptions C04_no_retention_shipped.

(* ---- translator tie: Deque.Len and positiveMod, translated from the Go source on every run
        (Generated/Funcs.v), are the definitions the model uses ---- *)
From Juniper Require Import Generated.Funcs Translated.FuncsOK.

Theorem C04_translated_Len : forall (T : Type) (d : deque T), go_Deque_Len d = len d.
Proof. exact go_Deque_Len_ok. Qed.

Theorem C04_translated_positiveMod : forall l d, go_positiveMod l d = positive_mod l d.
Proof. exact go_positiveMod_ok. Qed.

Print Assumptions C04_translated_Len.
Print Assumptions C04_translated_positiveMod.
