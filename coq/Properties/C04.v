(* C04 — deque.Deque equals an ideal double-ended sequence for every history.
   Only statements live here; each is closed by [exact] of a lemma proved in Deque/Proofs.v. *)
From Juniper Require Import Common.Base Deque.Model Deque.Spec Deque.Proofs.

Section C04.
  Context {T : Type} (zero : T) (minSize growMul : Z).
  (* guards on the regenerated constants; discharged for the shipped values below.  The upper bound
     keeps len(d.a)*growMul inside int64 for every capacity make can return. *)
  Hypothesis Hmin : 1 <= minSize.
  Hypothesis Hgrow : 2 <= growMul <= 32768.

  Notation run := (run zero minSize growMul).
  Notation run_state := (run_state zero minSize growMul).
  Notation step := (step zero minSize growMul).
  Notation alloc_fails := (alloc_fails minSize growMul).
  Notation in_budget := (in_budget minSize growMul).

  (* Allocation.  make([]T, c) panics for c < 0 or c > alloc_max (Model.v); [alloc_fails d o] says
     that the allocation operation o performs in state d is such a one (Spec.v: the int64 sums and
     products are wrapped).  The ideal sequence has no capacity: it knows that Grow(n) with
     n > alloc_max panics ([grow_too_big], whatever the capacity), and nothing about requests up to
     alloc_max.  Hence two kinds of statements:
       - over ALL histories, with the allocator's verdict explicit (C04_step_exact, C04_grow_alloc,
         C04_panics_exact, C04_grow_shrink_preserve, C04_no_retention);
       - against the ideal sequence alone, for the histories [in_budget]: those whose pushes and
         Grow arguments (the ones that are not too big) cannot make the implementation request more
         than alloc_max slots -- every history a machine can run (C04_refinement, C04_abs). *)

  (* every call returns what the ideal sequence returns, for every history from the zero value;
     histories may contain any number of Grow calls whose allocation fails *)
  Theorem C04_refinement : forall ops,
      forallb seq_op ops = true -> in_budget ops -> run st0 ops = srun [] ops.
  Proof. exact (deque_refinement zero minSize growMul Hmin Hgrow). Qed.

  (* the live window of the buffer is the ideal sequence after every history (iterator ops included) *)
  Theorem C04_abs : forall ops, in_budget ops ->
      window (sd (run_state st0 ops)) = srun_state [] ops.
  Proof. exact (deque_abs zero minSize growMul Hmin Hgrow). Qed.

  (* ALL histories, one more operation: if its allocation fails it panics and nothing at all
     changes; otherwise it returns what the ideal sequence returns and the window follows it *)
  Theorem C04_step_exact : forall ops o,
      seq_op o = true ->
      let s := run_state st0 ops in
      if alloc_fails (sd s) o then step s o = (s, OPanic)
      else snd (step s o) = snd (sstep (window (sd s)) o) /\
           window (sd (fst (step s o))) = fst (sstep (window (sd s)) o).
  Proof. exact (deque_step_exact zero minSize growMul Hmin Hgrow). Qed.

  (* ALL histories: Grow panics exactly when its allocation fails, and then the whole state
     (contents, buffer and capacity, front and back offsets, iterator generation, live iterators) is
     the one before the call; every other Grow keeps the contents; an argument beyond alloc_max
     always fails *)
  Theorem C04_grow_alloc : forall ops n,
      let s := run_state st0 ops in
      let d := sd s in
      (grow zero n d = Panic PAlloc <-> alloc_fails d (OpGrow n) = true) /\
      (alloc_fails d (OpGrow n) = true -> step s (OpGrow n) = (s, OPanic)) /\
      (alloc_fails d (OpGrow n) = false -> exists d', grow zero n d = Ok d' /\ window d' = window d) /\
      (grow_too_big n = true -> alloc_fails d (OpGrow n) = true).
  Proof. exact (deque_grow_alloc zero minSize growMul Hmin Hgrow). Qed.

  (* ALL histories: Grow/Shrink never change the contents; Shrink panics exactly for n < 0 and its
     allocation never fails *)
  Theorem C04_grow_shrink_preserve : forall ops n,
      let d := sd (run_state st0 ops) in
      (forall d', grow zero n d = Ok d' -> window d' = window d) /\
      (forall d', shrink zero n d = Ok d' -> window d' = window d) /\
      (shrink zero n d = Panic PNeg <-> n < 0) /\
      (0 <= n -> exists d', shrink zero n d = Ok d').
  Proof. exact (deque_grow_shrink_preserve zero minSize growMul Hmin Hgrow). Qed.

  (* panics happen exactly where the ideal sequence says or where an allocation fails, and leave
     the state unchanged; within the budget the ideal sequence alone decides *)
  Theorem C04_panics_exact : forall ops o,
      seq_op o = true ->
      let s := run_state st0 ops in
      (snd (step s o) = OPanic <->
         must_panic (window (sd s)) o = true \/ alloc_fails (sd s) o = true) /\
      (snd (step s o) = OPanic -> fst (step s o) = s) /\
      (in_budget (ops ++ [o]) ->
         (snd (step s o) = OPanic <-> must_panic (window (sd s)) o = true)).
  Proof. exact (deque_panics_exact zero minSize growMul Hmin Hgrow). Qed.

  (* popped elements are not retained: slots outside the live window hold the zero value *)
  Theorem C04_no_retention : forall ops, clean zero (sd (run_state st0 ops)).
  Proof. exact (deque_no_retention zero minSize growMul Hmin Hgrow). Qed.
End C04.

Print Assumptions C04_refinement.
Print Assumptions C04_abs.
Print Assumptions C04_step_exact.
Print Assumptions C04_grow_alloc.
Print Assumptions C04_grow_shrink_preserve.
Print Assumptions C04_panics_exact.
Print Assumptions C04_no_retention.

(* ---- the shipped constants (regenerated from the Go source on every run) meet the guards ---- *)
From Juniper Require Import Generated.Params.

Theorem C04_params_ok : 1 <= deque_minSize /\ 2 <= deque_growMul <= 32768.
Proof. unfold deque_minSize, deque_growMul; split; lia. Qed.

Theorem C04_refinement_shipped : forall ops : list (op Z),
    forallb seq_op ops = true -> in_budget deque_minSize deque_growMul ops ->
    run 0 deque_minSize deque_growMul st0 ops = srun [] ops.
Proof. exact (C04_refinement 0 deque_minSize deque_growMul (proj1 C04_params_ok) (proj2 C04_params_ok)). Qed.

Theorem C04_no_retention_shipped : forall ops : list (op Z),
    clean 0 (sd (run_state 0 deque_minSize deque_growMul st0 ops)).
Proof. exact (C04_no_retention 0 deque_minSize deque_growMul (proj1 C04_params_ok) (proj2 C04_params_ok)). Qed.

(* non-vacuity: a history that wraps, fills, reallocates and shrinks to capacity 0 *)
Example C04_history_runs :
  let ops := [OpPushBack 1; OpPushFront 2; OpPopBack; OpShrink 0; OpPushFront 3; OpGrow 40; OpIterate; OpPopFront; OpPopFront; OpShrink 0; OpLen] in
  in_budget deque_minSize deque_growMul ops /\
  run 0 deque_minSize deque_growMul st0 ops = srun [] ops /\
  srun [] ops = [OUnit; OUnit; OVal 1; OUnit; OUnit; OUnit; OList [3; 2]; OVal 3; OVal 2; OUnit; OInt 0].
Proof. split; [apply Z.leb_le; vm_compute; reflexivity|]. vm_compute. split; reflexivity. Qed.

(* (explicit constants 16 and 2: the example must not depend on the shipped ones)
   non-vacuity for the allocation failure: front <> 0 and the live window wraps around the end of
   the buffer; Grow(max int64), Grow(max int64 - 16) (the sum does not wrap: 2^63-1 elements) and
   Grow(2^62-1) panic; Item / Iterate / Pop still return the right elements, and the raw state
   (nil?, cap, front, back, slots) and the generation are the ones before the calls *)
Example C04_grow_alloc_failure_runs :
  let pre := [OpPushBack 1; OpPushBack 2; OpPushBack 3; OpPopFront; OpPushFront 4; OpPushFront 5; OpPushFront 6] in
  let grows := [OpGrow 9223372036854775807; OpGrow 9223372036854775791; OpGrow 4611686018427387903] in
  let post := [OpItem 0; OpItem 4; OpIterate; OpLen; OpPopFront; OpPopBack; OpGrow 3; OpIterate] in
  let ops := pre ++ grows ++ post in
  let d := sd (run_state 0 16 2 st0 pre) in
  let d' := sd (run_state 0 16 2 st0 (pre ++ grows)) in
  in_budget 16 2 ops /\
  forallb (fun o => alloc_fails 16 2 d o) grows = true /\
  (front d, back d, cap d) = (14, 2, 16) /\
  raw d' = raw d /\ gen d' = gen d /\
  run 0 16 2 st0 ops = srun [] ops /\
  srun [] ops = [OUnit; OUnit; OUnit; OVal 1; OUnit; OUnit; OUnit;
                 OPanic; OPanic; OPanic;
                 OVal 6; OVal 3; OList [6; 5; 4; 2; 3]; OInt 5; OVal 6; OVal 3; OUnit; OList [5; 4; 2]].
Proof. split; [apply Z.leb_le; vm_compute; reflexivity|]. vm_compute. repeat split; reflexivity. Qed.

(* the broken variant "resize writes front := 0, back := oldLen-1, gen++ before calling make"
   (Model.grow_commit_first): the statement C04_grow_alloc makes for the real code --
     after a Grow whose allocation fails the contents and the generation are unchanged --
   is false for it: on the wrapped deque above, after the recovered panic the contents differ. *)
Theorem C04_grow_commit_first_refuted :
  exists (ops : list (op Z)) (n : Z),
    let d := sd (run_state 0 16 2 st0 ops) in
    snd (grow_commit_first 0 n d) = true /\
    window (fst (grow_commit_first 0 n d)) <> window d /\
    gen (fst (grow_commit_first 0 n d)) <> gen d /\
    grow 0 n d = Panic PAlloc.
Proof. exact deque_grow_commit_first_refuted. Qed.

Print Assumptions C04_params_ok.
Print Assumptions C04_refinement_shipped.
Print Assumptions C04_no_retention_shipped.
Print Assumptions C04_grow_alloc_failure_runs.
Print Assumptions C04_grow_commit_first_refuted.

(* ---- translator tie: Deque.Len and positiveMod, translated from the Go source on every run
        (Generated/Funcs.v), are the definitions the model uses ---- *)
From Juniper Require Import Generated.Funcs Translated.FuncsOK.

Theorem C04_translated_Len : forall (T : Type) (d : deque T), go_Deque_Len d = len d.
Proof. exact go_Deque_Len_ok. Qed.

Theorem C04_translated_positiveMod : forall l d, go_positiveMod l d = positive_mod l d.
Proof. exact go_positiveMod_ok. Qed.

Print Assumptions C04_translated_Len.
Print Assumptions C04_translated_positiveMod.
