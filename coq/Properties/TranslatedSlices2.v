(* C19 / C07 (xslices part) -- the tie to the source by translation, Runs and Chunk.
   Generated/ImpSlices.v also holds the statement-level translation of Runs and Chunk of xslices/xslices.go
   (regenerated from the Go source on every run by tools/gofacts/imp.go; 64-bit wrap-around on every int operation,
   the run-time panic of every index and slice expression, of the division and of make explicit, every loop run
   with fuel S (length s)).  The translated functions return the sub-slices themselves; the hand-written models
   [runs] and [chunk] of Pure/Slices.v, which the specifications of Properties/C19.v and Properties/C07.v are
   about, return the (start, end) index bounds of these sub-slices.  The theorems below say that, under the
   configuration of Pure/Config.v (the statements mention the switches, so they tie the configuration to the
   source), on every slice of fewer than 2^62 ints:
   * Runs returns Ok of [s[a:b] | (a, b) <- runs s same], for every callback;
   * Chunk, for EVERY chunkSize in the int64 range (chunkSize <= 0: Panic PNeg on both sides; huge chunkSize: no
     product wraps around), returns the model's panic or Ok of [s[a:b] | (a, b) <- bounds of the model] -- the
     model's own index-range panic never fires --, PROVIDED the number of chunks is at most alloc_max = 2^47, the
     bound above which the translated make([][]T, n) panics (Deque/Model.v).  The model of Chunk has no allocation
     limit, and [C19_translated_Chunk_alloc_limit] shows that the proviso cannot be dropped: a slice of 2^47 + 1
     elements with chunkSize 1 is inside the range "len < 2^62, chunkSize in int64" and there the translated
     function panics while the model returns bounds.  No executable test can reach that input.
   Only statements live here; each is closed by [exact] of a lemma of Translated/ImpSlices2OK.v. *)
From Juniper Require Import Common.Base Pure.Slices Pure.Config.
From Juniper Require Import Translated.GoImp Generated.ImpSlices Translated.ImpSlices2OK.
From Juniper Require Deque.Model.

Theorem C19_translated_Runs : forall (s : list Z) (same : Z -> Z -> bool),
    zlen s < 2^62 ->
    gi_xslices_Runs s same = Ok (map (fun '(a, b) => zslice s a b) (runs xslices_runs_fixed s same)).
Proof. exact gi_Runs_ok. Qed.

Theorem C19_translated_Chunk : forall (s : list Z) (c : Z),
    zlen s < 2^62 -> int64 c ->
    (0 < c -> chunk_count true (zlen s) c <= Deque.Model.alloc_max) ->
    gi_xslices_Chunk s c =
    match chunk xslices_chunk_guard xslices_chunk_no_overflow s c with
    | Ok l => Ok (map (fun '(a, b) => zslice s a b) l)
    | Panic p => Panic p
    end.
Proof. exact gi_Chunk_ok_partial. Qed.

(* the proviso holds for every slice of at most alloc_max elements *)
Theorem C19_translated_Chunk_small : forall (s : list Z) (c : Z),
    zlen s <= Deque.Model.alloc_max -> int64 c ->
    gi_xslices_Chunk s c =
    match chunk xslices_chunk_guard xslices_chunk_no_overflow s c with
    | Ok l => Ok (map (fun '(a, b) => zslice s a b) l)
    | Panic p => Panic p
    end.
Proof. exact gi_Chunk_ok. Qed.

(* without the proviso the statement is false *)
Theorem C19_translated_Chunk_alloc_limit :
    exists (s : list Z) (c : Z), zlen s < 2^62 /\ int64 c /\
      gi_xslices_Chunk s c = Panic POther /\
      exists l, chunk xslices_chunk_guard xslices_chunk_no_overflow s c = Ok l.
Proof. exact gi_Chunk_ok_unrestricted_refuted. Qed.

(* C07 (xslices part: Chunk and Runs yield the documented sequence) is about the same two Go functions; the same
   statements under the C07 names *)
Theorem C07_translated_Runs_slices : forall (s : list Z) (same : Z -> Z -> bool),
    zlen s < 2^62 ->
    gi_xslices_Runs s same = Ok (map (fun '(a, b) => zslice s a b) (runs xslices_runs_fixed s same)).
Proof. exact gi_Runs_ok. Qed.

Theorem C07_translated_Chunk_slices : forall (s : list Z) (c : Z),
    zlen s < 2^62 -> int64 c ->
    (0 < c -> chunk_count true (zlen s) c <= Deque.Model.alloc_max) ->
    gi_xslices_Chunk s c =
    match chunk xslices_chunk_guard xslices_chunk_no_overflow s c with
    | Ok l => Ok (map (fun '(a, b) => zslice s a b) l)
    | Panic p => Panic p
    end.
Proof. exact gi_Chunk_ok_partial. Qed.

(* non-vacuity: the translated code RUNS.  Runs with four runs, on one element and on the empty slice; Chunk with a
   short last chunk, with chunkSize = len, above len, MaxInt, zero and negative *)
Example C19_translated_slices2_run :
  (gi_xslices_Runs [1; 1; 2; 3; 3; 3; 1] Z.eqb, gi_xslices_Runs [7] Z.eqb, gi_xslices_Runs (@nil Z) Z.eqb,
   gi_xslices_Chunk [1; 2; 3; 4; 5] 2,
   gi_xslices_Chunk [1; 2; 3; 4; 5] 5,
   gi_xslices_Chunk [1; 2; 3; 4; 5] 7,
   gi_xslices_Chunk [1; 2; 3; 4; 5] 9223372036854775807,
   gi_xslices_Chunk [1; 2; 3; 4; 5] 0,
   gi_xslices_Chunk [1; 2; 3; 4; 5] (-3))
  = (Ok [[1; 1]; [2]; [3; 3; 3]; [1]], Ok [[7]], Ok [],
     Ok [[1; 2]; [3; 4]; [5]],
     Ok [[1; 2; 3; 4; 5]],
     Ok [[1; 2; 3; 4; 5]],
     Ok [[1; 2; 3; 4; 5]],
     Panic PNeg,
     Panic PNeg).
Proof. vm_compute. reflexivity. Qed.

Print Assumptions C19_translated_Runs.
Print Assumptions C19_translated_Chunk.
Print Assumptions C19_translated_Chunk_small.
Print Assumptions C19_translated_Chunk_alloc_limit.
Print Assumptions C07_translated_Runs_slices.
Print Assumptions C07_translated_Chunk_slices.
Print Assumptions C19_translated_slices2_run.
