(* C04 / C15 (deque part) -- END TO END through the translation.
   Generated/ImpDeque.v is the statement-level translation of container/deque/deque.go, regenerated from the Go
   source on every run.  Translated/ImpDequeRun.v drives it over a history of calls:
     gi_step s o     dispatches the call o to the TRANSLATED method (gi_Deque_PushFront, ..., gi_Deque_Shrink;
                     OpIterate drains gi_dequeIterator_Next from the iterator Iterate() builds; OpIterNew creates
                     an iterator handle, OpIterNext j calls gi_dequeIterator_Next on the j-th handle);
     gi_run s ops    the list of answers; gi_run_state s ops the state reached.
   No function of the hand-written model Deque/Model.v is called by gi_step.  The theorems: over every history
   from the zero Deque the translated source answers call by call what the model answers and reaches the same
   state, hence (C04_refinement) it answers what the ideal double-ended sequence answers.
   Hypotheses: [ops_int64 ops] -- the arguments of Grow/Shrink are values a Go int can hold (the translated
   Grow takes the int as given; the model reads the Z of the operation through wrap64); fewer than 2^60 calls
   (the iterator generation counter is an int).
   Only statements live here; each is closed by [exact] of a lemma of Translated/ImpDequeRun.v. *)
From Juniper Require Import Common.Base Deque.Model Deque.Spec Deque.Proofs.
From Juniper Require Import Translated.GoImp Generated.Params Generated.ImpDeque Translated.ImpDequeOK.
From Juniper Require Import Translated.ImpDequeRun.
From JuniperProps Require Import TranslatedDeque.

(* the translated source run over a history = the model run over it: same answers, same final state;
   any element type; the shipped minSize and growth factor *)
Theorem C04_translated_run_equals_model :
  forall (T : Type) (zero : T) (ops : list (op T)),
    ops_int64 ops ->
    Z.of_nat (length ops) < 2^60 ->
    gi_run zero deque_minSize st0 ops = run zero deque_minSize deque_growMul st0 ops /\
    gi_run_state zero deque_minSize st0 ops = run_state zero deque_minSize deque_growMul st0 ops.
Proof. intros T zero. exact (gi_run_eq zero deque_minSize C04_translated_params_ok). Qed.

(* the translated source run over a history returns what the ideal double-ended sequence returns
   (histories of C04_refinement: no explicit iterator handles, within the allocation budget) *)
Theorem C04_translated_refines_ideal_sequence :
  forall (T : Type) (zero : T) (ops : list (op T)),
    forallb seq_op ops = true ->
    in_budget deque_minSize deque_growMul ops ->
    ops_int64 ops ->
    Z.of_nat (length ops) < 2^60 ->
    gi_run zero deque_minSize st0 ops = srun [] ops.
Proof. intros T zero. exact (gi_refines_ideal zero deque_minSize C04_translated_params_ok). Qed.

(* C15: [ops] is ANY history -- it may create iterators (OpIterNew) and step the j-th one (OpIterNext j) between
   any other calls, so that iterators are stepped after pushes, pops, Set, Grow, Shrink (and panic or not as
   the model says).  The translated source gives the same answers (OVal x / OEnd / OPanic for OpIterNext), the
   live iterators (position, done flag, generation) are the same, and one more OpIterNew or OpIterNext j in
   the state reached returns the same and leaves the same state.  With C15_deque_snapshot_or_panic and
   C15_deque_add_remove_panics (about the model's run) this carries snapshot-or-panic to the translated run. *)
Theorem C15_translated_run_equals_model_with_iterators :
  forall (T : Type) (zero : T) (ops : list (op T)) (j : nat),
    ops_int64 ops ->
    Z.of_nat (length ops) < 2^60 ->
    gi_run zero deque_minSize st0 ops = run zero deque_minSize deque_growMul st0 ops /\
    sits (gi_run_state zero deque_minSize st0 ops) = sits (run_state zero deque_minSize deque_growMul st0 ops) /\
    gi_step zero deque_minSize (gi_run_state zero deque_minSize st0 ops) OpIterNew =
      step zero deque_minSize deque_growMul (run_state zero deque_minSize deque_growMul st0 ops) OpIterNew /\
    gi_step zero deque_minSize (gi_run_state zero deque_minSize st0 ops) (OpIterNext j) =
      step zero deque_minSize deque_growMul (run_state zero deque_minSize deque_growMul st0 ops) (OpIterNext j).
Proof. intros T zero. exact (gi_run_eq_iters zero deque_minSize C04_translated_params_ok). Qed.

(* non-vacuity: the translated code RUNS over a history (explicit constants 16 and 2: the example does not
   depend on the shipped ones).  Pushes on both ends, pops, Item, Set, Len, a Grow that reallocates, Iterate,
   Shrink, an iterator created and stepped, then invalidated by a push (its next step panics), PopFront and a
   final Iterate; the model's run (minSize 16, growth factor 2) gives the same list; the state reached (buffer,
   front, back, generation) and the live iterator are shown. *)
Example C04_translated_run_example :
  let ops := [OpPushBack 1; OpPushBack 2; OpPushFront 3; OpPopBack; OpPushFront 4; OpItem 2; OpSet 1 7; OpLen;
              OpGrow 20; OpIterate; OpShrink 1; OpIterNew; OpIterNext 0; OpPushBack 5; OpIterNext 0;
              OpPopFront; OpIterate] in
  let answers := [OUnit; OUnit; OUnit; OVal 2; OUnit; OVal 1; OUnit; OInt 3;
                  OUnit; OList [4; 7; 1]; OUnit; OUnit; OVal 4; OUnit; OPanic;
                  OVal 4; OList [7; 1; 5]] in
  (gi_run 0 16 st0 ops, run 0 16 2 st0 ops,
   sd (gi_run_state 0 16 st0 ops), sits (gi_run_state 0 16 st0 ops))
  = (answers, answers,
     mkDeque (Some [0; 7; 1; 5]) 1 3 11, [mkIter 1 false 9]).
Proof. vm_compute. reflexivity. Qed.

(* the hypothesis [ops_int64] cannot be dropped: an operation carrying 2^64 + 1 (not a value of a Go int; the
   model reads it as the int 1, the translated Grow takes the Z as given) separates the two runs *)
Example C04_translated_run_int64_needed :
  let ops := [OpPushBack 1; OpIterNew; OpGrow 18446744073709551617; OpIterNext 0] in
  (gi_run 0 16 st0 ops, run 0 16 2 st0 ops)
  = ([OUnit; OUnit; OUnit; OPanic], [OUnit; OUnit; OUnit; OVal 1]).
Proof. vm_compute. reflexivity. Qed.

Print Assumptions C04_translated_run_equals_model.
Print Assumptions C04_translated_refines_ideal_sequence.
Print Assumptions C15_translated_run_equals_model_with_iterators.
Print Assumptions C04_translated_run_example.
Print Assumptions C04_translated_run_int64_needed.
