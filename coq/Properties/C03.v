(* C03 — tree.Map / tree.Set stays a balanced search tree with half-full nodes under every history
   of inserts and deletes; depth and comparisons per lookup are bounded; every key lies on exactly
   one search path; Len is the number of keys; deleted entries are gone from the live structure.
   Only statements live here; each is closed by [exact] of a lemma proved in Tree/Proofs*.v.

   Vocabulary (definitions, all executable or plain conjunctions):
   * BTree.v  : the model of btree.go (put, delete, get, contains, get_cost, inorder, height, nodes).
   * ProofsWf.v : [shaped minKVs maxKVs d x] (x heads a subtree whose leaves are all exactly d levels
     below x; every node has <= maxKVs keys and is a leaf or has #keys + 1 children; every node
     strictly below x has >= minKVs keys), [root_ok] (an internal root has >= 1 key),
     [wf_shape] (shaped for some d, root_ok, node ids pairwise distinct and < next_id),
     [leaf_depths].
   * ProofsRefine.v : [wf cmp minKVs maxKVs t] = wf_shape /\ keys strictly ascending along
     [inorder (root t)] /\ size t = length (inorder (root t)).
   "Dead array slots" (keys/values left behind in the unused tail of a node's arrays) do not exist
   in this functional model; the harness checks them on the real structure (VerifShape hook). *)
From Juniper Require Import Common.Base Tree.Bound Tree.BTree Tree.Cursor Tree.SMap Tree.AIter Tree.Hist
  Tree.ProofsSMap Tree.ProofsWf Tree.ProofsRefine Tree.ProofsHist.

Section C03.
  Context {K V : Type} (cmp : K -> K -> comparison) (kzero : K) (vzero : V).
  Context (minKVs maxKVs : nat).
  (* compare is a total preorder comparison (see C01_less_cmp for NewMap(less)) *)
  Hypothesis Hlaws : cmp_laws cmp.
  (* guards on the regenerated constants; discharged for the shipped values in C03_params_ok *)
  Hypothesis Hmin : (1 <= minKVs)%nat.
  Hypothesis Hmax : (2 * minKVs <= maxKVs)%nat.

  Notation tree := (btree K V).
  Notation wf := (wf cmp minKVs maxKVs).
  Notation put := (put K V cmp kzero vzero maxKVs).
  Notation delete := (delete K V cmp kzero vzero minKVs).
  Notation contains := (contains K V cmp).
  Notation apply_muts := (apply_muts cmp kzero vzero minKVs maxKVs).

  (* ---- the invariant holds initially and is preserved by every Put and Delete ---- *)

  Theorem C03_wf_empty : wf (@empty_tree K V).
  Proof. exact (wf_empty cmp minKVs maxKVs Hmin Hmax). Qed.

  Theorem C03_wf_put : forall (t : tree) k v, wf t -> wf (put t k v).
  Proof.
    exact (fun t k v H => proj1 (put_spec cmp Hlaws kzero vzero minKVs maxKVs Hmin Hmax t k v H)).
  Qed.

  Theorem C03_wf_delete : forall (t : tree) k, wf t -> wf (delete t k).
  Proof.
    exact (fun t k H => proj1 (delete_spec cmp Hlaws kzero vzero minKVs maxKVs Hmin Hmax t k H)).
  Qed.

  (* ... hence after every history of Puts and Deletes from the empty tree, however adversarial *)
  Theorem C03_wf_after_every_step_generic : forall ops : list (@mut_op K V), wf (apply_muts ops).
  Proof.
    exact (fun ops => proj1 (wf_after_muts cmp Hlaws kzero vzero minKVs maxKVs Hmin Hmax ops)).
  Qed.

  (* ---- what the invariant says about the nodes ---- *)

  (* every node has at most maxKVs keys and is a leaf or has one more child than keys;
     every node except the top one is at least half full *)
  Theorem C03_nodes : forall t : tree, wf t ->
    Forall (fun y => (length (nkvs y) <= maxKVs)%nat /\
                     (ncs y = [] \/ length (ncs y) = S (length (nkvs y)))) (nodes (root t)) /\
    Forall (fun y => (minKVs <= nkeys y)%nat) (flat_map nodes (ncs (root t))).
  Proof. exact (wf_nodes cmp Hlaws minKVs maxKVs). Qed.

  (* balanced: every leaf is at depth height - 1 *)
  Theorem C03_balanced : forall t : tree, wf t ->
    Forall (fun h => S h = height (root t)) (leaf_depths (root t)).
  Proof. exact (leaves_same_depth cmp Hlaws minKVs maxKVs). Qed.

  (* ---- depth ---- *)

  (* 2 * (minKVs+1)^(height-1) <= n + 1, i.e. height <= 1 + log_{minKVs+1}((n+1)/2) *)
  Theorem C03_depth_bound : forall t : tree, wf t -> 1 <= size t ->
    2 * (Z.of_nat minKVs + 1) ^ (Z.of_nat (height (root t)) - 1) <= size t + 1.
  Proof. exact (depth_bound cmp Hlaws minKVs maxKVs Hmin Hmax). Qed.

  (* ---- comparisons per lookup: at most maxKVs per level ---- *)

  Theorem C03_lookup_cost : forall (t : tree) k, wf t ->
    (get_cost K V cmp t k <= maxKVs * height (root t))%nat.
  Proof. exact (get_cost_bound cmp Hlaws minKVs maxKVs Hmin Hmax). Qed.

  Theorem C03_contains_cost : forall (t : tree) k, wf t ->
    (contains_cost K V cmp t k <= maxKVs * height (root t))%nat.
  Proof. exact (get_cost_bound cmp Hlaws minKVs maxKVs Hmin Hmax). Qed.

  (* weighted: if one compare costs at most W user-comparator calls (W = 2 for LessCompare) *)
  Theorem C03_lookup_cost_weighted : forall w W (t : tree) k, wf t ->
    (forall a b, (w a b <= W)%nat) ->
    (get_cost_w K V cmp w t k <= W * maxKVs * height (root t))%nat.
  Proof. exact (cost_spec cmp Hlaws minKVs maxKVs Hmin). Qed.

  (* ---- Len, search paths ---- *)

  Theorem C03_len_is_count : forall t : tree, wf t -> size t = Z.of_nat (length (inorder (root t))).
  Proof. exact (fun t H => proj2 (proj2 H)). Qed.

  (* a key is found by the root-to-leaf search exactly if an equivalent key is stored ... *)
  Theorem C03_unique_path : forall (t : tree) k, wf t ->
    (contains t k = true <-> exists kv, In kv (inorder (root t)) /\ cmp k (fst kv) = Eq).
  Proof. exact (unique_path cmp Hlaws kzero vzero minKVs maxKVs Hmin). Qed.

  (* ... and no two stored keys are equivalent (so it is stored, and found, exactly once) *)
  Theorem C03_no_equivalent_keys : forall (t : tree) i j a b, wf t ->
    nth_error (inorder (root t)) i = Some a -> nth_error (inorder (root t)) j = Some b ->
    i <> j -> cmp (fst a) (fst b) <> Eq.
  Proof. exact (no_equiv_keys cmp Hlaws minKVs maxKVs). Qed.

  (* ---- a deleted key is referenced from no node of the live structure ---- *)

  Theorem C03_deleted_gone : forall (t : tree) k, wf t ->
    forall x kv, In x (nodes (root (delete t k))) -> In kv (nkvs x) -> cmp k (fst kv) <> Eq.
  Proof. exact (deleted_gone cmp Hlaws kzero vzero minKVs maxKVs Hmin Hmax). Qed.

End C03.

Print Assumptions C03_wf_empty.
Print Assumptions C03_wf_put.
Print Assumptions C03_wf_delete.
Print Assumptions C03_wf_after_every_step_generic.
Print Assumptions C03_nodes.
Print Assumptions C03_balanced.
Print Assumptions C03_depth_bound.
Print Assumptions C03_lookup_cost.
Print Assumptions C03_contains_cost.
Print Assumptions C03_lookup_cost_weighted.
Print Assumptions C03_len_is_count.
Print Assumptions C03_unique_path.
Print Assumptions C03_no_equivalent_keys.
Print Assumptions C03_deleted_gone.

(* ---- history level (Hist.v: tree.Map[int,int], every key-order mode) ---- *)

Theorem C03_mode_cmp_laws : forall mode, cmp_laws (mode_cmp mode).
Proof. exact mode_cmp_laws. Qed.

Theorem C03_wf_after_every_step : forall minKVs maxKVs : nat,
    (1 <= minKVs)%nat -> (2 * minKVs <= maxKVs)%nat ->
    forall mode ops,
      wf (mode_cmp mode) minKVs maxKVs (m_t (fst (steps_M minKVs maxKVs mode m0 ops))).
Proof. exact wf_after_every_step. Qed.

Print Assumptions C03_mode_cmp_laws.
Print Assumptions C03_wf_after_every_step.

(* ---- the shipped constants (regenerated from the Go source on every run) meet the guards ---- *)
From Juniper Require Import Generated.Params Tree.Corr.

Theorem C03_params_ok :
  1 <= tree_minKVs /\ 2 * tree_minKVs <= tree_maxKVs /\ tree_branchFactor = tree_maxKVs + 1.
Proof. unfold tree_minKVs, tree_maxKVs, tree_branchFactor. repeat split; lia. Qed.

Theorem C03_params_ok_nat : (1 <= minK)%nat /\ (2 * minK <= maxK)%nat.
Proof. unfold minK, maxK. pose proof C03_params_ok. lia. Qed.

Theorem C03_wf_after_every_step_shipped : forall mode ops,
    wf (mode_cmp mode) minK maxK (m_t (fst (steps_M minK maxK mode m0 ops))).
Proof.
  exact (C03_wf_after_every_step minK maxK (proj1 C03_params_ok_nat) (proj2 C03_params_ok_nat)).
Qed.

(* depth of the shipped tree: 2 * 8^(height-1) <= n + 1 ... *)
Theorem C03_depth_bound_shipped : forall (K V : Type) (cmp : K -> K -> comparison) (t : btree K V),
    cmp_laws cmp -> wf cmp minK maxK t -> 1 <= size t ->
    2 * 8 ^ (Z.of_nat (height (root t)) - 1) <= size t + 1.
Proof.
  exact (fun K V cmp t L =>
           C03_depth_bound cmp minK maxK L (proj1 C03_params_ok_nat) (proj2 C03_params_ok_nat) t).
Qed.

(* ... that is, height <= 1 + floor(log8((n+1)/2))  (floor(log8 x) = floor(floor(log2 x) / 3)) *)
Theorem C03_depth_bound_log8_shipped : forall (K V : Type) (cmp : K -> K -> comparison) (t : btree K V),
    cmp_laws cmp -> wf cmp minK maxK t -> 1 <= size t ->
    Z.of_nat (height (root t)) <= 1 + Z.log2 ((size t + 1) / 2) / 3.
Proof.
  exact (fun K V cmp t L =>
           depth_bound_log8 cmp L minK maxK (proj1 C03_params_ok_nat) (proj2 C03_params_ok_nat)
             t eq_refl).
Qed.

(* at most 15 comparisons per level *)
Theorem C03_lookup_cost_shipped : forall (K V : Type) (cmp : K -> K -> comparison) (t : btree K V) k,
    cmp_laws cmp -> wf cmp minK maxK t ->
    (get_cost K V cmp t k <= 15 * height (root t))%nat.
Proof.
  exact (fun K V cmp t k L =>
           C03_lookup_cost cmp minK maxK L (proj1 C03_params_ok_nat) (proj2 C03_params_ok_nat) t k).
Qed.

(* non-vacuity: the history of Corr.v that splits the root and merges back runs on the model, the
   resulting trees have the stated heights / sizes / costs *)
Example C03_history_runs :
  let t1 := m_t (fst (steps_M minK maxK 0 m0 (puts (seq 0 (S maxK))))) in
  let t2 := m_t (fst (steps_M minK maxK 0 m0 (puts (seq 0 (S maxK)) ++ [TDel 15; TDel 14]))) in
  (height (root t1) = 2%nat /\ size t1 = 16 /\ get_cost Z Z Z.compare t1 15 = 8%nat) /\
  (height (root t2) = 1%nat /\ size t2 = 14 /\ contains Z Z Z.compare t2 14 = false) /\
  leaf_depths (root t1) = [1; 1]%nat.
Proof. vm_compute. repeat split; reflexivity. Qed.

Print Assumptions C03_params_ok.
Print Assumptions C03_params_ok_nat.
Print Assumptions C03_wf_after_every_step_shipped.
Print Assumptions C03_depth_bound_shipped.
Print Assumptions C03_depth_bound_log8_shipped.
Print Assumptions C03_lookup_cost_shipped.
