(* C16 — xsync.ContextCond: wake-up, lock and cancellation guarantees of Wait/Signal/Broadcast.
   Only statements live here; each is closed by [exact] of a lemma proved in Conc/CondProofs.v.

   The model (Conc/Cond.v) is the labelled transition system [qstep] of the real code of
   ContextCond together with the scenario harness; [Reach cfg nctx s] below means: [s] is reachable
   from the initial state of the scenario with waiter configuration [cfg] and [nctx] contexts, for
   ANY [cfg] and [nctx] (any number of waiters, any gates, any sharing of contexts), under ANY
   interleaving.  The pc classes used in the statements (Conc/CondProofs.v):
     holds_lock p   p in {WHasLock, WCalled, WSnap _, WInUnlock _ false, WLocked, WRetNil}
     entered p      p in {WInUnlock _ true, WSelect _, WParked _}   (inside Wait, lock released)
     gen_of p       the channel generation snapshotted by a waiter at WSnap/WInUnlock/WSelect/WParked
     is_parked p    p = WParked _
     past_select p  p in {WWoken, WLocked, WCtxErr, WRetNil, WDone} *)
From Juniper Require Import Common.Base Conc.GoLTS Conc.Cond Conc.CondProofs.
Local Open Scope nat_scope.

(* ================================================================================================
   RECORDED KNOWN FINDING.  The first sentence of C16 (once k goroutines have entered Wait and
   released the lock, m Signal calls wake at least min(k,m) of them, however far each waiter has
   progressed inside Wait) is FALSE of the real code and of its faithful model: two waiters that
   have released the lock but not reached the select, two Signals: the first token is stored in the
   one-slot buffer, the second is dropped, one waiter parks for ever.  The full statement is kept
   here, with its refutation.
   ================================================================================================ *)
Definition C16_signal_wakes_min_statement : Prop :=
  forall cfg nctx s0 ls1 s1 ls2 s2,
    (* any reachable state with the controller idle; k := nentered s0 waiters have entered Wait and
       released the lock (at any point: inside Unlock, before the select, or parked) *)
    reachable qstep (init cfg nctx) s0 -> ctl s0 = CtlIdle ->
    (* m := count is_retsig ls1 complete Signal calls, interleaved with arbitrary steps of the
       waiters (no Broadcast, no cancel, no new controller activity) *)
    run qstep s0 ls1 = Some s1 -> forallb signal_phase_lab ls1 = true -> ctl s1 = CtlIdle ->
    (* eventually: in every quiescent state with all gates open that is reached without further
       Signal / Broadcast / cancel (the harness only opens gates) *)
    run qstep s1 ls2 = Some s2 -> forallb settle_phase_lab ls2 = true ->
    quiescent s2 = true -> gates_open s2 = true ->
    (* at least min k m of those k waiters have got through their select *)
    min (nentered s0) (count is_retsig ls1) <= woken_of s0 s2.

Theorem C16_signal_wakes_min_refuted : ~ C16_signal_wakes_min_statement.
Proof. exact signal_wakes_min_refuted. Qed.

(* the witness as one run of the model (also recorded on the real code): two waiters held between
   the real unlock and the select; Signal (buffered); Signal (dropped); gates opened; waiter 1 takes
   the token and returns nil; waiter 0 parks for ever although two Signal calls completed *)
Theorem C16_signal_wakes_min_refuted_run :
  exists ls s,
    run qstep (init [(GPost, 0); (GPost, 1)] 2) ls = Some s /\
    ls = [LSpawn 0; TLockL 0; LCallWait 0; TSnapshot 0; LUnlockEnter 0; TRealUnlock 0;
          LSpawn 1; TLockL 1; LCallWait 1; TSnapshot 1; LUnlockEnter 1; TRealUnlock 1]
         ++ [LCallSignal; TSigBuffer; LRetSignal; LCallSignal; TSigDrop; LRetSignal]
         ++ [LRelease 0; LRelease 1; LUnlockExit 0; LUnlockExit 1; TSelCh 1; TPark 0;
             TRelock 1; LRetWait 1 true true; THarnessUnlock 1]
         ++ [LQuiesce] /\
    count is_retsig ls = 2 /\
    quiescent s = true /\ gates_open s = true /\ ctl s = CtlIdle /\ lck s = None /\
    map w_pc (ws s) = [WParked 0; WDone] /\
    chans s = [mkCh false false].
Proof. exact signal_wakes_min_refuted_run. Qed.

(* ================================================================================================ *)
(* What does hold, for all reachable states of every scenario                                       *)
(* ================================================================================================ *)
Section C16.
  Variables (cfg : list (gpos * nat)) (nctx : nat).
  Notation Reach := (reachable qstep (init cfg nctx)).

  (* mutual exclusion of the callers' critical sections: the Locker is owned by w exactly when
     waiter w is at a pc that holds it, and at most one waiter is *)
  Theorem C16_lock_mutex : forall s, Reach s ->
    (forall w, lck s = Some w <-> exists x, getw s w = Some x /\ holds_lock (w_pc x) = true) /\
    (forall w1 w2 x1 x2, getw s w1 = Some x1 -> getw s w2 = Some x2 ->
        holds_lock (w_pc x1) = true -> holds_lock (w_pc x2) = true -> w1 = w2).
  Proof. exact (cond_lock_mutex cfg nctx). Qed.

  (* a Wait that returns nil holds the lock again *)
  Theorem C16_nil_holds_lock : forall s w held s', Reach s ->
    step s (LRetWait w true held) = Some s' -> held = true /\ lck s = Some w /\ lck s' = Some w.
  Proof. exact (cond_nil_holds_lock cfg nctx). Qed.

  (* a Wait that returns the context's error does not hold the lock *)
  Theorem C16_ctx_error_without_lock : forall s w held s', Reach s ->
    step s (LRetWait w false held) = Some s' -> held = false /\ lck s <> Some w /\ lck s' <> Some w.
  Proof. exact (cond_ctx_error_without_lock cfg nctx). Qed.

  (* Broadcast wakes every waiter that has taken its channel snapshot *)
  Theorem C16_broadcast_wakes_all : forall s, Reach s ->
    (* nobody is parked on a closed generation: every parked waiter is on the current, open one *)
    (forall w x g, getw s w = Some x -> w_pc x = WParked g ->
        g = cur s /\ exists c, nth_error (chans s) g = Some c /\ ch_closed c = false) /\
    (* a snapshot generation exists, and it is closed exactly when a Broadcast came after it *)
    (forall w x g, getw s w = Some x -> gen_of (w_pc x) = Some g ->
        exists c, nth_error (chans s) g = Some c /\ (ch_closed c = true <-> g <> cur s)) /\
    (* at the select on a closed generation the channel arm is enabled and parking is not *)
    (forall w x g c, getw s w = Some x -> w_pc x = WSelect g ->
        nth_error (chans s) g = Some c -> ch_closed c = true ->
        enabled s (TSelCh w) = true /\ enabled s (TPark w) = false) /\
    (* the Broadcast step wakes every parked waiter and closes the generation of every waiter
       that has taken its snapshot but is not parked yet *)
    (forall s', step s TBroadcast = Some s' ->
        cur s' = S (cur s) /\
        forall w x, getw s w = Some x ->
          (is_parked (w_pc x) = true -> getw s' w = Some (set_pc x WWoken)) /\
          (forall g, gen_of (w_pc x) = Some g -> is_parked (w_pc x) = false ->
              getw s' w = Some x /\ exists c, nth_error (chans s') g = Some c /\ ch_closed c = true)) /\
    (* ... and such a waiter never parks afterwards, along any run: it stays on the closed
       generation (where only the channel arm or the ctx arm can be taken) or is past the select *)
    (forall w x g c ls s', getw s w = Some x -> gen_of (w_pc x) = Some g ->
        nth_error (chans s) g = Some c -> ch_closed c = true -> run qstep s ls = Some s' ->
        exists x', getw s' w = Some x' /\ is_parked (w_pc x') = false /\
                   (gen_of (w_pc x') = Some g \/ past_select (w_pc x') = true)).
  Proof. exact (cond_broadcast_wakes_all cfg nctx). Qed.

  (* Signal: the part of the first sentence that is true *)
  Theorem C16_signal_partial : forall s, Reach s ->
    (* (i) a token is never stranded while someone is parked on its channel, and a waiter that
       reaches the select with a token in its channel takes it instead of parking *)
    (forall g c w x, nth_error (chans s) g = Some c -> ch_tok c = true ->
        getw s w = Some x -> w_pc x <> WParked g) /\
    (forall g c w x, nth_error (chans s) g = Some c -> ch_tok c = true ->
        getw s w = Some x -> w_pc x = WSelect g ->
        enabled s (TPark w) = false /\ enabled s (TSelCh w) = true) /\
    (* (ii) while a waiter is parked, a Signal is neither buffered nor dropped: it is a hand-off,
       and a hand-off turns a waiter parked on the current generation into a woken one *)
    (forall w x g, getw s w = Some x -> w_pc x = WParked g ->
        step s TSigBuffer = None /\ step s TSigDrop = None /\
        (ctl s = CtlSig -> enabled s (TSigHandoff w) = true)) /\
    (forall w s', step s (TSigHandoff w) = Some s' ->
        exists x, getw s w = Some x /\ w_pc x = WParked (cur s) /\ getw s' w = Some (set_pc x WWoken)) /\
    (* (iii) the ctx arm never consumes a token *)
    (forall w s', step s (TSelCtx w) = Some s' -> chans s' = chans s) /\
    (forall c s', step s (TCancelEff c) = Some s' -> chans s' = chans s).
  Proof. exact (cond_signal_partial cfg nctx). Qed.

  (* (ii), count version: m Signals issued while k waiters are parked wake min k m waiters.
     [nparked s] = number of parked waiters, [npast s] = number of waiters past their select;
     [is_sigcs] = the critical section of a Signal call (hand-off, buffered or dropped),
     [is_retsig] = LRetSignal, [is_handoff] = TSigHandoff _, [is_bc_cancel] = TBroadcast/TCancelEff _ *)
  Theorem C16_signal_partial_count : forall s ls s', Reach s -> run qstep s ls = Some s' ->
    (* along ANY run (arbitrary interleaving with every other thread) containing m Signal critical
       sections, at least min k m more waiters get past the select *)
    npast s + min (nparked s) (count is_sigcs ls) <= npast s' /\
    (* every completed Signal call has executed its critical section *)
    (ctl s = CtlIdle -> count is_retsig ls <= count is_sigcs ls) /\
    (* if no Broadcast and no context expiry intervene, at least min k m of the Signals are
       hand-offs, each waking one parked waiter *)
    (forallb (fun l => negb (is_bc_cancel l)) ls = true ->
       min (nparked s) (count is_sigcs ls) <= count is_handoff ls) /\
    (ctl s = CtlIdle -> forallb (fun l => negb (is_bc_cancel l)) ls = true ->
       min (nparked s) (count is_retsig ls) <= count is_handoff ls).
  Proof. exact (cond_signal_count cfg nctx). Qed.

  (* an expired context is noticed promptly: nobody stays parked with a Done context, the select
     cannot park once the context is Done, the expiry itself moves every waiter parked on that
     context to the error return, which needs neither the lock nor anyone else; Done is stable *)
  Theorem C16_ctx_prompt : forall s, Reach s ->
    (forall w x g, getw s w = Some x -> w_pc x = WParked g -> ctx_done s (w_ctx x) = false) /\
    (forall w x g, getw s w = Some x -> w_pc x = WSelect g -> ctx_done s (w_ctx x) = true ->
        enabled s (TSelCtx w) = true /\ enabled s (TPark w) = false) /\
    (forall w x, getw s w = Some x -> w_pc x = WCtxErr -> enabled s (LRetWait w false false) = true) /\
    (forall c s', step s (TCancelEff c) = Some s' ->
        ctx_done s' c = true /\
        forall w x g, getw s w = Some x -> w_pc x = WParked g -> w_ctx x = c ->
                      getw s' w = Some (set_pc x WCtxErr)) /\
    (forall l s' c, qstep s l = Some s' -> ctx_done s c = true -> ctx_done s' c = true).
  Proof. exact (cond_ctx_prompt cfg nctx). Qed.

  (* no spurious token wake-ups: along every run from the initial state, the number of waiters woken
     by a token (hand-off, or channel arm on an open channel) plus the token still buffered is at
     most the number of Signal critical sections; and the same from any reachable state, counting
     the token buffered at the start *)
  Theorem C16_no_spurious_wakeup : forall ls s,
    run qstep (init cfg nctx) ls = Some s ->
    tokwakes (init cfg nctx) ls + tok_cur s <= count is_sigcs ls /\
    (forall ls' s', run qstep s ls' = Some s' ->
                    tokwakes s ls' + tok_cur s' <= count is_sigcs ls' + tok_cur s).
  Proof. exact (cond_no_spurious_wakeup cfg nctx). Qed.
End C16.

Print Assumptions C16_signal_wakes_min_refuted.
Print Assumptions C16_signal_wakes_min_refuted_run.
Print Assumptions C16_lock_mutex.
Print Assumptions C16_nil_holds_lock.
Print Assumptions C16_ctx_error_without_lock.
Print Assumptions C16_broadcast_wakes_all.
Print Assumptions C16_signal_partial.
Print Assumptions C16_signal_partial_count.
Print Assumptions C16_ctx_prompt.
Print Assumptions C16_no_spurious_wakeup.

(* ---- non-vacuity: the model runs the histories the theorems talk about ---- *)

(* a parked waiter is woken by a Signal hand-off, re-locks and returns nil *)
Example C16_ex_signal_handoff :
  final_pcs [(GNone, 0)] 1
    (park0 ++ [LQuiesce; LCallSignal; TSigHandoff 0; LRetSignal] ++ ret_nil 0 ++ [LQuiesce])
  = Some ([WDone], None).
Proof. exact ex_signal_handoff. Qed.

(* two parked waiters, two Signals, two hand-offs: the count theorem is tight *)
Example C16_ex_two_signals :
  let ls := park0 ++ park1 ++ [LCallSignal; TSigHandoff 1; LRetSignal; LCallSignal; TSigHandoff 0; LRetSignal]
            ++ ret_nil 0 ++ ret_nil 1 ++ [LQuiesce] in
  final_pcs [(GNone, 0); (GNone, 1)] 2 ls = Some ([WDone; WDone], None) /\
  nparked (run_or (init [(GNone, 0); (GNone, 1)] 2) (park0 ++ park1)) = 2 /\
  count is_handoff ls = 2.
Proof. exact ex_two_signals. Qed.

(* Broadcast wakes a parked waiter and a waiter that has only taken its snapshot *)
Example C16_ex_broadcast :
  final_pcs [(GNone, 0); (GPost, 1)] 2
    (park0 ++ [LSpawn 1; TLockL 1; LCallWait 1; TSnapshot 1; LUnlockEnter 1; TRealUnlock 1]
     ++ [LCallBroadcast; TBroadcast; LRetBroadcast; LRelease 1; LUnlockExit 1; TSelCh 1]
     ++ ret_nil 1 ++ ret_nil 0 ++ [LQuiesce])
  = Some ([WDone; WDone], None).
Proof. exact ex_broadcast. Qed.

(* cancellation of a parked waiter: it returns the error without the lock *)
Example C16_ex_cancel_parked :
  final_pcs [(GNone, 0)] 1 (park0 ++ [LCancel 0; TCancelEff 0; LRetWait 0 false false; LQuiesce])
  = Some ([WDone], None).
Proof. exact ex_cancel_parked. Qed.

(* the enabling hypotheses of the two return theorems are satisfiable *)
Example C16_ex_ret_enabled :
  enabled (run_or (init [(GNone, 0)] 1) (park0 ++ [LCallSignal; TSigHandoff 0; LRetSignal; TRelock 0]))
          (LRetWait 0 true true) = true /\
  enabled (run_or (init [(GNone, 0)] 1) (park0 ++ [LCancel 0; TCancelEff 0]))
          (LRetWait 0 false false) = true.
Proof. exact ex_ret_enabled. Qed.

(* ---- the correspondence check's history matcher is certified for this model (Conc/CondMatcher.v on top of
   the generic Conc/GoLTSProofs.v): an accepted history IS the trace of a run of the model, and a rejected
   history whose closures converged within the fuel ([cond_converged], evaluated by the check for every
   history) is the trace of NO run - so a reported model/implementation disagreement is never an artefact of
   the matcher ---- *)
From Juniper Require Conc.GoLTSProofs Conc.CondMatcher.

Theorem C16_matcher_sound : forall cfg nctx evs,
    accepts_history cfg nctx evs = true ->
    exists ls s, run qstep (init cfg nctx) ls = Some s /\ CondMatcher.cond_trace ls = evs.
Proof. exact CondMatcher.cond_accepts_sound. Qed.

Theorem C16_matcher_rejections_genuine : forall cfg nctx evs,
    CondMatcher.cond_converged cfg nctx evs = true -> accepts_history cfg nctx evs = false ->
    forall ls s, run qstep (init cfg nctx) ls = Some s -> CondMatcher.cond_trace ls <> evs.
Proof. exact CondMatcher.cond_reject_genuine. Qed.

Print Assumptions C16_matcher_sound.
Print Assumptions C16_matcher_rejections_genuine.

(* Tie to the source: the Go functions the model transcribes still contain exactly the synchronisation operations
   (select arms, channel operations, goroutine starts, timer/context/sync calls) the model accounts for.
   Generated/Census.v is re-extracted from the Go source on every run (tools/gofacts/census.go). *)
From Juniper Require Translated.CensusC16.
Theorem C16_source_census : Translated.CensusC16.census_expected_C16.
Proof. exact Translated.CensusC16.census_C16_ok. Qed.
Print Assumptions C16_source_census.
