(* C01 (sequential part) — every call on a tree.Map / tree.Set returns what an ideal sorted map with
   the same history returns, for every strict weak order given as a less or a three-way compare.
   Only statements live here; each is closed by [exact] of a lemma proved in Tree/Proofs*.v.

   Layers: BTree.v + Cursor.v = model of btree.go (layer M); SMap.v + AIter.v = the ideal sorted map
   (layer S); Hist.v = the two interpreters run_M / run_S over one vocabulary of calls.
   The abstraction function is [inorder (root t)].

   Out of scope here: the Go memory model.  The sentence about concurrent Puts to distinct present
   keys is backed at model level by C01_put_present_only_value / C01_concurrent_puts_commute (such a
   Put writes one value slot and nothing else; two of them commute); data-race freedom itself is
   checked by the harness under the race detector. *)
From Juniper Require Import Common.Base Tree.Bound Tree.BTree Tree.Cursor Tree.SMap Tree.AIter Tree.Hist
  Tree.ProofsSMap Tree.ProofsSpecLaws Tree.ProofsWf Tree.ProofsRefine Tree.ProofsHist
  Tree.ProofsPutPresent Tree.ProofsRange.

(* ---- the comparison laws, and the orders they cover ---- *)

(* cmp_laws: cmp a a = Eq; cmp a b = CompOpp (cmp b a); Lt is transitive; Eq is a congruence. *)
Theorem C01_cmp_Z : cmp_laws Z.compare.
Proof. exact cmp_laws_Z. Qed.

Theorem C01_cmp_Z_reversed : cmp_laws (fun a b : Z => Z.compare b a).
Proof. exact cmp_laws_Z_rev. Qed.

Theorem C01_cmp_Z_coarse : cmp_laws (fun a b : Z => Z.compare (Z.quot a 4) (Z.quot b 4)).
Proof. exact cmp_laws_Z_coarse. Qed.

(* NewMap(less): xsort.LessCompare of any strict weak order *)
Theorem C01_less_cmp : forall (K : Type) (less : K -> K -> bool),
    strict_weak_order less -> cmp_laws (cmp_of_less less).
Proof. exact @less_cmp_laws. Qed.

Theorem C01_mode_cmp : forall mode, cmp_laws (mode_cmp mode).
Proof. exact mode_cmp_laws. Qed.

Print Assumptions C01_cmp_Z.
Print Assumptions C01_cmp_Z_reversed.
Print Assumptions C01_cmp_Z_coarse.
Print Assumptions C01_less_cmp.
Print Assumptions C01_mode_cmp.

Section C01.
  Context {K V : Type} (cmp : K -> K -> comparison) (kzero : K) (vzero : V).
  Context (minKVs maxKVs : nat).
  Hypothesis Hlaws : cmp_laws cmp.
  Hypothesis Hmin : (1 <= minKVs)%nat.
  Hypothesis Hmax : (2 * minKVs <= maxKVs)%nat.

  Notation tree := (btree K V).
  Notation wf := (wf cmp minKVs maxKVs).
  Notation put := (put K V cmp kzero vzero maxKVs).
  Notation delete := (delete K V cmp kzero vzero minKVs).
  Notation get := (get K V cmp kzero vzero).
  Notation contains := (contains K V cmp).
  Notation first := (first K V kzero vzero).
  Notation last_kv := (last_kv K V kzero vzero).
  Notation abs t := (inorder (root t)).

  (* ---- each operation against the ideal map, through the abstraction inorder (root t) ---- *)

  Theorem C01_put_inorder : forall (t : tree) k v, wf t ->
    abs (put t k v) = sm_put K V cmp (abs t) k v.
  Proof.
    exact (fun t k v H => proj2 (put_spec cmp Hlaws kzero vzero minKVs maxKVs Hmin Hmax t k v H)).
  Qed.

  Theorem C01_delete_inorder : forall (t : tree) k, wf t ->
    abs (delete t k) = sm_del K V cmp (abs t) k.
  Proof.
    exact (fun t k H => proj2 (delete_spec cmp Hlaws kzero vzero minKVs maxKVs Hmin Hmax t k H)).
  Qed.

  Theorem C01_get : forall (t : tree) k, wf t -> get t k = sm_get K V cmp vzero (abs t) k.
  Proof. exact (get_spec cmp Hlaws kzero vzero minKVs maxKVs Hmin). Qed.

  Theorem C01_contains : forall (t : tree) k, wf t -> contains t k = sm_contains K V cmp (abs t) k.
  Proof. exact (contains_spec cmp Hlaws kzero vzero minKVs maxKVs Hmin). Qed.

  Theorem C01_len : forall t : tree, wf t -> len t = sm_len K V (abs t).
  Proof. exact (len_spec cmp minKVs maxKVs). Qed.

  Theorem C01_first : forall t : tree, wf t -> first t = sm_first K V kzero vzero (abs t).
  Proof. exact (first_spec cmp Hlaws kzero vzero minKVs maxKVs Hmin Hmax). Qed.

  Theorem C01_last : forall t : tree, wf t -> last_kv t = sm_last K V kzero vzero (abs t).
  Proof. exact (last_spec cmp Hlaws kzero vzero minKVs maxKVs Hmin Hmax). Qed.

  (* after every history of Puts and Deletes the tree is well-formed (so the above apply) and
     represents the ideal map with the same history *)
  Theorem C01_abs_after_every_history : forall ops : list (@mut_op K V),
    wf (apply_muts cmp kzero vzero minKVs maxKVs ops) /\
    abs (apply_muts cmp kzero vzero minKVs maxKVs ops) = fold_left (spec_mut cmp) ops [].
  Proof. exact (wf_after_muts cmp Hlaws kzero vzero minKVs maxKVs Hmin Hmax). Qed.

  (* ---- a Put of a key that is already present writes one value slot and nothing else ---- *)

  (* node identities, keys and shape (skel), gen, size, next_id and the result of every Contains
     are unchanged; no well-formedness needed *)
  Theorem C01_put_present_only_value : forall (t : tree) k v,
    contains t k = true ->
    skel (root (put t k v)) = skel (root t) /\
    size (put t k v) = size t /\ gen (put t k v) = gen t /\ next_id (put t k v) = next_id t /\
    (forall k', contains (put t k v) k' = contains t k').
  Proof. exact (put_present cmp kzero vzero maxKVs). Qed.

  (* two such Puts to inequivalent keys commute: the same tree results in either order *)
  Theorem C01_concurrent_puts_commute : forall (t : tree) k1 v1 k2 v2,
    contains t k1 = true -> contains t k2 = true -> cmp k1 k2 <> Eq ->
    put (put t k1 v1) k2 v2 = put (put t k2 v2) k1 v1.
  Proof. exact (puts_commute cmp kzero vzero maxKVs Hlaws). Qed.

End C01.

Print Assumptions C01_put_inorder.
Print Assumptions C01_delete_inorder.
Print Assumptions C01_get.
Print Assumptions C01_contains.
Print Assumptions C01_len.
Print Assumptions C01_first.
Print Assumptions C01_last.
Print Assumptions C01_abs_after_every_history.
Print Assumptions C01_put_present_only_value.
Print Assumptions C01_concurrent_puts_commute.

(* ---- laws of the ideal sorted map: what "the ideal map returns" means ---- *)
Section C01_spec.
  Context {K V : Type} (cmp : K -> K -> comparison) (kzero : K) (vzero : V).
  Hypothesis Hlaws : cmp_laws cmp.
  Notation smap := (smap K V).
  Notation sorted := (sm_sorted K V cmp).

  Theorem C01_spec_laws :
    (* sortedness is an invariant of the ideal map *)
    (forall (m : smap) k v, sorted m -> sorted (sm_put K V cmp m k v)) /\
    (forall (m : smap) k, sorted m -> sorted (sm_del K V cmp m k)) /\
    (* lookups see the last value put under an equivalent key *)
    (forall (m : smap) k v k',
        sm_get K V cmp vzero (sm_put K V cmp m k v) k' =
        if is_eq (cmp k' k) then v else sm_get K V cmp vzero m k') /\
    (forall (m : smap) k k', sorted m ->
        sm_get K V cmp vzero (sm_del K V cmp m k) k' =
        if is_eq (cmp k' k) then vzero else sm_get K V cmp vzero m k') /\
    (forall (m : smap) k v k',
        sm_contains K V cmp (sm_put K V cmp m k v) k' =
        if is_eq (cmp k' k) then true else sm_contains K V cmp m k') /\
    (forall (m : smap) k k', sorted m ->
        sm_contains K V cmp (sm_del K V cmp m k) k' =
        if is_eq (cmp k' k) then false else sm_contains K V cmp m k') /\
    (* Len counts distinct keys *)
    (forall (m : smap) k v,
        sm_len K V (sm_put K V cmp m k v) =
        if sm_contains K V cmp m k then sm_len K V m else sm_len K V m + 1) /\
    (forall (m : smap) k,
        sm_len K V (sm_del K V cmp m k) =
        if sm_contains K V cmp m k then sm_len K V m - 1 else sm_len K V m) /\
    (forall (m : smap) i j a b, sorted m -> nth_error m i = Some a -> nth_error m j = Some b ->
        i <> j -> cmp (fst a) (fst b) <> Eq) /\
    (* First / Last are the extreme entries, zero values when empty *)
    (sm_first K V kzero vzero [] = (kzero, vzero) /\ sm_last K V kzero vzero [] = (kzero, vzero)) /\
    (forall (m : smap) kv, sorted m -> In kv m ->
        In (sm_first K V kzero vzero m) m /\
        (kv = sm_first K V kzero vzero m \/ cmp (fst (sm_first K V kzero vzero m)) (fst kv) = Lt)) /\
    (forall (m : smap) kv, sorted m -> In kv m ->
        In (sm_last K V kzero vzero m) m /\
        (kv = sm_last K V kzero vzero m \/ cmp (fst kv) (fst (sm_last K V kzero vzero m)) = Lt)) /\
    (* ranges: exactly the entries inside the bounds, once each, strictly ascending
       (RangeReverse: the same, descending), with their current values *)
    (forall lo hi (m : smap) kv,
        In kv (sm_range K V cmp lo hi m) <-> In kv m /\ in_range K cmp lo hi (fst kv) = true) /\
    (forall lo hi (m : smap), sorted m -> sorted (sm_range K V cmp lo hi m)) /\
    (forall lo hi (m : smap), sm_range_rev K V cmp lo hi m = rev (sm_range K V cmp lo hi m)).
  Proof.
    exact (conj (spec_sorted_put cmp Hlaws)
          (conj (spec_sorted_del cmp Hlaws)
          (conj (spec_get_put cmp Hlaws vzero)
          (conj (spec_get_del cmp Hlaws vzero)
          (conj (spec_contains_put cmp Hlaws)
          (conj (spec_contains_del cmp Hlaws)
          (conj (spec_len_put cmp)
          (conj (spec_len_del cmp)
          (conj (spec_keys_distinct cmp Hlaws)
          (conj (spec_first_last_empty kzero vzero)
          (conj (spec_first_min cmp Hlaws kzero vzero)
          (conj (spec_last_max cmp Hlaws kzero vzero)
          (conj (spec_range_filter cmp)
          (conj (spec_range_sorted cmp Hlaws)
                (spec_range_rev cmp))))))))))))))).
  Qed.
End C01_spec.

Print Assumptions C01_spec_laws.

(* ---- history level: exact equality of the observations of the two layers ---- *)

(* histories of plain calls: Put, Delete, Get, Contains, Len, First, Last *)
Theorem C01_refinement_no_range : forall minKVs maxKVs : nat,
    (1 <= minKVs)%nat -> (2 * minKVs <= maxKVs)%nat ->
    forall mode ops, forallb plain_op ops = true ->
      run_M minKVs maxKVs mode ops = run_S mode ops.
Proof. exact refinement_no_range. Qed.

Print Assumptions C01_refinement_no_range.

(* Range(lo, hi) / RangeReverse(lo, hi) created on a well-formed tree and drained at once (any mix
   of Included / Excluded / Unbounded bounds) never panic and yield exactly the ideal range *)
Theorem C01_range_drained : forall minKVs maxKVs : nat,
    (1 <= minKVs)%nat -> (2 * minKVs <= maxKVs)%nat ->
    forall mode (t : btree Z Z) lo hi,
      wf (mode_cmp mode) minKVs maxKVs t ->
      match range Z Z (mode_cmp mode) 0 t lo hi with
      | Panic _ => OPanic
      | Ok it => drain_M (mode_cmp mode) (drain_fuel t) t it
      end = OList (sm_range Z Z (mode_cmp mode) lo hi (inorder (root t))).
Proof. exact range_drain. Qed.

Theorem C01_range_rev_drained : forall minKVs maxKVs : nat,
    (1 <= minKVs)%nat -> (2 * minKVs <= maxKVs)%nat ->
    forall mode (t : btree Z Z) lo hi,
      wf (mode_cmp mode) minKVs maxKVs t ->
      match range_rev Z Z (mode_cmp mode) 0 t lo hi with
      | Panic _ => OPanic
      | Ok it => drain_M (mode_cmp mode) (drain_fuel t) t it
      end = OList (sm_range_rev Z Z (mode_cmp mode) lo hi (inorder (root t))).
Proof. exact range_rev_drain. Qed.

(* every history without live iterators (TIterNew / TIterNext: see C02) and without the probes
   TGetCost / TShape (not calls of the API; layer S answers them with OUnit):
   Put, Delete, Get, Contains, Len, First, Last, Range, RangeReverse in any mix *)
Theorem C01_refinement : forall minKVs maxKVs : nat,
    (1 <= minKVs)%nat -> (2 * minKVs <= maxKVs)%nat ->
    forall mode ops, forallb seq_op ops = true ->
      run_M minKVs maxKVs mode ops = run_S mode ops.
Proof. exact refinement. Qed.

Print Assumptions C01_range_drained.
Print Assumptions C01_range_rev_drained.
Print Assumptions C01_refinement.

(* ---- the shipped constants ---- *)
From Juniper Require Import Generated.Params Tree.Corr.

Theorem C01_params_ok : (1 <= minK)%nat /\ (2 * minK <= maxK)%nat.
Proof. unfold minK, maxK, tree_minKVs, tree_maxKVs. lia. Qed.

Theorem C01_refinement_shipped : forall mode ops,
    forallb seq_op ops = true -> run_M_shipped mode ops = run_S mode ops.
Proof. exact (C01_refinement minK maxK (proj1 C01_params_ok) (proj2 C01_params_ok)). Qed.

(* non-vacuity: the histories of Corr.v (split of the root, steal, merge back, root collapse, ranges
   with all kinds of bounds, coarse orders) are covered by the theorem and run on both layers *)
Example C01_history_runs :
  forallb seq_op (no_probe h_merge) = true /\
  forallb seq_op (no_probe h_split) = true /\
  run_S 0 (no_probe h_merge) =
    repeat OUnit 16 ++
    [OUnit; OUnit;
     OList (map (fun n => (Z.of_nat n, Z.of_nat n * 10)) (seq 0 14));
     OList [(8, 80); (7, 70); (6, 60); (5, 50); (4, 40); (3, 30)];
     OList []; OInt 14] /\
  run_M_shipped 2 [TPut 5 1; TPut 6 2; TGet 4; TRange (BInc 3) (BExc 8); TRangeRev BUnb (BInc 7)] =
    [OUnit; OUnit; OInt 2; OList [(5, 2)]; OList [(5, 2)]].
Proof. vm_compute. repeat split; reflexivity. Qed.

(* non-vacuity of the present-key theorems: in a three-node tree of 20 keys, Puts to the present keys
   3 (left leaf) and 17 (right leaf) change no identity / key / shape and commute *)
Example C01_puts_commute_runs :
  let t := m_t (fst (steps_M minK maxK 0 m0 (puts (seq 0 20)))) in
  let put := put Z Z Z.compare 0 0 maxK in
  contains Z Z Z.compare t 3 = true /\ contains Z Z Z.compare t 17 = true /\
  skel (root (put t 3 333)) = skel (root t) /\
  get Z Z Z.compare 0 0 (put t 3 333) 3 = 333 /\
  put (put t 3 333) 17 1717 = put (put t 17 1717) 3 333 /\
  put t 3 333 <> t.
Proof. vm_compute. repeat split; try reflexivity. discriminate. Qed.

Print Assumptions C01_params_ok.
Print Assumptions C01_refinement_shipped.

