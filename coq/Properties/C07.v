(* C07 - iterator / stream / xslices combinators compute the sequence their documentation defines,
   lazily, and the end is sticky.  Statements only; proofs in theories/Iter/.
   Models: Iter/IterModel.v (run_iter_cfg), Iter/StreamModel.v (run_stream_cfg),
   Iter/XSlices.v (xs_chunk, xs_runs).  Specification: Iter/Spec.v:
     den p       the sequence a pipeline is documented to yield, built from plain list functions
                 (filter, firstn, concat, map, takewhile, spec_compact, spec_chunk, spec_runs, ...)
     expect l k  what k consecutive Next calls answer for a pipeline denoting l: the first k items
                 of l, then the end - again and again
     dom p       chunk sizes are >= 1 (the only parameter restriction that is needed)
     clean p     dom p, no scripted source fails, no callback fails. *)
From Juniper Require Import Common.Base Iter.Syntax Iter.Config Iter.ModelBase Iter.IterModel
  Iter.StreamModel Iter.Spec Iter.IterProofs Iter.StreamProofs Iter.Reducers Iter.SReducers
  Iter.XSlices Iter.Lazy Iter.Final.

(* ---- every pipeline yields its denotation; the end is sticky ---- *)
Theorem C07_iter_den : forall cfg p lives,
  iter_supported p = true -> dom p ->
  results (run_iter_cfg cfg p (Steps (map CNext lives))) = expect (den p) (length lives).
Proof. exact iter_steps_den. Qed.

Theorem C07_stream_den : forall cfg p k,
  clean p ->
  results (run_stream_cfg cfg p (Steps (map CNext (repeat true k)))) = expect (den p) k.
Proof. exact stream_steps_den. Qed.

Theorem C07_agree_iter_stream : forall cfg1 cfg2 p k,
  iter_supported p = true -> clean p ->
  results (run_iter_cfg cfg1 p (Steps (map CNext (repeat true k))))
  = results (run_stream_cfg cfg2 p (Steps (map CNext (repeat true k)))).
Proof. exact iter_stream_agree. Qed.

Theorem C07_sticky_iter : forall cfg p lives i j,
  iter_supported p = true -> dom p -> (i <= j)%nat -> (j < length lives)%nat ->
  let rs := results (run_iter_cfg cfg p (Steps (map CNext lives))) in
  nth_error rs i = Some REnd -> nth_error rs j = Some REnd.
Proof. exact iter_sticky. Qed.

Theorem C07_sticky_stream : forall cfg p k i j,
  clean p -> (i <= j)%nat -> (j < k)%nat ->
  let rs := results (run_stream_cfg cfg p (Steps (map CNext (repeat true k)))) in
  nth_error rs i = Some REnd -> nth_error rs j = Some REnd.
Proof. exact stream_sticky. Qed.

(* ---- reducers, iterators ---- *)
Theorem C07_collect_iter : forall cfg p b, iter_supported_z p = true -> dom_z p ->
  results (run_iter_cfg cfg (inl p) (Reduce RCollect b)) = [RVal (den_z p)].
Proof. exact iter_collect_den. Qed.

Theorem C07_reduce_iter : forall cfg p b, iter_supported_z p = true -> dom_z p ->
  results (run_iter_cfg cfg (inl p) (Reduce RSum b)) = [RVal [fold_left Z.add (den_z p) 0]].
Proof. exact iter_sum_den. Qed.

Theorem C07_one_iter : forall cfg p b, iter_supported_z p = true -> dom_z p ->
  results (run_iter_cfg cfg (inl p) (Reduce ROne b))
  = [match den_z p with [x] => RVal [x] | _ => REnd end].
Proof. exact iter_one_den. Qed.

(* Last: the last n items for EVERY n (n <= 0: none) in the repaired configuration - which is
   the configuration of /repo now -, and for n >= 1 in any configuration *)
Theorem C07_last_iter : forall cfg p b, iter_supported_z p = true -> dom_z p ->
  forall n, (cfg_last_guard cfg = true \/ 1 <= n) ->
  results (run_iter_cfg cfg (inl p) (Reduce (RLast n) b))
  = [RVal (lastn (Z.to_nat n) (den_z p))].
Proof. exact iter_last_den. Qed.

Theorem C07_last_current_config : cfg_last_guard current_cfg = true.
Proof. exact eq_refl. Qed.

(* before the repair: Last with n = 0 panicked (integer divide by zero) for every input *)
Theorem C07_last_n0_refuted :
  exists p, iter_supported_z p = true /\ dom_z p /\
    results (run_iter_cfg original_cfg (inl p) (Reduce (RLast 0) true))
    <> [RVal (lastn (Z.to_nat 0) (den_z p))].
Proof. exact iter_last_n0_refuted. Qed.

(* Equal(p, others...) is true exactly when all pipelines denote the same sequence *)
Theorem C07_equal_den : forall cfg p b,
  iter_supported_z p = true -> dom_z p ->
  forall others, forallb iter_supported_z others = true -> Forall dom_z others ->
  exists e : bool,
    results (run_iter_cfg cfg (inl p) (Reduce (REqual others) b)) = [RVal [if e then 1 else 0]] /\
    (e = true <-> Forall (fun q => den_z q = den_z p) others).
Proof. exact iter_equal_den. Qed.

Theorem C07_equal_self : forall cfg p b, iter_supported_z p = true -> dom_z p ->
  results (run_iter_cfg cfg (inl p) (Reduce REqualSelf b)) = [RVal [1]].
Proof. exact iter_equal_self. Qed.

(* ---- reducers, streams (failure-free pipelines, live context) ---- *)
Theorem C07_collect_stream : forall cfg p, okz false p ->
  results (run_stream_cfg cfg (inl p) (Reduce RCollect true)) = [RVal (den_z p)].
Proof. exact stream_collect_den. Qed.

Theorem C07_reduce_stream : forall cfg p, okz false p ->
  results (run_stream_cfg cfg (inl p) (Reduce RSum true)) = [RVal [fold_left Z.add (den_z p) 0]].
Proof. exact stream_sum_den. Qed.

Theorem C07_one_stream : forall cfg p, okz false p ->
  results (run_stream_cfg cfg (inl p) (Reduce ROne true)) = [one_res (den_z p)].
Proof. exact stream_one_den. Qed.

Theorem C07_last_stream : forall cfg p, okz false p ->
  forall n, (cfg_last_guard cfg = true \/ 1 <= n) ->
  results (run_stream_cfg cfg (inl p) (Reduce (RLast n) true))
  = [RVal (lastn (Z.to_nat n) (den_z p))].
Proof. exact stream_last_den. Qed.

Theorem C07_last_stream_n0_refuted :
  exists p, okz false p /\
    results (run_stream_cfg original_cfg (inl p) (Reduce (RLast 0) true))
    <> [RVal (lastn (Z.to_nat 0) (den_z p))].
Proof. exact stream_last_n0_refuted. Qed.

(* ---- xslices agrees with the iterator/stream versions ---- *)
Theorem C07_chunk_agree : forall n s, 1 <= n ->
  xs_chunk n s = Ok (den_l (LChunk n (ZSrc 0 (SSlice s)))).
Proof. exact xs_chunk_agree. Qed.

(* Runs, with the repaired loop (xslices_runs_fixed = true: the code in /repo now) *)
Theorem C07_runs_agree : forall r s,
  xs_runs true (rel_eval r) s = den_l (LRuns r None (ZSrc 0 (SSlice s))).
Proof. exact xs_runs_agree_fixed. Qed.

Theorem C07_runs_current_config : cfg_xs_runs_fixed current_cfg = true.
Proof. exact eq_refl. Qed.

(* the original loop lost a leading run of length one *)
Theorem C07_runs_agree_refuted :
  exists r s, xs_runs false (rel_eval r) s <> den_l (LRuns r None (ZSrc 0 (SSlice s))).
Proof. exact xs_runs_agree_refuted. Qed.

(* ---- laziness ---- *)
(* construction pulls nothing *)
Theorem C07_no_pull_before_next_iter : forall cfg p,
  run_iter_cfg cfg p (Steps []) = mkRunObs [] [].
Proof. exact no_pull_before_next_iter. Qed.
Theorem C07_no_pull_before_next_stream : forall cfg p,
  run_stream_cfg cfg p (Steps []) = mkRunObs [] [].
Proof. exact no_pull_before_next_stream. Qed.

(* Filter over a Slice: after k successful Next calls the source has been asked exactly
   (index of the k-th kept item + 1) times *)
Theorem C07_lazy_filter : forall cfg id keep fl l k,
  (k <= length (filter (pred_eval keep) l))%nat ->
  let run := run_iter_cfg cfg (inl (ZFilter keep fl (ZSrc id (SSlice l))))
                          (Steps (map CNext (repeat true k))) in
  count_next id (ro_log run) = kept_pos (pred_eval keep) l k /\
  results run = map (fun x => RItem (IZ x)) (firstn k (filter (pred_eval keep) l)).
Proof. exact filter_pulls_exact. Qed.

(* per call, over the instrumented Slice source [slice_nx id]: exactly the calls listed *)
Theorem C07_lazy_filter_call : forall id keep n a o a' ev,
  (length a < n)%nat -> ifilter (slice_nx id) n keep a = (o, a', ev) ->
  match o with
  | Item x => exists pre, a = pre ++ x :: a' /\ forallb (fun y => negb (pred_eval keep y)) pre = true
                          /\ pred_eval keep x = true /\ ev = repeat (SevNext id) (length pre + 1)
  | End => forallb (fun y => negb (pred_eval keep y)) a = true /\ a' = [] /\
           ev = repeat (SevNext id) (length a + 1)
  | _ => False
  end.
Proof. exact ifilter_lazy. Qed.

Theorem C07_lazy_first_call : forall id x a o x' a' ev,
  ifirst (slice_nx id) x a = (o, (x', a'), ev) ->
  if x <=? 0 then o = End /\ ev = [] /\ a' = a
  else ev = repeat (SevNext id) 1 /\ x' = x - 1 /\
       match a with [] => o = End | y :: t => o = Item y /\ a' = t end.
Proof. exact ifirst_lazy. Qed.

Theorem C07_lazy_map_call : forall id f a o a' ev,
  imap (slice_nx id) f a = (o, a', ev) -> ev = repeat (SevNext id) 1.
Proof. exact imap_lazy. Qed.

Theorem C07_lazy_while_call : forall id f done a o done' a' ev,
  iwhile (slice_nx id) f done a = (o, (done', a'), ev) ->
  ev = if done then [] else repeat (SevNext id) 1.
Proof. exact iwhile_lazy. Qed.

Theorem C07_lazy_compact_call : forall id r n first prev a o first' prev' a' ev,
  (length a < n)%nat -> icompact (slice_nx id) n r first prev a = (o, (first', prev', a'), ev) ->
  match o with
  | Item x => exists pre, a = pre ++ x :: a' /\ (first = true -> pre = []) /\
                          forallb (fun y => rel_eval r prev y) pre = true /\
                          ev = repeat (SevNext id) (length pre + 1) /\ prev' = x
  | End => a' = [] /\ ev = repeat (SevNext id) (length a + 1)
  | _ => False
  end.
Proof. exact icompact_lazy. Qed.

Theorem C07_lazy_chunk_call : forall id size n chunk a o a' ev,
  (length a < n)%nat -> zlen chunk < size ->
  ichunk_loop (slice_nx id) n size chunk a = (o, a', ev) ->
  match o with
  | Item l => exists taken, l = chunk ++ taken /\ a = taken ++ a' /\
                (zlen l = size /\ ev = repeat (SevNext id) (length taken)
                 \/ zlen l < size /\ a' = [] /\ ev = repeat (SevNext id) (length taken + 1))
  | End => chunk = [] /\ a = [] /\ ev = repeat (SevNext id) 1
  | _ => False
  end.
Proof. exact ichunk_loop_lazy. Qed.

(* Join / Flatten touch only the inner iterator they are at *)
Theorem C07_lazy_join_call : forall St (nx : St -> ret Z St) n c tl x c' ev,
  nx c = (Item x, c', ev) -> ijoin nx (S n) (c :: tl) = (Item x, c' :: tl, ev).
Proof. exact @ijoin_lazy. Qed.
Theorem C07_lazy_flatten_call : forall St (nx : St -> ret Z St) n rest c x c' ev,
  nx c = (Item x, c', ev) -> iflatten nx (S n) rest (Some c) = (Item x, (rest, Some c'), ev).
Proof. exact @iflatten_lazy. Qed.

(* the fuel the models use is always enough *)
Theorem C07_model_total_iter : forall s o s' ev, istep s = (o, s', ev) -> o <> Out.
Proof. exact inext_fuel_enough. Qed.
Theorem C07_model_total_stream : forall live s o s' ev, sstep live s = (o, s', ev) -> o <> Out.
Proof. exact snext_fuel_enough. Qed.

(* non-vacuity *)
Example C07_demo : iter_supported (inl demo) = true /\ clean (inl demo).
Proof. exact demo_supported. Qed.
Example C07_demo_run :
  results (run_iter (inl demo) (Steps (map CNext (repeat true 9))))
  = map (fun x => RItem (IZ x)) [1; 3; 5; 7; 7; 8; 4] ++ [REnd; REnd].
Proof. exact demo_iter_run. Qed.

Print Assumptions C07_iter_den.
Print Assumptions C07_stream_den.
Print Assumptions C07_agree_iter_stream.
Print Assumptions C07_sticky_iter.
Print Assumptions C07_sticky_stream.
Print Assumptions C07_collect_iter.
Print Assumptions C07_reduce_iter.
Print Assumptions C07_one_iter.
Print Assumptions C07_last_iter.
Print Assumptions C07_last_n0_refuted.
Print Assumptions C07_equal_den.
Print Assumptions C07_equal_self.
Print Assumptions C07_collect_stream.
Print Assumptions C07_reduce_stream.
Print Assumptions C07_one_stream.
Print Assumptions C07_last_stream.
Print Assumptions C07_last_stream_n0_refuted.
Print Assumptions C07_chunk_agree.
Print Assumptions C07_runs_agree.
Print Assumptions C07_runs_agree_refuted.
Print Assumptions C07_no_pull_before_next_iter.
Print Assumptions C07_lazy_filter.
Print Assumptions C07_lazy_filter_call.
Print Assumptions C07_lazy_chunk_call.
Print Assumptions C07_lazy_compact_call.
Print Assumptions C07_model_total_iter.
Print Assumptions C07_model_total_stream.
