(* C07 - iterator / stream / xslices combinators compute the sequence their documentation defines,
   lazily, and the end is sticky.  Statements only; proofs in theories/Iter/.
   Models: Iter/IterModel.v (run_iter_cfg), Iter/StreamModel.v (run_stream_cfg),
   Iter/XSlices.v (xs_chunk, xs_runs).  Specification: Iter/Spec.v:
     den p       the sequence a pipeline is documented to yield, built from plain list functions
                 (filter, firstn, concat, map, takewhile, spec_compact, spec_chunk, spec_runs, ...)
     expect l k  what k consecutive Next calls answer for a pipeline denoting l: the first k items
                 of l, then the end - again and again
     dom p       chunk sizes are >= 1 (the only parameter restriction that is needed)
     clean p     dom p, no scripted source fails, no callback fails.
     no_panics p no callback of p panics (cb_panics fl = false for every [failing] record of
                 Filter/Map/While) and no scripted source has an EvPanic event (boolean).
                 Iterator callbacks cannot return errors, so a [failing] record that does not
                 panic is ignored by the iterator model; one that panics makes the k-th
                 invocation panic.  Every iterator statement about results therefore carries
                 the hypothesis [no_panics p = true] (for a single callback:
                 [cb_panics fl = false]); clean p implies it (Final.clean_no_panics).  The
                 statements that compare runs (prefix determinacy, composition of pull
                 counts) hold with panicking callbacks too and carry no such hypothesis. *)
From Juniper Require Import Common.Base Iter.Syntax Iter.Config Iter.ModelBase Iter.IterModel
  Iter.StreamModel Iter.Spec Iter.IterProofs Iter.StreamProofs Iter.Reducers Iter.SReducers
  Iter.XSlices Iter.Lazy Iter.Final Iter.ErrorSource.

(* ---- every pipeline yields its denotation; the end is sticky ---- *)
Theorem C07_iter_den : forall cfg p lives,
  iter_supported p = true -> dom p -> no_panics p = true ->
  results (run_iter_cfg cfg p (Steps (map CNext lives))) = expect (den p) (length lives).
Proof. exact iter_steps_den. Qed.

Theorem C07_stream_den : forall cfg p k,
  clean p ->
  results (run_stream_cfg cfg p (Steps (map CNext (repeat true k)))) = expect (den p) k.
Proof. exact stream_steps_den. Qed.

Theorem C07_agree_iter_stream : forall cfg1 cfg2 p k,
  iter_supported p = true -> clean p ->
  results (run_iter_cfg cfg1 p (Steps (map CNext (repeat true k))))
  = results (run_stream_cfg cfg2 p (Steps (map CNext (repeat true k)))).
Proof. exact iter_stream_agree. Qed.

Theorem C07_sticky_iter : forall cfg p lives i j,
  iter_supported p = true -> dom p -> no_panics p = true ->
  (i <= j)%nat -> (j < length lives)%nat ->
  let rs := results (run_iter_cfg cfg p (Steps (map CNext lives))) in
  nth_error rs i = Some REnd -> nth_error rs j = Some REnd.
Proof. exact iter_sticky. Qed.

Theorem C07_sticky_stream : forall cfg p k i j,
  clean p -> (i <= j)%nat -> (j < k)%nat ->
  let rs := results (run_stream_cfg cfg p (Steps (map CNext (repeat true k)))) in
  nth_error rs i = Some REnd -> nth_error rs j = Some REnd.
Proof. exact stream_sticky. Qed.

(* ---- reducers, iterators ---- *)
Theorem C07_collect_iter : forall cfg p b,
  iter_supported_z p = true -> dom_z p -> no_panics_z p = true ->
  results (run_iter_cfg cfg (inl p) (Reduce RCollect b)) = [RVal (den_z p)].
Proof. exact iter_collect_den. Qed.

Theorem C07_reduce_iter : forall cfg p b,
  iter_supported_z p = true -> dom_z p -> no_panics_z p = true ->
  forall fl, cb_panics fl = false ->
  results (run_iter_cfg cfg (inl p) (Reduce (RSum fl) b)) = [RVal [fold_left Z.add (den_z p) 0]].
Proof. exact iter_sum_den. Qed.

Theorem C07_one_iter : forall cfg p b,
  iter_supported_z p = true -> dom_z p -> no_panics_z p = true ->
  results (run_iter_cfg cfg (inl p) (Reduce ROne b))
  = [match den_z p with [x] => RVal [x] | _ => REnd end].
Proof. exact iter_one_den. Qed.

(* Last: the last n items for EVERY n (n <= 0: none) in the repaired configuration - which is
   the configuration of /repo now -, and for n >= 1 in any configuration *)
Theorem C07_last_iter : forall cfg p b,
  iter_supported_z p = true -> dom_z p -> no_panics_z p = true ->
  forall n, (cfg_last_guard cfg = true \/ 1 <= n) ->
  results (run_iter_cfg cfg (inl p) (Reduce (RLast n) b))
  = [RVal (lastn (Z.to_nat n) (den_z p))].
Proof. exact iter_last_den. Qed.

Theorem C07_last_current_config : cfg_last_guard current_cfg = true.
Proof. exact eq_refl. Qed.

(* before the repair: Last with n = 0 panicked (integer divide by zero) for every input *)
Theorem C07_last_n0_refuted :
  exists p, iter_supported_z p = true /\ dom_z p /\
    results (run_iter_cfg original_cfg (inl p) (Reduce (RLast 0) true))
    <> [RVal (lastn (Z.to_nat 0) (den_z p))].
Proof. exact iter_last_n0_refuted. Qed.

(* Equal(p, others...) is true exactly when all pipelines denote the same sequence *)
Theorem C07_equal_den : forall cfg p b,
  iter_supported_z p = true -> dom_z p -> no_panics_z p = true ->
  forall others, forallb iter_supported_z others = true -> Forall dom_z others ->
  forallb no_panics_z others = true ->
  exists e : bool,
    results (run_iter_cfg cfg (inl p) (Reduce (REqual others) b)) = [RVal [if e then 1 else 0]] /\
    (e = true <-> Forall (fun q => den_z q = den_z p) others).
Proof. exact iter_equal_den. Qed.

Theorem C07_equal_self : forall cfg p b,
  iter_supported_z p = true -> dom_z p -> no_panics_z p = true ->
  results (run_iter_cfg cfg (inl p) (Reduce REqualSelf b)) = [RVal [1]].
Proof. exact iter_equal_self. Qed.

(* ---- reducers, streams (failure-free pipelines, live context) ---- *)
Theorem C07_collect_stream : forall cfg p, okz false p ->
  results (run_stream_cfg cfg (inl p) (Reduce RCollect true)) = [RVal (den_z p)].
Proof. exact stream_collect_den. Qed.

(* Reduce with a reduction function that never fails *)
Theorem C07_reduce_stream : forall cfg p, okz false p -> forall fl, fail_at fl = None ->
  results (run_stream_cfg cfg (inl p) (Reduce (RSum fl) true))
  = [RVal [fold_left Z.add (den_z p) 0]].
Proof. exact stream_sum_den. Qed.

Theorem C07_one_stream : forall cfg p, okz false p ->
  results (run_stream_cfg cfg (inl p) (Reduce ROne true)) = [one_res (den_z p)].
Proof. exact stream_one_den. Qed.

Theorem C07_last_stream : forall cfg p, okz false p ->
  forall n, (cfg_last_guard cfg = true \/ 1 <= n) ->
  results (run_stream_cfg cfg (inl p) (Reduce (RLast n) true))
  = [RVal (lastn (Z.to_nat n) (den_z p))].
Proof. exact stream_last_den. Qed.

Theorem C07_last_stream_n0_refuted :
  exists p, okz false p /\
    results (run_stream_cfg original_cfg (inl p) (Reduce (RLast 0) true))
    <> [RVal (lastn (Z.to_nat 0) (den_z p))].
Proof. exact stream_last_n0_refuted. Qed.

(* ---- xslices agrees with the iterator/stream versions ---- *)
Theorem C07_chunk_agree : forall n s, 1 <= n ->
  xs_chunk n s = Ok (den_l (LChunk n (ZSrc 0 (SSlice s)))).
Proof. exact xs_chunk_agree. Qed.

(* Runs, with the repaired loop (xslices_runs_fixed = true: the code in /repo now) *)
Theorem C07_runs_agree : forall r s,
  xs_runs true (rel_eval r) s = den_l (LRuns r None (ZSrc 0 (SSlice s))).
Proof. exact xs_runs_agree_fixed. Qed.

Theorem C07_runs_current_config : cfg_xs_runs_fixed current_cfg = true.
Proof. exact eq_refl. Qed.

(* the original loop lost a leading run of length one *)
Theorem C07_runs_agree_refuted :
  exists r s, xs_runs false (rel_eval r) s <> den_l (LRuns r None (ZSrc 0 (SSlice s))).
Proof. exact xs_runs_agree_refuted. Qed.

(* ---- laziness ---- *)
(* construction pulls nothing *)
Theorem C07_no_pull_before_next_iter : forall cfg p,
  run_iter_cfg cfg p (Steps []) = mkRunObs [] [].
Proof. exact no_pull_before_next_iter. Qed.
Theorem C07_no_pull_before_next_stream : forall cfg p,
  run_stream_cfg cfg p (Steps []) = mkRunObs [] [].
Proof. exact no_pull_before_next_stream. Qed.

(* Filter over a Slice: after k successful Next calls the source has been asked exactly
   (index of the k-th kept item + 1) times *)
Theorem C07_lazy_filter : forall cfg id keep fl l k,
  cb_panics fl = false ->
  (k <= length (filter (pred_eval keep) l))%nat ->
  let run := run_iter_cfg cfg (inl (ZFilter keep fl (ZSrc id (SSlice l))))
                          (Steps (map CNext (repeat true k))) in
  count_next id (ro_log run) = kept_pos (pred_eval keep) l k /\
  results run = map (fun x => RItem (IZ x)) (firstn k (filter (pred_eval keep) l)).
Proof. exact filter_pulls_exact. Qed.

(* per call, over the instrumented Slice source [slice_nx id]: exactly the calls listed *)
Theorem C07_lazy_filter_call : forall id keep fl, cb_panics fl = false ->
  forall n calls a o calls' a' ev,
  (length a < n)%nat -> ifilter (slice_nx id) n keep fl calls a = (o, (calls', a'), ev) ->
  match o with
  | Item x => exists pre, a = pre ++ x :: a' /\ forallb (fun y => negb (pred_eval keep y)) pre = true
                          /\ pred_eval keep x = true /\ ev = repeat (SevNext id) (length pre + 1)
  | End => forallb (fun y => negb (pred_eval keep y)) a = true /\ a' = [] /\
           ev = repeat (SevNext id) (length a + 1)
  | _ => False
  end.
Proof. exact ifilter_lazy. Qed.

Theorem C07_lazy_first_call : forall id x a o x' a' ev,
  ifirst (slice_nx id) x a = (o, (x', a'), ev) ->
  if x <=? 0 then o = End /\ ev = [] /\ a' = a
  else ev = repeat (SevNext id) 1 /\ x' = x - 1 /\
       match a with [] => o = End | y :: t => o = Item y /\ a' = t end.
Proof. exact ifirst_lazy. Qed.

(* Map, While: also when the callback panics *)
Theorem C07_lazy_map_call : forall id f fl calls a o calls' a' ev,
  imap (slice_nx id) f fl calls a = (o, (calls', a'), ev) -> ev = repeat (SevNext id) 1.
Proof. exact imap_lazy. Qed.

Theorem C07_lazy_while_call : forall id f fl calls done a o calls' done' a' ev,
  iwhile (slice_nx id) f fl calls done a = (o, (calls', done', a'), ev) ->
  ev = if done then [] else repeat (SevNext id) 1.
Proof. exact iwhile_lazy. Qed.

Theorem C07_lazy_compact_call : forall id r n first prev a o first' prev' a' ev,
  (length a < n)%nat -> icompact (slice_nx id) n r first prev a = (o, (first', prev', a'), ev) ->
  match o with
  | Item x => exists pre, a = pre ++ x :: a' /\ (first = true -> pre = []) /\
                          forallb (fun y => rel_eval r prev y) pre = true /\
                          ev = repeat (SevNext id) (length pre + 1) /\ prev' = x
  | End => a' = [] /\ ev = repeat (SevNext id) (length a + 1)
  | _ => False
  end.
Proof. exact icompact_lazy. Qed.

Theorem C07_lazy_chunk_call : forall id size n chunk a o a' ev,
  (length a < n)%nat -> zlen chunk < size ->
  ichunk_loop (slice_nx id) n size chunk a = (o, a', ev) ->
  match o with
  | Item l => exists taken, l = chunk ++ taken /\ a = taken ++ a' /\
                (zlen l = size /\ ev = repeat (SevNext id) (length taken)
                 \/ zlen l < size /\ a' = [] /\ ev = repeat (SevNext id) (length taken + 1))
  | End => chunk = [] /\ a = [] /\ ev = repeat (SevNext id) 1
  | _ => False
  end.
Proof. exact ichunk_loop_lazy. Qed.

(* Join / Flatten touch only the inner iterator they are at *)
Theorem C07_lazy_join_call : forall St (nx : St -> ret Z St) n c tl x c' ev,
  nx c = (Item x, c', ev) -> ijoin nx (S n) (c :: tl) = (Item x, c' :: tl, ev).
Proof. exact @ijoin_lazy. Qed.
Theorem C07_lazy_flatten_call : forall St (nx : St -> ret Z St) n rest c x c' ev,
  nx c = (Item x, c', ev) -> iflatten nx (S n) rest (Some c) = (Item x, (rest, Some c'), ev).
Proof. exact @iflatten_lazy. Qed.

(* ---- the constructor stream.Error(err): "a Stream that immediately produces err from Next" ----
   (source SError e).  The model's Next is the Go method `var zero T; return zero, s.err`: the
   answer is e whatever the context, and the state is what it was ... *)
Theorem C07_stream_error_next : forall live e,
  ssrc_next live (ssrc_init (SError e)) = (Err e, ssrc_init (SError e)).
Proof. exact serror_next. Qed.

(* ... so for EVERY consumer program - any number of Next calls, with live or expired contexts,
   Close anywhere, Next after Close - each Next answers e (never an item, never the end, never
   the context error) and each Close just returns; the stream receives exactly these calls. *)
Theorem C07_stream_error_results : forall e cfg id ops,
  results (run_stream_cfg cfg (inl (ZSrc id (SError e))) (Steps ops)) = map (error_answer e) ops.
Proof. exact error_stream_results. Qed.

Theorem C07_stream_error_log : forall e cfg id ops,
  ro_log (run_stream_cfg cfg (inl (ZSrc id (SError e))) (Steps ops)) = map (error_event id) ops.
Proof. exact error_stream_log. Qed.

(* it denotes no items and is a source of package stream only *)
Theorem C07_stream_error_den : forall id e,
  den_z (ZSrc id (SError e)) = [] /\ iter_supported_z (ZSrc id (SError e)) = false.
Proof. intros id e. exact (conj eq_refl eq_refl). Qed.

(* the fuel the models use is always enough *)
Theorem C07_model_total_iter : forall s o s' ev, istep s = (o, s', ev) -> o <> Out.
Proof. exact inext_fuel_enough. Qed.
Theorem C07_model_total_stream : forall live s o s' ev, sstep live s = (o, s', ev) -> o <> Out.
Proof. exact snext_fuel_enough. Qed.

(* non-vacuity *)
Example C07_demo : iter_supported (inl demo) = true /\ clean (inl demo).
Proof. exact demo_supported. Qed.
Example C07_demo_run :
  results (run_iter (inl demo) (Steps (map CNext (repeat true 9))))
  = map (fun x => RItem (IZ x)) [1; 3; 5; 7; 7; 8; 4] ++ [REnd; REnd].
Proof. exact demo_iter_run. Qed.

(* a callback that panics: the consumer recovers, the item Filter had pulled is lost, the run
   goes on.  The hypothesis no_panics of C07_iter_den cannot be dropped. *)
Example C07_iter_panicking_callback :
  let p := inl (ZFilter PrTrue (mkFailing (Some 1%nat) 0 true) (ZSrc 0 (SSlice [1; 2; 3]))) in
  iter_supported p = true /\ dom p /\ no_panics p = false /\
  results (run_iter p (Steps (map CNext [true; true; true; true])))
  = [RItem (IZ 1); RPanic; RItem (IZ 3); REnd] /\
  results (run_iter p (Steps (map CNext [true; true; true; true]))) <> expect (den p) 4.
Proof.
  split; [reflexivity|]. split; [exact I|]. split; [reflexivity|].
  split; [vm_compute; reflexivity|vm_compute; discriminate].
Qed.
(* a [failing] record that does not panic is ignored by iterators *)
Example C07_iter_error_record_ignored :
  let p := inl (ZMap (FnAffine 1 0) (mkFailing (Some 0%nat) 5 false) (ZSrc 0 (SSlice [1; 2]))) in
  no_panics p = true /\
  results (run_iter p (Steps (map CNext [true; true; true]))) = [RItem (IZ 1); RItem (IZ 2); REnd].
Proof. split; [reflexivity|vm_compute; reflexivity]. Qed.

Print Assumptions C07_iter_den.
Print Assumptions C07_stream_den.
Print Assumptions C07_agree_iter_stream.
Print Assumptions C07_sticky_iter.
Print Assumptions C07_sticky_stream.
Print Assumptions C07_collect_iter.
Print Assumptions C07_reduce_iter.
Print Assumptions C07_one_iter.
Print Assumptions C07_last_iter.
Print Assumptions C07_last_n0_refuted.
Print Assumptions C07_equal_den.
Print Assumptions C07_equal_self.
Print Assumptions C07_collect_stream.
Print Assumptions C07_reduce_stream.
Print Assumptions C07_one_stream.
Print Assumptions C07_last_stream.
Print Assumptions C07_last_stream_n0_refuted.
Print Assumptions C07_chunk_agree.
Print Assumptions C07_runs_agree.
Print Assumptions C07_runs_agree_refuted.
Print Assumptions C07_no_pull_before_next_iter.
Print Assumptions C07_lazy_filter.
Print Assumptions C07_lazy_filter_call.
Print Assumptions C07_lazy_chunk_call.
Print Assumptions C07_lazy_compact_call.
Print Assumptions C07_stream_error_next.
Print Assumptions C07_stream_error_results.
Print Assumptions C07_stream_error_log.
Print Assumptions C07_stream_error_den.
Print Assumptions C07_model_total_iter.
Print Assumptions C07_model_total_stream.

(* ======================================================================================== *)
(* ---- laziness, general statements (proofs: theories/Iter/GapsLazy.v, GapsLazyS.v,
        GapsPulls.v, GapsNeed.v, GapsCompose.v) ----
   Vocabulary:
     pulls_in run id        number of Next calls source id has received in the run (from its log)
     agree_upto n l1 l2     sources holding l1 / l2 answer their first n Next calls alike: the same
                            item, or both the end (forall i < n, nth_error l1 i = nth_error l2 i)
     iter_items s           the items an iterator pipeline reads from source s (= Spec.src_items
                            for the sources of package iterator)
     pipe_agree n p1 p2     p1 and p2 are the same pipeline (combinators, parameters, source ids),
                            except that the source with id [id] may hold other items from position
                            n id on (agree_upto (n id))
     stream_answer s i      what a stream source answers to its (i+1)-th Next with a live context:
                            Item, End or Err (a transient error once, a fatal error for ever)
     src_nc s               the source never looks at the context (SScriptNC): it answers a Next
                            with an expired context exactly like a live one
     spipe_agree n p1 p2    the same for stream pipelines, with stream_answer; corresponding
                            sources must in addition have the same attitude to the context
                            (src_nc equal) - otherwise one call with an expired context tells
                            them apart (C07_lazy_prefix_determinacy_kind_refuted)
     pipe_resrc g p         p with every source (id, s) replaced by g id s
     resuffix n junk l      l with everything behind its first n answers replaced by junk
     ksteps k               the program "k Next calls"                                          *)
From Juniper Require Import Iter.GapsLazy Iter.GapsLazyS Iter.GapsPulls Iter.GapsNeed
  Iter.GapsCompose.

(* (a) PREFIX DETERMINACY, every iterator pipeline, every consumer program: what has been
   observed - results, pull counts after every step, the log - depends only on the answers the
   sources have given so far.  Pipelines whose sources agree on the first (pulls_in run1 id)
   answers have identical runs. *)
Theorem C07_lazy_prefix_determinacy : forall cfg p1 p2 ops,
  pipe_agree (pulls_in (run_iter_cfg cfg p1 (Steps ops))) p1 p2 ->
  run_iter_cfg cfg p2 (Steps ops) = run_iter_cfg cfg p1 (Steps ops).
Proof. exact iter_prefix_determinacy. Qed.

(* the same, literally "the unread suffix of every source can be replaced by anything" *)
Theorem C07_lazy_unread_suffix_irrelevant : forall cfg p ops (junk : nat -> list Z),
  let run := run_iter_cfg cfg p (Steps ops) in
  run_iter_cfg cfg
    (pipe_resrc (fun id s => SSlice (resuffix (pulls_in run id) (junk id) (iter_items s))) p)
    (Steps ops) = run.
Proof. exact iter_resuffix. Qed.

(* step level: related states, any two (sufficient) fuels - in particular the model does not
   depend on its fuel *)
Theorem C07_lazy_step : forall f1 f2,
  pd_sim irel (inext f1) (inext f2) /\ pd_sim ilrel (ilnext f1) (ilnext f2).
Proof. exact inext_pd. Qed.

(* (a) for stream pipelines, with transient and fatal source errors, failing callbacks, expired
   contexts and Close: Next and Close events included *)
Theorem C07_lazy_prefix_determinacy_stream : forall cfg p1 p2 ops,
  spipe_agree (pulls_in (run_stream_cfg cfg p1 (Steps ops))) p1 p2 ->
  run_stream_cfg cfg p2 (Steps ops) = run_stream_cfg cfg p1 (Steps ops).
Proof. exact stream_prefix_determinacy. Qed.

Theorem C07_lazy_unread_irrelevant_stream : forall cfg p ops g,
  (forall id s, src_nc (g id s) = src_nc s) ->
  (forall id s i, (i < pulls_in (run_stream_cfg cfg p (Steps ops)) id)%nat ->
                  stream_answer s i = stream_answer (g id s) i) ->
  run_stream_cfg cfg (pipe_resrc g p) (Steps ops) = run_stream_cfg cfg p (Steps ops).
Proof. exact stream_unread_irrelevant. Qed.

(* Why the sources must have the same attitude to the context: with agreement on the answers to
   live calls alone (the statement as it was before context-ignoring sources existed) the
   theorem is false - SScript [EvItem 1] and SScriptNC [EvItem 1] answer live calls alike, and
   the program [CNext false] gets RErr (-1) from the first and RItem 1 from the second.
   Theorem C07_lazy_prefix_determinacy_stream_live_answers_only : forall cfg p1 p2 ops,
     pipe_agree_with (fun id s s2 => forall i, i < pulls_in (run p1 ops) id ->
                                     stream_answer s i = stream_answer s2 i) p1 p2 ->
     run p2 ops = run p1 ops.                                                     -- REFUTED *)
Theorem C07_lazy_prefix_determinacy_kind_refuted :
  exists p1 p2 ops,
    pipe_agree_with
      (fun id s s2 => forall i, (i < pulls_in (run_stream p1 (Steps ops)) id)%nat ->
                                stream_answer s i = stream_answer s2 i) p1 p2 /\
    run_stream p2 (Steps ops) <> run_stream p1 (Steps ops).
Proof. exact stream_prefix_determinacy_kind_refuted. Qed.

(* non-vacuity over a context-ignoring source: the call with the expired context completes the
   chunk; the unread rest of the script is irrelevant *)
Example C07_lazy_demo_stream_ctx_ignoring :
  map so_res (ro_steps (run_stream spd_nc_demo (Steps spd_nc_ops)))
  = [RErr 9; RItem (IL [1; 2]); RUnit] /\
  run_stream spd_nc_demo2 (Steps spd_nc_ops) = run_stream spd_nc_demo (Steps spd_nc_ops).
Proof. exact (conj (proj1 spd_nc_demo_run) spd_nc_demo_same). Qed.

(* ---- run-level cumulative pull counts of the single combinators over a Slice, for EVERY k ----
   (after the end has been reported every further call asks the exhausted source once more;
   Join and Flatten drop an exhausted source instead) *)
Theorem C07_lazy_peek : forall id cfg l k,
  let run := run_iter_cfg cfg (inl (ZPeek (ZSrc id (SSlice l)))) (ksteps k) in
  count_next id (ro_log run) = k /\ results run = expect (map IZ l) k.
Proof. exact peek_pulls_exact. Qed.

Theorem C07_lazy_map : forall id cfg g fl l k,
  cb_panics fl = false ->
  let run := run_iter_cfg cfg (inl (ZMap g fl (ZSrc id (SSlice l)))) (ksteps k) in
  count_next id (ro_log run) = k /\ results run = expect (map IZ (map (fn_eval g) l)) k.
Proof. exact map_pulls_exact. Qed.

Theorem C07_lazy_first : forall id cfg n l k,
  let run := run_iter_cfg cfg (inl (ZFirst n (ZSrc id (SSlice l)))) (ksteps k) in
  count_next id (ro_log run) = Nat.min k (Z.to_nat n) /\
  results run = expect (map IZ (firstn (Z.to_nat n) l)) k.
Proof. exact first_pulls_exact. Qed.

(* while_pulls f l k = min k (t+1) if the item at position t = |takewhile f l| fails f, else k *)
Theorem C07_lazy_while : forall id f cfg fl l k,
  cb_panics fl = false ->
  let run := run_iter_cfg cfg (inl (ZWhile f fl (ZSrc id (SSlice l)))) (ksteps k) in
  count_next id (ro_log run) = while_pulls f l k /\
  results run = expect (map IZ (takewhile (pred_eval f) l)) k.
Proof. exact while_pulls_exact. Qed.

(* filter_pos / compact_pos: position of the k-th item kept / yielded (+1); once the items have
   run out: all of them, and the end once per call *)
Theorem C07_lazy_filter_all : forall id keep fl, cb_panics fl = false -> forall cfg l k,
  let run := run_iter_cfg cfg (inl (ZFilter keep fl (ZSrc id (SSlice l)))) (ksteps k) in
  count_next id (ro_log run) = filter_pos keep l k /\
  results run = expect (map IZ (filter (pred_eval keep) l)) k.
Proof. exact filter_pulls_all. Qed.

Theorem C07_lazy_compact : forall id r cfg l k,
  let run := run_iter_cfg cfg (inl (ZCompact r (ZSrc id (SSlice l)))) (ksteps k) in
  count_next id (ro_log run) = compact_pos r l k /\
  results run = expect (map IZ (spec_compact (rel_eval r) l)) k.
Proof. exact compact_pulls_exact. Qed.

(* chunk_pulls n len k = k*n while k <= len/n, then len + (k - len/n): no look-ahead after a
   full chunk *)
Theorem C07_lazy_chunk : forall id n, 1 <= n -> forall cfg l k,
  let run := run_iter_cfg cfg (inr (LChunk n (ZSrc id (SSlice l)))) (ksteps k) in
  count_next id (ro_log run) = chunk_pulls n (length l) k /\
  results run = expect (map IL (spec_chunk n l)) k.
Proof. exact chunk_pulls_exact. Qed.

(* join_pulls id srcs k: nothing while the items of the earlier sources last, then one pull per
   call up to (its length + 1), then never again; the same for Flatten *)
Theorem C07_lazy_join : forall id cfg srcs k,
  let run := run_iter_cfg cfg (inl (ZJoin (map src_pz srcs))) (ksteps k) in
  count_next id (ro_log run) = join_pulls id srcs k /\
  results run = expect (map IZ (concat (map snd srcs))) k.
Proof. exact join_pulls_exact. Qed.

Theorem C07_lazy_flatten : forall id cfg srcs k,
  let run := run_iter_cfg cfg (inl (ZFlatten (map src_pz srcs))) (ksteps k) in
  count_next id (ro_log run) = join_pulls id srcs k /\
  results run = expect (map IZ (concat (map snd srcs))) k.
Proof. exact flatten_pulls_exact. Qed.

(* ---- (b) NECESSITY.  needed cfg C id l k: if the source has been asked n >= 1 times after k
   calls on C (Slice l), some l' that answers the first n-1 calls like l gives other results in
   these k calls.  FALSE in general (opaque callbacks; no memory of the end): ---- *)
Theorem C07_lazy_necessity_refuted_filter :
  let C l := inl (ZFilter (PrNot PrTrue) never_fails (ZSrc 0 (SSlice l))) in
  pulls_in (run_iter (C [1; 2; 3]) (ksteps 1)) 0 = 4%nat /\
  (forall l', results (run_iter (C l') (ksteps 1)) = [REnd]) /\
  ~ needed current_cfg C 0 [1; 2; 3] 1.
Proof. exact necessity_refuted_filter. Qed.

Theorem C07_lazy_necessity_refuted_compose :
  let C l := inl (ZFilter (PrLt 0) never_fails
                    (ZMap (FnAffine 0 5) never_fails (ZSrc 0 (SSlice l)))) in
  (pred_eval (PrLt 0) (-1) = true /\ pred_eval (PrLt 0) 1 = false) /\
  pulls_in (run_iter (C [1; 2; 3]) (ksteps 1)) 0 = 4%nat /\
  ~ needed current_cfg C 0 [1; 2; 3] 1.
Proof. exact necessity_refuted_compose. Qed.

Theorem C07_lazy_necessity_refuted_after_end :
  let C l := inl (ZMap (FnAffine 1 0) never_fails (ZSrc 0 (SSlice l))) in
  pulls_in (run_iter (C [7]) (ksteps 3)) 0 = 3%nat /\ ~ needed current_cfg C 0 [7] 3.
Proof. exact necessity_refuted_after_end. Qed.

(* TRUE for every single combinator, up to and including the first call that reads the end, under
   the stated condition on the callback *)
Theorem C07_lazy_needed_peek : forall cfg id l k,
  (1 <= k <= length l + 1)%nat ->
  needed cfg (fun l => inl (ZPeek (ZSrc id (SSlice l)))) id l k.
Proof. exact peek_needed. Qed.

Theorem C07_lazy_needed_map : forall cfg id g fl l k,
  cb_panics fl = false ->
  (1 <= k <= length l + 1)%nat ->
  needed cfg (fun l => inl (ZMap g fl (ZSrc id (SSlice l)))) id l k.
Proof. exact map_needed. Qed.

Theorem C07_lazy_needed_first : forall cfg id n l k,
  (k <= Nat.min (Z.to_nat n) (length l) + 1)%nat ->
  needed cfg (fun l => inl (ZFirst n (ZSrc id (SSlice l)))) id l k.
Proof. exact first_needed. Qed.

Theorem C07_lazy_needed_filter : forall cfg id keep fl l k,
  cb_panics fl = false ->
  (exists y, pred_eval keep y = true) ->
  (1 <= k <= length (filter (pred_eval keep) l) + 1)%nat ->
  needed cfg (fun l => inl (ZFilter keep fl (ZSrc id (SSlice l)))) id l k.
Proof. exact filter_needed. Qed.

Theorem C07_lazy_needed_while : forall cfg id f fl l k,
  cb_panics fl = false ->
  (exists y, pred_eval f y = true) ->
  (1 <= k <= length (takewhile (pred_eval f) l) + 1)%nat ->
  needed cfg (fun l => inl (ZWhile f fl (ZSrc id (SSlice l)))) id l k.
Proof. exact while_needed. Qed.

Theorem C07_lazy_needed_compact : forall cfg id r l k,
  (forall x, exists y, rel_eval r x y = false) ->
  (1 <= k <= length (spec_compact (rel_eval r) l) + 1)%nat ->
  needed cfg (fun l => inl (ZCompact r (ZSrc id (SSlice l)))) id l k.
Proof. exact compact_needed. Qed.

(* Chunk: up to the call that reads the end (k <= len/n + 1); when the last chunk is short, that
   call hands it out and the NEXT call asks the exhausted source again *)
Theorem C07_lazy_needed_chunk : forall cfg id n, 1 <= n -> forall l k,
  (1 <= k <= length l / Z.to_nat n + 1)%nat ->
  needed cfg (fun l => inr (LChunk n (ZSrc id (SSlice l)))) id l k.
Proof. exact chunk_needed. Qed.

(* ---- laziness composes: over an ARBITRARY inner pipeline q (in which nothing panics) a
   combinator C (plug c: WithPeek, Compact, Filter, First, Map, While, Chunk - whether or not
   C's own callback panics) makes q do exactly m stand-alone Next calls, m = the number of calls
   C makes on a Slice holding q's items (the formulas above) ---- *)
Theorem C07_lazy_compose : forall cfg c q k,
  iter_supported_z q = true -> dom_z q -> no_panics_z q = true ->
  let m := pulls_in (run_iter_cfg cfg (plug c (ZSrc 0 (SSlice (den_z q)))) (ksteps k)) 0 in
  ro_log (run_iter_cfg cfg (plug c q) (ksteps k))
  = ro_log (run_iter_cfg cfg (inl q) (ksteps m)).
Proof. exact compose_pulls. Qed.

Theorem C07_lazy_compose_counts : forall cfg c q k id,
  iter_supported_z q = true -> dom_z q -> no_panics_z q = true ->
  let m := pulls_in (run_iter_cfg cfg (plug c (ZSrc 0 (SSlice (den_z q)))) (ksteps k)) 0 in
  pulls_in (run_iter_cfg cfg (plug c q) (ksteps k)) id
  = pulls_in (run_iter_cfg cfg (inl q) (ksteps m)) id.
Proof. exact compose_pull_counts. Qed.

(* e.g. C07_lazy_filter for an arbitrary inner pipeline *)
Theorem C07_lazy_filter_over_any : forall cfg keep fl q k id,
  iter_supported_z q = true -> dom_z q -> no_panics_z q = true -> cb_panics fl = false ->
  pulls_in (run_iter_cfg cfg (inl (ZFilter keep fl q)) (ksteps k)) id
  = pulls_in (run_iter_cfg cfg (inl q) (ksteps (filter_pos keep (den_z q) k))) id.
Proof. exact filter_over_any. Qed.

(* and the m-th call of q.Next was needed by C whenever it is needed over a Slice *)
Theorem C07_lazy_compose_needed : forall cfg c q k,
  iter_supported_z q = true -> dom_z q -> no_panics_z q = true -> ctx_dom c ->
  ctx_nopanic c = true ->
  needed cfg (fun l => plug c (ZSrc 0 (SSlice l))) 0 (den_z q) k ->
  let m := pulls_in (run_iter_cfg cfg (plug c (ZSrc 0 (SSlice (den_z q)))) (ksteps k)) 0 in
  ro_log (run_iter_cfg cfg (plug c q) (ksteps k)) = ro_log (run_iter_cfg cfg (inl q) (ksteps m)) /\
  ((1 <= m)%nat ->
   exists l', agree_upto (m - 1) (den_z q) l' /\
              results (run_iter_cfg cfg (plug c (ZSrc 0 (SSlice l'))) (ksteps k))
              <> results (run_iter_cfg cfg (plug c q) (ksteps k))).
Proof. exact compose_needed. Qed.

(* non-vacuity *)
Example C07_lazy_demo_agree :
  pipe_agree (pulls_in (run_iter (inl pd_demo) (Steps (map CNext [true; true; true]))))
             (inl pd_demo) (inl pd_demo2) /\
  run_iter (inl pd_demo2) (Steps (map CNext [true; true; true]))
  = run_iter (inl pd_demo) (Steps (map CNext [true; true; true])).
Proof. exact (conj pd_demo_agree pd_demo_same). Qed.
Example C07_lazy_demo_stream :
  run_stream spd_demo2 (Steps spd_ops) = run_stream spd_demo (Steps spd_ops) /\
  map so_res (ro_steps (run_stream spd_demo (Steps spd_ops)))
  = [RErr 9; RErr (-1); RItem (IL [1; 2]); RUnit].
Proof. exact (conj spd_demo_same (proj1 spd_demo_run)). Qed.
Example C07_lazy_demo_pulls :
  map (chunk_pulls 3 7) [0; 1; 2; 3; 4]%nat = [0; 3; 6; 8; 9]%nat /\
  map (filter_pos (PrModEq 2 0) [1; 2; 3; 4]) [0; 1; 2; 3; 4]%nat = [0; 2; 4; 5; 6]%nat.
Proof. vm_compute. split; reflexivity. Qed.

Print Assumptions C07_lazy_prefix_determinacy.
Print Assumptions C07_lazy_unread_suffix_irrelevant.
Print Assumptions C07_lazy_step.
Print Assumptions C07_lazy_prefix_determinacy_stream.
Print Assumptions C07_lazy_unread_irrelevant_stream.
Print Assumptions C07_lazy_prefix_determinacy_kind_refuted.
Print Assumptions C07_lazy_peek.
Print Assumptions C07_lazy_map.
Print Assumptions C07_lazy_first.
Print Assumptions C07_lazy_while.
Print Assumptions C07_lazy_filter_all.
Print Assumptions C07_lazy_compact.
Print Assumptions C07_lazy_chunk.
Print Assumptions C07_lazy_join.
Print Assumptions C07_lazy_flatten.
Print Assumptions C07_lazy_necessity_refuted_filter.
Print Assumptions C07_lazy_necessity_refuted_compose.
Print Assumptions C07_lazy_necessity_refuted_after_end.
Print Assumptions C07_lazy_needed_peek.
Print Assumptions C07_lazy_needed_map.
Print Assumptions C07_lazy_needed_first.
Print Assumptions C07_lazy_needed_filter.
Print Assumptions C07_lazy_needed_while.
Print Assumptions C07_lazy_needed_compact.
Print Assumptions C07_lazy_needed_chunk.
Print Assumptions C07_lazy_compose.
Print Assumptions C07_lazy_compose_counts.
Print Assumptions C07_lazy_filter_over_any.
Print Assumptions C07_lazy_compose_needed.
