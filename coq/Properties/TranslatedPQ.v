(* C05 -- the tie of xheap.PriorityQueue to the source by translation.
   Generated/ImpPQ.v is the statement-level translation of the methods Len, Update, Pop, Peek, Contains, Priority
   and Remove of container/xheap/xheap.go's PriorityQueue, regenerated from the Go source on every run by
   tools/gofacts/imp.go; they call the translated internal/heap functions of Generated/ImpHeap.v (64-bit
   wrap-around on every int operation, run-time panics explicit, loops run by goloop) and the map primitives
   gomapget / gomapdel of Translated/GoImp.v.
   The theorems below say that, in every state a history of calls can reach from NewPriorityQueue, each
   translated method returns the same value, panics with the same class and leaves the same state (array,
   generation, the map m) as the function of the hand-written model Heap/Model.v (Section PQ) that
   Properties/C05.v is about.  Only statements live here; each is closed by [exact] of a lemma of
   Translated/ImpPQOK.v. *)
From Juniper Require Import Common.Base Heap.Model Heap.Lemmas Heap.Proofs.
From Juniper Require Import Translated.GoImp Generated.ImpHeap Generated.ImpPQ.
From Juniper Require Import Translated.ImpHeapOK Translated.ImpPQOK.
Open Scope Z_scope.

(* every history shorter than 2^60 calls on a queue built by NewPriorityQueue from fewer than 2^60 items (with
   or without duplicate keys: NewPriorityQueue never fails); any less *)
Theorem C05_translated_pq_agrees :
  forall (pless : Z -> Z -> bool) (initial : list (Z * Z)) (ops : list qop),
    zlen initial < 2^60 -> Z.of_nat (length ops) < 2^60 ->
    gi_pq_agrees Z.eqb 0 0 pless (qq (qrun_state pless initial ops)).
Proof. exact translated_pq_agrees_on_histories. Qed.

(* the same for ANY queue below the int64 limits whatever its history, any key and priority type, any key
   equality and any less: fewer than 2^61 items, generation in [0, 2^62) *)
Theorem C05_translated_pq_agrees_small :
  forall (K P : Type) (keqb : K -> K -> bool) (kzero : K) (pzero : P) (pless : P -> P -> bool) (q : pq K P),
    small q -> gi_pq_agrees keqb kzero pzero pless q.
Proof. exact @gi_pq_agrees_small. Qed.

(* the range condition really holds along those histories *)
Theorem C05_translated_pq_small_on_histories :
  forall (pless : Z -> Z -> bool) (initial : list (Z * Z)) (ops : list qop),
    zlen initial < 2^60 -> Z.of_nat (length ops) < 2^60 -> small (qq (qrun_state pless initial ops)).
Proof. exact pq_small_on_histories. Qed.

(* the map primitives of the translation (v, ok := m[k] reads gomap_find; delete(m, k) is gomapdel) are the
   association-list functions of the model *)
Theorem C05_translated_map_ops :
  forall (K : Type) (keqb : K -> K -> bool),
    (forall (m : list (K * Z)) (k : K), gomap_find keqb m k = m_get keqb m k) /\
    (forall (k : K) (m : list (K * Z)), gomapdel keqb k m = m_del keqb k m).
Proof. exact @gomap_ops_ok. Qed.

(* non-vacuity: the translated code RUNS.  The model's NewPriorityQueue on five items (one duplicate key, which
   it drops), then on that queue Len, Update of a present and of an absent key, Pop, Remove of a present and of
   an absent key, Priority and Contains of a present and of an absent key, Peek, and Pop and Peek of an empty
   queue *)
Example C05_translated_pq_runs :
  let q0 : zpq := qq (qrun_state Z.ltb [(1, 50); (2, 30); (3, 80); (4, 10); (2, 99)] []) in
  (q0,
   gi_PQ_Len q0,
   (gi_PQ_Update Z.eqb Z.ltb 3 5 q0, gi_PQ_Update Z.eqb Z.ltb 7 20 q0),
   gi_PQ_Pop Z.eqb 0 0 Z.ltb q0,
   (gi_PQ_Remove Z.eqb 0 0 Z.ltb 2 q0, gi_PQ_Remove Z.eqb 0 0 Z.ltb 9 q0),
   (gi_PQ_Priority Z.eqb 0 3 q0, gi_PQ_Priority Z.eqb 0 9 q0),
   (gi_PQ_Contains Z.eqb 4 q0, gi_PQ_Contains Z.eqb 9 q0),
   gi_PQ_Peek q0,
   (gi_PQ_Pop Z.eqb 0 0 Z.ltb (mkHeap [] 3 []), gi_PQ_Peek (@mkHeap (Z * Z) (imap Z) [] 3 [])))
  = (mkHeap [(4, 10); (2, 30); (3, 80); (1, 50)] 0 [(1, 3); (2, 1); (3, 2); (4, 0)],
     Ok 4,
     (Ok (mkHeap [(3, 5); (2, 30); (4, 10); (1, 50)] 1 [(1, 3); (2, 1); (3, 0); (4, 2)]),
      Ok (mkHeap [(4, 10); (7, 20); (3, 80); (1, 50); (2, 30)] 1 [(1, 3); (2, 4); (3, 2); (4, 0); (7, 1)])),
     Ok (4, mkHeap [(2, 30); (1, 50); (3, 80)] 1 [(1, 1); (2, 0); (3, 2)]),
     (Ok (mkHeap [(4, 10); (1, 50); (3, 80)] 1 [(1, 1); (3, 2); (4, 0)]),
      Ok (mkHeap [(4, 10); (2, 30); (3, 80); (1, 50)] 0 [(1, 3); (2, 1); (3, 2); (4, 0)])),
     (Ok 80, Ok 0),
     (Ok true, Ok false),
     Ok 4,
     (Panic PIndex, Panic PIndex)).
Proof. vm_compute. reflexivity. Qed.

Print Assumptions C05_translated_pq_agrees.
Print Assumptions C05_translated_pq_agrees_small.
Print Assumptions C05_translated_pq_small_on_histories.
Print Assumptions C05_translated_map_ops.
Print Assumptions C05_translated_pq_runs.
