(* C11 — stream.Batch / stream.BatchFunc partition their source under every timing, and Close
   always returns.

   Model: Juniper.Conc.Batch (LTS of the producer and batcher goroutines, any number of consumer
   calls of Next, Close, the timer against a logical clock, the harness source and the user's
   full).  [Reach mw m calls nctx s]: s is reachable from the initial state of the scenario with
   maxWait = mw, mode m (FBatch batchSize | FFunc gated), one consumer call per element of calls
   (its context id), nctx contexts - by ANY sequence of labels: every interleaving of the threads,
   every item value, source end or error at any point, every context cancellation, every timer
   delay and clock tick, every result and latency of full, Close at any moment.

   ASSUMPTION (modelled, stated in the property): the source's Next returns once bgCtx is cancelled
   (label LSrcNextExit RCanceled is enabled whenever bgdone holds and the producer is inside Next).
   For the progress of Close additionally: a pending call of the user's full is able to return
   ([full_returns]; for Batch this is vacuous).

   Statements only; proofs are in Juniper.Conc.BatchProofs. *)
From Juniper Require Import Common.Base Conc.GoLTS Conc.Batch Conc.BatchProofs.

(* ---- C11_partition ----
   Invariant: the items the source has returned so far are exactly
       concat(delivered batches) ++ current batch (incl. the one in the flush hand-off)
       ++ items dropped by the batcher ++ the item held by the producer ++ items dropped by the producer
   in this order; nothing is ever dropped before Close is called (bgCtx cancelled); every delivered
   batch is held/returned by exactly one consumer call; and when a consumer call has returned End
   (Close not called) the source has returned End and everything was delivered. *)
Theorem C11_partition :
  forall mw m calls nctx s, Reach mw m calls nctx s ->
    src s = dconcat s ++ batch s ++ lostb s ++ held (ppc_ s) ++ lostp s
    /\ (bgdone s = false -> lostb s = [] /\ lostp s = [])
    /\ (forall d, In d (delivered s) -> result_of s (d_who d) = Some (CBatch (d_batch d)))
    /\ NoDup (map d_who (delivered s))
    /\ (forall k b, result_of s k = Some (CBatch b) ->
                    exists d, In d (delivered s) /\ d_who d = k /\ d_batch d = b)
    /\ (forall k, result_of s k = Some CEnd -> bgdone s = false ->
                  srcres s = Some REnd /\ src s = dconcat s).
Proof.
  intros mw m calls nctx s Hr.
  split; [exact (partition_eq _ _ _ _ s Hr)|].
  split; [exact (nothing_lost_before_close _ _ _ _ s Hr)|].
  split; [intros d Hin; exact (delivered_owned _ _ _ _ s d Hr Hin)|].
  split; [exact (delivered_distinct_calls _ _ _ _ s Hr)|].
  split; [intros k b Hk; exact (batch_result_was_delivered _ _ _ _ s k b Hr Hk)|].
  intros k Hk Hb; exact (end_means_all_delivered _ _ _ _ s k Hr Hk Hb).
Qed.

(* ---- C11_nonempty_bounded ----
   Every delivered batch is non-empty, and for Batch with batchSize >= 1 it holds at most
   batchSize items. *)
Theorem C11_nonempty :
  forall mw m calls nctx s d, Reach mw m calls nctx s ->
    In d (delivered s) -> d_batch d <> [].
Proof. intros mw m calls nctx s d Hr. exact (nonempty_all _ _ _ _ s d Hr). Qed.

Theorem C11_bounded :
  forall mw m calls nctx s size d, Reach mw m calls nctx s ->
    mode s = FBatch size -> 1 <= size -> In d (delivered s) -> zlen (d_batch d) <= size.
Proof. intros mw m calls nctx s size d Hr. exact (bounded _ _ _ _ s size d Hr). Qed.

(* ---- C11_underfilled_only_after_maxwait ----
   A batch that is not full and is delivered before the source ended was flushed at a clock value
   >= batchStart + maxWait, and a consumer had announced itself via `waiting` since the previous
   hand-off.  "Not full, source not ended" = the flush came from the timer arm or the waiting arm
   ([timed (d_reason d)]); for Batch this is implied by  len < batchSize  and  c still open
   ([C11_underfilled_is_timed]). *)
Theorem C11_underfilled_only_after_maxwait :
  forall mw m calls nctx s d, Reach mw m calls nctx s ->
    In d (delivered s) -> timed (d_reason d) = true ->
    d_ann d = true /\ d_start d + maxw s <= d_clock d.
Proof. intros mw m calls nctx s d Hr. exact (maxwait_all _ _ _ _ s d Hr). Qed.

Theorem C11_underfilled_is_timed :
  forall mw m calls nctx s size d, Reach mw m calls nctx s ->
    mode s = FBatch size -> In d (delivered s) -> zlen (d_batch d) < size -> cclosed s = false ->
    timed (d_reason d) = true.
Proof. intros mw m calls nctx s size d Hr. exact (underfilled_is_timed _ _ _ _ s size d Hr). Qed.

(* ---- the behaviour before the fix ----
   [step_prefix] is [step] with the pre-fix branch of the `case <-out.waiting` arm (flush() without
   stopTimer() when time.Since(batchStart) > maxWait).  With it both clauses above fail: one script
   ends with an empty batch handed to a consumer, another with the underfilled batch [2] flushed by
   the timer arm at clock 11 = batchStart although maxWait = 10 and nobody had announced itself;
   the fixed [step] cannot follow either script. *)
Theorem C11_old_code_refuted :
  let i := init 10 (FBatch 5) [0; 1; 2]%nat 3 in
  (exists s d, run step_prefix i w_empty = Some s /\ In d (delivered s) /\ d_batch d = [] /\
               result_of s (d_who d) = Some (CBatch []))
  /\ (exists s d, run step_prefix i w_early = Some s /\ In d (delivered s) /\
                  d_batch d <> [] /\ zlen (d_batch d) < 5 /\ cclosed s = false /\
                  timed (d_reason d) = true /\ d_ann d = false /\ d_clock d < d_start d + maxw s)
  /\ run step i w_empty = None /\ run step i w_early = None.
Proof. exact old_code_refuted. Qed.

(* ---- C11_error_after_items ----
   A consumer call that returns the error e: e is the error the source returned, and (unless Close
   was called) every item the source returned before it has been delivered. *)
Theorem C11_error_after_items :
  forall mw m calls nctx s k e, Reach mw m calls nctx s ->
    result_of s k = Some (CErr e) ->
    srcres s = Some (RErr e) /\ (bgdone s = false -> src s = dconcat s).
Proof. intros mw m calls nctx s k e Hr. exact (error_after_items _ _ _ _ s k e Hr). Qed.

(* ---- C11_ctx_expiry_loses_nothing ----
   Every step of consumer call k other than receiving a batch - starting the call, announcing
   itself on `waiting`, taking the ctx.Done arm, returning - leaves the current batch, the
   delivered sequence, the source sequence and the dropped items unchanged; a call that returns
   its context's error has received no batch; and a batch in hand-off is taken by any consumer in
   one of its selects (a later waiter gets it). *)
Theorem C11_ctx_expiry_loses_nothing :
  forall mw m calls nctx s, Reach mw m calls nctx s ->
    (forall k l s', consumer_label k l = true -> step s l = Some s' -> same_data s s')
    /\ (forall k, result_of s k = Some CCtx -> forall d, In d (delivered s) -> d_who d <> k)
    /\ (forall r k x, bpc_ s = BFlush r -> getc s k = Some x -> in_select (c_pc x) = true ->
                      exists s', step s (TFlushSend k) = Some s' /\
                                 result_of s' k = Some (CBatch (batch s))).
Proof.
  intros mw m calls nctx s Hr. split; [|split].
  - intros k l s' Hl Hs. exact (consumer_frame s l s' k (G1_reach _ _ _ _ s Hr) Hs Hl).
  - intros k Hk. exact (ctx_result_took_nothing _ _ _ _ s k Hr Hk).
  - intros r k x. exact (handoff_enabled s r k x).
Qed.

(* ---- C11_close_returns ----
   Progress: while Close is pending (called, not yet returned) some step of the producer, the
   batcher or Close itself is enabled - in particular such a state is never quiescent (the harness
   checks exactly this at every quiescence point).  When Close has returned, both goroutines have
   exited, wg is 0, both channels are closed, and the source was closed exactly once (never more
   than once in any state); the producer being done, no further call of the source's Next exists.
   Variant: every step that is not a controller action or a clock tick decreases [mu], so between
   two controller actions only finitely many steps happen and Close returns after finitely many
   of them. *)
Theorem C11_close_returns :
  forall mw m calls nctx s, Reach mw m calls nctx s ->
    (close_pending s -> full_returns s ->
       (exists l s', close_label l = true /\ step s l = Some s' /\
                     (In l (lib_tau_labels s) \/ In l (lib_visible s)))
       /\ quiescent s = false)
    /\ (k_ret (kpc_ s) = true ->
        wg s = O /\ ppc_ s = PDone /\ bpc_ s = BDone /\ nclose s = 1%nat /\
        cclosed s = true /\ bclosed s = true)
    /\ (nclose s <= 1)%nat
    /\ bpc_ s <> BStuck.
Proof.
  intros mw m calls nctx s Hr. pose proof (G1_reach _ _ _ _ s Hr) as G.
  split; [|split; [|split]].
  - intros Hp Hf. split; [exact (close_progress_G1 s G Hp Hf) | exact (close_never_quiescent_G1 s G Hp Hf)].
  - exact (close_returned_G1 s G).
  - exact (source_closed_at_most_once_G1 s G).
  - exact (g_stuck s G).
Qed.

Theorem C11_close_variant :
  forall mw m calls nctx s l s', Reach mw m calls nctx s ->
    lib_label l = true -> step s l = Some s' -> (mu s' < mu s)%nat.
Proof.
  intros mw m calls nctx s l s' Hr. exact (variant_G1 s l s' (G1_reach _ _ _ _ s Hr)).
Qed.

Print Assumptions C11_partition.
Print Assumptions C11_nonempty.
Print Assumptions C11_bounded.
Print Assumptions C11_underfilled_only_after_maxwait.
Print Assumptions C11_underfilled_is_timed.
Print Assumptions C11_old_code_refuted.
Print Assumptions C11_error_after_items.
Print Assumptions C11_ctx_expiry_loses_nothing.
Print Assumptions C11_close_returns.
Print Assumptions C11_close_variant.

(* ---- the correspondence check's history matcher is certified for this model (Conc/BatchMatcher.v): the
        quotient it runs on (erased ghosts, relative time, threshold ticks) loses and adds nothing ---- *)
From Juniper Require Conc.GoLTS Conc.Batch Conc.BatchMatcher.

Theorem C11_matcher_sound : forall mw m calls nctx evs,
    Batch.accepts_history mw m calls nctx evs = true ->
    exists ls s, GoLTS.run Batch.qstep (Batch.init mw m calls nctx) ls = Some s /\ BatchMatcher.batch_trace ls = evs.
Proof. exact BatchMatcher.batch_accepts_sound. Qed.

Theorem C11_matcher_rejections_genuine : forall mw m calls nctx evs,
    BatchMatcher.batch_converged mw m calls nctx evs = true -> Batch.accepts_history mw m calls nctx evs = false ->
    forall ls s, GoLTS.run Batch.qstep (Batch.init mw m calls nctx) ls = Some s -> BatchMatcher.batch_trace ls <> evs.
Proof. exact BatchMatcher.batch_reject_genuine. Qed.

Print Assumptions C11_matcher_sound.
Print Assumptions C11_matcher_rejections_genuine.

(* Tie to the source: the Go functions the model transcribes still contain exactly the synchronisation operations
   (select arms, channel operations, goroutine starts, timer/context/sync calls) the model accounts for.
   Generated/Census.v is re-extracted from the Go source on every run (tools/gofacts/census.go). *)
From Juniper Require Translated.CensusC11.
Theorem C11_source_census : Translated.CensusC11.census_expected_C11.
Proof. exact Translated.CensusC11.census_C11_ok. Qed.
Print Assumptions C11_source_census.
