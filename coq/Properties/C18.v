(* C18 — xsync.Watchable / Future / Lazy: the latest value is always seen; xsync.Map = sync.Map.
   Only statements live here; each is closed by [exact] of a lemma proved in Conc/WatchProofs.v or
   XSyncMap/Proofs.v.

   Part A quantifies over ALL scenarios [cfg] (any number of goroutines, any programs, any gates,
   any values) and ALL states [s] reachable in the LTS models Conc/Watch.v and Conc/Future.v, i.e.
   over all interleavings of the atomic steps of the Go code.  Vocabulary (Conc/Watch.v):
     cells s        every cell (value, channel closed?, created by Set?) ever published, in order
     ptr s          the atomic pointer w.p
     set_history s  the values of the Swap steps so far, in order  (= the Set history)
     cur_value s    the last element of set_history s, the zero value before the first Set
     closing s k    some Set whose Swap displaced cell k has not yet executed its close(old.c)
     PValGot k      program counter of a Value call that has obtained cell k (its linearisation)
   Part B quantifies over all operation sequences and all states of the underlying sync.Map. *)
From Juniper Require Import Common.Base Conc.GoLTS Conc.Watch Conc.Future Conc.WatchProofs.
From Juniper Require Import XSyncMap.Model XSyncMap.Corr XSyncMap.Proofs.
Import WatchP.
Local Open Scope nat_scope.

(* ====================================================================== Watchable *)

Theorem C18_value_is_latest :
  forall cfg ng s, reachable Watch.qstep (Watch.init cfg ng) s ->
  (* (a) the pointer designates the newest cell; its value is the most recently Set one (zero before the first Set) *)
  match ptr s with
  | Some k => exists c, nth_error (cells s) k = Some c /\ S k = length (cells s) /\ c_val c = cur_value s
  | None => cells s = [] /\ set_history s = []
  end /\
  (* (b) linearisation: the step at which a Value call obtains its cell is its Load, its successful
     CompareAndSwap or its second Load (after a failed CompareAndSwap), and that cell is the current
     one right after that step: its value is the most recent Set before that step *)
  (forall l s' t x x' k,
      Watch.qstep s l = Some s' -> nth_error (Watch.ths s) t = Some x -> nth_error (Watch.ths s') t = Some x' ->
      Watch.t_pc x <> PValGot k -> Watch.t_pc x' = PValGot k ->
      lin_thread l = Some t /\ ptr s' = Some k /\
      exists c, nth_error (cells s') k = Some c /\ c_val c = cur_value s') /\
  (* (c) Value returns the value of that cell; a channel that the caller finds closed is closed, and
     then a later cell exists *)
  (forall t v b s',
      Watch.qstep s (LRetValue t v b) = Some s' ->
      exists x k c, nth_error (Watch.ths s) t = Some x /\ Watch.t_pc x = PValPolled k b /\
                    nth_error (cells s) k = Some c /\ c_val c = v /\
                    (b = true -> c_closed c = true /\ S k < length (cells s))) /\
  (* (d) in every reachable state: the channel of cell k is closed  <->  a later Swap has happened
     AND that Set has executed its close step.  So: closed -> a later Set exists; and a later Set
     that has returned (hence is not [closing]) -> closed *)
  (forall k c, nth_error (cells s) k = Some c ->
               (c_closed c = true <-> S k < length (cells s) /\ ~ closing s k)) /\
  (* (e) every cell after the first was installed by a Set (only the first can be Value's empty cell) *)
  (forall k c, nth_error (cells s) (S k) = Some c -> c_set c = true) /\
  (* (f) cells are immutable and closed channels stay closed *)
  (forall l s', Watch.qstep s l = Some s' ->
                forall k c, nth_error (cells s) k = Some c ->
                            exists c', nth_error (cells s') k = Some c' /\ c_val c' = c_val c /\ c_set c' = c_set c /\
                                       (c_closed c = true -> c_closed c' = true)) /\
  (* (g) the Set history: a Swap step appends its value; no other step changes it *)
  (forall l s', Watch.qstep s l = Some s' ->
                (forall t, l = TSwap t ->
                           exists x v, nth_error (Watch.ths s) t = Some x /\ Watch.t_pc x = PSetCalled v /\
                                       set_history s' = set_history s ++ [v]) /\
                ((forall t, l <> TSwap t) -> set_history s' = set_history s)) /\
  (* (h) Set never closes a closed channel and Value never dereferences nil, also with concurrent Sets *)
  (forall t x, nth_error (Watch.ths s) t = Some x -> Watch.t_pc x <> PPanic).
Proof. exact value_is_latest. Qed.

Theorem C18_observer_converges :
  forall cfg ng s, reachable Watch.qstep (Watch.init cfg ng) s ->
  (* with no Set in progress, whoever holds an open channel holds the current cell: the value it
     got with that channel is the final one, so `v, c := Value(); use v; <-c` cannot miss it *)
  ((forall t x, nth_error (Watch.ths s) t = Some x -> set_in_progress (Watch.t_pc x) = false) ->
   forall t x k c, nth_error (Watch.ths s) t = Some x -> holds (Watch.t_pc x) = Some k ->
                   nth_error (cells s) k = Some c -> c_closed c = false ->
                   ptr s = Some k /\ c_val c = cur_value s) /\
  (* at a quiescence point no Set is in progress and every observer loop that has started is parked
     on the open channel of the current cell, having last seen the most recently Set value *)
  (Watch.quiescent s = true ->
   (forall t x, nth_error (Watch.ths s) t = Some x -> set_in_progress (Watch.t_pc x) = false) /\
   (forall t x r, nth_error (Watch.ths s) t = Some x -> t_prog x = AWatch :: r ->
                  Watch.t_pc x = Watch.PIdle \/ (Watch.t_pc x = Watch.PGate /\ Watch.gate_open s x = false) \/
                  exists k c, Watch.t_pc x = PWait k /\ nth_error (cells s) k = Some c /\ c_closed c = false /\
                              ptr s = Some k /\ c_val c = cur_value s)) /\
  (* an observer never stays parked on a closed channel: its next Value call is enabled *)
  (forall t x k r, nth_error (Watch.ths s) t = Some x -> Watch.t_pc x = PWait k -> t_prog x = AWatch :: r ->
                   cell_closed s k = true -> exists s', Watch.step s (LCallValue t) = Some s').
Proof. exact observer_converges. Qed.

(* ====================================================================== Future *)
Import Fut.

(* Vocabulary (Conc/Future.v): fx s = the field f.x, fclosed s = f.c is closed, ffilled s = the field f.filled,
   fwinner s = (ghost) the goroutine whose CompareAndSwap on f.filled succeeded.  ANY number of Fill calls. *)
Theorem C18_future :
  forall cfg nctx ng s,
    reachable Fut.qstep (Fut.init cfg nctx ng) s ->
  (* (a) a Wait that returns (whether it started before or after Fill) returns the value of the one
     Fill call that won, after the channel was closed *)
  (forall t v s', Fut.qstep s (LRetWait t v) = Some s' ->
                  fclosed s = true /\ fx s = v /\
                  exists tw xw, fwinner s = Some tw /\ nth_error (Fut.ths s) tw = Some xw /\ t_kind xw = KFill v) /\
  (* (b) a WaitContext that returns without error returns that value; with an error it returns the
     zero value and its context is done *)
  (forall t v e s', Fut.qstep s (LRetWaitCtx t v e) = Some s' ->
     (e = false /\ fclosed s = true /\ fx s = v /\
      exists tw xw, fwinner s = Some tw /\ nth_error (Fut.ths s) tw = Some xw /\ t_kind xw = KFill v) \/
     (e = true /\ v = 0%Z /\
      exists x c, nth_error (Fut.ths s) t = Some x /\ t_kind x = KWaitCtx c /\ ctx_done s c = true)) /\
  (* (c) once filled, the value never changes, the channel stays closed and the winner stays the winner:
     after one step and after any run, whatever further Fill calls are made *)
  (fclosed s = true ->
   (exists tw xw, fwinner s = Some tw /\ nth_error (Fut.ths s) tw = Some xw /\ t_kind xw = KFill (fx s)) /\
   (forall l s', Fut.qstep s l = Some s' -> fx s' = fx s /\ fclosed s' = true /\ fwinner s' = fwinner s) /\
   (forall ls s', run Fut.qstep s ls = Some s' -> fx s' = fx s /\ fclosed s' = true /\ fwinner s' = fwinner s)) /\
  (* (d) progress: every step of Fill is always enabled (Fill never blocks); a waiter has an enabled step
     once the future is filled; the first select of WaitContext never blocks (exactly one arm is enabled);
     at the second select a WaitContext caller has an enabled step once the future is filled and also once
     its context is done; after the select every step up to the return is enabled *)
  (forall t x, nth_error (Fut.ths s) t = Some x ->
     (Fut.t_pc x = PFillCalled -> exists s', Fut.step s (TCas t) = Some s') /\
     (Fut.t_pc x = PFillWon -> exists s', Fut.step s (TWrite t) = Some s') /\
     (Fut.t_pc x = PFillWritten -> exists s', Fut.step s (TCloseF t) = Some s') /\
     (Fut.t_pc x = PFillClosed -> exists s', Fut.step s (LRetFill t) = Some s') /\
     (Fut.t_pc x = PFillPanic -> exists s', Fut.step s (LPanicFill t) = Some s') /\
     (Fut.t_pc x = PWaitCalled -> fclosed s = true -> exists s', Fut.step s (TRecv t) = Some s') /\
     (Fut.t_pc x = PCtxCalled ->
        (fclosed s = true -> (exists s', Fut.step s (TPollF t) = Some s') /\ Fut.step s (TPollD t) = None) /\
        (fclosed s = false -> (exists s', Fut.step s (TPollD t) = Some s') /\ Fut.step s (TPollF t) = None)) /\
     (Fut.t_pc x = PCtxSel -> fclosed s = true -> exists s', Fut.step s (TSelF t) = Some s') /\
     (forall c, Fut.t_pc x = PCtxSel -> t_kind x = KWaitCtx c -> ctx_done s c = true ->
                exists s', Fut.step s (TSelCtx t) = Some s') /\
     (Fut.t_pc x = PRecvd -> exists s', Fut.step s (TRead t) = Some s') /\
     (forall v, Fut.t_pc x = PRead v -> t_kind x = KWait -> exists s', Fut.step s (LRetWait t v) = Some s') /\
     (forall v c, Fut.t_pc x = PRead v -> t_kind x = KWaitCtx c -> exists s', Fut.step s (LRetWaitCtx t v false) = Some s') /\
     (forall c, Fut.t_pc x = PCtxErr -> t_kind x = KWaitCtx c -> exists s', Fut.step s (LRetWaitCtx t 0%Z true) = Some s')) /\
  (* (e) with a single Fill (Fill's documented precondition) nothing panics *)
  (FutP.at_most_one_fill cfg -> forall t x, nth_error (Fut.ths s) t = Some x -> Fut.t_pc x <> PFillPanic) /\
  (* (f) exactly one Fill wins.  f.filled is set iff there is a winner, which is a Fill call; a closed
     channel implies it *)
  ((ffilled s = true <-> fwinner s <> None) /\ (fclosed s = true -> ffilled s = true) /\
   (forall tw, fwinner s = Some tw -> exists xw, nth_error (Fut.ths s) tw = Some xw /\ FutP.is_fill (t_kind xw) = true)) /\
  (* the CompareAndSwap: the first one makes its caller the winner; every later one panics at once and
     changes neither f.x nor the channel nor the winner *)
  (forall t s', Fut.qstep s (TCas t) = Some s' ->
     exists x, nth_error (Fut.ths s) t = Some x /\ Fut.t_pc x = PFillCalled /\
     ((ffilled s = false /\ fwinner s = None /\ ffilled s' = true /\ fwinner s' = Some t /\
       nth_error (Fut.ths s') t = Some (Fut.set_pc x PFillWon)) \/
      (ffilled s = true /\ (exists tw, fwinner s = Some tw /\ tw <> t) /\ ffilled s' = true /\
       fwinner s' = fwinner s /\ nth_error (Fut.ths s') t = Some (Fut.set_pc x PFillPanic))) /\
     fx s' = fx s /\ fclosed s' = fclosed s) /\
  (* only the winner is ever past the CompareAndSwap (so no other Fill call writes or closes); a call that
     panics is not the winner (the winner never panics) *)
  (forall t x, nth_error (Fut.ths s) t = Some x ->
     (Fut.t_pc x = PFillWon \/ Fut.t_pc x = PFillWritten \/ Fut.t_pc x = PFillClosed -> fwinner s = Some t) /\
     (Fut.t_pc x = PFillPanic -> exists tw, fwinner s = Some tw /\ tw <> t)) /\
  (* f.x is written only by the winner's write step, with its value, while the channel is still open *)
  (forall l s', Fut.qstep s l = Some s' -> fx s' <> fx s ->
     exists tw xw, l = TWrite tw /\ fwinner s = Some tw /\ nth_error (Fut.ths s) tw = Some xw /\
                   t_kind xw = KFill (fx s') /\ fclosed s = false) /\
  (* the Fill that returns is the winner's (the future then holds its value); a Fill that panics is another one's *)
  (forall t s', Fut.qstep s (LRetFill t) = Some s' ->
     fwinner s = Some t /\ fclosed s = true /\ exists x, nth_error (Fut.ths s) t = Some x /\ t_kind x = KFill (fx s)) /\
  (forall t s', Fut.qstep s (LPanicFill t) = Some s' -> exists tw, fwinner s = Some tw /\ tw <> t).
Proof. exact FutP.future_correct. Qed.

(* "Returns immediately if f is already filled": a WaitContext whose call starts in a state in which the
   channel is closed returns, along every run, the filled value and no error, never the context error,
   whatever the state of its context *)
Theorem C18_future_late_waitcontext :
  forall cfg nctx ng s t c s1 ls s2 v e s3,
    reachable Fut.qstep (Fut.init cfg nctx ng) s -> fclosed s = true ->
    Fut.qstep s (LCallWaitCtx t c) = Some s1 -> run Fut.qstep s1 ls = Some s2 ->
    Fut.qstep s2 (LRetWaitCtx t v e) = Some s3 ->
    e = false /\ v = fx s /\ fx s2 = fx s.
Proof. exact FutP.late_waitcontext. Qed.

(* "Panics if f has already been filled": a Fill of a filled future panics at its CompareAndSwap, before
   it writes anything (f.x, the channel and the winner are unchanged); holds in every state *)
Theorem C18_future_second_fill_panics :
  forall s t s', ffilled s = true -> Fut.step s (TCas t) = Some s' ->
                 (exists x', nth_error (Fut.ths s') t = Some x' /\ Fut.t_pc x' = PFillPanic) /\
                 fx s' = fx s /\ fclosed s' = fclosed s /\ ffilled s' = true /\ fwinner s' = fwinner s.
Proof. exact FutP.second_fill_panics. Qed.

(* The code before the repair ([Fut.step_orig]: Fill = f.x = x; close(f.c), WaitContext = the two-arm
   select only) violates the property: the statements
     (c)  fclosed s = true -> forall l s', step_orig s l = Some s' -> fx s' = fx s
     late forall ..., fclosed s = true -> step_orig s (LCallWaitCtx t c) = Some s1 -> ... -> e = false
   are FALSE for it. *)
Theorem C18_future_orig_fill_refuted :
  exists s s1 s2,
    run Fut.step_orig (Fut.init FutP.orig_fill_cfg 0 0) FutP.orig_fill_run1 = Some s /\
    fclosed s = true /\ fx s = 1%Z /\
    Fut.step_orig s (TWrite 1) = Some s1 /\ fx s1 = 2%Z /\
    run Fut.step_orig s1 FutP.orig_fill_run2 = Some s2 /\
    GoLTSProofs.trace Fut.lab Fut.lab Fut.vis (FutP.orig_fill_run1 ++ TWrite 1 :: FutP.orig_fill_run2) =
      [Fut.LSpawn 0; Fut.LSpawn 1; Fut.LSpawn 2; Fut.LSpawn 3; LCallFill 0 1%Z; LRetFill 0; LCallWait 2; LRetWait 2 1%Z;
       LCallFill 1 2%Z; LPanicFill 1; LCallWait 3; LRetWait 3 2%Z] /\
    Fut.accepts_history FutP.orig_fill_cfg 0 0
      [Fut.LSpawn 0; Fut.LSpawn 1; Fut.LSpawn 2; Fut.LSpawn 3; LCallFill 0 1%Z; LRetFill 0; LCallWait 2; LRetWait 2 1%Z;
       LCallFill 1 2%Z; LPanicFill 1; LCallWait 3; LRetWait 3 2%Z] = false.
Proof. exact FutP.orig_fill_refuted. Qed.

Theorem C18_future_orig_waitcontext_refuted :
  exists s s1 s2 s3,
    run Fut.step_orig (Fut.init FutP.orig_wctx_cfg 1 0) FutP.orig_wctx_run1 = Some s /\
    fclosed s = true /\ fx s = 7%Z /\
    Fut.step_orig s (LCallWaitCtx 1 0) = Some s1 /\
    run Fut.step_orig s1 FutP.orig_wctx_run2 = Some s2 /\
    Fut.step_orig s2 (LRetWaitCtx 1 0%Z true) = Some s3 /\
    Fut.accepts_history FutP.orig_wctx_cfg 1 0
      [Fut.LSpawn 0; LCallFill 0 7%Z; LRetFill 0; LCancel 0; Fut.LSpawn 1; LCallWaitCtx 1 0; LRetWaitCtx 1 0%Z true] = false.
Proof. exact FutP.orig_waitcontext_refuted. Qed.

(* ====================================================================== Lazy *)
Import Lazy.

(* sync.OnceValue by its documented specification; f returns base + (its invocation number) *)
Theorem C18_lazy :
  forall cfg gated base ng s, reachable Lazy.qstep (Lazy.init cfg gated base ng) s ->
  (* f is entered at most once, even with concurrent first calls *)
  fcount s <= 1 /\
  (forall t n s', Lazy.qstep s (LFEnter t n) = Some s' -> n = 1 /\ fcount s = 0 /\ onc s = ORunning t) /\
  (* every caller gets the result of that one invocation, and only after it has completed *)
  (forall t v s', Lazy.qstep s (LRetLazy t v) = Some s' -> onc s = ODone v /\ v = (base + 1)%Z /\ fcount s = 1) /\
  (* callers block while the first call is in progress, and proceed before it started / after it completed *)
  (forall t x, nth_error (Lazy.ths s) t = Some x -> Lazy.t_pc x = PCalled ->
     (forall u, onc s = ORunning u -> Lazy.step s (TOnce t) = None) /\
     (forall v, onc s = ODone v -> exists s', Lazy.step s (TOnce t) = Some s') /\
     (onc s = ONew -> exists s', Lazy.step s (TOnce t) = Some s')).
Proof. exact LazyP.lazy_correct. Qed.

(* ====================================================================== xsync.Map *)

(* for every value type V on which asserting the nil interface fails (every Go type), every
   operation sequence, from every state of the underlying sync.Map: each method of the typed
   wrapper returns exactly the sync.Map result projected to V (absent / nil => zero value; the
   booleans unchanged), leaves the same state, and never panics *)
Theorem C18_map_refines_syncmap :
  (forall T, vty_ok T ->
     forall ops m, x_run T m ops = map (fun r => Ok (proj_out T r)) (raw_run m (map (conv_op T) ops))) /\
  (* in particular for a concrete V (int) and an interface-typed V (error) *)
  (forall ops m, x_run TInt m ops = map (fun r => Ok (proj_out TInt r)) (raw_run m (map (conv_op TInt) ops))) /\
  (forall ops m, x_run TErr m ops = map (fun r => Ok (proj_out TErr r)) (raw_run m (map (conv_op TErr) ops))) /\
  (forall ops m, forallb (fun r => negb (is_panic r)) (x_run TInt m ops) = true) /\
  (forall ops m, forallb (fun r => negb (is_panic r)) (x_run TErr m ops) = true) /\
  (* the projection inverts the conversion: what was stored is what is loaded *)
  (forall m k v, x_run TInt m [OpStore k v; OpLoad k] = [Ok OUnit; Ok (OValB v true)]) /\
  (forall m k v, x_run TErr m [OpStore k v; OpLoad k] = [Ok OUnit; Ok (OValB v true)]).
Proof.
  exact (conj map_refines
        (conj (map_refines TInt TInt_ok)
        (conj (map_refines TErr TErr_ok)
        (conj (map_never_panics TInt TInt_ok)
        (conj (map_never_panics TErr TErr_ok)
        (conj (store_then_load TInt TInt_ok TInt_roundtrip)
              (store_then_load TErr TErr_ok TErr_roundtrip))))))).
Qed.

(* The code before the fix (one-value assertions `x.(V)`): the desired statement
     forall T ops m, forallb (fun r => negb (is_panic r)) (old_run T m ops) = true
   is FALSE for it: Swap of an absent key panics for every V, and Load of a stored nil value panics
   for an interface-typed V; the current code returns (zero, false) / (nil, true) there. *)
Theorem C18_map_old_code_refuted :
  (old_run TInt [] [OpSwap 1 5] = [Panic POther] /\ x_run TInt [] [OpSwap 1 5] = [Ok (OValB 0 false)])%Z /\
  (old_run TErr [] [OpSwap 1 (Some 5)] = [Panic POther] /\ x_run TErr [] [OpSwap 1 (Some 5)] = [Ok (OValB None false)])%Z /\
  (old_run TErr [] [OpStore 1 None; OpLoad 1] = [Ok OUnit; Panic POther] /\
   x_run TErr [] [OpStore 1 None; OpLoad 1] = [Ok OUnit; Ok (OValB None true)])%Z.
Proof. exact (conj old_swap_absent_panics_int (conj old_swap_absent_panics_err old_load_nil_panics)). Qed.

(* ====================================================================== non-vacuity *)
(* histories recorded on the real code (harness_watch) are runs of the models *)
Example C18_watch_history_runs :
  Watch.accepts_history
    [(Some 0, [ASet 1001%Z; AValue; ASet 1002%Z]); (Some 0, [AValue; ASet 2001%Z; AValue]); (Some 0, [AWatch]);
     (None, [AValueHeld 1]); (None, [AValue])] 2
    [Watch.LSpawn 3; LCallValue 3; Watch.LQuiesce; Watch.LSpawn 0; Watch.LSpawn 1; Watch.LSpawn 2; Watch.LQuiesce;
     Watch.LRelease 0; LCallValue 1; LRetValue 1 0%Z false; LCallSet 1 2001%Z; LRetSet 1; LCallValue 1;
     LRetValue 1 2001%Z false; LCallSet 0 1001%Z; LRetSet 0; LCallValue 0; LRetValue 0 1001%Z false;
     LCallSet 0 1002%Z; LRetSet 0; LCallValue 2; LRetValue 2 1002%Z false; Watch.LQuiesce; Watch.LRelease 1;
     LRetValue 3 0%Z true; Watch.LQuiesce; Watch.LSpawn 4; LCallValue 4; LRetValue 4 1002%Z false; Watch.LQuiesce] = true.
Proof. vm_compute. reflexivity. Qed.

(* ... and a history in which an observer would be left with a stale value is not *)
Example C18_watch_stale_rejected :
  Watch.accepts_history [(None, [ASet 7%Z]); (None, [AValue])] 0
    [Watch.LSpawn 0; LCallSet 0 7%Z; LRetSet 0; Watch.LSpawn 1; LCallValue 1; LRetValue 1 0%Z false] = false.
Proof. vm_compute. reflexivity. Qed.

Definition ex_fut_cfg := [(Some 0, KFill 7%Z); (Some 0, KWait); (None, KWaitCtx 0); (Some 0, KWaitCtx 1); (None, KWait)].

Example C18_future_cfg_ok : FutP.at_most_one_fill ex_fut_cfg.
Proof. apply FutP.count_fill_one. vm_compute. lia. Qed.

Example C18_future_history_runs :
  Fut.accepts_history ex_fut_cfg 2 1
    [Fut.LSpawn 2; LCallWaitCtx 2 0; Fut.LQuiesce; LCancel 0; LRetWaitCtx 2 0%Z true; Fut.LQuiesce; Fut.LSpawn 0;
     Fut.LSpawn 1; Fut.LSpawn 3; Fut.LRelease 0; LCallFill 0 7%Z; LRetFill 0; LCallWait 1; LRetWait 1 7%Z;
     LCallWaitCtx 3 1; LRetWaitCtx 3 7%Z false; Fut.LQuiesce; Fut.LSpawn 4; LCallWait 4; LRetWait 4 7%Z; Fut.LQuiesce] = true.
Proof. vm_compute. reflexivity. Qed.

(* two Fills (recorded shape: one returns, the other panics; every waiter, earlier or later, gets the winner's value) *)
Definition ex_fut_cfg2 : list (option nat * kind) :=
  [(Some 0, KFill 1%Z); (Some 0, KFill 2%Z); (None, KWait); (None, KWait); (None, KWaitCtx 0)].

Example C18_future_double_fill_history_runs :
  Fut.accepts_history ex_fut_cfg2 1 1
    [Fut.LSpawn 2; LCallWait 2; Fut.LSpawn 0; Fut.LSpawn 1; Fut.LQuiesce; Fut.LRelease 0; LCallFill 1 2%Z; LCallFill 0 1%Z;
     LPanicFill 0; LRetFill 1; LRetWait 2 2%Z; Fut.LQuiesce; Fut.LSpawn 3; LCallWait 3; LRetWait 3 2%Z;
     LCancel 0; Fut.LQuiesce; Fut.LSpawn 4; LCallWaitCtx 4 0; LRetWaitCtx 4 2%Z false; Fut.LQuiesce] = true.
Proof. vm_compute. reflexivity. Qed.

(* two Fills: the loser panics at its CompareAndSwap and f.x keeps the winner's value; the hypotheses of
   C18_future (a)/(c), C18_future_second_fill_panics and C18_future_late_waitcontext are satisfiable *)
Example C18_future_double_fill_run :
  exists s x, run Fut.step (Fut.init [(None, KFill 1%Z); (None, KFill 2%Z)] 0 0)
                  [Fut.LSpawn 0; Fut.LSpawn 1; LCallFill 0 1%Z; LCallFill 1 2%Z; TCas 0; TCas 1; TWrite 0; TCloseF 0] = Some s
              /\ nth_error (Fut.ths s) 1 = Some x /\ Fut.t_pc x = PFillPanic /\ fx s = 1%Z /\ fclosed s = true
              /\ fwinner s = Some 0.
Proof. eexists. eexists. vm_compute. repeat split; reflexivity. Qed.

(* a late WaitContext with a cancelled context: the run of C18_future_late_waitcontext exists, and the
   context error is not a possible outcome *)
Example C18_future_late_waitcontext_run :
  exists s s1 s2 s3,
    run Fut.qstep (Fut.init [(None, KFill 7%Z); (None, KWaitCtx 0)] 1 0)
        [Fut.LSpawn 0; LCallFill 0 7%Z; TCas 0; TWrite 0; TCloseF 0; LRetFill 0; LCancel 0; TCancelEff 0; Fut.LQuiesce; Fut.LSpawn 1] = Some s
    /\ fclosed s = true /\ ctx_done s 0 = true
    /\ Fut.qstep s (LCallWaitCtx 1 0) = Some s1 /\ run Fut.qstep s1 [TPollF 1; TRead 1] = Some s2
    /\ Fut.qstep s2 (LRetWaitCtx 1 7%Z false) = Some s3 /\ Fut.qstep s2 (LRetWaitCtx 1 0%Z true) = None.
Proof. eexists. eexists. eexists. eexists. vm_compute. repeat split; reflexivity. Qed.

Example C18_future_late_waitcontext_history :
  Fut.accepts_history [(None, KFill 7%Z); (None, KWaitCtx 0)] 1 0
    [Fut.LSpawn 0; LCallFill 0 7%Z; LRetFill 0; LCancel 0; Fut.LQuiesce; Fut.LSpawn 1; LCallWaitCtx 1 0;
     LRetWaitCtx 1 7%Z false; Fut.LQuiesce] = true /\
  Fut.accepts_history [(None, KFill 7%Z); (None, KWaitCtx 0)] 1 0
    [Fut.LSpawn 0; LCallFill 0 7%Z; LRetFill 0; LCancel 0; Fut.LQuiesce; Fut.LSpawn 1; LCallWaitCtx 1 0;
     LRetWaitCtx 1 0%Z true] = false.
Proof. vm_compute. split; reflexivity. Qed.

Example C18_lazy_history_runs :
  Lazy.accepts_history [(Some 0, 1); (Some 0, 1); (Some 0, 2); (None, 1)] true 100%Z 1
    [Lazy.LSpawn 0; Lazy.LSpawn 1; Lazy.LSpawn 2; Lazy.LRelease 0; LCallLazy 2; LFEnter 2 1; LCallLazy 0; LCallLazy 1;
     Lazy.LQuiesce; LReleaseF; LFExit 2 101%Z; LRetLazy 2 101%Z; LCallLazy 2; LRetLazy 2 101%Z; LRetLazy 0 101%Z;
     LRetLazy 1 101%Z; Lazy.LQuiesce; Lazy.LSpawn 3; LCallLazy 3; LRetLazy 3 101%Z; Lazy.LQuiesce] = true.
Proof. vm_compute. reflexivity. Qed.

(* a history in which f runs twice is not a run of the model *)
Example C18_lazy_twice_rejected :
  Lazy.accepts_history [(None, 1); (None, 1)] false 100%Z 0
    [Lazy.LSpawn 0; Lazy.LSpawn 1; LCallLazy 0; LCallLazy 1; LFEnter 0 1; LFEnter 1 2] = false.
Proof. vm_compute. reflexivity. Qed.

Example C18_map_history_runs :
  check_M (true,
    [OpLoad 1; OpSwap 1 0; OpLoad 1; OpSwap 1 2; OpLoadOrStore 2 0; OpLoadOrStore 2 3; OpRange; OpCAS 1 2 0;
     OpCAD 1 0; OpCAD 5 0; OpLoadAndDelete 2; OpLoadAndDelete 2; OpStore 3 4; OpDelete 3; OpRange]%Z,
    [(ObsOut (OValB ANil false), ObsOut (OValB ANil false)); (ObsOut (OValB ANil false), ObsOut (OValB ANil false));
     (ObsOut (OValB ANil true), ObsOut (OValB ANil true)); (ObsOut (OValB ANil true), ObsOut (OValB ANil true));
     (ObsOut (OValB ANil false), ObsOut (OValB ANil false)); (ObsOut (OValB ANil true), ObsOut (OValB ANil true));
     (ObsOut (OPairs [(1, AVal 2); (2, ANil)]), ObsOut (OPairs [(1, AVal 2); (2, ANil)]));
     (ObsOut (OBool true), ObsOut (OBool true)); (ObsOut (OBool true), ObsOut (OBool true));
     (ObsOut (OBool false), ObsOut (OBool false)); (ObsOut (OValB ANil true), ObsOut (OValB ANil true));
     (ObsOut (OValB ANil false), ObsOut (OValB ANil false)); (ObsOut OUnit, ObsOut OUnit); (ObsOut OUnit, ObsOut OUnit);
     (ObsOut (OPairs []), ObsOut (OPairs []))]%Z) = true
  /\
  check_M (false,
    [OpLoad 1; OpSwap 1 0; OpLoad 1; OpSwap 1 2; OpLoadOrStore 2 0; OpRange; OpCAS 1 2 0; OpCAD 1 0;
     OpLoadAndDelete 2; OpLoadAndDelete 2]%Z,
    [(ObsOut (OValB (AVal 0) false), ObsOut (OValB ANil false)); (ObsOut (OValB (AVal 0) false), ObsOut (OValB ANil false));
     (ObsOut (OValB (AVal 0) true), ObsOut (OValB (AVal 0) true)); (ObsOut (OValB (AVal 0) true), ObsOut (OValB (AVal 0) true));
     (ObsOut (OValB (AVal 0) false), ObsOut (OValB (AVal 0) false));
     (ObsOut (OPairs [(1, AVal 2); (2, AVal 0)]), ObsOut (OPairs [(1, AVal 2); (2, AVal 0)]));
     (ObsOut (OBool true), ObsOut (OBool true)); (ObsOut (OBool true), ObsOut (OBool true));
     (ObsOut (OValB (AVal 0) true), ObsOut (OValB (AVal 0) true)); (ObsOut (OValB (AVal 0) false), ObsOut (OValB ANil false))]%Z) = true.
Proof. split; vm_compute; reflexivity. Qed.

Print Assumptions C18_value_is_latest.
Print Assumptions C18_observer_converges.
Print Assumptions C18_future.
Print Assumptions C18_future_late_waitcontext.
Print Assumptions C18_future_second_fill_panics.
Print Assumptions C18_future_orig_fill_refuted.
Print Assumptions C18_future_orig_waitcontext_refuted.
Print Assumptions C18_lazy.
Print Assumptions C18_map_refines_syncmap.
Print Assumptions C18_map_old_code_refuted.

(* ---- the correspondence check's history matchers are certified (Conc/WatchMatcher.v): the canonical-state
        reduction of the Watchable matcher is a bisimulation; Future and Lazy use the generic matcher ---- *)
From Juniper Require Conc.GoLTS Conc.Watch Conc.Future Conc.WatchMatcher.

Theorem C18_watch_matcher_sound : forall cfg ng evs,
    Watch.accepts_history cfg ng evs = true ->
    exists ls s, GoLTS.run Watch.qstep (Watch.init cfg ng) ls = Some s /\ WatchMatcher.WatchM.watch_trace ls = evs.
Proof. exact WatchMatcher.WatchM.watch_accepts_sound. Qed.

Theorem C18_watch_matcher_rejections_genuine : forall cfg ng evs,
    WatchMatcher.WatchM.watch_converged cfg ng evs = true -> Watch.accepts_history cfg ng evs = false ->
    forall ls s, GoLTS.run Watch.qstep (Watch.init cfg ng) ls = Some s -> WatchMatcher.WatchM.watch_trace ls <> evs.
Proof. exact WatchMatcher.WatchM.watch_reject_genuine. Qed.

Theorem C18_future_matcher_sound : forall cfg nctx ng evs,
    Future.Fut.accepts_history cfg nctx ng evs = true ->
    exists ls s, GoLTS.run Future.Fut.qstep (Future.Fut.init cfg nctx ng) ls = Some s /\ WatchMatcher.FutM.fut_trace ls = evs.
Proof. exact WatchMatcher.FutM.fut_accepts_sound. Qed.

Theorem C18_lazy_matcher_sound : forall cfg gated base ng evs,
    Future.Lazy.accepts_history cfg gated base ng evs = true ->
    exists ls s, GoLTS.run Future.Lazy.qstep (Future.Lazy.init cfg gated base ng) ls = Some s /\ WatchMatcher.LazyM.lazy_trace ls = evs.
Proof. exact WatchMatcher.LazyM.lazy_accepts_sound. Qed.

Print Assumptions C18_watch_matcher_sound.
Print Assumptions C18_watch_matcher_rejections_genuine.
Print Assumptions C18_future_matcher_sound.
Print Assumptions C18_lazy_matcher_sound.

(* Tie to the source: the Go functions the model transcribes still contain exactly the synchronisation operations
   (select arms, channel operations, goroutine starts, timer/context/sync calls) the model accounts for.
   Generated/Census.v is re-extracted from the Go source on every run (tools/gofacts/census.go). *)
From Juniper Require Translated.CensusC18.
Theorem C18_source_census : Translated.CensusC18.census_expected_C18.
Proof. exact Translated.CensusC18.census_C18_ok. Qed.
Print Assumptions C18_source_census.
