(* C09 (sequential part) - every owned stream is closed exactly once and never used afterwards.
   Statements only; proofs in theories/Iter/Events.v, StreamEvents.v.
   Model: Iter/StreamModel.v; its log records, in order, every Next call (SevNext id) and every
   Close call (SevClose id) that reaches the instrumented source id.

   Vocabulary:
     pipe_ids p     all source ids of the pipeline (assumed distinct: NoDup)
     pipe_owned p   the sources handed to the pipeline itself: all of them except those inside
                    the inner pipelines of a Flatten - Flatten obtains an inner stream only when
                    its outer iterator hands it out, and inner streams never handed out are
                    neither touched nor closed
     tids L         the ids that occur in the log L at all (Next or Close)
     log_ok L       after SevClose id the id never occurs again in L: no Next after Close and
                    no second Close
   "Obtained on the way" is expressed through the log: every source that is touched at all
   (in particular every inner stream Flatten pulled and every later argument Join reached) is
   closed exactly once; so is every owned source, touched or not.  Next and Close never overlap:
   the model (like the code) is sequential. *)
From Juniper Require Import Common.Base Iter.Syntax Iter.Config Iter.ModelBase Iter.IterModel
  Iter.StreamModel Iter.Spec Iter.Events Iter.StreamEvents Iter.StreamProofs Iter.SReducers.

(* k Next calls with any contexts on ANY pipeline (any faults), then Close; for runs that were
   not cut short by a panic (only Chunk with a negative size can panic) *)
Theorem C09_steps_then_close : forall cfg p lives,
  NoDup (pipe_ids p) ->
  let run := run_stream_cfg cfg p (Steps (map CNext lives ++ [CClose])) in
  length (ro_steps run) = S (length lives) ->
  let L := ro_log run in
  log_ok L /\                                                     (* C09_no_use_after_close *)
  (forall id, In id (pipe_owned p) -> count_close id L = 1%nat) /\   (* C09_closed_once *)
  (forall id, In id (tids L) -> count_close id L = 1%nat) /\
  incl (tids L) (pipe_ids p).
Proof. exact stream_close_steps. Qed.

(* the completion hypothesis holds for every pipeline without unretryable faults *)
Theorem C09_run_completes : forall cfg p lives,
  okp true p ->
  length (ro_steps (run_stream_cfg cfg p (Steps (map CNext lives ++ [CClose]))))
  = S (length lives).
Proof. exact stream_steps_complete. Qed.

(* reducers: Collect, Last, Reduce always; One in a configuration where it has `defer s.Close()`
   (closing_reducer); any pipeline, any faults, any context, panics included *)
Theorem C09_reducers : forall cfg z r live,
  closing_reducer cfg r = true -> NoDup (pz_ids z) ->
  let L := ro_log (run_stream_cfg cfg (inl z) (Reduce r live)) in
  log_ok L /\
  (forall id, In id (pz_owned z) -> count_close id L = 1%nat) /\
  (forall id, In id (tids L) -> count_close id L = 1%nat) /\
  incl (tids L) (pz_ids z).
Proof. exact stream_close_reduce. Qed.

(* in the configuration of /repo today every reducer closes *)
Theorem C09_one_closes_now : closing_reducer current_cfg ROne = true.
Proof. exact eq_refl. Qed.

(* stream.One before the repair (original_cfg) never closed its stream *)
Theorem C09_one_refuted :
  exists z live, NoDup (pz_ids z) /\
    let L := ro_log (run_stream_cfg original_cfg (inl z) (Reduce ROne live)) in
    exists id, In id (pz_owned z) /\ count_close id L = 0%nat.
Proof. exact stream_one_close_refuted. Qed.

(* the step-level contract all of this follows from (Events.v: evrel) holds for every call on
   every state *)
Theorem C09_step : forall live f s o s' ev,
  snext f live s = (o, s', ev) -> evrel sall sopn s ev s'.
Proof. intros live f. exact (proj1 (snext_events live f)). Qed.

Print Assumptions C09_steps_then_close.
Print Assumptions C09_run_completes.
Print Assumptions C09_reducers.
Print Assumptions C09_one_closes_now.
Print Assumptions C09_one_refuted.
Print Assumptions C09_step.
