(* C09 (sequential part) - every owned stream is closed exactly once and never used afterwards.
   Statements only; proofs in theories/Iter/Events.v, StreamEvents.v.
   Model: Iter/StreamModel.v; its log records, in order, every Next call (SevNext id) and every
   Close call (SevClose id) that reaches the instrumented source id.

   Vocabulary:
     pipe_ids p     all source ids of the pipeline (assumed distinct: NoDup)
     pipe_owned p   the sources handed to the pipeline itself: all of them except those inside
                    the inner pipelines of a Flatten - Flatten obtains an inner stream only when
                    its outer iterator hands it out, and inner streams never handed out are
                    neither touched nor closed
     tids L         the ids that occur in the log L at all (Next or Close)
     log_ok L       after SevClose id the id never occurs again in L: no Next after Close and
                    no second Close
   "Obtained on the way" is expressed through the log: every source that is touched at all
   (in particular every inner stream Flatten pulled and every later argument Join reached) is
   closed exactly once; so is every owned source, touched or not.  Next and Close never overlap:
   the model (like the code) is sequential. *)
From Juniper Require Import Common.Base Iter.Syntax Iter.Config Iter.ModelBase Iter.IterModel
  Iter.StreamModel Iter.Spec Iter.Events Iter.StreamEvents Iter.StreamProofs Iter.SReducers.

(* k Next calls with any contexts on ANY pipeline (any faults), then Close; for runs that were
   not cut short by a panic (only Chunk with a negative size can panic) *)
Theorem C09_steps_then_close : forall cfg p lives,
  NoDup (pipe_ids p) ->
  let run := run_stream_cfg cfg p (Steps (map CNext lives ++ [CClose])) in
  length (ro_steps run) = S (length lives) ->
  let L := ro_log run in
  log_ok L /\                                                     (* C09_no_use_after_close *)
  (forall id, In id (pipe_owned p) -> count_close id L = 1%nat) /\   (* C09_closed_once *)
  (forall id, In id (tids L) -> count_close id L = 1%nat) /\
  incl (tids L) (pipe_ids p).
Proof. exact stream_close_steps. Qed.

(* the completion hypothesis holds for every pipeline without unretryable faults *)
Theorem C09_run_completes : forall cfg p lives,
  okp true p ->
  length (ro_steps (run_stream_cfg cfg p (Steps (map CNext lives ++ [CClose]))))
  = S (length lives).
Proof. exact stream_steps_complete. Qed.

(* reducers: Collect, Last, Reduce always; One in a configuration where it has `defer s.Close()`
   (closing_reducer); any pipeline, any faults, any context, panics included *)
Theorem C09_reducers : forall cfg z r live,
  closing_reducer cfg r = true -> NoDup (pz_ids z) ->
  let L := ro_log (run_stream_cfg cfg (inl z) (Reduce r live)) in
  log_ok L /\
  (forall id, In id (pz_owned z) -> count_close id L = 1%nat) /\
  (forall id, In id (tids L) -> count_close id L = 1%nat) /\
  incl (tids L) (pz_ids z).
Proof. exact stream_close_reduce. Qed.

(* in the configuration of /repo today every reducer closes *)
Theorem C09_one_closes_now : closing_reducer current_cfg ROne = true.
Proof. exact eq_refl. Qed.

(* stream.One before the repair (original_cfg) never closed its stream *)
Theorem C09_one_refuted :
  exists z live, NoDup (pz_ids z) /\
    let L := ro_log (run_stream_cfg original_cfg (inl z) (Reduce ROne live)) in
    exists id, In id (pz_owned z) /\ count_close id L = 0%nat.
Proof. exact stream_one_close_refuted. Qed.

(* the step-level contract all of this follows from (Events.v: evrel) holds for every call on
   every state *)
Theorem C09_step : forall live f s o s' ev,
  snext f live s = (o, s', ev) -> evrel sall sopn s ev s'.
Proof. intros live f. exact (proj1 (snext_events live f)). Qed.

Print Assumptions C09_steps_then_close.
Print Assumptions C09_run_completes.
Print Assumptions C09_reducers.
Print Assumptions C09_one_closes_now.
Print Assumptions C09_one_refuted.
Print Assumptions C09_step.

(* ---- panic-freedom on the documented domain (proofs: theories/Iter/GapsPanic.v) ----
   dom p: every Chunk size is >= 1 (Iter/Spec.v).  Nothing else is assumed: scripted sources may
   fail transiently or fatally, callbacks may fail, contexts may be expired. *)
From Juniper Require Import Iter.GapsPanic.

(* no Next of any state of the domain panics; the domain is closed under Next *)
Theorem C09_step_no_panic : forall live f,
  (forall s o s' ev, sdom s -> snext f live s = (o, s', ev) -> sdom s' /\ o <> Pan) /\
  (forall q o q' ev, sldom q -> slnext f live q = (o, q', ev) -> sldom q' /\ o <> Pan).
Proof. exact snext_no_panic. Qed.

(* every consumer program (any mix of Next with live/expired contexts and Close) runs to its
   end on a pipeline of the domain: one observation per operation, none of them a panic *)
Theorem C09_no_panic_dom : forall cfg p ops,
  dom p ->
  let run := run_stream_cfg cfg p (Steps ops) in
  length (ro_steps run) = length ops /\ ~ In RPanic (map so_res (ro_steps run)).
Proof. exact stream_steps_no_panic. Qed.

(* the completion hypothesis of C09_steps_then_close holds on the whole domain *)
Theorem C09_run_completes_dom : forall cfg p lives,
  dom p ->
  length (ro_steps (run_stream_cfg cfg p (Steps (map CNext lives ++ [CClose]))))
  = S (length lives).
Proof. exact stream_steps_complete_dom. Qed.

(* C09_steps_then_close without the completion hypothesis *)
Theorem C09_steps_then_close_dom : forall cfg p lives,
  dom p -> NoDup (pipe_ids p) ->
  let L := ro_log (run_stream_cfg cfg p (Steps (map CNext lives ++ [CClose]))) in
  log_ok L /\
  (forall id, In id (pipe_owned p) -> count_close id L = 1%nat) /\
  (forall id, In id (tids L) -> count_close id L = 1%nat) /\
  incl (tids L) (pipe_ids p).
Proof. exact stream_close_steps_dom. Qed.

(* C09_reducers has no completion hypothesis (its deferred Close also runs when the body
   panics).  In addition: on the domain no reducer panics - Last for n >= 1, and for every n in
   a configuration with the guard (the code of /repo now) *)
Theorem C09_reducers_no_panic : forall cfg z r live,
  dom_z z -> reducer_dom cfg r ->
  map so_res (ro_steps (run_stream_cfg cfg (inl z) (Reduce r live))) <> [RPanic].
Proof. exact stream_reduce_no_panic. Qed.

(* non-vacuity: a run of a domain pipeline with a transient error, an expired context, a
   failing callback and a fatal source error; outside the domain Chunk does panic *)
Example C09_no_panic_demo :
  dom no_panic_demo_pipe /\
  map so_res (ro_steps (run_stream no_panic_demo_pipe
                          (Steps [CNext true; CNext false; CNext true; CNext true;
                                  CNext true; CNext true; CClose])))
  = [RErr 9; RErr (-1); RItem (IL [1; 2]); RErr 8; RErr 7; RErr 7; RUnit].
Proof. exact no_panic_demo. Qed.
Example C09_panic_outside_dom :
  map so_res (ro_steps (run_stream (inr (LChunk (-1) (ZSrc 0 (SSlice [1]))))
                                   (Steps [CNext true; CNext true])))
  = [RPanic].
Proof. exact panic_outside_dom. Qed.

Print Assumptions C09_step_no_panic.
Print Assumptions C09_no_panic_dom.
Print Assumptions C09_run_completes_dom.
Print Assumptions C09_steps_then_close_dom.
Print Assumptions C09_reducers_no_panic.
