(* C09 (sequential part) - every owned stream is closed exactly once and never used afterwards.
   Statements only; proofs in theories/Iter/Events.v, StreamEvents.v.
   Model: Iter/StreamModel.v; its log records, in order, every Next call (SevNext id) and every
   Close call (SevClose id) that reaches the instrumented source id.

   Vocabulary:
     pipe_ids p     all source ids of the pipeline (assumed distinct: NoDup)
     pipe_owned p   the sources handed to the pipeline itself: all of them except those inside
                    the inner pipelines of a Flatten - Flatten obtains an inner stream only when
                    its outer iterator hands it out, and inner streams never handed out are
                    neither touched nor closed
     tids L         the ids that occur in the log L at all (Next or Close)
     log_ok L       after SevClose id the id never occurs again in L: no Next after Close and
                    no second Close
   "Obtained on the way" is expressed through the log: every source that is touched at all
   (in particular every inner stream Flatten pulled and every later argument Join reached) is
   closed exactly once; so is every owned source, touched or not.  Next and Close never overlap:
   the model (like the code) is sequential.

   Panics.  A callback (predicate of Filter/While, function of Map, reduction function of
   Reduce) may panic at its k-th invocation, a scripted source's Next may panic (EvPanic), Chunk
   with a negative size panics.  No combinator recovers; the consumer of a step program (the
   harness) recovers a panicking Next, sees RPanic and goes on; a reducer's panic comes out of
   the reducer (RPanic) AFTER its deferred Close has run.  All C09 statements below quantify
   over all pipelines, panicking ones included. *)
From Juniper Require Import Common.Base Iter.Syntax Iter.Config Iter.ModelBase Iter.IterModel
  Iter.StreamModel Iter.Spec Iter.Events Iter.StreamEvents Iter.StreamProofs Iter.SReducers.

(* k Next calls with any contexts on ANY pipeline (any faults, any panics), then Close; the
   completion hypothesis always holds (C09_run_completes_any below) *)
Theorem C09_steps_then_close : forall cfg p lives,
  NoDup (pipe_ids p) ->
  let run := run_stream_cfg cfg p (Steps (map CNext lives ++ [CClose])) in
  length (ro_steps run) = S (length lives) ->
  let L := ro_log run in
  log_ok L /\                                                     (* C09_no_use_after_close *)
  (forall id, In id (pipe_owned p) -> count_close id L = 1%nat) /\   (* C09_closed_once *)
  (forall id, In id (tids L) -> count_close id L = 1%nat) /\
  incl (tids L) (pipe_ids p).
Proof. exact stream_close_steps. Qed.

(* the completion hypothesis holds for every pipeline without unretryable faults *)
Theorem C09_run_completes : forall cfg p lives,
  okp true p ->
  length (ro_steps (run_stream_cfg cfg p (Steps (map CNext lives ++ [CClose]))))
  = S (length lives).
Proof. exact stream_steps_complete. Qed.

(* ... and for every other pipeline and every consumer program: one observation per operation
   (a step that panics is observed as RPanic and the run goes on) *)
Theorem C09_run_completes_any : forall cfg p ops,
  length (ro_steps (run_stream_cfg cfg p (Steps ops))) = length ops.
Proof. exact stream_steps_complete_all. Qed.

(* reducers that close by `defer s.Close()` (closing_reducer cfg r: the configuration has the
   defer - cfg_defer_close -, and r is Collect, Last, Reduce, or One in a configuration where One
   closes at all): ANY pipeline, any faults, any context, and ANY PANIC - of the reduction
   function (RSum fl with a panicking fl), of a callback further down, of a source's Next, of
   Chunk: every owned source is closed exactly once, nothing is used after its Close *)
Theorem C09_reducers : forall cfg z r live,
  closing_reducer cfg r = true -> NoDup (pz_ids z) ->
  let L := ro_log (run_stream_cfg cfg (inl z) (Reduce r live)) in
  log_ok L /\
  (forall id, In id (pz_owned z) -> count_close id L = 1%nat) /\
  (forall id, In id (tids L) -> count_close id L = 1%nat) /\
  incl (tids L) (pz_ids z).
Proof. exact stream_close_reduce. Qed.

(* the same statement, spelled out for the panicking runs *)
Theorem C09_reducer_closes_on_panic : forall cfg z r live,
  closing_reducer cfg r = true -> NoDup (pz_ids z) ->
  let run := run_stream_cfg cfg (inl z) (Reduce r live) in
  map so_res (ro_steps run) = [RPanic] ->
  log_ok (ro_log run) /\
  forall id, In id (pz_owned z) -> count_close id (ro_log run) = 1%nat.
Proof.
  intros cfg z r live Hr Hn run _.
  destruct (stream_close_reduce cfg z r live Hr Hn) as (H1 & H2 & _). split; assumption.
Qed.

(* in the configuration of /repo today every reducer closes, by defer *)
Theorem C09_one_closes_now : closing_reducer current_cfg ROne = true.
Proof. exact eq_refl. Qed.
Theorem C09_reducers_close_now : forall fl n,
  closing_reducer current_cfg RCollect = true /\ closing_reducer current_cfg (RLast n) = true /\
  closing_reducer current_cfg (RSum fl) = true /\ closing_reducer current_cfg ROne = true.
Proof. intros; repeat split. Qed.

(* stream.One before the repair (original_cfg) never closed its stream *)
Theorem C09_one_refuted :
  exists z live, NoDup (pz_ids z) /\
    let L := ro_log (run_stream_cfg original_cfg (inl z) (Reduce ROne live)) in
    exists id, In id (pz_owned z) /\ count_close id L = 0%nat.
Proof. exact stream_one_close_refuted. Qed.

(* the step-level contract all of this follows from (Events.v: evrel) holds for every call on
   every state *)
Theorem C09_step : forall live f s o s' ev,
  snext f live s = (o, s', ev) -> evrel sall sopn s ev s'.
Proof. intros live f. exact (proj1 (snext_events live f)). Qed.

Print Assumptions C09_steps_then_close.
Print Assumptions C09_run_completes.
Print Assumptions C09_run_completes_any.
Print Assumptions C09_reducers.
Print Assumptions C09_reducer_closes_on_panic.
Print Assumptions C09_one_closes_now.
Print Assumptions C09_reducers_close_now.
Print Assumptions C09_one_refuted.
Print Assumptions C09_step.

(* ---- panic-freedom on the documented domain (proofs: theories/Iter/GapsPanic.v) ----
   dom p: every Chunk size is >= 1 (Iter/Spec.v); no_panics p = true: no callback panics, no
   scripted source has an EvPanic.  Nothing else is assumed: scripted sources may fail
   transiently or fatally, callbacks may return errors, contexts may be expired.
   sdom s: the same for states. *)
From Juniper Require Import Iter.GapsPanic.

(* no Next of any state of the domain panics; the domain is closed under Next *)
Theorem C09_step_no_panic : forall live f,
  (forall s o s' ev, sdom s -> snext f live s = (o, s', ev) -> sdom s' /\ o <> Pan) /\
  (forall q o q' ev, sldom q -> slnext f live q = (o, q', ev) -> sldom q' /\ o <> Pan).
Proof. exact snext_no_panic. Qed.

(* every consumer program (any mix of Next with live/expired contexts and Close) runs to its
   end on a pipeline of the domain: one observation per operation, none of them a panic *)
Theorem C09_no_panic_dom : forall cfg p ops,
  dom p -> no_panics p = true ->
  let run := run_stream_cfg cfg p (Steps ops) in
  length (ro_steps run) = length ops /\ ~ In RPanic (map so_res (ro_steps run)).
Proof. exact stream_steps_no_panic. Qed.

(* the completion hypothesis of C09_steps_then_close holds on the whole domain (and beyond:
   C09_run_completes_any) *)
Theorem C09_run_completes_dom : forall cfg p lives,
  dom p ->
  length (ro_steps (run_stream_cfg cfg p (Steps (map CNext lives ++ [CClose]))))
  = S (length lives).
Proof. exact stream_steps_complete_dom. Qed.

(* C09_steps_then_close without the completion hypothesis, for EVERY pipeline - any faults,
   panicking callbacks and sources, Chunk sizes outside the domain: after the consumer has
   recovered whatever panicked and has called Close, every owned source is closed exactly once
   and nothing was used after its Close *)
Theorem C09_steps_then_close_any : forall cfg p lives,
  NoDup (pipe_ids p) ->
  let L := ro_log (run_stream_cfg cfg p (Steps (map CNext lives ++ [CClose]))) in
  log_ok L /\
  (forall id, In id (pipe_owned p) -> count_close id L = 1%nat) /\
  (forall id, In id (tids L) -> count_close id L = 1%nat) /\
  incl (tids L) (pipe_ids p).
Proof. exact stream_close_steps_any. Qed.

Theorem C09_steps_then_close_dom : forall cfg p lives,
  dom p -> NoDup (pipe_ids p) ->
  let L := ro_log (run_stream_cfg cfg p (Steps (map CNext lives ++ [CClose]))) in
  log_ok L /\
  (forall id, In id (pipe_owned p) -> count_close id L = 1%nat) /\
  (forall id, In id (tids L) -> count_close id L = 1%nat) /\
  incl (tids L) (pipe_ids p).
Proof. exact stream_close_steps_dom. Qed.

(* C09_reducers has no completion hypothesis (its deferred Close also runs when the body
   panics).  In addition: on the domain, when nothing panics by itself, no reducer panics - Last
   for n >= 1, and for every n in a configuration with the guard (the code of /repo now); Reduce
   with a reduction function that does not panic (reducer_dom) *)
Theorem C09_reducers_no_panic : forall cfg z r live,
  dom_z z -> no_panics_z z = true -> reducer_dom cfg r ->
  map so_res (ro_steps (run_stream_cfg cfg (inl z) (Reduce r live))) <> [RPanic].
Proof. exact stream_reduce_no_panic. Qed.

(* non-vacuity: a run of a domain pipeline with a transient error, an expired context, a
   failing callback and a fatal source error; outside the domain Chunk does panic *)
Example C09_no_panic_demo :
  dom no_panic_demo_pipe /\ no_panics no_panic_demo_pipe = true /\
  map so_res (ro_steps (run_stream no_panic_demo_pipe
                          (Steps [CNext true; CNext false; CNext true; CNext true;
                                  CNext true; CNext true; CClose])))
  = [RErr 9; RErr (-1); RItem (IL [1; 2]); RErr 8; RErr 7; RErr 7; RUnit].
Proof. exact no_panic_demo. Qed.
Example C09_panic_outside_dom :
  map so_res (ro_steps (run_stream (inr (LChunk (-1) (ZSrc 0 (SSlice [1]))))
                                   (Steps [CNext true; CNext true])))
  = [RPanic; RPanic].
Proof. exact panic_outside_dom. Qed.

(* ---- C09 under panics: non-vacuity ---- *)
(* Collect over a Filter whose predicate panics at its 2nd invocation, over a Join of two
   sources: RPanic, and the deferred Close has closed both sources exactly once *)
Example C09_collect_panicking_filter :
  NoDup (pz_ids panic_filter_pipe) /\ pz_owned panic_filter_pipe = [0; 1]%nat /\
  no_panics_z panic_filter_pipe = false /\
  run_stream_cfg fixed_cfg (inl panic_filter_pipe) (Reduce RCollect true)
  = mkRunObs [mkStepObs RPanic [2; 0]] [SevNext 0; SevNext 0; SevClose 0; SevClose 1]%nat.
Proof. exact collect_panicking_filter. Qed.

(* Reduce whose reduction function panics at its 3rd invocation *)
Example C09_reduce_panicking_function :
  run_stream_cfg fixed_cfg (inl (ZSrc 0 (SSlice [1; 2; 3; 4]))) (Reduce (RSum (pan_fl 2)) true)
  = mkRunObs [mkStepObs RPanic [3]] [SevNext 0; SevNext 0; SevNext 0; SevClose 0]%nat /\
  closing_reducer fixed_cfg (RSum (pan_fl 2)) = true.
Proof. exact reduce_panicking_function. Qed.

(* Last over a source whose Next panics *)
Example C09_last_panicking_source :
  run_stream_cfg fixed_cfg (inl (ZSrc 0 (SScript [EvItem 1; EvPanic; EvItem 2])))
                 (Reduce (RLast 2) true)
  = mkRunObs [mkStepObs RPanic [2]] [SevNext 0; SevNext 0; SevClose 0]%nat.
Proof. exact last_panicking_source. Qed.

(* a step program: the consumer recovers the panic of the 2nd Next (the item Filter had pulled
   is lost), goes on and closes *)
Example C09_steps_panicking_filter :
  run_stream (inl panic_filter_pipe) (Steps [CNext true; CNext true; CNext true; CClose])
  = mkRunObs [mkStepObs (RItem (IZ 1)) [1; 0]; mkStepObs RPanic [2; 0];
              mkStepObs (RItem (IZ 3)) [3; 0]; mkStepObs RUnit [3; 0]]
             [SevNext 0; SevNext 0; SevNext 0; SevClose 0; SevClose 1]%nat.
Proof. exact steps_panicking_filter. Qed.

(* ---- the breaking change "explicit Close instead of defer" is refuted ----
   explicit_close_cfg (Iter/Config.v): the reducers call s.Close() before each return instead of
   `defer s.Close()`.  The statement C09_reducers for that configuration,
     forall z r live, r closes -> NoDup (pz_ids z) ->
       forall id, In id (pz_owned z) -> count_close id (log of Reduce r on z) = 1,
   is FALSE: a reduction function that panics leaves the source unclosed after the caller has
   recovered the panic (observation RPanic, no SevClose in the source's log). *)
Theorem C09_reducer_explicit_close_refuted :
  exists z r live, NoDup (pz_ids z) /\
    closing_reducer fixed_cfg r = true /\
    let run := run_stream_cfg explicit_close_cfg (inl z) (Reduce r live) in
    map so_res (ro_steps run) = [RPanic] /\
    exists id, In id (pz_owned z) /\ count_close id (ro_log run) = 0%nat.
Proof. exact stream_explicit_close_refuted. Qed.

(* the same for a callback further down (Collect), a panicking source (Last) and One *)
Theorem C09_reducer_explicit_close_refuted_others :
  (exists id, In id (pz_owned panic_filter_pipe) /\
     count_close id (ro_log (run_stream_cfg explicit_close_cfg (inl panic_filter_pipe)
                                            (Reduce RCollect true))) = 0%nat) /\
  count_close 0 (ro_log (run_stream_cfg explicit_close_cfg
                           (inl (ZSrc 0 (SScript [EvItem 1; EvPanic; EvItem 2])))
                           (Reduce (RLast 2) true))) = 0%nat /\
  count_close 0 (ro_log (run_stream_cfg explicit_close_cfg
                           (inl (ZSrc 0 (SScript [EvPanic])))
                           (Reduce ROne true))) = 0%nat.
Proof. exact stream_explicit_close_refuted_others. Qed.

(* the configuration with explicit Close is not a closing one *)
Theorem C09_explicit_close_not_closing : forall r, closing_reducer explicit_close_cfg r = false.
Proof. intros r. reflexivity. Qed.

Print Assumptions C09_step_no_panic.
Print Assumptions C09_no_panic_dom.
Print Assumptions C09_run_completes_dom.
Print Assumptions C09_steps_then_close_any.
Print Assumptions C09_steps_then_close_dom.
Print Assumptions C09_reducers_no_panic.
Print Assumptions C09_collect_panicking_filter.
Print Assumptions C09_reduce_panicking_function.
Print Assumptions C09_reducer_explicit_close_refuted.
Print Assumptions C09_reducer_explicit_close_refuted_others.
Print Assumptions C09_explicit_close_not_closing.
