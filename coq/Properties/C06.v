(* C06 — xlist.List is, for every history that respects the documented precondition (node and mark
   arguments are nodes currently in the list), exactly an ideal sequence of node handles.
   Only statements live here; each is closed by [exact] of a lemma proved in XList/Proofs.v.

   [run ops]  : the observations of the pointer model (XList/Model.v) after every operation: forward
                walk from Front via Next, backward walk from Back via Prev, Len, the Values along the
                forward walk, "Front has no Prev", "Back has no Next", "every handle handed out so far that
                the forward walk does not reach has neither Prev nor Next".
   [srun ops] : the same observations computed from the ideal sequence (XList/Spec.v): l, rev l,
                length l, the Values given at creation, true, true, true - and never a panic. *)
From Juniper Require Import Common.Base XList.Model XList.Spec XList.Proofs.

(* MAIN: after every operation of every valid history both walks are the ideal sequence and its mirror
   image, Len is its length, the ends have no outer neighbour, Values are those given at creation, every
   node outside the list (removed by Remove or dropped by Clear) has neither neighbour, and no nil
   pointer is ever dereferenced (nor does the loop of Clear run out of fuel). *)
Theorem C06_refinement : forall ops, valid_ops ops = true -> run ops = srun ops.
Proof. exact xlist_refinement. Qed.

(* the i-th observation is the ideal state after the first i+1 operations ... *)
Theorem C06_obs_nth : forall ops i,
    valid_ops ops = true -> (i < length ops)%nat ->
    nth_error (run ops) i = Some (sobs (srun_state (firstn (S i) ops))).
Proof. exact xlist_obs_nth. Qed.

(* ... and, spelled out, every observation is panic-free, duplicate-free, the backward walk is the
   mirror image of the forward walk, Len is their length, and the three flags hold *)
Theorem C06_walks : forall ops, valid_ops ops = true -> Forall obs_well_formed (run ops).
Proof. exact xlist_obs_well_formed. Qed.

(* the pointer structure represents the ideal sequence: no duplicates, front/back are its ends,
   consecutive nodes point at each other, the first has no Prev, the last no Next, size is the length *)
Theorem C06_rep_invariant : forall ops,
    valid_ops ops = true -> Rep (run_state ops) (sl (srun_state ops)).
Proof. exact xlist_rep_invariant. Qed.

(* the Value fields of all nodes ever allocated (in or out of the list) are the values passed to the
   creating calls, in call order *)
Theorem C06_values_at_creation : forall ops,
    valid_ops ops = true -> map value (heap (run_state ops)) = created ops.
Proof. exact xlist_values_at_creation. Qed.

(* a node's Value never changes afterwards, whether or not the node is still in the list *)
Theorem C06_values_untouched : forall ops1 ops2,
    valid_ops (ops1 ++ ops2) = true ->
    forall h, (h < length (heap (run_state ops1)))%nat ->
              value_of (heap (run_state (ops1 ++ ops2))) h = value_of (heap (run_state ops1)) h.
Proof. exact xlist_values_untouched. Qed.

(* handles keep their identity: a handle keeps denoting a node, and that node's cell changes at most
   in its prev/next fields *)
Theorem C06_handles_stable : forall ops1 ops2,
    valid_ops (ops1 ++ ops2) = true ->
    let H1 := heap (run_state ops1) in
    let H2 := heap (run_state (ops1 ++ ops2)) in
    (length H1 <= length H2)%nat /\
    forall h c, nth_error H1 h = Some c ->
                exists c', nth_error H2 h = Some c' /\ value c' = value c.
Proof. exact xlist_handles_stable. Qed.

(* a removed node has neither neighbour and is no longer in the sequence *)
Theorem C06_removed_node_isolated : forall ops n,
    valid_ops (ops ++ [LRemove n]) = true ->
    let H := heap (run_state (ops ++ [LRemove n])) in
    prev_of H n = None /\ next_of H n = None /\ ~ In n (sl (srun_state (ops ++ [LRemove n]))).
Proof. exact xlist_removed_isolated. Qed.

(* every handle handed out so far that is not in the ideal sequence - removed by Remove or dropped by
   Clear, at any earlier time, whatever was done to the list since (re-growth after Clear included) -
   has neither neighbour.  Subsumes C06_removed_node_isolated. *)
Theorem C06_detached_nodes_isolated : forall ops,
    valid_ops ops = true ->
    forall h, (h < length (heap (run_state ops)))%nat -> ~ In h (sl (srun_state ops)) ->
              prev_of (heap (run_state ops)) h = None /\ next_of (heap (run_state ops)) h = None.
Proof. exact xlist_detached_isolated. Qed.

(* "handed out so far" is the same number in both layers: the next fresh handle *)
Theorem C06_fresh_handle : forall ops,
    valid_ops ops = true -> length (heap (run_state ops)) = length (svals (srun_state ops)).
Proof. exact xlist_fresh. Qed.

(* Clear as it was before the repair of xlist.go ({ l.front = nil; l.back = nil; l.size = 0 }, kept in
   the model as [clear_original] / [run_original]) does NOT have that property:
     forall ops, valid_ops ops = true ->
     forall h, h < length (heap (run_state_original ops)) -> ~ In h (sl (srun_state ops)) ->
       prev_of (heap (run_state_original ops)) h = None /\ next_of (heap (run_state_original ops)) h = None
   fails on PushBack, PushBack, PushBack, Clear for the dropped node 0, which still points at node 1; the
   harness's flag after that Clear is false.  With the repaired Clear the same node is isolated. *)
Theorem C06_clear_original_refuted :
  exists ops h,
    valid_ops ops = true /\
    (h < length (heap (run_state_original ops)))%nat /\
    mem h (sl (srun_state ops)) = false /\
    next_of (heap (run_state_original ops)) h <> None /\
    map o_removed_isolated (run_original ops) = [true; true; true; false] /\
    next_of (heap (run_state ops)) h = None /\
    map o_removed_isolated (run ops) = [true; true; true; true].
Proof. exact clear_original_refuted. Qed.

(* non-vacuity: a valid history that uses every operation, node == mark, node and mark adjacent in both
   orders and at both ends, a single-element list, re-growth after Clear (of an empty, a 4-element and a
   3-element list) and after emptying; at its end 13 of the 15 handles are outside the list *)
Theorem C06_precondition_satisfiable :
    valid_ops example_ops = true /\ length (run example_ops) = 42%nat.
Proof. exact (conj example_valid (proj2 example_runs)). Qed.

Print Assumptions C06_refinement.
Print Assumptions C06_obs_nth.
Print Assumptions C06_walks.
Print Assumptions C06_rep_invariant.
Print Assumptions C06_values_at_creation.
Print Assumptions C06_values_untouched.
Print Assumptions C06_handles_stable.
Print Assumptions C06_removed_node_isolated.
Print Assumptions C06_detached_nodes_isolated.
Print Assumptions C06_fresh_handle.
Print Assumptions C06_clear_original_refuted.
Print Assumptions C06_precondition_satisfiable.
