(* C14 — parallel.MapIterator and MapStream yield f(x) for every source item exactly once and in
   source order, bound the number of items taken but not yet yielded, never deadlock; MapStream
   surfaces only errors that the source / f / the caller produced, and its Close returns after all
   workers have stopped and the source has been closed.
   Only statements live here; each is closed by [exact] of a lemma proved in Conc/ParMapProofs.v
   about the LTS models of Conc/ParMap.v (module MI: MapIterator, module MS: MapStream).

   Every statement quantifies over ALL states reachable by [qstep] — any schedule of the dispatcher,
   the workers and the consumer, any gate releases / context cancellations / quiescence points of
   the controller — from the initial state of ANY configuration: any source length and values, any
   parallelism and bufferSize (<= 0 included: normalised as in the code with GOMAXPROCS = g >= 1),
   any result function [fv], any set of failing items, any gating.

   Vocabulary (model state):  [pulled s] items the source has returned; [next s] = iter.i = number of
   results yielded; [yielded s] the values Next has produced (ghost); [cons s] the consumer's program
   counter ([CRet None] / [KRet REnd]: Next is about to report the end; [KRet (RErr e)]: about to
   report e); [is_lib l]: l is a step of the library (internal step, up-call entry, return of
   Next/Close) as opposed to the environment (an up-call returning) and the controller. *)
From Juniper Require Import Common.Base Conc.GoLTS Conc.ParMap Conc.ParMapProofs.

(* ---------------------------------------------------------------------------------------------- *)
(* in order, exactly once                                                                          *)
(* ---------------------------------------------------------------------------------------------- *)

(* MapIterator: what has been yielded is [map f] of the first [next] source items — in order, no
   loss, no duplicate — and when Next reports the end it is [map f] of all of them *)
Theorem C14_in_order_exactly_once_iterator :
  forall (fv : Z -> Z) (g par bufsz : Z) (items : list Z) (gated : list bool) (s : MI.st),
    1 <= g -> reachable (MI.qstep fv) (MI.init g par bufsz items gated) s ->
    MI.yielded s = map fv (firstn (MI.next s) items) /\ (MI.next s <= length items)%nat /\
    (MI.cons s = MI.CRet None -> MI.yielded s = map fv items).
Proof. exact MIP.in_order_exactly_once. Qed.

(* MapStream: the same; [REnd] is reported only after everything has been yielded *)
Theorem C14_in_order_exactly_once :
  forall (fv : Z -> Z) (c : MS.cfg) (s : MS.st),
    1 <= MS.c_gomaxprocs c -> reachable (MS.qstep fv) (MS.init c) s ->
    MS.yielded s = map fv (firstn (MS.next s) (MS.c_items c)) /\ (MS.next s <= length (MS.c_items c))%nat /\
    (MS.cons s = MS.KRet MS.REnd -> MS.yielded s = map fv (MS.c_items c)).
Proof. exact MST.in_order_exactly_once. Qed.

(* ---------------------------------------------------------------------------------------------- *)
(* the in-flight bound: (taken from the source) - (yielded) <= normalised bufferSize + 1, in every    *)
(* state; this is tight (ParMapProofs.ExI.bound_tight); hence <= bufferSize + parallelism + 1          *)
(* ---------------------------------------------------------------------------------------------- *)
Theorem C14_inflight_bound_iterator :
  forall (fv : Z -> Z) (g par bufsz : Z) (items : list Z) (gated : list bool) (s : MI.st),
    1 <= g -> reachable (MI.qstep fv) (MI.init g par bufsz items gated) s ->
    Z.of_nat (MI.pulled s) - Z.of_nat (MI.next s) <= norm_buf (norm_par g par) bufsz + 1.
Proof. exact MIP.inflight_bound. Qed.

Theorem C14_inflight_bound :
  forall (fv : Z -> Z) (c : MS.cfg) (s : MS.st),
    1 <= MS.c_gomaxprocs c -> reachable (MS.qstep fv) (MS.init c) s ->
    Z.of_nat (MS.pulled s) - Z.of_nat (MS.next s)
    <= norm_buf (norm_par (MS.c_gomaxprocs c) (MS.c_par c)) (MS.c_bufsz c) + 1.
Proof. exact MST.inflight_bound. Qed.

(* the property's wording: buffer size + parallelism + 1 (a non-positive bufferSize counts as 0,
   parallelism is the effective one) *)
Theorem C14_inflight_bound_property_iterator :
  forall (fv : Z -> Z) (g par bufsz : Z) (items : list Z) (gated : list bool) (s : MI.st),
    1 <= g -> reachable (MI.qstep fv) (MI.init g par bufsz items gated) s ->
    Z.of_nat (MI.pulled s) - Z.of_nat (MI.next s) <= Z.max 0 bufsz + norm_par g par + 1.
Proof. exact MIP.inflight_bound_property. Qed.

Theorem C14_inflight_bound_property :
  forall (fv : Z -> Z) (c : MS.cfg) (s : MS.st),
    1 <= MS.c_gomaxprocs c -> reachable (MS.qstep fv) (MS.init c) s ->
    Z.of_nat (MS.pulled s) - Z.of_nat (MS.next s)
    <= Z.max 0 (MS.c_bufsz c) + norm_par (MS.c_gomaxprocs c) (MS.c_par c) + 1.
Proof. exact MST.inflight_bound_property. Qed.

(* ---------------------------------------------------------------------------------------------- *)
(* no deadlock (progress): whenever the consumer is inside a call, some step of the library is       *)
(* enabled, or the library is waiting for the environment: an up-call (f, the source's Next or Close)  *)
(* that has been entered and has not returned.  In particular sync.Cond's memory-less Signal loses   *)
(* no wake-up here, and the consumer's  s.ready <- struct{}{}  never blocks.                         *)
(* (The documented leak of MapIterator when the consumer stops calling Next is outside: the         *)
(* statement is about states in which a call is pending.)                                           *)
(* ---------------------------------------------------------------------------------------------- *)
Theorem C14_no_deadlock_iterator :
  forall (fv : Z -> Z) (g par bufsz : Z) (items : list Z) (gated : list bool) (s : MI.st),
    1 <= g -> reachable (MI.qstep fv) (MI.init g par bufsz items gated) s ->
    MI.cons s <> MI.CIdle ->
    (exists l s', MI.is_lib l = true /\ MI.step fv s l = Some s') \/
    (MI.disp s = MI.DInSrc \/ exists w k, nth_error (MI.ws s) w = Some (MI.WInF k)).
Proof. exact MIP.no_deadlock. Qed.

Theorem C14_no_deadlock :
  forall (fv : Z -> Z) (c : MS.cfg) (s : MS.st),
    1 <= MS.c_gomaxprocs c -> reachable (MS.qstep fv) (MS.init c) s ->
    MS.cons s <> MS.KIdle /\ MS.cons s <> MS.KClosed ->
    (exists l s', MS.is_lib l = true /\ MS.step fv s l = Some s') \/
    (MS.disp s = MS.SInSrc \/ (exists r, MS.disp s = MS.SInClose r) \/
     exists w k, nth_error (MS.ws s) w = Some (MS.TInF k)).
Proof. exact MST.no_deadlock. Qed.

(* ---------------------------------------------------------------------------------------------- *)
(* the error contract of MapStream                                                                   *)
(* ---------------------------------------------------------------------------------------------- *)

(* the error e that Next is about to report is justified ([MSP.valid_err]): it is the error f returned
   for an item k on which f was called and failed ([In k (failed s)]), or the error the source returned,
   or the group's context error after Close was called / after the CALLER's context was cancelled —
   never the cancellation that the errgroup itself performs on the first error or when Wait returns;
   what was yielded before is [map f] of a prefix, and that prefix stops before every item on which
   f returned an error *)
Theorem C14_error_contract :
  forall (fv : Z -> Z) (c : MS.cfg) (s : MS.st) (e : MS.err),
    1 <= MS.c_gomaxprocs c -> reachable (MS.qstep fv) (MS.init c) s ->
    MS.cons s = MS.KRet (MS.RErr e) ->
    MSP.valid_err (MS.failed s) (MS.ferr s) (MS.srcfailed s) (MS.close_called s) (MS.pdone s) e /\
    MS.yielded s = map fv (firstn (MS.next s) (MS.c_items c)) /\
    (forall k, In k (MS.failed s) -> (MS.next s <= k)%nat).
Proof. exact MST.error_contract. Qed.

(* spelled out for a run without Close and without cancellation of the caller's context *)
Theorem C14_error_contract_own :
  forall (fv : Z -> Z) (c : MS.cfg) (s : MS.st) (e : MS.err),
    1 <= MS.c_gomaxprocs c -> reachable (MS.qstep fv) (MS.init c) s ->
    MS.cons s = MS.KRet (MS.RErr e) -> MS.close_called s = false -> MS.pdone s = false ->
    (exists k, e = MS.EF k /\ In k (MS.failed s) /\ nthb (MS.c_ferr c) k = true /\ (MS.next s <= k)%nat) \/
    (e = MS.ESrc /\ MS.srcfailed s = true).
Proof. exact MST.error_contract_own. Qed.

(* ---------------------------------------------------------------------------------------------- *)
(* Close returns                                                                                    *)
(* ---------------------------------------------------------------------------------------------- *)

(* the source is never closed twice; while Close is running the library can move or an up-call is
   still running; when Close has returned, the dispatcher and every worker have finished and the
   source has been closed exactly once *)
Theorem C14_close_returns :
  forall (fv : Z -> Z) (c : MS.cfg) (s : MS.st),
    1 <= MS.c_gomaxprocs c -> reachable (MS.qstep fv) (MS.init c) s ->
    (MS.src_closed s <= 1)%nat /\
    ((MS.cons s = MS.KClose1 \/ MS.cons s = MS.KClose2) -> MST.progress fv s) /\
    (MSP.kclosed (MS.cons s) = true ->
     MS.disp s = MS.SDone /\ (forall w x, nth_error (MS.ws s) w = Some x -> x = MS.TDone) /\
     MS.src_closed s = 1%nat).
Proof. exact MST.close_returns. Qed.

(* the assumption "f and the source return when their context is cancelled", as it is built into the
   model of the up-calls: once the group's context is cancelled (Close cancels it), every pending
   up-call has an enabled return, so the environment can always discharge [progress]'s second case *)
Theorem C14_close_env_can_return :
  forall (fv : Z -> Z) (c : MS.cfg) (s : MS.st),
    1 <= MS.c_gomaxprocs c -> reachable (MS.qstep fv) (MS.init c) s ->
    length (MS.c_fgated c) = length (MS.c_items c) -> length (MS.c_sgated c) = S (length (MS.c_items c)) ->
    MS.g s <> MS.GLive ->
    (forall w k, nth_error (MS.ws s) w = Some (MS.TInF k) -> exists o s', MS.step fv s (MS.LFExit w k o) = Some s') /\
    (MS.disp s = MS.SInSrc -> exists o s', MS.step fv s (MS.LSrcExit o) = Some s') /\
    (forall r, MS.disp s = MS.SInClose r -> exists s', MS.step fv s MS.LSrcCloseExit = Some s').
Proof. exact MST.env_can_return. Qed.

Print Assumptions C14_in_order_exactly_once_iterator.
Print Assumptions C14_in_order_exactly_once.
Print Assumptions C14_inflight_bound_iterator.
Print Assumptions C14_inflight_bound.
Print Assumptions C14_inflight_bound_property_iterator.
Print Assumptions C14_inflight_bound_property.
Print Assumptions C14_no_deadlock_iterator.
Print Assumptions C14_no_deadlock.
Print Assumptions C14_error_contract.
Print Assumptions C14_error_contract_own.
Print Assumptions C14_close_returns.
Print Assumptions C14_close_env_can_return.

(* ---- the correspondence check's history matchers (Conc/ParMapMatcher.v): the MapIterator matcher (worker
        symmetry reduction) is sound; for MapStream the check uses the matcher WITHOUT the channel-buffer sorting,
        which is sound; the matcher with buffer sorting that was shipped first accepts a history that no run of the
        model produces (kept as a refutation: sorting the buffer of channel c is not a symmetry of the model) ---- *)
From Juniper Require Conc.GoLTS Conc.ParMap Conc.ParMapMatcher.

Theorem C14_iterator_matcher_sound : forall fv g par bufsz items gated evs,
    ParMap.MI.accepts_history fv g par bufsz items gated evs = true ->
    exists ls s, GoLTS.run (ParMap.MI.qstep fv) (ParMap.MI.init g par bufsz items gated) ls = Some s /\
                 ParMapMatcher.MIM.mi_trace ls = evs.
Proof. exact ParMapMatcher.MIM.mi_accepts_sound. Qed.

Theorem C14_stream_matcher_sound : forall fv c evs,
    ParMapMatcher.MSM.accepts_history_ws fv c evs = true ->
    exists ls s, GoLTS.run (ParMap.MS.qstep fv) (ParMap.MS.init c) ls = Some s /\ ParMapMatcher.MSM.ms_trace ls = evs.
Proof. exact ParMapMatcher.MSM.ms_ws_accepts_sound. Qed.

Theorem C14_sorted_buffer_matcher_refuted :
    exists c evs, ParMap.MS.accepts_history ParMapMatcher.pm_fx c evs = true /\
      forall ls s, GoLTS.run (ParMap.MS.qstep ParMapMatcher.pm_fx) (ParMap.MS.init c) ls = Some s ->
                   ParMapMatcher.MSM.ms_trace ls <> evs.
Proof. exact ParMapMatcher.MSM.ms_accepts_sound_refuted. Qed.

Print Assumptions C14_iterator_matcher_sound.
Print Assumptions C14_stream_matcher_sound.
Print Assumptions C14_sorted_buffer_matcher_refuted.

(* Tie to the source: the Go functions the model transcribes still contain exactly the synchronisation operations
   (select arms, channel operations, goroutine starts, timer/context/sync calls) the model accounts for.
   Generated/Census.v is re-extracted from the Go source on every run (tools/gofacts/census.go). *)
From Juniper Require Translated.CensusC14.
Theorem C14_source_census : Translated.CensusC14.census_expected_C14.
Proof. exact Translated.CensusC14.census_C14_ok. Qed.
Print Assumptions C14_source_census.

(* ---- and complete (Conc/ParMapMatcherComplete.v): wherever the exploration converged (an executable test, evaluated
        for every history the check rejects), a rejected history is the visible trace of NO run of the unreduced
        model; acceptance is then equivalent to being a trace of the model ---- *)
From Juniper Require Conc.ParMapMatcherComplete.

Theorem C14_iterator_matcher_exact : forall fv g par bufsz items gated evs,
    ParMapMatcherComplete.MIC.mi_converged fv g par bufsz items gated evs = true ->
    (ParMap.MI.accepts_history fv g par bufsz items gated evs = true <->
     exists ls s, GoLTS.run (ParMap.MI.qstep fv) (ParMap.MI.init g par bufsz items gated) ls = Some s /\
                  ParMapMatcher.MIM.mi_trace ls = evs).
Proof. exact ParMapMatcherComplete.MIC.mi_accepts_iff. Qed.

Theorem C14_stream_matcher_exact : forall fv c evs,
    ParMapMatcherComplete.MSC.ms_ws_converged fv c evs = true ->
    (ParMapMatcher.MSM.accepts_history_ws fv c evs = true <->
     exists ls s, GoLTS.run (ParMap.MS.qstep fv) (ParMap.MS.init c) ls = Some s /\ ParMapMatcher.MSM.ms_trace ls = evs).
Proof. exact ParMapMatcherComplete.MSC.ms_ws_accepts_iff. Qed.

Print Assumptions C14_iterator_matcher_exact.
Print Assumptions C14_stream_matcher_exact.
