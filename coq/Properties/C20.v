(* C20 — xtime.SleepContext and xtime.JitterTicker (xtime/xtime.go).
   Only statements live here; each is closed by [exact] of a lemma proved in Conc/XTimeProofs.v.
   The models are in Conc/XTime.v: a logical clock advanced by the environment ([SLTick]/[LTick]);
   a timer armed for deadline dl may fire at any clock value >= dl.

   SleepContext  [sstep] : LTS of one call from [sinit d deadline now0] — any d, any deadline (or none),
                 cancellation by the environment at any moment, deadline expiry once the clock reaches it.
   JitterTicker  [step]  : LTS from [tinit n] — n goroutines calling NewJitterTicker / Reset / Stop with any
                 arguments in any interleaving, the AfterFunc callbacks as goroutines, any oracle value of
                 rand.Int63n, receivers on C.  [sent s] is the ghost list (newest first) of the ticks
                 (timestamp, d, jitter in force when the sending timer was scheduled) sent on c. *)
From Juniper Require Import Common.Base Conc.GoLTS Conc.XTime Conc.XTimeProofs.

(* ---------------------------------------------------------------------------------- *)
(* SleepContext                                                                        *)
(* ---------------------------------------------------------------------------------- *)

(* The decision at the top of SleepContext, as a function of (d, deadline, clock read by time.Until):
   d <= 0 => nil at once; otherwise DeadlineTooSoonError at once EXACTLY when a deadline exists and is
   closer than d; otherwise the call goes on to wait. *)
Theorem C20_sleep_decision_function : forall d dl nw,
    (d <= 0 -> sleep_decide false d dl nw = Some SNil)
    /\ (0 < d -> (sleep_decide false d dl nw = Some STooSoon <-> exists x, dl = Some x /\ x - nw < d))
    /\ (0 < d -> (sleep_decide false d dl nw = None <-> (dl = None \/ exists x, dl = Some x /\ d <= x - nw))).
Proof.
  intros d dl nw.
  exact (conj (sleep_decide_nonpos d dl nw) (conj (sleep_decide_toosoon d dl nw) (sleep_decide_wait d dl nw))).
Qed.

(* ... and that decision is one step of the call, taken without creating a timer or waiting. *)
Theorem C20_sleep_at_once : forall s,
    spc_ s = SCalled ->
    exists s', sstep s STDecide = Some s'
               /\ spc_ s' = match sleep_decide false (s_d s) (s_dl s) (snow s) with
                            | Some r => SReturning r
                            | None => SArm
                            end
               /\ stm s' = stm s /\ snow s' = snow s.
Proof. exact sleep_decides_at_once. Qed.

(* MAIN (SleepContext): in every reachable state of every scenario, if the call returns r then
   - time.Until was read during the call (at ghost clock value [stdec s]);
   - d <= 0: r = nil and no timer was ever created (returned at once);
   - d > 0: r is DeadlineTooSoonError exactly when the deadline was closer than d at that reading, and then
     no timer was created (returned at once);
   - r = nil with d > 0 only at a clock value >= start + d;
   - r = the context's error only if the context has ended, and it is that context's error. *)
Theorem C20_sleep_decision : forall d dl now0 s r,
    reachable sstep (sinit d dl now0) s ->
    (spc_ s = SReturning r \/ spc_ s = SDone r) ->
    sstart s <= stdec s <= snow s
    /\ (d <= 0 -> r = SNil /\ stm s = TmNone)
    /\ (0 < d -> (r = STooSoon <-> exists x, dl = Some x /\ x - stdec s < d))
    /\ (r = STooSoon -> stm s = TmNone)
    /\ (r = SNil -> 0 < d -> sstart s + d <= snow s)
    /\ (forall e, r = SErr e -> sctx s = CDone e).
Proof. exact sleep_returns. Qed.

(* while the call waits, its timer is pending for a deadline >= start + d, or has fired *)
Theorem C20_sleep_waiting_timer : forall d dl now0 s,
    reachable sstep (sinit d dl now0) s ->
    (spc_ s = SSelect \/ spc_ s = SParked) ->
    0 < d /\ (stm s = TmFired \/ exists x, stm s = TmArmed x /\ sstart s + d <= x).
Proof. exact sleep_waiting_timer. Qed.

(* progress: a pending call always has an enabled step of its own goroutine or timer once the timer may
   fire (clock >= its deadline) or the context has ended; before the select it always has one *)
Theorem C20_sleep_progress : forall d dl now0 s,
    reachable sstep (sinit d dl now0) s ->
    spc_ s <> SIdle -> (forall r, spc_ s <> SDone r) ->
    ((spc_ s = SSelect \/ spc_ s = SParked) -> timer_due s \/ ctx_ended s) ->
    exists l, In l s_call_labels /\ senabled s l = true.
Proof. exact sleep_progress. Qed.

(* the historical test [remaining > d] is wrong in both directions: it returns DeadlineTooSoonError for
   (d = 1, deadline = now + 1000) and does not for (d = 1000, deadline = now + 1), where the call then
   sleeps until the context expires; the current test does the opposite on both *)
Theorem C20_sleep_old_refuted :
    sleep_decide true 1 (Some (0 + 1000)) 0 = Some STooSoon /\ sleep_decide false 1 (Some (0 + 1000)) 0 = None
    /\ sleep_decide true 1000 (Some (0 + 1)) 0 = None /\ sleep_decide false 1000 (Some (0 + 1)) 0 = Some STooSoon
    /\ (exists s, run sstep_old (sinit 1 (Some 1000) 0) [SLCall; STDecide; SLRet STooSoon] = Some s
                  /\ spc_ s = SDone STooSoon /\ snow s = 0)
    /\ (exists s, run sstep_old (sinit 1000 (Some 1) 0)
                      [SLCall; STDecide; STArm; STPark; SLTick 1; STExpire; SLRet (SErr EDeadline)] = Some s
                  /\ spc_ s = SDone (SErr EDeadline)).
Proof. exact sleep_old_refuted. Qed.

(* non-vacuity: a full sleep, a DeadlineTooSoonError, a mid-sleep cancellation, a deadline expiry, d = 0 *)
Theorem C20_sleep_runs :
    (exists s, run sstep (sinit 1000 (Some 5000) 0)
                 [SLTick 10; SLCall; STDecide; STArm; STPark; SLTick 1010; STFire; SLRet SNil] = Some s
               /\ spc_ s = SDone SNil /\ sstart s = 10 /\ snow s = 1010)
    /\ (exists s, run sstep (sinit 1000 (Some 500) 0) [SLCall; STDecide; SLRet STooSoon] = Some s
                  /\ spc_ s = SDone STooSoon)
    /\ (exists s, run sstep (sinit 1000 None 0)
                    [SLCall; STDecide; STArm; STPark; SLTick 300; SLCancel; STCancelEff; SLRet (SErr ECanceled)] = Some s
                  /\ spc_ s = SDone (SErr ECanceled))
    /\ (exists s, run sstep (sinit 1000 (Some 1500) 0)
                    [SLTick 100; SLCall; STDecide; STArm; SLTick 1500; STExpire; STSelCtx; SLRet (SErr EDeadline)] = Some s
                  /\ spc_ s = SDone (SErr EDeadline))
    /\ (exists s, run sstep (sinit 0 None 0) [SLCall; STDecide; SLRet SNil] = Some s /\ spc_ s = SDone SNil).
Proof. exact sleep_runs. Qed.

(* ---------------------------------------------------------------------------------- *)
(* JitterTicker                                                                        *)
(* ---------------------------------------------------------------------------------- *)

(* Desired (full) statement:
     forall n s th d j, reachable step (tinit n) s -> 0 < d -> 0 <= j < d ->
       NewJitterTicker(d, j) and Reset(d, j) of goroutine th have not panicked in s.
   It is FALSE for the code in /repo when 2*jitter does not fit in an int64 (jitter >= 2^62 ns, about
   146 years): int64(t.jitter*2) wraps to a negative number and rand.Int63n panics — see
   [C20_ticker_no_panic_refuted].  What holds is the statement with the extra hypothesis
   2*j <= max_i64, for every oracle value of rand.Int63n and every interleaving: *)
Theorem C20_ticker_no_panic_partial : forall n s th d j,
    reachable step (tinit n) s ->
    0 < d -> 0 <= j < d -> 2 * j <= max_i64 ->
    nth_error (thr s) th <> Some (PPanicked (ONew d j))
    /\ nth_error (thr s) th <> Some (PPanicked (OReset d j))
    /\ step s (LRet th (ONew d j) RPanic) = None
    /\ step s (LRet th (OReset d j) RPanic) = None.
Proof. exact ticker_no_panic. Qed.

Theorem C20_ticker_no_panic_refuted :
    0 < huge_d /\ 0 <= huge_j < huge_d /\ huge_d <= max_i64 /\
    exists s, run step (tinit 1) [LCall 0 (ONew huge_d huge_j); TValidate 0; TLock 0; TBodySched 0 0] = Some s
              /\ nth_error (thr s) 0 = Some (PPanicked (ONew huge_d huge_j)).
Proof. exact ticker_no_panic_refuted. Qed.

(* the callback goroutine (whose panic would crash the program) never panics, whatever was passed *)
Theorem C20_ticker_callback_no_panic : forall n s k tm,
    reachable step (tinit n) s -> nth_error (timers s) k = Some tm -> tm_cb tm <> CbCrashed.
Proof. exact ticker_callback_no_panic. Qed.

(* the historical code (rand.Int63n(2*jitter) called unconditionally) panics in NewJitterTicker(5, 0);
   the current code does not *)
Theorem C20_ticker_old_refuted :
    (exists s, run step_old (tinit 1) [LCall 0 (ONew 5 0); TValidate 0; TLock 0; TBodySched 0 0] = Some s
               /\ nth_error (thr s) 0 = Some (PPanicked (ONew 5 0)))
    /\ (exists s, run step (tinit 1) [LCall 0 (ONew 5 0); TValidate 0; TLock 0; TBodySched 0 0] = Some s
                  /\ nth_error (thr s) 0 = Some (PUnlock (ONew 5 0))).
Proof. exact ticker_old_refuted. Qed.

(* MAIN (spacing): in every reachable state the ticks sent so far are spaced: each tick's timestamp is at
   least d - jitter after its predecessor's, with the d and jitter in force when the timer that sent it was
   scheduled (documented arguments 0 <= jitter < d with d + jitter <= max_i64; see [spaced]) — whatever
   the timing of Reset and Stop relative to a firing timer, dropped ticks, late timers, oracle values *)
Theorem C20_ticker_spacing : forall n s, reachable step (tinit n) s -> spaced (sent s).
Proof. exact ticker_spacing. Qed.

Theorem C20_ticker_spacing_adjacent : forall n s t2 d2 j2 t1 d1 j1 pre post,
    reachable step (tinit n) s -> sent s = pre ++ (t2, d2, j2) :: (t1, d1, j1) :: post ->
    0 <= j2 < d2 -> d2 + j2 <= max_i64 -> d2 - j2 <= t2 - t1.
Proof. exact ticker_spacing_adjacent. Qed.

(* the values received from C (plus the one still buffered) are exactly the ticks sent, in order *)
Theorem C20_ticker_received_are_sent : forall n s,
    reachable step (tinit n) s -> map tick_ts (sent s) = optl (buf s) ++ recvd s.
Proof. exact ticker_received_are_sent. Qed.

(* MAIN (Stop): from the moment the critical section of a Stop call has executed, and as long as no
   NewJitterTicker/Reset critical section executes, no tick is sent: the ghost list does not grow along any
   continuation, and no step that would extend it is enabled at its end (callbacks that had already
   started block on the mutex and then see a different gen) *)
Theorem C20_no_tick_after_stop : forall n ls1 th ls2 s1 s2,
    run step (tinit n) (ls1 ++ [TBodyStop th]) = Some s1 ->
    run step s1 ls2 = Some s2 ->
    no_sched_body ls2 = true ->
    sent s2 = sent s1 /\ stopped s2 = true
    /\ (forall l s3, step s2 l = Some s3 -> sent s3 = sent s2).
Proof. exact ticker_no_tick_after_stop. Qed.

(* ... and Stop returns only after that critical section: a goroutine whose Stop call is at its Unlock or
   about to return got there through its own [TBodyStop] step *)
Theorem C20_stop_return_follows_body : forall n ls s th,
    run step (tinit n) ls = Some s -> stop_post (thr s) th ->
    exists ls1 ls2, ls = ls1 ++ TBodyStop th :: ls2.
Proof. exact stop_return_follows_body. Qed.

(* non-vacuity: NewJitterTicker(100, 10), two ticks, a Reset and a Stop that both race a timer whose
   callback has already started *)
Theorem C20_ticker_runs :
    exists s, run step (tinit 2) example_run = Some s
              /\ sent s = [(260, 50, 0); (95, 100, 10)] /\ recvd s = [260; 95] /\ buf s = None
              /\ stopped s = true /\ gen s = 5 /\ mu s = MFree /\ length (timers s) = 4%nat.
Proof. exact ticker_runs. Qed.

Print Assumptions C20_sleep_decision_function.
Print Assumptions C20_sleep_at_once.
Print Assumptions C20_sleep_decision.
Print Assumptions C20_sleep_waiting_timer.
Print Assumptions C20_sleep_progress.
Print Assumptions C20_sleep_old_refuted.
Print Assumptions C20_sleep_runs.
Print Assumptions C20_ticker_no_panic_partial.
Print Assumptions C20_ticker_no_panic_refuted.
Print Assumptions C20_ticker_callback_no_panic.
Print Assumptions C20_ticker_old_refuted.
Print Assumptions C20_ticker_spacing.
Print Assumptions C20_ticker_spacing_adjacent.
Print Assumptions C20_ticker_received_are_sent.
Print Assumptions C20_no_tick_after_stop.
Print Assumptions C20_stop_return_follows_body.
Print Assumptions C20_ticker_runs.

(* ---- the correspondence check's history matchers are certified (Conc/XTimeMatcher.v): the sleep matcher is
        sound and complete under convergence; the tick-guided ticker matcher is sound w.r.t. the unreduced model ---- *)
From Juniper Require Conc.GoLTS Conc.XTime Conc.XTimeMatcher.

Theorem C20_sleep_matcher_sound : forall d dl evs,
    XTime.check_sleep (d, dl, evs) = true ->
    exists ls s, GoLTS.run XTime.sstep (XTime.sinit d dl 0%Z) ls = Some s /\ XTimeMatcher.sleep_trace ls = evs.
Proof. exact XTimeMatcher.sleep_check_sound. Qed.

Theorem C20_sleep_matcher_rejections_genuine : forall d dl evs,
    XTimeMatcher.sleep_converged (d, dl, evs) = true -> XTime.check_sleep (d, dl, evs) = false ->
    forall ls s, GoLTS.run XTime.sstep (XTime.sinit d dl 0%Z) ls = Some s -> XTimeMatcher.sleep_trace ls <> evs.
Proof. exact XTimeMatcher.sleep_reject_genuine. Qed.

Theorem C20_ticker_matcher_sound : forall n evs,
    XTime.check_ticker (n, evs) = true ->
    exists ls s, GoLTS.run XTime.step (XTime.tinit n) ls = Some s /\ XTimeMatcher.ticker_trace ls = evs.
Proof. exact XTimeMatcher.ticker_check_sound. Qed.

Print Assumptions C20_sleep_matcher_sound.
Print Assumptions C20_sleep_matcher_rejections_genuine.
Print Assumptions C20_ticker_matcher_sound.

(* Tie to the source: the Go functions the model transcribes still contain exactly the synchronisation operations
   (select arms, channel operations, goroutine starts, timer/context/sync calls) the model accounts for.
   Generated/Census.v is re-extracted from the Go source on every run (tools/gofacts/census.go). *)
From Juniper Require Translated.CensusC20.
Theorem C20_source_census : Translated.CensusC20.census_expected_C20.
Proof. exact Translated.CensusC20.census_C20_ok. Qed.
Print Assumptions C20_source_census.
