(* C20 — xtime.SleepContext and xtime.JitterTicker (xtime/xtime.go).
   Only statements live here; each is closed by [exact] of a lemma proved in Conc/XTimeProofs.v.
   The models are in Conc/XTime.v: a logical clock advanced by the environment ([SLTick]/[LTick]);
   a timer armed for deadline dl may fire at any clock value >= dl.

   SleepContext  [sstep] : LTS of one call from [sinit d deadline now0] — any d, any deadline (or none),
                 cancellation by the environment at any moment, deadline expiry once the clock reaches it.
   JitterTicker  [step]  : LTS from [tinit n] — n goroutines calling NewJitterTicker / Reset / Stop with any
                 arguments in any interleaving, the AfterFunc callbacks as goroutines, any outcome of the
                 two rand draws of schedule() (magnitude rand.Int63n(jitter), sign bit rand.Int63()&1;
                 numbered by one oracle value r, [draws]), receivers on C.  [sent s] is the ghost list (newest first) of the ticks
                 (timestamp, d, jitter in force when the sending timer was scheduled) sent on c. *)
From Juniper Require Import Common.Base Conc.GoLTS Conc.XTime Conc.XTimeProofs.

(* ---------------------------------------------------------------------------------- *)
(* SleepContext                                                                        *)
(* ---------------------------------------------------------------------------------- *)

(* The decision at the top of SleepContext, as a function of (d, deadline, clock read by time.Until):
   d <= 0 => nil at once; otherwise DeadlineTooSoonError at once EXACTLY when a deadline exists and is
   closer than d; otherwise the call goes on to wait. *)
Theorem C20_sleep_decision_function : forall d dl nw,
    (d <= 0 -> sleep_decide false d dl nw = Some SNil)
    /\ (0 < d -> (sleep_decide false d dl nw = Some STooSoon <-> exists x, dl = Some x /\ x - nw < d))
    /\ (0 < d -> (sleep_decide false d dl nw = None <-> (dl = None \/ exists x, dl = Some x /\ d <= x - nw))).
Proof.
  intros d dl nw.
  exact (conj (sleep_decide_nonpos d dl nw) (conj (sleep_decide_toosoon d dl nw) (sleep_decide_wait d dl nw))).
Qed.

(* ... and that decision is one step of the call, taken without creating a timer or waiting. *)
Theorem C20_sleep_at_once : forall s,
    spc_ s = SCalled ->
    exists s', sstep s STDecide = Some s'
               /\ spc_ s' = match sleep_decide false (s_d s) (s_dl s) (snow s) with
                            | Some r => SReturning r
                            | None => SArm
                            end
               /\ stm s' = stm s /\ snow s' = snow s.
Proof. exact sleep_decides_at_once. Qed.

(* MAIN (SleepContext): in every reachable state of every scenario, if the call returns r then
   - time.Until was read during the call (at ghost clock value [stdec s]);
   - d <= 0: r = nil and no timer was ever created (returned at once);
   - d > 0: r is DeadlineTooSoonError exactly when the deadline was closer than d at that reading, and then
     no timer was created (returned at once);
   - r = nil with d > 0 only at a clock value >= start + d;
   - r = the context's error only if the context has ended, and it is that context's error. *)
Theorem C20_sleep_decision : forall d dl now0 s r,
    reachable sstep (sinit d dl now0) s ->
    (spc_ s = SReturning r \/ spc_ s = SDone r) ->
    sstart s <= stdec s <= snow s
    /\ (d <= 0 -> r = SNil /\ stm s = TmNone)
    /\ (0 < d -> (r = STooSoon <-> exists x, dl = Some x /\ x - stdec s < d))
    /\ (r = STooSoon -> stm s = TmNone)
    /\ (r = SNil -> 0 < d -> sstart s + d <= snow s)
    /\ (forall e, r = SErr e -> sctx s = CDone e).
Proof. exact sleep_returns. Qed.

(* while the call waits, its timer is pending for a deadline >= start + d, or has fired *)
Theorem C20_sleep_waiting_timer : forall d dl now0 s,
    reachable sstep (sinit d dl now0) s ->
    (spc_ s = SSelect \/ spc_ s = SParked) ->
    0 < d /\ (stm s = TmFired \/ exists x, stm s = TmArmed x /\ sstart s + d <= x).
Proof. exact sleep_waiting_timer. Qed.

(* progress: a pending call always has an enabled step of its own goroutine or timer once the timer may
   fire (clock >= its deadline) or the context has ended; before the select it always has one *)
Theorem C20_sleep_progress : forall d dl now0 s,
    reachable sstep (sinit d dl now0) s ->
    spc_ s <> SIdle -> (forall r, spc_ s <> SDone r) ->
    ((spc_ s = SSelect \/ spc_ s = SParked) -> timer_due s \/ ctx_ended s) ->
    exists l, In l s_call_labels /\ senabled s l = true.
Proof. exact sleep_progress. Qed.

(* the historical test [remaining > d] is wrong in both directions: it returns DeadlineTooSoonError for
   (d = 1, deadline = now + 1000) and does not for (d = 1000, deadline = now + 1), where the call then
   sleeps until the context expires; the current test does the opposite on both *)
Theorem C20_sleep_old_refuted :
    sleep_decide true 1 (Some (0 + 1000)) 0 = Some STooSoon /\ sleep_decide false 1 (Some (0 + 1000)) 0 = None
    /\ sleep_decide true 1000 (Some (0 + 1)) 0 = None /\ sleep_decide false 1000 (Some (0 + 1)) 0 = Some STooSoon
    /\ (exists s, run sstep_old (sinit 1 (Some 1000) 0) [SLCall; STDecide; SLRet STooSoon] = Some s
                  /\ spc_ s = SDone STooSoon /\ snow s = 0)
    /\ (exists s, run sstep_old (sinit 1000 (Some 1) 0)
                      [SLCall; STDecide; STArm; STPark; SLTick 1; STExpire; SLRet (SErr EDeadline)] = Some s
                  /\ spc_ s = SDone (SErr EDeadline)).
Proof. exact sleep_old_refuted. Qed.

(* non-vacuity: a full sleep, a DeadlineTooSoonError, a mid-sleep cancellation, a deadline expiry, d = 0 *)
Theorem C20_sleep_runs :
    (exists s, run sstep (sinit 1000 (Some 5000) 0)
                 [SLTick 10; SLCall; STDecide; STArm; STPark; SLTick 1010; STFire; SLRet SNil] = Some s
               /\ spc_ s = SDone SNil /\ sstart s = 10 /\ snow s = 1010)
    /\ (exists s, run sstep (sinit 1000 (Some 500) 0) [SLCall; STDecide; SLRet STooSoon] = Some s
                  /\ spc_ s = SDone STooSoon)
    /\ (exists s, run sstep (sinit 1000 None 0)
                    [SLCall; STDecide; STArm; STPark; SLTick 300; SLCancel; STCancelEff; SLRet (SErr ECanceled)] = Some s
                  /\ spc_ s = SDone (SErr ECanceled))
    /\ (exists s, run sstep (sinit 1000 (Some 1500) 0)
                    [SLTick 100; SLCall; STDecide; STArm; SLTick 1500; STExpire; STSelCtx; SLRet (SErr EDeadline)] = Some s
                  /\ spc_ s = SDone (SErr EDeadline))
    /\ (exists s, run sstep (sinit 0 None 0) [SLCall; STDecide; SLRet SNil] = Some s /\ spc_ s = SDone SNil).
Proof. exact sleep_runs. Qed.

(* ---------------------------------------------------------------------------------- *)
(* JitterTicker                                                                        *)
(* ---------------------------------------------------------------------------------- *)

(* MAIN (no panic): for ALL d > 0 and ALL jitter with 0 <= jitter < d (no further hypothesis: in particular
   for every such pair of int64 values, up to d = MaxInt64 and jitter = MaxInt64 - 1), in every reachable state
   of every scenario, NewJitterTicker(d, jitter) and Reset(d, jitter) of any goroutine th have not panicked -
   for every outcome of the rand draws and every interleaving.  (The ORIGINAL code, next +=
   Int63n(int64(jitter*2)) - jitter, violated this for jitter >= 2^62: [C20_ticker_orig_panics_refuted].) *)
Theorem C20_ticker_no_panic : forall n s th d j,
    reachable step (tinit n) s ->
    0 < d -> 0 <= j < d ->
    nth_error (thr s) th <> Some (PPanicked (ONew d j))
    /\ nth_error (thr s) th <> Some (PPanicked (OReset d j))
    /\ step s (LRet th (ONew d j) RPanic) = None
    /\ step s (LRet th (OReset d j) RPanic) = None.
Proof. exact ticker_no_panic. Qed.

(* ... more precisely: a NewJitterTicker / Reset call panics ONLY for the documented reason (d <= 0 or
   jitter >= d), and its critical section (set the fields, schedule()) completes normally - and releases
   nothing, t.m stays with the caller until its Unlock - from every state and for every outcome of the draws *)
Theorem C20_ticker_panic_only_bad_args : forall n s th o,
    reachable step (tinit n) s -> nth_error (thr s) th = Some (PPanicked o) ->
    match o with ONew d j | OReset d j => d <= 0 \/ d <= j | OStop => True end.
Proof. exact ticker_panic_only_bad_args. Qed.

Theorem C20_ticker_body_completes : forall s th o r s',
    step s (TBodySched th r) = Some s' -> nth_error (thr s) th = Some (PLocked o) ->
    nth_error (thr s') th = Some (PUnlock o) /\ mu s' = mu s.
Proof. exact ticker_body_completes. Qed.

(* the ORIGINAL computation panics (inside rand.Int63n, with t.m held) for the documented pair
   d = 2^62+1, jitter = 2^62; the code in /repo completes from the same state with the same label *)
Theorem C20_ticker_orig_panics_refuted :
    0 < huge_d /\ 0 <= huge_j < huge_d /\ huge_d <= max_i64 /\
    (exists s, run step_orig (tinit 1) [LCall 0 (ONew huge_d huge_j); TValidate 0; TLock 0; TBodySched 0 0] = Some s
               /\ nth_error (thr s) 0 = Some (PPanicked (ONew huge_d huge_j)) /\ mu s = MDead)
    /\ (exists s, run step (tinit 1) [LCall 0 (ONew huge_d huge_j); TValidate 0; TLock 0; TBodySched 0 0] = Some s
                  /\ nth_error (thr s) 0 = Some (PUnlock (ONew huge_d huge_j))
                  /\ map tm_dl (timers s) = [1]).
Proof. exact ticker_orig_panics_refuted. Qed.

(* The label of a schedule() step numbers the outcomes of the two draws (m = rand.Int63n(jitter), b = the
   sign bit) by one integer r: [draws jitter] is a bijection between the valid r (0 <= r < 2*jitter) and the
   valid pairs (0 <= m < jitter, any b), and outcome r produces the offset r - jitter *)
Theorem C20_ticker_draws_bijection : forall j,
    (forall r m b, 0 <= r < 2 * j -> draws j r = (m, b) -> 0 <= m < j)
    /\ (forall m b, 0 <= m < j -> exists r, 0 <= r < 2 * j /\ draws j r = (m, b))
    /\ (forall r r', draws j r = draws j r' -> r = r')
    /\ (forall r m b, 0 < j <= max_i64 -> 0 <= r < 2 * j -> draws j r = (m, b) -> jitter_offset m b = r - j).
Proof.
  intros j.
  exact (conj (fun r m b => draws_valid j r m b)
        (conj (draws_onto j) (conj (draws_unique j) (fun r m b => draws_offset j r m b)))).
Qed.

(* MAIN (delay): for ALL documented int64 arguments (0 < d <= MaxInt64, 0 <= jitter < d) and every outcome of
   the draws, schedule() computes (without panicking) a delay in [d - jitter, MaxInt64]: never negative, never
   below d - jitter, at most d + jitter; it is exactly d + offset saturated at MaxInt64 *)
Theorem C20_ticker_delay_documented : forall d j r,
    0 < d <= max_i64 -> 0 <= j < d -> r_valid VCur j r = true ->
    exists nx, next_delay VCur d j r = Some nx
               /\ d - j <= nx <= max_i64 /\ nx <= d + j /\ 0 < nx
               /\ (0 < j -> nx = Z.min (d + (r - j)) max_i64) /\ (j = 0 -> nx = d).
Proof. exact ticker_delay_documented. Qed.

(* ... in the state: the timer schedule() creates (it becomes t.timer, with the new generation) is armed for a
   deadline in [now + d - jitter, now + MaxInt64] *)
Theorem C20_ticker_schedule_deadline : forall s r s2,
    schedule VCur s r = Some s2 -> r_valid VCur (fj s) r = true ->
    0 <= fj s < fd s -> fd s <= max_i64 ->
    exists tm, tmr s2 = Some (length (timers s)) /\ nth_error (timers s2) (length (timers s)) = Some tm
               /\ tm_st tm = TArmed /\ tm_gen tm = gen s2
               /\ now s + (fd s - fj s) <= tm_dl tm <= now s + max_i64.
Proof. exact ticker_schedule_deadline. Qed.

(* the ORIGINAL computation schedules a NEGATIVE delay for the documented pair d = MaxInt64, jitter = 2^61
   (rand.Int63n(2^62) = 2^61+1: d + 1 wraps to -2^63): the timer fires at once and two consecutive ticks are
   2 ns apart (d - jitter is about 219 years); the code in /repo saturates at MaxInt64 for the outcome with
   the same offset, and the run does not exist in its model *)
Theorem C20_ticker_orig_spacing_refuted :
    0 <= p61 < max_i64 /\
    next_delay VOrig max_i64 p61 (p61 + 1) = Some (- 9223372036854775808)
    /\ r_valid VOrig p61 (p61 + 1) = true
    /\ (exists s, run step_orig (tinit 1) orig_ovf_run = Some s
                  /\ sent s = [(7, max_i64, p61); (5, max_i64, p61)] /\ ~ spaced (sent s))
    /\ next_delay VCur max_i64 p61 (p61 + 1) = Some max_i64
    /\ run step (tinit 1) orig_ovf_run = None.
Proof. exact ticker_orig_spacing_refuted. Qed.

(* the callback goroutine (whose panic would crash the program) never panics, whatever was passed *)
Theorem C20_ticker_callback_no_panic : forall n s k tm,
    reachable step (tinit n) s -> nth_error (timers s) k = Some tm -> tm_cb tm <> CbCrashed.
Proof. exact ticker_callback_no_panic. Qed.

(* the historical code (rand.Int63n(2*jitter) called unconditionally) panics in NewJitterTicker(5, 0);
   the current code does not *)
Theorem C20_ticker_old_refuted :
    (exists s, run step_old (tinit 1) [LCall 0 (ONew 5 0); TValidate 0; TLock 0; TBodySched 0 0] = Some s
               /\ nth_error (thr s) 0 = Some (PPanicked (ONew 5 0)))
    /\ (exists s, run step (tinit 1) [LCall 0 (ONew 5 0); TValidate 0; TLock 0; TBodySched 0 0] = Some s
                  /\ nth_error (thr s) 0 = Some (PUnlock (ONew 5 0))).
Proof. exact ticker_old_refuted. Qed.

(* MAIN (spacing): in every reachable state the ticks sent so far are spaced: each tick's timestamp is at
   least d - jitter after its predecessor's, with the d and jitter in force when the timer that sent it was
   scheduled, for ALL documented int64 arguments (0 <= jitter < d <= MaxInt64; see [spaced]: no side condition
   on d + jitter) — whatever the timing of Reset and Stop relative to a firing timer, dropped ticks, late
   timers, outcomes of the rand draws *)
Theorem C20_ticker_spacing : forall n s, reachable step (tinit n) s -> spaced (sent s).
Proof. exact ticker_spacing. Qed.

Theorem C20_ticker_spacing_adjacent : forall n s t2 d2 j2 t1 d1 j1 pre post,
    reachable step (tinit n) s -> sent s = pre ++ (t2, d2, j2) :: (t1, d1, j1) :: post ->
    0 <= j2 < d2 -> d2 <= max_i64 -> d2 - j2 <= t2 - t1.
Proof. exact ticker_spacing_adjacent. Qed.

(* the values received from C (plus the one still buffered) are exactly the ticks sent, in order *)
Theorem C20_ticker_received_are_sent : forall n s,
    reachable step (tinit n) s -> map tick_ts (sent s) = optl (buf s) ++ recvd s.
Proof. exact ticker_received_are_sent. Qed.

(* MAIN (Stop): from the moment the critical section of a Stop call has executed, and as long as no
   NewJitterTicker/Reset critical section executes, no tick is sent: the ghost list does not grow along any
   continuation, and no step that would extend it is enabled at its end (callbacks that had already
   started block on the mutex and then see a different gen) *)
Theorem C20_no_tick_after_stop : forall n ls1 th ls2 s1 s2,
    run step (tinit n) (ls1 ++ [TBodyStop th]) = Some s1 ->
    run step s1 ls2 = Some s2 ->
    no_sched_body ls2 = true ->
    sent s2 = sent s1 /\ stopped s2 = true
    /\ (forall l s3, step s2 l = Some s3 -> sent s3 = sent s2).
Proof. exact ticker_no_tick_after_stop. Qed.

(* ... and Stop returns only after that critical section: a goroutine whose Stop call is at its Unlock or
   about to return got there through its own [TBodyStop] step *)
Theorem C20_stop_return_follows_body : forall n ls s th,
    run step (tinit n) ls = Some s -> stop_post (thr s) th ->
    exists ls1 ls2, ls = ls1 ++ TBodyStop th :: ls2.
Proof. exact stop_return_follows_body. Qed.

(* non-vacuity: NewJitterTicker(100, 10), two ticks, a Reset and a Stop that both race a timer whose
   callback has already started *)
Theorem C20_ticker_runs :
    exists s, run step (tinit 2) example_run = Some s
              /\ sent s = [(260, 50, 0); (95, 100, 10)] /\ recvd s = [260; 95] /\ buf s = None
              /\ stopped s = true /\ gen s = 5 /\ mu s = MFree /\ length (timers s) = 4%nat.
Proof. exact ticker_runs. Qed.

(* non-vacuity for huge documented arguments: NewJitterTicker(2^62+1, 2^62) with the smallest offset (delay 1),
   a tick, a reschedule with the largest offset (saturates), Reset(MaxInt64, 2^61) with offset +1 (saturates),
   a second tick MaxInt64 ns later; the delays for (MaxInt64, 2^61) and (2^62+1, 2^62) at both ends *)
Theorem C20_ticker_huge_runs :
    (exists s, run step (tinit 1) huge_run = Some s
               /\ sent s = [(1 + max_i64, max_i64, p61); (1, huge_d, huge_j)]
               /\ map tm_dl (timers s) = [1; 1 + max_i64; 1 + max_i64; 1 + max_i64 + (max_i64 - p61)]
               /\ map tm_st (timers s) = [TFired; TIdle; TFired; TArmed]
               /\ mu s = MFree /\ thr s = [PIdle])
    /\ next_delay VCur max_i64 p61 0 = Some (max_i64 - p61)
    /\ next_delay VCur max_i64 p61 (p61 + 1) = Some max_i64
    /\ next_delay VCur max_i64 p61 (2 * p61 - 1) = Some max_i64
    /\ next_delay VCur max_i64 p61 p61 = Some max_i64
    /\ next_delay VCur huge_d huge_j 0 = Some 1
    /\ next_delay VCur huge_d huge_j huge_j = Some huge_d
    /\ next_delay VCur huge_d huge_j (2 * huge_j - 1) = Some max_i64
    /\ r_valid VCur huge_j (2 * huge_j - 1) = true /\ r_valid VCur huge_j (2 * huge_j) = false
    /\ r_valid VCur p61 (2 * p61 - 1) = true /\ r_valid VCur 0 0 = true /\ r_valid VCur 0 1 = false.
Proof. exact ticker_huge_runs. Qed.

Print Assumptions C20_sleep_decision_function.
Print Assumptions C20_sleep_at_once.
Print Assumptions C20_sleep_decision.
Print Assumptions C20_sleep_waiting_timer.
Print Assumptions C20_sleep_progress.
Print Assumptions C20_sleep_old_refuted.
Print Assumptions C20_sleep_runs.
Print Assumptions C20_ticker_no_panic.
Print Assumptions C20_ticker_panic_only_bad_args.
Print Assumptions C20_ticker_body_completes.
Print Assumptions C20_ticker_orig_panics_refuted.
Print Assumptions C20_ticker_draws_bijection.
Print Assumptions C20_ticker_delay_documented.
Print Assumptions C20_ticker_schedule_deadline.
Print Assumptions C20_ticker_orig_spacing_refuted.
Print Assumptions C20_ticker_callback_no_panic.
Print Assumptions C20_ticker_old_refuted.
Print Assumptions C20_ticker_spacing.
Print Assumptions C20_ticker_spacing_adjacent.
Print Assumptions C20_ticker_received_are_sent.
Print Assumptions C20_no_tick_after_stop.
Print Assumptions C20_stop_return_follows_body.
Print Assumptions C20_ticker_runs.
Print Assumptions C20_ticker_huge_runs.

(* ---- the correspondence check's history matchers are certified (Conc/XTimeMatcher.v): the sleep matcher is
        sound and complete under convergence; the tick-guided ticker matcher is sound w.r.t. the unreduced model, and
        fixing the outcome of the rand draws to 0 loses no history for int64 arguments ---- *)
From Juniper Require Conc.GoLTS Conc.XTime Conc.XTimeMatcher.

Theorem C20_sleep_matcher_sound : forall d dl evs,
    XTime.check_sleep (d, dl, evs) = true ->
    exists ls s, GoLTS.run XTime.sstep (XTime.sinit d dl 0%Z) ls = Some s /\ XTimeMatcher.sleep_trace ls = evs.
Proof. exact XTimeMatcher.sleep_check_sound. Qed.

Theorem C20_sleep_matcher_rejections_genuine : forall d dl evs,
    XTimeMatcher.sleep_converged (d, dl, evs) = true -> XTime.check_sleep (d, dl, evs) = false ->
    forall ls s, GoLTS.run XTime.sstep (XTime.sinit d dl 0%Z) ls = Some s -> XTimeMatcher.sleep_trace ls <> evs.
Proof. exact XTimeMatcher.sleep_reject_genuine. Qed.

Theorem C20_ticker_matcher_sound : forall n evs,
    XTime.check_ticker (n, evs) = true ->
    exists ls s, GoLTS.run XTime.step (XTime.tinit n) ls = Some s /\ XTimeMatcher.ticker_trace ls = evs.
Proof. exact XTimeMatcher.ticker_check_sound. Qed.

(* the matcher tries only outcome 0 of the rand draws (smallest offset): for ALL documented int64 arguments that
   is the earliest deadline (no side condition on d + jitter any more), so every run of the model has a
   counterpart with the same visible trace in which every outcome is 0 *)
Theorem C20_ticker_oracle_safe_documented : forall d j,
    0 <= j < d -> d <= XTime.max_i64 -> XTimeMatcher.oracle_safe d j.
Proof. exact XTimeMatcher.oracle_safe_documented. Qed.

Theorem C20_ticker_matcher_oracle_zero : forall n evs ls s,
    XTimeMatcher.hist_safe evs -> GoLTS.run XTime.step (XTime.tinit n) ls = Some s ->
    XTimeMatcher.ticker_trace ls = evs ->
    exists ls0 s0, GoLTS.run XTime.step (XTime.tinit n) ls0 = Some s0
                   /\ Forall (fun l => XTimeMatcher.zero_oracle l = true) ls0
                   /\ XTimeMatcher.ticker_trace ls0 = evs /\ XTimeMatcher.earlier s0 s.
Proof. exact XTimeMatcher.ticker_oracle_zero. Qed.

Print Assumptions C20_sleep_matcher_sound.
Print Assumptions C20_sleep_matcher_rejections_genuine.
Print Assumptions C20_ticker_matcher_sound.
Print Assumptions C20_ticker_oracle_safe_documented.
Print Assumptions C20_ticker_matcher_oracle_zero.

(* Tie to the source: the Go functions the model transcribes still contain exactly the synchronisation operations
   (select arms, channel operations, goroutine starts, timer/context/sync calls) the model accounts for.
   Generated/Census.v is re-extracted from the Go source on every run (tools/gofacts/census.go). *)
From Juniper Require Translated.CensusC20.
Theorem C20_source_census : Translated.CensusC20.census_expected_C20.
Proof. exact Translated.CensusC20.census_C20_ok. Qed.
Print Assumptions C20_source_census.
