(* C15 (deque part) — Deque.Iterate is snapshot-or-panic. Statements only. *)
From Juniper Require Import Common.Base Deque.Model Deque.Spec Deque.Proofs.

Section C15_deque.
  Context {T : Type} (zero : T) (minSize growMul : Z).
  Hypothesis Hmin : 1 <= minSize.
  Hypothesis Hgrow : 2 <= growMul <= 32768.

  Notation run_state := (run_state zero minSize growMul).
  Notation step := (step zero minSize growMul).

  (* on an unchanged deque the iterator yields exactly the contents, front to back, then ends *)
  Theorem C15_deque_unchanged : forall ops,
      let d := sd (run_state st0 ops) in
      drain (S (Z.to_nat (len d))) d (iterate d) = Some (Ok (window d)).
  Proof. exact (deque_iter_unchanged zero minSize growMul Hmin Hgrow). Qed.

  (* for every history with any number of live iterators and any operations in between:
     what an iterator has returned is a prefix of its snapshot, and it reports exhaustion
     only after the whole snapshot (any other outcome of Next is a panic) *)
  Theorem C15_deque_snapshot_or_panic : forall ops,
      Forall ghost_ok (snd (grun zero minSize growMul st0 [] ops)).
  Proof. exact (deque_iter_ghost_ok zero minSize growMul Hmin Hgrow). Qed.

  (* after an element has been added or removed every existing iterator panics on its next call *)
  Theorem C15_deque_add_remove_panics : forall ops o it,
      let s := run_state st0 ops in
      adds_or_removes o = true ->
      snd (step s o) <> OPanic ->
      In it (sits (fst (step s o))) ->
      fst (iter_next (sd (fst (step s o))) it) = Panic PModified.
  Proof. exact (deque_iter_add_remove_panics zero minSize growMul Hmin Hgrow). Qed.
End C15_deque.

Print Assumptions C15_deque_unchanged.
Print Assumptions C15_deque_snapshot_or_panic.
Print Assumptions C15_deque_add_remove_panics.

From Juniper Require Import Generated.Params.

Theorem C15_deque_params_ok : 1 <= deque_minSize /\ 2 <= deque_growMul <= 32768.
Proof. unfold deque_minSize, deque_growMul; split; lia. Qed.

Theorem C15_deque_snapshot_or_panic_shipped : forall ops : list (op Z),
    Forall ghost_ok (snd (grun 0 deque_minSize deque_growMul st0 [] ops)).
Proof. exact (C15_deque_snapshot_or_panic 0 deque_minSize deque_growMul (proj1 C15_deque_params_ok) (proj2 C15_deque_params_ok)). Qed.

Print Assumptions C15_deque_snapshot_or_panic_shipped.
