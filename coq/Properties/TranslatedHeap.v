(* C05 (and the heap part of C15) -- the tie to the source by translation.
   Generated/ImpHeap.v is the statement-level translation of EVERY function of internal/heap/heap.go that
   touches the array (parent, children, Len, notifyIndexChanged, less, swap, percolateUp, percolateDown, New,
   Push, Pop, Peek, RemoveAt, Item, UpdateAt), regenerated from the Go source on every run by
   tools/gofacts/imp.go, with 64-bit wrap-around on every int operation, the run-time panics of indexing,
   slicing and division explicit, and the for loops run by goloop.
   The theorems below say that, in every state a history of calls can reach from New, each translated function
   returns the same value, panics with the same class and leaves the same state (array, generation, state of
   the indexChanged closure) as the function of the hand-written model Heap/Model.v that Properties/C05.v and
   C15_heap.v are about.  Only statements live here; each is closed by [exact] of a lemma of
   Translated/ImpHeapOK.v. *)
From Juniper Require Import Common.Base Heap.Model Heap.Lemmas Heap.Proofs.
From Juniper Require Import Translated.GoImp Generated.ImpHeap Translated.ImpHeapOK.

(* every history shorter than 2^60 calls on a heap built by New from fewer than 2^60 items; any less *)
Theorem C05_translated_heap_agrees :
  forall (less : Z -> Z -> bool) (initial : list Z) (ops : list hop),
    zlen initial < 2^60 -> Z.of_nat (length ops) < 2^60 ->
    gi_heap_agrees 0 less no_index (hh (hrun_state less initial ops)).
Proof. exact translated_heap_agrees_on_histories. Qed.

(* the state those histories start from is the one the translated New returns *)
Theorem C05_translated_heap_new_agrees :
  forall (less : Z -> Z -> bool) (initial : list Z),
    zlen initial < 2^60 -> gi_Heap_New less no_index initial tt = hnew less initial.
Proof. exact translated_heap_new_agrees. Qed.

(* the same for ANY heap below the int64 limits whatever its history, any element type and any indexChanged
   closure (the PriorityQueue's map included): fewer than 2^61 items, generation in [0, 2^62) *)
Theorem C05_translated_heap_agrees_small :
  forall (T IS : Type) (zero : T) (less : T -> T -> bool) (on_index : T -> Z -> IS -> IS) (h : heap T IS),
    small h -> gi_heap_agrees zero less on_index h.
Proof. exact @gi_heap_agrees_small. Qed.

(* New for any element type and closure *)
Theorem C05_translated_New_agrees :
  forall (T IS : Type) (less : T -> T -> bool) (on_index : T -> Z -> IS -> IS) (initial : list T) (s0 : IS),
    zlen initial < 2^61 -> gi_Heap_New less on_index initial s0 = new less on_index initial s0.
Proof. exact @gi_New_ok. Qed.

(* the range condition really holds along those histories *)
Theorem C05_translated_small_on_histories :
  forall (less : Z -> Z -> bool) (initial : list Z) (ops : list hop),
    zlen initial < 2^60 -> Z.of_nat (length ops) < 2^60 -> small (hh (hrun_state less initial ops)).
Proof. exact small_on_histories. Qed.

(* parent, children and Len have no side effect and never panic, for ANY argument: the translator's early
   evaluation of them (flag safe) is sound *)
Theorem C05_translated_safe :
  (forall i, exists v, gi_heap_parent i = Ok v) /\
  (forall i, exists v, gi_heap_children i = Ok v) /\
  (forall (T IS : Type) (h : heap T IS), exists v, gi_Heap_Len h = Ok v).
Proof. exact (conj gi_heap_parent_safe (conj gi_heap_children_safe (@gi_Heap_Len_safe))). Qed.

(* the one corner where an UNEXPORTED helper and its model report different panic classes (excluded by the
   hypothesis [i <= 0 \/ 0 < zlen (ha h)] of the percolateUp clause of gi_heap_agrees): percolateUp(i) with
   i > 0 on an empty array.  Go: index out of range.  Model: its fuel, the length, is 0: POther.  No exported
   method calls percolateUp that way, so Push/Pop/RemoveAt/UpdateAt/New agree without exception. *)
Theorem C05_translated_percolateUp_corner :
  forall (T IS : Type) (less : T -> T -> bool) (on_index : T -> Z -> IS -> IS) (g : Z) (s : IS) (i : Z),
    0 < i -> idx i ->
    gi_Heap_percolateUp less on_index i (mkHeap [] g s) = Panic PIndex /\
    up less on_index i ([], s) = Panic POther.
Proof. exact @percolateUp_empty_corner. Qed.

(* non-vacuity: the translated code RUNS.  indexChanged records its calls; New on six items, then on that heap
   (closure state cleared) Len, Peek, Item in and out of range, Push, Pop, RemoveAt in and out of range,
   UpdateAt in and out of range, Pop of an empty heap, parent and children *)
Definition C05_rec (x : Z) (i : Z) (l : list (Z * Z)) : list (Z * Z) := l ++ [(x, i)].

Example C05_translated_heap_runs :
  let h0 : heap Z (list (Z * Z)) := mkHeap [1; 3; 2; 5; 9; 8] 0 [] in
  (gi_Heap_New Z.ltb C05_rec [5; 3; 8; 1; 9; 2] [],
   (gi_Heap_Len h0, gi_Heap_Peek h0, gi_Heap_Item 4 h0, gi_Heap_Item 6 h0),
   gi_Heap_Push Z.ltb C05_rec 0 h0,
   gi_Heap_Pop 0 Z.ltb C05_rec h0,
   (gi_Heap_RemoveAt 0 Z.ltb C05_rec 1 h0, gi_Heap_RemoveAt 0 Z.ltb C05_rec 6 h0),
   (gi_Heap_UpdateAt Z.ltb C05_rec 5 0 h0, gi_Heap_UpdateAt Z.ltb C05_rec (-1) 0 h0),
   gi_Heap_Pop 0 Z.ltb C05_rec (mkHeap [] 3 []),
   (gi_heap_parent 0, gi_heap_parent 7, gi_heap_children 3))
  = (Ok (mkHeap [1; 3; 2; 5; 9; 8] 0
           [(8, 5); (2, 2); (3, 3); (1, 1); (5, 1); (1, 0); (5, 3); (3, 1);
            (1, 0); (3, 1); (2, 2); (5, 3); (9, 4); (8, 5)]),
     (Ok 6, Ok 1, Ok 9, Panic PIndex),
     Ok (mkHeap [0; 3; 1; 5; 9; 8; 2] 1 [(0, 6); (2, 6); (0, 2); (1, 2); (0, 0)]),
     Ok (1, mkHeap [2; 3; 8; 5; 9] 1 [(8, 0); (8, 2); (2, 0)]),
     (Ok (mkHeap [1; 5; 2; 8; 9] 1 [(8, 1); (8, 3); (5, 1)]), Panic PIndex),
     (Ok (mkHeap [0; 3; 1; 5; 9; 2] 1 [(0, 5); (2, 5); (0, 2); (1, 2); (0, 0)]), Panic PIndex),
     Panic PIndex,
     (Ok 0, Ok 3, Ok (7, 8))).
Proof. vm_compute. reflexivity. Qed.

Print Assumptions C05_translated_heap_agrees.
Print Assumptions C05_translated_heap_new_agrees.
Print Assumptions C05_translated_heap_agrees_small.
Print Assumptions C05_translated_New_agrees.
Print Assumptions C05_translated_small_on_histories.
Print Assumptions C05_translated_safe.
Print Assumptions C05_translated_percolateUp_corner.
Print Assumptions C05_translated_heap_runs.
